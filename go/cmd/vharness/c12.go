package main

// C12 — JPEG 2000 irreversible path: loss bounded by the declared quantisation steps.
//
// Property search on the real code: irreversible (9/7) single-tile configurations without a rate target,
// Quality 1..100, NumLevels 0..6, P in {8,12,16}, signed/unsigned, components {1,3}, code-blocks {16,32,64}.
// The bound is computed from the stream alone: SIZ/COD/QCD are parsed here, the step of sub-band b is
//   D_b = 2^(R_b - eps_b) * (1 + mu_b / 2^11),  R_b = P + log2 gain_b  (T.800 E.1.1, gains 0/1/1/2),
// and the worst-case sample effect is  sum_b D_b * sum_{coefficients of b} |synthesis weight at the sample|
// with the synthesis weights of an independent inverse 9/7 written here from T.800 Annex F (float64,
// (1, 2)-normalised: low x K, high x 1/K) — exact for sizes <= 96, conservative closed form above — then
// through the inverse ICT for 3 components, plus a fixed rounding allowance of 1 (3 for RGB).
// Decoded samples must also lie inside the declared sample range.
//
// Correspondence lines (Lean driver ops, lean/GdcVerif/Driver/J2kQuant.lean):
//   j2k-clamp P signed v              Decoder.GetPixelData on a stream decoded to known out-of-range values: not
//                                      reachable through the API; tied instead by go2lean regeneration of the kernel
//   j2k-qcd quality levels P          the SPqcd words found in the real stream (public API)
//   j2k-decstep word P gain           jpeg2000.DecodeQuantizationStep (exported) — gain 0 only
//   j2k-sbindex levels                order of sub-bands in the real QCD vs model (length 3L+1)

import (
	"fmt"
	"math"

	"github.com/cocosip/go-dicom-codecs/jpeg2000"

	"verifharness/internal/hx"
)

type c12Stream struct {
	W, H, Comps, P int
	Signed         bool
	Levels         int
	Transform      int // 0 = 9/7, 1 = 5/3
	MCT            int
	Sqcd           int
	Words          []int // SPqcd 16-bit words (style 1/2) or bytes (style 0)
	TileW, TileH   int
}

func c12Parse(s []byte) (*c12Stream, string) {
	if len(s) < 4 || s[0] != 0xFF || s[1] != 0x4F {
		return nil, "no SOC"
	}
	r := &c12Stream{Levels: -1}
	p := 2
	for p+4 <= len(s) {
		if s[p] != 0xFF {
			return nil, fmt.Sprintf("marker expected at %d", p)
		}
		m := int(s[p+1])
		if m == 0x90 || m == 0x93 || m == 0xD9 {
			break
		}
		L := int(s[p+2])<<8 | int(s[p+3])
		if L < 2 || p+2+L > len(s) {
			return nil, "bad segment length"
		}
		seg := s[p+4 : p+2+L]
		be32 := func(o int) int { return int(seg[o])<<24 | int(seg[o+1])<<16 | int(seg[o+2])<<8 | int(seg[o+3]) }
		switch m {
		case 0x51:
			if len(seg) < 36 {
				return nil, "short SIZ"
			}
			r.W, r.H = be32(2)-be32(10), be32(6)-be32(14)
			r.TileW, r.TileH = be32(18), be32(22)
			r.Comps = int(seg[34])<<8 | int(seg[35])
			if len(seg) < 36+3*r.Comps {
				return nil, "short SIZ"
			}
			r.P = int(seg[36]&0x7F) + 1
			r.Signed = seg[36]&0x80 != 0
		case 0x52:
			if len(seg) < 10 {
				return nil, "short COD"
			}
			r.MCT = int(seg[4])
			r.Levels = int(seg[5])
			r.Transform = int(seg[9])
		case 0x5C:
			r.Sqcd = int(seg[0])
			if r.Sqcd&0x1F == 0 {
				for _, b := range seg[1:] {
					r.Words = append(r.Words, int(b))
				}
			} else {
				for o := 1; o+1 < len(seg); o += 2 {
					r.Words = append(r.Words, int(seg[o])<<8|int(seg[o+1]))
				}
			}
		}
		p += 2 + L
	}
	if r.W == 0 || r.Levels < 0 || r.Words == nil {
		return nil, "SIZ/COD/QCD missing"
	}
	return r, ""
}

// ---------------------------------------------------------------- independent inverse 9/7 (T.800 F.3.8)

const (
	c12Alpha = -1.586134342059924
	c12Beta  = -0.052980118572961
	c12Gamma = 0.882911075530934
	c12Delta = 0.443506852043971
	c12K     = 1.230174104914001
)

// c12Synth1D reconstructs a signal of length n (origin 0) from [low | high] coefficients.
func c12Synth1D(coef []float64) []float64 {
	n := len(coef)
	if n == 1 {
		return []float64{coef[0]}
	}
	sn := (n + 1) / 2
	// interleave with 4 samples of whole-sample symmetric extension on both sides
	const E = 8
	ext := make([]float64, n+2*E)
	at := func(i int) int { // mirror index into 0..n-1
		for i < 0 || i >= n {
			if i < 0 {
				i = -i
			}
			if i >= n {
				i = 2*(n-1) - i
			}
		}
		return i
	}
	y := make([]float64, n)
	for i := 0; i < sn; i++ {
		y[2*i] = coef[i] * c12K
	}
	for i := 0; i < n-sn; i++ {
		y[2*i+1] = coef[sn+i] / c12K
	}
	for i := -E; i < n+E; i++ {
		ext[i+E] = y[at(i)]
	}
	step := func(parity int, c float64, lo, hi int) {
		for i := lo; i < hi; i++ {
			if ((i%2)+2)%2 == parity {
				ext[i+E] -= c * (ext[i-1+E] + ext[i+1+E])
			}
		}
	}
	step(0, c12Delta, -E+1, n+E-1)
	step(1, c12Gamma, -E+2, n+E-2)
	step(0, c12Beta, -E+3, n+E-3)
	step(1, c12Alpha, -E+4, n+E-4)
	out := make([]float64, n)
	copy(out, ext[E:E+n])
	return out
}

type c12Gains struct {
	low  [][]float64 // low[l][x]  : sum_i |P_l(x,i)|, l = 0..L (P_0 = I)
	high [][]float64 // high[l][x] : sum_i |(P_{l-1} A_l[:,high])(x,i)|, l = 1..L
}

// c12ExactGains: absolute row sums of the composed 1-D synthesis operators for a signal of length n.
func c12ExactGains(n, levels int) *c12Gains {
	g := &c12Gains{low: make([][]float64, levels+1), high: make([][]float64, levels+1)}
	P := make([][]float64, n) // n x cur
	for i := range P {
		P[i] = make([]float64, n)
		P[i][i] = 1
	}
	cur := n
	rowsum := func(M [][]float64) []float64 {
		r := make([]float64, n)
		for x := range M {
			for _, v := range M[x] {
				r[x] += math.Abs(v)
			}
		}
		return r
	}
	g.low[0] = rowsum(P)
	for l := 1; l <= levels; l++ {
		sn := (cur + 1) / 2
		// A: cur x cur, columns = unit coefficient vectors
		A := make([][]float64, cur)
		for j := 0; j < cur; j++ {
			e := make([]float64, cur)
			e[j] = 1
			A[j] = c12Synth1D(e) // column j
		}
		mul := func(c0, c1 int) [][]float64 {
			M := make([][]float64, n)
			for x := 0; x < n; x++ {
				M[x] = make([]float64, c1-c0)
				for j := c0; j < c1; j++ {
					s := 0.0
					for k := 0; k < cur; k++ {
						if P[x][k] != 0 {
							s += P[x][k] * A[j][k]
						}
					}
					M[x][j-c0] = s
				}
			}
			return M
		}
		Hm := mul(sn, cur)
		g.high[l] = rowsum(Hm)
		P = mul(0, sn)
		g.low[l] = rowsum(P)
		cur = sn
	}
	return g
}

var c12GL, c12GH = func() (float64, float64) {
	gl, gh := 1.0, 0.0
	for n := 2; n <= 48; n++ {
		g := c12ExactGains(n, 1)
		for x := 0; x < n; x++ {
			gl = math.Max(gl, g.low[1][x])
			gh = math.Max(gh, g.high[1][x])
		}
	}
	return gl, gh
}()

// c12ClosedGains: conservative closed form (sub-multiplicativity of the max-row-sum norm).
func c12ClosedGains(n, levels int) *c12Gains {
	g := &c12Gains{low: make([][]float64, levels+1), high: make([][]float64, levels+1)}
	for l := 0; l <= levels; l++ {
		lo, hi := math.Pow(c12GL, float64(l)), 0.0
		if l > 0 {
			hi = math.Pow(c12GL, float64(l-1)) * c12GH
		}
		g.low[l], g.high[l] = make([]float64, n), make([]float64, n)
		for x := 0; x < n; x++ {
			g.low[l][x], g.high[l][x] = lo, hi
		}
	}
	return g
}

var c12GainCache = map[[2]int]*c12Gains{}

func c12GainsFor(n, levels int) *c12Gains {
	k := [2]int{n, levels}
	if g, ok := c12GainCache[k]; ok {
		return g
	}
	var g *c12Gains
	if n <= 96 {
		g = c12ExactGains(n, levels)
	} else {
		g = c12ClosedGains(n, levels)
	}
	c12GainCache[k] = g
	return g
}

// c12Steps: D_b for the 3L+1 sub-bands in QCD order (LL, then HL,LH,HH from the coarsest level).
func c12Steps(st *c12Stream) ([]float64, string) {
	style := st.Sqcd & 0x1F
	nb := 3*st.Levels + 1
	steps := make([]float64, nb)
	for b := 0; b < nb; b++ {
		gain := 0
		if b > 0 {
			gain = []int{1, 1, 2}[(b-1)%3]
		}
		var eps, mu int
		switch style {
		case 2:
			if b >= len(st.Words) {
				return nil, "QCD has fewer step sizes than sub-bands"
			}
			eps, mu = st.Words[b]>>11, st.Words[b]&0x7FF
		case 1:
			if len(st.Words) < 1 {
				return nil, "empty QCD"
			}
			eps, mu = st.Words[0]>>11, st.Words[0]&0x7FF
			if b > 0 { // E.1.1.1: eps_b = eps_0 - N_L + n_b
				eps -= (b - 1) / 3
			}
		default:
			return nil, "irreversible stream declares no quantisation (style 0)"
		}
		steps[b] = math.Ldexp(1+float64(mu)/2048, st.P+gain-eps)
	}
	return steps, ""
}

// c12MaxExponent: largest exponent eps_b declared in QCD.
func c12MaxExponent(st *c12Stream) int {
	m := 0
	for _, w := range st.Words {
		if e := w >> 11; e > m {
			m = e
		}
	}
	return m
}

// c12StepOverflows: a full-scale coefficient divided by the smallest declared step, times 2^6 (T1 fractional bits),
// reaches 2^31 (within 10%: filter overshoot).
func c12StepOverflows(st *c12Stream) bool {
	steps, e := c12Steps(st)
	if e != "" {
		return false
	}
	for b, d := range steps {
		gain := 1.0
		if b > 0 {
			gain = []float64{2, 2, 4}[(b-1)%3]
		}
		if math.Ldexp(1, st.P-1)*gain*64/d >= 0.9*math.Ldexp(1, 31) {
			return true
		}
	}
	return false
}

// c12Bound returns the per-sample bound map (one component, before colour transform / allowance).
func c12Bound(st *c12Stream) ([]float64, string) {
	steps, e := c12Steps(st)
	if e != "" {
		return nil, e
	}
	gx, gy := c12GainsFor(st.W, st.Levels), c12GainsFor(st.H, st.Levels)
	L := st.Levels
	b := make([]float64, st.W*st.H)
	for y := 0; y < st.H; y++ {
		for x := 0; x < st.W; x++ {
			s := steps[0] * gx.low[L][x] * gy.low[L][y]
			for l := 1; l <= L; l++ { // decomposition level l <-> QCD index 1 + 3*(L-l)
				i := 1 + 3*(L-l)
				s += steps[i] * gx.high[l][x] * gy.low[l][y]   // HL: horizontally high
				s += steps[i+1] * gx.low[l][x] * gy.high[l][y] // LH
				s += steps[i+2] * gx.high[l][x] * gy.high[l][y]
			}
			b[y*st.W+x] = s
		}
	}
	return b, ""
}

// ---------------------------------------------------------------- evaluation

type c12Cfg struct {
	W, H, Comps, P int
	Signed         bool
	Quality        int
	Levels         int
	CB             int
	Class          int
}

func (g c12Cfg) String() string {
	return fmt.Sprintf("%dx%dx%d P%d signed=%v q%d L%d cb%d %s", g.W, g.H, g.Comps, g.P, g.Signed, g.Quality, g.Levels, g.CB, c11ContentNames[g.Class])
}

func c12Pixels(r *hx.Rand, g c12Cfg) ([]int, []byte) {
	s := c11Content(r, g.W, g.H, g.Comps, g.P, g.Class) // 0..2^P-1
	bytesPer := 1
	if g.P > 8 {
		bytesPer = 2
	}
	b := make([]byte, len(s)*bytesPer)
	for i := range s {
		v := s[i]
		if g.Signed {
			s[i] = v - 1<<(g.P-1)
			// the codec's container convention (convertPixelData / GetPixelData): P-bit two's complement in the
			// low P bits, the bits above are zero (not sign-extended)
			v = s[i] & (1<<g.P - 1)
		}
		b[i*bytesPer] = byte(v)
		if bytesPer == 2 {
			b[i*2+1] = byte(v >> 8)
		}
	}
	return s, b
}

// c12Encode is how one evaluation obtains its stream: a fresh Encoder per image, or (family encoder-reuse,
// c12_reuse.go) one long-lived Encoder object whose parameters are rewritten between calls
var c12Encode = func(p *jpeg2000.EncodeParams, px []byte) ([]byte, error) { return jpeg2000.NewEncoder(p).Encode(px) }
var c12History = ""

var c12FailSeen = map[string]int{}
var c12ClampSeen = map[string]bool{}

func c12Fail(c *hx.Ctx, f hx.Failure) {
	c12FailSeen[f.Class]++
	if c12FailSeen[f.Class] <= 4 {
		c.Fail(f)
		return
	}
	c.Count("failures")
	c.Count("fail:" + f.Class)
}

func c12One(c *hx.Ctx, g c12Cfg) {
	src, px := c12Pixels(c.R, g)
	c.Eval(g.String()+hx.Hex(px), g.W*g.H >= 2)
	c.Count(fmt.Sprintf("levels:%d", g.Levels))
	c.Count(fmt.Sprintf("P:%d signed:%v", g.P, g.Signed))
	c.Count(fmt.Sprintf("comps:%d", g.Comps))
	c.Count(fmt.Sprintf("quality-decile:%d", (g.Quality-1)/10))
	c.Count("content:" + c11ContentNames[g.Class])
	in := map[string]any{"width": g.W, "height": g.H, "components": g.Comps, "bitDepth": g.P, "signed": g.Signed, "quality": g.Quality,
		"numLevels": g.Levels, "codeBlock": g.CB, "content": c11ContentNames[g.Class], "pixels": hx.Hex(px)}
	c.Sample(map[string]any{"cfg": g.String()})
	p := jpeg2000.DefaultEncodeParams(g.W, g.H, g.Comps, g.P, g.Signed)
	p.Lossless = false
	p.Quality = g.Quality
	p.NumLevels = g.Levels
	p.NumLayers = 1
	p.TargetRatio = 0
	p.LayerRates = nil
	p.CodeBlockWidth, p.CodeBlockHeight = g.CB, g.CB
	var stream []byte
	var err error
	if c12History != "" {
		in["history"] = c12History
	}
	if pn, msg := hx.Guard(func() { stream, err = c12Encode(p, px) }); pn {
		c12Fail(c, hx.Failure{Class: "c12-encode-panic", What: "encoder panicked: " + msg, Input: in})
		return
	}
	if err != nil {
		c12Fail(c, hx.Failure{Class: "c12-encode-err", What: "encoder rejected a valid configuration: " + err.Error(), Input: in})
		return
	}
	st, perr := c12Parse(stream)
	if perr != "" {
		c12Fail(c, hx.Failure{Class: "c12-stream-unparsable", What: perr, Input: in})
		return
	}
	if st.W != g.W || st.H != g.H || st.Comps != g.Comps || st.P != g.P || st.Signed != g.Signed || st.Levels != g.Levels || st.Transform != 0 {
		c12Fail(c, hx.Failure{Class: "c12-header-mismatch", What: "SIZ/COD do not describe the image / configuration", Input: in,
			Actual: fmt.Sprintf("%+v", *st)})
		return
	}
	d := jpeg2000.NewDecoder()
	var dec []byte
	if pn, msg := hx.Guard(func() {
		err = d.Decode(stream)
		if err == nil {
			dec = d.GetPixelData()
		}
	}); pn {
		c12Fail(c, hx.Failure{Class: "c12-decode-panic", What: "decoder panicked on the encoder's stream: " + msg, Input: in})
		return
	}
	if err != nil {
		c12Fail(c, hx.Failure{Class: "c12-decode-err", What: "decoder rejects the encoder's stream: " + err.Error(), Input: in})
		return
	}
	bytesPer := 1
	if g.P > 8 {
		bytesPer = 2
	}
	if d.Width() != g.W || d.Height() != g.H || d.Components() != g.Comps || d.BitDepth() != g.P || d.IsSigned() != g.Signed || len(dec) != len(src)*bytesPer {
		c12Fail(c, hx.Failure{Class: "c12-geometry", What: "decoded geometry differs", Input: in,
			Actual: fmt.Sprintf("%dx%dx%d P%d signed=%v %d bytes", d.Width(), d.Height(), d.Components(), d.BitDepth(), d.IsSigned(), len(dec))})
		return
	}
	bound, berr := c12Bound(st)
	if berr != "" {
		c12Fail(c, hx.Failure{Class: "c12-qcd", What: berr, Input: in})
		return
	}
	allow := 1.0
	mult := []float64{1}
	if g.Comps == 3 {
		allow = 3
		mult = []float64{1, 1, 1}
		if st.MCT == 1 {
			mult = []float64{1 + 1.402, 1 + 0.34413 + 0.71414, 1 + 1.772}
		}
	}
	worst, wi, wgot := 0.0, -1, 0
	for i := range src {
		v := int(dec[i*bytesPer])
		if bytesPer == 2 {
			v |= int(dec[i*2+1]) << 8
		}
		if v >= 1<<g.P {
			c12Fail(c, hx.Failure{Class: "c12-range", What: "decoded sample outside the declared range", Input: in, Actual: fmt.Sprint(v)})
			return
		}
		if g.Signed && v >= 1<<(g.P-1) {
			v -= 1 << g.P
		}
		lim := bound[i/g.Comps]*mult[i%g.Comps] + allow
		if e := math.Abs(float64(v-src[i])) - lim; e > worst {
			worst, wi, wgot = e, i, v
		}
	}
	// GetPixelData's clamp against the generated kernel: GetImageData is the unclamped int32 sample
	if img := d.GetImageData(); len(img) == g.Comps {
		n := 0
		for i := 0; i < len(src) && n < 24; i++ {
			v := int(img[i%g.Comps][i/g.Comps])
			inRange := v >= 0 && v < 1<<g.P
			if g.Signed {
				inRange = v >= -(1<<(g.P-1)) && v < 1<<(g.P-1)
			}
			key := fmt.Sprintf("%d %v %d", g.P, g.Signed, v)
			if c12ClampSeen[key] || (inRange && n >= 4) {
				continue
			}
			c12ClampSeen[key] = true
			st := int(dec[i*bytesPer])
			if bytesPer == 2 {
				st |= int(dec[i*2+1]) << 8
			}
			sg := 0
			if g.Signed {
				sg = 1
			}
			c.Case(fmt.Sprintf("j2k-clamp %d %d %d", g.P, sg, v), fmt.Sprintf("ok %d", st))
			if !inRange {
				c.Count("clamp-line-out-of-range")
				if g.Signed && v >= 1<<(g.P-1) {
					c.Count("clamp-line-signed-above-max")
				}
			}
			n++
		}
	}
	if wi >= 0 {
		cls := "c12-bound"
		excess := worst
		// relative gain error of the decoder's high-pass synthesis scaling (twoInvK97 = 1.625732422 instead of
		// 2/K = 1.625786132: 3.3e-5 per high-pass stage, two stages for HH), times full scale, times the
		// inverse-ICT multiplier of the channel
		gainErr := 6.6e-5 * math.Ldexp(1, g.P) * mult[wi%g.Comps]
		switch {
		case c12MaxExponent(st) >= 26:
			// some declared step is finer than 2^(P-25): exponent >= 26, i.e. K_max = exponent+1 >= 27 magnitude
			// bit-planes + 6 fractional bits exceed T1's 32-bit coefficients (and (full-scale/step)*64 reaches 2^31)
			cls = "c12-int32-overflow-fine-step"
		case g.P >= 14 && g.Levels >= 1 && excess <= gainErr:
			cls = "c12-p15plus-lsb-loss"
		}
		c12Fail(c, hx.Failure{Class: cls, What: "a decoded sample is further from the source than the QCD step sizes allow", Input: in,
			Expected: fmt.Sprintf("|dec-src| <= %.3f at sample %d (x=%d y=%d ch=%d), QCD words %v", bound[wi/g.Comps]*mult[wi%g.Comps]+allow, wi, wi/g.Comps%g.W, wi/g.Comps/g.W, wi%g.Comps, st.Words),
			Actual:   fmt.Sprintf("src=%d dec=%d", src[wi], wgot)})
	}
}

func c12Correspondence(c *hx.Ctx) {
	// QCD words of real streams against the model of quantizationInfo/encodeQuantizationStep on exact dyadic
	// inputs is not possible (the step sizes come from math.Pow); what is tied here is the *decode* direction
	// and the sub-band order/length, through exported functions.
	for k := 0; k < 400; k++ {
		w := c.R.Intn(65536)
		if k < 64 {
			w = []int{0, 0x7FF, 0x800, 0xFFFF, 0xF800, 0x4000, 0x47FF, 0x8001}[k%8] ^ (k / 8 << 11)
		}
		P := c.R.Pick([]int{1, 8, 12, 16})
		v := jpeg2000.DecodeQuantizationStep(uint16(w), P)
		// exact: (2048 + mant) * 2^(P - expn - 11) — print as numerator and binary exponent
		m, e := math.Frexp(v) // v = m * 2^e, m in [0.5,1)
		num := int64(math.Ldexp(m, 12))
		c.Case(fmt.Sprintf("j2k-decstep %d %d 0", w, P), fmt.Sprintf("ok %d %d", num, e-12))
	}
	for L := 0; L <= 6; L++ {
		for _, P := range []int{8, 12, 16} {
			q := jpeg2000.CalculateQuantizationParams(50, L, P)
			c.Case(fmt.Sprintf("j2k-nbands %d", L), fmt.Sprintf("ok %d", len(q.EncodedSteps)))
		}
	}
	// encodeQuantizationStep (unexported) through CalculateQuantizationParams: requested float64 step -> word
	for k := 0; k < 300; k++ {
		L, P, q := c.R.Intn(7), c.R.Pick([]int{8, 12, 16}), 1+c.R.Intn(100)
		qp := jpeg2000.CalculateQuantizationParams(q, L, P)
		b := c.R.Intn(len(qp.StepSizes))
		fr, e := math.Frexp(qp.StepSizes[b]) // step = fr * 2^e, fr in [0.5,1)
		m := uint64(math.Ldexp(fr, 53))
		c.Case(fmt.Sprintf("j2k-encstep %d %d %d", m, e-53, P), fmt.Sprintf("ok %d", qp.EncodedSteps[b]))
	}
	// the QCD written into a real stream is the table CalculateQuantizationParams returns (same array)
	for k := 0; k < 60; k++ {
		L, P, q := c.R.Intn(7), c.R.Pick([]int{8, 12, 16}), 1+c.R.Intn(100)
		p := jpeg2000.DefaultEncodeParams(8, 8, 1, P, false)
		p.Lossless, p.Quality, p.NumLevels = false, q, L
		bpp := 1
		if P > 8 {
			bpp = 2
		}
		s, err := jpeg2000.NewEncoder(p).Encode(make([]byte, 64*bpp))
		same := false
		if err == nil {
			if st, e := c12Parse(s); e == "" {
				want := jpeg2000.CalculateQuantizationParams(q, L, P).EncodedSteps
				same = len(want) == len(st.Words) && st.Sqcd == 2|2<<5
				for i := range want {
					same = same && int(want[i]) == st.Words[i]
				}
			}
		}
		c.Case("j2k-qcd-tie", fmt.Sprintf("ok %v", same))
	}
}

func c12(c *hx.Ctx) {
	c.Rule = "one evaluation = Encoder.Encode (Lossless=false, 1 layer, no rate target) -> parse SIZ/COD/QCD -> Decoder.Decode/GetPixelData; " +
		"per-sample bound sum_b D_b * |synthesis weights| from an independent inverse 9/7 (exact <= 96, closed form above) x inverse ICT + 1 (3 RGB); " +
		"every Quality 1..100, NumLevels 0..6, P 8/12/16, signed/unsigned, comps 1/3, cb 16/32/64; distinct = distinct (config, pixels); non-trivial = >= 2 pixels"
	c12Correspondence(c)
	// self-check of the closed form: it must dominate the exact gains where both exist
	for _, n := range []int{17, 40, 64, 96} {
		ex, cl := c12ExactGains(n, 5), c12ClosedGains(n, 5)
		for l := 0; l <= 5; l++ {
			for x := 0; x < n; x++ {
				if ex.low[l][x] > cl.low[l][x]+1e-9 || (l > 0 && ex.high[l][x] > cl.high[l][x]+1e-9) {
					c.Count("harness-closed-form-not-conservative")
				}
			}
		}
	}
	Ps := []int{8, 12, 16}
	cbs := []int{16, 32, 64}
	reps := 5
	if c.Thorough() {
		reps = 12
	}
	k := int(c.Seed)
	for rep := 0; rep < reps; rep++ {
		for q := 1; q <= 100; q++ {
			for L := 0; L <= 6; L++ {
				if !c.Thorough() && (q+L+rep)%3 != 0 {
					continue
				}
				g := c12Cfg{Quality: q, Levels: L, P: Ps[k%3], Signed: (k/3)%2 == 1, Comps: 1, CB: cbs[(k/6)%3], Class: []int{0, 1, 2, 3, 4, 5, 7}[k%7]}
				if k%4 == 0 {
					g.Comps = 3
				}
				switch k % 7 {
				case 0:
					g.W, g.H = c.R.Range(1, 12), c.R.Range(1, 12) // smaller than the filter support
				case 1:
					g.W, g.H = c.R.Range(1, 96), 1+c.R.Intn(3)
				case 2:
					g.W, g.H = 1+c.R.Intn(3), c.R.Range(1, 96)
				default:
					g.W, g.H = c.R.Range(8, 96), c.R.Range(8, 96)
					if !c.Thorough() {
						g.W, g.H = c.R.Range(8, 64), c.R.Range(8, 64)
					}
				}
				c12One(c, g)
				k++
			}
		}
	}
	// narrow images with deep decomposition: some sub-bands are empty (min(w,h) <= 2^(levels-1)); every band must
	// still be quantised with its own QCD entry
	for _, sz := range [][3]int{{40, 3, 3}, {40, 3, 4}, {40, 3, 6}, {3, 40, 3}, {3, 40, 5}, {1, 9, 2}, {1, 9, 3}, {1, 9, 6}, {9, 1, 2}, {9, 1, 4},
		{12, 12, 5}, {12, 12, 6}, {2, 2, 2}, {5, 17, 4}, {1, 1, 3}} {
		for _, q := range []int{5, 30, 60, 90} {
			for _, cl := range []int{0, 3} {
				c12One(c, c12Cfg{W: sz[0], H: sz[1], Comps: 1 + 2*(q/30%2), P: Ps[(q/5+cl)%3], Quality: q, Levels: sz[2], CB: 32, Class: cl, Signed: cl == 3})
				c.Count("narrow-deep")
			}
		}
	}
	// signed samples at the top of the range, coarse steps: overshoot above +max must clamp to +max
	for _, P := range []int{12, 16} {
		for _, q := range []int{1, 5, 10, 20} {
			for _, L := range []int{0, 1, 3, 5} {
				for _, cl := range []int{7, 2} {
					c12One(c, c12Cfg{W: 24, H: 17, Comps: 1, P: P, Signed: true, Quality: q, Levels: L, CB: 32, Class: cl})
					c12One(c, c12Cfg{W: 9, H: 9, Comps: 3, P: P, Signed: true, Quality: q, Levels: L, CB: 16, Class: cl})
					c.Count("signed-top-of-range")
				}
			}
		}
	}
	big := [][2]int{{130, 100}}
	if c.Thorough() {
		big = append(big, [2]int{512, 512}, [2]int{300, 257}, [2]int{97, 400})
	}
	for _, sz := range big {
		for L := 0; L <= 6; L += 3 {
			c12One(c, c12Cfg{W: sz[0], H: sz[1], Comps: 1 + 2*(L/3%2), P: Ps[L%3], Quality: c.R.Pick([]int{1, 50, 80, 100}), Levels: L, CB: 64, Class: L % 3})
		}
	}
}

func init() { register("C12", c12) }
