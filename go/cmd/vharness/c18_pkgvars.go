//go:build verif && c18hooks

package main

// Compiled only when the repository carries the generated `verif_pkgvars.go` hooks (gofacts -hooks):
// pointers to every package-level variable of the library packages, for the before/after snapshots of C18.

import (
	rcodec "github.com/cocosip/go-dicom-codecs/codec"
	"github.com/cocosip/go-dicom-codecs/jpeg/extended"
	"github.com/cocosip/go-dicom-codecs/jpeg/standard"
	"github.com/cocosip/go-dicom-codecs/jpeg2000"
	"github.com/cocosip/go-dicom-codecs/jpeg2000/htj2k"
	j2klossless "github.com/cocosip/go-dicom-codecs/jpeg2000/lossless"
	j2klossy "github.com/cocosip/go-dicom-codecs/jpeg2000/lossy"
	"github.com/cocosip/go-dicom-codecs/jpeg2000/mqc"
	"github.com/cocosip/go-dicom-codecs/jpeg2000/t1"
	"github.com/cocosip/go-dicom-codecs/jpeg2000/t2"
	jlslossless "github.com/cocosip/go-dicom-codecs/jpegls/lossless"
	"github.com/cocosip/go-dicom-codecs/jpegls/runmode"
)

func init() {
	c18PkgVars = func() map[string]map[string]any {
		return map[string]map[string]any{
			"codec":             rcodec.VerifPkgVars(),
			"jpeg/extended":     extended.VerifPkgVars(),
			"jpeg/standard":     standard.VerifPkgVars(),
			"jpeg2000":          jpeg2000.VerifPkgVars(),
			"jpeg2000/htj2k":    htj2k.VerifPkgVars(),
			"jpeg2000/lossless": j2klossless.VerifPkgVars(),
			"jpeg2000/lossy":    j2klossy.VerifPkgVars(),
			"jpeg2000/mqc":      mqc.VerifPkgVars(),
			"jpeg2000/t1":       t1.VerifPkgVars(),
			"jpeg2000/t2":       t2.VerifPkgVars(),
			"jpegls/lossless":   jlslossless.VerifPkgVars(),
			"jpegls/runmode":    runmode.VerifPkgVars(),
		}
	}
}
