package main

// C18 — registered codecs are safe for concurrent use.
//
// Search: up to 64 goroutines call Encode/Decode concurrently on the shared registry codecs, each with its own
// pixel data, with nil / per-call / one shared GetDefaultParameters() object, GOMAXPROCS ∈ {1,2,4,16}; every
// result is compared with the same call run alone.  A second build of this harness with `-race` runs the same
// stress in a child process (sub-command C18RACE); every race report becomes a failure whose class names the
// racing function.  When the race build is not ready in time (cold build cache) the sub-step is reported as
// unavailable in the evidence, never silently skipped.
//
// Correspondence lines (dynamic observation vs Gen.Facts):
//   fact-codec-types                       reflect types of the 14 registry entries
//   fact-codec-changed <type> <0|1>        deep hash of the codec object before/after the whole workload
//   fact-pkgvars <pkg>                     names returned by the package's VerifPkgVars hook
//   fact-pkgvar-changed <pkg.var> <0|1>    deep hash of the variable before/after the whole workload
//   fact-goroutines <delta>                goroutines left behind by a solo workload
//   fact-validate <type> <fields> <changed> fields whose value Validate changed on a concrete object

import (
	"bytes"
	"fmt"
	"math"
	"os"
	"os/exec"
	"path/filepath"
	"reflect"
	"regexp"
	"runtime"
	"sort"
	"strings"
	"sync"
	"time"

	"github.com/cocosip/go-dicom-codecs/jpeg2000/htj2k"
	dcodec "github.com/cocosip/go-dicom/pkg/imaging/codec"

	"verifharness/internal/hx"
)

func init() {
	register("C18", c18Main)
	register("C18RACE", c18RaceChild)
}

// c18PkgVars is set by c18_pkgvars.go (build tag c18hooks) when the repository carries the verif_pkgvars.go hooks.
var c18PkgVars func() map[string]map[string]any

const c18Module = "github.com/cocosip/go-dicom-codecs/"

type c18Job struct {
	sy      c10Syntax
	cd      dcodec.Codec
	info    c10Info
	frames  [][]byte
	enc     map[bool][][]byte // by "with default parameters?": solo encoded frames
	dec     map[bool][][]byte
	usable  map[bool]bool
	typeKey string
}

func c18TypeKey(cd dcodec.Codec) string {
	t := reflect.TypeOf(cd)
	if t.Kind() == reflect.Ptr {
		t = t.Elem()
	}
	return strings.TrimPrefix(t.PkgPath(), c18Module) + "." + t.Name()
}

func c18Jobs(c *hx.Ctx) []*c18Job {
	var jobs []*c18Job
	reg := dcodec.GetGlobalRegistry()
	for _, sy := range c10Syntaxes() {
		cd, ok := reg.GetCodec(sy.TS)
		if !ok {
			continue
		}
		// tiny frames (shorter side 1..31 px, 1x1 included: size-dependent parameter clamping paths), frames of
		// a few code-blocks, and — for scans long enough to overlap in time — 192x160 frames of more than 8 bits
		type geo struct{ w, h, spp, bs int }
		deep := 8
		if sy.MaxBits > 8 {
			deep = 12
		}
		geos := []geo{{1, 1, 1, 8}, {7, 5, 1, 8}, {16, 16, 1, deep}, {16, 16, 3, 8}, {31, 40, 3, 8}, {64, 48, 1, deep}, {72, 64, 3, 8}}
		if sy.MaxBits > 8 {
			geos = append(geos, geo{192, 160, 1, deep})
		}
		if sy.Name == "jls80" || sy.Name == "jls81" {
			geos = append(geos, geo{192, 160, 3, 16}, geo{200, 170, 1, 16})
		}
		for _, g := range geos {
			spp, bs := g.spp, g.bs
			if sy.Name == "jpeg51" && spp == 3 {
				bs = 8
			}
			ba := 8
			if bs > 8 {
				ba = 16
			}
			info := c10Info{g.w, g.h, spp, ba, bs}
			j := &c18Job{sy: sy, cd: cd, info: info, enc: map[bool][][]byte{}, dec: map[bool][][]byte{}, usable: map[bool]bool{}, typeKey: c18TypeKey(cd)}
			nf := 2
			if g.w*g.h > 10000 {
				nf = 1
			}
			for k := 0; k < nf; k++ {
				j.frames = append(j.frames, c10Frame(c.R, info, k*3))
			}
			for _, withP := range []bool{false, true} {
				var p dcodec.Parameters
				if withP {
					p = cd.GetDefaultParameters()
				}
				enc, oc := c10Run(cd, true, info, j.frames, p)
				if oc != "ok" || len(enc) != len(j.frames) {
					continue
				}
				if withP {
					p = cd.GetDefaultParameters()
				}
				dec, doc := c10Run(cd, false, info, enc, p)
				if doc != "ok" || len(dec) != len(j.frames) {
					continue
				}
				j.enc[withP], j.dec[withP], j.usable[withP] = enc, dec, true
			}
			if j.usable[false] || j.usable[true] {
				jobs = append(jobs, j)
				c.Count(fmt.Sprintf("job:%dx%dx%d-bs%d", g.w, g.h, spp, bs))
			} else {
				c.Count("job-unusable:" + sy.Name + fmt.Sprintf(":%dx%dx%d", g.w, g.h, spp))
			}
		}
	}
	return jobs
}

type c18Mismatch struct {
	class, what string
	input       map[string]any
}

// c18Stress runs nG goroutines × ops calls; returns evaluations and mismatches.
// c18ParamsChanged: codec types whose shared parameters object differs after a stress run (deep hash)
var c18ParamsChanged = map[string]bool{}
var c18ParamsSeen = map[string]bool{}

func c18Stress(jobs []*c18Job, gmp, nG, ops int, mode string, seed uint64) (int, []c18Mismatch) {
	old := runtime.GOMAXPROCS(gmp)
	defer runtime.GOMAXPROCS(old)
	shared := map[*c18Job]dcodec.Parameters{}
	sharedByType := map[dcodec.Codec]dcodec.Parameters{}
	if mode == "shared" {
		for _, j := range jobs {
			if _, ok := sharedByType[j.cd]; !ok {
				sharedByType[j.cd] = j.cd.GetDefaultParameters()
			}
			shared[j] = sharedByType[j.cd]
		}
	}
	sharedHash := map[dcodec.Codec][32]byte{}
	for cd, p := range sharedByType {
		sharedHash[cd] = c10DeepHash(reflect.ValueOf(p))
	}
	// the shared objects are hashed before and after, and — in the plain build, where a racy read is only a read —
	// polled DURING the run, so that a temporary modification that is restored before the call returns is seen
	stopWatch := make(chan struct{})
	watchDone := make(chan struct{})
	transient := map[string]bool{}
	go func() {
		defer close(watchDone)
		if c18RaceBuild || len(sharedByType) == 0 {
			return
		}
		for {
			select {
			case <-stopWatch:
				return
			default:
			}
			for cd, p := range sharedByType {
				if c10DeepHash(reflect.ValueOf(p)) != sharedHash[cd] {
					transient[c18TypeKey(cd)] = true
				}
			}
			runtime.Gosched()
		}
	}()
	defer func() {
		close(stopWatch)
		<-watchDone
		for cd, p := range sharedByType {
			k := c18TypeKey(cd)
			c18ParamsSeen[k] = true
			if c10DeepHash(reflect.ValueOf(p)) != sharedHash[cd] || transient[k] {
				c18ParamsChanged[k] = true
			}
		}
	}()
	var mu sync.Mutex
	var mism []c18Mismatch
	evals := 0
	var wg sync.WaitGroup
	start := make(chan struct{})
	for g := 0; g < nG; g++ {
		wg.Add(1)
		go func(g int) {
			defer wg.Done()
			r := hx.NewRand(seed*1000003 + uint64(g))
			<-start
			for spin := r.Intn(3000); spin > 0; spin-- { // randomised start offset
				if spin%64 == 0 {
					runtime.Gosched()
				}
			}
			for k := 0; k < ops; k++ {
				j := jobs[r.Intn(len(jobs))]
				withP := mode != "nil"
				if !j.usable[withP] {
					continue
				}
				var p dcodec.Parameters
				switch mode {
				case "percall":
					p = j.cd.GetDefaultParameters()
				case "shared":
					p = shared[j]
				}
				enc := r.Bool()
				var out [][]byte
				var oc string
				var want [][]byte
				if enc {
					out, oc = c10Run(j.cd, true, j.info, j.frames, p)
					want = j.enc[withP]
				} else {
					out, oc = c10Run(j.cd, false, j.info, j.enc[withP], p)
					want = j.dec[withP]
				}
				same := oc == "ok" && len(out) == len(want)
				for i := 0; same && i < len(out); i++ {
					same = bytes.Equal(out[i], want[i])
				}
				mu.Lock()
				evals++
				if !same && len(mism) < 50 {
					op := "Decode"
					if enc {
						op = "Encode"
					}
					mism = append(mism, c18Mismatch{class: fmt.Sprintf("c18-result-differs-%s-%s", j.sy.Name, mode),
						what:  op + " under concurrency differs from the same call run alone",
						input: map[string]any{"ts": j.sy.Name, "info": j.info.String(), "mode": mode, "gomaxprocs": gmp, "goroutines": nG, "outcome": oc, "seed": seed}})
				}
				mu.Unlock()
				if r.Intn(8) == 0 { // low-level object that may lazily touch the shared VLC tables
					_ = htj2k.NewVLCDecoderOptimized([]byte{0xFF, 0x00, 0x12, 0x34})
				}
			}
		}(g)
	}
	close(start)
	wg.Wait()
	return evals, mism
}

// c18PerCodec: for every codec type its own mix (tiny and large frames of that codec only) on ONE shared
// parameters object — the schedule in which a size-dependent write to the shared object meets a reader
func c18PerCodec(jobs []*c18Job, gmp, nG, ops int, seed uint64, each func(typeKey string, n int, mism []c18Mismatch)) {
	byType := map[string][]*c18Job{}
	var keys []string
	for _, j := range jobs {
		if _, ok := byType[j.typeKey]; !ok {
			keys = append(keys, j.typeKey)
		}
		byType[j.typeKey] = append(byType[j.typeKey], j)
	}
	sort.Strings(keys)
	for i, k := range keys {
		n, mism := c18Stress(byType[k], gmp, nG, ops, "shared", seed+uint64(i)*131)
		each(k, n, mism)
	}
}

func c18Plan(thorough bool) (gmps []int, nG, ops int) {
	if thorough {
		return []int{1, 2, 4, 16}, 64, 24
	}
	return []int{1, 2, 4, 16}, 64, 3
}

func c18Main(c *hx.Ctx) {
	c.Rule = "an evaluation is one concurrent Encode/Decode call compared with its solo result; non-trivial when ≥ 2 goroutines were running"
	// start the race build first: it runs while the plain stress does
	raceBin := filepath.Join(c.Dir, "vharness-race")
	raceDone := make(chan error, 1)
	go func() {
		cmd := exec.Command("go", "build", "-race", "-tags", c18BuildTags(), "-o", raceBin, "./cmd/vharness")
		cmd.Env = os.Environ()
		out, err := cmd.CombinedOutput()
		if err != nil {
			err = fmt.Errorf("%v: %s", err, string(out))
		}
		raceDone <- err
	}()

	jobs := c18Jobs(c)
	c.CountN("jobs", len(jobs))
	// snapshots before any concurrent work
	codecs := map[string]dcodec.Codec{}
	for _, j := range jobs {
		codecs[j.typeKey] = j.cd
	}
	codecBefore := map[string][32]byte{}
	for k, cd := range codecs {
		codecBefore[k] = c10DeepHash(reflect.ValueOf(cd))
	}
	var pv map[string]map[string]any
	pvBefore := map[string][32]byte{}
	if c18PkgVars != nil {
		pv = c18PkgVars()
		for pkg, vars := range pv {
			for n, p := range vars {
				pvBefore[pkg+"."+n] = c10DeepHash(reflect.ValueOf(p))
			}
		}
	} else {
		c.Count("pkgvar-hooks-absent")
		c.Notes = append(c.Notes, "repository has no verif_pkgvars.go hooks: package-variable snapshots not taken")
	}
	// goroutines left behind by a solo workload
	g0 := runtime.NumGoroutine()
	for _, j := range jobs {
		if j.usable[false] {
			c10Run(j.cd, true, j.info, j.frames, nil)
			c10Run(j.cd, false, j.info, j.enc[false], nil)
		}
	}
	time.Sleep(20 * time.Millisecond)
	c.Case(fmt.Sprintf("fact-goroutines %d", maxInt(0, runtime.NumGoroutine()-g0)), "ok")

	gmps, nG, ops := c18Plan(c.Thorough())
	for _, gmp := range gmps {
		for _, mode := range []string{"nil", "percall", "shared"} {
			n, mism := c18Stress(jobs, gmp, nG, ops, mode, c.Seed+uint64(gmp)*7)
			for i := 0; i < n; i++ {
				c.Eval(fmt.Sprintf("stress|%d|%s|%d", gmp, mode, i), nG >= 2)
			}
			c.CountN(fmt.Sprintf("calls:gomaxprocs%d:%s", gmp, mode), n)
			for _, m := range mism {
				c10Fail(c, hx.Failure{Class: m.class, What: m.what, Input: m.input, Expected: "identical bytes", Actual: fmt.Sprint(m.input["outcome"])})
			}
		}
	}

	pcG, pcOps := 8, 3
	if c.Thorough() {
		pcG, pcOps = 32, 12
	}
	for _, gmp := range []int{4, 16} {
		c18PerCodec(jobs, gmp, pcG, pcOps, c.Seed+uint64(gmp)*977, func(k string, n int, mism []c18Mismatch) {
			for i := 0; i < n; i++ {
				c.Eval(fmt.Sprintf("percodec|%d|%s|%d", gmp, k, i), true)
			}
			c.CountN("calls:percodec-shared:"+k, n)
			for _, m := range mism {
				c10Fail(c, hx.Failure{Class: m.class, What: m.what, Input: m.input, Expected: "identical bytes", Actual: fmt.Sprint(m.input["outcome"])})
			}
		})
	}

	// facts from the dynamic side
	var types []string
	for k := range codecs {
		types = append(types, k)
	}
	sort.Strings(types)
	c.Case("fact-codec-types", "ok "+strings.Join(types, ","))
	for _, k := range types {
		ch := 0
		if c10DeepHash(reflect.ValueOf(codecs[k])) != codecBefore[k] {
			ch = 1
		}
		c.Case(fmt.Sprintf("fact-codec-changed %s %d", k, ch), "ok")
	}
	for _, k := range types {
		if c18ParamsChanged[k] {
			// a shared, already-valid parameters object was written while other goroutines were using it
			c10Fail(c, hx.Failure{Class: "c18-shared-parameters-written-" + k, What: "the shared GetDefaultParameters() object changed (possibly only temporarily) during concurrent Encode/Decode calls",
				Input: map[string]any{"codec": k, "mode": "shared", "seed": c.Seed}, Expected: "object only read", Actual: "deep hash differs during or after the run"})
		}
	}
	for _, k := range types {
		if c18ParamsSeen[k] {
			ch := 0
			if c18ParamsChanged[k] {
				ch = 1
			}
			c.Case(fmt.Sprintf("fact-codec-params-changed %s %d", k, ch), "ok")
		}
	}
	if pv != nil {
		var pkgs []string
		for p := range pv {
			pkgs = append(pkgs, p)
		}
		sort.Strings(pkgs)
		for _, pkg := range pkgs {
			var names []string
			for n := range pv[pkg] {
				names = append(names, n)
			}
			sort.Strings(names)
			c.Case("fact-pkgvars "+pkg, "ok "+strings.Join(names, ","))
			for _, n := range names {
				ch := 0
				if c10DeepHash(reflect.ValueOf(pv[pkg][n])) != pvBefore[pkg+"."+n] {
					ch = 1
				}
				c.Case(fmt.Sprintf("fact-pkgvar-changed %s.%s %d", pkg, n, ch), "ok")
				c.Count("pkgvar-snapshots")
			}
		}
	}
	c18ValidateFacts(c, codecs)

	// the race sub-step
	wait := 90 * time.Second
	if c.Thorough() {
		wait = 900 * time.Second
	}
	raceStatus := ""
	select {
	case err := <-raceDone:
		if err != nil {
			c.Count("race-substep-unavailable")
			raceStatus = "UNAVAILABLE: race detector build failed: " + err.Error()
			break
		}
		c18RunRace(c, raceBin)
		raceStatus = fmt.Sprintf("ran: %d race reports", c.Distribution["race-reports"])
	case <-time.After(wait):
		c.Count("race-substep-unavailable")
		raceStatus = fmt.Sprintf("UNAVAILABLE: race detector build not finished after %s (cold build cache; run `bin/check setup` first); sub-step not run", wait)
	}
	c.Notes = append(c.Notes, "race sub-step "+raceStatus)
	// samples go into the evidence file: the status of the race sub-step is the first one
	c.Samples = append([]any{map[string]any{"race_substep": raceStatus}}, c.Samples...)
	c.Sample(map[string]any{"jobs": len(jobs), "goroutines": nG, "gomaxprocs": gmps})
}

func c18BuildTags() string {
	if c18PkgVars != nil {
		return "verif,c18hooks"
	}
	return "verif"
}

// ---------------------------------------------------------------- race child

func c18RaceChild(c *hx.Ctx) {
	jobs := c18Jobs(c)
	nG, ops := 16, 2
	if c.Thorough() {
		nG, ops = 64, 6
	}
	gmps := []int{16}
	if c.Thorough() {
		gmps = []int{4, 16}
	}
	for _, gmp := range gmps {
		for _, mode := range []string{"nil", "percall", "shared"} {
			n, _ := c18Stress(jobs, gmp, nG, ops, mode, c.Seed+uint64(gmp))
			c.CountN("race-child-calls", n)
		}
		c18PerCodec(jobs, gmp, 8, 3, c.Seed+uint64(gmp)*977, func(_ string, n int, _ []c18Mismatch) {
			c.CountN("race-child-calls", n)
		})
	}
}

var c18FrameRe = regexp.MustCompile(`(?m)^\s+(\S+)\(`)

func c18RunRace(c *hx.Ctx, bin string) {
	dir := filepath.Join(c.Dir, "race")
	_ = os.MkdirAll(dir, 0o755)
	cmd := exec.Command(bin, "C18RACE", "-seed", fmt.Sprint(c.Seed), "-tier", c.Tier, "-out", dir)
	cmd.Env = append(os.Environ(), "GORACE=halt_on_error=0 exitcode=0 history_size=2")
	var stderr bytes.Buffer
	cmd.Stderr = &stderr
	cmd.Stdout = &stderr
	done := make(chan error, 1)
	go func() { done <- cmd.Run() }()
	lim := 240 * time.Second
	if c.Thorough() {
		lim = 1200 * time.Second
	}
	select {
	case err := <-done:
		if err != nil {
			c.Notes = append(c.Notes, "race child exited with "+err.Error())
		}
	case <-time.After(lim):
		_ = cmd.Process.Kill()
		c.Count("race-child-timeout")
	}
	c.Count("race-substep-ran")
	reports := strings.Split(stderr.String(), "WARNING: DATA RACE")
	c.CountN("race-reports", len(reports)-1)
	for _, rep := range reports[1:] {
		end := strings.Index(rep, "==================")
		if end > 0 {
			rep = rep[:end]
		}
		// first stack frame of the first access
		fn := "unknown"
		if m := c18FrameRe.FindStringSubmatch(rep); m != nil {
			fn = strings.TrimPrefix(m[1], c18Module)
		}
		c.Eval("race|"+fn, true)
		lines := strings.Split(strings.TrimSpace(rep), "\n")
		if len(lines) > 14 {
			lines = lines[:14]
		}
		c10Fail(c, hx.Failure{Class: "c18-race-" + fn, What: "data race reported by the Go race detector",
			Input:    map[string]any{"first_access": fn, "seed": c.Seed, "cmd": "vharness(-race) C18RACE"},
			Expected: "no race report", Actual: strings.Join(lines, " | ")})
	}
}

// ---------------------------------------------------------------- Validate observations

func c18LeanType(t reflect.Type) string {
	rel := strings.TrimPrefix(t.PkgPath(), c18Module)
	return "V_" + strings.NewReplacer("/", "_", ".", "_").Replace(rel) + "_" + t.Name()
}

func c18FieldsOf(v reflect.Value) (kv []string, vals map[string]string) {
	vals = map[string]string{}
	t := v.Type()
	for i := 0; i < t.NumField(); i++ {
		f, n := v.Field(i), t.Field(i).Name
		if !t.Field(i).IsExported() {
			continue
		}
		switch f.Kind() {
		case reflect.Int, reflect.Int8, reflect.Int16, reflect.Int32, reflect.Int64:
			kv = append(kv, fmt.Sprintf("%s=%d", n, f.Int()))
			vals[n] = fmt.Sprint(f.Int())
		case reflect.Uint, reflect.Uint8, reflect.Uint16, reflect.Uint32, reflect.Uint64:
			kv = append(kv, fmt.Sprintf("%s=%d", n, f.Uint()))
			vals[n] = fmt.Sprint(f.Uint())
		case reflect.Bool:
			b := 0
			if f.Bool() {
				b = 1
			}
			kv = append(kv, fmt.Sprintf("%s=%d", n, b))
			vals[n] = fmt.Sprint(b)
		case reflect.Float32, reflect.Float64:
			x := f.Float()
			var iv int64
			if x > 0 {
				iv = int64(math.Ceil(x))
			} else {
				iv = int64(math.Floor(x))
			}
			kv = append(kv, fmt.Sprintf("%s=%d", n, iv))
			vals[n] = fmt.Sprint(x)
		case reflect.Slice:
			kv = append(kv, fmt.Sprintf("len_%s=%d", n, f.Len()))
			h := c10DeepHash(f)
			vals[n] = fmt.Sprintf("%x", h[:8])
		}
	}
	return
}

func c18ValidateFacts(c *hx.Ctx, codecs map[string]dcodec.Codec) {
	var keys []string
	for k := range codecs {
		keys = append(keys, k)
	}
	sort.Strings(keys)
	seen := map[string]bool{}
	for _, k := range keys {
		for variant := 0; variant < 3; variant++ {
			p := codecs[k].GetDefaultParameters()
			pvv := reflect.ValueOf(p)
			m := pvv.MethodByName("Validate")
			if !m.IsValid() || pvv.Kind() != reflect.Ptr || pvv.Elem().Kind() != reflect.Struct || m.Type().NumIn() != 0 {
				continue
			}
			lt := c18LeanType(pvv.Elem().Type())
			if variant == 0 && seen[lt] {
				break
			}
			seen[lt] = true
			sv := pvv.Elem()
			// variants 1, 2: push every integer field out of range
			if variant > 0 {
				for i := 0; i < sv.NumField(); i++ {
					f := sv.Field(i)
					if !f.CanSet() {
						continue
					}
					switch f.Kind() {
					case reflect.Int, reflect.Int8, reflect.Int16, reflect.Int32, reflect.Int64:
						if variant == 1 {
							f.SetInt(-1)
						} else {
							f.SetInt(100000)
						}
					case reflect.Uint8:
						if variant == 2 {
							f.SetUint(200)
						}
					}
				}
			}
			kv, before := c18FieldsOf(sv)
			hx.Guard(func() { m.Call(nil) })
			_, after := c18FieldsOf(sv)
			if strings.Contains(lt, "htj2k") {
				// pseudo-fields of the generated kernel: nearestPowerOf2(p.F); Validate leaves exactly that value in F
				for _, f := range []string{"BlockWidth", "BlockHeight"} {
					if v, ok := after[f]; ok {
						kv = append(kv, fmt.Sprintf("nearestPowerOf2_%s=%s", f, v))
					}
				}
			}
			var changed []string
			for n, b := range before {
				if after[n] != b {
					changed = append(changed, n)
				}
			}
			sort.Strings(changed)
			ch := "-"
			if len(changed) > 0 {
				ch = strings.Join(changed, ",")
			}
			kvs := "-"
			if len(kv) > 0 {
				kvs = strings.Join(kv, ",")
			}
			c.Case(fmt.Sprintf("fact-validate %s %s %s", lt, kvs, ch), "ok")
			c.Count("validate-observations")
			if variant == 0 && len(changed) > 0 {
				c10Fail(c, hx.Failure{Class: "c18-validate-changes-default-object-" + lt, What: "Validate changed a field of the object GetDefaultParameters returned",
					Input: map[string]any{"type": lt, "changed": changed}})
			}
		}
	}
}
