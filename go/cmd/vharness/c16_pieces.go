//go:build c16pieces

package main

// C16 — tile-part bodies cut into the pieces the theorem `j2k_bodies_marker_free` is about: packet headers
// (t2.Packet.Header) and code-block contributions (t2.Packet.CodeBlockIncls[i].Data), obtained from the encoder's own
// pipeline through the hook jpeg2000.VerifTilePacketsC16.  Two things are checked per tile-part:
//   * the abstraction: the concatenation of the pieces IS the body found in the real Encode output (correspondence
//     line `c16-j2k-pieces`, the Lean side concatenates and evaluates the spec predicate on every piece);
//   * the property, piece by piece: no FF90..FFFF pair inside a piece and no piece ends on 0xFF.

import (
	"bytes"
	"fmt"
	"strings"

	"github.com/cocosip/go-dicom-codecs/jpeg2000"
	"github.com/cocosip/go-dicom-codecs/jpeg2000/htj2k"

	"verifharness/internal/hx"
)

func c16PieceOk(p []byte) bool {
	for k := 0; k+1 < len(p); k++ {
		if p[k] == 0xFF && p[k+1] >= 0x90 {
			return false
		}
	}
	return len(p) == 0 || p[len(p)-1] != 0xFF
}

func c16Pieces(c *hx.Ctx, cases []*c16Case, results []*c16Result) {
	lim := 60
	if c.Thorough() {
		lim = 400
	}
	n := 0
	for i, k := range cases {
		res := results[i]
		if res.J2k == nil || n >= lim || len(res.Out) > 8000 {
			continue
		}
		p := *k.J2K
		if p.HTJ2KMode {
			p.BlockEncoderFactory = func(w, h int) jpeg2000.BlockEncoder { return htj2k.NewHTEncoder(w, h) }
		}
		var tiles [][]t2Packet
		var err error
		pan, _ := hx.Guard(func() { tiles, err = c16TilePackets(&p, k.Pix) })
		if pan || err != nil {
			c.Count("pieces:not-per-tile-path")
			continue
		}
		// HTJ2K: the partition of a tile's packets into NumLevels+1 tile-parts by resolution (first loop of
		// writeHTJ2KTileParts) against the model `htPartition`: packets in, the real tile-part bodies out
		if p.HTJ2KMode && len(res.J2k.Parts) == len(tiles)*(p.NumLevels+1) {
			for t, pk := range tiles {
				var sb strings.Builder
				for _, q := range pk {
					hdr, body := []byte{}, []byte{}
					if len(q.Pieces) > 0 {
						hdr = q.Pieces[0]
						body = bytes.Join(q.Pieces[1:], nil)
					}
					fmt.Fprintf(&sb, " %d:%s:%s", q.Res, hx.Hex(hdr), hx.Hex(body))
				}
				var real []string
				for r := 0; r <= p.NumLevels; r++ {
					real = append(real, hx.Hex(res.J2k.Parts[t*(p.NumLevels+1)+r].Body))
				}
				c.Case(fmt.Sprintf("c16-ht-partition %d%s", p.NumLevels, sb.String()), "ok "+strings.Join(real, " "))
				c.Count("pieces:ht-partition")
			}
		}
		// expected tile-part bodies: classic = one per tile; HTJ2K = one per (tile, resolution)
		var bodies [][][]byte // per tile-part: its pieces
		for _, pk := range tiles {
			if p.HTJ2KMode {
				parts := make([][][]byte, p.NumLevels+1)
				for _, q := range pk {
					if q.Res < 0 || q.Res > p.NumLevels {
						continue
					}
					parts[q.Res] = append(parts[q.Res], q.Pieces...)
				}
				bodies = append(bodies, parts...)
			} else {
				var ps [][]byte
				for _, q := range pk {
					ps = append(ps, q.Pieces...)
				}
				bodies = append(bodies, ps)
			}
		}
		if len(bodies) != len(res.J2k.Parts) {
			c.Fail(hx.Failure{Class: "c16-j2k-pieces-partcount", What: fmt.Sprintf("%d tile-parts in the stream, %d from the packet encoder", len(res.J2k.Parts), len(bodies)), Input: k.input()})
			continue
		}
		n++
		for t, ps := range bodies {
			real := res.J2k.Parts[t].Body
			ok := true
			var sb strings.Builder
			nonEmpty := 0
			for _, piece := range ps {
				if len(piece) == 0 {
					continue
				}
				nonEmpty++
				sb.WriteByte(' ')
				sb.WriteString(hx.Hex(piece))
				if !c16PieceOk(piece) {
					ok = false
					c.Fail(hx.Failure{Class: "c16-" + k.Enc + "-piece-not-marker-free", What: "a packet header / code-block contribution contains FF90..FFFF or ends on 0xFF: " + hx.Hex(piece),
						Input: k.input()})
				}
			}
			cat := bytes.Join(ps, nil)
			c.Eval(fmt.Sprintf("pieces %s part %d", k.key(), t), nonEmpty >= 2)
			c.Count("pieces:tile-parts")
			c.CountN("pieces:pieces", nonEmpty)
			if !bytes.Equal(cat, real) {
				c.Fail(hx.Failure{Class: "c16-" + k.Enc + "-body-not-concat-of-pieces", What: fmt.Sprintf("tile-part %d: body has %d bytes, packet pieces concatenate to %d", t, len(real), len(cat)), Input: k.input()})
			}
			if nonEmpty == 0 {
				continue
			}
			c.Case("c16-j2k-pieces"+sb.String(), fmt.Sprintf("ok %s %d", hx.Hex(real), c16B(ok)))
		}
	}
}

type t2Packet struct {
	Res    int
	Pieces [][]byte
}

func c16TilePackets(p *jpeg2000.EncodeParams, pix []byte) ([][]t2Packet, error) {
	tiles, err := jpeg2000.VerifTilePacketsC16(p, pix)
	if err != nil {
		return nil, err
	}
	out := make([][]t2Packet, len(tiles))
	for i, pk := range tiles {
		for _, q := range pk {
			tp := t2Packet{Res: q.ResolutionLevel, Pieces: [][]byte{q.Header}}
			used := 0
			for _, cb := range q.CodeBlockIncls {
				if cb.Included {
					tp.Pieces = append(tp.Pieces, cb.Data)
					used += len(cb.Data)
				}
			}
			if used != len(q.Body) {
				// packets built by a fallback path carry only Body
				tp.Pieces = [][]byte{q.Header, q.Body}
			}
			out[i] = append(out[i], tp)
		}
	}
	return out, nil
}
