package main

// C20: JPEG 2000 building blocks are exact inverses — RCT, 5/3 DWT, MQ coder, EBCOT T1.
//
// Correspondence (Lean models / generated kernels vs the real functions):
//   rct-fwd / rct-inv        Gen.J2kColor.RCTForward/RCTInverse   vs colorspace.RCTForward/RCTInverse (|x| <= 2^28)
//   rct-fwd32 / rct-inv32    Rct.forward32/inverse32 (int32 wrap)  vs the same functions on arbitrary int32
//   dwt-win                  Gen.J2kWavelet.nextLowpassWindow      vs wavelet.LLDimensionsWithParity(levels=1)
//   dwt-fwd1 / dwt-inv1      Dwt53.forward53_1d/inverse53_1d       vs wavelet.Forward53_1DWithParity/Inverse53_1DWithParity
//   dwt-fwd / dwt-inv        Dwt53.forwardMultilevel/inverse…      vs wavelet.Forward/InverseMultilevelWithParity
//   mq-enc / mq-dec          Mqc.encodeBytes / Mqc.decodeBits      vs mqc.NewMQEncoder…Flush / mqc.NewMQDecoder…Decode
//   mq-script                Mqc termination / bypass variants     vs the same method sequence on mqc.MQEncoder
//   mq-raw                   Mqc.rawDecode                         vs mqc.NewRawDecoder…RawDecode
// T1 has no Lean model: property search only.
// Property search = the four round trips evaluated on the real code through the exported API.

import (
	"fmt"
	"strconv"
	"strings"

	"github.com/cocosip/go-dicom-codecs/jpeg2000/colorspace"
	"github.com/cocosip/go-dicom-codecs/jpeg2000/mqc"
	"github.com/cocosip/go-dicom-codecs/jpeg2000/t1"
	"github.com/cocosip/go-dicom-codecs/jpeg2000/wavelet"

	"verifharness/internal/hx"
)

func c20Ints(xs []int32) string {
	if len(xs) == 0 {
		return "-"
	}
	var b strings.Builder
	for i, x := range xs {
		if i > 0 {
			b.WriteByte(',')
		}
		b.WriteString(strconv.Itoa(int(x)))
	}
	return b.String()
}

func c20IntsI(xs []int) string {
	if len(xs) == 0 {
		return "-"
	}
	var b strings.Builder
	for i, x := range xs {
		if i > 0 {
			b.WriteByte(',')
		}
		b.WriteString(strconv.Itoa(x))
	}
	return b.String()
}

func c20B(b bool) int {
	if b {
		return 1
	}
	return 0
}

func c20Eq(a, b []int32) bool {
	if len(a) != len(b) {
		return false
	}
	for i := range a {
		if a[i] != b[i] {
			return false
		}
	}
	return true
}

// ---------------------------------------------------------------- RCT

func c20RCT(c *hx.Ctx) {
	one := func(r, g, b int32, inRange bool, tag string) {
		var y, cb, cr, r2, g2, b2 int32
		p, _ := hx.Guard(func() {
			y, cb, cr = colorspace.RCTForward(r, g, b)
			r2, g2, b2 = colorspace.RCTInverse(y, cb, cr)
		})
		sfx := "32"
		if inRange {
			sfx = ""
		}
		if p {
			c.Case(fmt.Sprintf("rct-fwd%s %d %d %d", sfx, r, g, b), "panic")
			c.Fail(hx.Failure{Class: "rct-panic", What: "RCT panicked", Input: map[string]any{"r": r, "g": g, "b": b}})
			return
		}
		c.Case(fmt.Sprintf("rct-fwd%s %d %d %d", sfx, r, g, b), fmt.Sprintf("ok %d %d %d", y, cb, cr))
		c.Case(fmt.Sprintf("rct-inv%s %d %d %d", sfx, y, cb, cr), fmt.Sprintf("ok %d %d %d", r2, g2, b2))
		c.Count("rct:" + tag)
		if !inRange {
			return // outside the property's domain: correspondence of the int32 reading only
		}
		c.Eval(fmt.Sprintf("rct %d %d %d", r, g, b), r != 0 || g != 0 || b != 0)
		if r2 != r || g2 != g || b2 != b {
			c.Fail(hx.Failure{Class: "rct-roundtrip", What: "RCTInverse(RCTForward(r,g,b)) != (r,g,b)",
				Input:    map[string]any{"r": r, "g": g, "b": b},
				Expected: fmt.Sprint(r, g, b), Actual: fmt.Sprint(r2, g2, b2)})
		}
	}
	const M = 1 << 28
	bnd := []int32{0, 1, -1, 2, -2, 3, -3, 4, 5, 255, -256, 65535, -65536, M, -M, M - 1, -M + 1, M - 2, M - 3}
	for _, r := range bnd {
		for _, g := range bnd {
			for _, b := range bnd {
				one(r, g, b, true, "boundary")
			}
		}
	}
	n := 3000
	if c.Thorough() {
		n = 200000
	}
	for k := 0; k < n; k++ {
		sh := uint(c.R.Intn(29))
		rv := func() int32 { return int32(c.R.Range(-(1 << sh), 1<<sh)) }
		one(rv(), rv(), rv(), true, "random")
	}
	for k := 0; k < n/3; k++ {
		one(int32(c.R.U64()), int32(c.R.U64()), int32(c.R.U64()), false, "int32-any")
	}
	// slice wrappers through the exported API: the property on component arrays
	for k := 0; k < 50; k++ {
		ln := c.R.Range(0, 300)
		r, g, b := make([]int32, ln), make([]int32, ln), make([]int32, ln)
		for i := 0; i < ln; i++ {
			r[i], g[i], b[i] = int32(c.R.Range(-M, M)), int32(c.R.Range(-M, M)), int32(c.R.Range(-M, M))
		}
		var r2, g2, b2 []int32
		p, msg := hx.Guard(func() {
			y, cb, cr := colorspace.ApplyRCTToComponents(r, g, b)
			r2, g2, b2 = colorspace.ApplyInverseRCTToComponents(y, cb, cr)
		})
		c.Eval(fmt.Sprintf("rct-slices %d %d", k, ln), ln > 0)
		c.Count("rct:slices")
		if p || !c20Eq(r, r2) || !c20Eq(g, g2) || !c20Eq(b, b2) {
			c.Fail(hx.Failure{Class: "rct-slices-roundtrip", What: "ApplyInverseRCTToComponents(ApplyRCTToComponents(..)) differs " + msg,
				Input: map[string]any{"r": c20Ints(r), "g": c20Ints(g), "b": c20Ints(b)}})
		}
	}
}

// ---------------------------------------------------------------- DWT

func c20Dwt1D(c *hx.Ctx, x []int32, even bool, corr, prop bool, tag string) {
	f := append([]int32{}, x...)
	p, _ := hx.Guard(func() { wavelet.Forward53_1DWithParity(f, even) })
	if corr {
		if p {
			c.Case(fmt.Sprintf("dwt-fwd1 %d %s", c20B(even), c20Ints(x)), "panic")
		} else {
			c.Case(fmt.Sprintf("dwt-fwd1 %d %s", c20B(even), c20Ints(x)), "ok "+c20Ints(f))
		}
	}
	if p {
		if prop {
			c.Fail(hx.Failure{Class: "dwt1d-panic", What: "Forward53_1DWithParity panicked", Input: map[string]any{"x": c20Ints(x), "even": even}})
		}
		return
	}
	b := append([]int32{}, f...)
	p2, _ := hx.Guard(func() { wavelet.Inverse53_1DWithParity(b, even) })
	if corr {
		if p2 {
			c.Case(fmt.Sprintf("dwt-inv1 %d %s", c20B(even), c20Ints(f)), "panic")
		} else {
			c.Case(fmt.Sprintf("dwt-inv1 %d %s", c20B(even), c20Ints(f)), "ok "+c20Ints(b))
		}
	}
	c.Count("dwt1d:" + tag)
	if !prop {
		return
	}
	c.Eval(fmt.Sprintf("dwt1 %v %s", even, c20Ints(x)), len(x) >= 2)
	if p2 || !c20Eq(b, x) {
		c.Fail(hx.Failure{Class: fmt.Sprintf("dwt1d-roundtrip-even%d", c20B(even)), What: "Inverse53_1DWithParity(Forward53_1DWithParity(x)) != x",
			Input: map[string]any{"x": c20Ints(x), "even": even}, Expected: c20Ints(x), Actual: c20Ints(b)})
	}
}

func c20DwtML(c *hx.Ctx, w, h, levels, x0, y0 int, x []int32, corr bool, tag string) {
	f := append([]int32{}, x...)
	p, _ := hx.Guard(func() { wavelet.ForwardMultilevelWithParity(f, w, h, levels, x0, y0) })
	hdr := fmt.Sprintf("%d %d %d %d %d", w, h, levels, x0, y0)
	if corr {
		if p {
			c.Case("dwt-fwd "+hdr+" "+c20Ints(x), "panic")
		} else {
			c.Case("dwt-fwd "+hdr+" "+c20Ints(x), "ok "+c20Ints(f))
		}
	}
	in := map[string]any{"width": w, "height": h, "levels": levels, "x0": x0, "y0": y0}
	if len(x) <= 400 {
		in["data"] = c20Ints(x)
	}
	if p {
		if len(x) >= w*h {
			c.Fail(hx.Failure{Class: "dwt-panic", What: "ForwardMultilevelWithParity panicked on a full-size buffer", Input: in})
		}
		return
	}
	b := append([]int32{}, f...)
	p2, _ := hx.Guard(func() { wavelet.InverseMultilevelWithParity(b, w, h, levels, x0, y0) })
	if corr {
		if p2 {
			c.Case("dwt-inv "+hdr+" "+c20Ints(f), "panic")
		} else {
			c.Case("dwt-inv "+hdr+" "+c20Ints(f), "ok "+c20Ints(b))
		}
	}
	c.Count("dwt:" + tag)
	c.Count(fmt.Sprintf("dwt:levels=%d", levels))
	c.Count(fmt.Sprintf("dwt:parity=%d%d", x0&1, y0&1))
	c.Eval("dwt "+hdr+" "+fmt.Sprint(len(x), x[:min(len(x), 6)]), levels > 0 && (w > 1 || h > 1))
	if p2 || !c20Eq(b, x) {
		c.Fail(hx.Failure{Class: fmt.Sprintf("dwt-roundtrip-parity%d%d", x0&1, y0&1), What: "InverseMultilevelWithParity(ForwardMultilevelWithParity(x)) != x", Input: in})
	}
}

func c20DWT(c *hx.Ctx) {
	// 1. all signals of length <= 8 over {-2..2}, both parities
	full := 6
	if c.Thorough() {
		full = 8
	}
	for L := 1; L <= 8; L++ {
		total := 1
		for k := 0; k < L; k++ {
			total *= 5
		}
		for v := 0; v < total; v++ {
			if L > full && c.R.Intn(24) != 0 {
				continue
			}
			x := make([]int32, L)
			t := v
			for k := 0; k < L; k++ {
				x[k] = int32(t%5) - 2
				t /= 5
			}
			corr := L <= 5 || v%11 == 0
			c20Dwt1D(c, x, true, corr, true, "exhaustive")
			c20Dwt1D(c, x, false, corr, true, "exhaustive")
		}
	}
	// the inverse on ARBITRARY short inputs (not only forward outputs): every width-1/2/3 window over -9..9, both
	// parities — the width==1 (`/= 2`) and width==2 special cases of the odd-origin inverse see negative even and
	// negative odd coefficients
	c20DwtInv := func(f []int32, even bool) {
		b := append([]int32{}, f...)
		p, _ := hx.Guard(func() { wavelet.Inverse53_1DWithParity(b, even) })
		if p {
			c.Case(fmt.Sprintf("dwt-inv1 %d %s", c20B(even), c20Ints(f)), "panic")
		} else {
			c.Case(fmt.Sprintf("dwt-inv1 %d %s", c20B(even), c20Ints(f)), "ok "+c20Ints(b))
		}
		c.Count("dwt1d:inverse-direct")
	}
	for L := 1; L <= 3; L++ {
		total := 1
		for k := 0; k < L; k++ {
			total *= 19
		}
		for v := 0; v < total; v++ {
			f := make([]int32, L)
			t := v
			for k := 0; k < L; k++ {
				f[k] = int32(t%19) - 9
				t /= 19
			}
			c20DwtInv(f, true)
			c20DwtInv(f, false)
		}
	}
	for k := 0; k < 400; k++ { // large magnitudes, all sign/parity combinations of a 2-wide window
		sh := uint(c.R.Pick([]int{4, 12, 20, 28, 30}))
		f := []int32{int32(c.R.Range(-(1 << sh), 1<<sh)), int32(c.R.Range(-(1 << sh), 1<<sh))}
		if k%2 == 0 {
			f[1] = -2 * int32(c.R.Range(1, 1<<(sh-1))) // negative even detail
		}
		c20DwtInv(f, false)
		c20DwtInv(f, true)
		// and the round trip of a 2-wide window at odd origin whose detail coefficient comes out negative
		x := []int32{f[0], f[0] + f[1]}
		c20Dwt1D(c, x, false, true, true, "width2-odd")
	}
	// empty slice: even=true returns, even=false panics in Go (model: panic) — correspondence only
	c20Dwt1D(c, []int32{}, true, true, false, "empty")
	c20Dwt1D(c, []int32{}, false, true, false, "empty")
	// 2. every length 1..257 (and a few longer), both parities, magnitudes up to 2^28
	for L := 1; L <= 300; L++ {
		reps := 1
		if c.Thorough() {
			reps = 6
		}
		for rep := 0; rep < reps; rep++ {
			sh := uint(c.R.Pick([]int{1, 4, 8, 12, 16, 24, 28}))
			x := make([]int32, L)
			for k := range x {
				x[k] = int32(c.R.Range(-(1 << sh), 1<<sh))
			}
			c20Dwt1D(c, x, true, true, true, "random")
			c20Dwt1D(c, x, false, true, true, "random")
		}
	}
	// arbitrary int32 content (wrap-around exercised): correspondence of the int32 reading only
	for k := 0; k < 200; k++ {
		L := c.R.Range(1, 40)
		x := make([]int32, L)
		for i := range x {
			x[i] = int32(c.R.U64())
		}
		c20Dwt1D(c, x, c.R.Bool(), true, false, "int32-any")
	}
	// 3. multilevel: small grid with correspondence
	gen := func(w, h, levels int, small bool) []int32 {
		x := make([]int32, w*h)
		sh := uint(28 - 2*levels)
		if sh > 16 && c.R.Bool() {
			sh = uint(c.R.Pick([]int{1, 8, 12, 16}))
		}
		if small {
			sh = 2
		}
		for k := range x {
			x[k] = int32(c.R.Range(-(1 << sh), 1<<sh))
		}
		return x
	}
	maxSmall := 9
	for w := 1; w <= maxSmall; w++ {
		for h := 1; h <= maxSmall; h++ {
			for levels := 0; levels <= 4; levels++ {
				for o := 0; o < 16; o++ {
					if !c.Thorough() && (w+h+levels+o)%3 != int(c.Seed%3) {
						continue
					}
					c20DwtML(c, w, h, levels, o&3, o>>2, gen(w, h, levels, o%2 == 0), true, "small-grid")
				}
			}
		}
	}
	// 4. the property's sweep: every width and every height in 1..257, levels 0..8, origins 0..7
	for w := 1; w <= 257; w++ {
		for _, h := range []int{1, 2, c.R.Range(3, 40)} {
			levels, x0, y0 := c.R.Range(0, 8), c.R.Range(0, 7), c.R.Range(0, 7)
			corr := w <= 64 && w%4 == 1
			c20DwtML(c, w, h, levels, x0, y0, gen(w, h, levels, false), corr, "width-sweep")
			c20DwtML(c, h, w, levels, y0, x0, gen(w, h, levels, false), corr, "height-sweep")
		}
	}
	n := 40
	if c.Thorough() {
		n = 1500
	}
	for k := 0; k < n; k++ {
		w, h := c.R.Range(1, 257), c.R.Range(1, 257)
		levels, x0, y0 := c.R.Range(0, 8), c.R.Range(0, 7), c.R.Range(0, 7)
		c20DwtML(c, w, h, levels, x0, y0, gen(w, h, levels, false), k < 6, "random-large")
	}
	c20DwtML(c, 257, 257, 8, 7, 7, gen(257, 257, 8, false), true, "max")
	// short buffer: Go panics (index out of range) unless nothing is transformed — model must agree
	for k := 0; k < 30; k++ {
		w, h := c.R.Range(1, 8), c.R.Range(1, 8)
		x := gen(w, h, 1, true)
		x = x[:c.R.Intn(len(x)+1)]
		levels := c.R.Range(0, 3)
		f := append([]int32{}, x...)
		p, _ := hx.Guard(func() { wavelet.ForwardMultilevelWithParity(f, w, h, levels, 0, 1) })
		out := "ok " + c20Ints(f)
		if p {
			out = "panic"
		}
		c.Case(fmt.Sprintf("dwt-fwd %d %d %d 0 1 %s", w, h, levels, c20Ints(x)), out)
		c.Count("dwt:short-buffer:" + out[:2])
	}
	// window kernel
	for k := 0; k < 300; k++ {
		w, h, x0, y0 := c.R.Range(1, 300), c.R.Range(1, 300), c.R.Range(0, 9), c.R.Range(0, 9)
		lw, lh := wavelet.LLDimensionsWithParity(w, h, 1, x0, y0)
		c.Case(fmt.Sprintf("dwt-win %d %d %d %d", w, h, x0, y0), fmt.Sprintf("ok %d %d", lw, lh))
	}
}

// ---------------------------------------------------------------- MQ

type c20Dec struct{ bit, cx int }

func c20MqEncode(nctx int, ds []c20Dec) (out []byte, panicked bool) {
	p, _ := hx.Guard(func() {
		e := mqc.NewMQEncoder(nctx)
		for _, d := range ds {
			e.Encode(d.bit, d.cx)
		}
		out = append([]byte{}, e.Flush()...)
	})
	return out, p
}

func c20MqDecode(nctx int, data []byte, cxs []int) (bits []int, panicked bool) {
	p, _ := hx.Guard(func() {
		d := mqc.NewMQDecoder(data, nctx)
		for _, cx := range cxs {
			bits = append(bits, d.Decode(cx))
		}
	})
	return bits, p
}

// c20MqOne: round trip of one decision sequence on the real coder (+ byte-stream invariants),
// optionally with correspondence lines.
func c20MqOne(c *hx.Ctx, nctx int, ds []c20Dec, corr bool, tag string) {
	enc, p := c20MqEncode(nctx, ds)
	cxs := make([]int, len(ds))
	code := make([]int, len(ds))
	for i, d := range ds {
		cxs[i] = d.cx
		code[i] = d.cx*2 + d.bit
	}
	in := map[string]any{"numContexts": nctx, "decisions(cx*2+bit)": c20IntsI(code[:min(len(code), 4000)]), "n": len(ds)}
	if corr {
		if p {
			c.Case(fmt.Sprintf("mq-enc %d %s", nctx, c20IntsI(code)), "panic")
		} else {
			c.Case(fmt.Sprintf("mq-enc %d %s", nctx, c20IntsI(code)), "ok "+hx.Hex(enc))
		}
	}
	c.Eval(fmt.Sprintf("mq %d %s", nctx, c20IntsI(code)), len(ds) > 0)
	c.Count("mq:" + tag)
	if p {
		c.Fail(hx.Failure{Class: "mq-encode-panic", What: "MQ encoder panicked", Input: in})
		return
	}
	c.CountN("mq:bytes", len(enc))
	for i, b := range enc {
		if b == 0xFF {
			c.Count("mq:0xFF-in-stream")
			if i+1 < len(enc) && enc[i+1] > 0x8F {
				c.Fail(hx.Failure{Class: "mq-stream-marker", What: "byte following 0xFF is > 0x8F in MQ output", Input: in, Actual: hx.Hex(enc)})
				return
			}
			if i+1 == len(enc) {
				c.Fail(hx.Failure{Class: "mq-stream-trailing-ff", What: "Flush left a trailing 0xFF", Input: in, Actual: hx.Hex(enc)})
				return
			}
		}
	}
	bits, pd := c20MqDecode(nctx, enc, cxs)
	if corr {
		if pd {
			c.Case(fmt.Sprintf("mq-dec %d %s %s", nctx, hx.Hex(enc), c20IntsI(cxs)), "panic")
		} else {
			c.Case(fmt.Sprintf("mq-dec %d %s %s", nctx, hx.Hex(enc), c20IntsI(cxs)), "ok "+c20IntsI(bits))
		}
	}
	if pd {
		c.Fail(hx.Failure{Class: "mq-decode-panic", What: "MQ decoder panicked on the encoder's bytes", Input: in, Actual: hx.Hex(enc)})
		return
	}
	for i, d := range ds {
		if bits[i] != d.bit {
			c.Fail(hx.Failure{Class: "mq-roundtrip", What: fmt.Sprintf("decoded bit %d differs", i), Input: in, Actual: hx.Hex(enc)})
			return
		}
	}
}

// script ops shared with Drv.C20.runScript: 0 cx bit | 1 FlushToOutput | 2 ErtermEnc | 3 RestartInitEnc |
// 4 SegmarkEnc | 5 BypassInitEnc | 6 bit BypassEncode | 7 erterm BypassFlushEnc | 9 cx st SetContextState | 10 ResetContexts
func c20MqScript(c *hx.Ctx, nctx int, ops []int) {
	var out []byte
	p, _ := hx.Guard(func() {
		e := mqc.NewMQEncoder(nctx)
		for i := 0; i < len(ops); {
			switch ops[i] {
			case 0:
				e.Encode(ops[i+2], ops[i+1])
				i += 3
			case 1:
				e.FlushToOutput()
				i++
			case 2:
				e.ErtermEnc()
				i++
			case 3:
				e.RestartInitEnc()
				i++
			case 4:
				e.SegmarkEnc()
				i++
			case 5:
				e.BypassInitEnc()
				i++
			case 6:
				e.BypassEncode(ops[i+1])
				i += 2
			case 7:
				e.BypassFlushEnc(ops[i+1] != 0)
				i += 2
			case 9:
				e.SetContextState(ops[i+1], uint8(ops[i+2]))
				i += 3
			case 10:
				e.ResetContexts()
				i++
			}
		}
		out = append([]byte{}, e.GetBuffer()...)
	})
	if p {
		c.Case(fmt.Sprintf("mq-script %d %s", nctx, c20IntsI(ops)), "panic")
		c.Count("mq:script-panic")
		return
	}
	c.Case(fmt.Sprintf("mq-script %d %s", nctx, c20IntsI(ops)), "ok "+hx.Hex(out))
	c.Count("mq:script")
}

// c20MqFamily is a deterministic family of decision sequences with long MPS runs (they drive the code register
// high, so that carries reach the byte after a 0xFF): seed -> (contexts, decisions).
func c20MqFamily(seed uint64) (int, []c20Dec) {
	s := seed*6364136223846793005 + 1442695040888963407
	next := func(n uint64) uint64 {
		s = s*6364136223846793005 + 1442695040888963407
		return (s >> 33) % n
	}
	L := 30 + int(next(200))
	nctx := 1 + int(next(3))
	flip := []uint64{2, 4, 8, 16, 33}[next(5)]
	mps := make([]int, nctx)
	ds := make([]c20Dec, 0, L)
	for i := 0; i < L; i++ {
		cx := int(next(uint64(nctx)))
		bit := mps[cx]
		if next(100) < flip {
			bit ^= 1
			if next(3) == 0 {
				mps[cx] ^= 1
			}
		}
		ds = append(ds, c20Dec{bit: bit, cx: cx})
	}
	return nctx, ds
}

func c20MQ(c *hx.Ctx) {
	// 1. all sequences of (bit, context) over 2 contexts
	maxL, corrL := 10, 6
	if c.Thorough() {
		maxL = 11 // 4^11 = 4.2M sequences; 4^12 would cost ~2 GB in the distinct-evaluation set
	}
	for L := 0; L <= maxL; L++ {
		total := 1 << (2 * uint(L))
		for v := 0; v < total; v++ {
			ds := make([]c20Dec, L)
			for k := 0; k < L; k++ {
				ds[k] = c20Dec{bit: (v >> (2 * uint(k))) & 1, cx: (v >> (2*uint(k) + 1)) & 1}
			}
			c20MqOne(c, 2, ds, L <= corrL || v%4099 == 0, "exhaustive")
		}
	}
	if c.Thorough() {
		// all bit strings of length 16 under four fixed context assignments
		for pat := 0; pat < 4; pat++ {
			for v := 0; v < 1<<16; v++ {
				ds := make([]c20Dec, 16)
				for k := 0; k < 16; k++ {
					bit := (v >> uint(k)) & 1
					cx := 0
					switch pat {
					case 1:
						cx = k & 1
					case 2:
						if k > 0 {
							cx = (v >> uint(k-1)) & 1
						}
					case 3:
						cx = (k / 3) & 1
					}
					ds[k] = c20Dec{bit, cx}
				}
				c20MqOne(c, 2, ds, v%997 == 0, "exhaustive16")
			}
		}
	}
	// 2. random long sequences, contexts 1..19, bias sweep 0..100 %
	lens := []int{1, 2, 17, 100, 1000, 10000}
	if c.Thorough() {
		lens = append(lens, 30000, 100000)
	}
	for _, L := range lens {
		for bias := 0; bias <= 100; bias += 5 {
			reps := 2
			if L >= 10000 {
				reps = 1
			}
			for rep := 0; rep < reps; rep++ {
				nctx := c.R.Range(1, 19)
				// per-context probability of a 1: the sweep value, mirrored on odd contexts
				ds := make([]c20Dec, L)
				for k := range ds {
					cx := c.R.Intn(nctx)
					pr := bias
					if cx%2 == 1 {
						pr = 100 - bias
					}
					if cx%5 == 4 {
						pr = 50
					}
					ds[k] = c20Dec{bit: c20B(c.R.Intn(100) < pr), cx: cx}
				}
				c20MqOne(c, nctx, ds, L <= 1000 || (L == 10000 && bias%25 == 0), fmt.Sprintf("random-len%d", L))
				c.Count(fmt.Sprintf("mq:bias=%d", bias))
			}
		}
	}
	// long runs of the MPS / forced 0xFF and carry patterns
	for k := 0; k < 40; k++ {
		L := c.R.Range(200, 3000)
		ds := make([]c20Dec, L)
		run := 0
		bit := 0
		for i := range ds {
			if run == 0 {
				run = c.R.Pick([]int{1, 1, 2, 3, 8, 50, 400})
				bit = c.R.Intn(2)
			}
			run--
			ds[i] = c20Dec{bit, c.R.Intn(2)}
		}
		c20MqOne(c, 2, ds, true, "runs")
	}
	// out-of-range context id / state > 46: both sides must panic
	c20MqOne2 := func(ops []int) { c20MqScript(c, 3, ops) }
	c20MqOne2([]int{0, 3, 1})
	c20MqOne2([]int{9, 1, 47, 0, 1, 0})
	c20MqOne2([]int{9, 1, 46 | 0x80, 0, 1, 1, 0, 1, 0, 1})
	// 3. termination / bypass variants as T1 sequences them (bytes compared after every script)
	n := 400
	if c.Thorough() {
		n = 6000
	}
	for k := 0; k < n; k++ {
		nctx := 19
		ops := []int{9, 18, 46, 9, 17, 3, 9, 0, 4}
		segs := c.R.Range(1, 6)
		raw := false
		for s := 0; s < segs; s++ {
			cnt := c.R.Pick([]int{0, 1, 2, 5, 8, 9, 30, 100, 300})
			if raw {
				ops = append(ops, 5)
				for i := 0; i < cnt; i++ {
					ops = append(ops, 6, c.R.Intn(2))
				}
				ops = append(ops, 7, c.R.Intn(2))
			} else {
				bias := c.R.Pick([]int{3, 20, 50, 80, 97})
				for i := 0; i < cnt; i++ {
					ops = append(ops, 0, c.R.Intn(nctx), c20B(c.R.Intn(100) < bias))
				}
				if c.R.Intn(3) == 0 {
					ops = append(ops, 4)
				}
				if c.R.Bool() {
					ops = append(ops, 1)
				} else {
					ops = append(ops, 2)
				}
				if c.R.Intn(4) == 0 {
					ops = append(ops, 10, 9, 18, 46, 9, 17, 3, 9, 0, 4)
				}
			}
			next := c.R.Intn(3) == 0
			if !next {
				ops = append(ops, 3) // RestartInitEnc before an MQ segment
			}
			raw = next
		}
		c20MqScript(c, nctx, ops)
	}
	// 3b. ErtermEnc from every register state: k encodes (k = 0..140) under four biases, then ErtermEnc;
	//     ct takes every value 1..12 (and 7 after a 0xFF byte) many times
	for _, bias := range []int{2, 30, 50, 98} {
		for k := 0; k <= 140; k++ {
			ops := []int{9, 18, 46, 9, 17, 3, 9, 0, 4}
			for i := 0; i < k; i++ {
				ops = append(ops, 0, (i*7+k)%19, c20B((i*37+k*11)%100 < bias))
			}
			ops = append(ops, 2)
			c20MqScript(c, 19, ops)
			// and again after a restart, as T1 does between terminated passes
			ops = append(ops, 3)
			for i := 0; i < k%23; i++ {
				ops = append(ops, 0, i%19, c20B((i*13+k)%100 < bias))
			}
			ops = append(ops, 2)
			c20MqScript(c, 19, ops)
			c.Count("mq:erterm-sweep")
		}
	}
	// raw decoding past the end of the segment (sentinel guard of c50eb7d): 1-bits, no panic
	for k := 0; k < 40; k++ {
		data := c.R.Bytes(c.R.Range(0, 6))
		nb := len(data)*8 + c.R.Range(1, 40)
		var got []int
		pd, _ := hx.Guard(func() {
			d := mqc.NewRawDecoder(data)
			for i := 0; i < nb; i++ {
				got = append(got, d.RawDecode())
			}
		})
		out := "ok " + c20IntsI(got)
		if pd {
			out = "panic"
		}
		c.Case(fmt.Sprintf("mq-raw %s %d", hx.Hex(data), nb), out)
		c.Count("mq:raw-past-end")
	}
	// MQ decoding of arbitrary bytes, more decisions than the data holds: bytein stays inside the sentinel
	for k := 0; k < 60; k++ {
		data := c.R.Bytes(c.R.Range(0, 12))
		if k%3 == 0 {
			for i := range data {
				if c.R.Intn(3) == 0 {
					data[i] = 0xFF
				}
			}
		}
		nd := c.R.Range(1, 400)
		cxs := make([]int, nd)
		for i := range cxs {
			cxs[i] = c.R.Intn(3)
		}
		bits, pd := c20MqDecode(3, data, cxs)
		out := "ok " + c20IntsI(bits)
		if pd {
			out = "panic"
		}
		c.Case(fmt.Sprintf("mq-dec 3 %s %s", hx.Hex(data), c20IntsI(cxs)), out)
		c.Count("mq:dec-arbitrary")
	}
	// hand-made byte strings with 0xFF followed by EVERY value 0x00..0xFF at several positions (marker threshold
	// 0x8F of bytein and of RawDecode), also 0xFF as the last byte and 0xFF 0xFF
	for _, pos := range []int{0, 1, 2, 3, 5, 8} {
		for v := 0; v < 256; v++ {
			data := make([]byte, pos+2+c.R.Intn(3))
			for i := range data {
				data[i] = byte(c.R.Pick([]int{0x00, 0x37, 0x7F, 0x80, 0xC4, 0xFE}))
			}
			data[pos], data[pos+1] = 0xFF, byte(v)
			nd := 8*len(data) + 40
			cxs := make([]int, nd)
			for i := range cxs {
				cxs[i] = (i*7 + v) % 3
			}
			bits, pd := c20MqDecode(3, data, cxs)
			out := "ok " + c20IntsI(bits)
			if pd {
				out = "panic"
			}
			c.Case(fmt.Sprintf("mq-dec 3 %s %s", hx.Hex(data), c20IntsI(cxs)), out)
			var got []int
			pr, _ := hx.Guard(func() {
				d := mqc.NewRawDecoder(data)
				for i := 0; i < nd; i++ {
					got = append(got, d.RawDecode())
				}
			})
			out = "ok " + c20IntsI(got)
			if pr {
				out = "panic"
			}
			c.Case(fmt.Sprintf("mq-raw %s %d", hx.Hex(data), nd), out)
			c.Count("mq:ff-then-every-byte")
		}
	}
	// streams in which the ENCODER emits 0xFF followed by 0x8E / 0x8F (the largest byte that may follow 0xFF): about
	// one random sequence in 10^6 does; anchors found by an offline sweep of the deterministic family c20MqFamily,
	// plus an online sweep of that family that round-trips every sequence whose output has 0xFF followed by >= 0x88
	ffMax := 0
	scan := func(seed uint64, always bool) {
		nctx, ds := c20MqFamily(seed)
		enc, p := c20MqEncode(nctx, ds)
		if p {
			c20MqOne(c, nctx, ds, true, "ff8f-family")
			return
		}
		hi := 0
		for i := 0; i+1 < len(enc); i++ {
			if enc[i] == 0xFF && int(enc[i+1]) > hi {
				hi = int(enc[i+1])
			}
		}
		if hi > ffMax {
			ffMax = hi
		}
		if hi >= 0x8E {
			c.Count(fmt.Sprintf("mq:encoder-emits-ff%02x", hi))
		}
		if always || hi >= 0x88 {
			c20MqOne(c, nctx, ds, true, "ff8f-family")
		}
	}
	for _, seed := range []uint64{1704625, 2001221, 2359064, 3266577, 12496550, 12867925, // FF 8F
		24928, 165686, 707455, 1129945, 1825335, 1846639} { // FF 8E
		scan(seed, true)
	}
	nFam := uint64(150000)
	if c.Thorough() {
		nFam = 2500000
	}
	for seed := uint64(0); seed < nFam; seed++ {
		scan(seed+uint64(c.Seed)*1000003, false)
	}
	c.Count(fmt.Sprintf("mq:max-byte-after-ff=%02x", ffMax))
	// 4. raw (bypass) segments: decode what BypassEncode wrote
	for k := 0; k < n/2; k++ {
		pre := c.R.Range(0, 60)
		nb := c.R.Range(0, 200)
		erterm := c.R.Bool()
		bits := make([]int, nb)
		bias := c.R.Pick([]int{10, 50, 90, 100})
		var rawBytes []byte
		p, _ := hx.Guard(func() {
			e := mqc.NewMQEncoder(19)
			for i := 0; i < pre; i++ {
				e.Encode(c.R.Intn(2), c.R.Intn(19))
			}
			e.FlushToOutput()
			at := e.NumBytes()
			e.BypassInitEnc()
			for i := range bits {
				bits[i] = c20B(c.R.Intn(100) < bias)
				e.BypassEncode(bits[i])
			}
			e.BypassFlushEnc(erterm)
			rawBytes = append([]byte{}, e.GetBuffer()[at:]...)
		})
		if p {
			c.Fail(hx.Failure{Class: "mq-bypass-panic", What: "bypass encoding panicked", Input: map[string]any{"pre": pre, "bits": c20IntsI(bits), "erterm": erterm}})
			continue
		}
		var got []int
		pd, _ := hx.Guard(func() {
			d := mqc.NewRawDecoder(rawBytes)
			for range bits {
				got = append(got, d.RawDecode())
			}
		})
		if !pd {
			c.Case(fmt.Sprintf("mq-raw %s %d", hx.Hex(rawBytes), nb), "ok "+c20IntsI(got))
		}
		c.Eval(fmt.Sprintf("mq-raw %d %s", pre, c20IntsI(bits)), nb > 0)
		c.Count("mq:raw")
		ok := !pd && len(got) == len(bits)
		for i := 0; ok && i < len(bits); i++ {
			ok = got[i] == bits[i]
		}
		if !ok {
			c.Fail(hx.Failure{Class: "mq-bypass-roundtrip", What: "RawDecode does not return the bits given to BypassEncode",
				Input: map[string]any{"pre": pre, "bits": c20IntsI(bits), "erterm": erterm}, Actual: hx.Hex(rawBytes)})
		}
	}
}

// ---------------------------------------------------------------- T1 (search only)

func c20T1Block(r *hx.Rand, w, h, class int) []int32 {
	x := make([]int32, w*h)
	var maxMag int
	switch class {
	case 0:
		maxMag = 1
	case 1:
		maxMag = 3
	case 2:
		maxMag = 255
	case 3:
		maxMag = (1 << 30) >> 6
	default:
		maxMag = 1 << uint(r.Range(1, 20))
	}
	sparse := r.Intn(3) == 0
	for i := range x {
		if sparse && r.Intn(8) != 0 {
			continue
		}
		x[i] = int32(r.Range(-maxMag, maxMag))
	}
	if class == 5 { // single non-zero coefficient
		for i := range x {
			x[i] = 0
		}
		x[r.Intn(len(x))] = int32(r.Range(1, 1000)) * int32(1-2*r.Intn(2))
	}
	return x
}

func c20MaxBitplane(x []int32) int {
	m := int64(0)
	for _, v := range x {
		a := int64(v)
		if a < 0 {
			a = -a
		}
		if a > m {
			m = a
		}
	}
	bp := -1
	for m > 0 {
		m >>= 1
		bp++
	}
	return bp
}

func c20StyleName(s int) string {
	names := []string{"lazy", "reset", "termall", "vsc", "pterm", "segsym"}
	var on []string
	for i, n := range names {
		if s&(1<<uint(i)) != 0 {
			on = append(on, n)
		}
	}
	if len(on) == 0 {
		return "none"
	}
	return strings.Join(on, "+")
}

// c20T1One evaluates both exported encode/decode pairs on one block.
func c20T1One(c *hx.Ctx, w, h, orient, style int, x []int32, tag string) {
	mb := c20MaxBitplane(x)
	numPasses := 1
	if mb >= 0 {
		numPasses = 3*(mb+1) - 2
	}
	in := map[string]any{"width": w, "height": h, "orientation": orient, "style": style, "styleName": c20StyleName(style), "numPasses": numPasses}
	if len(x) <= 256 {
		in["block"] = c20Ints(x)
	} else {
		in["seed"] = c.Seed
	}
	c.Eval(fmt.Sprintf("t1 %d %d %d %d %v", w, h, orient, style, x[:min(len(x), 12)]), mb >= 0)
	c.Count("t1:" + tag)
	c.Count(fmt.Sprintf("t1:style=%02x", style))
	// (A) EncodeLayered -> pass lengths as reported -> DecodeLayeredWithMode (the call tile_decoder.go makes)
	var passes []t1.PassData
	var data []byte
	var err error
	p, msg := hx.Guard(func() {
		e := t1.NewT1Encoder(w, h, style)
		e.SetOrientation(orient)
		passes, data, err = e.EncodeLayered(x, numPasses, 0, nil, uint8(style))
	})
	// every failing style gets its own class (the LAZY-without-TERMALL defect, class
	// t1-lazy-without-termall, was repaired in /repo 9151147: no class is expected to fail)
	cls := func(kind string) string { return fmt.Sprintf("t1-%s-style-%s", kind, c20StyleName(style)) }
	if p || err != nil {
		c.Fail(hx.Failure{Class: cls("encode-fail"), What: fmt.Sprintf("EncodeLayered failed: %v %s", err, msg), Input: in})
	} else if mb >= 0 {
		if len(passes) != numPasses {
			c.Fail(hx.Failure{Class: cls("passcount"), What: fmt.Sprintf("EncodeLayered coded %d of %d passes", len(passes), numPasses), Input: in})
		} else {
			pl := make([]int, len(passes))
			for i, ps := range passes {
				pl[i] = ps.Rate
			}
			var got []int32
			var derr error
			pd, dmsg := hx.Guard(func() {
				d := t1.NewT1Decoder(w, h, style)
				d.SetOrientation(orient)
				derr = d.DecodeLayeredWithMode(data, pl, passes[0].Bitplane, 0, style&t1.CblkStyleTermAll != 0, style&t1.CblkStyleReset != 0)
				got = d.GetData()
			})
			if pd {
				c.Fail(hx.Failure{Class: cls("layered-decode-panic"), What: "DecodeLayeredWithMode panicked: " + dmsg[:min(len(dmsg), 300)], Input: in})
			} else if derr != nil {
				c.Fail(hx.Failure{Class: cls("layered-decode-err"), What: "DecodeLayeredWithMode: " + derr.Error(), Input: in})
			} else if !c20Eq(got, x) {
				c.Fail(hx.Failure{Class: cls("layered-roundtrip"), What: "DecodeLayeredWithMode(EncodeLayered(block)) != block (all passes, reported pass lengths)", Input: in})
			}
		}
	}
	// (B) Encode -> DecodeWithBitplane: this pair carries no pass lengths, so it is only meaningful for
	// styles without terminated segments (no LAZY, no TERMALL)
	if style&(t1.CblkStyleLazy|t1.CblkStyleTermAll) != 0 {
		return
	}
	c.Count("t1:plain-pair")
	var data2 []byte
	p2, msg2 := hx.Guard(func() {
		e := t1.NewT1Encoder(w, h, style)
		e.SetOrientation(orient)
		data2, err = e.Encode(x, numPasses, 0)
	})
	if p2 || err != nil {
		c.Fail(hx.Failure{Class: cls("encode2-fail"), What: fmt.Sprintf("Encode failed: %v %s", err, msg2), Input: in})
		return
	}
	if mb < 0 {
		return
	}
	var got2 []int32
	var derr error
	pd, dmsg := hx.Guard(func() {
		d := t1.NewT1Decoder(w, h, style)
		d.SetOrientation(orient)
		derr = d.DecodeWithBitplane(data2, numPasses, mb, 0)
		got2 = d.GetData()
	})
	if pd {
		c.Fail(hx.Failure{Class: cls("decode-panic"), What: "DecodeWithBitplane panicked: " + dmsg[:min(len(dmsg), 300)], Input: in})
	} else if derr != nil {
		c.Fail(hx.Failure{Class: cls("decode-err"), What: "DecodeWithBitplane: " + derr.Error(), Input: in})
	} else if !c20Eq(got2, x) {
		c.Fail(hx.Failure{Class: cls("roundtrip"), What: "DecodeWithBitplane(Encode(block)) != block (all passes)", Input: in})
	}
	// (C) truncated pass count (C20.t1_truncated): every coefficient comes back truncated below the plane of the
	// last coded pass or the one above it
	if numPasses < 2 {
		return
	}
	np := 1 + c.R.Intn(numPasses-1)
	c.Count("t1:truncated")
	var data3 []byte
	var got3 []int32
	p3, msg3 := hx.Guard(func() {
		e := t1.NewT1Encoder(w, h, style)
		e.SetOrientation(orient)
		data3, err = e.Encode(x, np, 0)
		if err != nil {
			return
		}
		d := t1.NewT1Decoder(w, h, style)
		d.SetOrientation(orient)
		derr = d.DecodeWithBitplane(data3, np, mb, 0)
		got3 = d.GetData()
	})
	in3 := map[string]any{"width": w, "height": h, "orientation": orient, "style": style, "numPasses": np, "of": numPasses, "block": in["block"], "seed": c.Seed}
	if p3 || err != nil || derr != nil {
		c.Fail(hx.Failure{Class: cls("truncated-fail"), What: fmt.Sprintf("Encode/DecodeWithBitplane with a truncated pass count failed: %v %v %s", err, derr, msg3[:min(len(msg3), 200)]), Input: in3})
		return
	}
	pl := mb - (np+1)/3
	for i, v := range x {
		a := int64(v)
		if a < 0 {
			a = -a
		}
		ok := false
		for _, l := range []int{pl, pl + 1} {
			if np%3 == 1 && l != pl {
				continue
			}
			t := (a >> uint(l)) << uint(l)
			if v < 0 {
				t = -t
			}
			if int64(got3[i]) == t {
				ok = true
			}
		}
		if !ok {
			c.Fail(hx.Failure{Class: cls("truncated"), What: fmt.Sprintf("sample %d: %d decoded as %d, not a truncation below plane %d or %d", i, v, got3[i], pl, pl+1), Input: in3})
			return
		}
	}
}

// c20T1Corr: correspondence of the code-shaped T1 model (style 0): encoder bytes and decoder coefficients.
// c20T1Corr ties Model/T1.lean to the code: Encode for any style without LAZY, DecodeWithBitplane (one codeword
// segment) for the styles that also lack TERMALL.
func c20T1Corr(c *hx.Ctx, w, h, orient, style int, x []int32, numPasses int, tag string) {
	var enc []byte
	var err error
	p, _ := hx.Guard(func() {
		e := t1.NewT1Encoder(w, h, style)
		e.SetOrientation(orient)
		enc, err = e.Encode(x, numPasses, 0)
	})
	op := fmt.Sprintf("t1-enc %d %d %d %d %d %s", w, h, orient, style, numPasses, c20Ints(x))
	switch {
	case p:
		c.Case(op, "panic")
		return
	case err != nil:
		c.Case(op, "err")
		return
	}
	c.Case(op, "ok "+hx.Hex(enc))
	c.Count("t1corr:" + tag)
	c.Count(fmt.Sprintf("t1corr:style=%02x", style))
	if style&t1.CblkStyleTermAll != 0 {
		return
	}
	mb := c20MaxBitplane(x)
	if mb < 0 {
		mb = 0
	}
	dec := func(data []byte, np, mb int) {
		var got []int32
		var derr error
		pd, _ := hx.Guard(func() {
			d := t1.NewT1Decoder(w, h, style)
			d.SetOrientation(orient)
			derr = d.DecodeWithBitplane(data, np, mb, 0)
			got = d.GetData()
		})
		op := fmt.Sprintf("t1-dec %d %d %d %d %d %d %s", w, h, orient, style, np, mb, hx.Hex(data))
		switch {
		case pd:
			c.Case(op, "panic")
		case derr != nil:
			c.Case(op, "err")
		default:
			c.Case(op, "ok "+c20Ints(got))
		}
	}
	dec(enc, numPasses, mb)
	if len(enc) > 2 && c.R.Intn(4) == 0 { // truncated / damaged data: decoder outcome must still agree
		m := append([]byte{}, enc[:c.R.Range(1, len(enc))]...)
		m[c.R.Intn(len(m))] ^= byte(1 << uint(c.R.Intn(8)))
		dec(m, numPasses, mb)
	}
}

// c20T1PipeCorr ties Model/T1Pipe.lean to the code: Encode with SetNMSEDecFractionalBits(fb) on x<<fb and
// DecodeWithBitplane with SetOpenJPEGReconstruction(true) at maxBitplane = numbps, followed by /2 — the T1
// configuration of the reversible pipeline (fb = 6).  It also checks, on the real code, the two facts the
// pipeline relies on: the bytes equal those of the plain configuration on x, and the halved decoder output is x.
func c20T1PipeCorr(c *hx.Ctx, fb, w, h, orient, style int, x []int32, numPasses int, tag string) {
	sh := make([]int32, len(x))
	for i, v := range x {
		sh[i] = v << uint(fb)
	}
	var enc []byte
	var err error
	p, _ := hx.Guard(func() {
		e := t1.NewT1Encoder(w, h, style)
		e.SetOrientation(orient)
		e.SetNMSEDecFractionalBits(fb)
		enc, err = e.Encode(sh, numPasses, 0)
	})
	op := fmt.Sprintf("t1-encf %d %d %d %d %d %d %s", fb, w, h, orient, style, numPasses, c20Ints(sh))
	switch {
	case p:
		c.Case(op, "panic")
		return
	case err != nil:
		c.Case(op, "err")
		return
	}
	c.Case(op, "ok "+hx.Hex(enc))
	c.Count("t1pipe:" + tag)
	if len(x) != w*h {
		return
	}
	in := map[string]any{"fb": fb, "width": w, "height": h, "orientation": orient, "style": style, "numPasses": numPasses, "block": c20Ints(x)}
	mb := c20MaxBitplane(x)
	if style&(t1.CblkStylePterm) == 0 {
		// (E) same bytes as the plain configuration on the unshifted block
		var plain []byte
		var perr error
		pp, _ := hx.Guard(func() {
			e := t1.NewT1Encoder(w, h, style)
			e.SetOrientation(orient)
			plain, perr = e.Encode(x, numPasses, 0)
		})
		c.Eval(fmt.Sprintf("t1pipe-enc %d %d %d %d %v", fb, w, h, style, x[:min(len(x), 8)]), mb >= 0)
		if pp || perr != nil || hx.Hex(plain) != hx.Hex(enc) {
			c.Fail(hx.Failure{Class: "t1-pipe-enc", What: "Encode(x<<fb) with SetNMSEDecFractionalBits(fb) differs from Encode(x)", Input: in,
				Expected: hx.Hex(plain), Actual: hx.Hex(enc)})
		}
	}
	if style&t1.CblkStyleTermAll != 0 || len(enc) == 0 {
		return
	}
	numbps := mb + 1
	dec := func(data []byte, np, mbd int, check bool) {
		var got []int32
		var derr error
		pd, _ := hx.Guard(func() {
			d := t1.NewT1Decoder(w, h, style)
			d.SetOpenJPEGReconstruction(true)
			d.SetOrientation(orient)
			derr = d.DecodeWithBitplane(data, np, mbd, 0)
			got = d.GetData()
		})
		op := fmt.Sprintf("t1-decoj %d %d %d %d %d %d %s", w, h, orient, style, np, mbd, hx.Hex(data))
		switch {
		case pd:
			c.Case(op, "panic")
		case derr != nil:
			c.Case(op, "err")
		default:
			hv := make([]int32, len(got))
			for i, v := range got {
				hv[i] = v / 2
			}
			c.Case(op, "ok "+c20Ints(got)+" | "+c20Ints(hv))
			if check {
				c.Eval(fmt.Sprintf("t1pipe-dec %d %d %d %v", w, h, style, x[:min(len(x), 8)]), mb >= 0)
				if !c20Eq(hv, x) {
					c.Fail(hx.Failure{Class: "t1-pipe-roundtrip", What: "OpenJPEG-mode decode at maxBitplane = numbps, halved, differs from the block", Input: in,
						Expected: c20Ints(x), Actual: c20Ints(hv)})
				}
			}
		}
	}
	full := mb >= 0 && numPasses >= 3*(mb+1)-2 && style&t1.CblkStylePterm == 0
	dec(enc, numPasses, numbps, full)
	if mb < 0 {
		dec(enc, 1, 1, true) // the pipeline sends one pass for an all-zero block
	}
	if len(enc) > 2 && c.R.Intn(4) == 0 {
		m := append([]byte{}, enc[:c.R.Range(1, len(enc))]...)
		m[c.R.Intn(len(m))] ^= byte(1 << uint(c.R.Intn(8)))
		dec(m, numPasses, numbps, false)
	}
}

// c20T1LayeredCorr ties Model/T1Layered.lean to the code for all 64 styles: EncodeLayered (normalised cumulative
// rates, top bit-plane, bytes) and DecodeLayeredWithMode with the reported and with damaged pass lengths / data.
func c20T1LayeredCorr(c *hx.Ctx, w, h, orient, style int, x []int32, numPasses int, tag string) {
	var passes []t1.PassData
	var data []byte
	var err error
	p, _ := hx.Guard(func() {
		e := t1.NewT1Encoder(w, h, style)
		e.SetOrientation(orient)
		passes, data, err = e.EncodeLayered(x, numPasses, 0, nil, uint8(style))
	})
	op := fmt.Sprintf("t1-lenc %d %d %d %d %d %s", w, h, orient, style, numPasses, c20Ints(x))
	switch {
	case p:
		c.Case(op, "panic")
		return
	case err != nil:
		c.Case(op, "err")
		return
	}
	pl := make([]int, len(passes))
	for i, ps := range passes {
		pl[i] = ps.Rate
	}
	mb := -1
	if len(passes) > 0 {
		mb = passes[0].Bitplane
	}
	c.Case(op, fmt.Sprintf("ok %s %d %s", c20IntsI(pl), mb, hx.Hex(data)))
	c.Count("t1lcorr:" + tag)
	c.Count(fmt.Sprintf("t1lcorr:style=%02x", style))
	if len(passes) == 0 {
		return
	}
	dec := func(data []byte, pl []int, mb int) {
		var got []int32
		var derr error
		pd, _ := hx.Guard(func() {
			d := t1.NewT1Decoder(w, h, style)
			d.SetOrientation(orient)
			derr = d.DecodeLayeredWithMode(data, pl, mb, 0, style&t1.CblkStyleTermAll != 0, style&t1.CblkStyleReset != 0)
			got = d.GetData()
		})
		op := fmt.Sprintf("t1-ldec %d %d %d %d %d %s %s", w, h, orient, style, mb, c20IntsI(pl), hx.Hex(data))
		switch {
		case pd:
			c.Case(op, "panic")
		case derr != nil:
			c.Case(op, "err")
		default:
			c.Case(op, "ok "+c20Ints(got))
		}
	}
	dec(data, pl, mb)
	if len(data) > 2 && c.R.Intn(3) == 0 { // damaged input: outcomes must still agree
		m := append([]byte{}, data...)
		m[c.R.Intn(len(m))] ^= byte(1 << uint(c.R.Intn(8)))
		pl2 := append([]int{}, pl...)
		switch c.R.Intn(3) {
		case 0:
			i := c.R.Intn(len(pl2))
			pl2[i] = c.R.Range(0, len(m)+2)
		case 1:
			pl2 = pl2[:c.R.Range(1, len(pl2))]
		}
		dec(m, pl2, mb)
	}
}

func c20T1(c *hx.Ctx) {
	// code-shaped model (styles without LAZY): blocks up to 8x8 (and a few taller ones for the stripe/run-length logic)
	nCorr := 320
	if c.Thorough() {
		nCorr = 2500
	}
	for k := 0; k < nCorr; k++ {
		w, h := c.R.Range(1, 8), c.R.Range(1, 8)
		if k%9 == 0 {
			h = c.R.Range(9, 13)
		}
		x := c20T1Block(c.R, w, h, c.R.Pick([]int{0, 1, 1, 2, 4, 4, 5}))
		if k%7 == 0 {
			for i := range x {
				x[i] >>= 20 // small magnitudes: few bit-planes
			}
		}
		mb := c20MaxBitplane(x)
		np := 1
		if mb >= 0 {
			np = 3*(mb+1) - 2
			if c.R.Intn(3) == 0 {
				np = c.R.Range(1, np) // truncated pass count
			}
		}
		style := 0
		if k%2 == 1 {
			style = 2 * c.R.Intn(32) // any style without the LAZY bit
		}
		c20T1Corr(c, w, h, c.R.Intn(4), style, x, np, "random")
	}
	for style := 0; style < 64; style += 2 { // every modelled style at least once, all passes
		x := c20T1Block(c.R, 5, 6, 2)
		x[c.R.Intn(len(x))] = int32(c.R.Range(1, 200))
		c20T1Corr(c, 5, 6, style/2%4, style, x, 3*(c20MaxBitplane(x)+1)-2, "all-styles")
	}
	// layered API, all 64 styles
	nL := 200
	if c.Thorough() {
		nL = 2000
	}
	for k := 0; k < nL; k++ {
		w, h := c.R.Range(1, 8), c.R.Range(1, 8)
		if k%11 == 0 {
			h = c.R.Range(9, 13)
		}
		x := c20T1Block(c.R, w, h, c.R.Pick([]int{0, 1, 1, 2, 4, 4, 5}))
		if k%5 != 0 {
			for i := range x {
				x[i] >>= uint(c.R.Range(8, 24)) // LAZY needs >= 5 planes to reach raw passes, but keep blocks cheap
			}
		}
		mb := c20MaxBitplane(x)
		np := 1
		if mb >= 0 {
			np = 3*(mb+1) - 2
			if c.R.Intn(4) == 0 {
				np = c.R.Range(1, np)
			}
		}
		c20T1LayeredCorr(c, w, h, c.R.Intn(4), c.R.Intn(64), x, np, "random")
	}
	for style := 0; style < 64; style++ {
		x := c20T1Block(c.R, 4, 5, 2)
		x[c.R.Intn(len(x))] = int32(c.R.Range(64, 255)) // at least 7 planes: LAZY reaches its raw passes
		c20T1LayeredCorr(c, 4, 5, style%4, style, x, 3*(c20MaxBitplane(x)+1)-2, "all-styles")
	}
	// the pipeline's T1 configuration (Model/T1Pipe.lean): fractional bits + OpenJPEG reconstruction
	nP := 160
	if c.Thorough() {
		nP = 1500
	}
	for k := 0; k < nP; k++ {
		w, h := c.R.Range(1, 8), c.R.Range(1, 8)
		if k%9 == 0 {
			h = c.R.Range(9, 13)
		}
		x := c20T1Block(c.R, w, h, c.R.Pick([]int{0, 1, 1, 2, 4, 4, 5}))
		for i := range x {
			x[i] >>= uint(c.R.Range(7, 22)) // |x| < 2^25 so that x<<6 stays an int32
		}
		mb := c20MaxBitplane(x)
		np := 1
		if mb >= 0 {
			np = 3*(mb+1) - 2
			if c.R.Intn(4) == 0 {
				np = c.R.Range(1, np)
			}
		}
		fb, style := 6, 0
		if k%5 == 4 {
			fb = c.R.Intn(7)
		}
		if k%4 == 3 {
			style = 2 * c.R.Intn(32)
		}
		c20T1PipeCorr(c, fb, w, h, c.R.Intn(4), style, x, np, "random")
	}
	c20T1PipeCorr(c, 6, 2, 2, 0, 0, []int32{0, 0, 0, 0}, 1, "zero")
	c20T1PipeCorr(c, 6, 5, 3, 1, 0, make([]int32, 15), 1, "zero")
	c20T1PipeCorr(c, 6, 1, 7, 2, 0, make([]int32, 7), 1, "zero")
	c20T1PipeCorr(c, 6, 2, 2, 0, 0, []int32{1, 2, 3}, 4, "bad-size")
	c20T1PipeCorr(c, 6, 2, 1, 0, 0, []int32{-(1<<25 - 1), 1<<25 - 1}, 76, "max")
	c20T1LayeredCorr(c, 2, 2, 0, 5, []int32{0, 0, 0, 0}, 1, "zero")
	c20T1LayeredCorr(c, 2, 2, 0, 1, []int32{1, 2, 3}, 4, "bad-size")
	c20T1Corr(c, 1, 1, 0, 0, []int32{0}, 1, "zero")
	c20T1Corr(c, 3, 2, 1, 34, []int32{0, 0, 0, 0, 0, 0}, 1, "zero")
	c20T1Corr(c, 2, 2, 0, 0, []int32{1, 2, 3}, 4, "bad-size")
	// generated context tables vs the tables the package exports
	zc, sc, spb := t1.GetZeroCodingLUT(), t1.GetSignContextLUT(), t1.GetSignPredictionLUT()
	for i, v := range zc {
		c.Case(fmt.Sprintf("t1-lut zc %d", i), fmt.Sprintf("ok %d", v))
	}
	for i, v := range sc {
		c.Case(fmt.Sprintf("t1-lut sc %d", i), fmt.Sprintf("ok %d", v))
	}
	for i, v := range spb {
		c.Case(fmt.Sprintf("t1-lut spb %d", i), fmt.Sprintf("ok %d", v))
	}
	c.Case("t1-lut zc 2048", "panic")
	// regression anchors of the repaired class t1-lazy-without-termall (LAZY, no TERMALL)
	c20T1One(c, 1, 1, 0, 1, []int32{16}, "anchor")
	c20T1One(c, 2, 1, 0, 1, []int32{17, -16}, "anchor")
	sizes := [][2]int{{1, 1}, {1, 2}, {2, 1}, {2, 2}, {3, 3}, {4, 4}, {5, 5}, {1, 64}, {64, 1}, {7, 9}, {4, 13}, {16, 16}, {3, 6}, {32, 32}, {64, 64}}
	for si, sz := range sizes {
		for orient := 0; orient < 4; orient++ {
			for style := 0; style < 64; style++ {
				reps := 1
				if c.Thorough() {
					reps = 4
				}
				if sz[0]*sz[1] >= 1024 && !c.Thorough() && (style+orient+si)%4 != 0 {
					continue
				}
				for rep := 0; rep < reps; rep++ {
					class := (style + orient + rep + si) % 6
					c20T1One(c, sz[0], sz[1], orient, style, c20T1Block(c.R, sz[0], sz[1], class), "grid")
				}
			}
		}
	}
	n := 600
	if c.Thorough() {
		n = 20000
	}
	for k := 0; k < n; k++ {
		w, h := c.R.Range(1, 64), c.R.Range(1, 64)
		if k%3 == 0 {
			w, h = c.R.Range(1, 9), c.R.Range(1, 9)
		}
		c20T1One(c, w, h, c.R.Intn(4), c.R.Intn(64), c20T1Block(c.R, w, h, c.R.Intn(6)), "random")
	}
}

func c20(c *hx.Ctx) {
	c.Rule = "RCT: boundary cube + random triples within ±2^28 (distinct triples; non-trivial = not all zero). " +
		"DWT: all signals of length<=8 over {-2..2} (quick: exhaustive to 6, 1/24 sample of 7..8), every length 1..300, both parities; " +
		"multilevel: every width and height 1..257 at least 3 times with random levels 0..8 and origins 0..7 (non-trivial = levels>0 and a dimension >1). " +
		"MQ: every (bit,context) sequence over 2 contexts up to length 10 (thorough 11, plus all 16-bit strings under 4 context patterns), random sequences to 10^4 (thorough 10^5) with bias sweep over 1..19 contexts. " +
		"T1: size grid x 4 orientations x 64 styles + random blocks 1x1..64x64, EncodeLayered/DecodeLayeredWithMode with the reported pass lengths (and Encode/DecodeWithBitplane for the 16 styles without LAZY/TERMALL), all 3*planes-2 passes. " +
		"distinct = distinct inputs by content"
	c20RCT(c)
	c20DWT(c)
	c20MQ(c)
	c20T1(c)
}

func init() { register("C20", c20) }
