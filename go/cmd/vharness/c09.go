package main

// C09 — bounded time and memory — and the child-process execution engine that C08 and C09 share.
//
// Every decode of the C08/C09 search runs in a CHILD process: `vharness c09-child` is a re-exec of
// this same binary (intercepted in init(), before main() parses its arguments).  A child
//   * lowers its own RLIMIT_AS (kill switch: a run-away allocation aborts the child with the Go
//     runtime's fatal "out of memory", it cannot take the harness or the machine down),
//   * reads length-prefixed jobs on stdin, runs the real decoder under recover(), and answers one
//     line per job on stdout: outcome, wall time, bytes allocated during the call (exact upper
//     bound of the heap growth, from runtime/metrics) and — when asked to — the sampled peak heap.
// The parent keeps a pool of children, one job in flight per child, with a per-job watchdog.  When
// a child is killed by the watchdog or dies (fatal OOM, stack overflow, …) the job is marked and a
// fresh child takes over with the next job.

import (
	"bufio"
	"bytes"
	"encoding/binary"
	"encoding/hex"
	"fmt"
	"io"
	"os"
	"os/exec"
	"runtime"
	"runtime/debug"
	"runtime/metrics"
	"sort"
	"strconv"
	"strings"
	"sync"
	"sync/atomic"
	"syscall"
	"time"

	"verifharness/internal/hx"
)

const (
	c09WatchdogSec   = 10                // property: 10 s, applied to the CPU time (user+system) of the decoding process
	c09HangWall      = 60 * time.Second  // wall-clock only bounds hangs: 60 s with less than 1 s of CPU time …
	c09AbsWall       = 120 * time.Second // … or 120 s whatever the CPU time
	c09BaseBudget    = 512 << 20         // property: peak heap ≤ 512 MiB + 64·S
	c09PerSample     = 64                //
	c09SMax          = 1 << 22           // property applies when the declared S ≤ 2^22 (or nothing is declared)
	c09ChildAS       = uint64(6) << 30   // RLIMIT_AS of a child: far above the largest budget (768 MiB) + runtime overhead
	c09LargeWatchdog = 1500 * time.Millisecond
)

// c09Budget is the peak-heap budget of the property for a declared sample count (s < 0: nothing declared).
func c09Budget(s int64) uint64 {
	if s < 0 {
		s = 0
	}
	return uint64(c09BaseBudget) + uint64(c09PerSample)*uint64(s)
}

// ---------------------------------------------------------------------------------- child side

func init() {
	if len(os.Args) >= 2 && os.Args[1] == "c09-child" {
		c09ChildMain()
		os.Exit(0)
	}
	if len(os.Args) >= 4 && os.Args[1] == "c08-one" { // replay aid: vharness c08-one <entry point> <hex> [w h ba spp planar]
		var fi [5]uint16
		for k := 0; k < 5 && 4+k < len(os.Args); k++ {
			v, _ := strconv.Atoi(os.Args[4+k])
			fi[k] = uint16(v)
		}
		data := []byte{}
		if os.Args[3] != "-" {
			data, _ = hex.DecodeString(os.Args[3])
		}
		j := []c08Job{{Target: c08TargetIdx(os.Args[2]), FI: fi, Data: data, Measure: true}}
		j[0].S = c08ScanFor(c08Targets[j[0].Target].Family, data, fi).S
		r := c09RunJobs(j, 1)[0]
		fmt.Printf("declaredS=%d outcome=%s ms=%.1f cpu_ms=%.1f alloc=%d peak=%d site=%s kind=%s line=%s text=%s\n", j[0].S, r.Outcome, float64(r.Ns)/1e6, float64(r.Cpu)/1e6, r.Alloc, r.Peak, r.Site, r.Kind, r.Line, r.Text)
		os.Exit(0)
	}
	if len(os.Args) >= 7 && os.Args[1] == "c08-mct-wide" { // replay aid: vharness c08-mct-wide comps w h stages elemType → hex of the stream
		var a [5]int
		for k := range a {
			a[k], _ = strconv.Atoi(os.Args[2+k])
		}
		fmt.Println(hx.Hex(c08MctWide(a[0], a[1], a[2], a[3], a[4], false)))
		os.Exit(0)
	}
	if len(os.Args) >= 3 && os.Args[1] == "c09-pkt-corr" { // development aid: only the pkt-body correspondence lines, into <dir>
		c := hx.NewCtx("C09", 1, "quick", os.Args[2])
		c09CorrPktBody(c)
		c.Close()
		os.Exit(0)
	}
	if len(os.Args) >= 3 && os.Args[1] == "c08-mct-corr" { // development aid: only the mct-apply correspondence lines, into <dir>
		c := hx.NewCtx("C08", 1, "quick", os.Args[2])
		c08CorrMCT(c)
		c.Close()
		os.Exit(0)
	}
	if len(os.Args) >= 3 && os.Args[1] == "c08-corpus" { // analysis aid: print a corpus stream of the repo's encoders
		c := hx.NewCtx("C08", 1, "quick", os.TempDir())
		for _, sd := range c08Corpus(c) {
			if sd.Name == os.Args[2] {
				fmt.Println(hx.Hex(sd.Data))
			}
		}
		os.Exit(0)
	}
	if len(os.Args) >= 4 && os.Args[1] == "c08-prof" { // analysis aid: top allocation sites of one decode
		data, _ := hex.DecodeString(os.Args[3])
		runtime.MemProfileRate = 1
		t := c08TargetIdx(os.Args[2])
		_, _ = c08Targets[t].Run(data, [5]uint16{})
		runtime.GC()
		recs := make([]runtime.MemProfileRecord, 200000)
		n, _ := runtime.MemProfile(recs, true)
		recs = recs[:n]
		sort.Slice(recs, func(i, j int) bool { return recs[i].AllocBytes > recs[j].AllocBytes })
		for i := 0; i < 6 && i < len(recs); i++ {
			fr := runtime.CallersFrames(recs[i].Stack())
			var names []string
			for {
				f, more := fr.Next()
				if !strings.HasPrefix(f.Function, "runtime.") {
					names = append(names, fmt.Sprintf("%s:%d", strings.TrimPrefix(f.Function, "github.com/cocosip/go-dicom-codecs/"), f.Line))
				}
				if !more || len(names) >= 4 {
					break
				}
			}
			fmt.Printf("%12d bytes %8d objs  %s\n", recs[i].AllocBytes, recs[i].AllocObjects, strings.Join(names, " < "))
		}
		os.Exit(0)
	}
	register("C09", c09Main)
}

type c09StackInfo struct {
	Site string // top non-runtime frame: function name
	Line string // file:line of that frame
	Kind string // index | slice | divide | nil | makeslice | shift | conversion | other
	Text string // the panic value
}

// c09Recover turns a recovered panic value + stack into (site, kind).
func c09Classify(r any, stack string) c09StackInfo {
	text := fmt.Sprint(r)
	kind := "other"
	switch {
	case strings.Contains(text, "index out of range"):
		kind = "index"
	case strings.Contains(text, "slice bounds out of range"):
		kind = "slice"
	case strings.Contains(text, "integer divide by zero"):
		kind = "divide"
	case strings.Contains(text, "nil pointer dereference"), strings.Contains(text, "nil map"):
		kind = "nil"
	case strings.Contains(text, "makeslice"), strings.Contains(text, "makechan"):
		kind = "makeslice"
	case strings.Contains(text, "negative shift"):
		kind = "shift"
	case strings.Contains(text, "cannot convert slice"):
		kind = "conversion"
	}
	info := c09StackInfo{Kind: kind, Text: text, Site: "unknown"}
	lines := strings.Split(stack, "\n")
	// frames come as pairs: "pkg.func(args)" / "\tfile:line +0x.."; skip until after "panic(" frame(s)
	seenPanic := false
	for i := 0; i+1 < len(lines); i++ {
		fn := lines[i]
		if strings.HasPrefix(fn, "\t") || strings.HasPrefix(fn, "goroutine ") || fn == "" {
			continue
		}
		if strings.HasPrefix(fn, "panic(") {
			seenPanic = true
			continue
		}
		if !seenPanic {
			continue
		}
		if strings.HasPrefix(fn, "runtime.") || strings.HasPrefix(fn, "runtime/") {
			continue
		}
		// first frame outside the runtime below the panic
		name := fn
		if k := strings.LastIndex(name, "("); k > 0 {
			name = name[:k]
		}
		name = strings.TrimPrefix(name, "github.com/cocosip/go-dicom-codecs/")
		name = strings.NewReplacer("(*", "", ")", "", "[...]", "").Replace(name)
		info.Site = name
		loc := strings.TrimSpace(lines[i+1])
		if k := strings.Index(loc, " +0x"); k > 0 {
			loc = loc[:k]
		}
		if k := strings.Index(loc, "go-dicom-codecs"); k >= 0 {
			loc = loc[k+len("go-dicom-codecs"):]
		}
		loc = strings.TrimPrefix(loc, "/repo/")
		loc = strings.TrimPrefix(loc, "/")
		info.Line = loc
		break
	}
	return info
}

var c09AllocMetric = []metrics.Sample{{Name: "/gc/heap/allocs:bytes"}}

func c09AllocBytes() uint64 {
	metrics.Read(c09AllocMetric)
	if c09AllocMetric[0].Value.Kind() == metrics.KindUint64 {
		return c09AllocMetric[0].Value.Uint64()
	}
	return 0
}

// c09SelfCPU: user+system CPU time of this process so far, in ns
func c09SelfCPU() int64 {
	var ru syscall.Rusage
	if err := syscall.Getrusage(syscall.RUSAGE_SELF, &ru); err != nil {
		return 0
	}
	return (int64(ru.Utime.Sec)+int64(ru.Stime.Sec))*1e9 + (int64(ru.Utime.Usec)+int64(ru.Stime.Usec))*1e3
}

// c09ProcCPU: user+system CPU time of another process from /proc/<pid>/stat (clock ticks of 10 ms), in ns; -1 if unreadable
func c09ProcCPU(pid int) int64 {
	b, err := os.ReadFile("/proc/" + strconv.Itoa(pid) + "/stat")
	if err != nil {
		return -1
	}
	k := bytes.LastIndexByte(b, ')')
	if k < 0 {
		return -1
	}
	f := strings.Fields(string(b[k+1:]))
	if len(f) < 13 {
		return -1
	}
	ut, e1 := strconv.ParseInt(f[11], 10, 64)
	st, e2 := strconv.ParseInt(f[12], 10, 64)
	if e1 != nil || e2 != nil {
		return -1
	}
	return (ut + st) * 1e7
}

// c09ChildMain: job frame = u32 target | u32 flags | 5×u16 frame info | u32 len | data.
// answer line  = outcome \t ns \t allocBytes \t peakBytes \t site \t kind \t line \t cpuNs \t text/desc
func c09ChildMain() {
	lim := c09ChildAS
	if v := os.Getenv("C09_AS_BYTES"); v != "" {
		if n, err := strconv.ParseUint(v, 10, 64); err == nil {
			lim = n
		}
	}
	_ = syscall.Setrlimit(syscall.RLIMIT_AS, &syscall.Rlimit{Cur: lim, Max: lim})
	debug.SetMaxStack(256 << 20)
	in := bufio.NewReaderSize(os.Stdin, 1<<20)
	out := bufio.NewWriterSize(os.Stdout, 1<<16)
	hdr := make([]byte, 22)
	for {
		if _, err := io.ReadFull(in, hdr); err != nil {
			return
		}
		target := int(binary.LittleEndian.Uint32(hdr[0:]))
		flags := binary.LittleEndian.Uint32(hdr[4:])
		var fi [5]uint16
		for k := 0; k < 5; k++ {
			fi[k] = binary.LittleEndian.Uint16(hdr[8+2*k:])
		}
		n := int(binary.LittleEndian.Uint32(hdr[18:]))
		data := make([]byte, n)
		if _, err := io.ReadFull(in, data); err != nil {
			return
		}
		// heartbeat: the parent's watchdog starts when the job has been read, not when it was sent
		out.WriteString("S\n")
		out.Flush()
		measure := flags&1 != 0
		var peak uint64
		var stop chan struct{}
		var done sync.WaitGroup
		if measure {
			runtime.GC()
			stop = make(chan struct{})
			done.Add(1)
			go func() {
				defer done.Done()
				// heap objects (live + not yet swept) = MemStats.HeapAlloc, read without stopping the world
				hs := []metrics.Sample{{Name: "/memory/classes/heap/objects:bytes"}}
				for {
					metrics.Read(hs)
					if hs[0].Value.Kind() == metrics.KindUint64 && hs[0].Value.Uint64() > peak {
						peak = hs[0].Value.Uint64()
					}
					select {
					case <-stop:
						return
					case <-time.After(300 * time.Microsecond):
					}
				}
			}()
		}
		a0 := c09AllocBytes()
		c0 := c09SelfCPU()
		t0 := time.Now()
		outcome, desc, st := c09RunOne(target, fi, data)
		ns := time.Since(t0).Nanoseconds()
		cpu := c09SelfCPU() - c0
		a1 := c09AllocBytes()
		if measure {
			close(stop)
			done.Wait()
		}
		clean := func(s string) string {
			return strings.NewReplacer("\t", " ", "\n", " ", "\r", " ").Replace(s)
		}
		fmt.Fprintf(out, "%s\t%d\t%d\t%d\t%s\t%s\t%s\t%d\t%s\n", outcome, ns, a1-a0, peak, clean(st.Site), st.Kind, clean(st.Line), cpu, clean(desc))
		out.Flush()
	}
}

// c09RunOne runs one decode of the real code under recover.
func c09RunOne(target int, fi [5]uint16, data []byte) (outcome, desc string, st c09StackInfo) {
	defer func() {
		if r := recover(); r != nil {
			st = c09Classify(r, string(debug.Stack()))
			outcome = "panic"
			desc = st.Text
		}
	}()
	if target < 0 || target >= len(c08Targets) {
		return "err", "bad target", st
	}
	d, err := c08Targets[target].Run(data, fi)
	if err != nil {
		return "err", "", st
	}
	return "ok", d, st
}

// ---------------------------------------------------------------------------------- parent side

type c08Job struct {
	Target  int
	FI      [5]uint16 // W, H, BitsAllocated, SamplesPerPixel, PlanarConfiguration (RLE / codec targets)
	Data    []byte
	Origin  string // mutation operator
	Base    string // corpus stream it derives from
	S       int64  // declared samples of the independently parsed first frame header; -1 = none
	Measure bool
}

type c08Res struct {
	Outcome string // ok | err | panic | timeout (CPU budget used up) | hang (wall-clock bound) | crash-oom | crash
	Ns      int64  // wall
	Cpu     int64  // CPU time (user+system) of the child during this decode
	// Unconfirmed: a time/memory excess of the parallel pass that was not re-run sequentially (over the confirmation quota)
	Unconfirmed bool
	Alloc       uint64
	Peak        uint64
	Site        string
	Kind        string
	Line        string
	Text        string // panic text / ok description / crash tail
}

type c09Child struct {
	cmd   *exec.Cmd
	in    io.WriteCloser
	lines chan string
	errb  *c09Tail
}

type c09Tail struct {
	mu  sync.Mutex
	buf []byte
}

func (t *c09Tail) Write(p []byte) (int, error) {
	t.mu.Lock()
	if len(t.buf) < 1500 { // the headline of a fatal error comes first
		k := 1500 - len(t.buf)
		if k > len(p) {
			k = len(p)
		}
		t.buf = append(t.buf, p[:k]...)
	}
	t.mu.Unlock()
	return len(p), nil
}
func (t *c09Tail) String() string { t.mu.Lock(); defer t.mu.Unlock(); return string(t.buf) }

func c09Spawn() (*c09Child, error) {
	exe, err := os.Executable()
	if err != nil {
		return nil, err
	}
	cmd := exec.Command(exe, "c09-child")
	cmd.Env = append(os.Environ(), "GOMEMLIMIT=2GiB", "GOTRACEBACK=single", "GOMAXPROCS=2")
	in, err := cmd.StdinPipe()
	if err != nil {
		return nil, err
	}
	outp, err := cmd.StdoutPipe()
	if err != nil {
		return nil, err
	}
	tail := &c09Tail{}
	cmd.Stderr = tail
	if err := cmd.Start(); err != nil {
		return nil, err
	}
	ch := &c09Child{cmd: cmd, in: in, lines: make(chan string, 4), errb: tail}
	go func() {
		sc := bufio.NewReaderSize(outp, 1<<16)
		for {
			l, err := sc.ReadString('\n')
			if err != nil {
				close(ch.lines)
				return
			}
			ch.lines <- strings.TrimRight(l, "\n")
		}
	}()
	return ch, nil
}

func (ch *c09Child) kill() {
	if ch == nil {
		return
	}
	_ = ch.in.Close()
	if ch.cmd.Process != nil {
		_ = ch.cmd.Process.Kill()
	}
	go func() { _ = ch.cmd.Wait() }()
}

func (ch *c09Child) send(j *c08Job) error {
	hdr := make([]byte, 22, 22+len(j.Data))
	binary.LittleEndian.PutUint32(hdr[0:], uint32(j.Target))
	var flags uint32
	if j.Measure {
		flags |= 1
	}
	binary.LittleEndian.PutUint32(hdr[4:], flags)
	for k := 0; k < 5; k++ {
		binary.LittleEndian.PutUint16(hdr[8+2*k:], j.FI[k])
	}
	binary.LittleEndian.PutUint32(hdr[18:], uint32(len(j.Data)))
	_, err := ch.in.Write(append(hdr, j.Data...))
	return err
}

var c09Stats struct {
	spawned, timeouts, crashes int64
}

// c09RunJobs runs all jobs on a pool of children and returns the results in job order.
func c09RunJobs(jobs []c08Job, workers int) []c08Res {
	return c09RunJobsWD(jobs, workers, time.Duration(c09WatchdogSec)*time.Second+500*time.Millisecond)
}

// c09RunJobsWD: same with an explicit watchdog for the inputs inside the C09 quantifier (a first, cheaper
// pass of the quick tier uses a shorter one and re-runs what it killed under the full watchdog).
func c09RunJobsWD(jobs []c08Job, workers int, watchdog time.Duration) []c08Res {
	res := make([]c08Res, len(jobs))
	var next int64 = -1
	var wg sync.WaitGroup
	for w := 0; w < workers; w++ {
		wg.Add(1)
		go func() {
			defer wg.Done()
			var ch *c09Child
			defer func() { ch.kill() }()
			timer := time.NewTimer(time.Hour)
			for {
				i := int(atomic.AddInt64(&next, 1))
				if i >= len(jobs) {
					return
				}
				j := &jobs[i]
				for attempt := 0; ; attempt++ {
					if ch == nil {
						c, err := c09Spawn()
						if err != nil {
							res[i] = c08Res{Outcome: "crash", Text: "spawn: " + err.Error()}
							break
						}
						atomic.AddInt64(&c09Stats.spawned, 1)
						ch = c
					}
					if err := ch.send(j); err != nil {
						ch.kill()
						ch = nil
						if attempt < 2 {
							continue
						}
						res[i] = c08Res{Outcome: "crash", Text: "send: " + err.Error()}
						break
					}
					wd := watchdog
					if j.S > c09SMax && wd > c09LargeWatchdog {
						wd = c09LargeWatchdog
					}
					// 1. heartbeat (job read by the child) within 60 s; 2. answer before the child has used `wd` of CPU time
					// (polled from /proc every 100 ms); wall-clock only bounds hangs
					stage := 0
					var w0 time.Time
					var cpu0 int64
				wait:
					for {
						if !timer.Stop() {
							select {
							case <-timer.C:
							default:
							}
						}
						if stage == 0 {
							timer.Reset(60 * time.Second)
						} else {
							timer.Reset(100 * time.Millisecond)
						}
						select {
						case l, ok := <-ch.lines:
							if ok && stage == 0 && l == "S" {
								stage = 1
								w0 = time.Now()
								cpu0 = c09ProcCPU(ch.cmd.Process.Pid)
								continue wait
							}
							if !ok {
								// child died on this job: reap it first, so that its stderr (the runtime's fatal
								// error headline) has been copied completely before it is classified
								_ = ch.in.Close()
								_ = ch.cmd.Wait()
								tail := ch.errb.String()
								ch = nil
								atomic.AddInt64(&c09Stats.crashes, 1)
								oc := "crash"
								if strings.Contains(tail, "out of memory") || strings.Contains(tail, "cannot allocate memory") {
									oc = "crash-oom"
								}
								if k := strings.Index(tail, "goroutine "); k > 0 {
									tail = tail[:k]
								}
								if len(tail) > 400 {
									tail = tail[:400]
								}
								res[i] = c08Res{Outcome: oc, Text: strings.ReplaceAll(tail, "\n", " ; ")}
							} else {
								res[i] = c09ParseLine(l)
							}
						case <-timer.C:
							if stage == 0 {
								ch.kill()
								ch = nil
								atomic.AddInt64(&c09Stats.timeouts, 1)
								res[i] = c08Res{Outcome: "hang", Ns: (60 * time.Second).Nanoseconds(), Text: "no heartbeat: the job was not read within 60 s"}
								break wait
							}
							wall := time.Since(w0)
							cpu := int64(-1)
							if c1 := c09ProcCPU(ch.cmd.Process.Pid); c1 >= 0 && cpu0 >= 0 {
								cpu = c1 - cpu0
							}
							switch {
							case cpu >= wd.Nanoseconds() || (cpu < 0 && wall >= wd): // (/proc unreadable: fall back to wall-clock)
								ch.kill()
								ch = nil
								atomic.AddInt64(&c09Stats.timeouts, 1)
								res[i] = c08Res{Outcome: "timeout", Ns: wall.Nanoseconds(), Cpu: cpu}
							case (wall >= c09HangWall && cpu < 1e9) || wall >= c09AbsWall || (j.S > c09SMax && wall >= 20*wd):
								ch.kill()
								ch = nil
								atomic.AddInt64(&c09Stats.timeouts, 1)
								res[i] = c08Res{Outcome: "hang", Ns: wall.Nanoseconds(), Cpu: cpu}
							default:
								continue wait
							}
						}
						break wait
					}
					break
				}
			}
		}()
	}
	wg.Wait()
	return res
}

func c09ParseLine(l string) c08Res {
	f := strings.SplitN(l, "\t", 9)
	if len(f) < 9 {
		return c08Res{Outcome: "crash", Text: "bad child line: " + l}
	}
	ns, _ := strconv.ParseInt(f[1], 10, 64)
	al, _ := strconv.ParseUint(f[2], 10, 64)
	pk, _ := strconv.ParseUint(f[3], 10, 64)
	cpu, _ := strconv.ParseInt(f[7], 10, 64)
	return c08Res{Outcome: f[0], Ns: ns, Cpu: cpu, Alloc: al, Peak: pk, Site: f[4], Kind: f[5], Line: f[6], Text: f[8]}
}

func c09Workers() int {
	n := runtime.NumCPU()
	if n > 16 {
		n = 16
	}
	if n < 2 {
		n = 2
	}
	return n
}

// ---------------------------------------------------------------------------------- the C09 check

// c09Violation decides the property on one result. applicable = S ≤ 2^22 or nothing declared.
func c09Violation(j *c08Job, r *c08Res) (class, what string) {
	if j.S > c09SMax || r.Unconfirmed {
		return "", ""
	}
	tname := c08Targets[j.Target].Name
	// a time class names the input class and the loop it drives, not the entry point it was observed through
	timeClass := "c09-time-" + tname
	switch c08Targets[j.Target].Family {
	case "j2k":
		if l := c09J2KLayers(j.Data); l >= 256 {
			timeClass = "c09-time-j2k-declared-layers" // t2.PacketDecoder.decodeLRCP/RLCP/RPCL/PCRL/CPRL iterate all declared layers
		} else if c09J2KLevelsComps(j.Data) >= 1<<17 || c09J2KDeclaredCsiz(j.Data) >= 4096 {
			// per (tile, component, resolution): maps and tables of t2.PacketDecoder (storePrecinctBands, position maps) and
			// t2.TileDecoder, about 15–20 µs each, and geometry (bandInfosForResolution, resolutionDimsWithOrigin,
			// splitLengths) that walks all levels again: tiles x components x levels^2 steps — decided by the header
			// fields (tile-parts x Csiz x (levels+1) ≥ 2^17, or Csiz ≥ 4096: with thousands of components any second factor —
			// levels, tile-parts, the NOMINAL code-block area every block's T1 buffers are sized by — reaches the budget),
			// not by the outcome
			timeClass = "c09-time-j2k-per-component-overhead"
		} else if c09J2KMctWork(j.Data) >= 2e8 {
			// jpeg2000.Decoder.applyDecoderMCTBindings: stages x pixels x (collection width)^2 multiply-adds, with up to
			// 255 stages (MCO) of up to 181 x 181 matrices (about 3·10^8 multiply-adds per CPU second) — the class is decided by
			// this work estimate, not by the outcome: below 2·10^8 the transform cannot be what uses up the budget
			timeClass = "c09-time-j2k-mct-stages"
		} else if c09J2KOneAxisOffset(j.Data) {
			// tile / tile-component buffers sized by a grid coordinate instead of the tile-component extent
			// (t2.NewTileDecoder clamps, TileDecoder buffers, TileAssembler)
			timeClass = "c09-j2k-one-axis-offset"
		} else if c09J2KGridOffset(j.Data) >= 1024 {
			// t2.PacketDecoder.decodePacket → newCodeBlockStates / NewTagTree sized by precinctCBDimensions, which
			// buildPrecinctOrder computed from the reference-grid origin instead of the tile-component origin:
			// repaired by 3981d09 (finding marked fixed) — the whole grid-offset family is fast now and a failure
			// of this class is reported as a violation again
			timeClass = "c09-j2k-grid-offset"
		}
	case "jpeg":
		if n := c09CountSOF(j.Data); n >= 2 {
			timeClass = "c09-time-jpeg-repeated-sof" // lossless14sv1.parseSOF3 / baseline.parseSOF allocate per SOF segment
		}
	}
	memClass, oomClass := "c09-mem-"+tname, "c09-oom-"+tname
	if timeClass == "c09-j2k-grid-offset" || timeClass == "c09-j2k-one-axis-offset" || timeClass == "c09-time-j2k-per-component-overhead" {
		memClass, oomClass = timeClass, timeClass
	}
	switch r.Outcome {
	case "timeout":
		return timeClass, fmt.Sprintf("decode did not return within %d s of CPU time (killed after %.1f s of CPU, %.1f s wall)", c09WatchdogSec, float64(r.Cpu)/1e9, float64(r.Ns)/1e9)
	case "hang":
		return "c09-hang-" + tname, fmt.Sprintf("decode made no progress: %.1f s wall with %.1f s of CPU time", float64(r.Ns)/1e9, float64(r.Cpu)/1e9)
	case "crash-oom":
		return oomClass, "fatal out-of-memory abort of the decoding process (RLIMIT_AS kill switch): " + r.Text
	case "crash":
		return "c09-crash-" + tname, "decoding process died: " + r.Text
	}
	if r.Cpu > int64(c09WatchdogSec)*1e9 {
		return timeClass, fmt.Sprintf("decode used %.1f s of CPU time (%.1f s wall)", float64(r.Cpu)/1e9, float64(r.Ns)/1e9)
	}
	if r.Peak > c09Budget(j.S) {
		return memClass, fmt.Sprintf("sampled peak heap %d bytes > budget %d (S=%d)", r.Peak, c09Budget(j.S), j.S)
	}
	return "", ""
}

// c09J2KLayers: number of quality layers declared by the first COD segment (independent scan), -1 if none
func c09J2KLayers(b []byte) int {
	for _, sg := range c08ScanJ2K(b).Segs {
		if sg.Marker == 0x52 && sg.Off+7 < len(b) {
			return int(b[sg.Off+6])<<8 | int(b[sg.Off+7])
		}
	}
	return -1
}

// c09J2KDeclaredCsiz: Csiz of the SIZ segment (independent scan), 0 if none
func c09J2KDeclaredCsiz(b []byte) int64 {
	if len(b) < 42 || b[0] != 0xFF || b[1] != 0x4F || b[2] != 0xFF || b[3] != 0x51 {
		return 0
	}
	return int64(c08Be16(b, 40))
}

// c09J2KLevelsComps: tile-parts x Csiz x (largest decomposition level count declared by a COD / COC segment of the main header + 1),
// from an independent scan (tiles = number of SOT segments, i.e. tile-parts, in the stream)
func c09J2KLevelsComps(b []byte) int64 {
	if len(b) < 42 || b[0] != 0xFF || b[1] != 0x4F || b[2] != 0xFF || b[3] != 0x51 {
		return 0
	}
	csiz := int64(c08Be16(b, 40))
	wide := csiz > 256
	tiles, levels := int64(0), int64(0)
	for _, sg := range c08ScanJ2K(b).Segs {
		p := -1
		switch sg.Marker {
		case 0x52:
			p = sg.Off + 9
		case 0x53:
			p = sg.Off + 6
			if wide {
				p++
			}
		case 0x90:
			tiles++
			continue
		}
		if tiles == 0 && p >= 0 && p < len(b) && int64(b[p]) > levels {
			levels = int64(b[p])
		}
	}
	if tiles == 0 {
		tiles = 1
	}
	return tiles * csiz * (levels + 1)
}

// c09J2KMctWork: stages x pixels x (widest MCC collection)^2, from an independent scan of the main header: stages = length
// of the first MCO stage list, or the number of MCC segments if there is none
func c09J2KMctWork(b []byte) float64 {
	sc := c08ScanJ2K(b)
	if len(b) < 42 || b[0] != 0xFF || b[1] != 0x4F || b[2] != 0xFF || b[3] != 0x51 {
		return 0
	}
	w, h := c08Be32(b, 8)-c08Be32(b, 16), c08Be32(b, 12)-c08Be32(b, 20)
	if w <= 0 || h <= 0 {
		return 0
	}
	stages, nmcc, width := -1, 0, 0
	for _, sg := range sc.Segs {
		switch sg.Marker {
		case 0x75:
			nmcc++
			if sg.Off+15 <= len(b) {
				if n := c08Be16(b, sg.Off+12) & 0x7FFF; n > width {
					width = n
				}
			}
		case 0x77:
			if stages < 0 && sg.Off+5 <= len(b) && b[sg.Off+4] > 0 {
				stages = int(b[sg.Off+4])
			}
		case 0x90:
			goto done
		}
	}
done:
	if stages < 0 {
		stages = nmcc
	}
	return float64(stages) * float64(w) * float64(h) * float64(width) * float64(width)
}

// c09J2KGridOffset: min(XOsiz, YOsiz) of the SIZ segment (independent scan), 0 if none.  The known class
// c09-j2k-grid-offset is the QUADRATIC growth of the per-precinct code-block grids, which needs BOTH image offsets
// large; with one axis at 0 the unchanged decoder is fast, and a blow-up there must not be filed under that class.
func c09J2KGridOffset(b []byte) int64 {
	if len(b) < 24 || b[0] != 0xFF || b[1] != 0x4F || b[2] != 0xFF || b[3] != 0x51 {
		return 0
	}
	return min(c08Be32(b, 16), c08Be32(b, 20))
}

// c09J2KOneAxisOffset: one image offset ≥ 1024 and the other below it (the X-only / Y-only family)
func c09J2KOneAxisOffset(b []byte) bool {
	if len(b) < 24 || b[0] != 0xFF || b[1] != 0x4F || b[2] != 0xFF || b[3] != 0x51 {
		return false
	}
	return max(c08Be32(b, 16), c08Be32(b, 20)) >= 1024 && min(c08Be32(b, 16), c08Be32(b, 20)) < 1024
}

// c09CountSOF: number of frame-header segments in front of the first scan
func c09CountSOF(b []byte) int {
	n := 0
	for _, sg := range c08ScanJPEG(b).Segs {
		m := sg.Marker
		if (m >= 0xC0 && m <= 0xCF && m != 0xC4 && m != 0xC8 && m != 0xCC) || m == 0xF7 {
			n++
		}
	}
	return n
}

func c09Main(c *hx.Ctx) {
	c.Rule = "one evaluation = one decode of one (entry point, byte string[, FrameInfo]) in a child process under a budget of 10 s of CPU time (user+system of that process; wall-clock only bounds hangs: 60 s without CPU use, 120 s absolute), " +
		"RLIMIT_AS kill switch and allocation accounting; every excess is re-run alone in a fresh process at the end and reported only if it fails again; the property is evaluated when the independently parsed first frame header " +
		"(SOF/SIZ; FrameInfo for RLE) declares S ≤ 2^22 or nothing; non-trivial = the input is not a bare corpus stream " +
		"(it is a mutation) and the decoder got past the start-of-image check (outcome ok, or an error/panic after at least 4 bytes)"
	jobs := c08BuildJobs(c)
	res := c09Pass(c, jobs, 2)
	// second stage: exact peak sampling for the jobs whose allocation volume exceeds the budget
	var again []int
	for i := range jobs {
		if jobs[i].S <= c09SMax && res[i].Outcome != "timeout" && !strings.HasPrefix(res[i].Outcome, "crash") && res[i].Alloc > c09Budget(jobs[i].S) {
			again = append(again, i)
		}
	}
	if len(again) > 0 {
		js := make([]c08Job, len(again))
		for k, i := range again {
			js[k] = jobs[i]
			js[k].Measure = true
		}
		rs := c09RunJobs(js, 4)
		for k, i := range again {
			res[i] = rs[k]
		}
		c.CountN("stage2-peak-sampled", len(again))
	}
	c09Confirm(c, jobs, res, 24)
	seen := map[string]int{}
	var maxNs int64
	var maxAlloc uint64
	for i := range jobs {
		j, r := &jobs[i], &res[i]
		tname := c08Targets[j.Target].Name
		c.Count("target:" + tname)
		c.Count("op:" + j.Origin)
		c.Count("outcome:" + r.Outcome)
		if j.S > c09SMax {
			c.Count("declared-S>2^22 (property not applicable; run with a short watchdog)")
			continue
		}
		if j.S < 0 {
			c.Count("declares-nothing")
		}
		c.Eval(fmt.Sprintf("%d|%v|%x", j.Target, j.FI, j.Data), j.Origin != "corpus" && len(j.Data) >= 4)
		if r.Ns > maxNs {
			maxNs = r.Ns
		}
		if r.Alloc > maxAlloc && r.Outcome != "timeout" {
			maxAlloc = r.Alloc
		}
		switch {
		case r.Ns > 1e9:
			c.Count("time:>1s")
		case r.Ns > 1e8:
			c.Count("time:100ms-1s")
		case r.Ns > 1e6:
			c.Count("time:1ms-100ms")
		default:
			c.Count("time:<1ms")
		}
		switch {
		case r.Alloc > 256<<20:
			c.Count("alloc:>256MiB")
		case r.Alloc > 16<<20:
			c.Count("alloc:16-256MiB")
		case r.Alloc > 1<<20:
			c.Count("alloc:1-16MiB")
		default:
			c.Count("alloc:<1MiB")
		}
		if dbg := os.Getenv("C09_TRACE_BASE"); dbg != "" && strings.Contains(j.Base, dbg) { // analysis aid
			cl, _ := c09Violation(j, r)
			fmt.Fprintf(os.Stderr, "trace %s %s/%s len=%d S=%d outcome=%s ns=%d cpu=%d alloc=%d peak=%d class=%s\n", c08Targets[j.Target].Name, j.Origin, j.Base, len(j.Data), j.S, r.Outcome, r.Ns, r.Cpu, r.Alloc, r.Peak, cl)
		}
		if class, what := c09Violation(j, r); class != "" {
			seen[class]++
			if seen[class] <= 2 {
				c.Fail(hx.Failure{Class: class, What: what,
					Input:    c08InputMap(j),
					Expected: fmt.Sprintf("return within %d s of CPU time and peak heap ≤ %d bytes (S=%d)", c09WatchdogSec, c09Budget(j.S), j.S),
					Actual:   fmt.Sprintf("outcome=%s wall_ns=%d cpu_ns=%d alloc=%d peak=%d %s (confirmed by a sequential re-run in a fresh process)", r.Outcome, r.Ns, r.Cpu, r.Alloc, r.Peak, r.Text)})
			} else {
				c.Count("fail-more:" + class)
			}
		}
	}
	c.Sample(map[string]any{"max_wall_ns": maxNs, "max_alloc_bytes_one_decode": maxAlloc, "children_spawned": c09Stats.spawned,
		"watchdog_kills": c09Stats.timeouts, "child_deaths": c09Stats.crashes, "jobs": len(jobs)})
	c08Correspondence(c)
}

// c09Pass runs the jobs in parallel: the thorough tier under the full budget (10 s of CPU time per decode), the quick
// tier under a 4 s one.  What it reports as over the time or memory budget is only a CANDIDATE: c09Confirm re-runs the
// candidates one by one at the end, and only what fails again is a failure.  With confirm == 0 (C08: time is not its
// business) the inputs killed by the quick tier's short budget are just marked slow.
func c09Pass(c *hx.Ctx, jobs []c08Job, confirm int) []c08Res {
	if c.Thorough() {
		return c09RunJobs(jobs, c09Workers())
	}
	res := c09RunJobsWD(jobs, c09Workers(), 4*time.Second)
	if confirm == 0 {
		for i := range res {
			if res[i].Outcome == "timeout" && jobs[i].S <= c09SMax {
				res[i].Outcome = "slow>4s"
			}
		}
	}
	return res
}

// c09Confirm: every time / memory excess seen by the parallel passes is re-run SEQUENTIALLY, alone, in a fresh child
// process, with measurement on, when no other child of the harness is running — at most `quota` of them (per class: until two have failed again, at most 8 attempts, 3 in the quick tier), spread
// round-robin over (class, entry point, operator), within one key the last input first, then the first, then inwards
// (the inputs of an operator are usually ordered by a growing parameter).  A candidate that passes its re-run is counted
// as flaky-unconfirmed, one beyond the quota as unconfirmed-over-quota; neither is a failure.
func c09Confirm(c *hx.Ctx, jobs []c08Job, res []c08Res, quota int) {
	per := map[string][]int{}
	var keys []string
	for i := range jobs {
		class, _ := c09Violation(&jobs[i], &res[i])
		if class == "" {
			continue
		}
		key := fmt.Sprintf("%s|%d|%s", class, jobs[i].Target, jobs[i].Origin)
		if per[key] == nil {
			keys = append(keys, key)
		}
		per[key] = append(per[key], i)
	}
	// the order within one key: last, first, then inwards
	ordered := map[string][]int{}
	for _, key := range keys {
		idx := per[key]
		for d := 0; d < len(idx); d++ {
			i := idx[d/2]
			if d%2 == 0 {
				i = idx[len(idx)-1-d/2]
			}
			dup := false
			for _, x := range ordered[key] {
				dup = dup || x == i
			}
			if !dup {
				ordered[key] = append(ordered[key], i)
			}
		}
	}
	// round-robin over the keys; a class needs no further re-runs once two of its candidates have failed again, and gets
	// no more than 8 (quick tier: 3) attempts — so a class whose first picks were borderline still gets its clear cases tried
	maxAttempts, enough := 8, 2
	if !c.Thorough() {
		maxAttempts = 3
	}
	attempts, failed := map[string]int{}, map[string]int{}
	done := map[int]bool{}
	total := 0
	for progress := true; progress && total < quota; {
		progress = false
		for _, key := range keys {
			class := key[:strings.Index(key, "|")]
			if total >= quota || failed[class] >= enough || attempts[class] >= maxAttempts || len(ordered[key]) == 0 {
				continue
			}
			i := ordered[key][0]
			ordered[key] = ordered[key][1:]
			progress = true
			attempts[class]++
			total++
			done[i] = true
			j := jobs[i]
			j.Measure = true
			r := c09RunJobs([]c08Job{j}, 1)[0] // its own worker: spawns a child for this one job and kills it afterwards
			c.Count("confirmation-re-run")
			if again, _ := c09Violation(&j, &r); again == "" {
				c.Count("flaky-unconfirmed")
				c.Count("flaky-unconfirmed:" + class)
			} else {
				failed[class]++
			}
			res[i] = r
		}
	}
	for _, key := range keys {
		for _, i := range per[key] {
			if !done[i] {
				res[i].Unconfirmed = true
				c.Count("unconfirmed-over-quota")
			}
		}
	}
}
