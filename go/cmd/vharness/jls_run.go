package main

// Run-mode segment correspondence (model: lean/GdcVerif/Model/JpegLsRun.lean):
//   jls-runseg-enc mode comps P near runIndex A0 N0 NN0 A1 N1 NN1 width x pixels…
//        -> ok <bytes> processed runIndex A0 N0 NN0 A1 N1 NN1 pixels…
//   jls-runseg-dec <bytes> mode comps P near runIndex A0 … width x pixels…
//        -> ok processed runIndex A0 … pixels…
// mode 0 drives jpegls/lossless (encodeSampleRunMode/doRunMode, decodeSampleRunMode/doRunMode),
// mode 1 drives jpegls/nearlossless — four separate copies of the run-mode code, each compared
// with the one model, so that a one-sided edit of any encoder or decoder disagrees.
// The same tuples evaluate the property "decoder segment reproduces the encoder's reconstruction
// and run state" on the real code.

import (
	"fmt"
	"strings"

	"github.com/cocosip/go-dicom-codecs/jpegls/lossless"
	"github.com/cocosip/go-dicom-codecs/jpegls/nearlossless"

	"verifharness/internal/hx"
)

func jlsStInts(st lossless.VerifRunState) []int {
	return []int{st.RunIndex, st.Ctx[0][0], st.Ctx[0][1], st.Ctx[0][2], st.Ctx[1][0], st.Ctx[1][1], st.Ctx[1][2]}
}

func jlsRunSegments(c *hx.Ctx, n int) {
	r := c.R
	// rounds n .. n+long-1: LONG runs (added after seeded change C08-m8) — the run index 20..31 with a run of exactly
	// 2^J[RunIndex] or one more sample, one component: the only way to see incRunIndex at the end of the J table
	long := 24
	if c.Thorough() {
		long = 96
	}
	for round := 0; round < n+long; round++ {
		isLong := round >= n
		mode := r.Intn(2)
		comps := r.Pick([]int{1, 3})
		if isLong {
			comps = 1
		}
		p, near := jlsPN(r)
		if round%3 == 0 {
			p = r.Pick([]int{2, 3, 4, 8})
			near = 0
		}
		if mode == 0 {
			near = 0
		}
		mv := (1 << uint(p)) - 1
		if near > mv/2 {
			near = mv / 2
		}
		t := lossless.NewTraits(mv, near, 64)
		st := lossless.VerifRunState{RunIndex: round % 32}
		if isLong {
			st.RunIndex = 20 + (round-n)%12
		}
		for i := 0; i < 2; i++ {
			nn := r.Pick([]int{1, 2, 32, 63, 64, r.Range(1, 64)})
			st.Ctx[i] = [3]int{r.Pick([]int{max(2, (t.Range+32)/64), 2, 5, 40, r.Intn(4000) + 2}), nn, r.Intn(nn + 1)}
		}
		// geometry: run of rl pixels from column x, then (unless the run reaches the line end) a jump
		jv := lossless.J[st.RunIndex]
		rl := r.Pick([]int{0, 1, 2, (1 << uint(jv)) - 1, 1 << uint(jv), (1 << uint(jv)) + 1, r.Intn(3 << uint(min(jv, 9))), r.Intn(40)})
		if rl < 0 {
			rl = 0
		}
		if rl > 3000 {
			rl = 3000
		}
		if isLong {
			rl = (1 << uint(jv)) + ((round-n)/12)%2
			c.Count(fmt.Sprintf("runseg:long-run@J=%d", jv))
		}
		x := r.Pick([]int{0, 0, 1, r.Range(1, 5)})
		eol := r.Intn(4) == 0
		tail := r.Range(0, 3)
		width := x + rl + 1 + tail
		if eol {
			if rl == 0 { // a segment always has at least one sample left in the line
				rl = 1
			}
			width = x + rl
		}
		px := make([]int, 2*width*comps)
		base := make([]int, comps)
		cls := r.Pick([]int{0, 1, 1, 2})
		for cc := 0; cc < comps; cc++ {
			base[cc] = r.Pick([]int{0, mv, r.Intn(mv + 1)})
			for i := 0; i < width; i++ {
				px[i*comps+cc] = r.Intn(mv + 1)         // line above: arbitrary …
				px[(width+i)*comps+cc] = r.Intn(mv + 1) // … and the current line
			}
			if x == 0 {
				px[cc] = base[cc] // left neighbour of column 0 is the first sample of the line above
			} else {
				px[(width+x-1)*comps+cc] = base[cc]
			}
			for i := 0; i < rl; i++ {
				v := base[cc] + r.Range(-near, near)
				px[(width+x+i)*comps+cc] = min(mv, max(0, v))
			}
			if !eol {
				px[(width+x+rl)*comps+cc] = jlsJump(r, cls, base[cc], mv, near)
				if r.Bool() { // Rb ~ Ra: run-interruption context 1 (one component)
					px[(x+rl)*comps+cc] = min(mv, max(0, base[cc]+r.Range(-near, near)))
				}
			}
		}
		hdr := []int{mode, comps, p, near}
		hdr = append(hdr, jlsStInts(st)...)
		hdr = append(hdr, width, x)
		args := append(append([]int{}, hdr...), px...)

		var data []byte
		var processed int
		var out []int
		var st2 lossless.VerifRunState
		var err error
		pn, _ := hx.Guard(func() {
			if mode == 0 {
				data, processed, out, st2, err = lossless.VerifEncodeRunSegment(width, comps, p, st, px, x)
			} else {
				data, processed, out, st2, err = nearlossless.VerifEncodeRunSegment(width, comps, p, near, st, px, x)
			}
		})
		res := "panic"
		if !pn {
			if err != nil {
				res = "err"
			} else {
				res = "ok " + hx.Hex(data) + " " + strings.TrimSpace(jlsArgs(append(append([]int{processed}, jlsStInts(st2)...), out...)))
			}
		}
		c.Case("jls-runseg-enc"+jlsArgs(args), res)
		c.Count(fmt.Sprintf("kernel:jls-runseg-enc mode=%d comps=%d", mode, comps))
		if pn || err != nil {
			continue
		}
		if !eol && processed == rl+1 {
			c.Count(fmt.Sprintf("runseg:interruption@J=%d", jv))
		}
		// decoder on the encoder's bytes; samples from column x on are unknown to it
		dpx := append([]int{}, px...)
		for i := (width + x) * comps; i < len(dpx); i++ {
			dpx[i] = 0
		}
		dargs := append(append([]int{}, hdr...), dpx...)
		var dproc int
		var dout []int
		var dst lossless.VerifRunState
		var derr error
		pn, _ = hx.Guard(func() {
			if mode == 0 {
				dproc, dout, dst, derr = lossless.VerifDecodeRunSegment(width, comps, p, st, dpx, x, data)
			} else {
				dproc, dout, dst, derr = nearlossless.VerifDecodeRunSegment(width, comps, p, near, st, dpx, x, data)
			}
		})
		res = "panic"
		if !pn {
			if derr != nil {
				res = "err"
			} else {
				res = jlsOK(append(append([]int{dproc}, jlsStInts(dst)...), dout...)...)
			}
		}
		c.Case("jls-runseg-dec "+hx.Hex(data)+jlsArgs(dargs), res)
		c.Count(fmt.Sprintf("kernel:jls-runseg-dec mode=%d comps=%d", mode, comps))
		// property on the real code: the decoder segment reproduces the encoder's reconstruction and state
		c.Eval("runseg"+jlsArgs(args), true)
		end := (width + x + processed) * comps
		good := !pn && derr == nil && dproc == processed && dst == st2 && end <= len(out) && jlsEq(dout[width*comps:end], out[width*comps:end])
		if good { // and the reconstruction is within NEAR of the source samples
			for i := (width + x) * comps; i < end; i++ {
				if d := out[i] - px[i]; d > near || -d > near {
					good = false
				}
			}
		}
		if !good {
			c.Fail(hx.Failure{Class: fmt.Sprintf("jls-runseg-roundtrip-mode%d-comps%d", mode, comps),
				What:  "run segment: decoder does not reproduce the encoder's reconstruction / run state (or the reconstruction leaves the NEAR bound)",
				Input: map[string]any{"args": strings.TrimSpace(jlsArgs(args))}, Expected: fmt.Sprint(processed, st2, out[width*comps:min(end, len(out))]),
				Actual: fmt.Sprint(pn, derr, dproc, dst, dout)})
		}
	}
}
