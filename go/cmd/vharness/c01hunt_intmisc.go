package main

// C01 — family added after the hunters' finding C01-rle-offsets-beyond-4gib (segment offsets are written as
// uint32(buffer.Len()): for an encoded frame beyond 4 GiB they wrapped; repaired by a size guard in encodeFrame).
// The witness needs a 4.7 GB frame and ~20 GB of memory, so it cannot be part of a check run; what this family
// adds is the feasible part of the same dimension — frames large enough for the segment offsets to use the THIRD
// and FOURTH byte of their 32-bit fields (the main family stops at 1 MiB frames: offsets below 2^24 in the quick
// tier), evaluated with the property's own oracle (Decode∘Encode = source ++ pad, independent Annex G reader,
// offsets ascending/even/in range and each segment expanding to exactly the plane).  No correspondence lines:
// streams of tens of MB are beyond the line protocol.  The refusing branch of the guard (encoded size >
// 0xFFFFFFFE) is exercised only by the opt-in run VERIF_C01_HUGE=1 (not part of any tier); it is covered by the
// model guard and theorem `rle_encode_guard` instead.

import (
	"bytes"
	"fmt"
	"os"

	"verifharness/internal/hx"
)

func init() { registerExtra("C01", "intmisc-offset-high-bytes", c01hRun) }

// c01hNoise: bytes without any run (every byte plane is literal-coded: 129/128 expansion) or with long runs
func c01hContent(r *hx.Rand, n int, class int) []byte {
	b := make([]byte, n)
	switch class {
	case 0: // no two equal neighbours in any byte plane for up to 12 planes: value depends on the pixel index
		for i := range b {
			b[i] = byte((i / 12) % 251)
		}
	case 1: // seeded noise
		x := r.U64()
		for i := range b {
			x = x*6364136223846793005 + 1442695040888963407
			b[i] = byte(x >> 56)
		}
	default: // long runs with literal islands
		v := byte(7)
		for i := range b {
			if i%100003 == 0 {
				v += 13
			}
			b[i] = v
			if i%4099 < 3 {
				b[i] = byte(i)
			}
		}
	}
	return b
}

func c01hCase(c *hx.Ctx, i rleInfo, class int, tag string) {
	src := c01hContent(c.R, i.native(), class)
	in := map[string]any{"width": i.W, "height": i.H, "bitsAllocated": i.BA, "samplesPerPixel": i.SPP, "planar": i.PL,
		"content": []string{"pixel-index mod 251 (no runs)", "noise", "long runs"}[class], "seed": c.Seed, "native_bytes": i.native()}
	enc, oc := rleReal(true, i, src)
	c.Eval(fmt.Sprintf("intmisc|%v|%d|%x", i, class, src[:32]), true)
	c.Count("intmisc:" + tag)
	if oc != "ok" {
		c.Fail(hx.Failure{Class: "rle-encode-" + oc[:3], What: "Encode of an accepted description did not return a stream: " + oc, Input: in})
		return
	}
	planes := ((i.BA-1)/8 + 1) * i.SPP
	top := 0
	for k := 0; k < planes; k++ {
		o := int(enc[4+4*k]) | int(enc[5+4*k])<<8 | int(enc[6+4*k])<<16 | int(enc[7+4*k])<<24
		if o > top {
			top = o
		}
	}
	switch {
	case top >= 1<<24:
		c.Count("intmisc:offset-uses-byte-3")
	case top >= 1<<16:
		c.Count("intmisc:offset-uses-byte-2")
	}
	dec, od := rleReal(false, i, enc)
	if od != "ok" {
		c.Fail(hx.Failure{Class: "rle-decode-large-" + od[:3], What: "Decode of the encoder's stream failed on a frame whose offsets need the high bytes of their fields: " + od, Input: in})
		return
	}
	want := src
	if len(src)%2 == 1 {
		want = append(append([]byte{}, src...), 0)
	}
	if !bytes.Equal(dec, want) {
		c.Fail(hx.Failure{Class: "rle-roundtrip-large", What: "decode(encode(src)) != src ++ pad on a frame whose offsets need the high bytes of their fields", Input: in})
		return
	}
	pl, e := annexG(enc, planes, i.W*i.H)
	if e != "" {
		c.Fail(hx.Failure{Class: "rle-annexg-large", What: "independent Annex G reader rejects the stream: " + e, Input: in, Actual: hx.Hex(enc[:64])})
		return
	}
	wantPl := planesOf(i, src)
	for k := range pl {
		if !bytes.Equal(pl[k], wantPl[k]) {
			c.Fail(hx.Failure{Class: "rle-annexg-large", What: fmt.Sprintf("independent Annex G reader recovers a different plane %d", k), Input: in, Actual: hx.Hex(enc[:64])})
			return
		}
	}
}

func c01hRun(c *hx.Ctx) {
	// 12 planes of 1.6 M pixels, no runs: segments of 1.6125 MB, offset[11] = 17.7 MB > 2^24
	c01hCase(c, rleInfo{W: 1600, H: 1000, BA: 32, SPP: 3, PL: 0}, 0, "12-planes-19MB")
	// 6 planes colour-by-plane, noise, odd pixel count: offsets above 2^24 from the 5th plane on
	c01hCase(c, rleInfo{W: 2001, H: 1999, BA: 16, SPP: 3, PL: 1}, 1, "6-planes-24MB")
	// one plane of 65535 x 300 with long runs (third offset byte unused, stream short): control
	c01hCase(c, rleInfo{W: 65535, H: 300, BA: 8, SPP: 1, PL: 0}, 2, "1-plane-runs")
	if c.Thorough() {
		for k := 0; k < 6; k++ {
			d := rleDescs[c.R.Intn(len(rleDescs))]
			d.W, d.H = c.R.Range(1500, 4000), c.R.Range(1500, 4000)
			c01hCase(c, d, c.R.Intn(3), "random-large")
		}
	}
	if os.Getenv("VERIF_C01_HUGE") != "" {
		// the hunters' witness: ~4.7 GB frame, ~20 GB peak, minutes. Expected after the repair: Encode refuses.
		i := rleInfo{W: 19700, H: 19700, BA: 32, SPP: 3, PL: 0}
		src := c01hContent(c.R, i.native(), 0)
		enc, oc := rleReal(true, i, src)
		c.Count("intmisc:huge-" + oc[:2])
		if oc == "ok" {
			if _, e := annexG(enc, 12, i.W*i.H); e != "" {
				c.Fail(hx.Failure{Class: "rle-offsets-beyond-4gib", What: "Encode returns a stream of " + fmt.Sprint(len(enc)) + " bytes whose 32-bit segment offsets wrapped: " + e,
					Input: map[string]any{"width": i.W, "height": i.H, "bitsAllocated": 32, "samplesPerPixel": 3, "planar": 0, "content": "pixel-index mod 251 (no runs)"}})
			}
		}
	}
}
