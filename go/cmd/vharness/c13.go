package main

// C13 — JPEG Lossless streams and decoders conform to T.81 Annex H.
//   direction A: real lossless.Encode / lossless14sv1.Encode  -> reference decoder (c13ref.go)
//   direction B: reference encoder over the legal configuration space -> real Decode
// Correspondence: the Lean spec (Spec/T81H.lean, ops t81-*) against the Go reference — two
// independent transcriptions of the standard must agree — and the Lean spec's Annex C code
// generation against the real BuildHuffmanCodes.

import (
	"bytes"
	"fmt"
	"sort"
	"strings"

	"github.com/cocosip/go-dicom-codecs/jpeg/standard"

	"verifharness/internal/hx"
)

func c13SameSamples(a, b c02Img) (bool, string) {
	if a.W != b.W || a.H != b.H || a.NC != b.NC || a.P != b.P {
		return false, fmt.Sprintf("geometry %dx%dx%d P%d vs %dx%dx%d P%d", a.W, a.H, a.NC, a.P, b.W, b.H, b.NC, b.P)
	}
	for c := 0; c < a.NC; c++ {
		for i := range a.S[c] {
			if a.S[c][i] != b.S[c][i] {
				return false, fmt.Sprintf("comp %d row %d col %d: want %d got %d", c, i/a.W, i%a.W, a.S[c][i], b.S[c][i])
			}
		}
	}
	return true, ""
}

// direction A
func c13EncoderConforms(c *hx.Ctx, codec int, im c02Img, tag string) {
	pix := im.pixels()
	c.Count("A:gen:" + tag)
	c.Count("A:codec:" + c02CodecName(codec))
	key := fmt.Sprintf("A|%d|%d|%d|%d|%d|%x", codec, im.W, im.H, im.NC, im.P, pix)
	c.Eval(key, im.W*im.H >= 2)
	c.Sample(map[string]any{"op": "real-encode->reference-decode", "codec": c02CodecName(codec), "w": im.W, "h": im.H, "nc": im.NC, "P": im.P, "gen": tag})
	enc, oc := c02Encode(codec, pix, im.W, im.H, im.NC, im.P)
	if oc != "ok" {
		c02Fail(c, hx.Failure{Class: "jll-encode-" + oc[:3], What: "Encode failed: " + oc, Input: c02Input(codec, im)})
		return
	}
	got, pred, err := c13RefDecode(enc)
	if im.W*im.H*im.NC <= 48 {
		c13SpecStream(c, enc, "real-encoder")
	}
	in := c02Input(codec, im)
	in["effective_predictor"] = pred
	if err == nil {
		if same, where := c13SameSamples(im, got); !same {
			err = fmt.Errorf("reference decoder reconstructs a different image: %s", where)
		}
	}
	if err != nil {
		// every predictor must conform since fix 946feeb (first line Ra, line start Rb): no class is attributed
		// to the former jll-firstrow-predictor-* finding any more, a recurrence is an ordinary violation
		cls := "c13-encoder-nonconformant"
		if codec == 8 {
			cls = "c13-encoder-nonconformant-sv1"
		}
		c02Fail(c, hx.Failure{Class: cls, What: "stream of the real encoder is not decoded to the source by the independent T.81 decoder: " + err.Error(),
			Input: in, Actual: hx.Hex(enc[:min(len(enc), 200)])})
		return
	}
}

// c13ForceTd, when non-nil, fixes the per-component table destinations of the next c13RandomCfg call.
var c13ForceTd []int

func c13RandomCfg(c *hx.Ctx, im c02Img, pred int, tableKind int) c13Cfg {
	cfg := c13Cfg{Pred: pred, Td: make([]int, im.NC), Tables: map[int]c13Table{}, CompIDs: make([]int, im.NC)}
	base := c.R.Pick([]int{1, 1, 0, 7, 82}) // 'R','G','B'-like ids also occur in the wild
	for k := 0; k < im.NC; k++ {
		cfg.CompIDs[k] = base + k
	}
	switch c.R.Intn(4) {
	case 0: // everything on destination 0 (what the repo's own encoder does)
	case 1:
		for k := range cfg.Td {
			cfg.Td[k] = c.R.Intn(2)
		}
	default:
		for k := range cfg.Td {
			cfg.Td[k] = c.R.Intn(4)
		}
	}
	if c13ForceTd != nil {
		copy(cfg.Td, c13ForceTd)
		c13ForceTd = nil
	}
	cfg.DHTAfterSOF = c.R.Bool()
	cfg.Extras = c.R.Intn(3) == 0
	cfg.OneDHT = c.R.Bool()
	// category frequencies per destination under the standard's prediction
	freqs := map[int][]int{}
	for k := 0; k < im.NC; k++ {
		f := freqs[cfg.Td[k]]
		if f == nil {
			f = make([]int, 257)
			freqs[cfg.Td[k]] = f
		}
		s := im.S[k]
		for row := 0; row < im.H; row++ {
			for col := 0; col < im.W; col++ {
				var ra, rb, rc int
				if col > 0 {
					ra = s[row*im.W+col-1]
				}
				if row > 0 {
					rb = s[(row-1)*im.W+col]
				}
				if row > 0 && col > 0 {
					rc = s[(row-1)*im.W+col-1]
				}
				f[c13SSSS(c13Diff(s[row*im.W+col], c13Px(im.P, 0, pred, row, col, ra, rb, rc)))]++
			}
		}
	}
	for d, f := range freqs {
		switch tableKind {
		case 0: // standard luminance DC table extended to 17 categories
			var t c13Table
			copy(t.Bits[:], []int{0, 1, 5, 1, 1, 1, 1, 1, 1, 1, 1, 1, 1, 1, 0, 0})
			t.Vals = []byte{0, 1, 2, 3, 4, 5, 6, 7, 8, 9, 10, 11, 12, 13, 14, 15, 16}
			cfg.Tables[d] = t
		case 1: // per-image optimal (Annex K.2)
			cfg.Tables[d] = c13OptimalTable(f)
		default: // random valid canonical over all 17 categories
			b, v := c02RandomCanonical(c.R, 17)
			cfg.Tables[d] = c13Table{Bits: b, Vals: v}
		}
	}
	return cfg
}

// direction B
func c13DecoderConforms(c *hx.Ctx, sv1 bool, im c02Img, pred int, tableKind int, tag string) {
	cfg := c13RandomCfg(c, im, pred, tableKind)
	stream := c13RefEncode(im, cfg)
	// the reference must at least agree with itself (guards the harness, not the property)
	if back, _, err := c13RefDecode(stream); err != nil {
		panic("c13 reference codec is inconsistent: " + err.Error())
	} else if same, where := c13SameSamples(im, back); !same {
		panic("c13 reference codec is inconsistent: " + where)
	}
	if im.W*im.H*im.NC <= 48 && !sv1 {
		c13SpecStream(c, stream, "reference-encoder")
	}
	if im.W*im.H*im.NC <= 48 && !cfg.DHTAfterSOF && !cfg.Extras && !cfg.OneDHT {
		// t81-stream-enc: the Lean specification's stream ENCODER (Spec/T81HEnc.lean) produces the same bytes
		// as the Go reference encoder for this configuration (tables in ascending destination order)
		var dests []int
		for d := range cfg.Tables {
			dests = append(dests, d)
		}
		sort.Ints(dests)
		var tabs, pls []string
		for _, d := range dests {
			t := cfg.Tables[d]
			var bs []string
			for _, b := range t.Bits {
				bs = append(bs, fmt.Sprint(b))
			}
			tabs = append(tabs, fmt.Sprintf("%d/%s/%s", d, strings.Join(bs, "."), hx.Hex(t.Vals)))
		}
		for k := 0; k < im.NC; k++ {
			pls = append(pls, c02IntsStr(im.S[k]))
		}
		c.Case(fmt.Sprintf("t81-stream-enc %d %d %d %d %s %s %s %s", im.P, im.W, im.H, pred, c02IntsStr(cfg.CompIDs), c02IntsStr(cfg.Td),
			strings.Join(tabs, "+"), strings.Join(pls, "|")), "ok "+hx.Hex(stream))
		c.Count("spec-stream-enc")
	}
	name := "jll"
	if sv1 {
		name = "sv1"
	}
	maxTd := 0
	for _, t := range cfg.Td {
		if t > maxTd {
			maxTd = t
		}
	}
	c.Count("B:gen:" + tag)
	c.Count(fmt.Sprintf("B:%s:pred%d", name, pred))
	c.Count(fmt.Sprintf("B:maxTd:%d", maxTd))
	c.Count(fmt.Sprintf("B:tables:%d", tableKind))
	if cfg.DHTAfterSOF {
		c.Count("B:dht-after-sof")
	}
	if cfg.Extras {
		c.Count("B:appn-com")
	}
	c.Eval(fmt.Sprintf("B|%s|%x", name, stream), im.W*im.H >= 2)
	c.Sample(map[string]any{"op": "reference-encode->real-decode", "decoder": name, "pred": pred, "td": fmt.Sprint(cfg.Td), "tables": tableKind, "w": im.W, "h": im.H, "nc": im.NC, "P": im.P})
	in := map[string]any{"decoder": name, "predictor": pred, "td": fmt.Sprint(cfg.Td), "component_ids": fmt.Sprint(cfg.CompIDs),
		"table_kind": tableKind, "dht_after_sof": cfg.DHTAfterSOF, "appn_com": cfg.Extras, "width": im.W, "height": im.H,
		"components": im.NC, "precision": im.P, "stream_hex": hx.Hex(stream[:min(len(stream), 600)])}
	if im.W*im.H*im.NC <= 64 {
		for k := 0; k < im.NC; k++ {
			in[fmt.Sprintf("samples%d", k)] = c02IntsStr(im.S[k])
		}
	}
	dec, od := c02Decode(sv1, stream)
	// Class predicates of the repaired defects keep their specific keys; all are "fixed" entries now, so a
	// recurrence of any of them — or any other failure — is reported as a violation.
	classify := func(generic string, wrongSamples bool) string {
		switch {
		case sv1 && maxTd >= 1 && !wrongSamples:
			return "sv1-sos-selector"
		case !sv1 && maxTd >= 2 && !wrongSamples:
			return "jll-td23-rejected"
		}
		return generic
	}
	if od != "ok" {
		c02Fail(c, hx.Failure{Class: classify("c13-decode-"+od[:3]+"-"+name, false), What: "real Decode fails on a conformant stream: " + od[:min(len(od), 160)], Input: in})
		return
	}
	got := c02Img{W: dec.W, H: dec.H, NC: dec.NC, P: dec.P}
	if dec.W == im.W && dec.H == im.H && dec.NC == im.NC && dec.P == im.P {
		got.S = c02Samples(dec.Pix, dec.W, dec.H, dec.NC, dec.P)
	}
	if same, where := c13SameSamples(im, got); !same {
		c02Fail(c, hx.Failure{Class: classify("c13-decoder-nonconformant-"+name, true), What: "real Decode reconstructs a different image from a conformant stream: " + where, Input: in})
		return
	}
}

func c13Spec(c *hx.Ctx) {
	// t81-px: Lean spec px vs Go reference px
	n := 1500
	if c.Thorough() {
		n = 20000
	}
	for i := 0; i < n; i++ {
		p := c.R.Range(2, 16)
		sel := c.R.Range(1, 7)
		row, col := c.R.Intn(3), c.R.Intn(3)
		m := 1 << uint(p)
		ra, rb, rc := c.R.Intn(m), c.R.Intn(m), c.R.Intn(m)
		if c.R.Intn(4) == 0 {
			ra, rb, rc = c.R.Pick([]int{0, m - 1}), c.R.Pick([]int{0, m - 1}), c.R.Pick([]int{0, m - 1})
		}
		c.Case(fmt.Sprintf("t81-px %d %d %d %d %d %d %d", p, sel, row, col, ra, rb, rc),
			fmt.Sprintf("ok %d", c13Px(p, 0, sel, row, col, ra, rb, rc)))
	}
	// t81-sample: spec encodeSample/decodeSample vs reference diff/ssss/extra/extend
	for i := 0; i < n; i++ {
		x, px := c.R.Intn(65536), c.R.Range(-65536, 131071)
		if i < 200 {
			x, px = []int{0, 32768, 65535, 1, 32767}[i%5], []int{0, 32768, 65535, -1, 65536, 98304}[(i/5)%6]
		}
		d := c13Diff(x, px)
		v, nb := c13Extra(d)
		back := (px + c13Extend(v, c13SSSS(d))) & 0xFFFF
		c.Case(fmt.Sprintf("t81-sample %d %d", x, px), fmt.Sprintf("ok %d %d %d %d %d", d, c13SSSS(d), v, nb, back))
	}
	// t81-canon: Lean Annex C code generation vs (a) the reference, (b) the real BuildHuffmanCodes
	t := 120
	if c.Thorough() {
		t = 2500
	}
	for i := 0; i < t; i++ {
		b, v := c02RandomCanonical(c.R, 1+c.R.Intn(17))
		ref := c13GenCodes(c13Table{Bits: b, Vals: v})
		var ent []string
		for s := 0; s < 256; s++ {
			if cd, ok := ref[s]; ok {
				ent = append(ent, fmt.Sprintf("%d:%d:%d", s, cd.Code, cd.Len))
			}
		}
		c.Case("t81-canon "+c02TableOp(b, v), "ok "+strings.Join(ent, ","))
		codes := standard.BuildHuffmanCodes(standard.BuildStandardHuffmanTable(b, v))
		var ent2 []string
		for s := 0; s < 256; s++ {
			if codes[s].Len > 0 {
				ent2 = append(ent2, fmt.Sprintf("%d:%d:%d", s, codes[s].Code, codes[s].Len))
			}
		}
		c.Case("t81-canon "+c02TableOp(b, v), "ok "+strings.Join(ent2, ","))
		c.Eval(fmt.Sprintf("canon|%v|%x", b, v), true)
		if strings.Join(ent, ",") != strings.Join(ent2, ",") {
			c02Fail(c, hx.Failure{Class: "c13-annexc-codes", What: "BuildHuffmanCodes differs from Annex C code generation", Input: map[string]any{"table": c02TableOp(b, v)}})
		}
	}
	// t81-td / jll-selector / sv1-selector: scan header selector byte
	for b := 0; b < 256; b++ {
		c.Case(fmt.Sprintf("t81-td %d", b), func() string {
			if b>>4 <= 3 {
				return fmt.Sprintf("ok %d", b>>4)
			}
			return "err"
		}())
	}
}

// c13SelectorProbe ties the models jllSelector / sv1Selector to the real parseSOS + decodeScan: a 1x1
// reference stream whose single component uses selector byte b (table defined at destination b>>4 if <= 3).
func c13SelectorProbe(c *hx.Ctx) {
	im := c02NewImg(1, 1, 1, 8)
	im.S[0][0] = 77
	for b := 0; b < 256; b++ {
		if b > 0x3F && b%7 != 0 {
			continue
		}
		td := b >> 4
		cfg := c13Cfg{Pred: 1, Td: []int{0}, Tables: map[int]c13Table{}, CompIDs: []int{1}}
		var t c13Table
		copy(t.Bits[:], []int{0, 1, 5, 1, 1, 1, 1, 1, 1, 1, 1, 1, 1, 1, 0, 0})
		t.Vals = []byte{0, 1, 2, 3, 4, 5, 6, 7, 8, 9, 10, 11, 12, 13, 14, 15, 16}
		cfg.Tables[0] = t
		if td <= 3 {
			cfg.Tables[td] = t
		}
		stream := c13RefEncode(im, cfg)
		// patch the selector byte of the SOS header
		k := bytes.Index(stream, []byte{0xFF, 0xDA})
		stream[k+6] = byte(b)
		for _, sv1 := range []bool{false, true} {
			dec, od := c02Decode(sv1, stream)
			real := od[:min(len(od), 3)]
			if od == "ok" {
				real = fmt.Sprintf("ok %d", dec.Pix[0])
			} else if od[:3] == "pan" {
				real = "panic"
			}
			op := "jll-selector"
			if sv1 {
				op = "sv1-selector"
			}
			// the model answers: which table index is used (ok idx), err, or panic; the stream defines
			// tables 0 and td only, so "ok idx" with an undefined table is an error in the real decoder
			c.Case(fmt.Sprintf("%s %d", op, b), real)
		}
	}
}

// c13SpecStream: op t81-stream-dec — the Lean specification's stream decoder (Spec/T81HStream.lean) against the
// Go reference decoder on the same bytes (two independent transcriptions of Annex B + Annex H).
func c13SpecStream(c *hx.Ctx, stream []byte, tag string) {
	im, _, err := c13RefDecode(stream)
	if err != nil {
		return // the Go reference additionally checks the sample range; compared only where it accepts
	}
	var pl []string
	for k := 0; k < im.NC; k++ {
		pl = append(pl, c02IntsStr(im.S[k]))
	}
	c.Case("t81-stream-dec "+hx.Hex(stream), fmt.Sprintf("ok %d %d %d %s", im.W, im.H, im.P, strings.Join(pl, "|")))
	c.Count("spec-stream:" + tag)
}

func c13(c *hx.Ctx) {
	c.Rule = "evaluations: A = (real encoder, predictor 0..7 / SV1) x image -> independent T.81 decoder must return the source; " +
		"B = independent T.81 encoder over (predictor 1..7, P 2..16, components 1/3, Td per component 0..3, tables {extended standard, " +
		"Annex K.2 optimal, random valid canonical}, APPn/COM, DHT before/after SOF3, component ids) -> real Decode must return the source; " +
		"plus Annex C code generation of the real BuildHuffmanCodes vs the reference per random valid table; distinct = distinct " +
		"(codec, image) resp. distinct stream; non-trivial = image of >= 2 samples"
	c13Spec(c)
	c13SelectorProbe(c)
	// witnesses first
	w := c02NewImg(2, 2, 1, 8)
	copy(w.S[0], []int{10, 20, 30, 40})
	for codec := 1; codec <= 8; codec++ {
		c13EncoderConforms(c, codec, w, "regression-firstrow")
	}
	for pred := 1; pred <= 7; pred++ {
		c13DecoderConforms(c, false, w, pred, 0, "regression-firstrow")
	}
	c13DecoderConforms(c, true, w, 1, 0, "witness")
	// per-component DIFFERENT tables on different destinations (a decoder using component 0's table for
	// all components fails here): 3 components, Td permutations, random canonical / optimal tables per destination
	for _, td := range [][]int{{0, 1, 2}, {3, 1, 0}, {1, 0, 1}, {2, 3, 2}, {0, 1, 0}} {
		for _, p := range []int{8, 12, 16} {
			for _, tk := range []int{2, 1} {
				im := c02Content(c.R, c.R.Range(2, 8), c.R.Range(2, 8), 3, p, "noise")
				// make the three components statistically different so that their optimal tables differ
				for i := range im.S[1] {
					im.S[1][i] = (im.S[1][i] & 3) + 1<<uint(p-1)
					im.S[2][i] = 0
				}
				c13ForceTd = td
				c13DecoderConforms(c, false, im, 1, tk, "per-component-tables")
				c13ForceTd = td
				c13DecoderConforms(c, false, im, 4, tk, "per-component-tables")
				c13ForceTd = td
				c13DecoderConforms(c, true, im, 1, tk, "per-component-tables")
			}
		}
	}
	// P=16 with differences of exactly -32768 / +32768 (category 16, no additional bits): a codec that
	// writes or reads 16 extra bits for SSSS=16 (even symmetrically) fails against the reference
	for _, rowsCols := range [][2]int{{4, 1}, {1, 4}, {4, 3}, {2, 2}} {
		for nc := 1; nc <= 3; nc += 2 {
			im := c02NewImg(rowsCols[0], rowsCols[1], nc, 16)
			for k := 0; k < nc; k++ {
				for i := range im.S[k] {
					if (i+k)%2 == 1 {
						im.S[k][i] = 32768
					}
				}
			}
			c13EncoderConforms(c, 8, im, "cat16-exact")
			c13EncoderConforms(c, 1, im, "cat16-exact")
			c13EncoderConforms(c, 4, im, "cat16-exact")
			for tk := 0; tk < 3; tk++ {
				c13DecoderConforms(c, true, im, 1, tk, "cat16-exact")
				c13DecoderConforms(c, false, im, 1, tk, "cat16-exact")
				c13DecoderConforms(c, false, im, 4, tk, "cat16-exact")
			}
		}
	}
	// Fibonacci-profile images using all 17 difference categories (16-bit; also 12/15-bit): the per-image optimal
	// table needs the length-limiting loop; the independent decoder must be able to rebuild the DHT and read the scan
	for _, p := range []int{16, 16, 15, 12} {
		for _, nc := range []int{1, 3} {
			for _, codec := range []int{1, 8, 4} {
				c13EncoderConforms(c, codec, c02FibExact(c.R, nc, p), "fib-exact")
			}
		}
	}
	for _, codec := range []int{1, 8} { // the 2-D variant: 96x71, categories drawn with Fibonacci weights
		c13EncoderConforms(c, codec, c02Content(c.R, 96, 71, 1, 16, "skewed"), "skewed-96x71")
	}
	// A: every P x codec x class
	for p := 2; p <= 16; p++ {
		for codec := 0; codec <= 8; codec++ {
			for ci, cl := range c02Classes {
				if !c.Thorough() && (p+codec+ci)%3 != 0 {
					continue
				}
				nc := 1
				if (p+ci)%4 == 0 {
					nc = 3
				}
				wd, ht := c.R.Range(1, 10), c.R.Range(1, 10)
				c13EncoderConforms(c, codec, c02Content(c.R, wd, ht, nc, p, cl), cl)
			}
		}
	}
	// B: every P x predictor x table kind (+ SV1 decoder with predictor 1)
	for p := 2; p <= 16; p++ {
		for pred := 1; pred <= 7; pred++ {
			for tk := 0; tk < 3; tk++ {
				cl := c02Classes[c.R.Intn(len(c02Classes))]
				nc := c.R.Pick([]int{1, 3})
				wd, ht := c.R.Range(1, 10), c.R.Range(1, 10)
				im := c02Content(c.R, wd, ht, nc, p, cl)
				c13DecoderConforms(c, false, im, pred, tk, cl)
				if pred == 1 {
					c13DecoderConforms(c, true, im, 1, tk, cl)
				}
			}
		}
	}
	n := 300
	if c.Thorough() {
		n = 10000
	}
	for i := 0; i < n; i++ {
		p := c.R.Range(2, 16)
		wd, ht := c.R.Range(1, 24), c.R.Range(1, 24)
		if c.R.Intn(6) == 0 {
			wd = 1
		}
		if c.R.Intn(6) == 0 {
			ht = 1
		}
		im := c02Content(c.R, wd, ht, c.R.Pick([]int{1, 1, 3}), p, c02Classes[c.R.Intn(len(c02Classes))])
		c13EncoderConforms(c, c.R.Intn(9), im, "random")
		if c.R.Intn(4) == 0 {
			c13DecoderConforms(c, true, im, 1, c.R.Intn(3), "random")
		} else {
			c13DecoderConforms(c, false, im, c.R.Range(1, 7), c.R.Intn(3), "random")
		}
	}
}

func init() { register("C13", c13) }
