// vharness: correspondence + property search harness. One sub-command per property:
//   vharness C01 -seed N -tier quick|thorough -out DIR
// writes DIR/cases.txt (ops for the Lean driver), DIR/real.txt (what the real code answered,
// line for line) and DIR/search.json (the property evaluated on the real code).
package main

import (
	"flag"
	"fmt"
	"os"
	"sort"

	"verifharness/internal/hx"
)

var props = map[string]func(*hx.Ctx){}

func register(id string, f func(*hx.Ctx)) { props[id] = f }

// extras: further case families of a property kept in their own files (run after the property's main function,
// in registration-name order, on the same context)
var extras = map[string]map[string]func(*hx.Ctx){}

func registerExtra(id, name string, f func(*hx.Ctx)) {
	if extras[id] == nil {
		extras[id] = map[string]func(*hx.Ctx){}
	}
	extras[id][name] = f
}

func main() {
	if len(os.Args) < 2 {
		fmt.Fprintln(os.Stderr, "usage: vharness <prop> [-seed N] [-tier quick|thorough] [-out DIR]")
		os.Exit(2)
	}
	id := os.Args[1]
	fs := flag.NewFlagSet(id, flag.ExitOnError)
	seed := fs.Uint64("seed", 1, "PRNG seed")
	tier := fs.String("tier", "quick", "quick|thorough")
	out := fs.String("out", "", "output directory")
	_ = fs.Parse(os.Args[2:])
	if id == "list" {
		ks := []string{}
		for k := range props {
			ks = append(ks, k)
		}
		sort.Strings(ks)
		for _, k := range ks {
			fmt.Println(k)
		}
		return
	}
	f, ok := props[id]
	if !ok {
		fmt.Fprintln(os.Stderr, "unknown property", id)
		os.Exit(2)
	}
	if *out == "" {
		fmt.Fprintln(os.Stderr, "-out required")
		os.Exit(2)
	}
	c := hx.NewCtx(id, *seed, *tier, *out)
	f(c)
	names := []string{}
	for n := range extras[id] {
		names = append(names, n)
	}
	sort.Strings(names)
	for _, n := range names {
		extras[id][n](c)
	}
	c.Close()
}
