package main

// C04 — JPEG 2000 reversible path, single tile: exact reconstruction for every configuration.
// The property is evaluated end to end through the public API
//   jpeg2000.NewEncoder(params).Encode(pixels) → jpeg2000.NewDecoder().Decode(cs) → GetPixelData/Width/…
// The shared round-trip helper (c04Cfg, c04RoundTrip, c04Pixels) is also used by C19 (tiles).

import (
	"bytes"
	"encoding/hex"
	"encoding/json"
	"fmt"
	"os"
	"sort"

	"github.com/cocosip/go-dicom-codecs/jpeg2000"
	"github.com/cocosip/go-dicom-codecs/jpeg2000/t2"

	"verifharness/internal/hx"
)

type c04Cfg struct {
	W, H, C, P     int
	Signed         bool
	Levels         int
	CBW, CBH       int
	PW, PH         int
	Prog           int
	Layers         int
	MCT            bool
	TW, TH         int  // 0 = single tile
	SignExtendCont bool // diagnostic only: write signed P<8 samples as 8-bit two's complement
	// rate allocation (C19 round 6): zero values = encoder defaults
	Ratio  float64   // TargetRatio
	PCRD   bool      // UsePCRDOpt
	Rates  []float64 // LayerRates
	Append bool      // AppendLosslessLayer
}

func (k c04Cfg) String() string {
	s := fmt.Sprintf("w=%d h=%d c=%d p=%d s=%v lv=%d cb=%dx%d pr=%dx%d prog=%d ly=%d mct=%v tile=%dx%d",
		k.W, k.H, k.C, k.P, k.Signed, k.Levels, k.CBW, k.CBH, k.PW, k.PH, k.Prog, k.Layers, k.MCT, k.TW, k.TH)
	if k.rateSet() {
		s += fmt.Sprintf(" ratio=%g pcrd=%v rates=%v append=%v", k.Ratio, k.PCRD, k.Rates, k.Append)
	}
	return s
}

func (k c04Cfg) rateSet() bool { return k.Ratio > 0 || k.PCRD || len(k.Rates) > 0 || k.Append }

func (k c04Cfg) input(pix []byte) map[string]any {
	m := map[string]any{"width": k.W, "height": k.H, "components": k.C, "bitDepth": k.P, "signed": k.Signed,
		"numLevels": k.Levels, "codeBlockWidth": k.CBW, "codeBlockHeight": k.CBH, "precinctWidth": k.PW,
		"precinctHeight": k.PH, "progression": k.Prog, "numLayers": k.Layers, "enableMCT": k.MCT,
		"tileWidth": k.TW, "tileHeight": k.TH}
	if k.rateSet() {
		m["targetRatio"], m["usePCRDOpt"], m["layerRates"], m["appendLosslessLayer"] = k.Ratio, k.PCRD, k.Rates, k.Append
	}
	if len(pix) <= 40000 {
		m["pixels_hex"] = hx.Hex(pix)
	} else {
		m["pixels_len"] = len(pix)
	}
	return m
}

func (k c04Cfg) params() *jpeg2000.EncodeParams {
	p := jpeg2000.DefaultEncodeParams(k.W, k.H, k.C, k.P, k.Signed)
	p.NumLevels = k.Levels
	p.CodeBlockWidth, p.CodeBlockHeight = k.CBW, k.CBH
	p.PrecinctWidth, p.PrecinctHeight = k.PW, k.PH
	p.ProgressionOrder = uint8(k.Prog)
	p.NumLayers = k.Layers
	p.EnableMCT = k.MCT
	p.TileWidth, p.TileHeight = k.TW, k.TH
	p.Lossless = true
	if k.rateSet() {
		p.TargetRatio, p.UsePCRDOpt, p.LayerRates, p.AppendLosslessLayer = k.Ratio, k.PCRD, k.Rates, k.Append
	}
	return p
}

func (k c04Cfg) bytesPerSample() int { return (k.P + 7) / 8 }

// c04Samples draws W*H*C samples that fit the precision (as signed integers when Signed).
// kind: 0 noise, 1 extremes only, 2 constant, 3 ramp, 4 sparse noise (mostly zero-ish, exercises empty blocks)
func c04Samples(r *hx.Rand, k c04Cfg, kind int) []int {
	n := k.W * k.H * k.C
	lo, hi := 0, (1<<k.P)-1
	if k.Signed {
		lo, hi = -(1 << (k.P - 1)), (1<<(k.P-1))-1
	}
	s := make([]int, n)
	cst := r.Range(lo, hi)
	for i := range s {
		switch kind {
		case 0:
			s[i] = r.Range(lo, hi)
		case 1:
			if r.Bool() {
				s[i] = lo
			} else {
				s[i] = hi
			}
		case 2:
			s[i] = cst
		case 3:
			s[i] = lo + (i*7)%(hi-lo+1)
		default:
			if r.Intn(8) == 0 {
				s[i] = r.Range(lo, hi)
			} else {
				s[i] = cst
			}
		}
	}
	return s
}

// c04Container serialises samples the way the PROPERTY reads the container: low P bits of an 8-bit (P<=8)
// or 16-bit little-endian (P>8) word, unused high bits zero, signed values P-bit two's complement.
func c04Container(k c04Cfg, s []int) []byte {
	bps := k.bytesPerSample()
	out := make([]byte, len(s)*bps)
	mask := (1 << k.P) - 1
	for i, v := range s {
		u := v & mask
		if k.SignExtendCont && k.Signed && v < 0 {
			u = v & ((1 << (8 * bps)) - 1)
		}
		out[i*bps] = byte(u)
		if bps == 2 {
			out[i*bps+1] = byte(u >> 8)
		}
	}
	return out
}

type c04Result struct {
	Outcome string // ok | enc-err | enc-panic | dec-err | dec-panic | mismatch | meta
	Detail  string
	CS      []byte
	Out     []byte
	NDiff   int
	First   int
}

// c04RoundTrip evaluates the property on one case through the public API.
func c04RoundTrip(k c04Cfg, pix []byte) c04Result {
	var cs []byte
	var err error
	p, msg := hx.Guard(func() { cs, err = jpeg2000.NewEncoder(k.params()).Encode(pix) })
	if p {
		return c04Result{Outcome: "enc-panic", Detail: msg}
	}
	if err != nil {
		return c04Result{Outcome: "enc-err", Detail: err.Error()}
	}
	d := jpeg2000.NewDecoder()
	var out []byte
	p, msg = hx.Guard(func() {
		err = d.Decode(cs)
		if err == nil {
			out = d.GetPixelData()
		}
	})
	if p {
		return c04Result{Outcome: "dec-panic", Detail: msg, CS: cs}
	}
	if err != nil {
		return c04Result{Outcome: "dec-err", Detail: err.Error(), CS: cs}
	}
	if d.Width() != k.W || d.Height() != k.H || d.Components() != k.C || d.BitDepth() != k.P || d.IsSigned() != k.Signed {
		return c04Result{Outcome: "meta", CS: cs, Out: out,
			Detail: fmt.Sprintf("decoder reports %dx%d c=%d p=%d signed=%v", d.Width(), d.Height(), d.Components(), d.BitDepth(), d.IsSigned())}
	}
	if k.SignExtendCont && len(out) == len(pix) && k.P < 8 {
		// diagnostic comparison modulo 2^P (the decoder writes the high bits as zero)
		m := byte(1<<k.P - 1)
		same := true
		for i := range out {
			if out[i]&m != pix[i]&m {
				same = false
			}
		}
		if same {
			return c04Result{Outcome: "ok", CS: cs, Out: out}
		}
	}
	if !bytes.Equal(out, pix) {
		nd, first := 0, -1
		for i := 0; i < len(out) && i < len(pix); i++ {
			if out[i] != pix[i] {
				if first < 0 {
					first = i
				}
				nd++
			}
		}
		return c04Result{Outcome: "mismatch", CS: cs, Out: out, NDiff: nd, First: first,
			Detail: fmt.Sprintf("len out=%d want=%d, %d differing bytes, first at %d", len(out), len(pix), nd, first)}
	}
	return c04Result{Outcome: "ok", CS: cs, Out: out}
}

// c04Classify attributes a failing case to a specific class by re-running the case with one
// ingredient removed at a time (the diagnostic re-runs are not property evaluations).
func c04Classify(k c04Cfg, s []int, res c04Result) (class, what string) {
	// (b) signed P<8: the property's container has the high bits zero; the code reads 8-bit two's complement
	if k.Signed && k.P < 8 {
		neg := false
		for _, v := range s {
			if v < 0 {
				neg = true
				break
			}
		}
		if neg {
			// (b) alone is enough: same samples, one layer, one tile — property container fails, 8-bit two's complement container passes
			k1 := k
			k1.Layers, k1.TW, k1.TH = 1, 0, 0
			k2 := k1
			k2.SignExtendCont = true
			if c04RoundTrip(k1, c04Container(k1, s)).Outcome != "ok" && c04RoundTrip(k2, c04Container(k2, s)).Outcome == "ok" {
				return "j2k-signed-p-lt8-container", "signed samples with P<8 are read as 8-bit two's complement (sign taken from bit 7, not bit P-1): negative samples come back clamped"
			}
		}
	}
	pix := c04Container(k, s)
	if k.TW != 0 || k.TH != 0 {
		// the tiling alone suffices for the failure if the case still fails with one layer while the
		// single-tile one-layer case passes
		k1, k2 := k, k
		k1.Layers = 1
		k2.Layers, k2.TW, k2.TH = 1, 0, 0
		if c04RoundTrip(k1, pix).Outcome != "ok" && c04RoundTrip(k2, pix).Outcome == "ok" {
			return c19ClassifyTiled(k, pix, res)
		}
	}
	if k.Layers >= 2 {
		k1 := k
		k1.Layers = 1
		if c04RoundTrip(k1, pix).Outcome == "ok" {
			if k.TW != 0 || k.TH != 0 {
				k2 := k
				k2.TW, k2.TH = 0, 0
				if c04RoundTrip(k2, pix).Outcome == "ok" {
					return "j2k-tiled-multilayer-" + res.Outcome, "tiled encoding with NumLayers>=2 (writeTilesWithGlobalRateDistortion path) fails where the same tiling with one layer and the single-tile image with the same layers both round-trip"
				}
			}
			if c04NonPrefixBands(k) {
				return "j2k-multilayer-empty-band-decoder-state", c04MultilayerWhat
			}
			return "j2k-reversible-multilayer-" + res.Outcome, "reversible encoding with NumLayers>=2 and no rate target does not reproduce the samples (same case with NumLayers=1 does); no resolution has an empty band before a non-empty one"
		}
	}
	if k.CBW > 4 || k.CBH > 4 {
		// content-dependent failures that vanish with 4x4 code-blocks (same samples, same geometry): entropy-coding layer
		k1 := k
		k1.CBW, k1.CBH = 4, 4
		if c04RoundTrip(k1, pix).Outcome == "ok" {
			return "j2k-reversible-codeblock-content-dependent", "rare content-dependent failure (about 1 in 3000 noise cases) that disappears when the same samples are coded with 4x4 code-blocks; independent of layers/precincts/progression: T1/MQ layer suspected (C20), not attributed"
		}
	}
	if k.Levels > 0 {
		k1 := k
		k1.Levels = 0
		k1.Layers = 1
		if c04RoundTrip(k1, pix).Outcome == "ok" {
			return "j2k-reversible-1layer-levels-" + res.Outcome, "single-layer reversible case fails with NumLevels>0 and passes with NumLevels=0"
		}
	}
	return "j2k-reversible-other-" + res.Outcome, "reversible round trip fails"
}

const c04MultilayerWhat = "more than one quality layer and a precinct whose non-empty bands are not a prefix of [HL,LH,HH] (e.g. resolution of width 1: only LH; or an edge precinct that has LH but no HL code-blocks): t2.PacketDecoder.decodePacket writes the per-band inclusion/Lblock state back by position in `bands` although empty bands were skipped in `bandStates`, so the state is lost or swapped and layer >= 1 headers are misparsed"

// c04NonPrefixBands: for some tile, resolution >= 1 and PRECINCT, an empty band precedes a non-empty one in
// [HL,LH,HH]. Evaluated on the decoder's own geometry (t2.PacketDecoder.buildPrecinctOrder through the
// VerifPrecinctPositions hook), set up the way t2.TileDecoder.Decode sets it up.
func c04NonPrefixBands(k c04Cfg) bool {
	tw, th := k.TW, k.TH
	if tw == 0 {
		tw = k.W
	}
	if th == 0 {
		th = k.H
	}
	return c19ForTiles(k.W, k.H, tw, th, func(x0, y0, x1, y1 int) bool {
		found := false
		hx.Guard(func() {
			pd := t2.NewPacketDecoder(nil, 1, 1, k.Levels+1, t2.ProgressionLRCP, 0)
			pd.SetImageDimensions(x1-x0, y1-y0, max(k.CBW, 4), max(k.CBH, 4))
			pd.SetComponentBounds(0, x0, y0, x1, y1)
			if k.PW != 0 || k.PH != 0 {
				ws, hs := make([]int, k.Levels+1), make([]int, k.Levels+1)
				for r := 0; r <= k.Levels; r++ {
					ws[r], hs[r] = c19PrecinctSize(k.Levels, r, k.PW, k.PH)
				}
				pd.SetPrecinctSizes(ws, hs)
			}
			for res := 1; res <= k.Levels; res++ {
				for _, bands := range t2.VerifPrecinctPositions(pd, 0, res) {
					ne := []bool{len(bands[1]) > 0, len(bands[2]) > 0, len(bands[3]) > 0}
					if (!ne[0] && (ne[1] || ne[2])) || (!ne[1] && ne[2]) {
						found = true
					}
				}
			}
		})
		return found
	})
}

// c04Fail records at most 12 witnesses per class (hx keeps the first 200 failures of a run; a frequent class
// must not crowd out a rare one); every failure is still counted in the distribution.
func c04Fail(c *hx.Ctx, f hx.Failure) {
	if os.Getenv("VERIF_DEBUG") != "" {
		fmt.Fprintln(os.Stderr, "FAIL", f.Class, f.Input, f.Actual)
	}
	if c.Distribution["fail:"+f.Class] < 12 {
		c.Fail(f)
		return
	}
	c.Count("failures")
	c.Count("fail:" + f.Class)
}

func c04Eval(c *hx.Ctx, k c04Cfg, s []int, tag string) c04Result {
	pix := c04Container(k, s)
	res := c04RoundTrip(k, pix)
	nontrivial := k.W*k.H >= 4
	c.Eval(k.String()+"|"+hx.Hex(pix[:min(len(pix), 64)]), nontrivial)
	c.Count("outcome:" + res.Outcome)
	c.Count(tag)
	c.Count(fmt.Sprintf("comps=%d", k.C))
	c.Count(fmt.Sprintf("levels=%d", k.Levels))
	c.Count(fmt.Sprintf("layers=%d", k.Layers))
	c.Count(fmt.Sprintf("prog=%d", k.Prog))
	c.Count(fmt.Sprintf("signed=%v", k.Signed))
	if k.P <= 8 {
		c.Count("depth<=8")
	} else {
		c.Count("depth>8")
	}
	if k.PW != 0 {
		c.Count("custom-precincts")
	}
	if k.W < k.CBW || k.H < k.CBH {
		c.Count("image-smaller-than-codeblock")
	}
	if res.Outcome == "ok" {
		// stream-content branch counters: 0xFF inside packet data is what noise is for
		nFF := 0
		for _, b := range res.CS {
			if b == 0xFF {
				nFF++
			}
		}
		if nFF > 4 {
			c.Count("stream-has-0xFF-in-data")
		}
		return res
	}
	class, what := c04Classify(k, s, res)
	c04Fail(c, hx.Failure{Class: class, What: what, Input: k.input(pix),
		Expected: "decoded samples == source samples, same geometry", Actual: res.Outcome + ": " + res.Detail})
	return res
}

func c04RandCfg(r *hx.Rand, maxDim int) c04Cfg {
	cbs := []int{4, 8, 16, 32, 64}
	prs := []int{0, 0, 32, 64, 128, 256}
	k := c04Cfg{
		W: r.Range(1, maxDim), H: r.Range(1, maxDim), C: r.Range(1, 4), P: r.Range(1, 16),
		Signed: r.Intn(4) == 0, Levels: r.Range(0, 6), CBW: r.Pick(cbs), CBH: r.Pick(cbs),
		Prog: r.Range(0, 4), Layers: 1, MCT: r.Bool(),
	}
	k.PW = r.Pick(prs)
	k.PH = k.PW
	if k.PW != 0 && r.Intn(3) == 0 {
		k.PH = r.Pick(prs[2:])
	}
	if r.Intn(3) == 0 {
		k.Layers = r.Range(2, 6)
	}
	if r.Intn(3) == 0 { // sizes around multiples of the code-block size
		k.W = max(1, k.CBW*r.Range(1, 3)+r.Range(-1, 1))
		k.H = max(1, k.CBH*r.Range(1, 2)+r.Range(-1, 1))
	}
	return k
}

// c04Corpus replays findings/witnesses/C04-rare-content-dependent.json (packet headers ending on a full 0xFF byte,
// fix aaeb057) through the public API.
func c04Corpus(c *hx.Ctx) {
	for _, path := range []string{"../findings/witnesses/C04-rare-content-dependent.json", "findings/witnesses/C04-rare-content-dependent.json"} {
		b, err := os.ReadFile(path)
		if err != nil {
			continue
		}
		var ws []struct {
			Input map[string]any `json:"input"`
		}
		if json.Unmarshal(b, &ws) != nil {
			return
		}
		for _, w := range ws {
			gi := func(k string) int { v, _ := w.Input[k].(float64); return int(v) }
			hexs, _ := w.Input["pixels_hex"].(string)
			pix, err := hex.DecodeString(hexs)
			if err != nil || len(pix) == 0 {
				continue
			}
			sg, _ := w.Input["signed"].(bool)
			mct, _ := w.Input["enableMCT"].(bool)
			k := c04Cfg{W: gi("width"), H: gi("height"), C: gi("components"), P: gi("bitDepth"), Signed: sg, Levels: gi("numLevels"),
				CBW: gi("codeBlockWidth"), CBH: gi("codeBlockHeight"), PW: gi("precinctWidth"), PH: gi("precinctHeight"),
				Prog: gi("progression"), Layers: gi("numLayers"), MCT: mct}
			res := c04RoundTrip(k, pix)
			c.Eval("corpus|"+k.String(), true)
			c.Count("outcome:" + res.Outcome)
			c.Count("corpus-witness")
			if res.Outcome != "ok" {
				c04Fail(c, hx.Failure{Class: "j2k-corpus-regression-" + res.Outcome, What: "a stored witness of a repaired defect fails again",
					Input: k.input(pix), Expected: "round trip", Actual: res.Outcome + ": " + res.Detail})
			}
		}
		return
	}
	c.Count("corpus-missing")
}

func init() { register("C04", c04Run) }

func c04Run(c *hx.Ctx) {
	c.Rule = "an evaluation = one Encoder.Encode→Decoder.Decode round trip through the public API compared byte for byte plus geometry; non-trivial when the image has >= 4 pixels; distinct by (configuration, first 64 content bytes)"
	r := c.R

	// --- correspondence lines for the proved layers (Lean driver vs real functions through verif hooks)
	c04Correspondence(c)

	// --- corpus: stored witnesses of past failures (regression anchors; must pass on the current tree)
	c04Corpus(c)
	// --- single-tile streams moved to a non-zero image offset (SIZ rewritten; XOsiz/YOsiz multiples of 2^levels,
	// both anchorings of the tile grid): expected-correct since fix 3981d09
	for _, off := range [][2]int{{64, 0}, {0, 64}, {2048, 2048}, {16384, 4096}} {
		for lv := 0; lv <= 5; lv += 5 {
			k := c04Cfg{W: 21, H: 13, C: 3, P: 8, Levels: lv, CBW: 8, CBH: 64, Layers: 2, MCT: true, Prog: lv % 5}
			c19OffsetEval(c, k, off[0], off[1], true, "image-offset:single-tile")
			c19OffsetEval(c, k, off[0], off[1], false, "image-offset:single-tile-tilegrid-at-0")
		}
	}
	c19OffsetRandom(c, false)
	// --- boundary cases first
	base := c04Cfg{W: 1, H: 1, C: 1, P: 8, Levels: 0, CBW: 64, CBH: 64, Layers: 1, MCT: true}
	for _, wh := range [][2]int{{1, 1}, {1, 2}, {2, 1}, {1, 9}, {9, 1}, {3, 3}, {63, 65}, {64, 64}, {65, 63}} {
		for _, lv := range []int{0, 1, 5, 6} {
			for _, p := range []int{1, 2, 8, 9, 12, 16} {
				k := base
				k.W, k.H, k.Levels, k.P = wh[0], wh[1], lv, p
				c04Eval(c, k, c04Samples(r, k, 0), "boundary")
			}
		}
	}
	// --- P x signed x components with extremes and noise (defect (b) lives here)
	for p := 1; p <= 16; p++ {
		for _, sg := range []bool{false, true} {
			for comps := 1; comps <= 4; comps++ {
				k := c04Cfg{W: 7, H: 5, C: comps, P: p, Signed: sg, Levels: 2, CBW: 4, CBH: 4, Layers: 1, MCT: true}
				c04Eval(c, k, c04Samples(r, k, 1), "depth-sweep-extremes")
				c04Eval(c, k, c04Samples(r, k, 0), "depth-sweep-noise")
			}
		}
	}
	// --- every progression x layers x precinct on noise
	for prog := 0; prog <= 4; prog++ {
		for ly := 1; ly <= 6; ly++ {
			for _, pr := range []int{0, 32, 64} {
				k := c04Cfg{W: 37, H: 29, C: 3, P: 8, Levels: 3, CBW: 8, CBH: 8, PW: pr, PH: pr, Prog: prog, Layers: ly, MCT: prog%2 == 0}
				c04Eval(c, k, c04Samples(r, k, 0), "prog-layer-precinct")
			}
		}
	}
	// --- custom precincts smaller than the image, widths/heights just above a multiple of the precinct size
	// (an extra last precinct column/row that holds a single narrow code-block column), >= 2 precinct rows, >= 1 level
	for _, pw := range []int{32, 64} {
		for lv := 1; lv <= 3; lv++ {
			for _, extra := range []int{1, 2, (1 << lv) - 1} {
				for _, mult := range []int{1, 2} {
					w := mult*pw + extra
					for _, h := range []int{w, 2*pw + 1, pw + 3} {
						k := c04Cfg{W: w, H: h, C: []int{1, 3}[(lv+mult)%2], P: []int{8, 12}[(extra+mult)%2], Levels: lv,
							CBW: 16, CBH: 16, PW: pw, PH: pw, Prog: (lv + extra + mult + h) % 5, Layers: 1 + (extra+h)%2, MCT: true}
						c04Eval(c, k, c04Samples(r, k, 0), "custom-precinct-edge")
						k.W, k.H = k.H, k.W
						k.CBW, k.CBH = 4, 8
						c04Eval(c, k, c04Samples(r, k, 0), "custom-precinct-edge")
					}
				}
			}
		}
	}
	// the seeded shape itself, every progression
	for prog := 0; prog <= 4; prog++ {
		k := c04Cfg{W: 33, H: 33, C: 1, P: 8, Levels: 1, CBW: 16, CBH: 16, PW: 32, PH: 32, Prog: prog, Layers: 1, MCT: false}
		c04Eval(c, k, c04Samples(r, k, 0), "custom-precinct-edge")
	}
	// --- four components with the colour-transform switch on (no transform is applied to 4 components)
	for _, p := range []int{8, 12, 16} {
		for _, sg := range []bool{false, true} {
			k := c04Cfg{W: 19, H: 14, C: 4, P: p, Signed: sg, Levels: 2, CBW: 8, CBH: 8, Prog: p % 5, Layers: 1 + p%2, MCT: true}
			c04Eval(c, k, c04Samples(r, k, 0), "four-components-mct-on")
		}
	}
	// --- random sweep
	n := 700
	maxDim := 48
	if c.Thorough() {
		n = 12000
		maxDim = 96
	}
	for i := 0; i < n; i++ {
		k := c04RandCfg(r, maxDim)
		kind := []int{0, 0, 0, 0, 1, 3, 4, 2}[r.Intn(8)]
		c04Eval(c, k, c04Samples(r, k, kind), fmt.Sprintf("random-kind%d", kind))
	}
	if c.Thorough() {
		// the size grid of the property, noise, single layer
		for w := 1; w <= 40; w++ {
			for h := 1; h <= 40; h += 3 {
				k := c04Cfg{W: w, H: h, C: 1, P: 8, Levels: r.Range(0, 6), CBW: r.Pick([]int{4, 8, 16, 32, 64}), CBH: r.Pick([]int{4, 8, 16, 32, 64}), Prog: r.Range(0, 4), Layers: 1, MCT: false}
				c04Eval(c, k, c04Samples(r, k, 0), "grid")
			}
		}
		for i := 0; i < 40; i++ {
			k := c04RandCfg(r, 600)
			c04Eval(c, k, c04Samples(r, k, 0), "random-large")
		}
	}
	// samples for the evidence file
	keys := make([]string, 0)
	for k := range c.Distribution {
		keys = append(keys, k)
	}
	sort.Strings(keys)
	c.Sample(map[string]any{"example_case": base.String()})
}
