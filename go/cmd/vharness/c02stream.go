package main

import (
	"bytes"
	"fmt"

	"github.com/cocosip/go-dicom-codecs/jpeg/lossless"

	"verifharness/internal/hx"
)

// c02Cut walks the marker segments of a stream of the repo's own encoders and returns the DHT
// (first table), the predictor (Ss) and the entropy-coded segment (between the SOS header and the
// final EOI).  Independent of the repo's reader.
func c02Cut(s []byte) (bits [16]int, vals []byte, pred int, scan []byte, ok bool) {
	if len(s) < 4 || s[0] != 0xFF || s[1] != 0xD8 {
		return
	}
	i := 2
	for i+4 <= len(s) {
		if s[i] != 0xFF {
			return
		}
		m := s[i+1]
		l := int(s[i+2])<<8 | int(s[i+3])
		if i+2+l > len(s) {
			return
		}
		p := s[i+4 : i+2+l]
		switch m {
		case 0xC4:
			if len(p) < 17 {
				return
			}
			n := 0
			for k := 0; k < 16; k++ {
				bits[k] = int(p[1+k])
				n += bits[k]
			}
			if len(p) < 17+n {
				return
			}
			vals = append([]byte{}, p[17:17+n]...)
		case 0xDA:
			ns := int(p[0])
			pred = int(p[1+2*ns])
			end := len(s) - 2
			if end < i+2+l || s[end] != 0xFF || s[end+1] != 0xD9 {
				return
			}
			scan = s[i+2+l : end]
			ok = true
			return
		}
		i += 2 + l
	}
	return
}

// c02Streams: scan-level correspondence. The model's encodeScan / decodeScan (neighbour trees,
// difference, categories, bit writer/reader, canonical codes composed) against the real
// Encode / Decode: same entropy-coded bytes, same decoded pixels.
func c02Streams(c *hx.Ctx) {
	c02WholeStreams(c)
	n := 260
	if c.Thorough() {
		n = 4000
	}
	for i := 0; i < n; i++ {
		p := c.R.Range(2, 16)
		w, h := c.R.Range(1, 9), c.R.Range(1, 9)
		if i%5 == 0 {
			w, h = c.R.Range(1, 3), c.R.Range(1, 3)
		}
		nc := c.R.Pick([]int{1, 1, 3})
		codec := 1 + c.R.Intn(8)
		if i < 16 {
			codec = 1 + i%8
		}
		im := c02Content(c.R, w, h, nc, p, c02Classes[c.R.Intn(len(c02Classes))])
		pix := im.pixels()
		enc, oc := c02Encode(codec, pix, w, h, nc, p)
		if oc != "ok" {
			continue
		}
		bits, vals, pred, scan, ok := c02Cut(enc)
		if !ok {
			c.Notes = append(c.Notes, "c02Cut could not parse an encoder stream")
			continue
		}
		tbl := c02TableOp(bits, vals)
		if codec == 8 {
			c.Case(fmt.Sprintf("sv1-scan-enc %d %d %d %d %s %s", p, w, h, nc, tbl, hx.Hex(pix)), "ok "+hx.Hex(scan))
		} else {
			c.Case(fmt.Sprintf("jll-scan-enc %d %d %d %d %d %s %s", p, pred, w, h, nc, tbl, hx.Hex(pix)), "ok "+hx.Hex(scan))
		}
		c.Count("scan-enc:" + c02CodecName(codec))
		// decode side: the real decoder on the real stream, or on a stream whose scan was damaged
		dscan := append([]byte{}, scan...)
		damaged := c.R.Intn(5) == 0 && len(dscan) > 0
		if damaged {
			switch c.R.Intn(3) {
			case 0:
				dscan = dscan[:c.R.Intn(len(dscan))]
			case 1:
				k := c.R.Intn(len(dscan))
				dscan[k] ^= byte(1 << uint(c.R.Intn(8)))
			case 2:
				dscan[c.R.Intn(len(dscan))] = 0xFF
			}
			// keep the collected segment identical for model and code: the real scan collector stops at
			// 0xFF followed by a non-zero byte; such damage is not replayed (covered by jll-readbits)
			bad := false
			for k := 0; k < len(dscan); k++ {
				if dscan[k] == 0xFF {
					if k+1 >= len(dscan) || dscan[k+1] != 0 {
						bad = true
					}
					k++
				}
			}
			if bad {
				dscan = append([]byte{}, scan...)
				damaged = false
			}
		}
		stream := append(append(append([]byte{}, enc[:len(enc)-2-len(scan)]...), dscan...), 0xFF, 0xD9)
		dec, od := c02Decode(codec == 8, stream)
		real := "err"
		if od == "ok" {
			real = "ok " + hx.Hex(dec.Pix)
		} else if od[:3] == "pan" {
			real = "panic"
		}
		if codec == 8 {
			c.Case(fmt.Sprintf("sv1-scan-dec %d %d %d %d %s %s", p, w, h, nc, tbl, hx.Hex(dscan)), real)
		} else {
			c.Case(fmt.Sprintf("jll-scan-dec %d %d %d %d %d %s %s", p, pred, w, h, nc, tbl, hx.Hex(dscan)), real)
		}
		if damaged {
			c.Count("scan-dec:damaged:" + real[:2])
		} else {
			c.Count("scan-dec:intact")
		}
	}
}


// c02WholeStreams: byte-exact whole-stream correspondence of the stream model (Model/JpegLosslessStream.lean)
// with lossless.Encode/Decode and lossless14sv1.Encode/Decode: own streams, argument errors, foreign
// reference streams (per-component tables, Td 0..3, APPn/COM, DHT placement) and damaged streams.
func c02WholeStreams(c *hx.Ctx) {
	decLine := func(sv1 bool, stream []byte) {
		dec, od := c02Decode(sv1, stream)
		real := "err"
		if od == "ok" {
			real = fmt.Sprintf("ok %d %d %d %d %s", dec.W, dec.H, dec.NC, dec.P, hx.Hex(dec.Pix))
		} else if od[:3] == "pan" {
			real = "panic"
		}
		op := "jll-stream-dec "
		if sv1 {
			op = "sv1-stream-dec "
		}
		c.Case(op+hx.Hex(stream), real)
		c.Count("stream-dec:" + real[:2])
	}
	n := 220
	if c.Thorough() {
		n = 3000
	}
	for i := 0; i < n; i++ {
		p := c.R.Range(2, 16)
		w, h := c.R.Range(1, 7), c.R.Range(1, 7)
		nc := c.R.Pick([]int{1, 1, 3})
		codec := c.R.Intn(9)
		if i < 18 {
			codec = i % 9
		}
		im := c02Content(c.R, w, h, nc, p, c02Classes[c.R.Intn(len(c02Classes))])
		pix := im.pixels()
		// argument variations: short buffer, bad components / precision / predictor / zero size
		aw, ah, anc, ap, apred := w, h, nc, p, codec
		switch c.R.Intn(12) {
		case 0:
			if len(pix) > 0 {
				pix = pix[:c.R.Intn(len(pix))]
			}
		case 1:
			anc = c.R.Pick([]int{0, 2, 4})
		case 2:
			ap = c.R.Pick([]int{0, 1, 17})
		case 3:
			apred = c.R.Pick([]int{8, 9})
		case 4:
			aw = 0
		}
		var enc []byte
		var oc string
		if codec == 8 {
			enc, oc = c02Encode(8, pix, aw, ah, anc, ap)
		} else { // lossless.Encode with the raw predictor argument (8, 9 are invalid, not SV1)
			var err error
			pan, msg := hx.Guard(func() { enc, err = lossless.Encode(pix, aw, ah, anc, ap, apred) })
			oc = "ok"
			if pan {
				oc = "panic " + msg
			} else if err != nil {
				oc = "err " + err.Error()
			}
		}
		real := "err"
		if oc == "ok" {
			real = "ok " + hx.Hex(enc)
		} else if oc[:3] == "pan" {
			real = "panic"
		}
		if codec == 8 {
			c.Case(fmt.Sprintf("sv1-stream-enc %d %d %d %d %s", aw, ah, anc, ap, hx.Hex(pix)), real)
		} else {
			c.Case(fmt.Sprintf("jll-stream-enc %d %d %d %d %d %s", aw, ah, anc, ap, apred, hx.Hex(pix)), real)
		}
		c.Count("stream-enc:" + real[:2])
		if oc != "ok" {
			continue
		}
		// decode: own stream, by both decoders (SV1 refuses predictor != 1), and damaged variants
		decLine(codec == 8, enc)
		if c.R.Intn(4) == 0 {
			decLine(codec != 8, enc)
		}
		for k := 0; k < 2; k++ {
			m := append([]byte{}, enc...)
			switch c.R.Intn(7) {
			case 6: // a second frame header (SV1 rejects it since 7825a71; jpeg/lossless overwrites its fields)
				k := bytes.Index(m, []byte{0xFF, 0xC3})
				if k > 0 && k+4 <= len(m) {
					l := 2 + int(m[k+2])<<8 + int(m[k+3])
					if k+l <= len(m) {
						seg := append([]byte{}, m[k:k+l]...)
						if c.R.Bool() && len(seg) > 9 { // a different geometry in the second header
							seg[8] ^= 1
						}
						m = append(append(append([]byte{}, m[:k+l]...), seg...), m[k+l:]...)
						c.Count("stream-dec:second-sof3")
					}
				}
			case 0:
				m = m[:c.R.Intn(len(m))]
			case 1:
				m[c.R.Intn(len(m))] = byte(c.R.U64())
			case 2: // header byte
				m[c.R.Intn(min(len(m), 60))] = byte(c.R.U64())
			case 3: // insert fill bytes / an extra segment before a marker
				k := bytes.Index(m, []byte{0xFF, 0xC3})
				if k > 0 {
					ins := [][]byte{{0xFF}, {0xFF, 0xFE, 0, 4, 1, 2}, {0xFF, 0xD0}, {0xFF, 0xDD, 0, 4, 0, 0}}[c.R.Intn(4)]
					m = append(append(append([]byte{}, m[:k]...), ins...), m[k:]...)
				}
			case 4: // bit flip
				m[c.R.Intn(len(m))] ^= byte(1 << uint(c.R.Intn(8)))
			case 5: // drop EOI / append garbage
				if c.R.Bool() {
					m = m[:len(m)-2]
				} else {
					m = append(m, 0xFF, 0x00, 0x12)
				}
			}
			decLine(codec == 8, m)
		}
		// foreign conformant stream of the same image (reference encoder, random configuration)
		if c.R.Intn(2) == 0 {
			pred := c.R.Range(1, 7)
			sv1 := c.R.Intn(3) == 0
			if sv1 {
				pred = 1
			}
			decLine(sv1, c13RefEncode(im, c13RandomCfg(c, im, pred, c.R.Intn(3))))
		}
	}
}
