//go:build verif && c19pos

package main

// Correspondence lines for t2/packet_progression.go (precinctPositionKey, buildPositionMaps) through the proposed
// hooks of jpeg2000/t2/verif_hooks_c19pos.go. Enabled with -tags c19pos once that file is in /repo.

import (
	"fmt"
	"strings"

	"github.com/cocosip/go-dicom-codecs/jpeg2000/t2"

	"verifharness/internal/hx"
)

func init() { c19PosExtra = c19PosCorrespondence }

func c19PosFmt(ps [][2]int) string {
	var sb strings.Builder
	for _, p := range ps {
		fmt.Fprintf(&sb, " %d,%d", p[0], p[1])
	}
	return sb.String()
}

func c19PosCorrespondence(c *hx.Ctx) {
	r := c.R
	for i := 0; i < 400; i++ {
		x0, y0 := r.Pick([]int{0, 0, 5, 24, 64, 1000, 32768}), r.Pick([]int{0, 0, 7, 24, 33, 4096})
		w, h := r.Range(0, 80), r.Range(0, 80)
		if i%7 == 0 {
			w = r.Pick([]int{0, 1, 300})
		}
		lv := r.Range(0, 5)
		res := r.Range(0, lv+1) // lv+1 exercises the levelno < 0 clamp
		pw, ph := r.Pick([]int{0, 1, 4, 8, 32, 32768}), r.Pick([]int{1, 4, 8, 32, 32768})
		dx, dy := r.Pick([]int{1, 1, 2}), r.Pick([]int{1, 1, 2})
		idx := r.Range(-1, 12)
		b := [4]int{x0, y0, x0 + w, y0 + h}
		c.Case(fmt.Sprintf("j2k-poskey %d %d %d %d %d %d %d %d %d %d %d", b[0], b[1], b[2], b[3], dx, dy, lv, res, pw, ph, idx), c04Guarded(func() string {
			x, y, ok := t2.VerifPrecinctPositionKey(b, dx, dy, lv, res, pw, ph, idx)
			if !ok {
				return "none"
			}
			return fmt.Sprintf("ok %d %d", x, y)
		}))
	}
	for i := 0; i < 120; i++ {
		x0, y0 := r.Pick([]int{0, 0, 5, 24, 64, 1000}), r.Pick([]int{0, 0, 7, 24, 33})
		w, h := r.Range(1, 70), r.Range(1, 70)
		nR := r.Range(1, 4)
		nC := r.Range(1, 3)
		pw, ph := r.Pick([]int{4, 8, 16, 32}), r.Pick([]int{4, 8, 16, 32})
		n := make([]int, nR)
		parts := make([]string, nR)
		for k := range n {
			n[k] = r.Range(0, 9) // may exceed the number of precincts: those keys are ok == false and skipped
			parts[k] = fmt.Sprint(n[k])
		}
		b := [4]int{x0, y0, x0 + w, y0 + h}
		c.Case(fmt.Sprintf("j2k-posmaps %d %d %d %d %d %d %d %d %s", nC, nR, b[0], b[1], b[2], b[3], pw, ph, strings.Join(parts, " ")), c04Guarded(func() string {
			byRes, all, lk := t2.VerifPositionMaps(nC, nR, b, pw, ph, n)
			var sb strings.Builder
			sb.WriteString("ok")
			for res := range byRes {
				fmt.Fprintf(&sb, " r%d:%s lk:", res, c19PosFmt(byRes[res]))
				for _, v := range lk[res] {
					fmt.Fprintf(&sb, " %d", v)
				}
			}
			fmt.Fprintf(&sb, " all:%s", c19PosFmt(all))
			return sb.String()
		}))
	}
}
