package main

// C06 — HTJ2K Lossless (.201/.202): exact round trip and exact third-party decode.
//
// Property search (real code, public API):
//   * codec-level round trips through htj2k.NewLosslessCodec()/NewLosslessRPCLCodec() over
//     geometry x depth x components x signedness x block size x levels x content;
//   * block-level round trips through htj2k.NewHTEncoder/NewHTDecoder (layer monitor used to
//     attribute codec-level failures to the block coder or to the Kmax computation);
//   * the 14 third-party fixtures decoded against their raw images (a finite TEST, labelled so).
// Correspondence (Lean driver vs real code):
//   * mel-enc / mel-dec / mel-rt   : MEL coder of htj2k/mel.go (exported MELEncoder/MELDecoder)
//   * ojph-mel-enc                  : MEL writer of the cleanup pass (through the verif hook)
//   * htj2k-maxlevels               : calculateMaxLevels (hook) vs generated kernel + loop model
//   * htj2k-kmax                    : Encoder.bandNumbps/codeBlockPassLayout (hook) vs decoder's
//                                     bandNumbpsFromQCD/htj2kMissingMSBs (hook) vs Lean kernels
//   * htj2k-tileparts               : Psot/TPsot/TNsot/TLM arithmetic read back from real codestreams

import (
	"bytes"
	"encoding/binary"
	"encoding/json"
	"fmt"
	"os"
	"path/filepath"
	"strings"

	"github.com/cocosip/go-dicom-codecs/codec"
	"github.com/cocosip/go-dicom-codecs/jpeg2000"
	"github.com/cocosip/go-dicom-codecs/jpeg2000/htj2k"
	"github.com/cocosip/go-dicom-codecs/jpeg2000/t2"
	"github.com/cocosip/go-dicom/pkg/imaging/imagetypes"

	"verifharness/internal/hx"
)

type c06Case struct {
	W, H, BA, BS, SPP int
	Signed            bool
	BW, BH, NL        int
	RPCL              bool
	DefaultParams     bool // pass nil parameters (codec defaults)
	Gen               string
}

func (k c06Case) frameInfo() *imagetypes.FrameInfo {
	pr := uint16(0)
	if k.Signed {
		pr = 1
	}
	pi := "MONOCHROME2"
	if k.SPP == 3 {
		pi = "RGB"
	}
	return &imagetypes.FrameInfo{Width: uint16(k.W), Height: uint16(k.H), BitsAllocated: uint16(k.BA),
		BitsStored: uint16(k.BS), HighBit: uint16(k.BS - 1), SamplesPerPixel: uint16(k.SPP),
		PixelRepresentation: pr, PlanarConfiguration: 0, PhotometricInterpretation: pi}
}
func (k c06Case) native() int { return k.W * k.H * k.SPP * (k.BA / 8) }
func (k c06Case) key() string {
	return fmt.Sprintf("%dx%d ba%d bs%d spp%d s%v cb%dx%d nl%d rpcl%v def%v", k.W, k.H, k.BA, k.BS, k.SPP, k.Signed, k.BW, k.BH, k.NL, k.RPCL, k.DefaultParams)
}
func (k c06Case) input(src []byte) map[string]any {
	return map[string]any{"width": k.W, "height": k.H, "bitsAllocated": k.BA, "bitsStored": k.BS, "samplesPerPixel": k.SPP,
		"signed": k.Signed, "blockWidth": k.BW, "blockHeight": k.BH, "numLevels": k.NL, "rpcl": k.RPCL,
		"defaultParams": k.DefaultParams, "gen": k.Gen, "src": hx.Hex(src)}
}

// c06MaxLevels is the harness's own reading of "levels actually used": min(NL, ceil(log2(min(w,h)))) capped at 6.
func c06MaxLevels(w, h int) int {
	m := w
	if h < m {
		m = h
	}
	l := 0
	for (1 << l) < m {
		l++
	}
	if l > 6 {
		l = 6
	}
	return l
}
func (k c06Case) effLevels() int {
	nl := k.NL
	if k.DefaultParams {
		nl = 5
	}
	if m := c06MaxLevels(k.W, k.H); nl > m {
		nl = m
	}
	return nl
}

// c06Samples reads the frame as integer samples (container semantics: BA-bit two's complement / unsigned).
func c06Samples(k c06Case, b []byte) []int {
	n := len(b) / (k.BA / 8)
	out := make([]int, n)
	for i := 0; i < n; i++ {
		var v int
		if k.BA == 8 {
			v = int(b[i])
			if k.Signed {
				v = int(int8(b[i]))
			}
		} else {
			u := binary.LittleEndian.Uint16(b[2*i:])
			v = int(u)
			if k.Signed {
				v = int(int16(u))
			}
		}
		out[i] = v
	}
	return out
}

// c06HasMinSample: some sample is the most negative value after the DC level shift, i.e. has
// magnitude 2^(BA-1) (unsigned 0 / signed -2^(BA-1)).
func c06HasMinSample(k c06Case, b []byte) bool {
	min := 0
	if k.Signed {
		min = -(1 << (k.BA - 1))
	}
	for _, v := range c06Samples(k, b) {
		if v == min {
			return true
		}
	}
	return false
}

func c06Content(r *hx.Rand, k c06Case, class int) []byte {
	n := k.W * k.H * k.SPP
	lo, hi := 0, (1<<k.BS)-1
	if k.Signed {
		lo, hi = -(1 << (k.BS - 1)), (1<<(k.BS-1))-1
	}
	vals := make([]int, n)
	span := hi - lo + 1
	switch class {
	case 0: // noise over the stored range
		for i := range vals {
			vals[i] = lo + r.Intn(span)
		}
	case 1: // constant
		v := lo + r.Intn(span)
		if r.Intn(4) == 0 {
			v = []int{lo, hi, lo + span/2, lo + span/2 - 1}[r.Intn(4)]
		}
		for i := range vals {
			vals[i] = v
		}
	case 2: // gradient along x / y / diagonal
		dir := r.Intn(3)
		step := 1 + r.Intn(1+span/(k.W+k.H+1))
		base := lo + r.Intn(span)
		for y := 0; y < k.H; y++ {
			for x := 0; x < k.W; x++ {
				t := []int{x, y, x + y}[dir]
				for s := 0; s < k.SPP; s++ {
					v := base + t*step + s*7
					v = lo + ((v-lo)%span+span)%span
					vals[(y*k.W+x)*k.SPP+s] = v
				}
			}
		}
	case 3: // extremes only (lo / hi), checkerboard-like
		for i := range vals {
			if r.Bool() {
				vals[i] = lo
			} else {
				vals[i] = hi
			}
		}
	case 4: // sparse: mostly mid value with rare spikes (all-zero quads, first-row vs later-row contexts)
		mid := lo + span/2
		for i := range vals {
			vals[i] = mid
			if r.Intn(9) == 0 {
				vals[i] = lo + r.Intn(span)
			}
		}
	case 5: // small amplitude noise around mid (small exponents, u-values near 0..3)
		mid := lo + span/2
		amp := 1 + r.Intn(6)
		for i := range vals {
			v := mid + r.Intn(2*amp+1) - amp
			if v < lo {
				v = lo
			}
			if v > hi {
				v = hi
			}
			vals[i] = v
		}
	case 6: // noise that never touches the most negative value (complement of the Kmax witness class)
		for i := range vals {
			vals[i] = lo + 1 + r.Intn(span-1)
		}
	}
	b := make([]byte, n*(k.BA/8))
	for i, v := range vals {
		if k.BA == 8 {
			b[i] = byte(v)
		} else {
			binary.LittleEndian.PutUint16(b[2*i:], uint16(v))
		}
	}
	return b
}

func c06Codec(rpcl bool) *htj2k.Codec {
	if rpcl {
		return htj2k.NewLosslessRPCLCodec()
	}
	return htj2k.NewLosslessCodec()
}

func c06Encode(k c06Case, src []byte) (out []byte, oc string) {
	cd := c06Codec(k.RPCL)
	s := codec.NewTestPixelData(k.frameInfo())
	_ = s.AddFrame(append([]byte{}, src...))
	d := codec.NewTestPixelData(k.frameInfo())
	var err error
	p, msg := hx.Guard(func() {
		if k.DefaultParams {
			err = cd.Encode(s, d, nil)
		} else {
			err = cd.Encode(s, d, htj2k.NewHTJ2KLosslessParameters().WithBlockSize(k.BW, k.BH).WithNumLevels(k.NL))
		}
	})
	if p {
		return nil, "panic " + msg
	}
	if err != nil {
		return nil, "err " + err.Error()
	}
	f, _ := d.GetFrame(0)
	return f, "ok"
}

func c06Decode(k c06Case, enc []byte) (out []byte, oc string) {
	cd := c06Codec(k.RPCL)
	s := codec.NewTestPixelData(k.frameInfo())
	_ = s.AddFrame(enc)
	d := codec.NewTestPixelData(k.frameInfo())
	var err error
	p, msg := hx.Guard(func() { err = cd.Decode(s, d, nil) })
	if p {
		return nil, "panic " + msg
	}
	if err != nil {
		return nil, "err " + err.Error()
	}
	f, _ := d.GetFrame(0)
	return f, "ok"
}

func c06FirstDiff(k c06Case, a, b []byte) string {
	if len(a) != len(b) {
		return fmt.Sprintf("length %d != %d", len(b), len(a))
	}
	sa, sb := c06Samples(k, a), c06Samples(k, b)
	n := 0
	first := ""
	for i := range sa {
		if sa[i] != sb[i] {
			if n == 0 {
				first = fmt.Sprintf("sample %d (x=%d,y=%d,c=%d): want %d got %d", i, (i/k.SPP)%k.W, (i/k.SPP)/k.W, i%k.SPP, sa[i], sb[i])
			}
			n++
		}
	}
	return fmt.Sprintf("%d of %d samples differ; first: %s", n, len(sa), first)
}

// c06RoundTrip evaluates the property on one frame. Returns true when it held.
func c06RoundTrip(c *hx.Ctx, k c06Case, src []byte) bool {
	c.Count("gen:" + k.Gen)
	c.Count(fmt.Sprintf("ba%d_spp%d_signed%v", k.BA, k.SPP, k.Signed))
	c.Count(fmt.Sprintf("efflevels:%d", k.effLevels()))
	if k.W == 1 || k.H == 1 {
		c.Count("geom:1-wide-or-high")
	}
	if !k.DefaultParams {
		c.Count(fmt.Sprintf("cblk:%dx%d", k.BW, k.BH))
	}
	c.Eval(k.key()+" "+hx.Hex(src), k.W*k.H >= 2)
	c.Sample(map[string]any{"op": "codec-roundtrip", "case": k.key(), "gen": k.Gen, "bytes": len(src)})
	enc, oc := c06Encode(k, src)
	if oc != "ok" {
		cl := "htj2k-encode-err"
		if strings.HasPrefix(oc, "panic") {
			cl = "htj2k-encode-panic"
		}
		c.Fail(hx.Failure{Class: cl, What: "Encode of an in-domain frame failed: " + oc, Input: k.input(src)})
		return false
	}
	c.CountN("encoded_bytes", len(enc))
	dec, od := c06Decode(k, enc)
	if od != "ok" {
		cl := "htj2k-decode-err"
		if strings.HasPrefix(od, "panic") {
			cl = "htj2k-decode-panic"
		}
		c.Fail(hx.Failure{Class: cl, What: "Decode of the encoder's own stream failed: " + od, Input: k.input(src)})
		return false
	}
	if bytes.Equal(dec, src) {
		return true
	}
	// attribute
	cl := "htj2k-roundtrip-other"
	what := "decode(encode(src)) != src"
	minS := c06HasMinSample(k, src)
	switch {
	case k.effLevels() == 0 && k.SPP == 1 && minS:
		cl = "htj2k-kmax-0levels-min-sample"
		what = "0 decomposition levels, 1 component, a sample of magnitude 2^(P-1) after the DC shift: band Kmax = P-1 is one bit short (Kmax computation), the magnitude overflows into the sign bit in encodeOpenJPHCleanup"
	case len(dec) != len(src):
		cl = "htj2k-roundtrip-length"
	}
	c.Count("mismatch_minSample:" + fmt.Sprint(minS))
	c.Fail(hx.Failure{Class: cl, What: what + " — " + c06FirstDiff(k, src, dec), Input: k.input(src), Expected: hx.Hex(src), Actual: hx.Hex(dec)})
	return false
}

// ---- block-level layer monitor -------------------------------------------------------------

// c06Block runs NewHTEncoder(w,h).SetKMax(kmax).Encode → NewHTDecoder(w,h).SetCodingContext(kmax,kmax-1).Decode.
// inRange says whether every |coef| < 2^kmax (the block coder's precondition).
func c06Block(c *hx.Ctx, w, h, kmax int, data []int32, gen string) {
	inRange := true
	allZero := true
	for _, v := range data {
		a := int64(v)
		if a < 0 {
			a = -a
		}
		if a >= int64(1)<<uint(kmax) {
			inRange = false
		}
		if v != 0 {
			allZero = false
		}
	}
	c.Count("block:" + gen)
	c.Count(fmt.Sprintf("block_inRange:%v", inRange))
	in := map[string]any{"blockWidth": w, "blockHeight": h, "kmax": kmax, "coeffs": fmt.Sprint(data), "gen": gen}
	var enc []byte
	var dec []int32
	var e1, e2 error
	p, msg := hx.Guard(func() {
		e := htj2k.NewHTEncoder(w, h)
		e.SetKMax(kmax)
		enc, e1 = e.Encode(append([]int32{}, data...), 1, 0)
		if e1 != nil {
			return
		}
		d := htj2k.NewHTDecoder(w, h)
		d.SetCodingContext(kmax, kmax-1)
		dec, e2 = d.Decode(enc, 1)
	})
	if !inRange {
		// outside the block coder's precondition |coef| < 2^Kmax: not an evaluation of the property; recorded as the
		// layer monitor that attributes the codec-level Kmax failures (the block coder loses exactly these coefficients)
		ok := !p && e1 == nil && e2 == nil && len(dec) == len(data)
		for i := 0; ok && i < len(data); i++ {
			ok = dec[i] == data[i]
		}
		c.Count(fmt.Sprintf("monitor:block-coef-ge-2^kmax-roundtrips:%v", ok))
		return
	}
	c.Eval(fmt.Sprintf("block %dx%d k%d %v", w, h, kmax, data), len(data) >= 2 && !allZero)
	switch {
	case p:
		c.Fail(hx.Failure{Class: "htj2k-block-panic", What: "block coder panicked: " + msg, Input: in})
	case e1 != nil:
		c.Fail(hx.Failure{Class: "htj2k-block-encode-err", What: "block encoder error: " + e1.Error(), Input: in})
	case e2 != nil:
		c.Fail(hx.Failure{Class: "htj2k-block-decode-err", What: "block decoder error: " + e2.Error(), Input: in})
	default:
		if len(enc) == 0 {
			c.Count("block_empty_stream")
		}
		ok := len(dec) == len(data)
		for i := 0; ok && i < len(data); i++ {
			ok = dec[i] == data[i]
		}
		if !ok {
			c.Fail(hx.Failure{Class: "htj2k-block-roundtrip", What: "HT block decode(encode(coeffs)) != coeffs although every |coef| < 2^Kmax", Input: in,
				Expected: fmt.Sprint(data), Actual: fmt.Sprint(dec)})
		}
	}
	// 1x1 blocks double as the correspondence of the sign-magnitude model (toSignMag/fromSignMag)
}

func c06BlockData(r *hx.Rand, w, h, kmax, class int) []int32 {
	d := make([]int32, w*h)
	lim := int64(1) << uint(kmax)
	rv := func(l int64) int32 {
		if l <= 0 {
			return 0
		}
		v := int64(r.U64() % uint64(l))
		if r.Bool() {
			v = -v
		}
		return int32(v)
	}
	switch class {
	case 0:
		for i := range d {
			d[i] = rv(lim)
		}
	case 1: // sparse
		for i := range d {
			if r.Intn(6) == 0 {
				d[i] = rv(lim)
			}
		}
	case 2: // small magnitudes
		for i := range d {
			l := int64(4)
			if lim < l {
				l = lim
			}
			d[i] = rv(l)
		}
	case 3: // extremes ±(2^kmax-1)
		for i := range d {
			switch r.Intn(3) {
			case 0:
				d[i] = int32(lim - 1)
			case 1:
				d[i] = -int32(lim - 1)
			}
		}
	case 4: // magnitudes with random exponents: exercises u-values incl. the UVLC extension (u > 32 needs kmax > 33: unreachable) and kappa
		for i := range d {
			e := r.Intn(kmax + 1)
			d[i] = rv(int64(1) << uint(e))
		}
	case 5: // single non-zero sample
		d[r.Intn(len(d))] = rv(lim)
	}
	return d
}

// ---- fixtures ---------------------------------------------------------------------------------

type c06Manifest struct {
	Fixtures []struct {
		Name          string `json:"name"`
		Width         int    `json:"width"`
		Height        int    `json:"height"`
		Components    int    `json:"components"`
		BitsAllocated int    `json:"bitsAllocated"`
		BitsStored    int    `json:"bitsStored"`
		Signed        bool   `json:"signed"`
		InputRaw      string `json:"inputRaw"`
		Codestreams   map[string]struct {
			Path     string `json:"path"`
			Lossless bool   `json:"lossless"`
		} `json:"codestreams"`
	} `json:"fixtures"`
}

func c06Fixtures(c *hx.Ctx) {
	repo := os.Getenv("VERIF_REPO")
	if repo == "" {
		repo = "/repo"
	}
	dir := filepath.Join(repo, "test-data", "htj2k", "interop")
	mb, err := os.ReadFile(filepath.Join(dir, "manifest.json"))
	if err != nil {
		c.Fail(hx.Failure{Class: "htj2k-fixture-missing", What: "manifest.json unreadable: " + err.Error(), Input: map[string]any{"dir": dir}})
		return
	}
	var m c06Manifest
	if err := json.Unmarshal(mb, &m); err != nil {
		c.Fail(hx.Failure{Class: "htj2k-fixture-missing", What: "manifest.json unparsable: " + err.Error(), Input: map[string]any{"dir": dir}})
		return
	}
	n := 0
	for _, f := range m.Fixtures {
		raw, err := os.ReadFile(filepath.Join(dir, f.InputRaw))
		if err != nil {
			c.Fail(hx.Failure{Class: "htj2k-fixture-missing", What: err.Error(), Input: map[string]any{"fixture": f.Name}})
			continue
		}
		for name, cs := range f.Codestreams {
			if !cs.Lossless {
				continue
			}
			j2c, err := os.ReadFile(filepath.Join(dir, cs.Path))
			if err != nil {
				c.Fail(hx.Failure{Class: "htj2k-fixture-missing", What: err.Error(), Input: map[string]any{"fixture": f.Name, "codestream": name}})
				continue
			}
			n++
			k := c06Case{W: f.Width, H: f.Height, BA: f.BitsAllocated, BS: f.BitsStored, SPP: f.Components, Signed: f.Signed,
				RPCL: strings.Contains(name, "rpcl"), Gen: "fixture"}
			c.Count("fixture(test):" + f.Name + "/" + name)
			c.Eval("fixture "+cs.Path, true)
			dec, od := c06Decode(k, j2c)
			in := map[string]any{"fixture": f.Name, "codestream": cs.Path, "raw": f.InputRaw}
			if od != "ok" {
				c.Fail(hx.Failure{Class: "htj2k-fixture-decode", What: "third-party codestream not decoded: " + od, Input: in})
				continue
			}
			if !bytes.Equal(dec, raw) {
				c.Fail(hx.Failure{Class: "htj2k-fixture-mismatch", What: "third-party codestream decodes to a different image: " + c06FirstDiff(k, raw, dec), Input: in})
			}
			// tile-part / TLM arithmetic of a third-party stream (framing reader only)
			c06TilePartFacts(c, j2c, "fixture", false)
		}
	}
	c.CountN("fixtures_decoded(test)", n)
	if n != 14 {
		c.Notes = append(c.Notes, fmt.Sprintf("expected 14 lossless fixture codestreams, found %d", n))
		c.Fail(hx.Failure{Class: "htj2k-fixture-missing", What: fmt.Sprintf("expected 14 lossless fixture codestreams, found %d", n), Input: map[string]any{"dir": dir}})
	}
}

// ---- tile-part / TLM framing reader (independent of the library's parser) ---------------------

// c06TilePartFacts walks the codestream: main header markers up to the first SOT, then tile-parts by Psot.
// It emits one `htj2k-tileparts` correspondence line (the Lean side recomputes the checks from the numbers)
// and, for own streams, fails the property's framing part when Psot/TLM do not add up.
func c06TilePartFacts(c *hx.Ctx, cs []byte, gen string, own bool) {
	be16 := func(o int) int { return int(cs[o])<<8 | int(cs[o+1]) }
	be32 := func(o int) int { return int(cs[o])<<24 | int(cs[o+1])<<16 | int(cs[o+2])<<8 | int(cs[o+3]) }
	if len(cs) < 4 || cs[0] != 0xFF || cs[1] != 0x4F {
		return
	}
	pos := 2
	var tlm []int
	tlmSeen := false
	for pos+4 <= len(cs) {
		if cs[pos] != 0xFF {
			return
		}
		mk := cs[pos+1]
		if mk == 0x90 {
			break
		}
		l := be16(pos + 2)
		if mk == 0x55 && l >= 4 { // TLM: Ztlm Stlm then entries
			tlmSeen = true
			stlm := cs[pos+5]
			st := int(stlm>>4) & 3
			sp := int(stlm>>6) & 1
			o := pos + 6
			end := pos + 2 + l
			for o < end {
				o += st
				if sp == 1 {
					if o+4 > end {
						break
					}
					tlm = append(tlm, be32(o))
					o += 4
				} else {
					if o+2 > end {
						break
					}
					tlm = append(tlm, be16(o))
					o += 2
				}
			}
		}
		pos += 2 + l
	}
	var psots, tps, tns []int
	p := pos
	for p+12 <= len(cs) && cs[p] == 0xFF && cs[p+1] == 0x90 {
		psot := be32(p + 6)
		psots = append(psots, psot)
		tps = append(tps, int(cs[p+10]))
		tns = append(tns, int(cs[p+11]))
		if psot <= 0 {
			break
		}
		p += psot
	}
	eocOK := 0
	if p+2 == len(cs) && cs[p] == 0xFF && cs[p+1] == 0xD9 {
		eocOK = 1
	}
	c.Count("tileparts:" + gen)
	ints := func(x []int) string {
		if len(x) == 0 {
			return "-"
		}
		s := make([]string, len(x))
		for i, v := range x {
			s[i] = fmt.Sprint(v)
		}
		return strings.Join(s, ",")
	}
	// real side: what the framing reader observed (sum of Psot = bytes between first SOT and EOC; TPsot = 0..n-1; TNsot = n; TLM = Psot list)
	ok := eocOK == 1
	sum := 0
	for i, v := range psots {
		sum += v
		if tps[i] != i || (tns[i] != len(psots) && tns[i] != 0) {
			ok = false
		}
	}
	if sum != len(cs)-2-pos {
		ok = false
	}
	if tlmSeen {
		if len(tlm) != len(psots) {
			ok = false
		} else {
			for i := range tlm {
				if tlm[i] != psots[i] {
					ok = false
				}
			}
		}
	}
	res := "ok 0"
	if ok {
		res = "ok 1"
	}
	c.Case(fmt.Sprintf("htj2k-tileparts %d %d %s %s %s %s", len(cs)-2-pos, eocOK, ints(psots), ints(tps), ints(tns), ints(tlm)), res)
	if own && !ok {
		c.Fail(hx.Failure{Class: "htj2k-tilepart-lengths", What: "Psot/TPsot/TNsot/TLM of an emitted HTJ2K codestream do not add up", Input: map[string]any{"stream": hx.Hex(cs)}})
	}
}

// ---- MEL correspondence -----------------------------------------------------------------------

func c06Bits(bs []int) string {
	if len(bs) == 0 {
		return "-"
	}
	var sb strings.Builder
	for _, b := range bs {
		sb.WriteByte(byte('0' + b))
	}
	return sb.String()
}

func c06MelBits(r *hx.Rand, n int, class int) []int {
	bs := make([]int, n)
	switch class {
	case 0:
		for i := range bs {
			bs[i] = r.Intn(2)
		}
	case 1: // long zero runs (drives k to 12, threshold 32)
		for i := range bs {
			if r.Intn(40) == 0 {
				bs[i] = 1
			}
		}
	case 2: // mostly ones (k stays at 0; output mostly 0 bits)
		for i := range bs {
			if r.Intn(8) != 0 {
				bs[i] = 1
			}
		}
	case 3: // all zeros: the encoder emits only 1 bits -> 0xFF bytes and the 7-bit stuffing rule
	case 4: // zeros then alternate
		for i := n / 2; i < n; i++ {
			bs[i] = i & 1
		}
	}
	return bs
}

func c06Mel(c *hx.Ctx, bs []int, gen string) {
	c.Count("mel:" + gen)
	var enc []byte
	var dec []int
	okDec := true
	p, _ := hx.Guard(func() {
		m := htj2k.NewMELEncoder()
		for _, b := range bs {
			m.EncodeBit(b)
		}
		enc = append([]byte{}, m.Flush()...)
		d := htj2k.NewMELDecoder(enc)
		for range bs {
			b, ok := d.DecodeBit()
			if !ok {
				okDec = false
				break
			}
			dec = append(dec, b)
		}
	})
	if p {
		c.Case("mel-enc "+c06Bits(bs), "panic")
		return
	}
	for _, b := range enc {
		if b == 0xFF {
			c.Count("mel:0xFF-byte-emitted")
			break
		}
	}
	c.Case("mel-enc "+c06Bits(bs), "ok "+hx.Hex(enc))
	r := "ok " + c06Bits(dec)
	if !okDec {
		r = "err " + c06Bits(dec)
	}
	c.Case(fmt.Sprintf("mel-dec %d %s", len(bs), hx.Hex(enc)), r)
	// the MEL layer's own property on the real code
	c.Eval("mel "+c06Bits(bs), len(bs) >= 2)
	same := okDec && len(dec) == len(bs)
	for i := 0; same && i < len(bs); i++ {
		same = dec[i] == bs[i]
	}
	if !same {
		c.Fail(hx.Failure{Class: "htj2k-mel-roundtrip", What: "MELDecoder does not return the symbols MELEncoder was given",
			Input: map[string]any{"bits": c06Bits(bs)}, Expected: c06Bits(bs), Actual: c06Bits(dec)})
	}
	// hook: the cleanup pass's own MEL writer (ojphMELWriter) must produce the same bytes up to termination
	c06MelHook(c, bs)
}

// mel-dec on arbitrary bytes (decoder totality / agreement outside the encoder's image)
func c06MelDecRandom(c *hx.Ctx, data []byte, n int) {
	var dec []int
	okDec := true
	p, _ := hx.Guard(func() {
		d := htj2k.NewMELDecoder(data)
		for i := 0; i < n; i++ {
			b, ok := d.DecodeBit()
			if !ok {
				okDec = false
				break
			}
			dec = append(dec, b)
		}
	})
	c.Count("mel:dec-random-bytes")
	if p {
		c.Case(fmt.Sprintf("mel-dec %d %s", n, hx.Hex(data)), "panic")
		return
	}
	r := "ok " + c06Bits(dec)
	if !okDec {
		r = "err " + c06Bits(dec)
	}
	c.Case(fmt.Sprintf("mel-dec %d %s", n, hx.Hex(data)), r)
}


// ---- tiled HTJ2K through the low-level jpeg2000.Encoder (the .201/.202 codecs never tile; C16/C19 configurations) ----

type c06Tile struct{ W, H, Comps, BD, TW, TH, NL, CBW, CBH int }

// c06TiledEncDec encodes and decodes with the HT block coder (ht=true) or the classic T1 coder.
// outcome: "ok", "mismatch", "err …", "panic …".
func c06TiledEncDec(t c06Tile, src []byte, ht bool) string {
	var out string
	p, msg := hx.Guard(func() {
		ep := jpeg2000.DefaultEncodeParams(t.W, t.H, t.Comps, t.BD, false)
		ep.TileWidth, ep.TileHeight = t.TW, t.TH
		ep.NumLevels = t.NL
		ep.CodeBlockWidth, ep.CodeBlockHeight = t.CBW, t.CBH
		ep.ProgressionOrder = 2
		ep.Lossless = true
		if ht {
			ep.HTJ2KMode = true
			ep.BlockEncoderFactory = func(w, h int) jpeg2000.BlockEncoder { return htj2k.NewHTEncoder(w, h) }
		}
		enc, err := jpeg2000.NewEncoder(ep).Encode(append([]byte{}, src...))
		if err != nil {
			out = "err encode: " + err.Error()
			return
		}
		d := jpeg2000.NewDecoder()
		if ht {
			d.SetBlockDecoderFactory(func(w, h int, _ int) t2.BlockDecoder { return htj2k.NewHTDecoder(w, h) })
		}
		if err := d.Decode(enc); err != nil {
			out = "err decode: " + err.Error()
			return
		}
		if bytes.Equal(d.GetPixelData(), src) {
			out = "ok"
		} else {
			out = "mismatch"
		}
	})
	if p {
		return "panic " + msg
	}
	return out
}

func c06Tiled(c *hx.Ctx, t c06Tile, gen string) {
	bps := 1
	if t.BD > 8 {
		bps = 2
	}
	n := t.W * t.H * t.Comps
	src := make([]byte, n*bps)
	for i := 0; i < n; i++ {
		v := c.R.Intn(1 << uint(t.BD))
		if bps == 1 {
			src[i] = byte(v)
		} else {
			binary.LittleEndian.PutUint16(src[2*i:], uint16(v))
		}
	}
	in := map[string]any{"width": t.W, "height": t.H, "components": t.Comps, "bitDepth": t.BD, "tileWidth": t.TW, "tileHeight": t.TH,
		"numLevels": t.NL, "codeBlockWidth": t.CBW, "codeBlockHeight": t.CBH, "progression": "RPCL", "gen": gen, "src": hx.Hex(src)}
	c.Count("tiled:" + gen)
	c.Eval(fmt.Sprintf("tiled %+v %s", t, hx.Hex(src)), true)
	r := c06TiledEncDec(t, src, true)
	switch {
	case r == "ok":
		c.Count("tiled:ht-ok")
	case strings.HasPrefix(r, "panic"):
		if strings.Contains(r, "index out of range [-") && strings.Contains(r, "htj2kPrecinctTree") {
			// the round-2 finding (fixed by 95e1f44); kept as its own class so that a regression is named
			c.Fail(hx.Failure{Class: "htj2k-tiled-negative-codeblock-index-panic",
				What:  "jpeg2000.Encoder (HTJ2KMode, tiles smaller than the image, small code-blocks) panics in t2.(*htj2kPrecinctTree).sent: " + r[:c06min(len(r), 300)],
				Input: in})
		} else {
			c.Fail(hx.Failure{Class: "htj2k-tiled-panic", What: r[:c06min(len(r), 600)], Input: in})
		}
	case r == "mismatch":
		// tiled JPEG 2000 is expected to be exact since 95e1f44 / 104b234: no exemption; the classic coder run only names the layer
		rc := c06TiledEncDec(t, src, false)
		cl := "htj2k-tiled-roundtrip"
		if rc == "ok" {
			cl = "htj2k-tiled-roundtrip-ht-only"
		}
		c.Fail(hx.Failure{Class: cl, What: "tiled reversible HTJ2K round trip (low-level encoder) is not exact; classic T1 coder on the same tiling: " + rc, Input: in})
	default:
		c.Fail(hx.Failure{Class: "htj2k-tiled-error", What: "tiled reversible HTJ2K encode/decode failed: " + r[:c06min(len(r), 300)], Input: in})
	}
}

func c06min(a, b int) int {
	if a < b {
		return a
	}
	return b
}

// ---- main ---------------------------------------------------------------------------------------

func c06(c *hx.Ctx) {
	c.Rule = "codec round trips: boundary geometry list x {8,16}-bit x {1,3} comps x signedness x block sizes {4..64}^2 x levels 0..6 x 7 content classes " +
		"(quick: sampled grid of sizes 1..80; thorough: every size 1..80 in one dimension against a stride in the other, random up to 600); " +
		"HT block round trips at every block size 1..8 squared plus random to 64x64 with |coef| < 2^Kmax; MEL symbol sequences; " +
		"14 third-party fixtures = a finite TEST (counted under fixture(test):*), not a search; distinct = distinct (case, bytes); non-trivial = >= 2 pixels / >= 2 symbols / not all-zero block"

	// 0. fixtures (finite test)
	c06Fixtures(c)

	blockSizes := []int{4, 8, 16, 32, 64}
	mk := func(w, h int) c06Case {
		k := c06Case{W: w, H: h}
		k.BA = c.R.Pick([]int{8, 16})
		if k.BA == 8 {
			k.BS = c.R.Pick([]int{8, 8, 8, 7, 5, 1})
		} else {
			k.BS = c.R.Pick([]int{16, 16, 16, 12, 12, 10, 15, 9, 8})
		}
		k.SPP = c.R.Pick([]int{1, 1, 3})
		k.Signed = c.R.Intn(3) == 0
		if k.Signed && k.BS < 2 {
			k.BS = 2
		}
		k.BW, k.BH = c.R.Pick(blockSizes), c.R.Pick(blockSizes)
		k.NL = c.R.Intn(7)
		k.RPCL = c.R.Bool()
		k.DefaultParams = c.R.Intn(10) == 0
		return k
	}
	run := func(k c06Case, gen string, class int) {
		k.Gen = fmt.Sprintf("%s/content%d", gen, class)
		src := c06Content(c.R, k, class)
		c06RoundTrip(c, k, src)
	}

	// 1. boundary geometry first: 1-pixel-wide/-high, tiny, around quad / block / level boundaries
	small := [][2]int{{1, 1}, {1, 2}, {2, 1}, {2, 2}, {1, 3}, {3, 1}, {3, 3}, {1, 9}, {9, 1}, {1, 64}, {64, 1}, {1, 80}, {80, 1},
		{2, 9}, {9, 2}, {3, 5}, {5, 3}, {4, 4}, {5, 5}, {7, 9}, {8, 8}, {9, 9}, {15, 17}, {16, 16}, {17, 17}, {31, 33}, {33, 31},
		{63, 65}, {64, 64}, {65, 65}, {65, 63}, {80, 80}, {79, 3}, {3, 79}}
	rep := 2
	if c.Thorough() {
		rep = 8
	}
	for _, g := range small {
		for cl := 0; cl < 7; cl++ {
			for j := 0; j < rep; j++ {
				run(mk(g[0], g[1]), "boundary", cl)
			}
		}
	}
	// 1a. minimal witnesses of the known finding, byte for byte (1x1 8-bit unsigned 0; 1x1 8-bit signed -128; the
	//     original probe's shape 1x9 16-bit with one zero sample), and their nearest passing neighbours
	for _, wn := range []struct {
		k   c06Case
		src []byte
	}{
		{c06Case{W: 1, H: 1, BA: 8, BS: 8, SPP: 1, BW: 64, BH: 64, NL: 0, Gen: "witness"}, []byte{0x00}},
		{c06Case{W: 1, H: 1, BA: 8, BS: 8, SPP: 1, BW: 64, BH: 64, NL: 0, Gen: "witness-neighbour"}, []byte{0x01}},
		{c06Case{W: 1, H: 1, BA: 8, BS: 8, SPP: 1, Signed: true, BW: 64, BH: 64, NL: 0, Gen: "witness"}, []byte{0x80}},
		{c06Case{W: 1, H: 1, BA: 8, BS: 8, SPP: 1, Signed: true, BW: 64, BH: 64, NL: 0, Gen: "witness-neighbour"}, []byte{0x81}},
		{c06Case{W: 1, H: 9, BA: 16, BS: 16, SPP: 1, BW: 64, BH: 64, NL: 5, DefaultParams: true, Gen: "witness"},
			[]byte{1, 0, 2, 0, 3, 0, 0, 0, 5, 0, 6, 0, 7, 0, 8, 0, 9, 0}},
		{c06Case{W: 2, H: 9, BA: 16, BS: 16, SPP: 1, BW: 64, BH: 64, NL: 5, DefaultParams: true, Gen: "witness-neighbour"},
			[]byte{1, 0, 2, 0, 3, 0, 0, 0, 5, 0, 6, 0, 7, 0, 8, 0, 9, 0, 1, 0, 2, 0, 3, 0, 0, 0, 5, 0, 6, 0, 7, 0, 8, 0, 9, 0}},
		{c06Case{W: 1, H: 1, BA: 8, BS: 8, SPP: 3, BW: 64, BH: 64, NL: 0, Gen: "witness-neighbour"}, []byte{0, 0, 0}},
	} {
		c06RoundTrip(c, wn.k, wn.src)
	}
	// 1b. the Kmax witness family made deterministic: 0 levels / 1 component, every depth & signedness, constant minimum sample
	for _, ba := range []int{8, 16} {
		for _, sg := range []bool{false, true} {
			for _, g := range [][2]int{{1, 1}, {1, 9}, {4, 4}, {8, 8}} {
				for _, nl := range []int{0, 5} {
					k := c06Case{W: g[0], H: g[1], BA: ba, BS: ba, SPP: 1, Signed: sg, BW: 64, BH: 64, NL: nl, Gen: "kmax-family"}
					src := c06Content(c.R, k, 3)
					c06RoundTrip(c, k, src)
					k3 := k
					k3.SPP = 3
					c06RoundTrip(c, k3, c06Content(c.R, k3, 3))
				}
			}
		}
	}

	// 2. grid over sizes 1..80
	if c.Thorough() {
		for w := 1; w <= 80; w++ {
			for h := 1; h <= 80; h++ {
				if !(w <= 12 || h <= 12 || (w+h)%7 == int(c.Seed%7)) {
					continue
				}
				run(mk(w, h), "grid", c.R.Intn(7))
			}
		}
	} else {
		for i := 0; i < 500; i++ {
			w, h := c.R.Range(1, 80), c.R.Range(1, 80)
			switch c.R.Intn(6) {
			case 0:
				w = c.R.Range(1, 4)
			case 1:
				h = c.R.Range(1, 4)
			}
			run(mk(w, h), "grid", c.R.Intn(7))
		}
	}
	// 3. random larger
	nBig := 12
	if c.Thorough() {
		nBig = 150
	}
	for i := 0; i < nBig; i++ {
		w, h := c.R.Range(81, 600), c.R.Range(1, 600)
		if c.R.Bool() {
			w, h = h, w
		}
		if !c.Thorough() && w*h > 120000 {
			h = 120000 / w
			if h < 1 {
				h = 1
			}
		}
		run(mk(w, h), "large", c.R.Intn(7))
	}

	// 4. block-level layer monitor
	for w := 1; w <= 8; w++ {
		for h := 1; h <= 8; h++ {
			for cl := 0; cl < 6; cl++ {
				nrep := 2
				if c.Thorough() {
					nrep = 10
				}
				for j := 0; j < nrep; j++ {
					kmax := c.R.Range(1, 20)
					if j == 0 {
						kmax = c.R.Pick([]int{1, 2, 7, 9, 17, 20, 30})
					}
					c06Block(c, w, h, kmax, c06BlockData(c.R, w, h, kmax, cl), fmt.Sprintf("small/class%d", cl))
				}
			}
		}
	}
	nb := 300
	if c.Thorough() {
		nb = 4000
	}
	for i := 0; i < nb; i++ {
		w, h := c.R.Range(1, 64), c.R.Range(1, 64)
		kmax := c.R.Range(1, 30)
		cl := c.R.Intn(6)
		c06Block(c, w, h, kmax, c06BlockData(c.R, w, h, kmax, cl), fmt.Sprintf("random/class%d", cl))
	}
	// 1x1 blocks: correspondence of the sign-magnitude model (toSignMag / fromSignMag) with the real block coder,
	// on both sides of the precondition (|v| < 2^kmax round-trips; |v| = 2^kmax comes back as 0)
	for _, kmax := range []int{1, 2, 7, 8, 15, 16, 17, 20, 30} {
		lim := int64(1) << uint(kmax)
		vs := []int64{0, 1, -1, lim - 1, -(lim - 1), lim, -lim, lim / 2, -(lim / 2)}
		for j := 0; j < 6; j++ {
			vs = append(vs, int64(c.R.U64()%uint64(lim))*int64(1-2*c.R.Intn(2)))
		}
		for _, v := range vs {
			if v > 1<<30 || v < -(1<<30) {
				continue
			}
			var dec []int32
			var e1, e2 error
			p, _ := hx.Guard(func() {
				e := htj2k.NewHTEncoder(1, 1)
				e.SetKMax(kmax)
				var enc []byte
				enc, e1 = e.Encode([]int32{int32(v)}, 1, 0)
				if e1 != nil {
					return
				}
				d := htj2k.NewHTDecoder(1, 1)
				d.SetCodingContext(kmax, kmax-1)
				dec, e2 = d.Decode(enc, 1)
			})
			r := "err"
			if p {
				r = "panic"
			} else if e1 == nil && e2 == nil && len(dec) == 1 {
				r = fmt.Sprintf("ok %d", dec[0])
			}
			c.Case(fmt.Sprintf("htj2k-signmag %d %d", kmax, v), r)
			c.Count("kernel:signmag-1x1-block")
		}
	}
	// the precondition's complement, deterministic: one coefficient of magnitude exactly 2^kmax
	for _, kmax := range []int{7, 15} {
		for _, sgn := range []int32{1, -1} {
			d := make([]int32, 4)
			d[0] = sgn * int32(1<<uint(kmax))
			c06Block(c, 2, 2, kmax, d, "coef-eq-2^kmax")
		}
	}

	// 5. MEL correspondence + MEL round trip on the real code
	for n := 0; n <= 10; n++ { // exhaustive short sequences
		lim := 1 << uint(n)
		for v := 0; v < lim; v++ {
			if !c.Thorough() && n > 7 && (v%5) != int(c.Seed%5) {
				continue
			}
			bs := make([]int, n)
			for i := range bs {
				bs[i] = (v >> uint(i)) & 1
			}
			c06Mel(c, bs, "exhaustive")
		}
	}
	nm := 300
	if c.Thorough() {
		nm = 5000
	}
	for i := 0; i < nm; i++ {
		cl := c.R.Intn(5)
		c06Mel(c, c06MelBits(c.R, c.R.Range(1, 700), cl), fmt.Sprintf("random/class%d", cl))
	}
	for i := 0; i < nm/2; i++ {
		data := c.R.Bytes(c.R.Range(0, 12))
		if c.R.Bool() && len(data) > 0 {
			data[c.R.Intn(len(data))] = 0xFF
		}
		c06MelDecRandom(c, data, c.R.Range(1, 120))
	}

	// 6. calculateMaxLevels, Kmax kernels (through hooks when the build has them)
	c06Kernels(c)

	// 7. tile-part arithmetic of own streams
	for i := 0; i < 40; i++ {
		k := mk(c.R.Range(1, 90), c.R.Range(1, 90))
		src := c06Content(c.R, k, c.R.Intn(7))
		if enc, oc := c06Encode(k, src); oc == "ok" {
			c06TilePartFacts(c, enc, "own", true)
		}
	}
	// 8. tiled HTJ2K (low-level encoder): tiles smaller than the image x small code-blocks x levels
	c06Tiled(c, c06Tile{W: 16, H: 9, Comps: 1, BD: 8, TW: 8, TH: 16, NL: 1, CBW: 4, CBH: 4}, "witness-min")
	c06Tiled(c, c06Tile{W: 30, H: 23, Comps: 3, BD: 12, TW: 16, TH: 24, NL: 3, CBW: 4, CBH: 8}, "witness-c16")
	c06Tiled(c, c06Tile{W: 16, H: 9, Comps: 1, BD: 8, TW: 16, TH: 16, NL: 1, CBW: 4, CBH: 4}, "witness-neighbour-one-tile")
	nt := 120
	if c.Thorough() {
		nt = 1500
	}
	for i := 0; i < nt; i++ {
		t := c06Tile{W: c.R.Range(1, 48), H: c.R.Range(1, 48), Comps: c.R.Pick([]int{1, 1, 3}), BD: c.R.Pick([]int{8, 8, 12, 16}),
			TW: c.R.Pick([]int{4, 8, 16, 24, 32}), TH: c.R.Pick([]int{4, 8, 16, 24, 32}), NL: c.R.Intn(4),
			CBW: c.R.Pick([]int{4, 4, 8, 16, 64}), CBH: c.R.Pick([]int{4, 4, 8, 16, 64})}
		c06Tiled(c, t, "random")
	}
	// 9. round 3: packet-header empty-band signalling and the U_q admissibility check
	c06Round3(c)
	// 10. round 4: the full cleanup encoder model, byte for byte, and the context-VLC tables
	c06Round4(c)
	_ = jpeg2000.NewDecoder
	_ = t2.NewPacketEncoder
}

func init() { register("C06", c06) }
