package main

// C10 — DICOM codec contract: frames map 1:1, in order, independently, deterministically; inputs
// unmodified; decoded frame length; lossless syntaxes return the source.
//
// Property search (real code, public API): all 14 registered transfer syntaxes, frame sequences of
// length 1..8 (random, permutations, repeats, alternating very different frames); every output is
// compared with the same frame run alone; input buffers are hashed before/after; decoded lengths are
// checked against Rows·Columns·Samples·⌈BitsAllocated/8⌉.  One jpeg2000.Encoder / jpeg2000.Decoder
// object is reused across unrelated images (with and without MCT / ROI markers) and compared with
// fresh objects.
//
// Correspondence lines:
//   c10-declen <kind> W H SPP BA BS      real: Encode→Decode through the registry, decoded length
//                                         model: Frames.decodedLen (code-shaped model of the adapters)
//   fact-fields <encoder|decoder>        real: reflect field list        model: Gen.Facts.<obj>Fields
//   fact-field <obj> <field> <changed> <sensitive>
//        real: "ok" — changed/sensitive are DYNAMIC observations (field snapshot differs after a call /
//        output changes when the field is perturbed before the call); model: "ok" iff the static class
//        in Gen.Facts allows the observation (changed ⇒ written; sensitive ⇒ config or leaky).

import (
	"bytes"
	"crypto/sha256"
	"encoding/binary"
	"fmt"
	"math"
	"reflect"
	"sort"
	"strings"
	"unsafe"

	"github.com/cocosip/go-dicom-codecs/jpeg2000"
	"github.com/cocosip/go-dicom-codecs/jpeg2000/htj2k"
	"github.com/cocosip/go-dicom-codecs/jpeg2000/t2"
	"github.com/cocosip/go-dicom/pkg/dicom/transfer"
	dcodec "github.com/cocosip/go-dicom/pkg/imaging/codec"
	"github.com/cocosip/go-dicom/pkg/imaging/imagetypes"

	_ "github.com/cocosip/go-dicom-codecs/jpeg/baseline"
	_ "github.com/cocosip/go-dicom-codecs/jpeg/extended"
	_ "github.com/cocosip/go-dicom-codecs/jpeg/lossless"
	_ "github.com/cocosip/go-dicom-codecs/jpeg/lossless14sv1"
	_ "github.com/cocosip/go-dicom-codecs/jpeg2000/lossless"
	_ "github.com/cocosip/go-dicom-codecs/jpeg2000/lossy"
	_ "github.com/cocosip/go-dicom-codecs/jpegls/lossless"
	_ "github.com/cocosip/go-dicom-codecs/jpegls/nearlossless"
	_ "github.com/cocosip/go-dicom-codecs/rle"

	"verifharness/internal/hx"
)

func init() { register("C10", c10Main) }

type c10Syntax struct {
	Name     string // short key used in classes
	Kind     string // model kind for c10-declen
	TS       *transfer.Syntax
	Lossless bool
	MinBits  int
	MaxBits  int
	RLE      bool
}

func c10Syntaxes() []c10Syntax {
	return []c10Syntax{
		{"rle", "rle", transfer.RLELossless, true, 2, 16, true},
		{"jpeg50", "baseline", transfer.JPEGBaseline8Bit, false, 2, 8, false},
		{"jpeg51", "extended", transfer.JPEGProcess2_4, false, 2, 12, false},
		{"jpeg57", "jpegll", transfer.JPEGLossless, true, 2, 16, false},
		{"jpeg70", "jpegll", transfer.JPEGLosslessSV1, true, 2, 16, false},
		{"jls80", "jls", transfer.JPEGLSLossless, true, 2, 16, false},
		{"jls81", "jls", transfer.JPEGLSNearLossless, false, 2, 16, false},
		{"j2k90", "j2k", transfer.JPEG2000Lossless, true, 2, 16, false},
		{"j2k91", "j2k", transfer.JPEG2000Lossy, false, 2, 16, false},
		{"j2k92", "j2k", transfer.JPEG2000Part2MultiComponentLosslessOnly, true, 2, 16, false},
		{"j2k93", "j2k", transfer.JPEG2000Part2MultiComponent, false, 2, 16, false},
		{"htj2k201", "htj2k", transfer.HTJ2KLossless, true, 2, 16, false},
		{"htj2k202", "htj2k", transfer.HTJ2KLosslessRPCL, true, 2, 16, false},
		{"htj2k203", "htj2k", transfer.HTJ2K, false, 2, 16, false},
	}
}

type c10Info struct{ W, H, SPP, BA, BS int }

func (i c10Info) frameInfo() *imagetypes.FrameInfo {
	pi := "MONOCHROME2"
	if i.SPP == 3 {
		pi = "RGB"
	}
	return &imagetypes.FrameInfo{Width: uint16(i.W), Height: uint16(i.H), BitsAllocated: uint16(i.BA), BitsStored: uint16(i.BS),
		HighBit: uint16(i.BS - 1), SamplesPerPixel: uint16(i.SPP), PhotometricInterpretation: pi}
}
func (i c10Info) native() int    { return i.W * i.H * i.SPP * ((i.BA + 7) / 8) }
func (i c10Info) String() string { return fmt.Sprintf("%dx%dx%d ba%d bs%d", i.W, i.H, i.SPP, i.BA, i.BS) }

// c10PD records every AddFrame in order.
type c10PD struct {
	frames [][]byte
	info   *imagetypes.FrameInfo
	enc    bool
}

func (p *c10PD) GetFrame(i int) ([]byte, error) {
	if i < 0 || i >= len(p.frames) {
		return nil, fmt.Errorf("frame %d out of range", i)
	}
	return p.frames[i], nil
}
func (p *c10PD) AddFrame(b []byte) error           { p.frames = append(p.frames, b); return nil }
func (p *c10PD) FrameCount() int                   { return len(p.frames) }
func (p *c10PD) GetFrameInfo() *imagetypes.FrameInfo { return p.info }
func (p *c10PD) IsEncapsulated() bool              { return p.enc }

// c10Frame makes one frame of the given description; style picks very different contents.
func c10Frame(r *hx.Rand, i c10Info, style int) []byte {
	n := i.W * i.H * i.SPP
	maxv := (1 << uint(i.BS)) - 1
	out := make([]byte, i.native())
	put := func(k, v int) {
		if v < 0 {
			v = 0
		}
		if v > maxv {
			v = maxv
		}
		if i.BA == 8 {
			out[k] = byte(v)
		} else {
			out[2*k] = byte(v)
			out[2*k+1] = byte(v >> 8)
		}
	}
	seed := r.Intn(1 << 20)
	for k := 0; k < n; k++ {
		px := k / i.SPP
		x, y := px%i.W, px/i.W
		var v int
		switch style % 6 {
		case 0: // noise
			v = r.Intn(maxv + 1)
		case 1: // gradient
			v = (x*maxv/maxInt(1, i.W-1) + y + seed) % (maxv + 1)
		case 2: // constant
			v = seed % (maxv + 1)
		case 3: // checkerboard of extremes
			if (x+y+seed)%2 == 0 {
				v = maxv
			}
		case 4: // sparse impulses
			if r.Intn(17) == 0 {
				v = maxv - r.Intn(3)
			}
		case 5: // smooth + small noise
			v = maxv/2 + int(float64(maxv/4)*math.Sin(float64(x+seed)/3.0)) + r.Intn(3)
		}
		put(k, v)
	}
	return out
}

func maxInt(a, b int) int {
	if a > b {
		return a
	}
	return b
}

func c10Sum(b []byte) [32]byte { return sha256.Sum256(b) }

// c10Run calls Encode or Decode of the registered codec on a sequence of frames.
// Every call gets private copies of the input frames; c10RunM also reports which copies the call changed.
func c10Run(cd dcodec.Codec, enc bool, i c10Info, frames [][]byte, params dcodec.Parameters) (out [][]byte, outcome string) {
	out, outcome, _ = c10RunM(cd, enc, i, frames, params)
	return
}

func c10RunM(cd dcodec.Codec, enc bool, i c10Info, frames [][]byte, params dcodec.Parameters) (out [][]byte, outcome string, c10Modified []int) {
	src := &c10PD{info: i.frameInfo(), enc: !enc}
	for _, f := range frames {
		src.frames = append(src.frames, append(make([]byte, 0, len(f)+64), f...)) // spare capacity, as a sub-slice of a file buffer has
	}
	defer func() {
		for k, f := range frames {
			g := src.frames[k]
			if !bytes.Equal(f, g[:len(f)]) {
				c10Modified = append(c10Modified, k)
			}
		}
	}()
	dst := &c10PD{info: i.frameInfo(), enc: enc}
	var err error
	p, msg := hx.Guard(func() {
		if enc {
			err = cd.Encode(src, dst, params)
		} else {
			err = cd.Decode(src, dst, params)
		}
	})
	if p {
		return nil, "panic " + msg, nil
	}
	if err != nil {
		return dst.frames, "err", nil
	}
	return dst.frames, "ok", nil
}

type c10State struct {
	c    *hx.Ctx
	solo map[string][]byte // key -> solo result ("" outcome folded into key presence)
	soOC map[string]string
}

func (s *c10State) soloRun(sy c10Syntax, cd dcodec.Codec, enc bool, i c10Info, f []byte) ([]byte, string) {
	h := c10Sum(f)
	k := fmt.Sprintf("%s|%v|%v|%x", sy.Name, enc, i, h[:])
	if oc, ok := s.soOC[k]; ok {
		return s.solo[k], oc
	}
	out, oc := c10Run(cd, enc, i, [][]byte{f}, nil)
	var r []byte
	if oc == "ok" && len(out) == 1 {
		r = out[0]
	} else if oc == "ok" {
		oc = fmt.Sprintf("count%d", len(out))
	}
	s.solo[k], s.soOC[k] = r, oc
	return r, oc
}

// c10Fail keeps at most three witnesses per class in the report (all are counted)
var c10PerClass = map[string]int{}

func c10Fail(c *hx.Ctx, f hx.Failure) {
	c10PerClass[f.Class]++
	if c10PerClass[f.Class] <= 3 {
		c.Fail(f)
	} else {
		c.Count("fail:" + f.Class)
		c.Count("failures")
	}
}

func c10BSClass(bs int) string {
	if bs == 8 || bs == 16 {
		return "bs8or16"
	}
	return "bsOther"
}

// c10Sequence evaluates the property on one frame sequence of one syntax.
func (s *c10State) sequence(sy c10Syntax, cd dcodec.Codec, i c10Info, seq [][]byte, what string) {
	c := s.c
	c.Count("ts:" + sy.Name)
	c.Count("seq:" + what)
	c.Count(fmt.Sprintf("len:%d", len(seq)))
	c.Count(fmt.Sprintf("ba%d-bs%d-spp%d", i.BA, i.BS, i.SPP))
	var key strings.Builder
	fmt.Fprintf(&key, "%s|%v|", sy.Name, i)
	before := make([][32]byte, len(seq))
	for k, f := range seq {
		before[k] = c10Sum(f)
		key.Write(before[k][:8])
	}
	distinct := map[[32]byte]bool{}
	for _, b := range before {
		distinct[b] = true
	}
	c.Eval(key.String(), len(seq) >= 2 && len(distinct) >= 2)
	in := map[string]any{"ts": sy.Name, "info": i.String(), "frames": len(seq), "sequence": what, "seed": c.Seed}
	fail := func(class, whatf, exp, act string) {
		c10Fail(c, hx.Failure{Class: class, What: whatf, Input: in, Expected: exp, Actual: act})
	}
	// solo encodes decide whether the sequence is expected to succeed
	soloEnc := make([][]byte, len(seq))
	allOK := true
	for k, f := range seq {
		var oc string
		soloEnc[k], oc = s.soloRun(sy, cd, true, i, f)
		if oc != "ok" {
			allOK = false
			if strings.HasPrefix(oc, "panic") {
				fail("c10-encode-panic-"+sy.Name, "Encode panics on a single valid frame", "ok", oc)
			}
		}
	}
	outs, oc, c10Modified := c10RunM(cd, true, i, seq, nil)
	for _, k := range c10Modified {
		fail("c10-input-modified-enc-"+sy.Name, fmt.Sprintf("Encode modified input frame %d", k), "unchanged", "changed")
	}
	if !allOK {
		c.Count("encode-rejected")
		if oc == "ok" {
			fail("c10-seq-accepts-what-solo-rejects-"+sy.Name, "sequence encodes although a frame alone is rejected", "err", "ok")
		}
		return
	}
	if oc != "ok" {
		fail("c10-seq-encode-fails-"+sy.Name, "sequence fails although every frame alone encodes", "ok", oc)
		return
	}
	if len(outs) != len(seq) {
		fail("c10-count-enc-"+sy.Name, "Encode: number of output frames", fmt.Sprint(len(seq)), fmt.Sprint(len(outs)))
		return
	}
	for k := range seq {
		if !bytes.Equal(outs[k], soloEnc[k]) {
			fail("c10-enc-depends-on-history-"+sy.Name, fmt.Sprintf("encoded frame %d differs from the same frame encoded alone", k), "identical bytes", "different")
			break
		}
	}
	// decode the encoded sequence
	dec, doc, c10Modified := c10RunM(cd, false, i, outs, nil)
	for _, k := range c10Modified {
		fail("c10-input-modified-dec-"+sy.Name, fmt.Sprintf("Decode modified its input (encoded frame %d)", k), "unchanged", "changed")
		break
	}
	if doc != "ok" {
		if strings.HasPrefix(doc, "panic") {
			fail("c10-decode-panic-"+sy.Name+"-ba"+fmt.Sprint(i.BA)+"-"+c10BSClass(i.BS), "Decode panics on the codec's own output", "ok", doc)
		} else {
			fail("c10-decode-err-"+sy.Name+"-ba"+fmt.Sprint(i.BA)+"-"+c10BSClass(i.BS), "Decode rejects the codec's own output", "ok", doc)
		}
		return
	}
	if len(dec) != len(seq) {
		fail("c10-count-dec-"+sy.Name, "Decode: number of output frames", fmt.Sprint(len(seq)), fmt.Sprint(len(dec)))
		return
	}
	want := i.native()
	if sy.RLE && want%2 == 1 {
		want++
	}
	for k := range seq {
		soloDec, soc := s.soloRun(sy, cd, false, i, outs[k])
		if soc != "ok" || !bytes.Equal(dec[k], soloDec) {
			fail("c10-dec-depends-on-history-"+sy.Name, fmt.Sprintf("decoded frame %d differs from the same frame decoded alone", k), "identical bytes", "different/"+soc)
			break
		}
	}
	for k := range seq {
		if len(dec[k]) != want {
			cls := "c10-declen-" + sy.Kind + "-other"
			if i.BA == 16 && i.BS <= 8 {
				cls = "c10-declen-" + sy.Kind + "-ba16-bs-le8"
			} else if sy.Kind == "extended" && i.SPP == 1 && i.BS <= 8 && (i.W%8 != 0 || i.H%8 != 0) {
				cls = "c10-declen-extended-gray8-mcu-padding"
			}
			fail(cls, "decoded frame length", fmt.Sprint(want), fmt.Sprint(len(dec[k])))
			return
		}
	}
	if sy.Lossless {
		for k := range seq {
			if !bytes.Equal(dec[k][:len(seq[k])], seq[k]) {
				// history-independence already holds here (every frame equals its solo run): this is the codec's own
				// round trip failing on this content — root causes belong to C02–C06; the class names the coder
				// family and whether the frame is at least one 64×64 code-block large
				size := "lt4096px"
				if i.W*i.H >= 4096 {
					size = "ge4096px"
				}
				h := c10Sum(seq[k])
				in["frame_sha256"] = fmt.Sprintf("%x", h[:8])
				fail("c10-lossless-roundtrip-"+sy.Kind+"-"+size+"-"+c10BSClass(i.BS), fmt.Sprintf("lossless syntax %s: decoded frame %d differs from the source", sy.Name, k), "source bytes", "different")
				return
			}
		}
	}
}

func c10Infos(c *hx.Ctx, sy c10Syntax) []c10Info {
	var out []c10Info
	sizes := [][2]int{{16, 12}, {9, 7}}
	if c.Thorough() {
		sizes = append(sizes, [2]int{33, 17}, [2]int{1, 5}, [2]int{64, 64})
	}
	bss := map[int][]int{8: {8, 7, 2}, 16: {16, 12, 9, 8}}
	if c.Thorough() {
		bss = map[int][]int{8: {8, 7, 6, 5, 4, 3, 2}, 16: {16, 15, 14, 13, 12, 11, 10, 9, 8, 7, 4, 2}}
	}
	for si, sz := range sizes {
		for _, ba := range []int{8, 16} {
			for _, bs := range bss[ba] {
				if bs < sy.MinBits || bs > sy.MaxBits {
					continue
				}
				for _, spp := range []int{1, 3} {
					if si > 0 && !c.Thorough() && (bs != ba) {
						continue // quick tier: the second size only at full depth
					}
					out = append(out, c10Info{sz[0], sz[1], spp, ba, bs})
				}
			}
		}
	}
	return out
}

func c10Main(c *hx.Ctx) {
	c.Rule = "a sequence evaluation is non-trivial when it has ≥ 2 frames of which ≥ 2 are distinct"
	s := &c10State{c: c, solo: map[string][]byte{}, soOC: map[string]string{}}
	reg := dcodec.GetGlobalRegistry()
	// pristine copies of the registered codec objects, taken before the first call on any of them
	pristine := map[string]reflect.Value{}
	for _, sy := range c10Syntaxes() {
		if cd, ok := reg.GetCodec(sy.TS); ok {
			if v := reflect.ValueOf(cd); v.Kind() == reflect.Ptr && v.Elem().Kind() == reflect.Struct {
				cp := reflect.New(v.Elem().Type())
				cp.Elem().Set(v.Elem())
				pristine[sy.Name] = cp
			}
		}
	}
	for _, sy := range c10Syntaxes() {
		cd, ok := reg.GetCodec(sy.TS)
		if !ok {
			c10Fail(c, hx.Failure{Class: "c10-not-registered-" + sy.Name, What: "transfer syntax has no registered codec", Input: map[string]any{"ts": sy.Name}})
			continue
		}
		for _, i := range c10Infos(c, sy) {
			// correspondence: decoded length as a function of the FrameInfo
			c10DecLenCase(c, sy, cd, i)
			pool := make([][]byte, 6)
			for k := range pool {
				pool[k] = c10Frame(c.R, i, k)
			}
			// boundary sequences first
			s.sequence(sy, cd, i, [][]byte{pool[0]}, "single")
			s.sequence(sy, cd, i, [][]byte{pool[0], pool[3], pool[0], pool[3], pool[0], pool[3]}, "alternating")
			s.sequence(sy, cd, i, [][]byte{pool[1], pool[1], pool[1], pool[1]}, "repeat")
			fwd := [][]byte{pool[0], pool[1], pool[2], pool[3], pool[4], pool[5], pool[0], pool[2]}
			s.sequence(sy, cd, i, fwd, "all8")
			rev := make([][]byte, len(fwd))
			for k := range fwd {
				rev[k] = fwd[len(fwd)-1-k]
			}
			s.sequence(sy, cd, i, rev, "reversed")
			n := 1
			if c.Thorough() {
				n = 6
			}
			for t := 0; t < n; t++ {
				l := c.R.Range(1, 8)
				seq := make([][]byte, l)
				for k := range seq {
					seq[k] = pool[c.R.Intn(len(pool))]
				}
				s.sequence(sy, cd, i, seq, "random")
				// sub-sequence of the same frames
				if l > 1 {
					s.sequence(sy, cd, i, seq[1:], "subsequence")
				}
			}
		}
	}
	c10CodecHistories(c, pristine)
	c10ParamHistories(c, pristine)
	c10SharedParamsObject(c, pristine)
	c10Objects(c)
	c.Sample(map[string]any{"syntaxes": len(c10Syntaxes()), "solo_cache": len(s.soOC)})
}

// c10FreshCodec: a codec object in the state the registered one had before its first call
func c10FreshCodec(pristine map[string]reflect.Value, name string) dcodec.Codec {
	p, ok := pristine[name]
	if !ok {
		return nil
	}
	cp := reflect.New(p.Elem().Type())
	cp.Elem().Set(p.Elem())
	cd, _ := cp.Interface().(dcodec.Codec)
	return cd
}

// c10CodecHistories: ONE codec object (the registered singleton, which the sequence runs above have already
// used) encodes and decodes frames of DIFFERENT descriptions — plane counts, sizes and bit depths growing and
// shrinking — and every output is compared byte for byte with what a fresh codec object gives for that call.
func c10CodecHistories(c *hx.Ctx, pristine map[string]reflect.Value) {
	reg := dcodec.GetGlobalRegistry()
	for _, sy := range c10Syntaxes() {
		cd, ok := reg.GetCodec(sy.TS)
		if !ok || c10FreshCodec(pristine, sy.Name) == nil {
			continue
		}
		deep := 8
		if sy.MaxBits > 8 {
			deep = sy.MaxBits
			if deep > 12 && sy.Name == "jpeg51" {
				deep = 12
			}
		}
		var infos []c10Info
		add := func(w, h, spp, bs int) {
			ba := 8
			if bs > 8 {
				ba = 16
			}
			if sy.Name == "jpeg51" && spp == 3 && bs > 8 {
				return
			}
			infos = append(infos, c10Info{w, h, spp, ba, bs})
		}
		add(16, 12, 1, deep) // many byte planes / deep samples first
		add(9, 7, 3, 8)
		add(16, 12, 1, 8) // then the smallest description: stale state of the bigger ones would show here
		add(5, 3, 1, 8)
		add(24, 10, 3, deep)
		add(1, 1, 1, 8)
		add(16, 12, 1, 8)
		add(33, 9, 1, deep)
		add(16, 12, 1, 8)
		rounds := 1
		if c.Thorough() {
			rounds = 3
		}
		for r := 0; r < rounds; r++ {
			for step, i := range infos {
				f := c10Frame(c.R, i, (step+r)%6)
				in := map[string]any{"ts": sy.Name, "step": step, "round": r, "info": i.String(), "history": fmt.Sprint(infos[:step]), "seed": c.Seed}
				got, oc := c10Run(cd, true, i, [][]byte{f}, nil)
				want, woc := c10Run(c10FreshCodec(pristine, sy.Name), true, i, [][]byte{f}, nil)
				c.Eval(fmt.Sprintf("codec-history|%s|%d|%d|enc", sy.Name, r, step), step > 0)
				c.Count("codec-history")
				same := oc[:2] == woc[:2] && len(got) == len(want)
				for k := 0; same && k < len(got); k++ {
					same = bytes.Equal(got[k], want[k])
				}
				if !same {
					c10Fail(c, hx.Failure{Class: "c10-codec-object-history-enc-" + sy.Name, What: "Encode on the registered codec object differs from a fresh codec object after a history of other frame descriptions",
						Input: in, Expected: "identical bytes (" + woc[:2] + ")", Actual: oc[:2]})
					continue
				}
				if oc != "ok" {
					continue
				}
				dgot, doc := c10Run(cd, false, i, got, nil)
				dwant, dwoc := c10Run(c10FreshCodec(pristine, sy.Name), false, i, want, nil)
				c.Eval(fmt.Sprintf("codec-history|%s|%d|%d|dec", sy.Name, r, step), step > 0)
				same = doc[:2] == dwoc[:2] && len(dgot) == len(dwant)
				for k := 0; same && k < len(dgot); k++ {
					same = bytes.Equal(dgot[k], dwant[k])
				}
				if !same {
					c10Fail(c, hx.Failure{Class: "c10-codec-object-history-dec-" + sy.Name, What: "Decode on the registered codec object differs from a fresh codec object after a history of other frame descriptions",
						Input: in, Expected: "identical bytes (" + dwoc[:2] + ")", Actual: doc[:2]})
				}
			}
		}
	}
}

// c10ParamSettings: explicit parameter settings per codec kind (name/value pairs applied with SetParameter to a
// fresh GetDefaultParameters object); every setting differs from the codec's configured default.
func c10ParamSettings(kind, name string) [][2]any {
	switch kind {
	case "baseline", "extended":
		return [][2]any{{"quality", 35}, {"quality", 97}, {"quality", 5}}
	case "jpegll":
		if name == "jpeg57" {
			return [][2]any{{"predictor", 4}, {"predictor", 7}, {"predictor", 2}}
		}
	case "jls":
		if name == "jls81" {
			return [][2]any{{"near", 5}, {"near", 1}, {"near", 9}}
		}
	case "j2k":
		if name == "j2k91" || name == "j2k93" {
			return [][2]any{{"numLevels", 2}, {"rate", 40}, {"numLayers", 3}, {"irreversible", false}, {"allowMCT", false}}
		}
		return [][2]any{{"numLevels", 2}, {"numLayers", 3}, {"allowMCT", false}, {"progressionOrder", 2}}
	case "htj2k":
		return [][2]any{{"numLevels", 2}, {"blockWidth", 32}, {"quality", 40}}
	}
	return nil
}

// c10ParamHistories: ONE codec object (the registered singleton) is called with EXPLICIT parameters that differ
// from its configured defaults, then with nil parameters, then with an untouched default-parameters object, and
// every output is compared byte for byte with what a fresh codec object gives for that same call in isolation:
// "output frame i depends only on input frame i, the frame description and the parameters - not on earlier
// calls made on the same codec".
func c10ParamHistories(c *hx.Ctx, pristine map[string]reflect.Value) {
	reg := dcodec.GetGlobalRegistry()
	for _, sy := range c10Syntaxes() {
		cd, ok := reg.GetCodec(sy.TS)
		if !ok || c10FreshCodec(pristine, sy.Name) == nil {
			continue
		}
		settings := c10ParamSettings(sy.Kind, sy.Name)
		if len(settings) == 0 {
			continue
		}
		// parameters are always built from a fresh clone so that neither run shares a parameters object
		mk := func(set *[2]any, dflt bool) dcodec.Parameters {
			if set == nil && !dflt {
				return nil
			}
			p := c10FreshCodec(pristine, sy.Name).GetDefaultParameters()
			if set != nil && p != nil {
				p.SetParameter(set[0].(string), set[1])
			}
			return p
		}
		type call struct {
			set  *[2]any
			dflt bool
		}
		var calls []call
		for k := range settings {
			calls = append(calls, call{&settings[k], false}, call{nil, false}, call{nil, true})
		}
		infos := []c10Info{{16, 12, 1, 8, 8}, {9, 7, 3, 8, 8}}
		if sy.MaxBits > 8 && sy.Name != "jpeg51" {
			infos = append(infos, c10Info{16, 12, 1, 16, sy.MaxBits})
		}
		hist := []string{}
		for step, cl := range calls {
			i := infos[step%len(infos)]
			f := c10Frame(c.R, i, step%6)
			desc := "nil"
			if cl.set != nil {
				desc = fmt.Sprintf("%v=%v", cl.set[0], cl.set[1])
			} else if cl.dflt {
				desc = "defaults-object"
			}
			in := map[string]any{"ts": sy.Name, "step": step, "info": i.String(), "params": desc, "history": fmt.Sprint(hist), "seed": c.Seed}
			got, oc := c10Run(cd, true, i, [][]byte{f}, mk(cl.set, cl.dflt))
			want, woc := c10Run(c10FreshCodec(pristine, sy.Name), true, i, [][]byte{f}, mk(cl.set, cl.dflt))
			c.Eval(fmt.Sprintf("param-history|%s|%d|enc", sy.Name, step), step > 0)
			c.Count("param-history")
			hist = append(hist, desc)
			same := oc[:2] == woc[:2] && len(got) == len(want)
			for k := 0; same && k < len(got); k++ {
				same = bytes.Equal(got[k], want[k])
			}
			if !same {
				c10Fail(c, hx.Failure{Class: "c10-codec-object-param-history-enc-" + sy.Name, What: "Encode on the registered codec object differs from a fresh codec object after earlier calls with other parameters",
					Input: in, Expected: "identical bytes (" + woc[:2] + ")", Actual: oc[:2]})
				continue
			}
			if oc != "ok" {
				c.Count("param-history-rejected:" + sy.Name)
				continue
			}
			dgot, doc := c10Run(cd, false, i, got, nil)
			dwant, dwoc := c10Run(c10FreshCodec(pristine, sy.Name), false, i, want, nil)
			same = doc[:2] == dwoc[:2] && len(dgot) == len(dwant)
			for k := 0; same && k < len(dgot); k++ {
				same = bytes.Equal(dgot[k], dwant[k])
			}
			if !same {
				c10Fail(c, hx.Failure{Class: "c10-codec-object-param-history-dec-" + sy.Name, What: "Decode on the registered codec object differs from a fresh codec object after earlier calls with other parameters",
					Input: in, Expected: "identical bytes (" + dwoc[:2] + ")", Actual: doc[:2]})
			}
		}
	}
}

// c10SharedParamsObject: ONE parameters object carrying slice-valued and scaled settings is handed to a
// multi-frame Encode whose frames are byte-identical, and then to a second call. "Output frame i depends only on
// input frame i, the frame description and the parameters": equal frames must give equal outputs within the call
// and across calls, equal to what a fresh codec gives with a freshly built object, and the slices the caller put
// into the object must still hold the caller's values afterwards.
func c10SharedParamsObject(c *hx.Ctx, pristine map[string]reflect.Value) {
	reg := dcodec.GetGlobalRegistry()
	type setting struct {
		name string
		mk   func() any
	}
	groups := map[string][][]setting{
		"j2k91": {
			{{"numLevels", func() any { return 2 }}, {"subbandSteps", func() any { return []float64{1.5, 2, 2, 2.5, 3, 3, 3.5} }}, {"quantStepScale", func() any { return 1.5 }}},
			{{"numLevels", func() any { return 1 }}, {"subbandSteps", func() any { return []float64{0.75, 1.25, 1.25, 2} }}, {"quantStepScale", func() any { return 0.5 }}},
			{{"rateLevels", func() any { return []int{40, 20, 10} }}, {"rate", func() any { return 40 }}},
		},
		"j2k90": {
			{{"rateLevels", func() any { return []int{40, 20, 10} }}, {"rate", func() any { return 40 }}, {"numLayers", func() any { return 3 }}},
		},
	}
	groups["j2k93"] = groups["j2k91"]
	groups["j2k92"] = groups["j2k90"]
	for _, sy := range c10Syntaxes() {
		cd, ok := reg.GetCodec(sy.TS)
		gs := groups[sy.Name]
		if !ok || len(gs) == 0 || c10FreshCodec(pristine, sy.Name) == nil {
			continue
		}
		for gi, g := range gs {
			build := func() (dcodec.Parameters, []any) {
				p := c10FreshCodec(pristine, sy.Name).GetDefaultParameters()
				vals := []any{}
				for _, st := range g {
					v := st.mk()
					p.SetParameter(st.name, v)
					vals = append(vals, v)
				}
				return p, vals
			}
			for _, i := range []c10Info{{16, 12, 1, 8, 8}, {9, 7, 3, 8, 8}, {16, 12, 1, 16, 12}} {
				f := c10Frame(c.R, i, gi)
				shared, held := build()
				desc := []string{}
				for _, st := range g {
					desc = append(desc, fmt.Sprintf("%s=%v", st.name, st.mk()))
				}
				in := map[string]any{"ts": sy.Name, "info": i.String(), "params": desc, "seed": c.Seed, "frame_hex": hx.Hex(f)}
				freshP, _ := build()
				want, woc := c10Run(c10FreshCodec(pristine, sy.Name), true, i, [][]byte{f}, freshP)
				for call := 0; call < 2; call++ {
					got, oc := c10Run(cd, true, i, [][]byte{f, f, f}, shared)
					c.Eval(fmt.Sprintf("shared-params|%s|%d|%s|%d", sy.Name, gi, i.String(), call), true)
					c.Count("shared-params")
					if oc[:2] != woc[:2] {
						c10Fail(c, hx.Failure{Class: "c10-shared-params-object-" + sy.Name, What: "Encode with a shared parameters object and a fresh codec with a fresh equal object disagree on the outcome",
							Input: in, Expected: woc, Actual: oc})
						break
					}
					if oc != "ok" {
						c.Count("shared-params-rejected:" + sy.Name)
						break
					}
					bad := -1
					for k := range got {
						if len(want) != 1 || !bytes.Equal(got[k], want[0]) {
							bad = k
							break
						}
					}
					if bad >= 0 {
						in["call"], in["frame"] = call, bad
						c10Fail(c, hx.Failure{Class: "c10-shared-params-object-" + sy.Name, What: "identical frames encoded with one parameters object give different bytes (frame index or earlier call matters)",
							Input: in, Expected: "every frame equal to the fresh single-frame encode", Actual: fmt.Sprintf("frame %d of call %d differs", bad, call)})
						break
					}
				}
				// the caller's own slices must still hold what the caller put there
				for k, st := range g {
					if !reflect.DeepEqual(held[k], st.mk()) {
						in["setting"] = st.name
						c10Fail(c, hx.Failure{Class: "c10-shared-params-object-" + sy.Name, What: "Encode modified a slice the caller placed in the parameters object",
							Input: in, Expected: fmt.Sprint(st.mk()), Actual: fmt.Sprint(held[k])})
					}
				}
			}
		}
	}
}

// c10DecLenCase: one correspondence line for the frame-length model.
func c10DecLenCase(c *hx.Ctx, sy c10Syntax, cd dcodec.Codec, i c10Info) {
	f := c10Frame(c.R, i, 1)
	enc, oc := c10Run(cd, true, i, [][]byte{f}, nil)
	real := ""
	switch {
	case oc == "ok" && len(enc) == 1:
		dec, doc := c10Run(cd, false, i, enc, nil)
		if doc == "ok" && len(dec) == 1 {
			real = fmt.Sprintf("ok %d", len(dec[0]))
		} else {
			// the decoder failing on the codec's own output is content dependent (C02/C03/C06 defects): the
			// length model says nothing about it; the sequence evaluation reports it
			c.Count("declen-skipped-decode-failure")
			return
		}
	case oc == "err":
		real = "err" // the adapter rejects this FrameInfo: a function of the FrameInfo, modelled
	default:
		real = "panic"
	}
	c.Case(fmt.Sprintf("c10-declen %s %d %d %d %d %d", sy.Kind, i.W, i.H, i.SPP, i.BA, i.BS), real)
}

// ---------------------------------------------------------------- deep hashing / field access (shared with C18)

type c10Hasher struct {
	buf  bytes.Buffer
	seen map[uintptr]bool
}

func c10DeepHash(v reflect.Value) [32]byte {
	h := &c10Hasher{seen: map[uintptr]bool{}}
	h.walk(v, 0)
	return sha256.Sum256(h.buf.Bytes())
}

func (h *c10Hasher) u64(x uint64) { _ = binary.Write(&h.buf, binary.LittleEndian, x) }

func (h *c10Hasher) walk(v reflect.Value, depth int) {
	if !v.IsValid() {
		h.buf.WriteByte(0)
		return
	}
	h.buf.WriteByte(byte(v.Kind()))
	if depth > 64 {
		return
	}
	switch v.Kind() {
	case reflect.Bool:
		if v.Bool() {
			h.buf.WriteByte(1)
		} else {
			h.buf.WriteByte(0)
		}
	case reflect.Int, reflect.Int8, reflect.Int16, reflect.Int32, reflect.Int64:
		h.u64(uint64(v.Int()))
	case reflect.Uint, reflect.Uint8, reflect.Uint16, reflect.Uint32, reflect.Uint64, reflect.Uintptr:
		h.u64(v.Uint())
	case reflect.Float32, reflect.Float64:
		h.u64(math.Float64bits(v.Float()))
	case reflect.Complex64, reflect.Complex128:
		h.u64(math.Float64bits(real(v.Complex())))
		h.u64(math.Float64bits(imag(v.Complex())))
	case reflect.String:
		h.u64(uint64(v.Len()))
		h.buf.WriteString(v.String())
	case reflect.Array:
		for i := 0; i < v.Len(); i++ {
			h.walk(v.Index(i), depth+1)
		}
	case reflect.Slice:
		if v.IsNil() {
			h.buf.WriteByte(0xFE)
			return
		}
		h.u64(uint64(v.Len()))
		if v.Type().Elem().Kind() == reflect.Uint8 {
			for i := 0; i < v.Len(); i++ {
				h.buf.WriteByte(byte(v.Index(i).Uint()))
			}
			return
		}
		for i := 0; i < v.Len(); i++ {
			h.walk(v.Index(i), depth+1)
		}
	case reflect.Map:
		if v.IsNil() {
			h.buf.WriteByte(0xFE)
			return
		}
		var ents [][]byte
		it := v.MapRange()
		for it.Next() {
			sub := &c10Hasher{seen: h.seen}
			sub.walk(it.Key(), depth+1)
			sub.walk(it.Value(), depth+1)
			ents = append(ents, sub.buf.Bytes())
		}
		sort.Slice(ents, func(i, j int) bool { return bytes.Compare(ents[i], ents[j]) < 0 })
		h.u64(uint64(len(ents)))
		for _, e := range ents {
			h.buf.Write(e)
		}
	case reflect.Ptr:
		if v.IsNil() {
			h.buf.WriteByte(0xFE)
			return
		}
		p := v.Pointer()
		if h.seen[p] {
			h.buf.WriteByte(0xFD)
			return
		}
		h.seen[p] = true
		h.walk(v.Elem(), depth+1)
	case reflect.Interface:
		if v.IsNil() {
			h.buf.WriteByte(0xFE)
			return
		}
		h.buf.WriteString(v.Elem().Type().String())
		h.walk(v.Elem(), depth+1)
	case reflect.Struct:
		for i := 0; i < v.NumField(); i++ {
			h.walk(v.Field(i), depth+1)
		}
	case reflect.Func, reflect.Chan, reflect.UnsafePointer:
		if v.IsNil() {
			h.buf.WriteByte(0xFE)
		} else {
			h.buf.WriteByte(0xFC)
		}
	}
}

// c10Field gives a settable view of (possibly unexported) field name of the struct obj points to.
func c10Field(obj any, name string) reflect.Value {
	f := reflect.ValueOf(obj).Elem().FieldByName(name)
	return reflect.NewAt(f.Type(), unsafe.Pointer(f.UnsafeAddr())).Elem()
}

func c10FieldNames(obj any) []string {
	t := reflect.TypeOf(obj).Elem()
	var out []string
	for i := 0; i < t.NumField(); i++ {
		out = append(out, t.Field(i).Name)
	}
	return out
}

func c10FieldHashes(obj any) map[string][32]byte {
	out := map[string][32]byte{}
	for _, n := range c10FieldNames(obj) {
		out[n] = c10DeepHash(c10Field(obj, n))
	}
	return out
}

// ---------------------------------------------------------------- Encoder / Decoder objects

type c10ParamSet struct {
	Name string
	Make func() *jpeg2000.EncodeParams
	Info c10Info
}

func c10ParamSets() []c10ParamSet {
	w, h := 24, 20
	mk := func(spp, bd int, f func(p *jpeg2000.EncodeParams)) func() *jpeg2000.EncodeParams {
		return func() *jpeg2000.EncodeParams {
			p := jpeg2000.DefaultEncodeParams(w, h, spp, bd, false)
			p.NumLevels = 2
			f(p)
			return p
		}
	}
	ba := func(bd int) int {
		if bd <= 8 {
			return 8
		}
		return 16
	}
	ps := func(name string, spp, bd int, f func(p *jpeg2000.EncodeParams)) c10ParamSet {
		return c10ParamSet{name, mk(spp, bd, f), c10Info{w, h, spp, ba(bd), bd}}
	}
	binding := jpeg2000.NewMCTBinding().Assoc(2).Components([]uint16{0, 1}).
		Matrix([][]float64{{1, 0}, {0, 1}}).Inverse([][]float64{{1, 0}, {0, 1}}).
		Offsets([]int32{5, -5}).ElementType(1).MCOPrecision(1).Build()
	return []c10ParamSet{
		ps("plain-gray8", 1, 8, func(p *jpeg2000.EncodeParams) {}),
		ps("plain-gray12", 1, 12, func(p *jpeg2000.EncodeParams) {}),
		ps("rct-rgb8", 3, 8, func(p *jpeg2000.EncodeParams) {}),
		ps("nomct-rgb8", 3, 8, func(p *jpeg2000.EncodeParams) { p.EnableMCT = false }),
		ps("lossy-gray8", 1, 8, func(p *jpeg2000.EncodeParams) { p.Lossless = false; p.Quality = 70 }),
		ps("lossy-ict-rgb8", 3, 8, func(p *jpeg2000.EncodeParams) { p.Lossless = false; p.Quality = 70 }),
		ps("layers3-gray8", 1, 8, func(p *jpeg2000.EncodeParams) { p.NumLayers = 3 }),
		ps("tiled-gray8", 1, 8, func(p *jpeg2000.EncodeParams) { p.TileWidth, p.TileHeight = 16, 16 }),
		ps("roi-gray8", 1, 8, func(p *jpeg2000.EncodeParams) {
			p.ROI = &jpeg2000.ROIParams{X0: 4, Y0: 4, Width: 8, Height: 8, Shift: 3}
		}),
		ps("roiconfig-gray8", 1, 8, func(p *jpeg2000.EncodeParams) {
			p.ROIConfig = &jpeg2000.ROIConfig{DefaultShift: 3, DefaultStyle: jpeg2000.ROIStyleMaxShift,
				ROIs: []jpeg2000.ROIRegion{{ID: "a", Rect: &jpeg2000.ROIParams{X0: 2, Y0: 2, Width: 6, Height: 6}, Shift: 3}}}
		}),
		ps("mctbind-2c8", 2, 8, func(p *jpeg2000.EncodeParams) {
			p.NumLevels = 0
			p.MCTBindings = []jpeg2000.MCTBindingParams{binding}
		}),
		ps("custommct-rgb8", 3, 8, func(p *jpeg2000.EncodeParams) {
			p.MCTMatrix = [][]float64{{1, 0, 0}, {0, 1, 0}, {0, 0, 1}}
			p.InverseMCTMatrix = [][]float64{{1, 0, 0}, {0, 1, 0}, {0, 0, 1}}
			p.MCTOffsets = []int32{3, 0, -3}
			p.MCTReversible = true
		}),
		ps("htj2k-gray8", 1, 8, func(p *jpeg2000.EncodeParams) {
			p.HTJ2KMode = true
			p.ProgressionOrder = 2
			p.BlockEncoderFactory = func(w, h int) jpeg2000.BlockEncoder { return htj2k.NewHTEncoder(w, h) }
		}),
	}
}

var c10ObjModified bool // the last c10EncodeWith / c10DecodeWith call changed its (private copy of the) input

func c10EncodeWith(e *jpeg2000.Encoder, orig []byte) ([]byte, string) {
	var out []byte
	var err error
	f := append(make([]byte, 0, len(orig)+64), orig...)
	defer func() { c10ObjModified = !bytes.Equal(f[:len(orig)], orig) }()
	p, msg := hx.Guard(func() { out, err = e.Encode(f) })
	if p {
		return nil, "panic " + msg
	}
	if err != nil {
		return nil, "err"
	}
	return out, "ok"
}

func c10DecodeWith(d *jpeg2000.Decoder, orig []byte) ([]byte, string) {
	var out []byte
	var err error
	s := append(make([]byte, 0, len(orig)+64), orig...)
	defer func() { c10ObjModified = !bytes.Equal(s[:len(orig)], orig) }()
	p, msg := hx.Guard(func() {
		err = d.Decode(s)
		if err == nil {
			out = d.GetPixelData()
		}
	})
	if p {
		return nil, "panic " + msg
	}
	if err != nil {
		return nil, "err"
	}
	return out, "ok"
}

func c10HTFactory() t2.BlockDecoderFactory {
	return func(width, height int, _ int) t2.BlockDecoder { return htj2k.NewHTDecoder(width, height) }
}

func c10Objects(c *hx.Ctx) {
	sets := c10ParamSets()
	streams := map[string][][]byte{} // per param set: encoded frames A,B,C (fresh encoders)
	frames := map[string][][]byte{}
	// --- Encoder reuse
	for _, ps := range sets {
		fr := [][]byte{c10Frame(c.R, ps.Info, 0), c10Frame(c.R, ps.Info, 3), c10Frame(c.R, ps.Info, 5)}
		frames[ps.Name] = fr
		fresh := make([][]byte, len(fr))
		okAll := true
		for k, f := range fr {
			var oc string
			fresh[k], oc = c10EncodeWith(jpeg2000.NewEncoder(ps.Make()), f)
			if oc != "ok" {
				okAll = false
				c.Count("encoder-paramset-rejected:" + ps.Name)
			}
		}
		if !okAll {
			continue
		}
		streams[ps.Name] = fresh
		e := jpeg2000.NewEncoder(ps.Make())
		order := []int{0, 1, 0, 2, 1, 1, 0}
		in := map[string]any{"paramset": ps.Name, "order": order, "seed": c.Seed}
		for step, k := range order {
			out, oc := c10EncodeWith(e, fr[k])
			c.Eval(fmt.Sprintf("encoder-reuse|%s|%d", ps.Name, step), step > 0)
			c.Count("encoder-reuse")
			if oc != "ok" || !bytes.Equal(out, fresh[k]) {
				c10Fail(c, hx.Failure{Class: "c10-encoder-reuse-" + ps.Name, What: fmt.Sprintf("reused jpeg2000.Encoder: call %d (frame %d) differs from a fresh encoder", step, k),
					Input: in, Expected: "identical bytes", Actual: oc})
				break
			}
			if c10ObjModified {
				c10Fail(c, hx.Failure{Class: "c10-input-modified-encoder-" + ps.Name, What: "jpeg2000.Encoder.Encode modified its input", Input: in})
			}
		}
	}
	// --- Decoder reuse: decode stream X, then stream Y on the same object
	var names []string
	for n := range streams {
		names = append(names, n)
	}
	sort.Strings(names)
	newDec := func(n string) *jpeg2000.Decoder {
		d := jpeg2000.NewDecoder()
		if strings.HasPrefix(n, "htj2k") {
			d.SetBlockDecoderFactory(c10HTFactory())
		}
		return d
	}
	for _, first := range names {
		for _, second := range names {
			if strings.HasPrefix(first, "htj2k") != strings.HasPrefix(second, "htj2k") {
				continue // the block decoder factory is configuration of the object
			}
			sy := streams[second][1]
			want, woc := c10DecodeWith(newDec(second), sy)
			if woc != "ok" {
				c.Count("decoder-fresh-fails:" + second)
				continue
			}
			d := newDec(second)
			_, foc := c10DecodeWith(d, streams[first][0])
			if foc != "ok" {
				c.Count("decoder-first-fails:" + first)
			}
			got, goc := c10DecodeWith(d, sy)
			mod := c10ObjModified
			c.Eval("decoder-reuse|"+first+"|"+second, first != second)
			c.Count("decoder-reuse")
			if goc != "ok" || !bytes.Equal(got, want) {
				c10Fail(c, hx.Failure{Class: "c10-decoder-reuse-after-" + c10StreamKind(first), What: "reused jpeg2000.Decoder: second Decode differs from a fresh decoder",
					Input:    map[string]any{"first": first, "second": second, "seed": c.Seed},
					Expected: "identical bytes", Actual: goc})
			}
			if mod {
				c10Fail(c, hx.Failure{Class: "c10-input-modified-decoder-" + c10TileParts(second), What: "jpeg2000.Decoder.Decode modified its input", Input: map[string]any{"stream": second}})
			}
		}
	}
	c10FieldFacts(c, sets, frames, streams)
}

func c10TileParts(n string) string {
	if strings.HasPrefix(n, "htj2k") {
		return "multi-tilepart"
	}
	return "single-tilepart"
}

func c10StreamKind(n string) string {
	switch {
	case strings.HasPrefix(n, "mctbind"):
		return "mct-bindings"
	case strings.HasPrefix(n, "custommct"):
		return "custom-mct"
	case strings.HasPrefix(n, "roiconfig"):
		return "roi-com"
	case strings.HasPrefix(n, "roi"):
		return "roi-rgn"
	}
	return "plain"
}

// ---------------------------------------------------------------- the facts tie: dynamic field observations

func c10FieldFacts(c *hx.Ctx, sets []c10ParamSet, frames map[string][][]byte, streams map[string][][]byte) {
	encNames := c10FieldNames(jpeg2000.NewEncoder(sets[0].Make()))
	decNames := c10FieldNames(jpeg2000.NewDecoder())
	c.Case("fact-fields encoder", "ok "+strings.Join(encNames, ","))
	c.Case("fact-fields decoder", "ok "+strings.Join(decNames, ","))
	changed := map[string]bool{}
	sensitive := map[string]bool{}
	// Encoder: snapshot fields around Encode; perturb each field with (a) its zero value and (b) the value a
	// donor object holds after encoding another image with another parameter set, then Encode and compare.
	for si, ps := range sets {
		fr, ok := frames[ps.Name]
		if !ok || streams[ps.Name] == nil {
			continue
		}
		e := jpeg2000.NewEncoder(ps.Make())
		before := c10FieldHashes(e)
		c10EncodeWith(e, fr[0])
		after := c10FieldHashes(e)
		for _, n := range encNames {
			if before[n] != after[n] {
				changed["encoder."+n] = true
			}
		}
		want := streams[ps.Name][1]
		er := jpeg2000.NewEncoder(ps.Make())
		c10EncodeWith(er, fr[0])
		wantReuse, wroc := c10EncodeWith(er, fr[1])
		donorPS := sets[(si+1)%len(sets)]
		for _, n := range encNames {
			for variant := 0; variant < 3; variant++ {
				e2 := jpeg2000.NewEncoder(ps.Make())
				base, boc := want, "ok"
				switch variant {
				case 0: // state left by a previous call on the same object, field zeroed
					c10EncodeWith(e2, fr[0])
					f := c10Field(e2, n)
					f.Set(reflect.Zero(f.Type()))
					base, boc = wantReuse, wroc
				case 1: // state of a donor that encoded a different image with different parameters
					donor := jpeg2000.NewEncoder(donorPS.Make())
					if dfr, ok := frames[donorPS.Name]; ok {
						c10EncodeWith(donor, dfr[2])
					}
					c10Field(e2, n).Set(c10Field(donor, n))
				case 2: // same parameters, other image
					donor := jpeg2000.NewEncoder(ps.Make())
					c10EncodeWith(donor, fr[2])
					c10Field(e2, n).Set(c10Field(donor, n))
				}
				got, oc := c10EncodeWith(e2, fr[1])
				if oc[:2] != boc[:2] || !bytes.Equal(got, base) {
					sensitive["encoder."+n] = true
					c.Count(fmt.Sprintf("sensitive:encoder.%s", n))
				}
				c.Count("field-perturbation")
			}
		}
	}
	var names []string
	for n := range streams {
		names = append(names, n)
	}
	sort.Strings(names)
	for si, n1 := range names {
		mk := func() *jpeg2000.Decoder {
			d := jpeg2000.NewDecoder()
			if strings.HasPrefix(n1, "htj2k") {
				d.SetBlockDecoderFactory(c10HTFactory())
			}
			return d
		}
		d := mk()
		before := c10FieldHashes(d)
		c10DecodeWith(d, streams[n1][0])
		after := c10FieldHashes(d)
		for _, n := range decNames {
			if before[n] != after[n] {
				changed["decoder."+n] = true
			}
		}
		want, woc := c10DecodeWith(mk(), streams[n1][1])
		if woc != "ok" {
			continue
		}
		// baseline of the reuse scenario (same calls, no perturbation): a perturbation is judged against it
		dr := mk()
		c10DecodeWith(dr, streams[n1][0])
		wantReuse, wroc := c10DecodeWith(dr, streams[n1][1])
		donorName := names[(si+1)%len(names)]
		for _, n := range decNames {
			for variant := 0; variant < 2; variant++ {
				d2 := mk()
				base, boc := want, woc
				switch variant {
				case 0: // state left by a previous call on the same object, one field zeroed
					c10DecodeWith(d2, streams[n1][0])
					f := c10Field(d2, n)
					f.Set(reflect.Zero(f.Type()))
					base, boc = wantReuse, wroc
				case 1: // fresh object, one field taken from a donor that decoded another stream
					donor := jpeg2000.NewDecoder()
					if strings.HasPrefix(donorName, "htj2k") {
						donor.SetBlockDecoderFactory(c10HTFactory())
					}
					c10DecodeWith(donor, streams[donorName][2])
					c10Field(d2, n).Set(c10Field(donor, n))
				}
				got, oc := c10DecodeWith(d2, streams[n1][1])
				if oc[:2] != boc[:2] || !bytes.Equal(got, base) {
					sensitive["decoder."+n] = true
					c.Count(fmt.Sprintf("sensitive:decoder.%s", n))
				}
				c.Count("field-perturbation")
			}
		}
	}
	b := func(x bool) int {
		if x {
			return 1
		}
		return 0
	}
	// stationarity of the fields after the first call (the memo contract of the refinement theorems)
	moved := map[string]bool{}
	for _, ps := range sets {
		fr, ok := frames[ps.Name]
		if !ok || streams[ps.Name] == nil {
			continue
		}
		e := jpeg2000.NewEncoder(ps.Make())
		c10EncodeWith(e, fr[0])
		prev := c10FieldHashes(e)
		for _, k := range []int{1, 2, 0} {
			c10EncodeWith(e, fr[k])
			cur := c10FieldHashes(e)
			for _, n := range encNames {
				if cur[n] != prev[n] {
					moved["encoder."+n] = true
				}
			}
			prev = cur
		}
	}
	for _, n1 := range names {
		d := jpeg2000.NewDecoder()
		if strings.HasPrefix(n1, "htj2k") {
			d.SetBlockDecoderFactory(c10HTFactory())
		}
		if strings.HasPrefix(n1, "roi") {
			// a caller-provided ROI configuration: Decode normalises it in place (ROIConfig.Validate)
			d.SetROIConfig(&jpeg2000.ROIConfig{DefaultShift: 3, DefaultStyle: jpeg2000.ROIStyleMaxShift,
				ROIs: []jpeg2000.ROIRegion{{ID: "a", Rect: &jpeg2000.ROIParams{X0: 2, Y0: 2, Width: 6, Height: 6}, Shift: 3}}})
		}
		c10DecodeWith(d, streams[n1][0])
		prev := c10FieldHashes(d)
		for _, k := range []int{1, 2, 0} {
			c10DecodeWith(d, streams[n1][k])
			cur := c10FieldHashes(d)
			for _, n := range decNames {
				if cur[n] != prev[n] {
					moved["decoder."+n] = true
				}
			}
			prev = cur
		}
	}
	for _, n := range encNames {
		c.Case(fmt.Sprintf("fact-field-stationary encoder %s %d", n, b(moved["encoder."+n])), "ok")
	}
	for _, n := range decNames {
		c.Case(fmt.Sprintf("fact-field-stationary decoder %s %d", n, b(moved["decoder."+n])), "ok")
	}
	for _, n := range encNames {
		c.Case(fmt.Sprintf("fact-field encoder %s %d %d", n, b(changed["encoder."+n]), b(sensitive["encoder."+n])), "ok")
	}
	for _, n := range decNames {
		c.Case(fmt.Sprintf("fact-field decoder %s %d %d", n, b(changed["decoder."+n]), b(sensitive["decoder."+n])), "ok")
	}
	c.Sample(map[string]any{"fields_changed": len(changed), "fields_sensitive": len(sensitive)})
}
