package main

// C05 — the JPEG 2000 Lossless-Only transfer syntaxes (.90/.92) stay lossless under every accepted
// parameter object. Evaluated through the DICOM-level codecs: registry codec → Encode → Decode via PixelData.

import (
	"bytes"
	"fmt"

	"github.com/cocosip/go-dicom-codecs/codec"
	"github.com/cocosip/go-dicom-codecs/jpeg2000"
	j2klossless "github.com/cocosip/go-dicom-codecs/jpeg2000/lossless"
	"github.com/cocosip/go-dicom-codecs/jpeg2000/t2"
	"github.com/cocosip/go-dicom/pkg/dicom/transfer"
	dcodec "github.com/cocosip/go-dicom/pkg/imaging/codec"
	"github.com/cocosip/go-dicom/pkg/imaging/imagetypes"

	"verifharness/internal/hx"
)

type c05Par struct {
	Default    bool // nil parameters
	Generic    bool // generic codec.Parameters carrying the same keys
	NumLevels  int
	AllowMCT   bool
	Rate       int
	RateLevels []int
	Prog       int
	NumLayers  int
	Target     float64
	PCRD       bool
	Append     bool
}

type c05Case struct {
	W, H, BA, BS, SPP, PR int
	Frames                int
	Syntax                int // 90 or 92
	Par                   c05Par
}

func (k c05Case) String() string {
	return fmt.Sprintf("w=%d h=%d ba=%d bs=%d spp=%d pr=%d fr=%d ts=%d par=%+v", k.W, k.H, k.BA, k.BS, k.SPP, k.PR, k.Frames, k.Syntax, k.Par)
}

func (k c05Case) frameInfo() *imagetypes.FrameInfo {
	pi := "MONOCHROME2"
	if k.SPP == 3 {
		pi = "RGB"
	}
	return &imagetypes.FrameInfo{Width: uint16(k.W), Height: uint16(k.H), BitsAllocated: uint16(k.BA), BitsStored: uint16(k.BS),
		HighBit: uint16(k.BS - 1), SamplesPerPixel: uint16(k.SPP), PixelRepresentation: uint16(k.PR), PhotometricInterpretation: pi}
}

func (k c05Case) parameters() dcodec.Parameters {
	p := k.Par
	if p.Default {
		return nil
	}
	if p.Generic {
		g := dcodec.NewBaseParameters()
		g.SetParameter("numLevels", p.NumLevels)
		g.SetParameter("allowMCT", p.AllowMCT)
		g.SetParameter("rate", p.Rate)
		if p.RateLevels != nil {
			g.SetParameter("rateLevels", p.RateLevels)
		}
		g.SetParameter("progressionOrder", p.Prog)
		g.SetParameter("numLayers", p.NumLayers)
		g.SetParameter("targetRatio", p.Target)
		g.SetParameter("usePCRDOpt", p.PCRD)
		g.SetParameter("appendLosslessLayer", p.Append)
		return g
	}
	q := j2klossless.NewLosslessParameters()
	q.NumLevels, q.AllowMCT, q.Rate, q.RateLevels = p.NumLevels, p.AllowMCT, p.Rate, p.RateLevels
	q.ProgressionOrder, q.NumLayers, q.TargetRatio, q.UsePCRDOpt, q.AppendLosslessLayer = uint8(p.Prog), p.NumLayers, p.Target, p.PCRD, p.Append
	return q
}

func (k c05Case) inScope() bool {
	p := k.Par
	if p.Default {
		return true
	}
	// a generic bag always carries the "rate" key (genericParams sets it), so it asks for exactly what the typed
	// object with the same values asks for: the scope is decided from the REQUEST, never from the library's own
	// extraction rule (mirroring that rule here hid the "rate": 0 defect, fixed by 21bcf21)
	return p.Append || (p.Rate == 0 && p.Target == 0)
}

func (k c05Case) input(frames [][]byte) map[string]any {
	m := map[string]any{"width": k.W, "height": k.H, "bitsAllocated": k.BA, "bitsStored": k.BS, "samplesPerPixel": k.SPP,
		"pixelRepresentation": k.PR, "frames": k.Frames, "syntax": k.Syntax, "default": k.Par.Default, "generic": k.Par.Generic,
		"numLevels": k.Par.NumLevels, "allowMCT": k.Par.AllowMCT, "rate": k.Par.Rate, "rateLevels": k.Par.RateLevels,
		"progression": k.Par.Prog, "numLayers": k.Par.NumLayers, "targetRatio": k.Par.Target, "usePCRDOpt": k.Par.PCRD,
		"appendLosslessLayer": k.Par.Append}
	if len(frames) > 0 && len(frames[0]) <= 2048 {
		hs := []string{}
		for _, f := range frames {
			hs = append(hs, hx.Hex(f))
		}
		m["frames_hex"] = hs
	}
	return m
}

func c05Codec(syntax int) dcodec.Codec {
	ts := transfer.JPEG2000Lossless
	if syntax == 92 {
		ts = transfer.JPEG2000Part2MultiComponentLosslessOnly
	}
	cd, ok := dcodec.GetGlobalRegistry().GetCodec(ts)
	if !ok {
		if syntax == 92 {
			return j2klossless.NewPart2MultiComponentLosslessCodec()
		}
		return j2klossless.NewCodec()
	}
	return cd
}

// c05RoundTrip: codec.Encode then codec.Decode over PixelData; returns outcome and detail.
func c05RoundTrip(k c05Case, frames [][]byte) (string, string) {
	cd := c05Codec(k.Syntax)
	src := codec.NewTestPixelData(k.frameInfo())
	for _, f := range frames {
		_ = src.AddFrame(f)
	}
	enc := codec.NewTestPixelData(k.frameInfo())
	var err error
	p, msg := hx.Guard(func() { err = cd.Encode(src, enc, k.parameters()) })
	if p {
		return "enc-panic", msg
	}
	if err != nil {
		return "enc-err", err.Error()
	}
	dec := codec.NewTestPixelData(k.frameInfo())
	p, msg = hx.Guard(func() { err = cd.Decode(enc, dec, nil) })
	if p {
		return "dec-panic", msg
	}
	if err != nil {
		return "dec-err", err.Error()
	}
	if dec.FrameCount() != len(frames) {
		return "frames", fmt.Sprintf("decoded %d frames, want %d", dec.FrameCount(), len(frames))
	}
	for i, f := range frames {
		g, _ := dec.GetFrame(i)
		if !bytes.Equal(f, g) {
			nd, first := 0, -1
			for j := 0; j < len(f) && j < len(g); j++ {
				if f[j] != g[j] {
					nd++
					if first < 0 {
						first = j
					}
				}
			}
			return "mismatch", fmt.Sprintf("frame %d: len out=%d want=%d, %d differing bytes, first at %d", i, len(g), len(f), nd, first)
		}
	}
	return "ok", ""
}

func c05Frames(r *hx.Rand, k c05Case, kind int) ([][]byte, [][]int) {
	kc := c04Cfg{W: k.W, H: k.H, C: k.SPP, P: k.BS, Signed: k.PR != 0}
	var fs [][]byte
	var ss [][]int
	for i := 0; i < k.Frames; i++ {
		s := c04Samples(r, kc, kind)
		ss = append(ss, s)
		fs = append(fs, c04Container(kc, s))
	}
	return fs, ss
}

func c05Classify(k c05Case, frames [][]byte, ss [][]int, oc string) (string, string) {
	if k.PR != 0 && k.BS < 8 {
		neg := false
		for _, s := range ss {
			for _, v := range s {
				if v < 0 {
					neg = true
				}
			}
		}
		if neg {
			kc := c04Cfg{W: k.W, H: k.H, C: k.SPP, P: k.BS, Signed: true, SignExtendCont: true}
			var f2 [][]byte
			for _, s := range ss {
				f2 = append(f2, c04Container(kc, s))
			}
			// (b) alone suffices: with one layer and no rate target the property container fails while the 8-bit
			// two's complement container passes (compared modulo 2^BS: the decoder writes high bits zero)
			kb := k
			kb.Par = c05Par{NumLevels: 5, NumLayers: 1, AllowMCT: true}
			if oc0, _ := c05RoundTrip(kb, frames); oc0 != "ok" && c05RoundTripMasked(kb, f2) {
				return "j2k-signed-p-lt8-container", "signed samples with BitsStored<8 are read as 8-bit two's complement (sign taken from bit 7, not bit BitsStored-1)"
			}
		}
	}
	// remove the layering / rate ingredients one at a time
	k1 := k
	k1.Par.Default, k1.Par.Generic = false, false
	k1.Par.Rate, k1.Par.Target, k1.Par.NumLayers, k1.Par.Append, k1.Par.RateLevels = 0, 0, 1, false, nil
	if k.Par.Default {
		k1.Par.NumLevels, k1.Par.AllowMCT = 5, true
	}
	if oc1, _ := c05RoundTrip(k1, frames); oc1 == "ok" {
		// effective encoder parameters of the failing case
		if ep, err := j2klossless.VerifEncodeParams(k.frameInfo(), k.parameters()); err == nil && ep.NumLayers >= 2 {
			kc := c04Cfg{W: k.W, H: k.H, C: k.SPP, P: k.BS, Levels: ep.NumLevels, Layers: ep.NumLayers}
			if c04NonPrefixBands(kc) {
				return "j2k-multilayer-empty-band-decoder-state", c04MultilayerWhat
			}
		}
		return "j2k-lossless-syntax-layered-" + oc, "lossless-only syntax with >= 2 effective layers does not return the frame (same frame with one layer and no rate target does); no resolution has an empty band before a non-empty one"
	}
	return "j2k-lossless-syntax-other-" + oc, "lossless-only syntax round trip fails even with one layer and no rate target"
}

func c05RoundTripMasked(k c05Case, frames [][]byte) bool {
	cd := c05Codec(k.Syntax)
	src := codec.NewTestPixelData(k.frameInfo())
	for _, f := range frames {
		_ = src.AddFrame(f)
	}
	enc := codec.NewTestPixelData(k.frameInfo())
	dec := codec.NewTestPixelData(k.frameInfo())
	var err error
	p, _ := hx.Guard(func() {
		err = cd.Encode(src, enc, k.parameters())
		if err == nil {
			err = cd.Decode(enc, dec, nil)
		}
	})
	if p || err != nil || dec.FrameCount() != len(frames) {
		return false
	}
	mask := byte(1<<k.BS - 1)
	for i, f := range frames {
		g, _ := dec.GetFrame(i)
		if len(g) != len(f) {
			return false
		}
		for j := range f {
			if f[j]&mask != g[j]&mask {
				return false
			}
		}
	}
	return true
}

func c05Eval(c *hx.Ctx, k c05Case, kind int, tag string) {
	if !k.inScope() {
		c.Count("skipped-out-of-scope")
		return
	}
	frames, ss := c05Frames(c.R, k, kind)
	oc, detail := c05RoundTrip(k, frames)
	c.Eval(k.String()+"|"+hx.Hex(frames[0][:min(len(frames[0]), 64)]), k.W*k.H >= 4)
	c.Count("outcome:" + oc)
	c.Count(tag)
	c.Count(fmt.Sprintf("syntax=.%d", k.Syntax))
	c.Count(fmt.Sprintf("spp=%d", k.SPP))
	c.Count(fmt.Sprintf("ba=%d", k.BA))
	c.Count(fmt.Sprintf("pr=%d", k.PR))
	switch {
	case k.Par.Default:
		c.Count("params:default(nil)")
	case k.Par.Generic:
		c.Count("params:generic")
	default:
		c.Count("params:typed")
	}
	if !k.Par.Default {
		if k.Par.Append {
			c.Count("appendLossless=true")
		} else {
			c.Count("appendLossless=false(no rate target)")
		}
		if k.Par.Rate > 0 {
			c.Count("rate>0")
		}
		if k.Par.Target > 0 {
			c.Count("targetRatio>0")
		}
		if k.Par.PCRD {
			c.Count("usePCRDOpt")
		}
		c.Count(fmt.Sprintf("numLayers=%d", min(k.Par.NumLayers, 10)))
	}
	if k.W < 64 || k.H < 64 {
		c.Count("smaller-than-one-codeblock")
	}
	c05MonitorAllocation(c, k, frames[0])
	if oc == "ok" {
		return
	}
	class, what := c05Classify(k, frames, ss, oc)
	c04Fail(c, hx.Failure{Class: class, What: what, Input: k.input(frames),
		Expected: "every decoded frame == source frame byte for byte", Actual: oc + ": " + detail})
}

func c05RandPar(r *hx.Rand) c05Par {
	p := c05Par{NumLevels: r.Range(0, 6), AllowMCT: r.Bool(), Prog: r.Range(0, 4), NumLayers: r.Range(1, 10), PCRD: r.Bool()}
	switch r.Intn(10) {
	case 0:
		p.Default = true
		return p
	case 1, 2:
		p.Generic = true
	}
	p.Append = r.Intn(3) != 0
	if p.Append {
		switch r.Intn(4) {
		case 0:
			p.Rate = 0
		case 1:
			p.Rate = r.Pick([]int{1, 5, 10, 20, 40, 80, 160, 320, 640, 1280})
		default:
			p.Rate = r.Range(0, 1280)
		}
		if r.Intn(3) == 0 {
			p.Target = float64(r.Range(0, 100))
			if r.Bool() {
				p.Target += 0.5
			}
		}
		switch r.Intn(4) {
		case 0:
			p.RateLevels = nil
		case 1:
			p.RateLevels = []int{1280, 640, 320, 160, 80, 40, 20, 10, 5}
		default: // any descending ladder
			n := r.Range(1, 8)
			v := r.Range(200, 2000)
			for i := 0; i < n && v > 1; i++ {
				p.RateLevels = append(p.RateLevels, v)
				v = v / r.Range(2, 4)
			}
		}
	}
	return p
}

func init() { register("C05", c05Run) }

func c05Run(c *hx.Ctx) {
	c.Rule = "an evaluation = one registry-codec Encode→Decode over PixelData (1..3 frames) for an accepted in-scope parameter object, compared byte for byte; non-trivial when the frame has >= 4 pixels; distinct by (frame info, parameter object, first 64 content bytes)"
	r := c.R
	c05Correspondence(c)

	def := c05Par{Default: true}
	// defaults over sizes around and below one code-block, all depths
	for _, wh := range [][2]int{{1, 1}, {1, 2}, {2, 1}, {3, 3}, {1, 40}, {40, 1}, {7, 5}, {16, 16}, {63, 64}, {64, 64}, {65, 65}, {31, 80}} {
		for _, bs := range []int{2, 5, 8, 9, 12, 16} {
			ba := 8
			if bs > 8 {
				ba = 16
			}
			for _, spp := range []int{1, 3} {
				k := c05Case{W: wh[0], H: wh[1], BA: ba, BS: bs, SPP: spp, PR: 0, Frames: 1, Syntax: 90, Par: def}
				c05Eval(c, k, 0, "defaults-size-depth")
			}
		}
	}
	// signed depth sweep with defaults and with no rate target (defect (b) lives here)
	for bs := 2; bs <= 16; bs++ {
		ba := 8
		if bs > 8 {
			ba = 16
		}
		k := c05Case{W: 9, H: 6, BA: ba, BS: bs, SPP: 1, PR: 1, Frames: 1, Syntax: 90, Par: c05Par{NumLevels: 2, NumLayers: 1, AllowMCT: true}}
		c05Eval(c, k, 1, "signed-depth-sweep")
		k.Par = def
		k.Syntax = 92
		c05Eval(c, k, 0, "signed-depth-sweep")
	}
	// no-rate-target multi-layer (defect (a) lives here): Rate=0, TargetRatio=0, AppendLosslessLayer true/false
	for ly := 1; ly <= 10; ly++ {
		for _, ap := range []bool{false, true} {
			for _, pcrd := range []bool{false, true} {
				k := c05Case{W: 33, H: 21, BA: 8, BS: 8, SPP: 1, PR: 0, Frames: 1, Syntax: 90,
					Par: c05Par{NumLevels: 3, NumLayers: ly, AllowMCT: true, Append: ap, PCRD: pcrd, Prog: ly % 5}}
				c05Eval(c, k, 0, "no-rate-layers")
			}
		}
	}
	// rate ladder x frame sizes (budget zero/negative on small images)
	for _, rate := range []int{1, 5, 20, 100, 640, 1280} {
		for _, wh := range [][2]int{{1, 1}, {4, 4}, {17, 3}, {40, 40}, {100, 60}} {
			k := c05Case{W: wh[0], H: wh[1], BA: 16, BS: 12, SPP: 1, PR: 0, Frames: 1, Syntax: 90,
				Par: c05Par{NumLevels: 5, NumLayers: 1, AllowMCT: true, Append: true, Rate: rate, RateLevels: []int{1280, 640, 320, 160, 80, 40, 20, 10, 5}}}
			c05Eval(c, k, 0, "rate-ladder")
		}
	}
	// Rate at and above the top of the ladder (layersFromRateLevels = 1: the extra lossless layer must still be
	// added), and explicit NumLayers below the ladder length with an active rate ladder (LayerRates longer than
	// NumLayers: the last layer must still be made lossless)
	ladder := []int{1280, 640, 320, 160, 80, 40, 20, 10, 5}
	for _, rate := range []int{1279, 1280, 1281, 2000, 5000} {
		for _, lv := range [][]int{ladder, {100, 50, 10}, nil} {
			for _, wh := range [][2]int{{24, 24}, {64, 48}, {7, 90}} {
				for _, generic := range []bool{false, true} {
					k := c05Case{W: wh[0], H: wh[1], BA: 8, BS: 8, SPP: 1, PR: 0, Frames: 1, Syntax: 90,
						Par: c05Par{Generic: generic, NumLevels: 3, NumLayers: 1, AllowMCT: true, Append: true, Rate: rate, RateLevels: lv, PCRD: rate%2 == 0}}
					c05Eval(c, k, 0, "rate-at-or-above-ladder-top")
				}
			}
		}
	}
	for nl := 2; nl <= 6; nl++ {
		for _, rate := range []int{1, 5, 20, 100} {
			for _, wh := range [][2]int{{32, 32}, {80, 60}, {5, 70}} {
				k := c05Case{W: wh[0], H: wh[1], BA: 16, BS: 12, SPP: []int{1, 3}[nl%2], PR: 0, Frames: 1, Syntax: []int{90, 92}[rate%2],
					Par: c05Par{NumLevels: 4, NumLayers: nl, AllowMCT: true, Append: true, Rate: rate, RateLevels: ladder, PCRD: nl%2 == 0, Prog: nl % 5}}
				c05Eval(c, k, 0, "explicit-layers-below-ladder")
			}
		}
	}
	n := 500
	maxW, maxH := 40, 80
	if c.Thorough() {
		n = 9000
	}
	for i := 0; i < n; i++ {
		bs := r.Range(2, 16)
		ba := 8
		if bs > 8 {
			ba = 16
		}
		k := c05Case{W: r.Range(1, maxW), H: r.Range(1, maxH), BA: ba, BS: bs, SPP: r.Pick([]int{1, 1, 3}), PR: r.Pick([]int{0, 0, 0, 1}),
			Frames: r.Pick([]int{1, 1, 1, 2, 3}), Syntax: r.Pick([]int{90, 92}), Par: c05RandPar(r)}
		c05Eval(c, k, []int{0, 0, 0, 1, 4, 3}[r.Intn(6)], "random")
	}
	if c.Thorough() {
		for i := 0; i < 40; i++ {
			bs := r.Range(2, 16)
			ba := 8
			if bs > 8 {
				ba = 16
			}
			k := c05Case{W: r.Range(41, 600), H: r.Range(81, 600), BA: ba, BS: bs, SPP: r.Pick([]int{1, 3}), PR: r.Intn(2), Frames: 1, Syntax: 90, Par: c05RandPar(r)}
			c05Eval(c, k, 0, "random-large")
		}
	}
}

// c05MonitorAllocation checks, on the real code, the contract the finalize model assumes of the allocators and
// the conclusion of `last_layer_carries_all_passes`: per code-block the cumulative pass counts are
// non-decreasing, the last layer has every pass, and the layer slices add up to the block's bytes.
func c05MonitorAllocation(c *hx.Ctx, k c05Case, frame []byte) {
	ep, err := j2klossless.VerifEncodeParams(k.frameInfo(), k.parameters())
	if err != nil || (ep.NumLayers <= 1 && ep.TargetRatio <= 0) {
		return
	}
	var blocks []*t2.PrecinctCodeBlock
	if p, _ := hx.Guard(func() { blocks, err = jpeg2000.VerifRDBlocks(ep, frame) }); p || err != nil {
		c.Count("monitor:skipped")
		return
	}
	for _, b := range blocks {
		if len(b.Passes) == 0 || b.LayerPasses == nil {
			continue
		}
		c.Count("monitor:blocks")
		bad := ""
		sum := 0
		for l := range b.LayerPasses {
			if l > 0 && b.LayerPasses[l] < b.LayerPasses[l-1] {
				bad = "pass counts decrease"
			}
			if l < len(b.LayerData) {
				sum += len(b.LayerData[l])
			}
		}
		last := b.Passes[len(b.Passes)-1]
		full := last.Rate
		if full == 0 {
			full = last.ActualBytes
		}
		if full > len(b.CompleteData) {
			full = len(b.CompleteData)
		}
		if b.LayerPasses[len(b.LayerPasses)-1] != len(b.Passes) {
			bad = "last layer does not have every pass"
		} else if sum != full {
			bad = fmt.Sprintf("layer slices add up to %d bytes, block has %d", sum, full)
		}
		if bad != "" {
			c04Fail(c, hx.Failure{Class: "j2k-layer-allocation-contract", What: "allocator/finalize contract violated: " + bad,
				Input: k.input([][]byte{frame}), Expected: "monotone cumulative pass counts, last = all, slices contiguous",
				Actual: fmt.Sprintf("LayerPasses=%v passes=%d", b.LayerPasses, len(b.Passes))})
			return
		}
	}
}
