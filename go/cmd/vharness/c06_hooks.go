package main

// C06 correspondence lines that need the `verif` hook files proposed under hooks/jpeg2000/** .

import (
	"fmt"

	"github.com/cocosip/go-dicom-codecs/jpeg2000"
	"github.com/cocosip/go-dicom-codecs/jpeg2000/htj2k"
	"github.com/cocosip/go-dicom-codecs/jpeg2000/t2"

	"verifharness/internal/hx"
)

// c06MelHook: state of the cleanup pass's MEL writer (ojphMELWriter) after the symbols.
func c06MelHook(c *hx.Ctx, bs []int) {
	bb := make([]bool, len(bs))
	for i, b := range bs {
		bb[i] = b != 0
	}
	var st htj2k.VerifOJPHMELWriterState
	p, _ := hx.Guard(func() { st = htj2k.VerifOJPHMELEncode(bb) })
	if p {
		c.Case("ojph-mel-enc "+c06Bits(bs), "panic")
		return
	}
	c.Case("ojph-mel-enc "+c06Bits(bs), fmt.Sprintf("ok %s %d %d %d %d %d", hx.Hex(st.Buf), st.Tmp, st.RemainingBits, st.Run, st.K, st.Threshold))
}

func c06Kernels(c *hx.Ctx) {
	// calculateMaxLevels: every (w,h) in 0..130 on a band, plus powers of two ±1 and large values
	probe := []int{-3, 0, 1, 2, 3, 4, 5, 7, 8, 9, 15, 16, 17, 31, 32, 33, 63, 64, 65, 127, 128, 129, 255, 256, 257, 600, 65535, 1 << 20}
	for _, w := range probe {
		for _, h := range probe {
			c.Case(fmt.Sprintf("htj2k-maxlevels %d %d", w, h), fmt.Sprintf("ok %d", htj2k.VerifCalculateMaxLevels(w, h)))
		}
	}
	for w := 1; w <= 130; w++ {
		c.Case(fmt.Sprintf("htj2k-maxlevels %d %d", w, 1000), fmt.Sprintf("ok %d", htj2k.VerifCalculateMaxLevels(w, 1000)))
	}
	c.Count("kernel:maxlevels")
	// nearestPowerOf2 on the parameter domain
	for n := -1; n <= 1100; n++ {
		if n > 70 && n%37 != 0 && n != 1023 && n != 1024 && n != 1025 {
			continue
		}
		c.Case(fmt.Sprintf("htj2k-nearestpow2 %d", n), fmt.Sprintf("ok %d", htj2k.VerifNearestPowerOf2(n)))
	}
	// Kmax: encoder side (quantizationInfo → bandNumbps → codeBlockPassLayout → SetKMax/ZeroBitPlanes) vs
	// decoder side (QCD bytes → bandNumbpsFromQCD → htj2kMissingMSBs), for every (levels, res, band, depth, comps)
	for nl := 0; nl <= 6; nl++ {
		for _, bd := range []int{1, 2, 7, 8, 9, 12, 15, 16} {
			for _, comps := range []int{1, 3} {
				// the SPqcd bytes exactly as writeQCD emits them for this encoder: uint8(expn<<3) per band, Sqcd = guard<<5
				var spqcd []byte
				var guard int
				for res := 0; res <= nl; res++ {
					bands := []int{1, 2, 3}
					if res == 0 {
						bands = []int{0}
					}
					for _, b := range bands {
						_, g, ex := jpeg2000.VerifHTBandNumbps(nl, bd, comps, res, b)
						guard = g
						_ = guard
						spqcd = append(spqcd, uint8(ex<<3))
					}
				}
				for res := -1; res <= nl+1; res++ {
					for band := 0; band <= 4; band++ {
						bnb, g, ex := jpeg2000.VerifHTBandNumbps(nl, bd, comps, res, band)
						dn, dok := t2.VerifBandNumbpsFromQCD(uint8(g<<5), spqcd, nl, res, band)
						okv := 0
						if dok {
							okv = 1
						}
						_, zbp := jpeg2000.VerifCodeBlockPassLayout(true, 1, bnb)
						mm := t2.VerifHTJ2KMissingMSBs(true, zbp, dn)
						c.Case(fmt.Sprintf("htj2k-kmax %d %d %d %d %d", nl, bd, comps, res, band),
							fmt.Sprintf("ok %d %d %d %d %d %d %d", bnb, dn, okv, zbp, mm, g, ex))
						c.Case(fmt.Sprintf("htj2k-subband %d %d %d", nl, res, band), fmt.Sprintf("ok %d %d", jpeg2000.VerifSubbandIndex(nl, res, band), t2.VerifSubbandIndex(nl, res, band)))
						c.Count("kernel:kmax")
						// the agreement itself, on the real code: a band that exists has the same Kmax on both sides,
						// and the decoder's p = 30 - missingMSBs equals the encoder's p = 30 - (kmax-1)
						if jpeg2000.VerifSubbandIndex(nl, res, band) >= 0 {
							c.Eval(fmt.Sprintf("kmax %d %d %d %d %d", nl, bd, comps, res, band), true)
							wantMM := bnb - 1
							if wantMM < 0 {
								wantMM = 0
							}
							if !dok || dn != bnb || mm != wantMM {
								c.Fail(hx.Failure{Class: "htj2k-kmax-disagree", What: "encoder and decoder derive different band precision / missing MSBs",
									Input:    map[string]any{"numLevels": nl, "bitDepth": bd, "components": comps, "res": res, "band": band},
									Expected: fmt.Sprintf("bandNumbps=%d missingMSBs=%d", bnb, bnb-1), Actual: fmt.Sprintf("bandNumbps=%d ok=%v missingMSBs=%d", dn, dok, mm)})
							}
						}
					}
				}
			}
		}
	}
	// codeBlockPassLayout, both branches
	for _, ht := range []bool{false, true} {
		for cb := 0; cb <= 34; cb++ {
			for bn := -1; bn <= 34; bn++ {
				np, z := jpeg2000.VerifCodeBlockPassLayout(ht, cb, bn)
				h := 0
				if ht {
					h = 1
				}
				c.Case(fmt.Sprintf("htj2k-passlayout %d %d %d", h, cb, bn), fmt.Sprintf("ok %d %d", np, z))
			}
		}
	}
	// htj2kMissingMSBs
	for _, set := range []bool{false, true} {
		for z := 0; z <= 32; z += 3 {
			for bn := -2; bn <= 33; bn += 5 {
				s := 0
				if set {
					s = 1
				}
				c.Case(fmt.Sprintf("htj2k-missingmsbs %d %d %d", s, z, bn), fmt.Sprintf("ok %d", t2.VerifHTJ2KMissingMSBs(set, z, bn)))
			}
		}
	}
	// MelE table and the UVLC code of the encoder
	for k := 0; k < 13; k++ {
		c.Case(fmt.Sprintf("htj2k-mele %d", k), fmt.Sprintf("ok %d", htj2k.MelE[k]))
	}
	for code := -1; code <= 80; code++ {
		e := htj2k.VerifOJPHUVLC(code)
		c.Case(fmt.Sprintf("htj2k-uvlc %d", code), fmt.Sprintf("ok %d %d %d %d %d %d", e[0], e[1], e[2], e[3], e[4], e[5]))
	}
	// U-VLC decode tables as generateUVLCTables built them (exported package variables) vs the Lean model of the loops
	for i := 0; i < len(htj2k.UVLCTbl0); i++ {
		c.Case(fmt.Sprintf("htj2k-uvlctbl 0 %d", i), fmt.Sprintf("ok %d", uint16(htj2k.UVLCTbl0[i])))
	}
	for i := 0; i < len(htj2k.UVLCTbl1); i++ {
		c.Case(fmt.Sprintf("htj2k-uvlctbl 1 %d", i), fmt.Sprintf("ok %d", uint16(htj2k.UVLCTbl1[i])))
	}
	c.Count("kernel:uvlc-tables")
	// the pair layouts of ojphEncodeInitialUVLC / ojphEncodeNonInitialUVLC rebuilt from the real ojphUVLC (hook):
	// LSB-first concatenation of (cwd, len) in the order of the vlc.encode calls in openjph_cleanup_encoder.go
	cat := func(parts [][2]int) (int, int) {
		v, l := 0, 0
		for _, p := range parts {
			v |= (p[0] & ((1 << uint(p[1])) - 1)) << uint(l)
			l += p[1]
		}
		return v, l
	}
	for u0 := 0; u0 <= 32; u0++ {
		for u1 := 0; u1 <= 32; u1++ {
			// initial
			var v, l int
			switch {
			case u0 > 2 && u1 > 2:
				a, b := htj2k.VerifOJPHUVLC(u0-2), htj2k.VerifOJPHUVLC(u1-2)
				v, l = cat([][2]int{{a[0], a[1]}, {b[0], b[1]}, {a[2], a[3]}, {b[2], b[3]}})
			case u0 > 2 && u1 > 0:
				a := htj2k.VerifOJPHUVLC(u0)
				v, l = cat([][2]int{{a[0], a[1]}, {u1 - 1, 1}, {a[2], a[3]}})
			default:
				a, b := htj2k.VerifOJPHUVLC(u0), htj2k.VerifOJPHUVLC(u1)
				v, l = cat([][2]int{{a[0], a[1]}, {b[0], b[1]}, {a[2], a[3]}, {b[2], b[3]}})
			}
			c.Case(fmt.Sprintf("htj2k-uvlc-pair 1 %d %d", u0, u1), fmt.Sprintf("ok %d %d", v, l))
			a, b := htj2k.VerifOJPHUVLC(u0), htj2k.VerifOJPHUVLC(u1)
			v, l = cat([][2]int{{a[0], a[1]}, {b[0], b[1]}, {a[2], a[3]}, {b[2], b[3]}})
			c.Case(fmt.Sprintf("htj2k-uvlc-pair 0 %d %d", u0, u1), fmt.Sprintf("ok %d %d", v, l))
		}
	}
	// VLC source tables as the package holds them at run time (AST literal vs evaluated package must agree)
	for ti, tb := range [][]htj2k.VLCEntry{htj2k.VLCTbl0, htj2k.VLCTbl1} {
		c.Case(fmt.Sprintf("htj2k-vlctbl-len %d", ti), fmt.Sprintf("ok %d", len(tb)))
		for i, e := range tb {
			c.Case(fmt.Sprintf("htj2k-vlctbl %d %d", ti, i), fmt.Sprintf("ok %d %d %d %d %d %d %d", e.CQ, e.Rho, e.UOff, e.EK, e.E1, e.Cwd, e.CwdLen))
		}
	}
}
