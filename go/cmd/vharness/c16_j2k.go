package main

// C16 — independent STRICT walker for JPEG 2000 Part 1 / Part 15 codestreams, written from
// ISO/IEC 15444-1 Annex A (A.2 marker ranges, A.3 construction of the codestream, A.4.1 SOC,
// A.4.2 SOT incl. Psot/TPsot/TNsot, A.4.3 SOD, A.4.4 EOC, A.5.1 SIZ, A.6.1 COD, A.6.4 QCD,
// A.7.1 TLM, A.9.2 COM) and 15444-15 A.3 (CAP, Rsiz bit 14, HT bit 6 of the code-block style).
// Packet headers and code-block bodies are not decoded; they are only required to contain no byte
// pair in the marker range FF90..FFFF and not to end on FF (A.1/B.10.1, D.5).

import "fmt"

type c16TilePart struct {
	Isot, Psot, TPsot, TNsot int
	Start                    int // offset of the SOT marker
	HdrLen                   int // bytes between the SOT segment and SOD
	Body                     []byte
}

type c16TLMEntry struct{ T, P int }

type c16J2k struct {
	Rsiz                                                   int
	Xsiz, Ysiz, XOsiz, YOsiz, XTsiz, YTsiz, XTOsiz, YTOsiz int
	Csiz                                                   int
	Ssiz, XRsiz, YRsiz                                     []int
	HasCAP                                                 bool
	Pcap                                                   int
	Ccap                                                   []int
	Scod, Prog, Layers, MCT, Levels, Xcb, Ycb, CbStyle     int
	Transform                                              int
	Precincts                                              []int
	Sqcd                                                   int
	SPqcd                                                  []int // exponent bytes (style 0) or 16-bit steps
	HasTLM                                                 bool
	Stlm                                                   int
	TLM                                                    []c16TLMEntry
	TLMStart, TLMEnd                                       int
	MainOrder                                              []int
	MainEnd                                                int // offset of the first SOT
	Parts                                                  []c16TilePart
	NumTiles                                               int
}

func c16be16(d []byte, p int) int { return int(d[p])<<8 | int(d[p+1]) }
func c16be32(d []byte, p int) int {
	return int(d[p])<<24 | int(d[p+1])<<16 | int(d[p+2])<<8 | int(d[p+3])
}

func c16ParseJ2K(d []byte) (*c16J2k, *c16Err) {
	j := &c16J2k{}
	n := len(d)
	if n < 4 || d[0] != 0xFF || d[1] != 0x4F {
		return nil, c16E("no-soc", "codestream does not start with SOC")
	}
	if d[2] != 0xFF || d[3] != 0x51 {
		return nil, c16E("no-siz", "SIZ is not the first marker segment")
	}
	pos := 2
	seen := map[int]int{}
	first := true
	for {
		if pos+2 > n {
			return nil, c16E("truncated", "end of data in the main header at %d", pos)
		}
		if d[pos] != 0xFF {
			return nil, c16E("no-marker", "expected a marker at %d, found %02x", pos, d[pos])
		}
		m := int(d[pos+1])
		if m == 0x90 {
			break
		}
		mpos := pos
		if pos+4 > n {
			return nil, c16E("truncated", "no length field at %d", pos)
		}
		L := c16be16(d, pos+2)
		if L < 2 || pos+2+L > n {
			return nil, c16E("seg-length", "segment ff%02x at %d: length %d", m, pos, L)
		}
		pl := d[pos+4 : pos+2+L]
		pos += 2 + L
		seen[m]++
		j.MainOrder = append(j.MainOrder, m)
		switch m {
		case 0x51: // SIZ, A.5.1
			if !first {
				return nil, c16E("siz", "second SIZ at %d", mpos)
			}
			if len(pl) < 36 {
				return nil, c16E("seg-length", "Lsiz=%d", L)
			}
			j.Rsiz = c16be16(pl, 0)
			j.Xsiz, j.Ysiz, j.XOsiz, j.YOsiz = c16be32(pl, 2), c16be32(pl, 6), c16be32(pl, 10), c16be32(pl, 14)
			j.XTsiz, j.YTsiz, j.XTOsiz, j.YTOsiz = c16be32(pl, 18), c16be32(pl, 22), c16be32(pl, 26), c16be32(pl, 30)
			j.Csiz = c16be16(pl, 34)
			if L != 38+3*j.Csiz {
				return nil, c16E("seg-length", "Lsiz=%d but Csiz=%d", L, j.Csiz)
			}
			if j.Csiz < 1 || j.Csiz > 16384 {
				return nil, c16E("siz", "Csiz=%d", j.Csiz)
			}
			if j.Xsiz < 1 || j.Ysiz < 1 || j.XTsiz < 1 || j.YTsiz < 1 {
				return nil, c16E("siz-zero-dim", "Xsiz=%d Ysiz=%d XTsiz=%d YTsiz=%d", j.Xsiz, j.Ysiz, j.XTsiz, j.YTsiz)
			}
			if j.XOsiz >= j.Xsiz || j.YOsiz >= j.Ysiz || j.XTOsiz > j.XOsiz || j.YTOsiz > j.YOsiz ||
				j.XTOsiz+j.XTsiz <= j.XOsiz || j.YTOsiz+j.YTsiz <= j.YOsiz {
				return nil, c16E("siz", "offsets inconsistent")
			}
			for c := 0; c < j.Csiz; c++ {
				s, xr, yr := int(pl[36+3*c]), int(pl[37+3*c]), int(pl[38+3*c])
				if s&0x7F > 37 || xr < 1 || yr < 1 {
					return nil, c16E("siz", "component %d: Ssiz=%02x XRsiz=%d YRsiz=%d", c, s, xr, yr)
				}
				j.Ssiz, j.XRsiz, j.YRsiz = append(j.Ssiz, s), append(j.XRsiz, xr), append(j.YRsiz, yr)
			}
			nx := (j.Xsiz - j.XTOsiz + j.XTsiz - 1) / j.XTsiz
			ny := (j.Ysiz - j.YTOsiz + j.YTsiz - 1) / j.YTsiz
			j.NumTiles = nx * ny
			if j.NumTiles > 65535 {
				return nil, c16E("siz", "%d tiles", j.NumTiles)
			}
		case 0x50: // CAP (15444-15 A.3 / 15444-1 A.5.2)
			if len(j.MainOrder) != 2 {
				return nil, c16E("cap", "CAP is not directly after SIZ")
			}
			if len(pl) < 4 {
				return nil, c16E("seg-length", "Lcap=%d", L)
			}
			j.HasCAP = true
			j.Pcap = c16be32(pl, 0)
			cnt := 0
			for b := 0; b < 32; b++ {
				if j.Pcap>>uint(b)&1 == 1 {
					cnt++
				}
			}
			if len(pl) != 4+2*cnt {
				return nil, c16E("seg-length", "Lcap=%d with %d Ccap entries announced by Pcap", L, cnt)
			}
			for k := 0; k < cnt; k++ {
				j.Ccap = append(j.Ccap, c16be16(pl, 4+2*k))
			}
		case 0x52: // COD, A.6.1
			if seen[m] > 1 {
				return nil, c16E("cod", "second COD in the main header")
			}
			if len(pl) < 10 {
				return nil, c16E("seg-length", "Lcod=%d", L)
			}
			j.Scod, j.Prog, j.Layers, j.MCT = int(pl[0]), int(pl[1]), c16be16(pl, 2), int(pl[4])
			j.Levels, j.Xcb, j.Ycb, j.CbStyle, j.Transform = int(pl[5]), int(pl[6]), int(pl[7]), int(pl[8]), int(pl[9])
			want := 10
			if j.Scod&1 == 1 {
				want += j.Levels + 1
			}
			if len(pl) != want {
				return nil, c16E("seg-length", "Lcod=%d, expected %d for Scod=%d and %d levels", L, want+2, j.Scod, j.Levels)
			}
			if j.Scod > 7 || j.Prog > 4 || j.Layers < 1 || j.MCT > 1 || j.Levels > 32 ||
				j.Xcb > 8 || j.Ycb > 8 || j.Xcb+j.Ycb > 8 || j.Transform > 1 || j.CbStyle&0x80 != 0 {
				return nil, c16E("cod", "Scod=%d prog=%d layers=%d mct=%d levels=%d xcb=%d ycb=%d style=%02x transform=%d",
					j.Scod, j.Prog, j.Layers, j.MCT, j.Levels, j.Xcb, j.Ycb, j.CbStyle, j.Transform)
			}
			for k := 10; k < len(pl); k++ {
				j.Precincts = append(j.Precincts, int(pl[k]))
				if k > 10 && (pl[k]&15 == 0 || pl[k]>>4 == 0) {
					return nil, c16E("cod", "precinct exponent 0 at resolution %d", k-10)
				}
			}
		case 0x5C: // QCD, A.6.4
			if seen[m] > 1 {
				return nil, c16E("qcd", "second QCD in the main header")
			}
			if len(pl) < 1 {
				return nil, c16E("seg-length", "Lqcd=%d", L)
			}
			j.Sqcd = int(pl[0])
			switch j.Sqcd & 0x1F {
			case 0:
				for _, b := range pl[1:] {
					if b&7 != 0 {
						return nil, c16E("qcd", "reserved bits set in SPqcd %02x", b)
					}
					j.SPqcd = append(j.SPqcd, int(b))
				}
			case 1, 2:
				if (len(pl)-1)%2 != 0 {
					return nil, c16E("seg-length", "Lqcd=%d", L)
				}
				for k := 1; k+1 < len(pl); k += 2 {
					j.SPqcd = append(j.SPqcd, c16be16(pl, k))
				}
			default:
				return nil, c16E("qcd", "quantisation style %d", j.Sqcd&0x1F)
			}
		case 0x55: // TLM, A.7.1
			if len(pl) < 2 {
				return nil, c16E("seg-length", "Ltlm=%d", L)
			}
			if seen[m] != int(pl[0])+1 {
				return nil, c16E("tlm", "Ztlm=%d for TLM number %d", pl[0], seen[m])
			}
			j.HasTLM = true
			if seen[m] == 1 {
				j.TLMStart = mpos
			}
			j.TLMEnd = pos
			j.Stlm = int(pl[1])
			st, sp := int(pl[1]>>4)&3, int(pl[1]>>6)&1
			if pl[1]&0x8F != 0 || st == 3 {
				return nil, c16E("tlm", "Stlm=%02x", pl[1])
			}
			es := st + 2 + 2*sp
			if (len(pl)-2)%es != 0 {
				return nil, c16E("seg-length", "Ltlm=%d is not 4 + k*%d", L, es)
			}
			for k := 2; k < len(pl); k += es {
				e := c16TLMEntry{T: -1}
				switch st {
				case 1:
					e.T = int(pl[k])
				case 2:
					e.T = c16be16(pl, k)
				}
				if sp == 1 {
					e.P = c16be32(pl, k+st)
				} else {
					e.P = c16be16(pl, k+st)
				}
				j.TLM = append(j.TLM, e)
			}
		case 0x64: // COM, A.9.2
			if len(pl) < 2 || c16be16(pl, 0) > 1 {
				return nil, c16E("com", "Lcom=%d", L)
			}
		case 0x53, 0x5D, 0x5E, 0x5F, 0x57, 0x60, 0x63, 0x59, 0x74, 0x75, 0x77, 0x78:
			// COC QCC RGN POC PLM PPM CRG CPF MCT MCC MCO CBD: length-delimited, not interpreted here
		default:
			return nil, c16E("bad-marker", "unexpected marker ff%02x at %d in the main header", m, mpos)
		}
		first = false
	}
	j.MainEnd = pos
	if seen[0x52] != 1 || seen[0x5C] != 1 {
		return nil, c16E("missing-segment", "COD×%d QCD×%d in the main header", seen[0x52], seen[0x5C])
	}
	// QCD length against COD levels (Table A.27) and the transform it belongs to
	nb := 3*j.Levels + 1
	switch j.Sqcd & 0x1F {
	case 0:
		if len(j.SPqcd) != nb {
			return nil, c16E("qcd-count", "%d SPqcd entries for %d decomposition levels", len(j.SPqcd), j.Levels)
		}
		if j.Transform != 1 {
			return nil, c16E("qcd", "no-quantisation style with the 9-7 transform")
		}
	case 1:
		if len(j.SPqcd) != 1 {
			return nil, c16E("qcd-count", "%d SPqcd entries for the derived style", len(j.SPqcd))
		}
	case 2:
		if len(j.SPqcd) != nb {
			return nil, c16E("qcd-count", "%d SPqcd entries for %d decomposition levels", len(j.SPqcd), j.Levels)
		}
	}
	if j.Sqcd&0x1F != 0 && j.Transform == 1 {
		return nil, c16E("qcd", "quantised style with the reversible 5-3 transform")
	}
	ht := j.Rsiz&0x4000 != 0
	if ht != j.HasCAP {
		return nil, c16E("cap", "Rsiz=%04x but CAP present=%v", j.Rsiz, j.HasCAP)
	}
	if j.CbStyle&0x40 != 0 && !(j.HasCAP && j.Pcap&0x00020000 != 0) {
		return nil, c16E("cap", "HT code-block style without the Part 15 capability bit")
	}

	// ---- tile-parts (A.4.2, A.3)
	count := map[int]int{}
	tn := map[int]int{}
	for {
		if pos+2 > n {
			return nil, c16E("no-eoc", "end of data where SOT or EOC was expected (%d)", pos)
		}
		if d[pos] == 0xFF && d[pos+1] == 0xD9 {
			if pos+2 != n {
				return nil, c16E("trailing-bytes", "%d bytes after EOC", n-pos-2)
			}
			break
		}
		if d[pos] != 0xFF || d[pos+1] != 0x90 {
			return nil, c16E("psot", "offset %d (reached by adding Psot) is neither SOT nor EOC: %02x%02x", pos, d[pos], d[pos+1])
		}
		if pos+12 > n {
			return nil, c16E("truncated", "SOT at %d", pos)
		}
		if c16be16(d, pos+2) != 10 {
			return nil, c16E("seg-length", "Lsot=%d", c16be16(d, pos+2))
		}
		tp := c16TilePart{Isot: c16be16(d, pos+4), Psot: c16be32(d, pos+6), TPsot: int(d[pos+10]), TNsot: int(d[pos+11]), Start: pos}
		if tp.Isot >= j.NumTiles {
			return nil, c16E("sot", "Isot=%d with %d tiles", tp.Isot, j.NumTiles)
		}
		if tp.TPsot != count[tp.Isot] {
			return nil, c16E("sot", "tile %d: TPsot=%d but %d tile-parts came before", tp.Isot, tp.TPsot, count[tp.Isot])
		}
		count[tp.Isot]++
		if tp.TNsot != 0 {
			if v, ok := tn[tp.Isot]; ok && v != tp.TNsot {
				return nil, c16E("sot", "tile %d: TNsot %d then %d", tp.Isot, v, tp.TNsot)
			}
			tn[tp.Isot] = tp.TNsot
			if tp.TPsot >= tp.TNsot {
				return nil, c16E("sot", "tile %d: TPsot=%d TNsot=%d", tp.Isot, tp.TPsot, tp.TNsot)
			}
		}
		end := pos + tp.Psot
		if tp.Psot == 0 { // only allowed for the last tile-part: it runs up to EOC
			end = n - 2
		} else if tp.Psot < 14 || end > n-2 {
			return nil, c16E("psot", "Psot=%d at %d (stream length %d)", tp.Psot, pos, n)
		}
		// tile-part header segments up to SOD
		q := pos + 12
		for {
			if q+2 > end {
				return nil, c16E("no-sod", "no SOD inside tile-part at %d", pos)
			}
			if d[q] != 0xFF {
				return nil, c16E("no-marker", "expected a marker at %d in a tile-part header", q)
			}
			m := int(d[q+1])
			if m == 0x93 {
				break
			}
			switch m {
			case 0x52, 0x53, 0x5C, 0x5D, 0x5E, 0x5F, 0x58, 0x61, 0x64:
			default:
				return nil, c16E("bad-marker", "marker ff%02x at %d in a tile-part header", m, q)
			}
			if q+4 > end {
				return nil, c16E("truncated", "tile-part header at %d", q)
			}
			L := c16be16(d, q+2)
			if L < 2 || q+2+L > end {
				return nil, c16E("seg-length", "segment ff%02x at %d: length %d", m, q, L)
			}
			q += 2 + L
		}
		tp.HdrLen = q - (pos + 12)
		tp.Body = d[q+2 : end]
		for k := 0; k+1 < len(tp.Body); k++ {
			if tp.Body[k] == 0xFF && tp.Body[k+1] >= 0x90 {
				return nil, c16E("marker-in-body", "ff%02x at %d inside the bit stream of tile %d part %d", tp.Body[k+1], q+2+k, tp.Isot, tp.TPsot)
			}
		}
		if len(tp.Body) > 0 && tp.Body[len(tp.Body)-1] == 0xFF {
			return nil, c16E("body-ends-ff", "bit stream of tile %d part %d ends on 0xFF", tp.Isot, tp.TPsot)
		}
		j.Parts = append(j.Parts, tp)
		pos = end
	}
	for t := 0; t < j.NumTiles; t++ {
		if count[t] == 0 {
			return nil, c16E("missing-tile", "tile %d has no tile-part", t)
		}
		if v, ok := tn[t]; ok && v != count[t] {
			return nil, c16E("sot", "tile %d: TNsot=%d but %d tile-parts present", t, v, count[t])
		}
	}
	// Σ Psot + main header + EOC = total (explicit, although the walk implies it)
	sum := j.MainEnd + 2
	for _, tp := range j.Parts {
		if tp.Psot == 0 {
			sum += n - 2 - tp.Start
		} else {
			sum += tp.Psot
		}
	}
	if sum != n {
		return nil, c16E("psot", "main header %d + Σ Psot + 2 = %d, stream has %d bytes", j.MainEnd, sum, n)
	}
	if j.HasTLM {
		if len(j.TLM) != len(j.Parts) {
			return nil, c16E("tlm", "%d TLM entries for %d tile-parts", len(j.TLM), len(j.Parts))
		}
		for k, e := range j.TLM {
			tp := j.Parts[k]
			if (e.T >= 0 && e.T != tp.Isot) || e.P != tp.Psot {
				return nil, c16E("tlm", "TLM entry %d = (%d,%d), tile-part is (%d,%d)", k, e.T, e.P, tp.Isot, tp.Psot)
			}
		}
	}
	return j, nil
}

func (j *c16J2k) summary() string {
	return fmt.Sprintf("%dx%d c=%d ssiz=%v tiles=%d parts=%d levels=%d layers=%d prog=%d tr=%d", j.Xsiz, j.Ysiz, j.Csiz, j.Ssiz, j.NumTiles, len(j.Parts), j.Levels, j.Layers, j.Prog, j.Transform)
}

// c16LenientJ2K splits a codestream WITHOUT trusting Psot: main-header segments by their length fields, then
// tile-parts from one `FF90 000A` to the next (or to the final EOC). It is used only to feed the correspondence
// op `c16-j2k-tiles` when the strict walk fails, so that a wrong Psot/TLM shows up as a model/code disagreement
// and not only as a search failure. (Bodies cannot contain FF90: that is what the strict walk checks.)
func c16LenientJ2K(d []byte) *c16J2k {
	j := &c16J2k{}
	n := len(d)
	if n < 6 || d[0] != 0xFF || d[1] != 0x4F {
		return nil
	}
	pos := 2
	for {
		if pos+4 > n || d[pos] != 0xFF {
			return nil
		}
		m := int(d[pos+1])
		if m == 0x90 {
			break
		}
		L := c16be16(d, pos+2)
		if L < 2 || pos+2+L > n {
			return nil
		}
		pl := d[pos+4 : pos+2+L]
		switch m {
		case 0x51:
			if len(pl) < 36 {
				return nil
			}
			j.Xsiz, j.Ysiz, j.XTsiz, j.YTsiz = c16be32(pl, 2), c16be32(pl, 6), c16be32(pl, 18), c16be32(pl, 22)
			if j.XTsiz < 1 || j.YTsiz < 1 {
				return nil
			}
			j.NumTiles = ((j.Xsiz + j.XTsiz - 1) / j.XTsiz) * ((j.Ysiz + j.YTsiz - 1) / j.YTsiz)
		case 0x5C:
			if len(pl) < 1 {
				return nil
			}
			j.Sqcd = int(pl[0])
			if j.Sqcd&0x1F == 0 {
				for _, b := range pl[1:] {
					j.SPqcd = append(j.SPqcd, int(b))
				}
			} else {
				for k := 1; k+1 < len(pl); k += 2 {
					j.SPqcd = append(j.SPqcd, c16be16(pl, k))
				}
			}
		case 0x55:
			if !j.HasTLM {
				j.TLMStart = pos
			}
			j.HasTLM = true
			j.TLMEnd = pos + 2 + L
		}
		pos += 2 + L
	}
	j.MainEnd = pos
	if n < pos+2 || d[n-2] != 0xFF || d[n-1] != 0xD9 {
		return nil
	}
	for pos < n-2 {
		if pos+14 > n || d[pos] != 0xFF || d[pos+1] != 0x90 {
			return nil
		}
		tp := c16TilePart{Isot: c16be16(d, pos+4), Psot: c16be32(d, pos+6), TPsot: int(d[pos+10]), TNsot: int(d[pos+11]), Start: pos}
		q := pos + 12
		for q+2 <= n && !(d[q] == 0xFF && d[q+1] == 0x93) {
			if q+4 > n || d[q] != 0xFF {
				return nil
			}
			q += 2 + c16be16(d, q+2)
		}
		if q+2 > n {
			return nil
		}
		tp.HdrLen = q - (pos + 12)
		end := q + 2
		for end < n-2 && !(end+4 <= n && d[end] == 0xFF && d[end+1] == 0x90 && d[end+2] == 0x00 && d[end+3] == 0x0A) {
			end++
		}
		tp.Body = d[q+2 : end]
		j.Parts = append(j.Parts, tp)
		pos = end
	}
	return j
}
