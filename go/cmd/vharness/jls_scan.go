package main

// Whole-scan correspondence (model: lean/GdcVerif/Model/JpegLsScan.lean):
//   jls-scan-enc mode comps P near width height pixels…  -> ok <entropy-coded segment of the real Encode>
//   jls-scan-dec <segment> mode comps P near width height -> ok <samples the real Decode returns>
// mode 0 = jpegls/lossless (NEAR = 0), mode 1 = jpegls/nearlossless: the four real line walks
// (two encoders, two decoders; ILV = 0 for one component, ILV = 2 for three) against one model.

import (
	"bytes"
	"fmt"

	"verifharness/internal/hx"
)

// jlsScanBytes cuts the entropy-coded segment out of a stream written by the library:
// everything after the SOS segment up to the final EOI marker.
func jlsScanBytes(stream []byte) []byte {
	i := bytes.Index(stream, []byte{0xFF, 0xDA})
	if i < 0 || i+4 > len(stream) {
		return nil
	}
	l := int(stream[i+2])<<8 | int(stream[i+3])
	start := i + 2 + l
	if start > len(stream)-2 {
		return nil
	}
	return stream[start : len(stream)-2]
}

func jlsScanCase(c *hx.Ctx, im jlsImage, mode, near int) {
	hdr := []int{mode, im.C, im.P, near, im.W, im.H}
	var stream []byte
	var oc string
	if mode == 0 {
		stream, oc = jlsEncLossless(im)
	} else {
		stream, oc = jlsEncNear(im, near)
	}
	res := jlsOc(oc)
	var scan []byte
	if oc == "ok" {
		scan = jlsScanBytes(stream)
		res = "ok " + hx.Hex(scan)
	}
	c.Case("jls-scan-enc"+jlsArgs(append(append([]int{}, hdr...), im.S...)), res)
	c.Case("jls-scanL-enc"+jlsArgs(append(append([]int{}, hdr...), im.S...)), res) // same answer expected from the list model
	c.Count(fmt.Sprintf("kernel:jls-scan-enc mode=%d comps=%d", mode, im.C))
	if oc != "ok" {
		return
	}
	var d jlsDecoded
	if mode == 0 {
		d, oc = jlsDecLossless(stream)
	} else {
		d, oc = jlsDecNear(stream)
	}
	res = jlsOc(oc)
	if oc == "ok" {
		res = jlsOK(d.S...)
	}
	c.Case("jls-scan-dec "+hx.Hex(scan)+jlsArgs(hdr), res)
	c.Case("jls-scanL-dec "+hx.Hex(scan)+jlsArgs(hdr), res)
	c.Count(fmt.Sprintf("kernel:jls-scan-dec mode=%d comps=%d", mode, im.C))
}

// jlsScans emits n rounds of whole-scan correspondence lines over small images of every content class.
func jlsScans(c *hx.Ctx, n int) {
	r := c.R
	for round := 0; round < n; round++ {
		mode := round % 2
		comps := r.Pick([]int{1, 1, 3})
		p, near := jlsPN(r)
		if mode == 0 {
			near = 0
		}
		kind := jlsKinds[round%len(jlsKinds)]
		w, h := r.Range(1, 14), r.Range(1, 8)
		switch r.Intn(8) {
		case 0:
			w = 1
		case 1:
			h = 1
		case 2:
			w = r.Range(20, 90)
			h = r.Range(1, 3)
		}
		jlsScanCase(c, jlsGen(r, kind, w, h, comps, p, near), mode, near)
	}
}
