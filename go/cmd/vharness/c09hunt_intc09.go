package main

// C09 — case families around five findings of independent bug hunters (integration package intc09).
//
// Every family is a set of hand-assembled streams (the hunter's witness first, then a seeded family varying the
// header fields that drive the cost), decoded by the SAME child-process engine and judged by the SAME oracle as the
// main C09 search (c09RunJobs / c09Violation: 10 s budget, peak heap ≤ 512 MiB + 64·S with S from the independently
// scanned first frame header; only inputs of at most 64 KiB with S ≤ 2^22).  What the parallel pass reports as over
// the budget is only a candidate: it is re-run alone, sequentially, in a fresh child, and only what fails again is a
// failure.  The CLASS of a failure is decided by a predicate on the INPUT (header fields), not by the outcome:
//
//   c09-j2k-levels-over-32                    COD/COC of the main header declares more than 32 decomposition levels
//   c09-time-j2k-per-component-overhead       (known) tile-parts x Csiz x (levels+1) ≥ 2^17 or Csiz ≥ 4096 — legal streams
//                                             whose time is per-(tile, component, resolution) bookkeeping; no MCT/MCC/MCO
//                                             segment at all, i.e. disjoint from c09-time-j2k-mct-stages (MctWork = 0)
//   c09-time-j2k-no-precinct-loop             LRCP/RLCP with every tile-component empty (no precinct anywhere)
//   c09-time-j2k-claimed-coding-passes        packet headers of one code-block claim ≥ 91 coding passes in total
//   c09-time-jpeg-extended-progressive-scans  first frame header is SOF2, decoded by jpeg/extended
//
// in this order; an input over the budget that satisfies none of them keeps the generic class of c09Violation.

import (
	"encoding/binary"
	"fmt"
	"sort"

	"verifharness/internal/hx"
)

func init() { registerExtra("C09", "intc09-hunt", c09hMain) }

const (
	c09hClassLevels   = "c09-j2k-levels-over-32"
	c09hClassOverhead = "c09-time-j2k-per-component-overhead"
	c09hClassNoPrec   = "c09-time-j2k-no-precinct-loop"
	c09hClassPasses   = "c09-time-j2k-claimed-coding-passes"
	c09hClassProg     = "c09-time-jpeg-extended-progressive-scans"
)

type c09hJob struct {
	job    c08Job
	family string
	// facts about the input the class predicates need and an independent scan cannot see (packet headers)
	claimedPasses int
	noPrecinct    bool
	solo          bool // expected to use up the budget on every tree (known class): run only once, alone
}

func c09hBe16(v int) []byte { return []byte{byte(v >> 8), byte(v)} }
func c09hBe32(v int) []byte { b := make([]byte, 4); binary.BigEndian.PutUint32(b, uint32(v)); return b }
func c09hSeg(m byte, p []byte) []byte {
	return append(append([]byte{0xFF, m}, c09hBe16(len(p)+2)...), p...)
}

// c09hJ2K: a JPEG 2000 codestream from its header fields; tiles[i] is the body of tile-part i (tile index i)
type c09hJ2K struct {
	Xsiz, Ysiz, XOsiz, YOsiz, XTsiz, YTsiz int
	Comps                                  int
	XR, YR                                 byte
	Prog                                   byte
	Layers, Levels                         int
	CocLevels                              int // > 0: a COC for component 0 declaring this many levels
	QcdExp                                 byte
	Tiles                                  [][]byte
}

func (s *c09hJ2K) bytes() []byte {
	out := []byte{0xFF, 0x4F}
	siz := c09hBe16(0)
	for _, v := range []int{s.Xsiz, s.Ysiz, s.XOsiz, s.YOsiz, s.XTsiz, s.YTsiz, 0, 0} {
		siz = append(siz, c09hBe32(v)...)
	}
	siz = append(siz, c09hBe16(s.Comps)...)
	for c := 0; c < s.Comps; c++ {
		siz = append(siz, 7, s.XR, s.YR)
	}
	out = append(out, c09hSeg(0x51, siz)...)
	out = append(out, c09hSeg(0x52, []byte{0, s.Prog, byte(s.Layers >> 8), byte(s.Layers), 0, byte(s.Levels), 4, 4, 0, 1})...)
	if s.CocLevels > 0 {
		coc := []byte{0}
		if s.Comps > 256 {
			coc = []byte{0, 0}
		}
		out = append(out, c09hSeg(0x53, append(coc, 0, byte(s.CocLevels), 4, 4, 0, 1))...)
	}
	q := []byte{0x40}
	for i := 0; i < 3*s.Levels+1; i++ {
		q = append(q, s.QcdExp<<3)
	}
	out = append(out, c09hSeg(0x5C, q)...)
	for t, body := range s.Tiles {
		sot := append(c09hBe16(t), c09hBe32(14+len(body))...)
		out = append(out, c09hSeg(0x90, append(sot, 0, 1))...)
		out = append(out, 0xFF, 0x93)
		out = append(out, body...)
	}
	return append(out, 0xFF, 0xD9)
}

// packet header bit writer (MSB first; the byte after 0xFF carries 7 bits)
type c09hBits struct {
	out []byte
	cur byte
	n   int
	cap int
}

func (b *c09hBits) bit(v int) {
	if b.cap == 0 {
		b.cap = 8
	}
	b.cur = b.cur<<1 | byte(v&1)
	b.n++
	if b.n == b.cap {
		b.flush()
	}
}
func (b *c09hBits) flush() {
	b.out = append(b.out, b.cur)
	b.cap = 8
	if b.cur == 0xFF {
		b.cap = 7
	}
	b.cur, b.n = 0, 0
}
func (b *c09hBits) bits(v, n int) {
	for i := n - 1; i >= 0; i-- {
		b.bit(v >> uint(i))
	}
}
func (b *c09hBits) finish() []byte {
	if b.n > 0 {
		b.cur <<= uint(b.cap - b.n)
		b.flush()
	}
	if len(b.out) > 0 && b.out[len(b.out)-1] == 0xFF {
		b.out = append(b.out, 0)
	}
	return b.out
}

func c09hPassBits(b *c09hBits, p int) (lenBitsExtra int) {
	switch {
	case p == 1:
		b.bit(0)
	case p == 2:
		b.bits(2, 2)
	case p <= 5:
		b.bits(3, 2)
		b.bits(p-3, 2)
	case p <= 36:
		b.bits(15, 4)
		b.bits(p-6, 5)
	default:
		b.bits(15, 4)
		b.bits(31, 5)
		b.bits(p-37, 7)
	}
	for k := p; k > 1; k >>= 1 {
		lenBitsExtra++
	}
	return
}

// c09hPassTile: tile data for ONE code-block (image = one code-block, 0 levels, 1 component, LRCP): packet of layer 0
// includes the block (0 missing bit-planes) with `passes` passes and `body`; every later packet includes it again with
// `passes` passes and 0 bytes.  Returns the data and the number of passes all headers claim together.
func c09hPassTile(passes, packets int, body []byte, maxLen int) ([]byte, int) {
	var td []byte
	claimed := 0
	for k := 0; k < packets; k++ {
		b := &c09hBits{}
		b.bit(1) // packet present
		b.bit(1) // inclusion tag tree: included in layer 0 / included again
		n := 0
		if k == 0 {
			b.bit(1) // zero-bit-plane tag tree: 0 missing bit-planes
			n = len(body)
		}
		extra := c09hPassBits(b, passes)
		b.bit(0) // Lblock increment 0: length in 3 + floor(log2 passes) bits
		b.bits(n, 3+extra)
		h := b.finish()
		if len(td)+len(h)+n > maxLen {
			break
		}
		td = append(td, h...)
		if k == 0 {
			td = append(td, body...)
		}
		claimed += passes
	}
	return td, claimed
}

// c09hProgressive: SOF2 stream of AC scans made of EOB runs (every scan touches every block with ~30 bits of data)
func c09hProgressive(w, h, maxLen int, ah, al byte, lead []byte) []byte {
	s := []byte{0xFF, 0xD8}
	s = append(s, lead...)
	s = append(s, 0xFF, 0xC2, 0, 11, 8, byte(h>>8), byte(h), byte(w>>8), byte(w), 1, 1, 0x11, 0)
	s = append(s, 0xFF, 0xC4, 0, 20, 0x10, 1, 0, 0, 0, 0, 0, 0, 0, 0, 0, 0, 0, 0, 0, 0, 0, 0xE0) // AC table 0: "0" = EOBRUN, 14 extra bits
	blocks := ((w + 7) / 8) * ((h + 7) / 8)
	scan := []byte{0xFF, 0xDA, 0, 8, 1, 1, 0x00, 1, 63, ah<<4 | al}
	var acc uint32
	n := 0
	put := func(v uint32, k int) {
		for i := k - 1; i >= 0; i-- {
			acc = acc<<1 | (v>>uint(i))&1
			n++
			if n == 8 {
				scan = append(scan, byte(acc))
				if byte(acc) == 0xFF {
					scan = append(scan, 0)
				}
				acc, n = 0, 0
			}
		}
	}
	for rem := blocks; rem > 0; {
		run := rem
		if run > 32767 {
			run = 32767
			if rem-run < 16384 {
				run = rem - 16384
			}
		}
		if run < 16384 { // small images: one EOB run of 2^k + bits would need another symbol; end the scan instead
			break
		}
		put(0, 1)
		put(uint32(run-16384), 14)
		rem -= run
	}
	for n != 0 {
		put(1, 1)
	}
	for len(s)+len(scan)+2 <= maxLen {
		s = append(s, scan...)
	}
	return append(s, 0xFF, 0xD9)
}

// ---- class predicates (independent scan of the header fields)

func c09hMaxLevels(b []byte) int {
	if len(b) < 42 || b[0] != 0xFF || b[1] != 0x4F || b[2] != 0xFF || b[3] != 0x51 {
		return -1
	}
	wide := c08Be16(b, 40) > 256
	lv := -1
	for _, sg := range c08ScanJ2K(b).Segs {
		p := -1
		switch sg.Marker {
		case 0x52:
			p = sg.Off + 9
		case 0x53:
			p = sg.Off + 6
			if wide {
				p++
			}
		case 0x90:
			return lv
		}
		if p >= 0 && p < len(b) && int(b[p]) > lv {
			lv = int(b[p])
		}
	}
	return lv
}

// tile-parts x Csiz x (levels+1) and Csiz
func c09hOverhead(b []byte) (int64, int64) {
	if len(b) < 42 || b[0] != 0xFF || b[1] != 0x4F || b[2] != 0xFF || b[3] != 0x51 {
		return 0, 0
	}
	csiz := int64(c08Be16(b, 40))
	tiles := int64(0)
	for _, sg := range c08ScanJ2K(b).Segs {
		if sg.Marker == 0x90 {
			tiles++
		}
	}
	if tiles == 0 {
		tiles = 1
	}
	lv := int64(c09hMaxLevels(b))
	if lv < 0 {
		lv = 0
	}
	return tiles * csiz * (lv + 1), csiz
}

// c09hFirstSOF: marker code of the first frame header a liberal marker walk reaches (stray bytes, fill bytes, stuffed
// zeros and RSTn are skipped, as libjpeg-style decoders do; every other segment is stepped over by its length), -1 if a
// scan or the end of the data comes first.  Written from T.81 B.1; c08ScanJPEG stops at a stray byte.
func c09hFirstSOF(b []byte) int {
	for i := 2; i+1 < len(b); {
		m := int(b[i+1])
		switch {
		case b[i] != 0xFF, m == 0xFF:
			i++
		case m == 0x00, m >= 0xD0 && m <= 0xD7:
			i += 2
		case m >= 0xC0 && m <= 0xCF && m != 0xC4 && m != 0xC8 && m != 0xCC:
			return m
		case m == 0xD9, m == 0xDA, i+3 >= len(b):
			return -1
		default:
			l := c08Be16(b, i+2)
			if l < 2 {
				return -1
			}
			i += 2 + l
		}
	}
	return -1
}

func c09hClass(h *c09hJob, generic string) string {
	b := h.job.Data
	switch c08Targets[h.job.Target].Family {
	case "j2k":
		if c09hMaxLevels(b) > 32 {
			return c09hClassLevels
		}
		if work, csiz := c09hOverhead(b); work >= 1<<17 || csiz >= 4096 {
			return c09hClassOverhead
		}
		if h.noPrecinct {
			return c09hClassNoPrec
		}
		if h.claimedPasses >= 91 {
			return c09hClassPasses
		}
	case "jpeg":
		if c09hFirstSOF(b) == 0xC2 && (c08Targets[h.job.Target].Name == "jpeg-extended" || c08Targets[h.job.Target].Name == "codec-jpeg-extended") {
			return c09hClassProg
		}
	}
	return generic
}

// ---- the families

func c09hBuild(c *hx.Ctx) []c09hJob {
	var out []c09hJob
	j2k := c08TargetIdx("j2k")
	add := func(h c09hJob, target int, fi [5]uint16, data []byte, family, base string) {
		if len(data) > 64<<10 {
			c.Count("intc09:skipped-over-64KiB:" + family)
			return
		}
		s := c08ScanFor(c08Targets[target].Family, data, fi).S
		if s > c09SMax {
			c.Count("intc09:skipped-S>2^22:" + family)
			return
		}
		h.job = c08Job{Target: target, FI: fi, Data: data, Origin: "intc09-" + family, Base: base, S: s, Measure: true}
		h.family = family
		out = append(out, h)
	}
	zero := [5]uint16{}
	thorough := c.Thorough()

	// (1) LRCP / RLCP over a tile without any precinct: XOsiz=1, Xsiz=2, XRsiz=2 makes every tile-component empty.
	noPrec := func(ncomp, layers, levels int, prog byte, body []byte, yAxis bool) ([]byte, string) {
		s := c09hJ2K{Xsiz: 2, Ysiz: 1, XOsiz: 1, XTsiz: 2, YTsiz: 1, Comps: ncomp, XR: 2, YR: 1, Prog: prog, Layers: layers, Levels: levels, QcdExp: 8, Tiles: [][]byte{body}}
		if yAxis {
			s.Xsiz, s.Ysiz, s.XOsiz, s.YOsiz, s.XTsiz, s.YTsiz, s.XR, s.YR = 1, 2, 0, 1, 1, 2, 1, 2
		}
		return s.bytes(), fmt.Sprintf("comps=%d layers=%d levels=%d prog=%d body=%d yAxis=%v", ncomp, layers, levels, prog, len(body), yAxis)
	}
	{
		d, base := noPrec(2048, 65535, 32, 0, nil, false) // the hunter's witness
		add(c09hJob{noPrecinct: true}, j2k, zero, d, "no-precinct", "witness "+base)
		d, base = noPrec(2048, 65535, 32, 1, nil, false)
		add(c09hJob{noPrecinct: true}, j2k, zero, d, "no-precinct", base)
		d, base = noPrec(1024, 65535, 32, 0, []byte{0x80, 0x00, 0x55}, true) // tile data left, still no packet to read it
		add(c09hJob{noPrecinct: true}, j2k, zero, d, "no-precinct", base)
		n := 5
		if thorough {
			n = 24
		}
		for k := 0; k < n; k++ {
			levels := c.R.Pick([]int{0, 1, 5, 16, 32})
			maxc := (1<<17)/(levels+1) - 1
			if maxc > 4095 {
				maxc = 4095
			}
			ncomp := c.R.Pick([]int{1, 16, 300, 1024, 2048, 4095})
			if ncomp > maxc {
				ncomp = maxc
			}
			layers := c.R.Pick([]int{1, 255, 4096, 65535})
			prog := byte(c.R.Intn(5))
			var body []byte
			if c.R.Intn(3) == 0 {
				body = c.R.Bytes(1 + c.R.Intn(40))
			}
			d, base := noPrec(ncomp, layers, levels, prog, body, c.R.Bool())
			add(c09hJob{noPrecinct: true}, j2k, zero, d, "no-precinct", base)
		}
		// control: component 0 is not empty (XRsiz = 1 for it), so a precinct exists and the old exit is reached
		s := c09hJ2K{Xsiz: 2, Ysiz: 1, XOsiz: 1, XTsiz: 2, YTsiz: 1, Comps: 512, XR: 2, YR: 1, Prog: 0, Layers: 65535, Levels: 5, QcdExp: 8, Tiles: [][]byte{nil}}
		d = s.bytes()
		d[43] = 1 // XRsiz of component 0
		add(c09hJob{}, j2k, zero, d, "no-precinct", "control: component 0 not empty")
	}

	// (2) packet headers claiming coding passes without end for one code-block
	passStream := func(side, passes, packets int, exp byte, body []byte, maxLen int) ([]byte, int, string) {
		td, claimed := c09hPassTile(passes, packets, body, maxLen)
		s := c09hJ2K{Xsiz: side, Ysiz: side, XTsiz: side, YTsiz: side, Comps: 1, XR: 1, YR: 1, Prog: 0, Layers: 65535, Levels: 0, QcdExp: exp, Tiles: [][]byte{td}}
		return s.bytes(), claimed, fmt.Sprintf("side=%d passes/packet=%d packets=%d claimed=%d exp=%d", side, passes, packets, claimed, exp)
	}
	{
		body := []byte{0x55, 0xaa, 0x13, 0x77, 0x01, 0x99, 0x42, 0x10}
		d, cl, base := passStream(64, 164, 1<<20, 8, body, 65000) // the hunter's witness
		add(c09hJob{claimedPasses: cl}, j2k, zero, d, "claimed-passes", "witness "+base)
		d, cl, base = passStream(64, 164, 1, 8, body, 65000) // one packet, 164 passes: 55 claimed bit-planes
		add(c09hJob{claimedPasses: cl}, j2k, zero, d, "claimed-passes", base)
		d, cl, base = passStream(64, 10, 9, 8, body, 65000) // 90 passes = 30 bit-planes + 2: the largest count that is decoded
		add(c09hJob{claimedPasses: cl}, j2k, zero, d, "claimed-passes", base)
		n := 5
		if thorough {
			n = 24
		}
		for k := 0; k < n; k++ {
			side := c.R.Pick([]int{4, 16, 32, 64})
			passes := c.R.Pick([]int{1, 2, 3, 5, 6, 36, 37, 100, 164})
			packets := c.R.Pick([]int{2, 30, 700, 6000, 1 << 20})
			exp := byte(c.R.Pick([]int{1, 8, 16, 31}))
			d, cl, base := passStream(side, passes, packets, exp, c.R.Bytes(1+c.R.Intn(30)), c.R.Pick([]int{2000, 20000, 65000}))
			add(c09hJob{claimedPasses: cl}, j2k, zero, d, "claimed-passes", base)
		}
	}

	// (3) more than 32 decomposition levels (COD, or a COC)
	levelStream := func(ncomp, levels, cocLevels int, prog byte, side int) ([]byte, string) {
		s := c09hJ2K{Xsiz: side, Ysiz: side, XTsiz: side, YTsiz: side, Comps: ncomp, XR: 1, YR: 1, Prog: prog, Layers: 1, Levels: levels, CocLevels: cocLevels, QcdExp: 8, Tiles: [][]byte{nil}}
		return s.bytes(), fmt.Sprintf("comps=%d levels=%d cocLevels=%d prog=%d side=%d", ncomp, levels, cocLevels, prog, side)
	}
	{
		d, base := levelStream(20000, 255, 0, 2, 1) // the hunter's witness (time and peak heap)
		add(c09hJob{}, j2k, zero, d, "levels", "witness "+base)
		d, base = levelStream(4096, 255, 0, 0, 1)
		add(c09hJob{}, j2k, zero, d, "levels", base)
		d, base = levelStream(16, 5, 255, 2, 8)
		add(c09hJob{}, j2k, zero, d, "levels", base)
		n := 4
		if thorough {
			n = 20
		}
		for k := 0; k < n; k++ {
			d, base := levelStream(c.R.Pick([]int{1, 3, 256, 1000, 3000}), c.R.Pick([]int{33, 34, 64, 128, 200, 255}), c.R.Pick([]int{0, 0, 40}), byte(c.R.Intn(5)), c.R.Pick([]int{1, 8, 33}))
			add(c09hJob{}, j2k, zero, d, "levels", base)
		}
		// controls at the legal maximum, outside the per-component-overhead predicate
		d, base = levelStream(256, 32, 0, 2, 1)
		add(c09hJob{}, j2k, zero, d, "levels", "control "+base)
		d, base = levelStream(3, 32, 32, 0, 8)
		add(c09hJob{}, j2k, zero, d, "levels", "control "+base)
	}

	// (4) progressive frames through the JPEG Extended decoder
	{
		ext, cext := c08TargetIdx("jpeg-extended"), c08TargetIdx("codec-jpeg-extended")
		d := c09hProgressive(3472, 1208, 64<<10, 1, 0, nil) // the hunter's witness
		add(c09hJob{}, ext, zero, d, "progressive-scans", "witness 3472x1208 refinement scans")
		add(c09hJob{}, cext, [5]uint16{3472, 1208, 8, 1, 0}, d, "progressive-scans", "witness 3472x1208 refinement scans (codec)")
		// the same behind bytes image/jpeg's marker walk skips: a stray byte, fill bytes, an APP segment
		add(c09hJob{}, ext, zero, c09hProgressive(3472, 1208, 64<<10, 1, 0, []byte{0x00}), "progressive-scans", "3472x1208, stray byte before SOF2")
		add(c09hJob{}, ext, zero, c09hProgressive(3472, 1208, 64<<10, 1, 0, []byte{0xFF, 0xFF, 0xFF, 0xE1, 0, 4, 0xFF, 0xC0}), "progressive-scans", "3472x1208, fill bytes and APP1 before SOF2")
		n := 3
		if thorough {
			n = 16
		}
		for k := 0; k < n; k++ {
			w := c.R.Pick([]int{1024, 2048, 3472, 4096})
			h := (1 << 22) / w
			if c.R.Bool() {
				h = h/2 + c.R.Intn(h/2)
			}
			ah := byte(c.R.Intn(3))
			al := byte(0)
			if ah > 0 {
				al = ah - 1
			}
			d := c09hProgressive(w, h, c.R.Pick([]int{4 << 10, 32 << 10, 64 << 10}), ah, al, nil)
			add(c09hJob{}, ext, zero, d, "progressive-scans", fmt.Sprintf("%dx%d ah=%d al=%d len=%d", w, h, ah, al, len(d)))
		}
	}

	// (5) per-tile-component bookkeeping (known class; legal streams: empty tile-parts, all samples zero)
	tileStream := func(side, ncomp, levels int) ([]byte, string) {
		s := c09hJ2K{Xsiz: side, Ysiz: side, XTsiz: 1, YTsiz: 1, Comps: ncomp, XR: 1, YR: 1, Prog: 2, Layers: 1, Levels: levels, QcdExp: 8, Tiles: make([][]byte, side*side)}
		return s.bytes(), fmt.Sprintf("tiles=%dx%d comps=%d levels=%d", side, side, ncomp, levels)
	}
	{
		d, base := tileStream(64, 1024, 5) // the hunter's witness: S = 2^22
		add(c09hJob{solo: true}, j2k, zero, d, "tile-component-overhead", "witness "+base)
		d, base = tileStream(8, 16, 5) // 768 tile-component-resolutions: far below the predicate, must be fast
		add(c09hJob{}, j2k, zero, d, "tile-component-overhead", "control "+base)
		d, base = tileStream(16, 64, 1)
		add(c09hJob{}, j2k, zero, d, "tile-component-overhead", "control "+base)
		if thorough {
			for _, p := range [][3]int{{32, 128, 5}, {64, 256, 5}, {48, 900, 0}, {20, 2000, 2}} {
				d, base := tileStream(p[0], p[1], p[2])
				add(c09hJob{}, j2k, zero, d, "tile-component-overhead", base)
			}
		}
	}
	return out
}

func c09hMain(c *hx.Ctx) {
	hs := c09hBuild(c)
	var par []int
	for i := range hs {
		if !hs[i].solo {
			par = append(par, i)
		}
	}
	res := make([]c08Res, len(hs))
	js := make([]c08Job, len(par))
	for k, i := range par {
		js[k] = hs[i].job
	}
	workers := c09Workers()
	if workers > len(js) {
		workers = len(js)
	}
	rs := c09RunJobs(js, workers)
	for k, i := range par {
		res[i] = rs[k]
	}
	// candidates: re-run alone, one after the other; at most 2 per class in the quick tier (4 in the thorough one), the
	// witness of a family first.  `solo` inputs get their only run here.
	type cand struct {
		i     int
		class string
	}
	var cands []cand
	for i := range hs {
		if hs[i].solo {
			cands = append(cands, cand{i, c09hClass(&hs[i], "")})
			continue
		}
		if g, _ := c09Violation(&hs[i].job, &res[i]); g != "" {
			cands = append(cands, cand{i, c09hClass(&hs[i], g)})
		}
	}
	sort.SliceStable(cands, func(a, b int) bool { return cands[a].class < cands[b].class })
	capPer := 2
	if c.Thorough() {
		capPer = 4
	}
	confirmed := map[int]bool{}
	perClass := map[string]int{}
	for _, cd := range cands {
		if perClass[cd.class] >= capPer {
			c.Count("intc09:unconfirmed-over-quota:" + cd.class)
			continue
		}
		perClass[cd.class]++
		r := c09RunJobs([]c08Job{hs[cd.i].job}, 1)[0]
		c.Count("intc09:sequential-re-run")
		if g, _ := c09Violation(&hs[cd.i].job, &r); g != "" {
			confirmed[cd.i] = true
			res[cd.i] = r
		} else {
			if !hs[cd.i].solo {
				c.Count("intc09:flaky-unconfirmed:" + cd.class)
			}
			res[cd.i] = r
		}
	}
	seen := map[string]int{}
	for i := range hs {
		h, r := &hs[i], &res[i]
		j := &h.job
		c.Count("intc09:family:" + h.family)
		c.Count("intc09:outcome:" + h.family + ":" + r.Outcome)
		c.Eval(fmt.Sprintf("%d|%v|%x", j.Target, j.FI, j.Data), true)
		if h.family == "tile-component-overhead" && c09J2KMctWork(j.Data) == 0 {
			c.Count("intc09:overhead-input-has-no-mct-work (disjoint from c09-time-j2k-mct-stages)")
		}
		if !confirmed[i] {
			continue
		}
		g, what := c09Violation(j, r)
		class := c09hClass(h, g)
		seen[class]++
		if seen[class] > 2 {
			c.Count("fail-more:" + class)
			continue
		}
		in := c08InputMap(j)
		in["family"] = h.family
		if h.claimedPasses > 0 {
			in["claimedPasses"] = h.claimedPasses
		}
		c.Fail(hx.Failure{Class: class, What: what + " [" + h.family + ": " + j.Base + "]", Input: in,
			Expected: fmt.Sprintf("return within %d s and peak heap ≤ %d bytes (S=%d)", c09WatchdogSec, c09Budget(j.S), j.S),
			Actual:   fmt.Sprintf("outcome=%s ns=%d alloc=%d peak=%d %s (confirmed by a sequential re-run in a fresh process)", r.Outcome, r.Ns, r.Alloc, r.Peak, r.Text)})
	}
}
