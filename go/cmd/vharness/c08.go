package main

// C08 — no decoder panics.  The search on the real code: corpora of small valid streams produced by
// the repository's own encoders (every codec, several geometry classes) plus the third-party
// fixtures under test-data, and mutation operators over them.  Every decode runs in a child
// process (see c09.go) under recover(); each distinct panic site becomes its own failure class
// `<package>.<function>-<kind>` with a minimised witness.

import (
	"bytes"
	"crypto/sha256"
	"encoding/binary"
	"encoding/hex"
	"encoding/json"
	"fmt"
	"os"
	"path/filepath"
	"sort"
	"strings"
	"time"

	"github.com/cocosip/go-dicom-codecs/codec"
	"github.com/cocosip/go-dicom-codecs/jpeg/baseline"
	"github.com/cocosip/go-dicom-codecs/jpeg/extended"
	jll "github.com/cocosip/go-dicom-codecs/jpeg/lossless"
	"github.com/cocosip/go-dicom-codecs/jpeg/lossless14sv1"
	"github.com/cocosip/go-dicom-codecs/jpeg2000"
	"github.com/cocosip/go-dicom-codecs/jpeg2000/htj2k"
	j2kll "github.com/cocosip/go-dicom-codecs/jpeg2000/lossless"
	j2kly "github.com/cocosip/go-dicom-codecs/jpeg2000/lossy"
	"github.com/cocosip/go-dicom-codecs/jpeg2000/t2"
	jlsll "github.com/cocosip/go-dicom-codecs/jpegls/lossless"
	jlsnl "github.com/cocosip/go-dicom-codecs/jpegls/nearlossless"
	"github.com/cocosip/go-dicom-codecs/rle"
	gdcodec "github.com/cocosip/go-dicom/pkg/imaging/codec"
	"github.com/cocosip/go-dicom/pkg/imaging/imagetypes"

	"verifharness/internal/hx"
)

// ------------------------------------------------------------------------------------ targets

type c08Target struct {
	Name   string
	Family string // jpeg | jls | j2k | rle
	Run    func(data []byte, fi [5]uint16) (desc string, err error)
}

func c08FrameInfo(fi [5]uint16) *imagetypes.FrameInfo {
	hb := fi[2] - 1
	return &imagetypes.FrameInfo{Width: fi[0], Height: fi[1], BitsAllocated: fi[2], BitsStored: fi[2], HighBit: hb,
		SamplesPerPixel: fi[3], PlanarConfiguration: fi[4]}
}

func c08CodecRun(mk func() gdcodec.Codec) func([]byte, [5]uint16) (string, error) {
	return func(data []byte, fi [5]uint16) (string, error) {
		c := mk()
		src := codec.NewTestPixelData(c08FrameInfo(fi))
		_ = src.AddFrame(data)
		dst := codec.NewTestPixelData(c08FrameInfo(fi))
		if err := c.Decode(src, dst, nil); err != nil {
			return "", err
		}
		f, _ := dst.GetFrame(0)
		return fmt.Sprintf("frame=%d", len(f)), nil
	}
}

func c08J2KRun(ht bool) func([]byte, [5]uint16) (string, error) {
	return func(data []byte, _ [5]uint16) (string, error) {
		d := jpeg2000.NewDecoder()
		if ht {
			d.SetBlockDecoderFactory(func(w, h int, _ int) t2.BlockDecoder { return htj2k.NewHTDecoder(w, h) })
		}
		if err := d.Decode(data); err != nil {
			return "", err
		}
		px := d.GetPixelData()
		return fmt.Sprintf("%dx%dx%d p%d len=%d", d.Width(), d.Height(), d.Components(), d.BitDepth(), len(px)), nil
	}
}

var c08Targets = []c08Target{
	{"jpeg-baseline", "jpeg", func(b []byte, _ [5]uint16) (string, error) {
		p, w, h, c, err := baseline.Decode(b)
		return fmt.Sprintf("%dx%dx%d len=%d", w, h, c, len(p)), err
	}},
	{"jpeg-extended", "jpeg", func(b []byte, _ [5]uint16) (string, error) {
		p, w, h, c, bd, err := extended.Decode(b)
		return fmt.Sprintf("%dx%dx%d p%d len=%d", w, h, c, bd, len(p)), err
	}},
	{"jpeg-lossless", "jpeg", func(b []byte, _ [5]uint16) (string, error) {
		p, w, h, c, bd, err := jll.Decode(b)
		return fmt.Sprintf("%dx%dx%d p%d len=%d", w, h, c, bd, len(p)), err
	}},
	{"jpeg-sv1", "jpeg", func(b []byte, _ [5]uint16) (string, error) {
		p, w, h, c, bd, err := lossless14sv1.Decode(b)
		return fmt.Sprintf("%dx%dx%d p%d len=%d", w, h, c, bd, len(p)), err
	}},
	{"jls-lossless", "jls", func(b []byte, _ [5]uint16) (string, error) {
		p, w, h, c, bd, err := jlsll.Decode(b)
		return fmt.Sprintf("%dx%dx%d p%d len=%d", w, h, c, bd, len(p)), err
	}},
	{"jls-near", "jls", func(b []byte, _ [5]uint16) (string, error) {
		p, w, h, c, bd, near, err := jlsnl.Decode(b)
		return fmt.Sprintf("%dx%dx%d p%d near=%d len=%d", w, h, c, bd, near, len(p)), err
	}},
	{"j2k", "j2k", c08J2KRun(false)},
	{"htj2k", "j2k", c08J2KRun(true)},
	{"rle-codec", "rle", c08CodecRun(func() gdcodec.Codec { return rle.NewRLECodec() })},
	{"codec-jpeg-baseline", "jpeg", c08CodecRun(func() gdcodec.Codec { return baseline.NewBaselineCodec(90) })},
	{"codec-jpeg-extended", "jpeg", c08CodecRun(func() gdcodec.Codec { return extended.NewExtendedCodec(12, 90) })},
	{"codec-jpeg-lossless", "jpeg", c08CodecRun(func() gdcodec.Codec { return jll.NewLosslessCodec(4) })},
	{"codec-jpeg-sv1", "jpeg", c08CodecRun(func() gdcodec.Codec { return lossless14sv1.NewLosslessSV1Codec() })},
	{"codec-jls-lossless", "jls", c08CodecRun(func() gdcodec.Codec { return jlsll.NewJPEGLSLosslessCodec() })},
	{"codec-jls-near", "jls", c08CodecRun(func() gdcodec.Codec { return jlsnl.NewJPEGLSNearLosslessCodec(2) })},
	{"codec-j2k-lossless", "j2k", c08CodecRun(func() gdcodec.Codec { return j2kll.NewCodec() })},
	{"codec-j2k-lossy", "j2k", c08CodecRun(func() gdcodec.Codec { return j2kly.NewCodec() })},
	{"codec-htj2k", "j2k", c08CodecRun(func() gdcodec.Codec { return htj2k.NewLosslessCodec() })},
	// same as rle-codec, answering the decoded frame (used by the rle-dec correspondence lines, which are
	// computed in child processes too: a decoder that loops forever must not hang the harness)
	{"rle-codec-hex", "rle", func(data []byte, fi [5]uint16) (string, error) {
		c := rle.NewRLECodec()
		src := codec.NewTestPixelData(c08FrameInfo(fi))
		_ = src.AddFrame(data)
		dst := codec.NewTestPixelData(c08FrameInfo(fi))
		if err := c.Decode(src, dst, nil); err != nil {
			return "", err
		}
		f, _ := dst.GetFrame(0)
		return hx.Hex(f), nil
	}},
}

func c08TargetIdx(name string) int {
	for i, t := range c08Targets {
		if t.Name == name {
			return i
		}
	}
	panic("no target " + name)
}

// c08CodecOf maps a package-level target to the registered DICOM codec wrapping it.
var c08CodecOf = map[string]string{
	"jpeg-baseline": "codec-jpeg-baseline", "jpeg-extended": "codec-jpeg-extended", "jpeg-lossless": "codec-jpeg-lossless",
	"jpeg-sv1": "codec-jpeg-sv1", "jls-lossless": "codec-jls-lossless", "jls-near": "codec-jls-near",
	"j2k": "codec-j2k-lossless", "htj2k": "codec-htj2k",
}

// ------------------------------------------------------------------------------------ independent header scan

type c08Seg struct {
	Off    int // offset of the 0xFF of the marker
	Marker int // second marker byte
	Len    int // value of the length field (0 when the marker has none)
	HasLen bool
}

type c08Scan struct {
	S      int64 // declared width*height*components of the FIRST frame header; -1 when none was found
	Ranges [][2]int // header byte ranges [lo,hi)
	Segs   []c08Seg
}

func (s *c08Scan) hdrLen() int {
	n := 0
	for _, r := range s.Ranges {
		n += r[1] - r[0]
	}
	return n
}

func c08Be16(b []byte, o int) int {
	if o+1 >= len(b) || o < 0 {
		return -1
	}
	return int(b[o])<<8 | int(b[o+1])
}
func c08Be32(b []byte, o int) int64 {
	if o+3 >= len(b) || o < 0 {
		return -1
	}
	return int64(b[o])<<24 | int64(b[o+1])<<16 | int64(b[o+2])<<8 | int64(b[o+3])
}

// c08ScanJPEG walks the marker segments of a JPEG / JPEG-LS stream up to the end of the first SOS header.
// Written from T.81 B.1 / T.87 C.1, shares nothing with the repository.
func c08ScanJPEG(b []byte) c08Scan {
	sc := c08Scan{S: -1}
	p := 0
	end := func() c08Scan {
		if p > len(b) {
			p = len(b)
		}
		sc.Ranges = [][2]int{{0, p}}
		return sc
	}
	for p+1 < len(b) {
		if b[p] != 0xFF {
			return end()
		}
		q := p + 1
		for q < len(b) && b[q] == 0xFF {
			q++
		}
		if q >= len(b) {
			p = len(b)
			return end()
		}
		m := int(b[q])
		seg := c08Seg{Off: q - 1, Marker: m}
		if m == 0xD8 || m == 0xD9 || (m >= 0xD0 && m <= 0xD7) || m == 0x01 || m == 0x00 {
			sc.Segs = append(sc.Segs, seg)
			p = q + 1
			if m == 0xD9 {
				return end()
			}
			continue
		}
		l := c08Be16(b, q+1)
		if l < 0 {
			p = len(b)
			return end()
		}
		seg.HasLen, seg.Len = true, l
		sc.Segs = append(sc.Segs, seg)
		isSOF := (m >= 0xC0 && m <= 0xCF && m != 0xC4 && m != 0xC8 && m != 0xCC) || m == 0xF7
		if isSOF && sc.S < 0 && q+8 < len(b) {
			h, w, n := int64(c08Be16(b, q+4)), int64(c08Be16(b, q+6)), int64(b[q+8])
			sc.S = h * w * n
		}
		p = q + 1 + l
		if l < 2 {
			p = q + 3
		}
		if m == 0xDA {
			return end()
		}
	}
	p = len(b)
	return end()
}

// c08ScanJ2K walks a JPEG 2000 codestream: main header, and every tile-part header up to its SOD.
func c08ScanJ2K(b []byte) c08Scan {
	sc := c08Scan{S: -1}
	if len(b) < 2 || b[0] != 0xFF || b[1] != 0x4F {
		sc.Ranges = [][2]int{{0, min(len(b), 2)}}
		return sc
	}
	sc.Segs = append(sc.Segs, c08Seg{Off: 0, Marker: 0x4F})
	p := 2
	lo := 0
	tileStart, psot := -1, int64(0)
	for steps := 0; p+1 < len(b) && steps < 4096; steps++ {
		if b[p] != 0xFF {
			break
		}
		m := int(b[p+1])
		if m == 0xD9 { // EOC
			sc.Segs = append(sc.Segs, c08Seg{Off: p, Marker: m})
			p += 2
			break
		}
		if m == 0x93 { // SOD: tile-part body follows
			sc.Segs = append(sc.Segs, c08Seg{Off: p, Marker: m})
			sc.Ranges = append(sc.Ranges, [2]int{lo, p + 2})
			next := len(b)
			if tileStart >= 0 && psot > 0 && int64(tileStart)+psot <= int64(len(b)) && int64(tileStart)+psot > int64(p+2) {
				next = tileStart + int(psot)
			} else {
				// scan for the next SOT / EOC
				for k := p + 2; k+1 < len(b); k++ {
					if b[k] == 0xFF && (b[k+1] == 0x90 || (b[k+1] == 0xD9 && k+2 == len(b))) {
						next = k
						break
					}
				}
			}
			p, lo = next, next
			continue
		}
		l := c08Be16(b, p+2)
		if l < 0 {
			break
		}
		sc.Segs = append(sc.Segs, c08Seg{Off: p, Marker: m, Len: l, HasLen: true})
		if m == 0x51 && sc.S < 0 && p+40 <= len(b) {
			xs, ys, xo, yo := c08Be32(b, p+6), c08Be32(b, p+10), c08Be32(b, p+14), c08Be32(b, p+18)
			cs := int64(c08Be16(b, p+38))
			w, h := xs-xo, ys-yo
			if w < 0 {
				w += 1 << 32
			}
			if h < 0 {
				h += 1 << 32
			}
			if w > 1<<31 || h > 1<<31 {
				sc.S = 1 << 62
			} else {
				sc.S = w * h * cs
				if cs > 0 && sc.S/cs != w*h {
					sc.S = 1 << 62
				}
			}
		}
		if m == 0x90 {
			tileStart, psot = p, c08Be32(b, p+6)
		}
		if l < 2 {
			l = 2
		}
		p += 2 + l
	}
	if p > len(b) {
		p = len(b)
	}
	if lo < p {
		sc.Ranges = append(sc.Ranges, [2]int{lo, p})
	}
	return sc
}

func c08ScanFor(family string, b []byte, fi [5]uint16) c08Scan {
	switch family {
	case "jpeg", "jls":
		return c08ScanJPEG(b)
	case "j2k":
		return c08ScanJ2K(b)
	default: // rle: the "header" that declares the size is the FrameInfo
		return c08Scan{S: int64(fi[0]) * int64(fi[1]) * int64(fi[3]), Ranges: [][2]int{{0, min(64, len(b))}}}
	}
}

// ------------------------------------------------------------------------------------ corpus

type c08Seed struct {
	Name   string
	Target int // native target
	FI     [5]uint16
	Data   []byte
	Fixture bool
}

func c08Pixels(r *hx.Rand, n, bits int, class int) []byte {
	bps := 1
	if bits > 8 {
		bps = 2
	}
	out := make([]byte, n*bps)
	mask := (1 << uint(bits)) - 1
	for i := 0; i < n; i++ {
		var v int
		switch class % 3 {
		case 0:
			v = int(r.U64())
		case 1:
			v = (i*37 + i*i) >> 1
		default:
			v = (i / 3) * (mask/7 + 1)
		}
		v &= mask
		out[i*bps] = byte(v)
		if bps == 2 {
			out[i*bps+1] = byte(v >> 8)
		}
	}
	return out
}

type c08Geo struct{ w, h int }

func c08J2KParams(w, h, comps, depth int, signed bool) *jpeg2000.EncodeParams {
	p := jpeg2000.DefaultEncodeParams(w, h, comps, depth, signed)
	p.NumLevels = 1
	if w < 4 || h < 4 {
		p.NumLevels = 0
	}
	p.CodeBlockWidth, p.CodeBlockHeight = 16, 16
	return p
}

// c08J2KInsert inserts a marker segment in front of the first SOT (main header) or the first SOD (tile header).
func c08J2KInsert(stream []byte, seg []byte, beforeSOD bool) []byte {
	want := byte(0x90)
	if beforeSOD {
		want = 0x93
	}
	sc := c08ScanJ2K(stream)
	for _, s := range sc.Segs {
		if byte(s.Marker) == want {
			out := append([]byte{}, stream[:s.Off]...)
			out = append(out, seg...)
			return append(out, stream[s.Off:]...)
		}
	}
	return nil
}

func c08Corpus(c *hx.Ctx) []c08Seed {
	var seeds []c08Seed
	r := hx.NewRand(c.Seed ^ 0xC08)
	add := func(name string, target string, fi [5]uint16, f func() ([]byte, error)) {
		var data []byte
		var err error
		p, _ := hx.Guard(func() { data, err = f() })
		if p || err != nil || len(data) == 0 {
			c.Count("corpus-encoder-refused:" + target)
			return
		}
		seeds = append(seeds, c08Seed{Name: name, Target: c08TargetIdx(target), FI: fi, Data: data})
	}
	fi := func(w, h, ba, spp int) [5]uint16 {
		return [5]uint16{uint16(w), uint16(h), uint16(ba), uint16(spp), 0}
	}
	small := []c08Geo{{1, 1}, {2, 1}, {1, 3}, {3, 2}, {8, 8}, {9, 7}, {17, 5}}
	// JPEG baseline / extended
	for gi, g := range small {
		for _, comps := range []int{1, 3} {
			q := []int{50, 100, 1}[gi%3]
			g, comps, q := g, comps, q
			add(fmt.Sprintf("baseline-%dx%dx%d-q%d", g.w, g.h, comps, q), "jpeg-baseline", fi(g.w, g.h, 8, comps), func() ([]byte, error) {
				return baseline.Encode(c08Pixels(r, g.w*g.h*comps, 8, gi), g.w, g.h, comps, q)
			})
			if gi%2 == 0 {
				for _, bd := range []int{8, 12} {
					bd := bd
					add(fmt.Sprintf("extended-%dx%dx%d-p%d", g.w, g.h, comps, bd), "jpeg-extended", fi(g.w, g.h, 16, comps), func() ([]byte, error) {
						return extended.Encode(c08Pixels(r, g.w*g.h*comps, bd, gi), g.w, g.h, comps, bd, 75)
					})
				}
			}
		}
	}
	// JPEG lossless (process 14) and SV1
	for gi, g := range []c08Geo{{1, 1}, {3, 2}, {5, 4}, {2, 7}} {
		for _, comps := range []int{1, 3} {
			for di, bd := range []int{2, 8, 12, 16} {
				g, comps, bd := g, comps, bd
				pred := []int{1, 4, 7, 2, 5, 6, 3}[(gi*4+di+comps)%7]
				ba := 8
				if bd > 8 {
					ba = 16
				}
				add(fmt.Sprintf("lossless-%dx%dx%d-p%d-pred%d", g.w, g.h, comps, bd, pred), "jpeg-lossless", fi(g.w, g.h, ba, comps), func() ([]byte, error) {
					return jll.Encode(c08Pixels(r, g.w*g.h*comps, bd, gi+di), g.w, g.h, comps, bd, pred)
				})
				if (gi+di)%2 == 0 {
					add(fmt.Sprintf("sv1-%dx%dx%d-p%d", g.w, g.h, comps, bd), "jpeg-sv1", fi(g.w, g.h, ba, comps), func() ([]byte, error) {
						return lossless14sv1.Encode(c08Pixels(r, g.w*g.h*comps, bd, gi+di), g.w, g.h, comps, bd)
					})
				}
			}
		}
	}
	// JPEG-LS
	for gi, g := range []c08Geo{{1, 1}, {4, 3}, {9, 5}, {2, 6}} {
		for _, comps := range []int{1, 3} {
			for di, bd := range []int{2, 8, 12, 16} {
				g, comps, bd := g, comps, bd
				ba := 8
				if bd > 8 {
					ba = 16
				}
				add(fmt.Sprintf("jls-%dx%dx%d-p%d", g.w, g.h, comps, bd), "jls-lossless", fi(g.w, g.h, ba, comps), func() ([]byte, error) {
					return jlsll.Encode(c08Pixels(r, g.w*g.h*comps, bd, gi+di), g.w, g.h, comps, bd)
				})
				near := []int{0, 1, 3, 2}[(gi+di)%4]
				if bd == 2 && near > 1 {
					near = 1
				}
				add(fmt.Sprintf("jlsnear-%dx%dx%d-p%d-n%d", g.w, g.h, comps, bd, near), "jls-near", fi(g.w, g.h, ba, comps), func() ([]byte, error) {
					return jlsnl.Encode(c08Pixels(r, g.w*g.h*comps, bd, gi+di+1), g.w, g.h, comps, bd, near)
				})
			}
		}
	}
	// JPEG 2000: geometry x syntax classes
	type j2kCase struct {
		name string
		w, h, comps, depth int
		signed bool
		mod  func(p *jpeg2000.EncodeParams)
	}
	ident := func(n int) [][]float64 {
		m := make([][]float64, n)
		for i := range m {
			m[i] = make([]float64, n)
			m[i][i] = 1
		}
		return m
	}
	cases := []j2kCase{
		{"1x1", 1, 1, 1, 8, false, nil},
		{"3x2-rgb", 3, 2, 3, 8, false, nil},
		{"8x8-l1", 8, 8, 1, 8, false, nil},
		{"9x7-l2-16", 9, 7, 1, 16, false, func(p *jpeg2000.EncodeParams) { p.NumLevels = 2 }},
		{"8x8-s12", 8, 8, 1, 12, true, nil},
		{"8x8-rgb-rct", 8, 8, 3, 8, false, nil},
		{"8x8-rgb-nomct", 8, 8, 3, 8, false, func(p *jpeg2000.EncodeParams) { p.EnableMCT = false }},
		{"16x12-tiles8", 16, 12, 1, 8, false, func(p *jpeg2000.EncodeParams) { p.TileWidth, p.TileHeight = 8, 8 }},
		{"13x11-tiles5-rgb", 13, 11, 3, 8, false, func(p *jpeg2000.EncodeParams) { p.TileWidth, p.TileHeight = 5, 6 }},
		{"16x16-layers3", 16, 16, 1, 8, false, func(p *jpeg2000.EncodeParams) { p.NumLayers = 3 }},
		{"16x16-l0", 16, 16, 1, 8, false, func(p *jpeg2000.EncodeParams) { p.NumLevels = 0 }},
		{"16x64", 16, 64, 1, 8, false, func(p *jpeg2000.EncodeParams) { p.NumLevels = 2 }},
		{"32x32-l5", 32, 32, 1, 8, false, func(p *jpeg2000.EncodeParams) { p.NumLevels = 5 }},
		{"16x16-prec", 16, 16, 1, 8, false, func(p *jpeg2000.EncodeParams) { p.PrecinctWidth, p.PrecinctHeight = 8, 8; p.NumLevels = 2 }},
		{"8x8-lossy", 8, 8, 1, 8, false, func(p *jpeg2000.EncodeParams) { p.Lossless = false; p.Quality = 60 }},
		{"8x8-lossy-rgb", 8, 8, 3, 8, false, func(p *jpeg2000.EncodeParams) { p.Lossless = false; p.Quality = 90 }},
		{"12x12-lossy-16", 12, 12, 1, 16, false, func(p *jpeg2000.EncodeParams) { p.Lossless = false; p.Quality = 50; p.NumLevels = 2 }},
		{"16x16-lossy-ratio", 16, 16, 1, 8, false, func(p *jpeg2000.EncodeParams) { p.Lossless = false; p.TargetRatio = 4; p.NumLayers = 2 }},
		{"8x8-roi", 8, 8, 1, 8, false, func(p *jpeg2000.EncodeParams) {
			p.ROI = &jpeg2000.ROIParams{X0: 1, Y0: 1, Width: 4, Height: 4, Shift: 3}
		}},
		{"8x8-roicfg", 8, 8, 1, 8, false, func(p *jpeg2000.EncodeParams) {
			p.ROIConfig = &jpeg2000.ROIConfig{DefaultStyle: jpeg2000.ROIStyleMaxShift,
				ROIs: []jpeg2000.ROIRegion{{Rect: &jpeg2000.ROIParams{X0: 0, Y0: 0, Width: 4, Height: 4, Shift: 2}}}}
		}},
		{"8x8-mct-matrix", 8, 8, 3, 8, false, func(p *jpeg2000.EncodeParams) {
			p.MCTMatrix, p.InverseMCTMatrix, p.MCTReversible = ident(3), ident(3), true
		}},
		{"8x8-mct-binding", 8, 8, 2, 8, true, func(p *jpeg2000.EncodeParams) {
			p.NumLevels = 0
			p.MCTBindings = []jpeg2000.MCTBindingParams{{ComponentIDs: []uint16{0, 1}, Matrix: [][]float64{{0.5, 0}, {0, 0.5}},
				Inverse: [][]float64{{2, 0}, {0, 2}}, ElementType: 1, Offsets: []int32{1, 2}}}
		}},
		{"8x8-4comp", 8, 8, 4, 8, false, nil},
	}
	for po := 1; po <= 4; po++ {
		po := po
		cases = append(cases, j2kCase{fmt.Sprintf("16x16-rgb-po%d", po), 16, 16, 3, 8, false, func(p *jpeg2000.EncodeParams) {
			p.ProgressionOrder = uint8(po)
			p.NumLayers = 2
			p.NumLevels = 2
		}})
	}
	var firstJ2K []byte
	for ci, cs := range cases {
		cs := cs
		ba := 8
		if cs.depth > 8 {
			ba = 16
		}
		add("j2k-"+cs.name, "j2k", fi(cs.w, cs.h, ba, cs.comps), func() ([]byte, error) {
			p := c08J2KParams(cs.w, cs.h, cs.comps, cs.depth, cs.signed)
			if cs.mod != nil {
				cs.mod(p)
			}
			b, err := jpeg2000.NewEncoder(p).Encode(c08Pixels(r, cs.w*cs.h*cs.comps, cs.depth, ci))
			if err == nil && cs.name == "8x8-l1" {
				firstJ2K = b
			}
			return b, err
		})
	}
	// marker segments the encoder never writes, spliced into a valid stream
	if firstJ2K != nil {
		extra := map[string][]byte{
			"coc": {0xFF, 0x53, 0, 9, 0, 0, 1, 2, 2, 0, 1},
			"qcc": {0xFF, 0x5D, 0, 8, 0, 0x40, 0x40, 0x48, 0x48, 0x50},
			"poc": {0xFF, 0x5F, 0, 9, 0, 0, 0, 1, 2, 1, 0},
			"rgn": {0xFF, 0x5E, 0, 5, 0, 0, 2},
			"tlm": {0xFF, 0x55, 0, 6, 0, 0x00, 0x00, 0x40},
			"plt": {0xFF, 0x58, 0, 5, 0, 0x10, 0x05},
			"ppm": {0xFF, 0x60, 0, 9, 0, 0, 0, 0, 2, 0x80, 0x00},
			"ppt": {0xFF, 0x61, 0, 5, 0, 0x80, 0x00},
			"crg": {0xFF, 0x63, 0, 6, 0, 1, 0, 1},
			"com": {0xFF, 0x64, 0, 7, 0, 1, 'a', 'b', 'c'},
			"mct": {0xFF, 0x74, 0, 12, 0, 0, 0x01, 0x00, 0, 0, 0, 0, 0x3f, 0x80},
			"mcc": {0xFF, 0x75, 0, 19, 0, 0, 0, 0, 1, 1, 0, 1, 0, 0, 0, 1, 0, 0, 0, 0, 1},
			"mco": {0xFF, 0x77, 0, 4, 1, 0},
			"cap": {0xFF, 0x50, 0, 8, 0, 2, 0, 0, 0, 0},
			"unk": {0xFF, 0x79, 0, 4, 1, 2},
		}
		keys := make([]string, 0, len(extra))
		for k := range extra {
			keys = append(keys, k)
		}
		sort.Strings(keys)
		for _, k := range keys {
			if b := c08J2KInsert(firstJ2K, extra[k], false); b != nil {
				seeds = append(seeds, c08Seed{Name: "j2k-8x8+main-" + k, Target: c08TargetIdx("j2k"), FI: fi(8, 8, 8, 1), Data: b})
			}
			if k == "coc" || k == "qcc" || k == "poc" || k == "rgn" || k == "plt" || k == "ppt" || k == "com" || k == "mct" || k == "mcc" || k == "mco" {
				if b := c08J2KInsert(firstJ2K, extra[k], true); b != nil {
					seeds = append(seeds, c08Seed{Name: "j2k-8x8+tile-" + k, Target: c08TargetIdx("j2k"), FI: fi(8, 8, 8, 1), Data: b})
				}
			}
		}
	}
	// HTJ2K
	for ci, cs := range []j2kCase{{"ht-1x1", 1, 1, 1, 8, false, nil}, {"ht-8x8", 8, 8, 1, 8, false, nil}, {"ht-9x7-16", 9, 7, 1, 16, false, nil},
		{"ht-8x8-rgb", 8, 8, 3, 8, false, nil}, {"ht-16x16-s12", 16, 16, 1, 12, true, func(p *jpeg2000.EncodeParams) { p.NumLevels = 2 }},
		{"ht-8x8-lossy", 8, 8, 1, 8, false, func(p *jpeg2000.EncodeParams) { p.Lossless = false; p.Quality = 70 }},
		{"ht-24x10-tiles", 24, 10, 1, 8, false, func(p *jpeg2000.EncodeParams) { p.TileWidth, p.TileHeight = 8, 8 }}} {
		cs := cs
		ba := 8
		if cs.depth > 8 {
			ba = 16
		}
		add("htj2k-"+cs.name, "htj2k", fi(cs.w, cs.h, ba, cs.comps), func() ([]byte, error) {
			p := c08J2KParams(cs.w, cs.h, cs.comps, cs.depth, cs.signed)
			p.ProgressionOrder = 2
			p.HTJ2KMode = true
			p.BlockEncoderFactory = func(w, h int) jpeg2000.BlockEncoder { return htj2k.NewHTEncoder(w, h) }
			if cs.mod != nil {
				cs.mod(p)
			}
			return jpeg2000.NewEncoder(p).Encode(c08Pixels(r, cs.w*cs.h*cs.comps, cs.depth, ci))
		})
	}
	// RLE: every accepted description, small geometries
	for di, d := range rleDescs {
		for gi, g := range []c08Geo{{1, 1}, {3, 2}, {5, 5}} {
			if (di+gi)%2 == 1 && g.w == 3 {
				continue
			}
			d := d
			d.W, d.H = g.w, g.h
			src := rleContent(r, d.native(), (di+gi)%5)
			enc, oc := rleReal(true, d, src)
			if oc != "ok" {
				c.Count("corpus-encoder-refused:rle-codec")
				continue
			}
			seeds = append(seeds, c08Seed{Name: fmt.Sprintf("rle-%dx%d-ba%d-spp%d-pl%d", d.W, d.H, d.BA, d.SPP, d.PL), Target: c08TargetIdx("rle-codec"),
				FI: [5]uint16{uint16(d.W), uint16(d.H), uint16(d.BA), uint16(d.SPP), uint16(d.PL)}, Data: enc})
		}
	}
	// third-party fixtures
	repo := os.Getenv("VERIF_REPO")
	if repo == "" {
		repo = "/repo"
	}
	if b, err := os.ReadFile(filepath.Join(repo, "test-data", "CT1_J2KI")); err == nil {
		if k := bytes.Index(b, []byte{0xFF, 0x4F, 0xFF, 0x51}); k >= 0 {
			e := bytes.LastIndex(b, []byte{0xFF, 0xD9})
			if e > k {
				seeds = append(seeds, c08Seed{Name: "fixture-CT1_J2KI", Target: c08TargetIdx("j2k"), FI: fi(512, 512, 16, 1), Data: b[k : e+2], Fixture: true})
			}
		}
	}
	if ms, err := filepath.Glob(filepath.Join(repo, "test-data", "htj2k", "interop", "*", "*.j2c")); err == nil {
		sort.Strings(ms)
		for _, m := range ms {
			if b, err := os.ReadFile(m); err == nil {
				name := "fixture-" + filepath.Base(filepath.Dir(m)) + "-" + strings.TrimSuffix(filepath.Base(m), ".j2c")
				seeds = append(seeds, c08Seed{Name: name, Target: c08TargetIdx("htj2k"), FI: fi(0, 0, 16, 1), Data: b, Fixture: true})
			}
		}
	}
	return seeds
}

// ------------------------------------------------------------------------------------ mutation operators

var c08QuickVals = []int{0x00, 0x01, 0x02, 0x03, 0x04, 0x05, 0x08, 0x0f, 0x10, 0x11, 0x1f, 0x20, 0x21, 0x3f, 0x40, 0x7f, 0x80, 0x81, 0xc0, 0xf0, 0xfe, 0xff}

type c08Builder struct {
	c    *hx.Ctx
	jobs []c08Job
	seen map[[32]byte]struct{}
	nLarge int
}

func (b *c08Builder) add(target int, fi [5]uint16, data []byte, origin, base string) {
	h := sha256.New()
	var hd [14]byte
	binary.LittleEndian.PutUint32(hd[0:], uint32(target))
	for k := 0; k < 5; k++ {
		binary.LittleEndian.PutUint16(hd[4+2*k:], fi[k])
	}
	h.Write(hd[:])
	h.Write(data)
	var key [32]byte
	copy(key[:], h.Sum(nil))
	if _, ok := b.seen[key]; ok {
		return
	}
	b.seen[key] = struct{}{}
	fam := c08Targets[target].Family
	sc := c08ScanFor(fam, data, fi)
	if sc.S > c09SMax {
		// outside the C09 quantifier; still a C08 input, but it may legitimately need a lot of time and memory:
		// run a bounded number of them with a short watchdog
		lim := 100
		if b.c.Thorough() {
			lim = 1500
		}
		if b.nLarge >= lim {
			b.c.Count("skipped:declared-S>2^22-over-quota")
			return
		}
		b.nLarge++
	}
	if sc.S > 1<<16 && sc.S <= c09SMax && origin != "boundary" && origin != "corpus" && origin != "rle-frameinfo-large" && origin != "j2k-mct-stages" && origin != "header-counts" && origin != "j2k-degenerate-geometry" {
		// decodes of large declared frames are slow (page faults of the frame buffers): thin them out
		keep := 8
		if b.c.Thorough() {
			keep = 2
		}
		if int(key[0])%keep != 0 {
			b.c.Count("skipped:declared-S>2^16-thinned")
			return
		}
	}
	b.jobs = append(b.jobs, c08Job{Target: target, FI: fi, Data: data, Origin: origin, Base: base, S: sc.S})
}

func c08Clone(b []byte) []byte { return append([]byte(nil), b...) }

// c08Mutate emits the mutations of one seed for one target.
func (b *c08Builder) mutate(s *c08Seed, target int, light bool) {
	c := b.c
	r := c.R
	fam := c08Targets[target].Family
	d := s.Data
	sc := c08ScanFor(fam, d, s.FI)
	hdr := sc.hdrLen()
	var hpos []int
	for _, rg := range sc.Ranges {
		for p := rg[0]; p < rg[1]; p++ {
			hpos = append(hpos, p)
		}
	}
	thorough := c.Thorough()
	// 1. truncation
	{
		var offs []int
		if (len(d) <= 400 || (thorough && len(d) <= 2000)) && !light {
			for k := 0; k < len(d); k++ {
				offs = append(offs, k)
			}
		} else {
			for _, p := range hpos {
				if !light || p%7 == 0 {
					offs = append(offs, p)
				}
			}
			n := 48
			if light {
				n = 8
			}
			for k := 0; k < n; k++ {
				offs = append(offs, r.Intn(len(d)))
			}
			offs = append(offs, len(d)-1, len(d)-2)
		}
		for _, k := range offs {
			if k >= 0 && k < len(d) {
				b.add(target, s.FI, c08Clone(d[:k]), "truncate", s.Name)
			}
		}
	}
	// 2. every header byte x values.  thorough: all 256 values at every header byte of the streams with a header of
	//    ≤ 220 bytes (a rotating third of them per seed), the value list below at every header byte of the others;
	//    quick: a seeded sample of (position, value) pairs, weighted towards the leading fields of every segment.
	{
		nameHash := sha256.Sum256([]byte(s.Name))
		exhaustive := thorough && hdr <= 220 && !light && (int(nameHash[0])+int(c.Seed))%6 == 0
		structural := map[int]bool{}
		for _, sg := range sc.Segs {
			for k := 0; k < 14; k++ {
				structural[sg.Off+k] = true
			}
		}
		type pv struct{ p, v int }
		var strong, weak []pv
		for _, p := range hpos {
			if p >= len(d) {
				continue
			}
			if exhaustive {
				for v := 0; v < 256; v++ {
					strong = append(strong, pv{p, v})
				}
				continue
			}
			vals := append([]int{}, c08QuickVals...)
			vals = append(vals, int(d[p])+1, int(d[p])-1, int(d[p])^0x10, int(d[p])^0x01, int(r.U64()))
			for _, v := range vals {
				if structural[p] || fam == "rle" {
					strong = append(strong, pv{p, v})
				} else {
					weak = append(weak, pv{p, v})
				}
			}
		}
		pick := func(xs []pv, n int) []pv {
			if len(xs) <= n {
				return xs
			}
			out := make([]pv, 0, n)
			for k := 0; k < n; k++ {
				out = append(out, xs[r.Intn(len(xs))])
			}
			return out
		}
		if !thorough {
			if light {
				strong, weak = pick(strong, 40), pick(weak, 10)
			} else {
				strong, weak = pick(strong, 270), pick(weak, 70)
			}
		} else if light {
			strong, weak = pick(strong, 400), pick(weak, 100)
		} else if !exhaustive {
			strong, weak = pick(strong, 2500), pick(weak, 800)
		}
		op := "header-byte"
		if exhaustive {
			op = "header-byte-exhaustive"
		}
		for _, x := range append(strong, weak...) {
			if byte(x.v) != d[x.p] {
				m := c08Clone(d)
				m[x.p] = byte(x.v)
				b.add(target, s.FI, m, op, s.Name)
			}
		}
	}
	// 3. bit flips in the entropy-coded data (everything outside the header ranges)
	{
		inHdr := map[int]bool{}
		for _, p := range hpos {
			inHdr[p] = true
		}
		var body []int
		for p := 0; p < len(d); p++ {
			if !inHdr[p] {
				body = append(body, p)
			}
		}
		n := 40
		if thorough {
			n = 600
		}
		if light {
			n = 12
		}
		if len(body) > 0 {
			if len(body)*8 <= n {
				for _, p := range body {
					for bit := 0; bit < 8; bit++ {
						m := c08Clone(d)
						m[p] ^= 1 << uint(bit)
						b.add(target, s.FI, m, "entropy-bitflip", s.Name)
					}
				}
			} else {
				for k := 0; k < n; k++ {
					m := c08Clone(d)
					for j := 0; j <= k%3; j++ {
						m[body[r.Intn(len(body))]] ^= 1 << uint(r.Intn(8))
					}
					b.add(target, s.FI, m, "entropy-bitflip", s.Name)
				}
			}
			// 0xFF / marker injection into the body
			for k := 0; k < n/8; k++ {
				m := c08Clone(d)
				p := body[r.Intn(len(body))]
				m[p] = 0xFF
				if p+1 < len(m) && r.Bool() {
					m[p+1] = byte(r.Pick([]int{0x00, 0xD0, 0xD7, 0xD9, 0x90, 0x91, 0x93, 0xFF, 0x7F, 0x80}))
				}
				b.add(target, s.FI, m, "entropy-ff-inject", s.Name)
			}
		}
	}
	// 4. segment length edits, segment deletion / duplication / reordering
	if fam != "rle" {
		for si, sg := range sc.Segs {
			if !sg.HasLen || sg.Off+3 >= len(d) {
				continue
			}
			rest := len(d) - (sg.Off + 2)
			lens := []int{0, 1, 2, 3, sg.Len - 1, sg.Len + 1, sg.Len / 2, rest, rest + 1, 0xffff}
			if thorough {
				lens = append(lens, 4, sg.Len+2, sg.Len*2, rest-1, 0x7fff, 0x8000)
			}
			if light {
				lens = []int{0, 1, sg.Len - 1, sg.Len + 1, 0xffff}
			}
			for _, l := range lens {
				if l < 0 || l > 0xffff || l == sg.Len {
					continue
				}
				m := c08Clone(d)
				m[sg.Off+2], m[sg.Off+3] = byte(l>>8), byte(l)
				b.add(target, s.FI, m, "segment-length", s.Name)
			}
			if light {
				continue
			}
			segEnd := sg.Off + 2 + sg.Len
			if segEnd <= len(d) && sg.Len >= 2 {
				del := append(c08Clone(d[:sg.Off]), d[segEnd:]...)
				b.add(target, s.FI, del, "segment-delete", s.Name)
				dup := append(c08Clone(d[:segEnd]), d[sg.Off:]...)
				b.add(target, s.FI, dup, "segment-duplicate", s.Name)
				// grow / shrink the segment consistently (length field and payload)
				if sg.Len < 0xfff0 {
					g := append(c08Clone(d[:segEnd]), byte(r.U64()), byte(r.U64()))
					g = append(g, d[segEnd:]...)
					g[sg.Off+2], g[sg.Off+3] = byte((sg.Len+2)>>8), byte(sg.Len+2)
					b.add(target, s.FI, g, "segment-grow", s.Name)
				}
				if sg.Len >= 3 {
					sh := append(c08Clone(d[:segEnd-1]), d[segEnd:]...)
					sh[sg.Off+2], sh[sg.Off+3] = byte((sg.Len-1)>>8), byte(sg.Len-1)
					b.add(target, s.FI, sh, "segment-shrink", s.Name)
				}
				if si+1 < len(sc.Segs) {
					nx := sc.Segs[si+1]
					nxEnd := nx.Off + 2 + nx.Len
					if nx.HasLen && nx.Off == segEnd && nxEnd <= len(d) {
						sw := c08Clone(d[:sg.Off])
						sw = append(sw, d[nx.Off:nxEnd]...)
						sw = append(sw, d[sg.Off:segEnd]...)
						sw = append(sw, d[nxEnd:]...)
						b.add(target, s.FI, sw, "segment-swap", s.Name)
					}
				}
			}
		}
	}
	// 5. several header bytes at once
	if !light && len(hpos) > 0 {
		n := 30
		if thorough {
			n = 400
		}
		for k := 0; k < n; k++ {
			m := c08Clone(d)
			for j := 0; j < 2+r.Intn(3); j++ {
				p := hpos[r.Intn(len(hpos))]
				if p < len(m) {
					if r.Bool() {
						m[p] = byte(r.Pick(c08QuickVals))
					} else {
						m[p] = byte(r.U64())
					}
				}
			}
			b.add(target, s.FI, m, "header-multibyte", s.Name)
		}
	}
}

// c08DHTMutations: BITS edits that keep the table's total (so the segment stays well-framed and the table is built):
// counts moved between code lengths, including over-subscribed short lengths.
func (b *c08Builder) dhtMutations(s *c08Seed, target int) {
	r := b.c.R
	d := s.Data
	sc := c08ScanJPEG(d)
	n := 10
	if b.c.Thorough() {
		n = 80
	}
	for _, sg := range sc.Segs {
		if sg.Marker != 0xC4 || !sg.HasLen {
			continue
		}
		p := sg.Off + 4
		end := sg.Off + 2 + sg.Len
		if end > len(d) {
			continue
		}
		for p+17 <= end {
			total := 0
			for k := 0; k < 16; k++ {
				total += int(d[p+1+k])
			}
			if p+17+total > end {
				break
			}
			for k := 0; k < n; k++ {
				m := c08Clone(d)
				bits := m[p+1 : p+17]
				for moves := 1 + r.Intn(3); moves > 0; moves-- {
					from := r.Intn(16)
					if bits[from] == 0 {
						continue
					}
					to := r.Intn(16)
					if k%2 == 0 {
						to = r.Intn(3)
					}
					amt := 1 + r.Intn(int(bits[from]))
					if int(bits[to])+amt > 255 {
						continue
					}
					bits[from] -= byte(amt)
					bits[to] += byte(amt)
				}
				if k%5 == 0 {
					m[p] = byte(r.Pick([]int{0x00, 0x01, 0x02, 0x03, 0x04, 0x10, 0x11, 0x13, 0x1f, 0x20, 0xf0}))
				}
				b.add(target, s.FI, m, "dht-bits-preserving-total", s.Name)
			}
			p += 17 + total
		}
	}
}

// c08RandomPrefixed: random strings behind a valid start-of-image / start-of-codestream prefix.
func (b *c08Builder) randomPrefixed(seeds []c08Seed) {
	c := b.c
	r := c.R
	n := 150
	if c.Thorough() {
		n = 2500
	}
	zero := [5]uint16{}
	jpegMarkers := []int{0xC0, 0xC1, 0xC2, 0xC3, 0xC4, 0xDA, 0xDB, 0xDD, 0xE0, 0xF7, 0xF8, 0xFE, 0xD9, 0xD0, 0xFF, 0x00, 0xC8}
	j2kMarkers := []int{0x51, 0x52, 0x53, 0x5C, 0x5D, 0x5E, 0x5F, 0x55, 0x57, 0x58, 0x60, 0x61, 0x63, 0x64, 0x74, 0x75, 0x77, 0x90, 0x93, 0xD9, 0x50}
	for ti, t := range c08Targets {
		if strings.HasPrefix(t.Name, "codec-") || t.Family == "rle" {
			continue
		}
		for k := 0; k < n; k++ {
			var m []byte
			switch t.Family {
			case "jpeg", "jls":
				m = []byte{0xFF, 0xD8}
			case "j2k":
				m = []byte{0xFF, 0x4F}
			}
			switch k % 3 {
			case 0: // pure noise
				m = append(m, r.Bytes(r.Range(0, 80))...)
			case 1: // random well-framed segments with random payloads
				for sgs := r.Range(1, 6); sgs > 0; sgs-- {
					mk := jpegMarkers
					if t.Family == "j2k" {
						mk = j2kMarkers
					}
					l := r.Range(0, 40)
					m = append(m, 0xFF, byte(r.Pick(mk)))
					decl := l + 2
					if r.Intn(6) == 0 {
						decl = r.Range(0, 70)
					}
					m = append(m, byte(decl>>8), byte(decl))
					pl := r.Bytes(l)
					for i := range pl {
						if r.Intn(3) == 0 {
							pl[i] = byte(r.Pick(c08QuickVals))
						}
					}
					m = append(m, pl...)
				}
			default: // a valid header of a corpus stream followed by noise
				var pool []c08Seed
				for _, s := range seeds {
					if c08Targets[s.Target].Family == t.Family && !s.Fixture {
						pool = append(pool, s)
					}
				}
				if len(pool) == 0 {
					continue
				}
				s := pool[r.Intn(len(pool))]
				sc := c08ScanFor(t.Family, s.Data, s.FI)
				if len(sc.Ranges) > 0 {
					m = c08Clone(s.Data[:sc.Ranges[0][1]])
					m = append(m, r.Bytes(r.Range(0, 64))...)
				}
			}
			b.add(ti, zero, m, "random-prefixed", "-")
		}
	}
}

// rleControls: PackBits control bytes at control positions — in particular the no-op 0x80 (a decoder that does not
// advance on it loops forever: C09), runs that overshoot, and literal/repeat lengths around the segment end.
func (b *c08Builder) rleControls(seeds []c08Seed) {
	r := b.c.R
	t := c08TargetIdx("rle-codec")
	hdr := func(nseg int, body []byte) []byte {
		h := make([]byte, 64)
		h[0] = byte(nseg)
		off := 64
		per := len(body) / max(nseg, 1)
		for k := 0; k < nseg && k < 15; k++ {
			binary.LittleEndian.PutUint32(h[4+4*k:], uint32(off))
			off += per
		}
		return append(h, body...)
	}
	bodies := [][]byte{
		{0x80}, {0x80, 0x80}, {0x80, 0x00, 0x41}, {0x00, 0x41, 0x80}, {0x80, 0x80, 0x80, 0x80, 0x00, 0x07, 0x80},
		{0xFF, 0x07, 0x80, 0xFF, 0x07}, {0x80, 0xFF, 0x07}, {0x01, 0x01, 0x02, 0x80, 0x01, 0x03, 0x04}, {0x81, 0x05}, {0x7F},
		{0x80, 0x81}, {0x00, 0x80}, {0xFE, 0x80, 0x80}, {0x02, 0x80, 0x80, 0x80, 0x80},
	}
	for k := 0; k < 40; k++ {
		n := r.Range(1, 12)
		bd := make([]byte, n)
		for i := range bd {
			bd[i] = byte(r.Pick([]int{0x80, 0x80, 0x80, 0x00, 0x01, 0xFF, 0xFE, 0x7F, 0x81, int(r.U64() & 0xFF)}))
		}
		bodies = append(bodies, bd)
	}
	for _, bd := range bodies {
		for _, fi := range [][5]uint16{{1, 1, 8, 1, 0}, {2, 2, 8, 1, 0}, {3, 1, 16, 1, 0}, {2, 1, 8, 3, 0}, {2, 2, 8, 3, 1}, {4, 4, 8, 1, 1}} {
			nseg := (int((fi[2]-1)/8) + 1) * int(fi[3])
			bb := bd
			if nseg > 1 { // the same body for every segment
				bb = nil
				for k := 0; k < nseg; k++ {
					bb = append(bb, bd...)
				}
			}
			b.add(t, fi, hdr(nseg, bb), "rle-control-bytes", "-")
		}
	}
	// 0x80 written over every body position of the encoder's own streams
	for _, s := range seeds {
		if s.Target != t {
			continue
		}
		for p := 64; p < len(s.Data) && p < 64+48; p++ {
			m := c08Clone(s.Data)
			m[p] = 0x80
			b.add(t, s.FI, m, "rle-control-bytes", s.Name)
		}
	}
}

// j2kCodingStyleSweep: EVERY value 0..255 at every Scod / SGcod / SPcod byte of the COD segment and every
// Ccoc / Scoc / SPcoc byte of a COC segment of four representative streams (code-block exponents, decomposition
// levels, style, transform and precinct bytes are one-byte fields whose guards are per-value) — in every tier.
func (b *c08Builder) j2kCodingStyleSweep(seeds []c08Seed) {
	want := map[string]bool{"j2k-8x8-l1": true, "j2k-16x16-prec": true, "j2k-8x8+main-coc": true, "j2k-8x8+tile-coc": true, "htj2k-ht-8x8": true, "j2k-8x8-rgb-rct": true}
	for i := range seeds {
		s := &seeds[i]
		if !want[s.Name] {
			continue
		}
		sc := c08ScanJ2K(s.Data)
		for _, sg := range sc.Segs {
			if (sg.Marker != 0x52 && sg.Marker != 0x53) || !sg.HasLen {
				continue
			}
			end := min(sg.Off+2+sg.Len, len(s.Data))
			for p := sg.Off + 4; p < end; p++ {
				for v := 0; v < 256; v++ {
					if byte(v) == s.Data[p] {
						continue
					}
					m := c08Clone(s.Data)
					m[p] = byte(v)
					b.add(s.Target, s.FI, m, "j2k-coding-style-sweep", s.Name)
				}
			}
			// the two code-block exponent bytes together: every value of one with a set of partner values (their
			// sum is guarded too, and in uint8 arithmetic it wraps for 252..255)
			pw := sg.Off + 10 // COD: Lcod(2) Scod SGcod(4) levels | cbw cbh
			if sg.Marker == 0x53 {
				pw = sg.Off + 7 // COC with a one-byte component index: Lcoc(2) Ccoc Scoc levels | cbw cbh
			}
			if pw+1 < end && (s.Name == "j2k-8x8-l1" || s.Name == "j2k-8x8+main-coc" || s.Name == "htj2k-ht-8x8" || b.c.Thorough()) {
				partners := []int{0, 1, 2, 3, 4, 5, 6, 7, 8, 9, 10, 11, 12, 13, 16, 128, 250, 251, 252, 253, 254, 255}
				for v := 0; v < 256; v++ {
					for _, q := range partners {
						for swap := 0; swap < 2; swap++ {
							m := c08Clone(s.Data)
							if swap == 0 {
								m[pw], m[pw+1] = byte(v), byte(q)
							} else {
								m[pw], m[pw+1] = byte(q), byte(v)
							}
							b.add(s.Target, s.FI, m, "j2k-coding-style-sweep", s.Name)
						}
					}
				}
			}
		}
	}
}

// j2kGridOffsets: SIZ with a huge image offset on the reference grid and a matching extent, so that the declared image
// (Xsiz−XOsiz)·(Ysiz−YOsiz)·Csiz stays as small as the corpus stream's while every grid coordinate is huge; tile origin
// small or equal to the image origin, tile size covering the image or equal to the image extent.
func (b *c08Builder) j2kGridOffsets(seeds []c08Seed) {
	r := b.c.R
	n := 0
	for i := range seeds {
		s := &seeds[i]
		if c08Targets[s.Target].Family != "j2k" || s.Fixture || len(s.Data) < 42 || !bytes.HasPrefix(s.Data, []byte{0xFF, 0x4F, 0xFF, 0x51}) {
			continue
		}
		named := s.Name == "j2k-8x8-l1" || s.Name == "j2k-16x12-tiles8" || s.Name == "j2k-16x64" || s.Name == "htj2k-ht-8x8"
		if !b.c.Thorough() && (i+int(b.c.Seed))%8 != 0 && !named {
			continue
		}
		n++
		xs, ys := int64(binary.BigEndian.Uint32(s.Data[8:])), int64(binary.BigEndian.Uint32(s.Data[12:]))
		xt, yt := int64(binary.BigEndian.Uint32(s.Data[24:])), int64(binary.BigEndian.Uint32(s.Data[28:]))
		emit := func(xo, yo, xts, yts, xto, yto int64, op string) {
			if xo+xs >= 1<<32 || yo+ys >= 1<<32 || xts <= 0 || yts <= 0 || xts >= 1<<32 || yts >= 1<<32 {
				return
			}
			m := c08Clone(s.Data)
			put := func(o int, v int64) { binary.BigEndian.PutUint32(m[o:], uint32(v)) }
			put(8, xo+xs)
			put(12, yo+ys)
			put(16, xo)
			put(20, yo)
			put(24, xts)
			put(28, yts)
			put(32, xto)
			put(36, yto)
			b.add(s.Target, s.FI, m, op, s.Name)
		}
		// (a) BOTH offsets large: the class c09-j2k-grid-offset lived here (quadratic precinct-grid growth, repaired by 3981d09)
		offs := []int64{1, 255, 1 << 11, 1 << 12, 1 << 14, 1 << 16, 1 << 20, 1 << 24, 1<<31 - 64}
		if b.c.Thorough() {
			offs = []int64{1, 7, 255, 1 << 10, 1 << 12, 1 << 14, 1 << 16, 1<<16 + 3, 1 << 20, 1 << 24, 1 << 28, 1<<31 - 64, 1<<32 - 1 - xs - ys}
		}
		for _, off := range offs {
			if off < 0 {
				continue
			}
			emit(off, off, off+xs, off+ys, 0, 0, "j2k-grid-offset")                                  // one tile anchored at the grid origin
			emit(off, off, xt, yt, off, off, "j2k-grid-offset")                                      // tile origin = image origin
			emit(off, off, xt, yt, int64(r.Intn(4)), int64(r.Intn(4)), "j2k-grid-offset")          // many tiles in front of the image
		}
		// (b) ONE axis only, the other at 0: the unchanged decoder is fast here (tens of ms, < 1 MiB), so any
		// blow-up is a new violation — e.g. a tile clamp against the tile origin instead of the image origin sizes
		// the tile buffers by Xsiz instead of Xsiz − XOsiz
		one := []int64{1 << 12, 1 << 16, 1 << 20, 1 << 22, 1 << 24, 1 << 26, 1<<31 - 64}
		if b.c.Thorough() {
			one = []int64{1, 255, 1 << 10, 1 << 12, 1 << 14, 1 << 16, 1 << 18, 1 << 20, 1 << 22, 1 << 23, 1 << 24, 1 << 26, 1 << 28, 1 << 30, 1<<31 - 64, 1<<32 - 1 - xs - ys}
		}
		for _, off := range one {
			if off < 0 {
				continue
			}
			// a single tile [0, Xsiz) x [0, Ysiz) anchored at the grid origin
			emit(off, 0, off+xs, ys, 0, 0, "j2k-grid-offset-x")
			emit(0, off, xs, off+ys, 0, 0, "j2k-grid-offset-y")
			if named || b.c.Thorough() {
				emit(off, 0, off+xs, yt, 0, 0, "j2k-grid-offset-x") // tile rows as in the corpus stream
				emit(off, 0, xt, yt, off, 0, "j2k-grid-offset-x")   // tile origin = image origin
				emit(0, off, xt, yt, 0, off, "j2k-grid-offset-y")
				emit(off, 0, off+xs+1, ys+1, 0, 0, "j2k-grid-offset-x") // tile slightly larger than the image
			}
		}
	}
	b.c.CountN("j2k-grid-offset-base-streams", n)
}

// j2kPart2: coordinated edits of the Part-2 / private metadata the decoder indexes with AFTER the tiles are decoded:
// MCC component ids (input and output lists edited together — the decoder only builds a binding when they agree),
// a private COM "JP2MCT" inverse matrix with every rows x cols shape, a private COM "JP2ROI" region list.
func (b *c08Builder) j2kPart2(seeds []c08Seed) {
	r := b.c.R
	be16 := func(v int) []byte { return []byte{byte(v >> 8), byte(v)} }
	be32 := func(v int) []byte { return []byte{byte(v >> 24), byte(v >> 16), byte(v >> 8), byte(v)} }
	for i := range seeds {
		s := &seeds[i]
		if c08Targets[s.Target].Family != "j2k" || s.Fixture {
			continue
		}
		sc := c08ScanJ2K(s.Data)
		// (1) MCC ids
		for _, sg := range sc.Segs {
			if sg.Marker != 0x75 || sg.Off+16 > len(s.Data) {
				continue
			}
			p := sg.Off + 4 + 2 + 1 + 2 + 2 + 1 // Zmcc idx Ymcc Qmcc Xmcc
			nin := int(s.Data[p])<<8 | int(s.Data[p+1])
			wide := nin&0x8000 != 0
			n := nin & 0x7fff
			if wide || n == 0 || n > 8 || p+2+n+2+n+3 > len(s.Data) {
				continue
			}
			inPos, outPos := p+2, p+2+n+2
			nout := int(s.Data[inPos+n])<<8 | int(s.Data[inPos+n+1])
			for _, v := range []int{n, n + 1, 5, 127, 128, 255} {
				for k := 0; k < n; k++ {
					m := c08Clone(s.Data)
					m[inPos+k] = byte(v)
					if nout == n {
						m[outPos+k] = byte(v)
					}
					b.add(s.Target, s.FI, m, "j2k-mcc-component-ids", s.Name)
				}
				m := c08Clone(s.Data)
				for k := 0; k < n; k++ {
					m[inPos+k] = byte(v)
					if nout == n {
						m[outPos+k] = byte(v)
					}
				}
				b.add(s.Target, s.FI, m, "j2k-mcc-component-ids", s.Name)
			}
			// no output list at all (Mmcci = 0): the decoder then takes the input ids
			m := c08Clone(s.Data)
			m[inPos+n], m[inPos+n+1] = 0, 0
			b.add(s.Target, s.FI, m, "j2k-mcc-component-ids", s.Name)
		}
		// (2), (3): private COM segments in front of the first tile-part; every 3rd stream in quick
		if !b.c.Thorough() && (i+int(b.c.Seed))%3 != 0 && s.Name != "j2k-8x8-rgb-rct" && s.Name != "j2k-8x8-l1" {
			continue
		}
		ins := func(payload []byte, op string) {
			seg := append([]byte{0xFF, 0x64}, be16(4+len(payload))...)
			seg = append(seg, 0, 0)
			seg = append(seg, payload...)
			if m := c08J2KInsert(s.Data, seg, false); m != nil {
				b.add(s.Target, s.FI, m, op, s.Name)
			}
		}
		for _, rows := range []int{0, 1, 2, 3, 4, 5, 255} {
			for _, cols := range []int{0, 1, 2, 3, 4, 255} {
				pl := append([]byte("JP2MCT"), 1)
				pl = append(pl, be16(rows)...)
				pl = append(pl, be16(cols)...)
				pl = append(pl, byte(r.Intn(2)))
				for k := 0; k < rows*cols && k < 64; k++ {
					pl = append(pl, 0x3f, 0x80, 0, 0)
				}
				ins(pl, "j2k-com-jp2mct")
			}
		}
		for _, nreg := range []int{0, 1, 2, 3, 65535} {
			for _, shape := range []int{0, 1, 2, 3} {
				for _, comp := range []int{0, 1, 3, 200} {
					pl := append([]byte("JP2ROI"), 1)
					pl = append(pl, be16(nreg)...)
					for k := 0; k < nreg && k < 3; k++ {
						pl = append(pl, byte(shape), 1, byte(comp))
						switch shape {
						case 0:
							for _, v := range []int{r.Pick([]int{0, 1, -1, 4}), r.Pick([]int{0, 2, 1 << 30}), r.Pick([]int{4, 8, 0, 1 << 31}), r.Pick([]int{4, 9, -5})} {
								pl = append(pl, be32(v)...)
							}
						case 1:
							np := r.Pick([]int{0, 1, 3, 4})
							pl = append(pl, be16(np)...)
							for q := 0; q < np; q++ {
								pl = append(pl, be32(r.Intn(12)-2)...)
								pl = append(pl, be32(r.Intn(12)-2)...)
							}
						case 2:
							pl = append(pl, be32(r.Pick([]int{0, 8, 1 << 20}))...)
							pl = append(pl, be32(r.Pick([]int{0, 8, 1 << 20}))...)
						}
					}
					ins(pl, "j2k-com-jp2roi")
				}
			}
		}
	}
}

// jlsScans: hand-assembled JPEG-LS scans behind valid (and re-dimensioned) headers — no model covers the scan decoders.
// All-zero initial context puts the decoder in run mode at once, so long runs of 1-bits (0xFF 0x7F…, 0xFE…) grow the
// run length 1,1,1,1,2,2,2,2,4,… past the end of the line; for 3-component ILV=2 streams the overshoot is per pixel triple.
func (b *c08Builder) jlsScans(seeds []c08Seed) {
	r := b.c.R
	scans := [][]byte{
		{0xFF, 0x30}, {0xFF, 0x38}, {0xFF, 0x20}, {0xFF, 0x58}, {0xFF, 0x5C}, {0xFF, 0x4E}, {0xFF, 0x47}, {0xFF, 0x7F, 0xFF, 0x7F, 0xFF, 0x7F}, {0xFF, 0x7F}, {0xFE}, {0xFE, 0xFE, 0xFE, 0xFE}, {0xFC, 0x00}, {0xF0}, {0xFF, 0x00},
		{0xFF, 0x7F, 0xFF, 0x7F, 0xFF, 0x7F, 0xFF, 0x7F, 0xFF, 0x7F, 0xFF, 0x7F, 0xFF, 0x7F, 0xFF, 0x7F}, {0x80}, {0xC0}, {0xE0, 0x00, 0x00},
		{0xAA, 0xAA, 0xAA}, {0x7F, 0xFF, 0x7F}, {0xFF, 0x7E, 0xFF, 0x7D}, {0xFB, 0xFF, 0x7F, 0x00}, {}, {0x00}, {0x00, 0x00, 0x00, 0x00},
	}
	for k := 0; k < 24; k++ {
		n := r.Range(1, 10)
		sc := make([]byte, 0, 2*n)
		for i := 0; i < n; i++ {
			v := byte(r.Pick([]int{0xFF, 0xFF, 0xFE, 0xFC, 0xF8, 0xF0, 0x7F, 0x00, 0x01, int(r.U64() & 0xFF)}))
			sc = append(sc, v)
			if v == 0xFF {
				sc = append(sc, byte(r.Intn(0x80)))
			}
		}
		scans = append(scans, sc)
	}
	// widths 13/14 (8 one-bits: run 12, J=2), 17/18 (run 16), 29/30 (J=3) are where a 2^J-bit remainder can overshoot
	dims := [][2]int{{13, 1}, {14, 2}, {1, 1}, {17, 1}, {2, 1}, {18, 2}, {4, 1}, {14, 1}, {5, 2}, {13, 3}, {8, 1}, {29, 1}, {2, 3}, {30, 2}, {9, 2}, {16, 1}, {1, 4}, {3, 1}, {6, 1}, {7, 2}, {10, 1}, {12, 1}, {15, 1}}
	for i := range seeds {
		s := &seeds[i]
		tn := c08Targets[s.Target].Name
		if tn != "jls-lossless" && tn != "jls-near" {
			continue
		}
		sc := c08ScanJPEG(s.Data)
		if len(sc.Ranges) == 0 {
			continue
		}
		hdrEnd := sc.Ranges[0][1]
		var sof int = -1
		for _, sg := range sc.Segs {
			if sg.Marker == 0xF7 {
				sof = sg.Off
			}
		}
		if sof < 0 || hdrEnd > len(s.Data) || sof+9 >= len(s.Data) {
			continue
		}
		three := s.Data[sof+9] == 3
		if !three && (i+int(b.c.Seed))%3 != 0 {
			continue // every 3-component stream, a third of the single-component ones
		}
		for di, d := range dims {
			if !b.c.Thorough() && ((!three && di%2 == 1) || (three && di >= 12 && (di+i)%3 != 0)) {
				continue
			}
			for _, scn := range scans {
				m := c08Clone(s.Data[:hdrEnd])
				m[sof+5], m[sof+6] = byte(d[1]>>8), byte(d[1])
				m[sof+7], m[sof+8] = byte(d[0]>>8), byte(d[0])
				m = append(m, scn...)
				if r.Intn(2) == 0 {
					m = append(m, 0xFF, 0xD9)
				}
				for _, t := range []string{"jls-lossless", "jls-near"} {
					b.add(c08TargetIdx(t), [5]uint16{uint16(d[0]), uint16(d[1]), s.FI[2], s.FI[3], 0}, m, "jls-scan-handmade", s.Name)
				}
			}
		}
	}
}

// c08RLEInfos: arbitrary frame descriptions for the RLE codec (zero and mismatching values included).
func (b *c08Builder) rleInfos(seeds []c08Seed) {
	c := b.c
	r := c.R
	t := c08TargetIdx("rle-codec")
	dims := []int{0, 1, 2, 3, 5, 7, 16, 255, 256}
	bas := []int{0, 1, 7, 8, 9, 12, 15, 16, 17, 24, 32, 33, 40, 64, 120, 128, 512, 513, 4096, 65535}
	spps := []int{0, 1, 2, 3, 4, 5, 15, 16, 255, 65535}
	for si, s := range seeds {
		if s.Target != t {
			continue
		}
		n := 60
		if c.Thorough() {
			n = 1500
		}
		for k := 0; k < n; k++ {
			fi := s.FI
			switch k % 6 {
			case 0:
				fi[0], fi[1] = uint16(r.Pick(dims)), uint16(r.Pick(dims))
			case 1:
				fi[2] = uint16(r.Pick(bas))
			case 2:
				fi[3] = uint16(r.Pick(spps))
			case 3:
				fi[4] = uint16(r.Pick([]int{0, 1, 2, 255}))
				fi[3] = uint16(r.Pick([]int{1, 3, 2}))
			case 4:
				fi = [5]uint16{uint16(r.Pick(dims)), uint16(r.Pick(dims)), uint16(r.Pick(bas)), uint16(r.Pick(spps)), uint16(r.Intn(3))}
			case 5:
				// description changed, and the segment count in the header made to agree with it
				fi[2] = uint16(r.Pick([]int{8, 16, 24, 32, 40, 120}))
				fi[3] = uint16(r.Pick([]int{1, 2, 3}))
			}
			d := s.Data
			if k%6 == 5 || r.Intn(4) == 0 {
				d = c08Clone(d)
				nseg := (int((fi[2]-1)/8) + 1) * int(fi[3])
				binary.LittleEndian.PutUint32(d[0:], uint32(nseg))
			}
			b.add(t, fi, d, "rle-frameinfo", s.Name)
		}
		// declared sizes near the C09 bound with a wrapped / huge BitsAllocated
		if si%4 == 0 {
			for _, fi := range [][5]uint16{{2048, 2048, 0, 1, 0}, {1024, 1024, 65535, 3, 0}, {2048, 2048, 8, 1, 0}, {1024, 1365, 16, 3, 1}, {512, 512, 4096, 1, 0}, {64, 64, 0, 255, 0}} {
				b.add(t, fi, s.Data, "rle-frameinfo-large", s.Name)
			}
		}
	}
}

// c08BuildJobs: the whole input set of one run (shared by C08 and C09).
func c08BuildJobs(c *hx.Ctx) []c08Job {
	b := &c08Builder{c: c, seen: map[[32]byte]struct{}{}}
	seeds := c08Corpus(c)
	c.CountN("corpus-streams", len(seeds))
	for i := range seeds {
		s := &seeds[i]
		c.Count("corpus:" + c08Targets[s.Target].Name)
		b.add(s.Target, s.FI, s.Data, "corpus", s.Name)
		tn := c08Targets[s.Target].Name
		if cn, ok := c08CodecOf[tn]; ok {
			b.add(c08TargetIdx(cn), s.FI, s.Data, "corpus", s.Name)
			b.add(c08TargetIdx(cn), [5]uint16{0, 0, s.FI[2], s.FI[3], 0}, s.Data, "corpus", s.Name)
		}
	}
	// hand-made boundary streams (shapes named in the property text) and the minimised witnesses of earlier runs
	for _, bs := range c08Boundary() {
		b.add(c08TargetIdx(bs.target), bs.fi, bs.data, "boundary", bs.name)
	}
	for _, rg := range c08LoadCorpus(c) {
		data, _ := hex.DecodeString(rg.Hex)
		ti := -1
		for i, t := range c08Targets {
			if t.Name == rg.Target {
				ti = i
			}
		}
		if ti < 0 {
			c.Count("corpus-file-unknown-target")
			continue
		}
		var fi [5]uint16
		if rg.FrameInfo != nil {
			fi = [5]uint16{rg.FrameInfo["width"], rg.FrameInfo["height"], rg.FrameInfo["bitsAllocated"], rg.FrameInfo["samplesPerPixel"], rg.FrameInfo["planar"]}
		}
		b.add(ti, fi, data, "regression", rg.Name)
		// the same witness through the sibling entry points of its family
		for tj, t := range c08Targets {
			if tj != ti && t.Family == c08Targets[ti].Family && t.Family != "rle" {
				b.add(tj, fi, data, "regression", rg.Name)
			}
		}
	}
	// 65024 quality layers declared for an 8x8 image (C09: time is not bounded by input length and S)
	for i := range seeds {
		if seeds[i].Name == "j2k-8x8-rgb-rct" || seeds[i].Name == "j2k-8x8-l1" {
			sc := c08ScanJ2K(seeds[i].Data)
			for _, sg := range sc.Segs {
				if sg.Marker == 0x52 && sg.Off+8 < len(seeds[i].Data) {
					for _, hi := range []byte{0x20, 0xFE} {
						m := c08Clone(seeds[i].Data)
						m[sg.Off+6], m[sg.Off+7] = hi, 0x00
						b.add(seeds[i].Target, seeds[i].FI, m, "boundary", seeds[i].Name+"+layers")
					}
				}
			}
		}
	}
	for i := range seeds {
		s := &seeds[i]
		light := s.Fixture && !c.Thorough()
		if fam0 := c08Targets[s.Target].Family; fam0 == "j2k" && !c.Thorough() && !s.Fixture && (i+int(c.Seed))%3 != 0 {
			// a JPEG 2000 decode costs 10-100 ms even for an 8x8 image: the quick tier gives the full operator set to a
			// rotating third of the JPEG 2000 corpus and the thin one to the rest
			light = true
		}
		if s.Fixture && !c.Thorough() && len(s.Data) > 40000 {
			continue // the 888x459 fixtures take seconds per decode: thorough tier only
		}
		b.mutate(s, s.Target, light)
		fam := c08Targets[s.Target].Family
		if fam == "jpeg" {
			b.dhtMutations(s, s.Target)
		}
		// the same mutations, thinned, through the sibling entry points of the family and the DICOM codec wrapper
		for ti, t := range c08Targets {
			if ti == s.Target || t.Family != fam || fam == "rle" {
				continue
			}
			if strings.HasPrefix(t.Name, "codec-") && c08CodecOf[c08Targets[s.Target].Name] != t.Name {
				continue
			}
			if s.Fixture {
				continue
			}
			if (i+ti)%3 == int(c.Seed%3) || (c.Thorough() && (i+ti)%2 == int(c.Seed%2)) {
				b.mutate(s, ti, true)
			}
		}
	}
	b.randomPrefixed(seeds)
	b.rleInfos(seeds)
	b.rleControls(seeds)
	b.j2kCodingStyleSweep(seeds)
	b.j2kGridOffsets(seeds)
	b.j2kPart2(seeds)
	b.j2kMctStages()
	b.j2kPacketHeaders()
	b.headerCounts(seeds)
	b.secondFrameHeaders(seeds)
	b.j2kDegenerateGeometry()
	b.jlsScans(seeds)
	if only := os.Getenv("C08_ONLY"); only != "" { // analysis aid: restrict to some entry points
		var js []c08Job
		for _, j := range b.jobs {
			if strings.Contains(","+only+",", ","+c08Targets[j.Target].Name+",") {
				js = append(js, j)
			}
		}
		b.jobs = js
	}
	c.CountN("jobs", len(b.jobs))
	return b.jobs
}

type c08BoundaryCase struct {
	name, target string
	fi           [5]uint16
	data         []byte
}

// c08Boundary: tiny hand-assembled streams for shapes the property text names (segment length 0/1,
// tile size 0, 2^32-1 extents with a tiny body, subsampling factor 0, precision 0 / > 16).
func c08Boundary() []c08BoundaryCase {
	var out []c08BoundaryCase
	siz := func(xs, ys, xo, yo, xt, yt uint32, csiz uint16, ssiz, xr, yr byte) []byte {
		b := []byte{0xFF, 0x4F, 0xFF, 0x51}
		l := 38 + 3*int(csiz)
		if l > 0xffff {
			l = 0xffff
		}
		b = append(b, byte(l>>8), byte(l), 0, 0)
		for _, v := range []uint32{xs, ys, xo, yo, xt, yt, 0, 0} {
			b = binary.BigEndian.AppendUint32(b, v)
		}
		b = append(b, byte(csiz>>8), byte(csiz))
		for k := 0; k < int(csiz) && k < 4; k++ {
			b = append(b, ssiz, xr, yr)
		}
		return b
	}
	tail := []byte{0xFF, 0x52, 0, 12, 0, 0, 0, 1, 0, 0, 2, 2, 0, 1, 0xFF, 0x5C, 0, 4, 0x40, 0x40,
		0xFF, 0x90, 0, 10, 0, 0, 0, 0, 0, 0, 0, 1, 0xFF, 0x93, 0x80, 0x80, 0xFF, 0xD9}
	for _, tc := range []struct {
		n string
		b []byte
	}{
		{"siz-xt0", siz(8, 8, 0, 0, 0, 8, 1, 7, 1, 1)},
		{"siz-yt0", siz(8, 8, 0, 0, 8, 0, 1, 7, 1, 1)},
		{"siz-csiz0", siz(8, 8, 0, 0, 8, 8, 0, 7, 1, 1)},
		{"siz-xr0", siz(8, 8, 0, 0, 8, 8, 1, 7, 0, 1)},
		{"siz-yr0", siz(8, 8, 0, 0, 8, 8, 1, 7, 1, 0)},
		{"siz-max-extent", siz(0xFFFFFFFF, 0xFFFFFFFF, 0, 0, 0xFFFFFFFF, 0xFFFFFFFF, 1, 7, 1, 1)},
		{"siz-max-extent-tile1", siz(0xFFFFFFFF, 0xFFFFFFFF, 0, 0, 1, 1, 1, 7, 1, 1)},
		{"siz-offset-gt-size", siz(8, 8, 9, 9, 8, 8, 1, 7, 1, 1)},
		{"siz-2048-tile1", siz(2048, 2048, 0, 0, 1, 1, 1, 7, 1, 1)},
		{"siz-2048-1comp-prec38", siz(2048, 2048, 0, 0, 2048, 2048, 1, 37, 1, 1)},
		{"siz-16384comps", siz(16, 16, 0, 0, 16, 16, 16384, 7, 1, 1)},
		{"siz-xr255", siz(2048, 2048, 0, 0, 2048, 2048, 1, 7, 255, 255)},
	} {
		out = append(out, c08BoundaryCase{"j2k-" + tc.n, "j2k", [5]uint16{}, append(c08Clone(tc.b), tail...)})
		out = append(out, c08BoundaryCase{"j2k-" + tc.n + "-bare", "j2k", [5]uint16{}, tc.b})
	}
	for _, l := range []int{0, 1, 2, 3} {
		b := siz(8, 8, 0, 0, 8, 8, 1, 7, 1, 1)
		for k := 0; k < 40; k++ {
			b = append(b, 0xFF, 0x64, byte(l>>8), byte(l))
		}
		out = append(out, c08BoundaryCase{fmt.Sprintf("j2k-com-length-%d-x40", l), "j2k", [5]uint16{}, append(b, tail...)})
	}
	// RLE: frame descriptions whose byte size wraps / explodes
	rleHdr := make([]byte, 66)
	rleHdr[0], rleHdr[4] = 1, 64
	for _, f := range [][5]uint16{{65535, 65535, 0, 65535, 0}, {65535, 65535, 8, 3, 0}, {65535, 65535, 65535, 1, 1}, {1, 1, 0, 1, 0}, {0, 0, 0, 0, 0}, {1, 1, 8, 0, 0}, {4096, 1024, 0, 1, 0}} {
		out = append(out, c08BoundaryCase{fmt.Sprintf("rle-fi-%v", f), "rle-codec", f, rleHdr})
	}
	// JPEG family
	sof := func(marker, prec byte, h, w int, comps []byte) []byte {
		b := []byte{0xFF, 0xD8, 0xFF, marker}
		l := 8 + len(comps)
		b = append(b, byte(l>>8), byte(l), prec, byte(h>>8), byte(h), byte(w>>8), byte(w), byte(len(comps)/3))
		return append(b, comps...)
	}
	for _, t := range []string{"jpeg-baseline", "jpeg-extended", "jpeg-lossless", "jpeg-sv1", "jls-lossless", "jls-near"} {
		markers := []byte{0xC0, 0xC1, 0xC3, 0xF7}
		for _, mk := range markers {
			for _, prec := range []byte{0, 1, 8, 12, 16, 17, 32, 64, 255} {
				for _, hv := range []byte{0x11, 0x00, 0x10, 0x01, 0x44, 0xFF} {
					b := sof(mk, prec, 2, 2, []byte{1, hv, 0})
					b = append(b, 0xFF, 0xDA, 0, 8, 1, 1, 0x00, 0, 63, 0, 0x12, 0x34, 0xFF, 0xD9)
					out = append(out, c08BoundaryCase{fmt.Sprintf("%s-sof%02x-p%d-hv%02x", t, mk, prec, hv), t, [5]uint16{}, b})
				}
			}
			b := sof(mk, 8, 2048, 2048, []byte{1, 0x11, 0})
			out = append(out, c08BoundaryCase{fmt.Sprintf("%s-sof%02x-2048sq-eoi", t, mk), t, [5]uint16{}, append(c08Clone(b), 0xFF, 0xD9)})
			out = append(out, c08BoundaryCase{fmt.Sprintf("%s-sof%02x-2048sq-sos", t, mk), t, [5]uint16{}, append(c08Clone(b), 0xFF, 0xDA, 0, 8, 1, 1, 0, 1, 0, 0, 0, 0)})
			// many frame headers in one short stream
			var rep []byte
			rep = append(rep, 0xFF, 0xD8)
			for k := 0; k < 200; k++ {
				rep = append(rep, sof(mk, 8, 1024, 1024, []byte{1, 0x11, 0, 2, 0x11, 0, 3, 0x11, 0})[2:]...)
			}
			out = append(out, c08BoundaryCase{fmt.Sprintf("%s-sof%02x-x200", t, mk), t, [5]uint16{}, rep})
		}
		for _, l := range []int{0, 1, 2} {
			b := []byte{0xFF, 0xD8}
			for k := 0; k < 50; k++ {
				b = append(b, 0xFF, 0xE0, byte(l>>8), byte(l))
			}
			out = append(out, c08BoundaryCase{fmt.Sprintf("%s-app0-length-%d-x50", t, l), t, [5]uint16{}, b})
		}
		fill := []byte{0xFF, 0xD8}
		for k := 0; k < 3000; k++ {
			fill = append(fill, 0xFF)
		}
		out = append(out, c08BoundaryCase{t + "-fill-bytes", t, [5]uint16{}, append(fill, 0xD9)})
	}
	return out
}

// ------------------------------------------------------------------------------------ evaluation

func c08InputMap(j *c08Job) map[string]any {
	m := map[string]any{"target": c08Targets[j.Target].Name, "hex": hx.Hex(j.Data), "len": len(j.Data), "operator": j.Origin, "base": j.Base, "declaredS": j.S}
	t := c08Targets[j.Target]
	if t.Family == "rle" || strings.HasPrefix(t.Name, "codec-") {
		m["frameInfo"] = map[string]any{"width": j.FI[0], "height": j.FI[1], "bitsAllocated": j.FI[2], "samplesPerPixel": j.FI[3], "planar": j.FI[4]}
	}
	return m
}

func c08Class(r *c08Res) string {
	site := r.Site
	site = strings.ReplaceAll(site, "/", ".")
	return site + "-" + r.Kind
}

// c08Minimise shrinks a panicking input while the (site, kind) class is preserved.
func c08Minimise(j c08Job, class string) c08Job {
	try := func(cands [][]byte) []byte {
		if len(cands) == 0 {
			return nil
		}
		js := make([]c08Job, len(cands))
		for i, d := range cands {
			js[i] = j
			js[i].Data = d
			js[i].S = c08ScanFor(c08Targets[j.Target].Family, d, j.FI).S
			if js[i].S <= c09SMax {
				js[i].S = c09SMax + 1 // short watchdog while shrinking
			}
		}
		rs := c09RunJobs(js, 8)
		var best []byte
		for i := range rs {
			if rs[i].Outcome == "panic" && c08Class(&rs[i]) == class {
				if best == nil || len(cands[i]) < len(best) {
					best = cands[i]
				}
			}
		}
		return best
	}
	cur := j.Data
	for round := 0; round < 6; round++ {
		var cands [][]byte
		// prefixes
		step := 1
		if len(cur) > 600 {
			step = len(cur) / 600
		}
		for k := 0; k < len(cur); k += step {
			cands = append(cands, c08Clone(cur[:k]))
		}
		// segment removal
		sc := c08ScanFor(c08Targets[j.Target].Family, cur, j.FI)
		for _, sg := range sc.Segs {
			e := sg.Off + 2 + sg.Len
			if sg.HasLen && sg.Len >= 2 && e <= len(cur) {
				cands = append(cands, append(c08Clone(cur[:sg.Off]), cur[e:]...))
			}
		}
		// chunk removal
		for _, sz := range []int{64, 16, 4, 1} {
			if len(cur) > 2000 && sz < 16 {
				continue
			}
			for k := 2; k+sz <= len(cur); k += sz {
				cands = append(cands, append(c08Clone(cur[:k]), cur[k+sz:]...))
			}
		}
		best := try(cands)
		if best == nil || len(best) >= len(cur) {
			break
		}
		cur = best
	}
	j.Data = cur
	j.S = c08ScanFor(c08Targets[j.Target].Family, cur, j.FI).S
	return j
}

func c08Main(c *hx.Ctx) {
	c.Rule = "one evaluation = one decode of one (entry point, byte string[, FrameInfo]) under recover() in a child process; " +
		"distinct = distinct (entry point, FrameInfo, bytes); non-trivial = a mutation (not a bare corpus stream) of at least 4 bytes. " +
		"Inputs: corpus of the repo's own encoders' streams for every codec x geometry class + test-data fixtures; operators: truncation at every offset, " +
		"every header byte x value set (thorough: all 256 for headers ≤ 220 bytes), entropy bit flips, 0xFF/marker injection, segment length edits, " +
		"segment delete/duplicate/swap/grow/shrink, multi-byte header edits, random strings behind SOI/SOC, arbitrary RLE FrameInfo, hand-made boundary headers"
	t0 := time.Now()
	jobs := c08BuildJobs(c)
	t1 := time.Now()
	res := c09Pass(c, jobs, 0)
	t2 := time.Now()
	defer func() {
		c.Notes = append(c.Notes, fmt.Sprintf("phases: build jobs %.1fs, run %.1fs, classify+minimise+correspondence %.1fs", t1.Sub(t0).Seconds(), t2.Sub(t1).Seconds(), time.Since(t2).Seconds()))
	}()
	c08Dump(jobs, res)
	type hit struct {
		idx   int
		count int
	}
	classes := map[string]*hit{}
	okCorpus, nCorpus := 0, 0
	for i := range jobs {
		j, r := &jobs[i], &res[i]
		tname := c08Targets[j.Target].Name
		c.Count("target:" + tname)
		c.Count("op:" + j.Origin)
		c.Count("outcome:" + r.Outcome)
		if j.Origin == "corpus" && !strings.HasPrefix(tname, "codec-") {
			nCorpus++
			if r.Outcome == "ok" {
				okCorpus++
			} else {
				c.Count("corpus-not-decoded:" + j.Base + ":" + r.Outcome)
			}
		}
		c.Eval(fmt.Sprintf("%d|%v|%x", j.Target, j.FI, j.Data), j.Origin != "corpus" && len(j.Data) >= 4)
		if r.Outcome == "timeout" || r.Outcome == "hang" || r.Outcome == "slow>4s" || strings.HasPrefix(r.Outcome, "crash") {
			if j.S > c09SMax {
				c.Count("inconclusive:declared-S>2^22:" + r.Outcome)
			} else {
				c.Count("no-answer(C09's business):" + r.Outcome)
			}
			// (a silent death of an input declaring more than 2^22 samples is the memory kill switch or the
			// kernel's, not a verdict)
			if r.Outcome == "crash" && !strings.Contains(r.Text, "out of memory") && !(j.S > c09SMax && strings.TrimSpace(r.Text) == "") {
				// a death that is not an OOM abort (e.g. stack overflow, fatal error) is not a return either
				cl := "process-death-" + tname
				if h, ok := classes[cl]; ok {
					h.count++
				} else {
					classes[cl] = &hit{idx: i, count: 1}
				}
			}
			continue
		}
		if r.Outcome == "panic" {
			cl := c08Class(r)
			h, ok := classes[cl]
			if !ok {
				classes[cl] = &hit{idx: i, count: 1}
			} else {
				h.count++
				if len(jobs[i].Data) < len(jobs[h.idx].Data) {
					h.idx = i
				}
			}
		}
	}
	c.Sample(map[string]any{"corpus_streams_decoded_ok": okCorpus, "corpus_streams": nCorpus, "jobs": len(jobs),
		"children_spawned": c09Stats.spawned, "watchdog_kills": c09Stats.timeouts, "child_deaths": c09Stats.crashes})
	names := make([]string, 0, len(classes))
	for k := range classes {
		names = append(names, k)
	}
	sort.Strings(names)
	for _, cl := range names {
		h := classes[cl]
		j, r := jobs[h.idx], res[h.idx]
		c.CountN("panic-class:"+cl, h.count)
		if r.Outcome == "panic" {
			mj := c08Minimise(j, cl)
			in := c08InputMap(&mj)
			in["found_as"] = map[string]any{"operator": j.Origin, "base": j.Base, "len": len(j.Data)}
			in["hits_this_run"] = h.count
			c.Fail(hx.Failure{Class: cl, What: fmt.Sprintf("panic in %s at %s: %s", r.Site, r.Line, r.Text), Input: in,
				Expected: "a result or an error", Actual: "panic: " + r.Text})
		} else {
			c.Fail(hx.Failure{Class: cl, What: "the decoding process died without returning: " + r.Text, Input: c08InputMap(&j),
				Expected: "a result or an error", Actual: r.Outcome})
		}
	}
	c08Correspondence(c)
}

func init() { register("C08", c08Main) }

// c08Dump writes one line per job when C08_DUMP names a file (analysis aid).
func c08Dump(jobs []c08Job, res []c08Res) {
	p := os.Getenv("C08_DUMP")
	if p == "" {
		return
	}
	f, err := os.Create(p)
	if err != nil {
		return
	}
	defer f.Close()
	for i := range jobs {
		fmt.Fprintf(f, "%s\t%s\t%s\t%d\t%s\t%d\t%d\t%s\t%s\t%s\t%v\n", c08Targets[jobs[i].Target].Name, jobs[i].Origin, jobs[i].Base, jobs[i].S,
			res[i].Outcome, res[i].Ns, res[i].Alloc, res[i].Site, res[i].Kind, hx.Hex(jobs[i].Data[:min(len(jobs[i].Data), c08DumpLen(res[i].Outcome))]), jobs[i].FI)
	}
}

func c08DumpLen(outcome string) int {
	if outcome == "ok" || outcome == "err" {
		return 120
	}
	return 4000
}

// c08CorpusFile: one committed minimised witness under corpus/C08/ (replayed first in every run, so that a
// repaired class is seen to stay repaired — and a known one re-observed — independently of this run's sampling).
type c08CorpusFile struct {
	Name      string            `json:"name"`
	Target    string            `json:"target"`
	Hex       string            `json:"hex"`
	FrameInfo map[string]uint16 `json:"frameInfo"`
}

func c08LoadCorpus(c *hx.Ctx) []c08CorpusFile {
	var out []c08CorpusFile
	for _, dir := range []string{os.Getenv("VERIF_CORPUS"), filepath.Join("..", "corpus", "C08"), filepath.Join("corpus", "C08")} {
		if dir == "" {
			continue
		}
		ms, _ := filepath.Glob(filepath.Join(dir, "*.json"))
		if len(ms) == 0 {
			continue
		}
		sort.Strings(ms)
		for _, m := range ms {
			b, err := os.ReadFile(m)
			if err != nil {
				continue
			}
			var f c08CorpusFile
			if json.Unmarshal(b, &f) == nil && f.Target != "" {
				out = append(out, f)
			}
		}
		break
	}
	c.CountN("corpus-files(corpus/C08)", len(out))
	return out
}
