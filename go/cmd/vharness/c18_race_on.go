//go:build race

package main

// c18RaceBuild: this binary was built with -race (the C18RACE child)
const c18RaceBuild = true
