package main

// An independent JPEG-LS decoder written from ITU-T T.87 (ISO/IEC 14495-1): Annex A decoding
// procedures (A.2–A.7), Annex C marker segments and the C.2.4.1.1 default parameters.
// It shares no code with github.com/cocosip/go-dicom-codecs: own marker parser, own bit reader,
// own parameter derivation, own context modelling.  Supported: one scan, Ns = 1 (ILV = 0) or
// Ns = Nf with ILV = 2 (sample interleave), no LSE, no restart markers, point transform 0.
//
// Two T.87 readings that matter and are not spelled out as code in Annex A:
//   * A.7.2.1: the Golomb limit of the run-interruption sample is LIMIT − J[RUNindex] − 1 with
//     RUNindex taken BEFORE the decrement of A.7.1.2 (code segment A.15).
//   * sample-interleaved scans: a run is a run in all components; the interruption sample of
//     every component is coded with RItype = 0 (CharLS and libjpeg both read the standard so).

import "fmt"

type c14Image struct {
	W, H, C, P, Near, ILV int
	S                     []int // pixel-interleaved
}

type c14Bits struct {
	d      []byte
	pos    int
	bitPos int // bits already consumed of d[pos] (0..8)
	nbits  int // bits available in d[pos]: 8, or 7 after a 0xFF byte
	err    error
}

func c14NewBits(d []byte) *c14Bits { return &c14Bits{d: d, nbits: 8} }

// T.87 A.1 / C.1: after a byte 0xFF a zero bit is stuffed, i.e. the next byte carries 7 bits;
// 0xFF followed by a byte >= 0x80 is a marker (end of the entropy-coded segment).
func (b *c14Bits) bit() int {
	if b.err != nil {
		return 0
	}
	for {
		if b.pos >= len(b.d) {
			b.err = fmt.Errorf("out of data")
			return 0
		}
		if b.bitPos == 0 && b.d[b.pos] == 0xFF && b.nbits == 8 {
			if b.pos+1 >= len(b.d) || b.d[b.pos+1] >= 0x80 {
				b.err = fmt.Errorf("marker in scan")
				return 0
			}
		}
		if b.bitPos < b.nbits {
			break
		}
		prevFF := b.d[b.pos] == 0xFF
		b.pos++
		b.bitPos = 0
		b.nbits = 8
		if prevFF {
			b.nbits = 7
		}
	}
	shift := b.nbits - 1 - b.bitPos
	v := int(b.d[b.pos]>>uint(shift)) & 1
	b.bitPos++
	return v
}

func (b *c14Bits) bits(n int) int {
	v := 0
	for i := 0; i < n; i++ {
		v = v<<1 | b.bit()
	}
	return v
}

type c14Params struct {
	MAXVAL, NEAR, RANGE, qbpp, bpp, LIMIT, T1, T2, T3, RESET int
}

func c14CeilLog2(n int) int { // smallest k with 2^k >= n
	k := 0
	for (1 << uint(k)) < n {
		k++
	}
	return k
}

// T.87 C.2.4.1.1.1 (Table C.3, Figure C.3) and A.2.1
func c14Defaults(maxval, near int) c14Params {
	p := c14Params{MAXVAL: maxval, NEAR: near, RESET: 64}
	clamp := func(i, j int) int { // Figure C.3: if (i > MAXVAL || i < j) return j
		if i > maxval || i < j {
			return j
		}
		return i
	}
	const bT1, bT2, bT3 = 3, 7, 21
	if maxval >= 128 {
		f := (min(maxval, 4095) + 128) / 256
		p.T1 = clamp(f*(bT1-2)+2+3*near, near+1)
		p.T2 = clamp(f*(bT2-3)+3+5*near, p.T1)
		p.T3 = clamp(f*(bT3-4)+4+7*near, p.T2)
	} else {
		f := 256 / (maxval + 1)
		p.T1 = clamp(max(2, bT1/f+3*near), near+1)
		p.T2 = clamp(max(3, bT2/f+5*near), p.T1)
		p.T3 = clamp(max(4, bT3/f+7*near), p.T2)
	}
	p.RANGE = (maxval+2*near)/(2*near+1) + 1
	p.qbpp = c14CeilLog2(p.RANGE)
	p.bpp = max(2, c14CeilLog2(maxval+1))
	p.LIMIT = 2 * (p.bpp + max(8, p.bpp))
	return p
}

var c14J = [32]int{0, 0, 0, 0, 1, 1, 1, 1, 2, 2, 2, 2, 3, 3, 3, 3, 4, 4, 5, 5, 6, 6, 7, 7, 8, 9, 10, 11, 12, 13, 14, 15}

type c14State struct {
	p        c14Params
	A, B, C  [367]int
	N, Nn    [367]int
	RUNindex int
	br       *c14Bits
	// branch counters for the harness' distribution report
	escapes, resets, cSat, runIdxMax, interruptions, eolRuns int
	intByIdx, intEscByIdx               [32]int // run interruptions (and those coded with the LIMIT escape) per RUNindex
}

func c14NewState(p c14Params, br *c14Bits) *c14State {
	s := &c14State{p: p, br: br}
	a0 := max(2, (p.RANGE+32)/64)
	for i := range s.A {
		s.A[i] = a0
		s.N[i] = 1
	}
	return s
}

// A.5.3 limited-length Golomb code LG(k, glimit)
func (s *c14State) golomb(k, glimit int) int {
	z := 0
	for s.br.bit() == 0 {
		if s.br.err != nil {
			return 0
		}
		z++
		if z > 200 {
			s.br.err = fmt.Errorf("unary too long")
			return 0
		}
	}
	if z < glimit-s.p.qbpp-1 {
		return z<<uint(k) | s.br.bits(k)
	}
	s.escapes++
	return s.br.bits(s.p.qbpp) + 1
}

func (s *c14State) fixRx(rx int) int { // A.4.5 / A.7.2: modulo reduction then clamp
	p := s.p
	if rx < -p.NEAR {
		rx += p.RANGE * (2*p.NEAR + 1)
	} else if rx > p.MAXVAL+p.NEAR {
		rx -= p.RANGE * (2*p.NEAR + 1)
	}
	if rx < 0 {
		rx = 0
	} else if rx > p.MAXVAL {
		rx = p.MAXVAL
	}
	return rx
}

func (s *c14State) quant(d int) int { // A.3.3
	p := s.p
	switch {
	case d <= -p.T3:
		return -4
	case d <= -p.T2:
		return -3
	case d <= -p.T1:
		return -2
	case d < -p.NEAR:
		return -1
	case d <= p.NEAR:
		return 0
	case d < p.T1:
		return 1
	case d < p.T2:
		return 2
	case d < p.T3:
		return 3
	}
	return 4
}

// regular mode, A.4–A.6
func (s *c14State) regular(q1, q2, q3, ra, rb, rc int) int {
	p := s.p
	sign := 1
	if q1 < 0 || (q1 == 0 && (q2 < 0 || (q2 == 0 && q3 < 0))) { // A.3.4
		sign = -1
		q1, q2, q3 = -q1, -q2, -q3
	}
	q := 81*q1 + 9*q2 + q3 // one-to-one onto 1..364
	var px int             // A.4.1
	switch {
	case rc >= max(ra, rb):
		px = min(ra, rb)
	case rc <= min(ra, rb):
		px = max(ra, rb)
	default:
		px = ra + rb - rc
	}
	if sign == 1 { // A.4.2
		px += s.C[q]
	} else {
		px -= s.C[q]
	}
	if px > p.MAXVAL {
		px = p.MAXVAL
	} else if px < 0 {
		px = 0
	}
	k := 0 // A.5.1
	for (s.N[q] << uint(k)) < s.A[q] {
		k++
		if k > 32 { // only reachable on a corrupted stream
			s.br.err = fmt.Errorf("Golomb parameter out of range")
			return 0
		}
	}
	m := s.golomb(k, p.LIMIT)
	var e int // A.5.2 inverse
	if p.NEAR == 0 && k == 0 && 2*s.B[q] <= -s.N[q] {
		if m%2 == 1 {
			e = (m - 1) / 2
		} else {
			e = -(m / 2) - 1
		}
	} else {
		if m%2 == 0 {
			e = m / 2
		} else {
			e = -((m + 1) / 2)
		}
	}
	// A.6.1
	s.B[q] += e * (2*p.NEAR + 1)
	if e < 0 {
		s.A[q] -= e
	} else {
		s.A[q] += e
	}
	if s.N[q] == p.RESET {
		s.resets++
		s.A[q] >>= 1
		if s.B[q] >= 0 {
			s.B[q] >>= 1
		} else {
			s.B[q] = -((1 - s.B[q]) >> 1)
		}
		s.N[q] >>= 1
	}
	s.N[q]++
	// A.6.2
	if s.B[q] <= -s.N[q] {
		s.B[q] += s.N[q]
		if s.C[q] > -128 {
			s.C[q]--
		} else {
			s.cSat++
		}
		if s.B[q] <= -s.N[q] {
			s.B[q] = -s.N[q] + 1
		}
	} else if s.B[q] > 0 {
		s.B[q] -= s.N[q]
		if s.C[q] < 127 {
			s.C[q]++
		} else {
			s.cSat++
		}
		if s.B[q] > 0 {
			s.B[q] = 0
		}
	}
	return s.fixRx(px + sign*e*(2*p.NEAR+1))
}

// run interruption sample, A.7.2; ritype forced by the caller for sample-interleaved scans
func (s *c14State) interruption(ra, rb, ritype, runIndexBefore int) int {
	p := s.p
	s.interruptions++
	q := 365 + ritype
	temp := s.A[q]
	if ritype == 1 {
		temp += s.N[q] >> 1
	}
	k := 0
	for (s.N[q] << uint(k)) < temp {
		k++
		if k > 32 {
			s.br.err = fmt.Errorf("Golomb parameter out of range")
			return 0
		}
	}
	escBefore := s.escapes
	em := s.golomb(k, p.LIMIT-c14J[runIndexBefore]-1)
	s.intByIdx[runIndexBefore]++
	if s.escapes > escBefore {
		s.intEscByIdx[runIndexBefore]++
	}
	t := em + ritype
	mp := t & 1
	ab := (t + mp) / 2
	cnd := k == 0 && 2*s.Nn[q] < s.N[q] // encoder: Errval>0 -> map = cnd ; Errval<0 -> map = !cnd
	e := ab
	if (mp == 1) != cnd {
		e = -ab
	}
	// A.7.2 update (code segment A.23)
	if e < 0 {
		s.Nn[q]++
	}
	s.A[q] += (em + 1 - ritype) >> 1
	if s.N[q] == p.RESET {
		s.A[q] >>= 1
		s.N[q] >>= 1
		s.Nn[q] >>= 1
	}
	s.N[q]++
	px, sign := rb, 1
	if ritype == 1 {
		px = ra
	} else if ra > rb {
		sign = -1
	}
	return s.fixRx(px + sign*e*(2*p.NEAR+1))
}

// run length, A.7.1.2: returns the number of run samples (all equal to Ra) and whether the run
// was ended by the end of the line.
func (s *c14State) runLength(remaining int) (n int, eol bool) {
	for s.br.bit() == 1 {
		if s.br.err != nil {
			return n, true
		}
		full := 1 << uint(c14J[s.RUNindex])
		cnt := min(full, remaining-n)
		n += cnt
		if cnt == full && s.RUNindex < 31 {
			s.RUNindex++
			if s.RUNindex > s.runIdxMax {
				s.runIdxMax = s.RUNindex
			}
		}
		if n == remaining {
			s.eolRuns++
			return n, true
		}
	}
	n += s.br.bits(c14J[s.RUNindex])
	return n, false
}

func c14Abs(x int) int {
	if x < 0 {
		return -x
	}
	return x
}

// c14Decode parses the JPEG-LS interchange format and decodes the single scan.
func c14Decode(d []byte) (img c14Image, st *c14State, err error) {
	rd16 := func(o int) int { return int(d[o])<<8 | int(d[o+1]) }
	if len(d) < 4 || d[0] != 0xFF || d[1] != 0xD8 {
		return img, nil, fmt.Errorf("no SOI")
	}
	pos := 2
	haveSOF := false
	for {
		if pos+4 > len(d) || d[pos] != 0xFF {
			return img, nil, fmt.Errorf("marker expected at %d", pos)
		}
		mk := d[pos+1]
		l := rd16(pos + 2)
		if pos+2+l > len(d) {
			return img, nil, fmt.Errorf("segment overruns")
		}
		seg := d[pos+4 : pos+2+l]
		pos += 2 + l
		switch mk {
		case 0xF7: // SOF55, C.2.2
			if len(seg) < 6 {
				return img, nil, fmt.Errorf("short SOF")
			}
			img.P, img.H, img.W, img.C = int(seg[0]), int(seg[1])<<8|int(seg[2]), int(seg[3])<<8|int(seg[4]), int(seg[5])
			if len(seg) != 6+3*img.C {
				return img, nil, fmt.Errorf("SOF length")
			}
			for i := 0; i < img.C; i++ {
				if seg[6+3*i+1] != 0x11 {
					return img, nil, fmt.Errorf("sub-sampling not supported")
				}
			}
			haveSOF = true
		case 0xF8:
			return img, nil, fmt.Errorf("LSE not supported by this reference")
		case 0xDA: // SOS, C.2.3
			if !haveSOF {
				return img, nil, fmt.Errorf("SOS before SOF")
			}
			ns := int(seg[0])
			if len(seg) != 1+2*ns+3 {
				return img, nil, fmt.Errorf("SOS length")
			}
			img.Near, img.ILV = int(seg[1+2*ns]), int(seg[2+2*ns])
			if seg[3+2*ns] != 0 {
				return img, nil, fmt.Errorf("point transform not supported")
			}
			if ns != img.C || (ns == 1 && img.ILV != 0) || (ns > 1 && img.ILV != 2) {
				return img, nil, fmt.Errorf("scan layout ns=%d ilv=%d not supported", ns, img.ILV)
			}
			if img.P < 2 || img.P > 16 || img.W < 1 || img.H < 1 {
				return img, nil, fmt.Errorf("frame parameters")
			}
			st, err = c14Scan(&img, d[pos:])
			return img, st, err
		default:
			// other segments are skipped
		}
	}
}

func c14Scan(img *c14Image, d []byte) (*c14State, error) {
	maxval := (1 << uint(img.P)) - 1
	p := c14Defaults(maxval, img.Near)
	br := c14NewBits(d)
	s := c14NewState(p, br)
	w, h, nc := img.W, img.H, img.C
	img.S = make([]int, w*h*nc)
	// per component: previous and current line with one guard sample on each side (A.2.2 edge rules)
	prev := make([][]int, nc)
	cur := make([][]int, nc)
	for c := range prev {
		prev[c] = make([]int, w+2)
		cur[c] = make([]int, w+2)
	}
	for y := 0; y < h; y++ {
		for c := 0; c < nc; c++ {
			// Ra at the start of the line = Rb; Rc there = Ra at the start of the previous line;
			// Rd at the end of the line = Rb
			cur[c][0] = prev[c][1]
			prev[c][w+1] = prev[c][w]
		}
		x := 1
		for x <= w {
			allRun := true
			var q [3][3]int
			for c := 0; c < nc; c++ {
				ra, rb, rc, rdd := cur[c][x-1], prev[c][x], prev[c][x-1], prev[c][x+1]
				d1, d2, d3 := rdd-rb, rb-rc, rc-ra
				if c14Abs(d1) > p.NEAR || c14Abs(d2) > p.NEAR || c14Abs(d3) > p.NEAR {
					allRun = false
				}
				q[c] = [3]int{s.quant(d1), s.quant(d2), s.quant(d3)}
			}
			if !allRun {
				for c := 0; c < nc; c++ {
					cur[c][x] = s.regular(q[c][0], q[c][1], q[c][2], cur[c][x-1], prev[c][x], prev[c][x-1])
				}
				x++
			} else {
				n, eol := s.runLength(w - x + 1)
				if n > w-x+1 {
					return s, fmt.Errorf("run exceeds line")
				}
				for i := 0; i < n; i++ {
					for c := 0; c < nc; c++ {
						cur[c][x+i] = cur[c][x-1]
					}
				}
				x += n
				if !eol {
					if x > w {
						return s, fmt.Errorf("interruption beyond line")
					}
					before := s.RUNindex
					for c := 0; c < nc; c++ {
						ra, rb := cur[c][x-1], prev[c][x]
						rit := 0
						if nc == 1 && c14Abs(ra-rb) <= p.NEAR {
							rit = 1
						}
						cur[c][x] = s.interruption(ra, rb, rit, before)
					}
					if s.RUNindex > 0 {
						s.RUNindex--
					}
					x++
				}
			}
			if br.err != nil {
				return s, br.err
			}
		}
		for c := 0; c < nc; c++ {
			for x := 1; x <= w; x++ {
				img.S[((y*w)+(x-1))*nc+c] = cur[c][x]
			}
			prev[c], cur[c] = cur[c], prev[c]
		}
	}
	return s, nil
}
