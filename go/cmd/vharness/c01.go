package main

import (
	"bytes"
	"fmt"

	"github.com/cocosip/go-dicom-codecs/codec"
	"github.com/cocosip/go-dicom-codecs/rle"
	"github.com/cocosip/go-dicom/pkg/imaging/imagetypes"

	"verifharness/internal/hx"
)

type rleInfo struct{ W, H, BA, SPP, PL int }

func (i rleInfo) frameInfo() *imagetypes.FrameInfo {
	return &imagetypes.FrameInfo{Width: uint16(i.W), Height: uint16(i.H), BitsAllocated: uint16(i.BA),
		BitsStored: uint16(i.BA), HighBit: uint16(i.BA - 1), SamplesPerPixel: uint16(i.SPP), PlanarConfiguration: uint16(i.PL)}
}
func (i rleInfo) native() int { return ((i.BA-1)/8 + 1) * i.SPP * i.W * i.H }
func (i rleInfo) op(kind string, data []byte) string {
	return fmt.Sprintf("%s %d %d %d %d %d %s", kind, i.W, i.H, i.BA, i.SPP, i.PL, hx.Hex(data))
}

// rleReal runs Codec.Encode / Codec.Decode on one frame through the public API.
func rleReal(enc bool, i rleInfo, data []byte) (out []byte, outcome string) {
	c := rle.NewRLECodec()
	src := codec.NewTestPixelData(i.frameInfo())
	_ = src.AddFrame(data)
	dst := codec.NewTestPixelData(i.frameInfo())
	var err error
	p, msg := hx.Guard(func() {
		if enc {
			err = c.Encode(src, dst, nil)
		} else {
			err = c.Decode(src, dst, nil)
		}
	})
	if p {
		return nil, "panic " + msg
	}
	if err != nil {
		return nil, "err"
	}
	f, _ := dst.GetFrame(0)
	return f, "ok"
}

func outcomeLine(out []byte, oc string) string {
	switch {
	case oc == "ok":
		return "ok " + hx.Hex(out)
	case oc == "err":
		return "err"
	default:
		return "panic"
	}
}

// annexG is an independent reader written from PS3.5 Annex G: header, segment table, PackBits.
// It returns the byte planes (most significant byte plane first per sample) or an error text.
func annexG(stream []byte, planes, pixels int) ([][]byte, string) {
	if len(stream)%2 != 0 {
		return nil, "odd stream length"
	}
	if len(stream) < 64 {
		return nil, "short header"
	}
	le := func(o int) int {
		return int(stream[o]) | int(stream[o+1])<<8 | int(stream[o+2])<<16 | int(stream[o+3])<<24
	}
	n := le(0)
	if n != planes {
		return nil, fmt.Sprintf("segment count %d != planes %d", n, planes)
	}
	offs := make([]int, 16)
	for k := 0; k < 15; k++ {
		offs[k] = le(4 + 4*k)
	}
	if n > 0 && offs[0] != 64 {
		return nil, "first offset != 64"
	}
	for k := 0; k < 15; k++ {
		if k < n {
			if offs[k]%2 != 0 || offs[k] >= len(stream) || (k > 0 && offs[k] <= offs[k-1]) {
				return nil, fmt.Sprintf("offset %d = %d not even/ascending/in range", k, offs[k])
			}
		} else if offs[k] != 0 {
			return nil, "unused offset not zero"
		}
	}
	res := make([][]byte, n)
	for k := 0; k < n; k++ {
		end := len(stream)
		if k+1 < n {
			end = offs[k+1]
		}
		seg := stream[offs[k]:end]
		var out []byte
		p := 0
		for len(out) < pixels {
			if p >= len(seg) {
				return nil, fmt.Sprintf("segment %d exhausted", k)
			}
			c := int(int8(seg[p]))
			p++
			switch {
			case c >= 0:
				if p+c+1 > len(seg) {
					return nil, "literal beyond segment"
				}
				out = append(out, seg[p:p+c+1]...)
				p += c + 1
			case c >= -127:
				if p >= len(seg) {
					return nil, "run beyond segment"
				}
				for j := 0; j < 1-c; j++ {
					out = append(out, seg[p])
				}
				p++
			}
		}
		if len(out) != pixels {
			return nil, fmt.Sprintf("segment %d expands to %d, want %d", k, len(out), pixels)
		}
		if len(seg)-p > 1 {
			return nil, fmt.Sprintf("segment %d has %d trailing bytes", k, len(seg)-p)
		}
		if len(seg)-p == 1 && seg[p] != 0 {
			return nil, "non-zero pad"
		}
		res[k] = out
	}
	return res, ""
}

// planesOf splits a native frame into the byte planes Annex G prescribes.
func planesOf(i rleInfo, src []byte) [][]byte {
	ba := (i.BA-1)/8 + 1
	px := i.W * i.H
	res := make([][]byte, ba*i.SPP)
	for s := 0; s < i.SPP; s++ {
		for b := 0; b < ba; b++ { // b = 0 is the most significant byte (little-endian samples)
			pl := make([]byte, px)
			for p := 0; p < px; p++ {
				var idx int
				if i.PL == 0 {
					idx = (p*i.SPP+s)*ba + (ba - 1 - b)
				} else {
					idx = (s*px+p)*ba + (ba - 1 - b)
				}
				pl[p] = src[idx]
			}
			res[s*ba+b] = pl
		}
	}
	return res
}

func rleRoundTrip(c *hx.Ctx, i rleInfo, src []byte, tag string) {
	enc, oc := rleReal(true, i, src)
	c.Case(i.op("rle-enc", src), outcomeLine(enc, oc))
	c.Count("gen:" + tag)
	key := i.op("k", src)
	nontrivial := len(src) >= 2
	c.Eval(key, nontrivial)
	in := map[string]any{"width": i.W, "height": i.H, "bitsAllocated": i.BA, "samplesPerPixel": i.SPP, "planar": i.PL, "src": hx.Hex(src)}
	c.Sample(map[string]any{"op": "roundtrip", "info": fmt.Sprint(i), "len": len(src), "gen": tag})
	if oc != "ok" {
		c.Fail(hx.Failure{Class: "rle-encode-" + oc[:3], What: "Encode of an accepted description did not return a stream: " + oc, Input: in})
		return
	}
	c.CountN("encoded_bytes", len(enc))
	dec, od := rleReal(false, i, enc)
	c.Case(i.op("rle-dec", enc), outcomeLine(dec, od))
	if od != "ok" {
		c.Fail(hx.Failure{Class: "rle-decode-" + od[:3], What: "Decode of the encoder's stream failed: " + od, Input: in})
		return
	}
	want := append([]byte{}, src...)
	if len(src)%2 == 1 {
		want = append(want, 0)
	}
	if !bytes.Equal(dec, want) {
		c.Fail(hx.Failure{Class: "rle-roundtrip", What: "decode(encode(src)) != src ++ pad", Input: in, Expected: hx.Hex(want), Actual: hx.Hex(dec)})
		return
	}
	pl, e := annexG(enc, ((i.BA-1)/8+1)*i.SPP, i.W*i.H)
	if e != "" {
		c.Fail(hx.Failure{Class: "rle-annexg", What: "independent Annex G reader rejects the stream: " + e, Input: in, Actual: hx.Hex(enc)})
		return
	}
	wantPl := planesOf(i, src)
	for k := range pl {
		if !bytes.Equal(pl[k], wantPl[k]) {
			c.Fail(hx.Failure{Class: "rle-annexg", What: fmt.Sprintf("independent Annex G reader recovers a different plane %d", k), Input: in, Actual: hx.Hex(enc)})
			return
		}
	}
}

var rleDescs = func() []rleInfo {
	var r []rleInfo
	for _, ba := range []int{8, 16, 32} {
		for _, spp := range []int{1, 3} {
			for _, pl := range []int{0, 1} {
				r = append(r, rleInfo{BA: ba, SPP: spp, PL: pl})
			}
		}
	}
	return r
}()

func rleContent(r *hx.Rand, n int, class int) []byte {
	b := make([]byte, n)
	switch class {
	case 0: // noise
		return r.Bytes(n)
	case 1: // few symbols
		for i := range b {
			b[i] = byte(r.Intn(3))
		}
	case 2: // runs with geometric lengths around the thresholds
		for i := 0; i < n; {
			l := r.Pick([]int{1, 1, 2, 2, 3, 3, 4, 5, 126, 127, 128, 129, 130, 255, 256, 257, 300})
			v := byte(r.Intn(4) * 85)
			for j := 0; j < l && i < n; j++ {
				b[i] = v
				i++
			}
		}
	case 3: // constant
		v := byte(r.U64())
		for i := range b {
			b[i] = v
		}
	case 4: // 0xff / 0x00 / 0x80 (control-byte look-alikes)
		for i := range b {
			b[i] = []byte{0, 0x80, 0xff, 0x7f, 0x81}[r.Intn(5)]
		}
	}
	return b
}

func c01(c *hx.Ctx) {
	c.Rule = "cases: exhaustive strings over {0,1,2} (len<=8 quick / <=10 thorough) for every compatible description; " +
		"literal-prefix x run-length boundary grid; random geometry x content classes; distinct = distinct (description, bytes); " +
		"non-trivial = frame of >= 2 bytes"
	// 1. exhaustive small strings
	maxLen := 8
	if c.Thorough() {
		maxLen = 10
	}
	for L := 1; L <= maxLen; L++ {
		total := 1
		for k := 0; k < L; k++ {
			total *= 3
		}
		for v := 0; v < total; v++ {
			s := make([]byte, L)
			x := v
			for k := 0; k < L; k++ {
				s[k] = byte(x % 3)
				x /= 3
			}
			for di, d := range rleDescs {
				unit := ((d.BA-1)/8 + 1) * d.SPP
				if L%unit != 0 {
					continue
				}
				if !c.Thorough() && (v+di)%3 != int(c.Seed%3) && L > 5 {
					continue
				}
				px := L / unit
				d.W, d.H = px, 1
				if px%2 == 0 && (v&1) == 1 {
					d.W, d.H = px/2, 2
				}
				rleRoundTrip(c, d, s, "exhaustive")
			}
		}
	}
	// 2. boundary grid: literal prefix, run, tail — 8-bit mono and one multi-plane description
	lits := []int{0, 1, 2, 127, 128, 129}
	runs := []int{1, 2, 3, 126, 127, 128, 129, 130, 131, 254, 255, 256, 257, 258, 259, 260, 383, 384, 385, 386}
	for _, l := range lits {
		for _, rn := range runs {
			for tail := 0; tail < 3; tail++ {
				var s []byte
				for k := 0; k < l; k++ {
					s = append(s, byte(10+k%2*7+k%5)) // no two equal neighbours... mostly
					if k > 0 && s[k] == s[k-1] {
						s[k]++
					}
				}
				for k := 0; k < rn; k++ {
					s = append(s, 200)
				}
				for k := 0; k < tail; k++ {
					s = append(s, byte(50+k))
				}
				rleRoundTrip(c, rleInfo{W: len(s), H: 1, BA: 8, SPP: 1, PL: 0}, s, "boundary")
				// same bytes as the high-byte plane of a 16-bit frame
				s16 := make([]byte, 2*len(s))
				for k := range s {
					s16[2*k+1] = s[k]
					s16[2*k] = byte(k)
				}
				rleRoundTrip(c, rleInfo{W: len(s), H: 1, BA: 16, SPP: 1, PL: 0}, s16, "boundary16")
			}
		}
	}
	// 3. random geometry x content
	n := 400
	maxDim := 48
	if c.Thorough() {
		n = 6000
		maxDim = 96
	}
	for k := 0; k < n; k++ {
		d := rleDescs[c.R.Intn(len(rleDescs))]
		d.W, d.H = c.R.Range(1, maxDim), c.R.Range(1, maxDim)
		if c.R.Intn(8) == 0 {
			d.W = 1
		}
		if c.R.Intn(8) == 0 {
			d.H = 1
		}
		rleRoundTrip(c, d, rleContent(c.R, d.native(), c.R.Intn(5)), "random")
	}
	if c.Thorough() {
		for _, d := range []rleInfo{{W: 65535, H: 1, BA: 8, SPP: 1}, {W: 1, H: 65535, BA: 16, SPP: 1}, {W: 65535, H: 1, BA: 8, SPP: 3, PL: 1}, {W: 1024, H: 1024, BA: 8, SPP: 1}} {
			for cl := 0; cl < 3; cl++ {
				rleRoundTrip(c, d, rleContent(c.R, d.native(), cl), "large")
			}
		}
	}
	// 4. decoding of damaged streams and foreign descriptions: outcome class and bytes must agree
	//    with the model (feeds C08); not part of the property search.
	for k := 0; k < n/2; k++ {
		d := rleDescs[c.R.Intn(len(rleDescs))]
		d.W, d.H = c.R.Range(1, 12), c.R.Range(1, 12)
		src := rleContent(c.R, d.native(), c.R.Intn(5))
		enc, oc := rleReal(true, d, src)
		if oc != "ok" {
			continue
		}
		m := append([]byte{}, enc...)
		switch c.R.Intn(5) {
		case 0:
			m = m[:c.R.Intn(len(m)+1)]
		case 1:
			for j := 0; j < 1+c.R.Intn(3); j++ {
				m[c.R.Intn(len(m))] = byte(c.R.U64())
			}
		case 2:
			m[c.R.Intn(64)] = byte(c.R.Intn(4))
		case 3:
			d.W, d.H = c.R.Range(0, 14), c.R.Range(0, 14)
		case 4:
			d.SPP = c.R.Pick([]int{0, 1, 2, 3, 4})
			d.BA = c.R.Pick([]int{1, 8, 12, 16, 24, 32, 40})
		}
		dec, od := rleReal(false, d, m)
		c.Case(d.op("rle-dec", m), outcomeLine(dec, od))
		c.Count("damaged:" + od[:2])
	}
}

func init() { register("C01", c01) }
