package main

// C17 (and C10, C05) at the DICOM adapter level — correspondence for lean/GdcVerif/Model/Adapters.lean.
//
//   adapter-pass <codec> W H BA BS SPP PR        real: Codec.Encode on ONE frame of the native length
//        W·H·SPP·⌈BA/8⌉, then the frame header of the emitted stream is decoded: the tuple
//        (width, height, components, depth, signed) the adapter handed to the low-level encoder,
//        `ok-planes n` for RLE (segment count of the Annex G header), `err` when Encode fails.
//   adapter-loop <zeroCheck> <need> <lens>       real: Codec.Encode on frames of the given lengths for a
//        4×3 8-bit monochrome FrameInfo: `ok n` / `err k`, k = frames present in the destination afterwards.
//   params-<codec> …                             real: the parameter the adapter hands down, observed in the stream
//        (quality: the unique q whose direct Encode gives the same bytes; predictor: Ss of SOS; NEAR: decoder).
// Property evaluated on the real code (class `adapter-depth-container-mismatch`): when Encode succeeds,
// the depth it declared needs as many bytes per sample as the native frame has (⌈BitsAllocated/8⌉).

import (
	"bytes"
	"encoding/binary"
	"fmt"
	"strings"

	gdcodec "github.com/cocosip/go-dicom-codecs/codec"
	"github.com/cocosip/go-dicom-codecs/jpeg/baseline"
	"github.com/cocosip/go-dicom-codecs/jpeg/extended"
	jlossless "github.com/cocosip/go-dicom-codecs/jpeg/lossless"
	"github.com/cocosip/go-dicom-codecs/jpeg/lossless14sv1"
	"github.com/cocosip/go-dicom-codecs/jpeg2000"
	"github.com/cocosip/go-dicom-codecs/jpeg2000/htj2k"
	j2klossless "github.com/cocosip/go-dicom-codecs/jpeg2000/lossless"
	j2klossy "github.com/cocosip/go-dicom-codecs/jpeg2000/lossy"
	"github.com/cocosip/go-dicom-codecs/jpeg2000/t2"
	jlsl "github.com/cocosip/go-dicom-codecs/jpegls/lossless"
	jlsn "github.com/cocosip/go-dicom-codecs/jpegls/nearlossless"
	"github.com/cocosip/go-dicom-codecs/rle"
	"github.com/cocosip/go-dicom/pkg/imaging/codec"
	"github.com/cocosip/go-dicom/pkg/imaging/imagetypes"

	"verifharness/internal/hx"
)

// c17adTuple is what the emitted stream declares.
type c17adTuple struct {
	w, h, c, depth int
	signed         bool
}

type c17adCodec struct {
	name      string
	cdc       codec.Codec
	zeroCheck int
	header    func(stream []byte) (c17adTuple, error) // decode the frame header of one emitted frame
	usesBS    bool
}

func c17adJ2kHeader(ht bool) func([]byte) (c17adTuple, error) {
	return func(s []byte) (c17adTuple, error) {
		d := jpeg2000.NewDecoder()
		if ht {
			d.SetBlockDecoderFactory(func(w, h int, _ int) t2.BlockDecoder { return htj2k.NewHTDecoder(w, h) })
		}
		if err := d.Decode(s); err != nil {
			return c17adTuple{}, err
		}
		return c17adTuple{d.Width(), d.Height(), d.Components(), d.BitDepth(), d.IsSigned()}, nil
	}
}

func c17adCodecs() []c17adCodec {
	t := func(w, h, cc, bd int, e error) (c17adTuple, error) { return c17adTuple{w, h, cc, bd, false}, e }
	return []c17adCodec{
		{"rle", rle.NewRLECodec(), 0, nil, false},
		{"baseline", baseline.NewBaselineCodec(90), 1, func(s []byte) (c17adTuple, error) { _, w, h, cc, e := baseline.Decode(s); return t(w, h, cc, 8, e) }, true},
		{"extended", extended.NewExtendedCodec(12, 90), 1, func(s []byte) (c17adTuple, error) { _, w, h, cc, bd, e := extended.Decode(s); return t(w, h, cc, bd, e) }, true},
		{"lossless", jlossless.NewLosslessCodec(1), 1, func(s []byte) (c17adTuple, error) { _, w, h, cc, bd, e := jlossless.Decode(s); return t(w, h, cc, bd, e) }, true},
		{"sv1", lossless14sv1.NewLosslessSV1Codec(), 1, func(s []byte) (c17adTuple, error) { _, w, h, cc, bd, e := lossless14sv1.Decode(s); return t(w, h, cc, bd, e) }, true},
		{"jls", jlsl.NewJPEGLSLosslessCodec(), 1, func(s []byte) (c17adTuple, error) { _, w, h, cc, bd, e := jlsl.Decode(s); return t(w, h, cc, bd, e) }, true},
		{"jlsnear", jlsn.NewJPEGLSNearLosslessCodec(2), 1, func(s []byte) (c17adTuple, error) {
			_, w, h, cc, bd, _, e := jlsn.Decode(s)
			return t(w, h, cc, bd, e)
		}, true},
		{"j2klossless", j2klossless.NewCodec(), 1, c17adJ2kHeader(false), true},
		{"j2klossy", j2klossy.NewCodec(), 1, c17adJ2kHeader(false), true},
		{"htj2k", htj2k.NewLosslessCodec(), 1, c17adJ2kHeader(true), false},
	}
}

func c17adEncode(cd codec.Codec, fi imagetypes.FrameInfo, frames [][]byte, prm codec.Parameters) (dst *gdcodec.TestPixelData, outcome string) {
	info := fi
	src := gdcodec.NewTestPixelData(&info)
	for _, f := range frames {
		_ = src.AddFrame(f)
	}
	dst = gdcodec.NewTestPixelData(&info)
	var err error
	p, _, to := c17Timed(func() { err = cd.Encode(src, dst, prm) })
	switch {
	case to:
		return dst, "hang"
	case p:
		return dst, "panic"
	case err != nil:
		return dst, "err"
	}
	return dst, "ok"
}

func c17adPass(c *hx.Ctx) {
	ws := [][2]int{{5, 3}, {1, 1}, {16, 12}}
	bas := []int{0, 1, 8, 12, 16, 24, 32}
	bss := []int{0, 1, 2, 7, 8, 9, 12, 13, 16, 17}
	spps := []int{1, 3, 0, 2, 4}
	for _, ad := range c17adCodecs() {
		for gi, wh := range ws {
			for _, ba := range bas {
				for _, bs := range bss {
					for _, spp := range spps {
						for pr := 0; pr <= 1; pr++ {
							if gi > 0 && (spp == 0 || spp == 2 || spp == 4 || ba == 1 || ba == 24) && !c.Thorough() {
								continue
							}
							if pr == 1 && gi == 2 && !c.Thorough() {
								continue
							}
							fi := imagetypes.FrameInfo{Width: uint16(wh[0]), Height: uint16(wh[1]), BitsAllocated: uint16(ba), BitsStored: uint16(bs),
								HighBit: uint16(max(bs-1, 0)), SamplesPerPixel: uint16(spp), PixelRepresentation: uint16(pr), PhotometricInterpretation: "MONOCHROME2"}
							if spp == 3 {
								fi.PhotometricInterpretation = "RGB"
							}
							c17adPassOne(c, ad, fi)
						}
					}
				}
			}
		}
	}
}

func c17adPassOne(c *hx.Ctx, ad c17adCodec, fi imagetypes.FrameInfo) {
	container := (int(fi.BitsAllocated) + 7) / 8
	n := int(fi.Width) * int(fi.Height) * int(fi.SamplesPerPixel) * container
	// sample values 0..3 in every byte position the encoder may read as a sample, whatever depth it is given
	frame := make([]byte, n)
	for i := range frame {
		if container == 1 || i%container == 0 {
			frame[i] = byte((i/container)*7%4) & 3
		}
	}
	op := fmt.Sprintf("adapter-pass %s %d %d %d %d %d %d", ad.name, fi.Width, fi.Height, fi.BitsAllocated, fi.BitsStored, fi.SamplesPerPixel, fi.PixelRepresentation)
	dst, oc := c17adEncode(ad.cdc, fi, [][]byte{frame}, nil)
	in := map[string]any{"codec": ad.name, "W": fi.Width, "H": fi.Height, "BitsAllocated": fi.BitsAllocated, "BitsStored": fi.BitsStored,
		"SamplesPerPixel": fi.SamplesPerPixel, "PixelRepresentation": fi.PixelRepresentation, "frameLen": n}
	inScope := (fi.BitsAllocated == 8 || fi.BitsAllocated == 16) && fi.BitsStored > 1 && fi.BitsStored <= fi.BitsAllocated && (fi.SamplesPerPixel == 1 || fi.SamplesPerPixel == 3)
	c.Eval(op, inScope && fi.BitsAllocated == 16)
	c.Count("adapter-pass:" + ad.name + ":" + oc)
	real := "err"
	switch oc {
	case "panic", "hang":
		real = oc
		c17Fail(c, hx.Failure{Class: "codec-" + ad.name + "-" + oc, What: "Codec.Encode " + oc + " on a native-length frame", Input: in, Expected: "error or stream"})
	case "ok":
		f, _ := dst.GetFrame(0)
		if ad.name == "rle" {
			planes := -1
			if len(f) >= 4 {
				planes = int(binary.LittleEndian.Uint32(f[:4]))
			}
			real = fmt.Sprintf("ok-planes %d", planes)
			break
		}
		var tp c17adTuple
		var derr error
		dp, _, _ := c17Timed(func() { tp, derr = ad.header(f) })
		if dp || derr != nil {
			real = "ok-undecodable"
			c17Fail(c, hx.Failure{Class: "codec-" + ad.name + "-misdeclared", What: "Codec.Encode returned nil but the frame does not decode", Input: in, Actual: fmt.Sprint(derr)})
			break
		}
		sg := 0
		if tp.signed {
			sg = 1
		}
		real = fmt.Sprintf("ok %d %d %d %d %d", tp.w, tp.h, tp.c, tp.depth, sg)
		read := (tp.depth + 7) / 8
		if read != container {
			c.Count("adapter-depth-mismatch:" + ad.name)
			c17Fail(c, hx.Failure{Class: "adapter-depth-container-mismatch", What: fmt.Sprintf("%s adapter: the stream is declared %d bit (%d byte/sample) for a frame with %d byte/sample: the encoder reads only part of the frame and Decode returns a frame of a different size (C10 c10-declen-*-ba16-bs-le8)", ad.name, tp.depth, read, container),
				Input: in, Expected: fmt.Sprintf("error, or a depth with %d byte/sample", container), Actual: real})
		}
	}
	c.Case(op, real)
}

// ---------------------------------------------------------------- frame loop

func c17adLoop(c *hx.Ctx) {
	fi := imagetypes.FrameInfo{Width: 4, Height: 3, BitsAllocated: 8, BitsStored: 8, HighBit: 7, SamplesPerPixel: 1, PhotometricInterpretation: "MONOCHROME2"}
	const need = 12
	sets := [][]int{{}, {12}, {0}, {11}, {13}, {12, 12, 12}, {12, 0, 12}, {12, 12, 0}, {0, 12}, {12, 11, 12}, {12, 12, 5}, {12, 13, 12, 12, 1, 12}, {1}, {12, 12, 12, 12, 12, 12, 12}}
	k := 20
	if c.Thorough() {
		k = 200
	}
	for i := 0; i < k; i++ {
		n := c.R.Range(1, 6)
		s := make([]int, n)
		for j := range s {
			s[j] = c.R.Pick([]int{12, 12, 12, 12, 0, 11, 1, 13, 24})
		}
		sets = append(sets, s)
	}
	for _, ad := range c17adCodecs() {
		for _, lens := range sets {
			frames := make([][]byte, len(lens))
			strs := make([]string, len(lens))
			for i, n := range lens {
				frames[i] = c17Buf(n, 8)
				strs[i] = fmt.Sprint(n)
			}
			ls := "-"
			if len(lens) > 0 {
				ls = strings.Join(strs, ",")
			}
			dst, oc := c17adEncode(ad.cdc, fi, frames, nil)
			op := fmt.Sprintf("adapter-loop %d %d %s", ad.zeroCheck, need, ls)
			real := fmt.Sprintf("%s %d", oc, dst.FrameCount())
			c.Case(op, real)
			c.Eval("loop "+ad.name+" "+ls, len(lens) != 1)
			c.Count("adapter-loop:" + ad.name + ":" + oc)
			in := map[string]any{"codec": ad.name, "frameLengths": lens}
			if oc == "panic" || oc == "hang" {
				c17Fail(c, hx.Failure{Class: "codec-" + ad.name + "-" + oc, What: "Codec.Encode " + oc + " in the frame loop", Input: in})
				continue
			}
			// property (C10 1:1 / C17): on success one output per input, each decoding to the FrameInfo geometry
			if oc == "ok" {
				if dst.FrameCount() != len(lens) {
					c17Fail(c, hx.Failure{Class: "codec-" + ad.name + "-frame-count", What: "Encode returned nil with a different number of frames", Input: in,
						Expected: fmt.Sprint(len(lens)), Actual: fmt.Sprint(dst.FrameCount())})
				}
				for i := 0; i < dst.FrameCount() && ad.header != nil; i++ {
					f, _ := dst.GetFrame(i)
					tp, err := ad.header(f)
					if err != nil || tp.w != 4 || tp.h != 3 || tp.c != 1 {
						c17Fail(c, hx.Failure{Class: "codec-" + ad.name + "-misdeclared", What: fmt.Sprintf("frame %d of the loop output does not decode to 4x3x1", i), Input: in, Actual: fmt.Sprint(tp, err)})
						break
					}
				}
			}
		}
	}
}

// ---------------------------------------------------------------- parameters

type c17adParamKind struct {
	kind string
	v    int
}

func c17adKinds(vals []int) []c17adParamKind {
	ks := []c17adParamKind{{"nil", 0}, {"tnil", 0}, {"fother", 0}, {"fabs", 0}}
	for _, v := range vals {
		ks = append(ks, c17adParamKind{"typed", v}, c17adParamKind{"fint", v})
	}
	return ks
}

// c17adSOSPredictor returns Ss of the first SOS segment (the predictor selection value of a lossless scan).
func c17adSOSPredictor(s []byte) int {
	i := bytes.Index(s, []byte{0xFF, 0xDA})
	if i < 0 || i+5 >= len(s) {
		return -1
	}
	ns := int(s[i+4])
	j := i + 5 + 2*ns
	if j >= len(s) {
		return -1
	}
	return int(s[j])
}

func c17adParams(c *hx.Ctx) {
	fi8 := imagetypes.FrameInfo{Width: 8, Height: 8, BitsAllocated: 8, BitsStored: 8, HighBit: 7, SamplesPerPixel: 1, PhotometricInterpretation: "MONOCHROME2"}
	frame8 := make([]byte, 64)
	for i := range frame8 {
		frame8[i] = byte(i*29 + i*i)
	}
	qvals := []int{-7, 0, 1, 2, 50, 77, 99, 100, 101, 1000}
	ctorQs := []int{-1, 0, 1, 42, 100, 101}
	if !c.Thorough() {
		ctorQs = []int{0, 42, 101}
	}
	// which quality gives which stream (direct low-level calls): must be injective to observe q
	baseOut := map[string]int{}
	for q := 1; q <= 100; q++ {
		o, err := baseline.Encode(frame8, 8, 8, 1, q)
		if err == nil {
			if _, dup := baseOut[string(o)]; dup {
				baseOut[string(o)] = -1
			} else {
				baseOut[string(o)] = q
			}
		}
	}
	for _, cq := range ctorQs {
		cd := baseline.NewBaselineCodec(cq)
		for _, k := range c17adKinds(qvals) {
			var prm codec.Parameters
			switch k.kind {
			case "tnil":
				prm = (*baseline.JPEGBaselineParameters)(nil)
			case "typed":
				p := baseline.NewBaselineParameters()
				p.Quality = k.v
				prm = p
			case "fint":
				prm = &c17Foreign{m: map[string]interface{}{"quality": k.v}}
			case "fother":
				prm = &c17Foreign{m: map[string]interface{}{"quality": "90", "bitDepth": 8.0, "predictor": int8(4), "near": uint8(1)}}
			case "fabs":
				prm = &c17Foreign{m: map[string]interface{}{}}
			}
			dst, oc := c17adEncode(cd, fi8, [][]byte{frame8}, prm)
			real := oc
			if oc == "ok" {
				f, _ := dst.GetFrame(0)
				q, found := baseOut[string(f)]
				switch {
				case !found:
					real = "ok unknown-quality"
				case q < 0:
					real = "ok ambiguous"
				default:
					real = fmt.Sprintf("ok %d", q)
				}
			}
			op := fmt.Sprintf("params-baseline %d %s %d", cq, k.kind, k.v)
			c.Case(op, real)
			c.Eval(op, k.kind != "nil")
			c.Count("params:baseline:" + k.kind)
			if oc != "ok" {
				c17Fail(c, hx.Failure{Class: "codec-baseline-params-" + oc, What: "Codec.Encode does not succeed for a parameters argument it should normalise", Input: map[string]any{"ctorQuality": cq, "kind": k.kind, "value": k.v}})
			}
		}
	}
	// extended: (quality, depth). The depth is chosen from BitsStored; the parameter's BitDepth only matters
	// for BitsStored = 0 — all three FrameInfo shapes are run so that the model's selection is tied.
	frameE := make([]byte, 128)
	for i := 0; i < 64; i++ {
		frameE[2*i] = byte(i*29 + i*i)
		frameE[2*i+1] = byte(i % 4)
	}
	frame8e := make([]byte, 64)
	for i := range frame8e {
		frame8e[i] = byte(i*29 + i*i)
	}
	extOut := map[string][2]int{}
	for _, d := range []int{8, 12} {
		for _, fr := range [][]byte{frameE, frame8e} {
			for q := 1; q <= 100; q++ {
				o, err := extended.Encode(fr, 8, 8, 1, d, q)
				if err == nil {
					if v, dup := extOut[string(o)]; dup && v != [2]int{q, d} {
						extOut[string(o)] = [2]int{-1, -1}
					} else {
						extOut[string(o)] = [2]int{q, d}
					}
				}
			}
		}
	}
	type qd struct{ q, d int }
	pairs := []qd{{50, 8}, {50, 12}, {0, 8}, {101, 12}, {77, 7}, {77, 16}, {1, 0}, {100, 12}}
	for _, shape := range [][2]int{{16, 0}, {16, 12}, {8, 8}} {
		fiE := imagetypes.FrameInfo{Width: 8, Height: 8, BitsAllocated: uint16(shape[0]), BitsStored: uint16(shape[1]), SamplesPerPixel: 1, PhotometricInterpretation: "MONOCHROME2"}
		fr := frameE
		if shape[0] == 8 {
			fr = frame8e
		}
		for _, ctor := range [][2]int{{12, 90}, {8, 33}, {7, 0}} {
			cd := extended.NewExtendedCodec(ctor[0], ctor[1])
			run := func(kind string, q, d int, prm codec.Parameters) {
				dst, oc := c17adEncode(cd, fiE, [][]byte{fr}, prm)
				real := oc
				if oc == "ok" {
					f, _ := dst.GetFrame(0)
					v, found := extOut[string(f)]
					switch {
					case !found:
						real = "ok unknown"
					case v[0] < 0:
						real = "ok ambiguous"
					default:
						real = fmt.Sprintf("ok %d %d", v[0], v[1])
					}
				}
				op := fmt.Sprintf("params-extended %d %d %s %d %d %d %d", ctor[0], ctor[1], kind, q, d, shape[0], shape[1])
				c.Case(op, real)
				c.Eval(op, kind != "nil")
				c.Count("params:extended:" + kind)
			}
			run("nil", 0, 0, nil)
			run("tnil", 0, 0, (*extended.JPEGExtendedParameters)(nil))
			run("fother", 0, 0, &c17Foreign{m: map[string]interface{}{"quality": "90", "bitDepth": 8.0}})
			run("fabs", 0, 0, &c17Foreign{m: map[string]interface{}{}})
			for _, p := range pairs {
				tp := extended.NewExtendedParameters()
				tp.Quality, tp.BitDepth = p.q, p.d
				run("typed", p.q, p.d, tp)
				run("fint", p.q, p.d, &c17Foreign{m: map[string]interface{}{"quality": p.q, "bitDepth": p.d}})
			}
		}
	}
	// lossless: predictor (Ss of SOS)
	for _, cp := range []int{-3, 0, 1, 4, 7, 9} {
		cd := jlossless.NewLosslessCodec(cp)
		for _, k := range c17adKinds([]int{-1, 0, 1, 4, 7, 8, 100}) {
			var prm codec.Parameters
			switch k.kind {
			case "tnil":
				prm = (*jlossless.JPEGLosslessParameters)(nil)
			case "typed":
				p := jlossless.NewLosslessParameters()
				p.Predictor = k.v
				prm = p
			case "fint":
				prm = &c17Foreign{m: map[string]interface{}{"predictor": k.v}}
			case "fother":
				prm = &c17Foreign{m: map[string]interface{}{"predictor": int8(4)}}
			case "fabs":
				prm = &c17Foreign{m: map[string]interface{}{}}
			}
			dst, oc := c17adEncode(cd, fi8, [][]byte{frame8}, prm)
			real := oc
			if oc == "ok" {
				f, _ := dst.GetFrame(0)
				real = fmt.Sprintf("ok %d", c17adSOSPredictor(f))
			}
			op := fmt.Sprintf("params-lossless %d %s %d", cp, k.kind, k.v)
			c.Case(op, real)
			c.Eval(op, k.kind != "nil")
			c.Count("params:lossless:" + k.kind)
		}
	}
	// near-lossless: NEAR (reported by the decoder)
	for _, cn := range []int{-1, 0, 2, 255, 256} {
		cd := jlsn.NewJPEGLSNearLosslessCodec(cn)
		for _, k := range c17adKinds([]int{-1, 0, 1, 3, 127, 200, 255, 256}) {
			var prm codec.Parameters
			switch k.kind {
			case "tnil":
				prm = (*jlsn.JPEGLSNearLosslessParameters)(nil)
			case "typed":
				p := jlsn.NewNearLosslessParameters()
				p.NEAR = k.v
				prm = p
			case "fint":
				prm = &c17Foreign{m: map[string]interface{}{"near": k.v}}
			case "fother":
				prm = &c17Foreign{m: map[string]interface{}{"near": uint8(1)}}
			case "fabs":
				prm = &c17Foreign{m: map[string]interface{}{}}
			}
			dst, oc := c17adEncode(cd, fi8, [][]byte{frame8}, prm)
			real := oc
			if oc == "ok" {
				f, _ := dst.GetFrame(0)
				_, _, _, _, _, near, err := jlsn.Decode(f)
				if err != nil {
					real = "ok undecodable"
				} else {
					real = fmt.Sprintf("ok %d", near)
				}
			}
			op := fmt.Sprintf("params-near %d %s %d", cn, k.kind, k.v)
			c.Case(op, real)
			c.Eval(op, k.kind != "nil")
			c.Count("params:near:" + k.kind)
		}
	}
}

func c17AdapterModels(c *hx.Ctx) {
	c17adPass(c)
	c17adLoop(c)
	c17adParams(c)
}
