package main

// C08/C09 — decoder side of the Part-2 multi-component transform (jpeg2000.Decoder: extractMCTFromMarkers,
// extractBindings, applyDecoderMCTBindings, applyDecoderInverseCustomMCT).
//
//   - c08MCTStream: hand-assembled codestream with Csiz components, ONE empty tile-part (every coefficient 0)
//     and arbitrary MCT / MCC / MCO segments in the main header;
//   - correspondence op `mct-apply` against Lean `Mct.transform`: the planes of the decoded image are constant
//     (zero data, then offsets, then matrices applied to constants), so one value per component is the whole
//     observable result;
//   - search operator `j2k-mct-stages` (c08.go calls c08MCTSearch): the same streams for the panic / budget search,
//     including wide collections and long stage lists.

import (
	"encoding/binary"
	"fmt"
	"math"
	"strings"

	"github.com/cocosip/go-dicom-codecs/jpeg2000"

	"verifharness/internal/hx"
)

type c08MctSeg struct {
	Index, ArrayType, ElemType int
	Vals                       []int
	Pad                        int
}

type c08MccSeg struct {
	Index, CollType int
	IDs, OutIDs     []int
	Wide, OutWide   bool
	Decorr, Offs    int
	Reversible      bool
}

type c08MctDesc struct {
	Comps, W, H int
	MCT         []c08MctSeg
	MCC         []c08MccSeg
	MCO         [][]int
}

func c08MctElemSize(et int) int { return []int{2, 4, 4, 8}[et&3] }

func c08MCTStream(d *c08MctDesc) []byte {
	be16 := func(v int) []byte { return []byte{byte(v >> 8), byte(v)} }
	be32 := func(v int) []byte { b := make([]byte, 4); binary.BigEndian.PutUint32(b, uint32(v)); return b }
	seg := func(m byte, p []byte) []byte { return append(append([]byte{0xFF, m}, be16(len(p)+2)...), p...) }
	s := []byte{0xFF, 0x4F}
	siz := be16(0)
	for _, v := range []int{d.W, d.H, 0, 0, d.W, d.H, 0, 0} {
		siz = append(siz, be32(v)...)
	}
	siz = append(siz, be16(d.Comps)...)
	for c := 0; c < d.Comps; c++ {
		siz = append(siz, 7, 1, 1)
	}
	s = append(s, seg(0x51, siz)...)
	s = append(s, seg(0x52, []byte{0, 0, 0, 1, 0, 0, 4, 4, 0, 1})...) // LRCP, 1 layer, no Part-1 colour transform, 0 levels, 64x64 blocks, 5/3
	s = append(s, seg(0x5C, []byte{0x40, 0x40})...)
	for _, m := range d.MCT {
		p := append(be16(0), be16(m.Index&0xFF|(m.ArrayType&3)<<8|(m.ElemType&3)<<10)...)
		p = append(p, be16(0)...)
		for _, v := range m.Vals {
			switch m.ElemType & 3 {
			case 0:
				p = append(p, be16(v&0xFFFF)...)
			case 1:
				p = append(p, be32(v)...)
			case 2:
				p = append(p, be32(int(math.Float32bits(float32(v))))...)
			case 3:
				b := make([]byte, 8)
				binary.BigEndian.PutUint64(b, math.Float64bits(float64(v)))
				p = append(p, b...)
			}
		}
		for k := 0; k < m.Pad; k++ {
			p = append(p, 0x5A)
		}
		if len(p) > 65533 {
			continue
		}
		s = append(s, seg(0x74, p)...)
	}
	ids := func(xs []int, wide bool) []byte {
		n := len(xs)
		if wide {
			n |= 0x8000
		}
		p := be16(n)
		for _, x := range xs {
			if wide {
				p = append(p, be16(x)...)
			} else {
				p = append(p, byte(x))
			}
		}
		return p
	}
	for _, m := range d.MCC {
		p := append(be16(0), byte(m.Index))
		p = append(p, be16(0)...)
		p = append(p, be16(1)...)
		p = append(p, byte(m.CollType))
		p = append(p, ids(m.IDs, m.Wide)...)
		p = append(p, ids(m.OutIDs, m.OutWide)...)
		rev := byte(0)
		if m.Reversible {
			rev = 1
		}
		p = append(p, rev, byte(m.Offs), byte(m.Decorr))
		if len(p) > 65533 {
			continue
		}
		s = append(s, seg(0x75, p)...)
	}
	for _, st := range d.MCO {
		p := []byte{byte(len(st))}
		for _, x := range st {
			p = append(p, byte(x))
		}
		s = append(s, seg(0x77, p)...)
	}
	sot := append(be16(0), be32(14)...)
	sot = append(sot, 0, 1)
	s = append(s, seg(0x90, sot)...)
	return append(s, 0xFF, 0x93, 0xFF, 0xD9)
}

func c08IntsStr(xs []int) string {
	if len(xs) == 0 {
		return "-"
	}
	ss := make([]string, len(xs))
	for i, x := range xs {
		ss[i] = fmt.Sprint(x)
	}
	return strings.Join(ss, ",")
}

// op line: mct-apply <components> <mct;…|-> <mcc;…|-> <mco;…|->
//
//	mct = index:arrayType:elemType:pad:vals     mcc = index:collType:ids:outIDs:decorr:offs:reversible     mco = stages
func (d *c08MctDesc) op() string {
	var a, b, c []string
	for _, m := range d.MCT {
		a = append(a, fmt.Sprintf("%d:%d:%d:%d:%s", m.Index, m.ArrayType, m.ElemType, m.Pad, c08IntsStr(m.Vals)))
	}
	for _, m := range d.MCC {
		rev := 0
		if m.Reversible {
			rev = 1
		}
		// one-byte id lists truncate the ids to 8 bits in the stream
		in, out := append([]int{}, m.IDs...), append([]int{}, m.OutIDs...)
		for i := range in {
			if !m.Wide {
				in[i] &= 0xFF
			}
		}
		for i := range out {
			if !m.OutWide {
				out[i] &= 0xFF
			}
		}
		b = append(b, fmt.Sprintf("%d:%d:%s:%s:%d:%d:%d", m.Index, m.CollType, c08IntsStr(in), c08IntsStr(out), m.Decorr, m.Offs, rev))
	}
	for _, st := range d.MCO {
		c = append(c, c08IntsStr(st))
	}
	j := func(xs []string) string {
		if len(xs) == 0 {
			return "-"
		}
		return strings.Join(xs, ";")
	}
	return fmt.Sprintf("mct-apply %d %s %s %s", d.Comps, j(a), j(b), j(c))
}

func c08MctRandom(r *hx.Rand) *c08MctDesc {
	d := &c08MctDesc{Comps: r.Range(1, 5), W: r.Range(1, 3), H: r.Range(1, 3)}
	k := d.Comps
	small := func() int { return r.Range(-3, 3) }
	for n := r.Pick([]int{0, 1, 1, 2, 2, 3, 4}); n > 0; n-- {
		m := c08MctSeg{Index: r.Range(0, 3), ArrayType: r.Pick([]int{1, 1, 1, 2, 2, 2, 0, 3}), ElemType: r.Range(0, 3)}
		q := r.Range(1, k+1)
		cnt := r.Pick([]int{0, 1, q, q, q * q, q * q, q * q, q*q - 1, q*q + 1, k, k * k, k * k, k*k - 1, q + 1})
		for i := 0; i < cnt; i++ {
			m.Vals = append(m.Vals, small())
		}
		if r.Intn(3) == 0 {
			m.Pad = r.Intn(c08MctElemSize(m.ElemType))
		}
		d.MCT = append(d.MCT, m)
	}
	for n := r.Pick([]int{0, 1, 1, 1, 2, 2, 3}); n > 0; n-- {
		m := c08MccSeg{Index: r.Range(0, 3), CollType: r.Pick([]int{0, 0, 1, 1, 1, 2, 255}), Decorr: r.Range(0, 3), Offs: r.Range(0, 3),
			Reversible: r.Bool(), Wide: r.Intn(3) == 0, OutWide: r.Intn(3) == 0}
		ln := r.Pick([]int{0, 1, k, k, k, k - 1, k + 1, 2})
		if ln < 0 {
			ln = 0
		}
		for i := 0; i < ln; i++ {
			switch r.Intn(8) {
			case 0:
				m.IDs = append(m.IDs, r.Pick([]int{k, k + 1, 255, 256, 300, 65535}))
			case 1, 2:
				m.IDs = append(m.IDs, r.Intn(k))
			default:
				m.IDs = append(m.IDs, i%k)
			}
		}
		switch r.Intn(5) {
		case 0: // no output list
		case 1:
			m.OutIDs = append([]int{}, m.IDs...)
			if len(m.OutIDs) > 0 {
				m.OutIDs[r.Intn(len(m.OutIDs))] = r.Intn(k + 1)
			}
		case 2:
			m.OutIDs = append(append([]int{}, m.IDs...), 0)
		default:
			m.OutIDs = append([]int{}, m.IDs...)
			m.OutWide = m.Wide || r.Bool()
		}
		d.MCC = append(d.MCC, m)
	}
	for n := r.Pick([]int{0, 0, 1, 1, 1, 2}); n > 0; n-- {
		var st []int
		for q := r.Pick([]int{0, 1, 2, 3, 4}); q > 0; q-- {
			st = append(st, r.Range(0, 4))
		}
		d.MCO = append(d.MCO, st)
	}
	return d
}

// c08MctCoherent: stages that do bind — an offset array and/or a square matrix of the collection's width per stage,
// component ids in range, an MCO list over the stages (with repeats) — then up to two local perturbations, so that
// most cases sit next to a guard of extractBindings instead of far away from all of them.
func c08MctCoherent(r *hx.Rand) *c08MctDesc {
	d := &c08MctDesc{Comps: r.Range(1, 5), W: r.Range(1, 3), H: r.Range(1, 3)}
	k := d.Comps
	small := func() int { return r.Range(-3, 3) }
	next := 1
	stages := r.Range(1, 3)
	for sgi := 0; sgi < stages; sgi++ {
		w := r.Range(1, k)
		perm := make([]int, k)
		for i := range perm {
			perm[i] = i
		}
		for i := k - 1; i > 0; i-- {
			j := r.Intn(i + 1)
			perm[i], perm[j] = perm[j], perm[i]
		}
		ids := perm[:w]
		if r.Intn(6) == 0 && w > 1 {
			ids[1] = ids[0] // a component named twice
		}
		m := c08MccSeg{Index: sgi + 1, CollType: r.Intn(2), IDs: append([]int{}, ids...), Reversible: r.Bool(), Wide: r.Intn(4) == 0}
		if r.Intn(3) != 0 {
			m.OutIDs, m.OutWide = append([]int{}, ids...), r.Intn(4) == 0
		}
		if r.Intn(4) != 0 {
			seg := c08MctSeg{Index: next, ArrayType: 1, ElemType: r.Range(0, 3)}
			for i := 0; i < w*w; i++ {
				seg.Vals = append(seg.Vals, small())
			}
			d.MCT = append(d.MCT, seg)
			m.Decorr = next
			next++
		}
		if r.Intn(3) != 0 || m.Decorr == 0 {
			seg := c08MctSeg{Index: next, ArrayType: 2, ElemType: r.Range(0, 3)}
			for i := 0; i < w; i++ {
				seg.Vals = append(seg.Vals, small())
			}
			d.MCT = append(d.MCT, seg)
			m.Offs = next
			next++
		}
		d.MCC = append(d.MCC, m)
	}
	switch r.Intn(4) {
	case 0: // no MCO: stream order
	case 1:
		d.MCO = [][]int{{}}
	default:
		var st []int
		for q := r.Range(1, 5); q > 0; q-- {
			st = append(st, r.Range(1, stages+r.Intn(2)))
		}
		d.MCO = [][]int{st}
	}
	for q := r.Pick([]int{0, 0, 1, 1, 2}); q > 0; q-- {
		switch r.Intn(9) {
		case 0:
			if len(d.MCT) > 0 {
				m := &d.MCT[r.Intn(len(d.MCT))]
				if len(m.Vals) > 0 {
					m.Vals = m.Vals[:len(m.Vals)-1]
					m.Pad = r.Intn(c08MctElemSize(m.ElemType))
				}
			}
		case 1:
			if len(d.MCT) > 0 {
				m := &d.MCT[r.Intn(len(d.MCT))]
				m.Vals = append(m.Vals, small())
			}
		case 2:
			if len(d.MCT) > 0 {
				d.MCT[r.Intn(len(d.MCT))].ArrayType = r.Range(0, 3)
			}
		case 3:
			if len(d.MCT) > 0 {
				d.MCT[r.Intn(len(d.MCT))].Index = r.Range(0, 3)
			}
		case 4:
			m := &d.MCC[r.Intn(len(d.MCC))]
			m.IDs[r.Intn(len(m.IDs))] = r.Pick([]int{k, k - 1, 0, 255, 256})
			if r.Bool() {
				m.OutIDs = append([]int{}, m.IDs...)
			}
		case 5:
			m := &d.MCC[r.Intn(len(d.MCC))]
			m.IDs = append(m.IDs, r.Intn(k))
			if r.Bool() {
				m.OutIDs = append([]int{}, m.IDs...)
			}
		case 6:
			d.MCC[r.Intn(len(d.MCC))].CollType = r.Pick([]int{0, 1, 2, 3})
		case 7:
			d.MCC[r.Intn(len(d.MCC))].Index = r.Range(0, 3)
		case 8:
			m := &d.MCC[r.Intn(len(d.MCC))]
			m.Decorr, m.Offs = m.Offs, m.Decorr
		}
	}
	if r.Intn(5) == 0 { // legacy mode: arrays for all components and no collection at all
		d.MCC = nil
		for i := range d.MCT {
			m := &d.MCT[i]
			want := k
			if m.ArrayType == 1 {
				want = k * k
			}
			for len(m.Vals) < want {
				m.Vals = append(m.Vals, small())
			}
			if r.Intn(3) != 0 {
				m.Vals = m.Vals[:want]
			}
		}
	}
	return d
}

// c08MctReal: decode and reduce the planes to one value per component (before the DC level shift of +128)
func c08MctReal(b []byte) string {
	var line string
	if p, _ := hx.Guard(func() {
		dec := jpeg2000.NewDecoder()
		if err := dec.Decode(b); err != nil {
			line = "err"
			return
		}
		var vs []int
		for _, pl := range dec.GetImageData() {
			if len(pl) == 0 {
				line = "empty-plane"
				return
			}
			for _, x := range pl {
				if x != pl[0] {
					line = "plane-not-constant"
					return
				}
			}
			vs = append(vs, int(pl[0])-128)
		}
		line = "ok " + c08IntsStr(vs)
	}); p {
		line = "panic"
	}
	return line
}

func c08CorrMCT(c *hx.Ctx) {
	r := hx.NewRand(c.Seed ^ 0xC0807)
	n := c08N(c, 1500, 20000)
	for i := 0; i < n; i++ {
		d := c08MctCoherent(r)
		if i%4 == 3 {
			d = c08MctRandom(r)
		}
		line := c08MctReal(c08MCTStream(d))
		c.Case(d.op(), line)
		c.Count("corr:mct:" + strings.Fields(line)[0])
	}
}

// j2kMctStages: search operator (C08 panics, C09 budget) over hand-assembled Part-2 streams: the correspondence
// generators' descriptions, plus wide collections and long stage lists (MCO may name up to 255 stages and a stage may
// be named repeatedly; one MCT segment holds a matrix of up to 181 x 181 int16 entries).
func (b *c08Builder) j2kMctStages() {
	r := hx.NewRand(b.c.Seed ^ 0xC0808)
	tj, th := c08TargetIdx("j2k"), c08TargetIdx("htj2k")
	n := 400
	if b.c.Thorough() {
		n = 6000
	}
	for i := 0; i < n; i++ {
		d := c08MctCoherent(r)
		if i%3 == 2 {
			d = c08MctRandom(r)
		}
		s := c08MCTStream(d)
		b.add(tj, [5]uint16{}, s, "j2k-mct-stages", "handmade")
		if i%8 == 0 {
			b.add(th, [5]uint16{}, s, "j2k-mct-stages", "handmade")
		}
	}
	wide := c08MctWide
	// small images: every shape is fast
	for _, comps := range []int{8, 16, 64, 127, 128, 181} {
		for _, stages := range []int{1, 2, 255} {
			et := r.Intn(2)
			if comps*comps*c08MctElemSize(et) > 65000 {
				et = 0
			}
			b.add(tj, [5]uint16{}, wide(comps, 2, 2, stages, et, r.Bool()), "j2k-mct-stages", "wide")
		}
	}
	// declared S = 2^22 (32 x 512 x 256): transform work = stages x pixels x comps^2 — 255 stages of a 32 x 32 matrix in a
	// 2.6 KB stream take about 100 s (known class c09-time-j2k-mct-stages); one stage is fast
	b.add(tj, [5]uint16{}, wide(32, 512, 256, 255, 0, false), "j2k-mct-stages", "wide-S22")
	b.add(tj, [5]uint16{}, wide(32, 512, 256, 1, 0, false), "j2k-mct-stages", "wide-S22")
	if b.c.Thorough() {
		// 181 x 152 x 152 = 4181824: 2.4 s per stage
		for _, st := range []int{1, 2, 4, 8, 32, 255} {
			b.add(tj, [5]uint16{}, wide(181, 152, 152, st, 0, false), "j2k-mct-stages", "wide-S22")
		}
		b.add(th, [5]uint16{}, wide(32, 512, 256, 255, 1, true), "j2k-mct-stages", "wide-S22")
	}
}

// c08MctWide: one collection over all components (identity matrix, optional offsets) named `stages` times by the MCO segment
func c08MctWide(comps, w, h, stages, et int, offsets bool) []byte {
	d := &c08MctDesc{Comps: comps, W: w, H: h}
	m := c08MctSeg{Index: 1, ArrayType: 1, ElemType: et}
	for i := 0; i < comps*comps; i++ {
		v := 0
		if i%(comps+1) == 0 {
			v = 1
		}
		m.Vals = append(m.Vals, v)
	}
	d.MCT = append(d.MCT, m)
	mc := c08MccSeg{Index: 1, CollType: 1, Decorr: 1, Wide: true, OutWide: true, Reversible: et <= 1 && stages%2 == 0}
	for i := 0; i < comps; i++ {
		mc.IDs = append(mc.IDs, i)
	}
	mc.OutIDs = append([]int{}, mc.IDs...)
	if offsets {
		o := c08MctSeg{Index: 2, ArrayType: 2, ElemType: 1}
		for i := 0; i < comps; i++ {
			o.Vals = append(o.Vals, i%5-2)
		}
		d.MCT = append(d.MCT, o)
		mc.Offs = 2
	}
	d.MCC = append(d.MCC, mc)
	st := make([]int, stages)
	for i := range st {
		st[i] = 1
	}
	d.MCO = [][]int{st}
	return c08MCTStream(d)
}
