package main

// C10 — family added after the hunters' finding C10-j2k-encoder-stale-qcd: call histories on ONE jpeg2000.Encoder
// object whose caller-owned *EncodeParams changes between the calls (the Encoder keeps the pointer and re-reads it
// on every Encode). The main C10 family reuses an encoder only with FIXED parameters, which cannot show state
// that is derived from the parameters and cached (Encoder.qcdReady/qcdStyle/qcdGuard/qcdExpn/qcdSteps).
// Oracle (the property's own): every call returns exactly the bytes a fresh Encoder built from a copy of the
// parameter values in force at that call returns for the same frame; for reversible parameters the stream
// decodes to the source frame.

import (
	"bytes"
	"fmt"

	"github.com/cocosip/go-dicom-codecs/jpeg2000"
	"github.com/cocosip/go-dicom-codecs/jpeg2000/htj2k"

	"verifharness/internal/hx"
)

func init() { registerExtra("C10", "intmisc-encoder-param-history", c10hRun) }

// c10hStep: the parameter fields one call of a history sets on the shared *EncodeParams, and the frame style.
type c10hStep struct {
	Comps, Depth, Levels int
	Lossless             bool
	Quality              int
	Layers               int
	HT                   bool
	Style                int // c10Frame content style
}

func (s c10hStep) m() map[string]any {
	return map[string]any{"components": s.Comps, "bitDepth": s.Depth, "numLevels": s.Levels, "lossless": s.Lossless,
		"quality": s.Quality, "numLayers": s.Layers, "htj2k": s.HT, "frameStyle": s.Style}
}

func (s c10hStep) apply(p *jpeg2000.EncodeParams) {
	p.Components, p.BitDepth, p.NumLevels, p.Lossless, p.Quality, p.NumLayers = s.Comps, s.Depth, s.Levels, s.Lossless, s.Quality, s.Layers
	p.HTJ2KMode = s.HT
	p.BlockEncoderFactory = nil
	p.ProgressionOrder = 0
	if s.HT {
		p.ProgressionOrder = 2
		p.BlockEncoderFactory = func(w, h int) jpeg2000.BlockEncoder { return htj2k.NewHTEncoder(w, h) }
	}
}

func (s c10hStep) info(w, h int) c10Info {
	ba := 8
	if s.Depth > 8 {
		ba = 16
	}
	return c10Info{w, h, s.Comps, ba, s.Depth}
}

// c10hQCD: payload of the QCD segment of a JPEG 2000 main header (nil when there is none)
func c10hQCD(cs []byte) []byte {
	for i := 2; i+4 <= len(cs) && cs[i] == 0xFF && cs[i+1] != 0x90; {
		l := int(cs[i+2])<<8 | int(cs[i+3])
		if i+2+l > len(cs) || l < 2 {
			return nil
		}
		if cs[i+1] == 0x5C {
			return cs[i+4 : i+2+l]
		}
		i += 2 + l
	}
	return nil
}

// c10hHistory runs one history; returns true when every call matched the fresh encoder.
func c10hHistory(c *hx.Ctx, w, h int, steps []c10hStep, tag string) bool {
	p := jpeg2000.DefaultEncodeParams(w, h, steps[0].Comps, steps[0].Depth, false)
	e := jpeg2000.NewEncoder(p)
	var hist []map[string]any
	var hexes []string
	for i, s := range steps {
		s.apply(p)
		f := c10Frame(c.R, s.info(w, h), s.Style)
		hist = append(hist, s.m())
		hexes = append(hexes, hx.Hex(f))
		q := *p // the values in force at this call, in a parameter block of their own
		want, woc := c10EncodeWith(jpeg2000.NewEncoder(&q), f)
		got, goc := c10EncodeWith(e, f)
		c.Eval(fmt.Sprintf("intmisc-param-history|%s|%dx%d|%v|%d|%s", tag, w, h, hist, i, hexes[i][:min(len(hexes[i]), 64)]), i > 0)
		c.Count("intmisc:encoder-param-history-call")
		if woc != "ok" {
			c.Count("intmisc:fresh-encoder-rejects")
			if goc == "ok" {
				c10Fail(c, hx.Failure{Class: "c10-encoder-param-history-accepts-what-fresh-rejects", What: "a reused jpeg2000.Encoder accepts parameters a fresh one rejects",
					Input: map[string]any{"width": w, "height": h, "history": hist, "frames_hex": hexes, "call": i}, Expected: woc, Actual: goc})
				return false
			}
			continue
		}
		if goc == "ok" && bytes.Equal(got, want) {
			if s.Lossless {
				d := jpeg2000.NewDecoder()
				if s.HT {
					d.SetBlockDecoderFactory(c10HTFactory())
				}
				if back, doc := c10DecodeWith(d, got); doc != "ok" || !bytes.Equal(back, f) {
					c10Fail(c, hx.Failure{Class: "c10-encoder-param-history-lossless-roundtrip", What: "reversible stream of a parameter history does not decode to the source frame (fresh encoder gives the same stream)",
						Input: map[string]any{"width": w, "height": h, "history": hist, "frames_hex": hexes, "call": i}, Expected: "source frame", Actual: doc})
					return false
				}
			}
			continue
		}
		class, what := "c10-encoder-param-history-other", "differs from a fresh encoder with the same parameter values; the QCD segments agree"
		if goc != "ok" {
			class, what = "c10-encoder-param-history-"+goc[:min(len(goc), 5)], "fails where a fresh encoder with the same parameter values succeeds"
		} else if !bytes.Equal(c10hQCD(got), c10hQCD(want)) {
			class = "c10-encoder-param-history-stale-qcd"
			what = "carries another QCD segment than a fresh encoder with the same parameter values: Encoder.quantizationInfo caches style/guard bits/exponents/steps of the FIRST call (qcdReady) and nothing clears the cache"
		}
		chg := []string{}
		if i > 0 {
			a, b := steps[0], s
			for _, x := range []struct {
				n string
				d bool
			}{{"components", a.Comps != b.Comps}, {"bitDepth", a.Depth != b.Depth}, {"numLevels", a.Levels != b.Levels}, {"lossless", a.Lossless != b.Lossless},
				{"quality", a.Quality != b.Quality}, {"htj2k", a.HT != b.HT}} {
				if x.d {
					chg = append(chg, x.n)
				}
			}
		}
		c10Fail(c, hx.Failure{Class: class, What: fmt.Sprintf("one jpeg2000.Encoder, *EncodeParams fields changed between calls: call %d %s (fields differing from call 0: %v)", i, what, chg),
			Input:    map[string]any{"width": w, "height": h, "history": hist, "frames_hex": hexes, "call": i, "seed": c.Seed},
			Expected: fmt.Sprintf("the %d bytes of a fresh encoder (QCD %s)", len(want), hx.Hex(c10hQCD(want))),
			Actual:   fmt.Sprintf("%s, %d bytes (QCD %s)", goc, len(got), hx.Hex(c10hQCD(got)))})
		return false
	}
	return true
}

func c10hRun(c *hx.Ctx) {
	r := c.R
	base := c10hStep{Comps: 1, Depth: 8, Levels: 2, Lossless: true, Quality: 80, Layers: 1}
	with := func(f func(s *c10hStep)) c10hStep { s := base; f(&s); return s }
	// the hunters' witnesses first: Quality 10 -> 100 (irreversible), NumLevels 5 -> 1 and 1 -> 5, BitDepth 8 -> 16
	c10hHistory(c, 32, 32, []c10hStep{with(func(s *c10hStep) { s.Lossless, s.Quality, s.Style = false, 10, 3 }), with(func(s *c10hStep) { s.Lossless, s.Quality, s.Style = false, 100, 0 })}, "witness-quality")
	c10hHistory(c, 32, 32, []c10hStep{with(func(s *c10hStep) { s.Levels = 5 }), with(func(s *c10hStep) { s.Levels = 1 })}, "witness-levels-down")
	c10hHistory(c, 32, 32, []c10hStep{with(func(s *c10hStep) { s.Levels = 1 }), with(func(s *c10hStep) { s.Levels = 5 })}, "witness-levels-up")
	c10hHistory(c, 32, 32, []c10hStep{base, with(func(s *c10hStep) { s.Depth = 16 })}, "witness-depth")
	// one field at a time, both directions, small frames
	pairs := [][2]c10hStep{
		{base, with(func(s *c10hStep) { s.Lossless = false })},
		{base, with(func(s *c10hStep) { s.Comps = 3 })},
		{base, with(func(s *c10hStep) { s.Depth = 12 })},
		{base, with(func(s *c10hStep) { s.Levels = 0 })},
		{base, with(func(s *c10hStep) { s.Layers = 3 })},
		{base, with(func(s *c10hStep) { s.HT = true })},
		{with(func(s *c10hStep) { s.Lossless, s.Comps = false, 3 }), with(func(s *c10hStep) { s.Lossless, s.Comps, s.Quality = false, 3, 30 })},
		{with(func(s *c10hStep) { s.HT = true }), with(func(s *c10hStep) { s.HT, s.Levels = true, 4 })},
	}
	for i, pr := range pairs {
		c10hHistory(c, 24, 20, []c10hStep{pr[0], pr[1], pr[0]}, fmt.Sprintf("pair%d", i))
		c10hHistory(c, 24, 20, []c10hStep{pr[1], pr[0], pr[1]}, fmt.Sprintf("pair%d-rev", i))
	}
	// seeded histories of length 2..5 over all the fields
	n := 40
	if c.Thorough() {
		n = 600
	}
	for i := 0; i < n; i++ {
		w, h := r.Range(8, 40), r.Range(8, 40)
		var steps []c10hStep
		for j := r.Range(2, 5); j > 0; j-- {
			s := c10hStep{Comps: r.Pick([]int{1, 1, 3}), Depth: r.Pick([]int{8, 8, 12, 16, 5}), Levels: r.Range(0, 5), Lossless: r.Intn(3) != 0,
				Quality: r.Pick([]int{10, 50, 80, 100}), Layers: r.Pick([]int{1, 1, 2, 4}), HT: r.Intn(6) == 0, Style: r.Pick([]int{0, 3, 5})}
			if s.HT {
				s.Layers = 1
			}
			steps = append(steps, s)
		}
		c10hHistory(c, w, h, steps, "random")
	}
}
