package main

import (
	"bytes"
	"fmt"
	"strings"
	"time"

	"github.com/cocosip/go-dicom-codecs/jpeg/baseline"
	jllp "github.com/cocosip/go-dicom-codecs/jpeg/lossless"
	"github.com/cocosip/go-dicom-codecs/jpeg/lossless14sv1"
	"github.com/cocosip/go-dicom-codecs/jpeg/standard"
	"github.com/cocosip/go-dicom-codecs/jpeg2000/codestream"
	jlsll "github.com/cocosip/go-dicom-codecs/jpegls/lossless"
	jlsnl "github.com/cocosip/go-dicom-codecs/jpegls/nearlossless"

	"verifharness/internal/hx"
)

// c08Correspondence writes the correspondence lines of C08/C09: the real parsers' outcome class
// against the Lean models (ops rle-dec, parse-*).
func c08Correspondence(c *hx.Ctx) {
	c08CorrRLE(c)
	c08CorrReader(c)
	c08CorrBuild(c)
	c08CorrSV1(c)
	c08CorrJLS(c)
	c08CorrJ2K(c)
	c08CorrMCT(c)
	c09CorrPktBody(c)
}

func c08N(c *hx.Ctx, quick, thorough int) int {
	if c.Thorough() {
		return thorough
	}
	return quick
}

func c08HasPair(b []byte, seconds ...byte) bool {
	for i := 0; i+1 < len(b); i++ {
		if b[i] == 0xFF {
			for _, s := range seconds {
				if b[i+1] == s {
					return true
				}
			}
		}
	}
	return false
}

func c08MkSeg(marker byte, payload []byte) []byte {
	l := len(payload) + 2
	return append([]byte{0xFF, marker, byte(l >> 8), byte(l)}, payload...)
}

func c08MutBytes(r *hx.Rand, b []byte) []byte {
	m := append([]byte{}, b...)
	if len(m) == 0 {
		return m
	}
	switch r.Intn(6) {
	case 0:
		m = m[:r.Intn(len(m)+1)]
	case 1, 2:
		m[r.Intn(len(m))] = byte(r.Pick(c08QuickVals))
	case 3:
		m[r.Intn(len(m))] = byte(r.U64())
	case 4:
		k := r.Intn(len(m))
		m = append(m[:k], append([]byte{byte(r.Pick(c08QuickVals))}, m[k:]...)...)
	}
	return m
}

// c08CorrReader: standard.Reader.ReadMarker / ReadSegment vs JM.readMarker / readSegment
func c08CorrReader(c *hx.Ctx) {
	r := hx.NewRand(c.Seed ^ 0xC0802)
	alpha := []int{0xFF, 0xFF, 0xFF, 0x00, 0x01, 0x02, 0x03, 0xD8, 0xC3, 0x10}
	for k := 0; k < c08N(c, 400, 4000); k++ {
		n := r.Intn(9)
		b := make([]byte, n)
		for i := range b {
			b[i] = byte(r.Pick(alpha))
		}
		br := bytes.NewReader(b)
		rd := standard.NewReader(br)
		var line string
		if p, _ := hx.Guard(func() {
			m, err := rd.ReadMarker()
			if err != nil {
				line = "err"
			} else {
				line = fmt.Sprintf("ok %d %d", m, br.Len())
			}
		}); p {
			line = "panic"
		}
		c.Case("jm-readmarker "+hx.Hex(b), line)
		br = bytes.NewReader(b)
		rd = standard.NewReader(br)
		if p, _ := hx.Guard(func() {
			d, err := rd.ReadSegment()
			if err != nil {
				line = "err"
			} else {
				line = fmt.Sprintf("ok %d %d", len(d), br.Len())
			}
		}); p {
			line = "panic"
		}
		c.Case("jm-readsegment "+hx.Hex(b), line)
		c.Count("corr:reader")
	}
}

// c08CorrBuild: HuffmanTable.Build vs JM.build (panic class only; Values has n entries)
func c08CorrBuild(c *hx.Ctx) {
	r := hx.NewRand(c.Seed ^ 0xC0803)
	for k := 0; k < c08N(c, 500, 6000); k++ {
		var bits [16]int
		switch k % 4 {
		case 0: // canonical-looking
			left := 2
			for l := 0; l < 16; l++ {
				n := r.Intn(left + 1)
				if l < 15 && n == left {
					n--
				}
				bits[l] = n
				left = (left - n) * 2
				if left > 255 {
					left = 255
				}
			}
		case 1: // small counts anywhere
			for j := 0; j < 1+r.Intn(4); j++ {
				bits[r.Intn(16)] = r.Intn(5)
			}
		case 2: // boundary: p·2^(7-l) around 256
			l := r.Intn(8)
			bits[l] = (256 >> uint(7-l)) + r.Range(-1, 1)
		default:
			for l := range bits {
				if r.Intn(3) == 0 {
					bits[l] = r.Pick([]int{0, 1, 2, 3, 4, 8, 16, 64, 128, 255})
				}
			}
		}
		total := 0
		strs := make([]string, 16)
		for l, n := range bits {
			if n < 0 {
				bits[l], n = 0, 0
			}
			total += n
			strs[l] = fmt.Sprint(n)
		}
		n := total
		if k%7 == 0 && total > 0 {
			n = r.Intn(total + 1) // fewer values than codes: Values[p] can be out of range
		}
		line := "ok"
		if p, _ := hx.Guard(func() {
			t := &standard.HuffmanTable{Bits: bits, Values: make([]byte, n)}
			if err := t.Build(); err != nil {
				line = "err"
			}
		}); p {
			line = "panic"
		}
		c.Case(fmt.Sprintf("jm-build %s %d", strings.Join(strs, ","), n), line)
		c.Count("corr:build:" + line)
	}
}

// c08JpegHeaderStream: SOI + frame header / tables / other segments / SOS in plausible and implausible orders.
// dht = true puts DHT segments in (then no SOS: with a table defined a scan would be decoded, which is not modelled).
func c08JpegHeaderStream(r *hx.Rand, sofMarker byte, dht bool, eoi bool) []byte {
	b := []byte{0xFF, 0xD8}
	nc := r.Pick([]int{1, 1, 3, 3, 2, 0})
	mkSOF := func() []byte {
		comps := []byte{}
		for i := 0; i < nc; i++ {
			comps = append(comps, byte(i+1), byte(r.Pick([]int{0x11, 0x11, 0x11, 0x11, 0x21, 0x22, 0x41, 0x14, 0x10, 0x00, 0x51})), byte(r.Pick([]int{0, 0, 1, 3, 4, 255})))
		}
		sof := append([]byte{byte(r.Pick([]int{8, 8, 8, 12, 16, 2, 1, 0, 17, 255})), 0, byte(r.Intn(5)), 0, byte(r.Intn(5)), byte(nc)}, comps...)
		if r.Intn(10) == 0 && len(sof) > 0 {
			sof = sof[:r.Intn(len(sof))]
		}
		return c08MkSeg(sofMarker, sof)
	}
	mkDHT := func() []byte {
		var pl []byte
		for t := r.Range(1, 2); t > 0; t-- {
			pl = append(pl, byte(r.Pick([]int{0x00, 0x01, 0x02, 0x03, 0x04, 0x10, 0x11, 0x13, 0x1f})))
			bits := make([]byte, 16)
			total := 0
			for k := 0; k < r.Range(1, 3); k++ {
				i := r.Intn(8)
				bits[i] += byte(r.Pick([]int{1, 1, 2, 3, 4}))
			}
			for _, x := range bits {
				total += int(x)
			}
			pl = append(pl, bits...)
			pl = append(pl, r.Bytes(total)...)
		}
		if r.Intn(8) == 0 {
			pl = pl[:r.Intn(len(pl))]
		}
		return c08MkSeg(0xC4, pl)
	}
	mkDQT := func() []byte {
		var pl []byte
		for t := r.Range(1, 2); t > 0; t-- {
			pq := r.Pick([]int{0, 0, 1})
			pl = append(pl, byte(pq<<4|r.Pick([]int{0, 1, 2, 3, 4, 15})))
			pl = append(pl, r.Bytes(64*(pq+1))...)
		}
		if r.Intn(6) == 0 {
			pl = pl[:r.Intn(len(pl))]
		}
		return c08MkSeg(0xDB, pl)
	}
	mkSOS := func() []byte {
		ns := nc
		if r.Intn(5) == 0 {
			ns = r.Intn(5)
		}
		sos := []byte{byte(ns)}
		for i := 0; i < ns; i++ {
			sos = append(sos, byte(i+1+r.Intn(2)*r.Intn(3)), byte(r.Pick([]int{0, 0, 0, 0x01, 0x10, 0x11, 0x30, 0x33, 0x40, 0x04, 0x34, 0xff})))
		}
		sos = append(sos, byte(r.Pick([]int{1, 1, 1, 1, 0, 2, 7, 8})), 0, 0)
		if r.Intn(8) == 0 {
			sos = sos[:r.Intn(len(sos))]
		}
		return c08MkSeg(0xDA, sos)
	}
	for segs := r.Range(1, 5); segs > 0; segs-- {
		switch r.Intn(7) {
		case 0, 1:
			b = append(b, mkSOF()...)
		case 2:
			if dht {
				b = append(b, mkDHT()...)
			} else {
				b = append(b, c08MkSeg(0xE0, r.Bytes(r.Intn(6)))...)
			}
		case 3:
			b = append(b, mkDQT()...)
		case 4:
			b = append(b, c08MkSeg(0xDD, r.Bytes(r.Pick([]int{2, 2, 1, 3})))...)
		case 5:
			if r.Intn(3) == 0 {
				b = append(b, 0xFF, 0xFF, 0xFF)
			}
			b = append(b, 0xFF, byte(r.Pick([]int{0xD0, 0xD7, 0x01})))
		default:
			if !dht {
				b = append(b, mkSOS()...)
				b = append(b, r.Bytes(r.Intn(4))...)
			}
		}
	}
	if !dht && r.Intn(2) == 0 {
		b = append(b, mkSOS()...)
		b = append(b, r.Bytes(r.Intn(4))...)
	}
	if eoi && r.Intn(3) == 0 {
		b = append(b, 0xFF, 0xD9)
	}
	if r.Intn(3) == 0 {
		b = c08MutBytes(r, b)
	}
	return b
}

// c08CorrSV1: lossless14sv1.Decode, jpeg/lossless.Decode and baseline.Decode vs JM.sv1Decode / jllDecode / blDecode.
// A stream holds either DHT segments or SOS segments, never both (with a table defined the scan would be
// entropy-decoded, which the models answer with `beyond`); baseline streams hold no EOI (convertToPixels: `beyond`).
func c08CorrSV1(c *hx.Ctx) {
	r := hx.NewRand(c.Seed ^ 0xC0804)
	for k := 0; k < c08N(c, 2400, 24000); k++ {
		dht := k%3 == 0
		// SV1 and jpeg/lossless: SOF3
		b := c08JpegHeaderStream(r, 0xC3, dht, true)
		if k%8 == 5 {
			// directed: two well-formed frame headers (the second one with other dimensions), then nothing, an EOI, or a
			// scan header — observable as `ok w h …` of the first / last header, or `err` (second header rejected)
			nc := r.Pick([]int{1, 3})
			sof := func(h, w int) []byte {
				pl := []byte{byte(r.Pick([]int{8, 12, 16})), byte(h >> 8), byte(h), byte(w >> 8), byte(w), byte(nc)}
				for i := 0; i < nc; i++ {
					pl = append(pl, byte(i+1), 0x11, 0)
				}
				return c08MkSeg(0xC3, pl)
			}
			b = append([]byte{0xFF, 0xD8}, sof(r.Range(1, 4), r.Range(1, 4))...)
			if r.Bool() {
				b = append(b, c08MkSeg(0xE0, r.Bytes(r.Intn(4)))...)
			}
			b = append(b, sof(r.Pick([]int{1, 2, 300, 30000}), r.Pick([]int{1, 3, 300, 30000}))...)
			if r.Bool() {
				b = append(b, 0xFF, 0xD9)
			}
		}
		if !(c08HasPair(b, 0xC4) && c08HasPair(b, 0xDA)) {
			var line string
			if p, _ := hx.Guard(func() {
				_, w, h, n, bd, err := lossless14sv1.Decode(b)
				if err != nil {
					line = "err"
				} else {
					line = fmt.Sprintf("ok %d %d %d %d", w, h, n, bd)
				}
			}); p {
				line = "panic"
			}
			c.Case("parse-sv1 "+hx.Hex(b), line)
			c.Count("corr:sv1:" + strings.Fields(line)[0])
			if p, _ := hx.Guard(func() {
				_, w, h, n, bd, err := jllp.Decode(b)
				if err != nil {
					line = "err"
				} else {
					line = fmt.Sprintf("ok %d %d %d %d", w, h, n, bd)
				}
			}); p {
				line = "panic"
			}
			c.Case("parse-jll "+hx.Hex(b), line)
			c.Count("corr:jll:" + strings.Fields(line)[0])
		}
		// baseline: SOF0, no EOI
		bb := c08JpegHeaderStream(r, 0xC0, dht, false)
		if !(c08HasPair(bb, 0xC4) && c08HasPair(bb, 0xDA)) && !c08HasPair(bb, 0xD9) {
			line := "err"
			if p, _ := hx.Guard(func() {
				if _, _, _, _, err := baseline.Decode(bb); err == nil {
					line = "ok"
				}
			}); p {
				line = "panic"
			}
			c.Case("parse-bl "+hx.Hex(bb), line)
			c.Count("corr:bl:" + line)
		}
	}
}

// c08CorrJLS: jpegls/lossless.Decode vs JlsH.header on streams without SOS
func c08CorrJLS(c *hx.Ctx) {
	r := hx.NewRand(c.Seed ^ 0xC0805)
	for k := 0; k < c08N(c, 1200, 12000); k++ {
		b := []byte{0xFF, 0xD8}
		for segs := r.Range(1, 4); segs > 0; segs-- {
			switch r.Intn(4) {
			case 0, 1:
				nc := r.Pick([]int{1, 3, 3, 1, 2, 0})
				p := byte(r.Pick([]int{8, 12, 16, 2, 1, 0, 7, 31, 32, 62, 63, 64, 65, 127, 128, 255}))
				pl := []byte{p, 0, byte(r.Intn(4)), 0, byte(r.Intn(4)), byte(nc)}
				for i := 0; i < nc; i++ {
					pl = append(pl, byte(i+1), 0x11, 0)
				}
				if r.Intn(6) == 0 {
					pl = pl[:r.Intn(len(pl))]
				}
				b = append(b, c08MkSeg(0xF7, pl)...)
			case 2:
				mv := r.Pick([]int{0, 1, 3, 127, 128, 255, 4095, 65535})
				pl := []byte{byte(r.Pick([]int{1, 1, 1, 2, 0})), byte(mv >> 8), byte(mv), 0, byte(r.Intn(9)), 0, byte(r.Intn(30)), 0, byte(r.Intn(70)), 0, byte(r.Pick([]int{0, 64, 3}))}
				if r.Intn(5) == 0 {
					pl = pl[:r.Intn(len(pl))]
				}
				b = append(b, c08MkSeg(0xF8, pl)...)
			default:
				b = append(b, c08MkSeg(byte(r.Pick([]int{0xE0, 0xFE, 0xC0, 0xDD})), r.Bytes(r.Intn(5)))...)
			}
		}
		if r.Intn(3) == 0 {
			b = append(b, 0xFF, 0xD9)
		}
		if r.Intn(3) == 0 {
			b = c08MutBytes(r, b)
		}
		if c08HasPair(b, 0xDA) {
			continue
		}
		line := "err"
		if p, _ := hx.Guard(func() {
			if _, _, _, _, _, err := jlsll.Decode(b); err == nil {
				line = "ok"
			}
		}); p {
			line = "panic"
		}
		c.Case("parse-jls "+hx.Hex(b), line)
		c.Count("corr:jls:" + line)
		line = "err"
		if p, _ := hx.Guard(func() {
			if _, _, _, _, _, _, err := jlsnl.Decode(b); err == nil {
				line = "ok"
			}
		}); p {
			line = "panic"
		}
		c.Case("parse-jlsn "+hx.Hex(b), line)
		c.Count("corr:jlsn:" + line)
	}
}

// c08CorrJ2K: codestream.Parser.Parse vs J2kH.parse: main header (SIZ/COD/COC/QCD/QCC/POC/RGN/COM/MCT/MCC/MCO/unknown), tile-parts
// (SOT, tile-part header, SOD, data by Psot or by marker scan), tile-part merging, EOC / end of data.
func c08CorrJ2K(c *hx.Ctx) {
	r := hx.NewRand(c.Seed ^ 0xC0806)
	be32 := func(v int) []byte { return []byte{byte(v >> 24), byte(v >> 16), byte(v >> 8), byte(v)} }
	for k := 0; k < c08N(c, 2500, 25000); k++ {
		b := []byte{0xFF, 0x4F}
		wild := k%3 == 0 // a third of the streams gets invalid field values and byte mutations
		pickv := func(valid []int, any []int) int {
			if wild {
				return r.Pick(any)
			}
			return r.Pick(valid)
		}
		cs := pickv([]int{1, 1, 3, 2, 4}, []int{1, 1, 3, 2, 0, 4, 1, 3})
		big := r.Intn(40) == 0
		if big {
			cs = 257
		}
		cidx := func(v int) []byte {
			if cs > 256 {
				return []byte{byte(v >> 8), byte(v)}
			}
			return []byte{byte(v)}
		}
		siz := []byte{0, 0}
		for _, v := range []int{1 + r.Intn(20), 1 + r.Intn(20), r.Intn(3) * r.Intn(2), r.Intn(3) * r.Intn(2), pickv([]int{4, 8, 20}, []int{0, 4, 8, 20}), pickv([]int{4, 8, 20}, []int{0, 4, 8, 20}), 0, 0} {
			siz = append(siz, be32(v)...)
		}
		siz = append(siz, byte(cs>>8), byte(cs))
		for i := 0; i < cs; i++ {
			siz = append(siz, byte(r.Pick([]int{7, 15, 0x87, 11})), byte(pickv([]int{1, 1, 2}, []int{1, 1, 1, 2, 0})), byte(pickv([]int{1, 1, 2}, []int{1, 1, 1, 2, 0})))
		}
		mkCOD := func() []byte {
			lv := r.Intn(4)
			cod := []byte{byte(r.Intn(2)), byte(r.Intn(5)), 0, byte(r.Intn(3)), byte(r.Intn(2)), byte(lv), byte(pickv([]int{2, 2, 4, 6}, []int{2, 2, 4, 6, 7, 9, 252, 253, 254, 255, 3})), byte(pickv([]int{2, 2, 1}, []int{2, 2, 4, 1, 7, 3, 4, 5, 12, 253, 252})), 0, 1}
			if cod[0]&1 == 1 {
				for i := 0; i <= lv; i++ {
					cod = append(cod, byte(r.Pick([]int{0x55, 0xff, 0x11})))
				}
			}
			if r.Intn(5) == 0 {
				cod = append(cod, r.Bytes(r.Intn(4))...)
			}
			return c08MkSeg(0x52, cod)
		}
		mkCOC := func() []byte {
			lv := r.Intn(3)
			pl := append(cidx(r.Intn(3)), byte(r.Intn(2)), byte(lv), 2, 2, 0, 1)
			if pl[len(cidx(0))]&1 == 1 {
				for i := 0; i <= lv; i++ {
					pl = append(pl, 0x44)
				}
			}
			return c08MkSeg(0x53, pl)
		}
		mkQCD := func() []byte { return c08MkSeg(0x5C, append([]byte{0x40}, r.Bytes(r.Intn(5))...)) }
		mkQCC := func() []byte { return c08MkSeg(0x5D, append(append(cidx(r.Intn(3)), 0x40), r.Bytes(r.Intn(4))...)) }
		mkPOC := func() []byte {
			var pl []byte
			for e := r.Range(1, 2); e > 0; e-- {
				pl = append(pl, byte(r.Intn(3)))
				pl = append(pl, cidx(r.Intn(3))...)
				pl = append(pl, 0, byte(1+r.Intn(3)), byte(1+r.Intn(3)))
				pl = append(pl, cidx(1+r.Intn(3))...)
				pl = append(pl, byte(r.Intn(5)))
			}
			if r.Intn(6) == 0 {
				pl = append(pl, 0)
			}
			return c08MkSeg(0x5F, pl)
		}
		mkRGN := func() []byte {
			return c08MkSeg(0x5E, append(append(cidx(r.Intn(3)), 0, byte(r.Intn(9))), r.Bytes(r.Intn(2)*r.Intn(3))...))
		}
		mkOther := func() []byte {
			switch r.Intn(3) {
			case 0:
				return c08MkSeg(0x64, append([]byte{0, 1}, r.Bytes(r.Intn(5))...))
			case 1:
				sg := c08MkSeg(byte(r.Pick([]int{0x55, 0x57, 0x58, 0x60, 0x63, 0x50, 0x79, 0x30})), r.Bytes(r.Intn(5)))
				if wild && r.Intn(3) == 0 {
					sg[2], sg[3] = 0, byte(r.Intn(4))
				}
				return sg
			default:
				if !wild {
					return c08MkSeg(0x64, append([]byte{0, 1}, r.Bytes(r.Intn(3))...))
				}
				l := r.Intn(5)
				return []byte{0xFF, byte(r.Pick([]int{0x5C, 0x64, 0x5D, 0x5E, 0x5F, 0x53})), 0, byte(l), 0x40, 0, 0}[:4+r.Intn(4)]
			}
		}
		mkMCT := func() []byte {
			imct := r.Intn(4) | r.Intn(4)<<8 | r.Intn(4)<<10
			pl := []byte{0, byte(pickv([]int{0}, []int{0, 0, 1})), byte(imct >> 8), byte(imct), 0, byte(pickv([]int{0}, []int{0, 0, 2}))}
			pl = append(pl, r.Bytes(r.Pick([]int{0, 4, 8, 16, 36}))...)
			sg := c08MkSeg(0x74, pl)
			if wild && r.Intn(4) == 0 {
				sg[3] = byte(r.Intn(9))
			}
			return sg
		}
		mkMCC := func() []byte {
			n, m2 := r.Intn(4), r.Intn(4)
			w1, w2 := r.Intn(6) == 0, r.Intn(6) == 0
			pl := []byte{0, byte(pickv([]int{0}, []int{0, 0, 1})), byte(r.Intn(4)), 0, byte(pickv([]int{0}, []int{0, 0, 3})), 0, byte(pickv([]int{1}, []int{1, 1, 0})), byte(r.Intn(3))}
			put := func(k int, wide bool) {
				c := k
				if wide {
					c |= 0x8000
				}
				pl = append(pl, byte(c>>8), byte(c))
				for i := 0; i < k; i++ {
					if wide {
						pl = append(pl, 0)
					}
					pl = append(pl, byte(r.Intn(5)))
				}
			}
			put(n, w1)
			put(m2, w2)
			pl = append(pl, byte(r.Intn(2)), byte(r.Intn(4)), byte(r.Intn(4)))
			pl = append(pl, r.Bytes(r.Intn(2)*r.Intn(3))...)
			sg := c08MkSeg(0x75, pl)
			if wild && r.Intn(3) == 0 {
				l := len(sg) - 2 + r.Range(-4, 3)
				if l < 0 {
					l = 0
				}
				sg[2], sg[3] = byte(l>>8), byte(l)
			}
			return sg
		}
		mkMCO := func() []byte {
			n := r.Intn(4)
			pl := append([]byte{byte(n)}, r.Bytes(n)...)
			pl = append(pl, r.Bytes(r.Intn(2)*r.Intn(3))...)
			sg := c08MkSeg(0x77, pl)
			if wild && r.Intn(3) == 0 {
				sg[3] = byte(r.Intn(8))
			}
			return sg
		}
		var segs [][]byte
		segs = append(segs, c08MkSeg(0x51, siz), mkCOD(), mkQCD())
		if r.Intn(4) == 0 {
			segs = append(segs, mkMCT())
			if r.Intn(2) == 0 {
				segs = append(segs, mkMCC())
			}
			if r.Intn(2) == 0 {
				segs = append(segs, mkMCO())
			}
		}
		for extra := r.Intn(5); extra > 0; extra-- {
			switch r.Intn(6) {
			case 0:
				segs = append(segs, mkCOC())
			case 1:
				segs = append(segs, mkQCC())
			case 2:
				segs = append(segs, mkPOC())
			case 3:
				segs = append(segs, mkRGN())
			default:
				segs = append(segs, mkOther())
			}
		}
		if wild && r.Intn(3) == 0 {
			i, j := r.Intn(len(segs)), r.Intn(len(segs))
			segs[i], segs[j] = segs[j], segs[i]
		}
		if r.Intn(12) == 0 {
			segs = append(segs, segs[r.Intn(len(segs))])
		}
		if wild && r.Intn(5) == 0 {
			i := r.Intn(len(segs))
			segs = append(segs[:i], segs[i+1:]...)
		}
		for _, sg := range segs {
			b = append(b, sg...)
		}
		// tile-parts
		ntp := r.Pick([]int{0, 0, 1, 1, 2, 3, 4})
		type tps struct{ next, total int }
		st := map[int]*tps{}
		var lastCOD, lastQCD []byte
		for t := 0; t < ntp; t++ {
			idx := r.Pick([]int{0, 0, 0, 1, 2})
			s0, ok := st[idx]
			if !ok {
				s0 = &tps{total: r.Pick([]int{0, 0, 1, 2, 3})}
				st[idx] = s0
			}
			tp, tn := s0.next, s0.total
			s0.next++
			if r.Intn(10) == 0 {
				tp = r.Intn(4)
			}
			if r.Intn(10) == 0 {
				tn = r.Intn(4)
			}
			var hdr []byte
			for h := r.Intn(3); h > 0; h-- {
				switch r.Intn(7) {
				case 0:
					if lastCOD == nil || r.Intn(3) == 0 {
						lastCOD = mkCOD()
					}
					hdr = append(hdr, lastCOD...)
				case 1:
					if lastQCD == nil || r.Intn(3) == 0 {
						lastQCD = mkQCD()
					}
					hdr = append(hdr, lastQCD...)
				case 2:
					hdr = append(hdr, mkCOC()...)
				case 3:
					hdr = append(hdr, mkQCC()...)
				case 4:
					hdr = append(hdr, mkPOC()...)
				case 5:
					hdr = append(hdr, mkRGN()...)
				default:
					switch r.Intn(6) {
					case 0:
						hdr = append(hdr, mkMCT()...)
					case 1:
						hdr = append(hdr, mkMCC()...)
					case 2:
						hdr = append(hdr, mkMCO()...)
					default:
						hdr = append(hdr, mkOther()...)
					}
				}
			}
			data := r.Bytes(r.Intn(8))
			for i := range data {
				if r.Intn(6) == 0 {
					data[i] = 0xFF
				}
			}
			psot := 12 + len(hdr) + 2 + len(data)
			switch r.Intn(6) {
			case 0:
				psot = 0
			case 1:
				psot += r.Range(-3, 3)
			case 2:
				psot = r.Intn(20)
			}
			if psot < 0 {
				psot = 0
			}
			sot := []byte{0xFF, 0x90, 0, 10, byte(idx >> 8), byte(idx)}
			sot = append(sot, be32(psot)...)
			sot = append(sot, byte(tp), byte(tn))
			if r.Intn(20) == 0 {
				sot[3] = byte(r.Intn(12))
			}
			b = append(b, sot...)
			b = append(b, hdr...)
			if r.Intn(12) != 0 {
				b = append(b, 0xFF, 0x93)
			}
			b = append(b, data...)
		}
		if r.Intn(6) != 0 {
			b = append(b, 0xFF, 0xD9)
		}
		if wild && r.Intn(2) == 0 {
			b = c08MutBytes(r, b)
		}
		var line string
		if p, _ := hx.Guard(func() {
			csm, err := codestream.NewParser(b).Parse()
			if err != nil {
				line = "err"
				return
			}
			dl := 0
			for _, t := range csm.Tiles {
				dl += len(t.Data)
			}
			var sb strings.Builder
			fmt.Fprintf(&sb, "ok %d %d %d %d %d %d %d %d %d %d %d %d %d %d %d %d %d", csm.SIZ.Xsiz, csm.SIZ.Ysiz, csm.SIZ.XOsiz, csm.SIZ.YOsiz, csm.SIZ.XTsiz, csm.SIZ.YTsiz,
				csm.SIZ.Csiz, len(csm.COC), len(csm.QCC), len(csm.POC), len(csm.RGN), len(csm.COM), len(csm.MCT), len(csm.MCC), len(csm.MCO), len(csm.Tiles), dl)
			cd := csm.COD
			fmt.Fprintf(&sb, " | %d %d %d %d %d %d %d %d %d", cd.Scod, cd.ProgressionOrder, cd.NumberOfLayers, cd.MultipleComponentTransform,
				cd.NumberOfDecompositionLevels, cd.CodeBlockWidth, cd.CodeBlockHeight, cd.CodeBlockStyle, cd.Transformation)
			for _, ps := range cd.PrecinctSizes {
				fmt.Fprintf(&sb, " %d", int(ps.PPy)<<4|int(ps.PPx))
			}
			fmt.Fprintf(&sb, " | %d", csm.QCD.Sqcd)
			for _, x := range csm.QCD.SPqcd {
				fmt.Fprintf(&sb, " %d", x)
			}
			line = sb.String()
		}); p {
			line = "panic"
		}
		c.Case("parse-j2k "+hx.Hex(b), line)
		c.Count("corr:j2k:" + strings.Fields(line)[0])
	}
}

// c08CorrRLE: Codec.Decode with arbitrary frame descriptions and damaged streams vs Rle.decodeFrame.
func c08CorrRLE(c *hx.Ctx) {
	r := hx.NewRand(c.Seed ^ 0xC0801)
	n := 300
	if c.Thorough() {
		n = 4000
	}
	// the decodes run in child processes (entry point rle-codec-hex) under the watchdog: a decoder that does not
	// terminate shows as a `timeout` line that disagrees with the model instead of hanging the harness
	t := c08TargetIdx("rle-codec-hex")
	var jobs []c08Job
	var descs []rleInfo
	for k := 0; k < n; k++ {
		d := rleDescs[r.Intn(len(rleDescs))]
		d.W, d.H = r.Range(1, 9), r.Range(1, 9)
		src := rleContent(r, d.native(), r.Intn(5))
		enc, oc := rleReal(true, d, src)
		if oc != "ok" {
			continue
		}
		m := append([]byte{}, enc...)
		switch r.Intn(9) {
		case 0:
			m = m[:r.Intn(len(m)+1)]
		case 1:
			for j := 0; j < 1+r.Intn(3); j++ {
				m[r.Intn(len(m))] = byte(r.U64())
			}
		case 2:
			m[r.Intn(64)] = byte(r.Intn(4))
		case 3:
			d.W, d.H = r.Range(0, 12), r.Range(0, 12)
		case 4:
			d.SPP = r.Pick([]int{0, 1, 2, 3, 4, 15, 16})
			d.BA = r.Pick([]int{1, 8, 12, 16, 24, 32, 40, 120, 128})
		case 5:
			d.BA = r.Pick([]int{8, 16, 24, 32, 40})
			d.SPP = r.Pick([]int{1, 2, 3})
			d.PL = r.Intn(3)
			nseg := ((d.BA-1)/8 + 1) * d.SPP
			m[0], m[1], m[2], m[3] = byte(nseg), 0, 0, 0
		case 6:
			// offsets pointing anywhere
			o := 4 + 4*r.Intn(15)
			v := r.Pick([]int{0, 1, 63, 64, 65, len(m) - 1, len(m), len(m) + 1, 1 << 20})
			m[o], m[o+1], m[o+2], m[o+3] = byte(v), byte(v>>8), byte(v>>16), byte(v>>24)
		case 7, 8:
			// control byte 0x80 (no operation) at body positions, among them control positions
			for j := 0; j < 1+r.Intn(3) && len(m) > 64; j++ {
				m[64+r.Intn(len(m)-64)] = 0x80
			}
		}
		jobs = append(jobs, c08Job{Target: t, FI: [5]uint16{uint16(d.W), uint16(d.H), uint16(d.BA), uint16(d.SPP), uint16(d.PL)}, Data: m, S: -1})
		descs = append(descs, d)
	}
	res := c09RunJobsWD(jobs, c09Workers(), 5*time.Second)
	for k := range jobs {
		line := res[k].Outcome
		switch res[k].Outcome {
		case "ok":
			line = "ok " + res[k].Text
		case "err", "panic":
		default:
			line = "no-answer:" + res[k].Outcome
		}
		c.Case(descs[k].op("rle-dec", jobs[k].Data), line)
		c.Count("corr:rle-dec:" + strings.Fields(line)[0])
	}
}
