package main

// C08/C09 — hand-built JPEG 2000 packet headers (T.800 B.10) behind a valid main header and SOT/SOD:
// non-empty bit, inclusion (1x1 tag trees: one code-block per sub-band), zero bit-planes, number of passes,
// Lblock increment (comma code), length bits — declaring segment lengths up to 2^32-1 (and sums of them under
// TERMALL) with the header ending exactly at the end of the tile data, with a few body bytes, and with further
// packets behind.
//
//   - search operator `j2k-packet-headers` (c08.go calls b.j2kPacketHeaders): C08 panics, C09 budget.  On the
//     current tree every such stream decodes in milliseconds and kilobytes: PacketDecoder.decodePacket trims a
//     declared length to the bytes that are left (and to 65535) — except at its end-of-data `break`, which leaves
//     the declared lengths in place — and TileDecoder.gatherCBData allocates a block's buffer only after checking the
//     length against the packet body.
//   - correspondence op `pkt-body` against Lean `PktBody` (Model/J2kPacketBody.lean): the lengths and the body
//     PacketDecoder hands over, packet by packet, and the allocation volume of the whole decode in MiB.

import (
	"encoding/binary"
	"fmt"
	"runtime"
	"strings"

	"github.com/cocosip/go-dicom-codecs/jpeg2000"
	"github.com/cocosip/go-dicom-codecs/jpeg2000/t2"

	"verifharness/internal/hx"
)

// c09Bits: packet header bit writer with bit stuffing (after a 0xFF byte the next byte carries 7 bits)
type c09Bits struct {
	out []byte
	cur byte
	n   int
	cap int
}

func c09NewBits() *c09Bits { return &c09Bits{cap: 8} }
func (b *c09Bits) flushByte() {
	b.out = append(b.out, b.cur)
	if b.cur == 0xFF {
		b.cap = 7
	} else {
		b.cap = 8
	}
	b.cur, b.n = 0, 0
}
func (b *c09Bits) bit(v int) {
	b.cur = b.cur<<1 | byte(v&1)
	b.n++
	if b.n == b.cap {
		b.flushByte()
	}
}
func (b *c09Bits) bits(v uint64, n int) {
	for i := n - 1; i >= 0; i-- {
		b.bit(int(v>>uint(i)) & 1)
	}
}
func (b *c09Bits) finish() []byte {
	if b.n > 0 {
		b.cur <<= uint(b.cap - b.n)
		b.flushByte()
	}
	if len(b.out) > 0 && b.out[len(b.out)-1] == 0xFF {
		b.out = append(b.out, 0)
	}
	return b.out
}

// one code-block's contribution to one packet
type c09Cb struct {
	Incl   bool
	Zbp    int      // first inclusion only
	Passes int      // 1..164
	Comma  int      // Lblock increment
	Lens   []uint64 // one declared length, or one per pass under TERMALL (masked to the bits the header has for it)
}

type c09Pkt struct {
	Empty bool
	Cbs   []c09Cb // res 0: 1 code-block (LL); res >= 1: 3 (HL, LH, HH)
	Body  []byte
}

type c09PktStream struct {
	W, H, Comps, Levels, Layers int
	TermAll                     bool
	Pkts                        []c09Pkt // LRCP order: layer, resolution, component
	PsotZero, NoEOC             bool
}

func c09FloorLog2(n int) int {
	r := 0
	for n > 1 {
		n >>= 1
		r++
	}
	return r
}

func c09NumPassesBits(b *c09Bits, p int) {
	switch {
	case p <= 1:
		b.bit(0)
	case p == 2:
		b.bits(2, 2)
	case p <= 5:
		b.bits(3, 2)
		b.bits(uint64(p-3), 2)
	case p <= 36:
		b.bits(15, 4)
		b.bits(uint64(p-6), 5)
	default:
		b.bits(15, 4)
		b.bits(31, 5)
		b.bits(uint64(p-37), 7)
	}
}

// c09PktInfo: what the headers declare, packet by packet (for the correspondence line)
type c09PktInfo struct {
	HdrLen   int
	Declared []int64 // -1: not included
	BitsOK   bool    // every length field has 1..32 bits
}

// tile data (headers and bodies) and the per-packet declarations
func (s *c09PktStream) tileData() ([]byte, []c09PktInfo) {
	type st struct {
		incl   bool
		lblock int
		low    int // lower bound the 1x1 inclusion tag tree has established so far (0 bits written)
	}
	states := map[[3]int]*st{} // (component, resolution, band)
	var data []byte
	var infos []c09PktInfo
	k := 0
	for l := 0; l < s.Layers; l++ {
		for r := 0; r <= s.Levels; r++ {
			for c := 0; c < s.Comps; c++ {
				if k >= len(s.Pkts) {
					return data, infos
				}
				p := &s.Pkts[k]
				k++
				info := c09PktInfo{BitsOK: true}
				b := c09NewBits()
				if p.Empty {
					b.bit(0)
					h := b.finish()
					info.HdrLen = len(h)
					infos = append(infos, info)
					data = append(data, h...)
					continue
				}
				b.bit(1)
				nb := 1
				if r > 0 {
					nb = 3
				}
				for band := 0; band < nb; band++ {
					var cb c09Cb
					if band < len(p.Cbs) {
						cb = p.Cbs[band]
					}
					key := [3]int{c, r, band}
					s0 := states[key]
					if s0 == nil {
						s0 = &st{lblock: 3}
						states[key] = s0
					}
					if !s0.incl {
						if !cb.Incl {
							for s0.low < l+1 { // 1x1 inclusion tag tree: value > layer
								b.bit(0)
								s0.low++
							}
							info.Declared = append(info.Declared, -1)
							continue
						}
						for s0.low < l { // earlier layers whose packet was empty have not said "not yet"
							b.bit(0)
							s0.low++
						}
						b.bit(1)
						for z := 0; z < cb.Zbp; z++ {
							b.bit(0)
						}
						b.bit(1)
						s0.incl = true
					} else {
						if !cb.Incl {
							b.bit(0)
							info.Declared = append(info.Declared, -1)
							continue
						}
						b.bit(1)
					}
					passes := cb.Passes
					if passes < 1 {
						passes = 1
					}
					c09NumPassesBits(b, passes)
					for i := 0; i < cb.Comma; i++ {
						b.bit(1)
					}
					b.bit(0)
					s0.lblock += cb.Comma
					var total int64
					if s.TermAll {
						for i := 0; i < passes; i++ {
							v := uint64(0)
							if i < len(cb.Lens) {
								v = cb.Lens[i]
							}
							n := s0.lblock
							if n > 32 {
								info.BitsOK = false
								n = 32
							}
							v &= 1<<uint(n) - 1
							b.bits(v, n)
							total += int64(v)
						}
					} else {
						v := uint64(0)
						if len(cb.Lens) > 0 {
							v = cb.Lens[0]
						}
						n := s0.lblock + c09FloorLog2(passes)
						if n > 32 {
							info.BitsOK = false
							n = 32
						}
						v &= 1<<uint(n) - 1
						b.bits(v, n)
						total = int64(v)
					}
					info.Declared = append(info.Declared, total)
				}
				h := b.finish()
				info.HdrLen = len(h)
				infos = append(infos, info)
				data = append(data, h...)
				data = append(data, p.Body...)
			}
		}
	}
	return data, infos
}

func (s *c09PktStream) stream() []byte {
	be16 := func(v int) []byte { return []byte{byte(v >> 8), byte(v)} }
	be32 := func(v int) []byte { b := make([]byte, 4); binary.BigEndian.PutUint32(b, uint32(v)); return b }
	seg := func(m byte, p []byte) []byte { return append(append([]byte{0xFF, m}, be16(len(p)+2)...), p...) }
	out := []byte{0xFF, 0x4F}
	siz := be16(0)
	for _, v := range []int{s.W, s.H, 0, 0, s.W, s.H, 0, 0} {
		siz = append(siz, be32(v)...)
	}
	siz = append(siz, be16(s.Comps)...)
	for c := 0; c < s.Comps; c++ {
		siz = append(siz, 7, 1, 1)
	}
	out = append(out, seg(0x51, siz)...)
	style := byte(0)
	if s.TermAll {
		style = 4
	}
	out = append(out, seg(0x52, []byte{0, 0, byte(s.Layers >> 8), byte(s.Layers), 0, byte(s.Levels), 4, 4, style, 1})...)
	q := []byte{0x40}
	for i := 0; i < 3*s.Levels+1; i++ {
		q = append(q, 0x40)
	}
	out = append(out, seg(0x5C, q)...)
	td, _ := s.tileData()
	psot := 14 + len(td)
	if s.PsotZero {
		psot = 0
	}
	sot := append(be16(0), be32(psot)...)
	sot = append(sot, 0, 1)
	out = append(out, seg(0x90, sot)...)
	out = append(out, 0xFF, 0x93)
	out = append(out, td...)
	if !s.NoEOC {
		out = append(out, 0xFF, 0xD9)
	}
	return out
}

var c09HugeLens = []uint64{1, 2, 255, 65535, 65536, 1 << 20, 1 << 24, 0x22000000, 1<<30 - 1, 1 << 30, 1<<31 - 1, 1 << 31, 1<<32 - 1}

// c09PktRandom: a stream whose packets mostly declare more than they carry; `huge` allows lengths >= 2^24
func c09PktRandom(r *hx.Rand, huge bool) *c09PktStream {
	s := &c09PktStream{W: r.Pick([]int{8, 16, 16, 33}), H: r.Pick([]int{8, 16, 16, 17}), Comps: r.Pick([]int{1, 1, 1, 3}),
		Levels: r.Pick([]int{0, 0, 1, 1, 2}), Layers: r.Pick([]int{1, 1, 2, 3}), TermAll: r.Intn(4) == 0,
		PsotZero: r.Intn(5) == 0, NoEOC: r.Intn(6) == 0}
	n := s.Layers * (s.Levels + 1) * s.Comps
	if r.Intn(3) == 0 {
		n = r.Range(1, n) // the tile data ends early
	}
	lens := c09HugeLens
	if !huge {
		lens = []uint64{0, 1, 2, 3, 5, 8, 100, 255, 256, 4000, 65535, 65536, 70000, 1 << 20, 3 << 20}
	}
	body := func(k int) []byte {
		d := make([]byte, k)
		for i := range d {
			d[i] = byte(0x11 + 7*i%0xE0)
		}
		return d
	}
	for k := 0; k < n; k++ {
		p := c09Pkt{Empty: r.Intn(10) == 0}
		declared := uint64(0)
		for band := 0; band < 3; band++ {
			cb := c09Cb{Incl: r.Intn(4) != 0, Zbp: r.Intn(4), Passes: r.Pick([]int{1, 1, 1, 2, 3, 5, 6, 20, 37, 164})}
			if s.TermAll && cb.Passes > 6 {
				cb.Passes = r.Pick([]int{1, 2, 3, 6})
			}
			nl := 1
			if s.TermAll {
				nl = cb.Passes
			}
			want := 0
			for i := 0; i < nl; i++ {
				v := lens[r.Intn(len(lens))]
				cb.Lens = append(cb.Lens, v)
				if b := 64 - leadingZeros64(v); b > want {
					want = b
				}
			}
			// Lblock is 3 at the first inclusion and only grows: choose the increment so that the value fits — or, now
			// and then, one bit short or a few bits more than needed
			base := 3
			if !s.TermAll {
				base += c09FloorLog2(cb.Passes)
			}
			cb.Comma = want - base + r.Pick([]int{0, 0, 0, 0, 1, 2, -1})
			if cb.Comma < 0 {
				cb.Comma = 0
			}
			if cb.Comma > 29 {
				cb.Comma = 29 - r.Intn(2)
			}
			if cb.Incl {
				for _, v := range cb.Lens {
					declared += v
				}
			}
			p.Cbs = append(p.Cbs, cb)
		}
		switch r.Intn(6) {
		case 0, 1: // the header ends the tile data (if this is the last packet) / the next header follows at once
		case 2:
			p.Body = body(r.Range(1, 4))
		case 3:
			p.Body = body(r.Pick([]int{8, 100, 300}))
		case 4:
			if declared < 5000 {
				p.Body = body(int(declared)) // exactly what is declared
			}
		case 5:
			if declared > 0 && declared < 5000 {
				p.Body = body(int(declared) - 1)
			}
		}
		s.Pkts = append(s.Pkts, p)
	}
	return s
}

func leadingZeros64(v uint64) int {
	n := 0
	for i := 63; i >= 0 && v>>uint(i)&1 == 0; i-- {
		n++
	}
	return n
}

// j2kPacketHeaders: the search operator
func (b *c08Builder) j2kPacketHeaders() {
	r := hx.NewRand(b.c.Seed ^ 0xC0909)
	tj, th := c08TargetIdx("j2k"), c08TargetIdx("htj2k")
	// the plain shape first: one code-block, one packet, header = all of the tile data, for every length and pass count
	for _, v := range c09HugeLens {
		for _, passes := range []int{1, 2, 3, 37, 164} {
			for _, extra := range []int{0, 1, 3} {
				for _, ta := range []bool{false, true} {
					want := 64 - leadingZeros64(v)
					base := 3
					if !ta {
						base += c09FloorLog2(passes)
					} else if passes > 3 {
						continue
					}
					comma := want - base
					if comma < 0 {
						comma = 0
					}
					cb := c09Cb{Incl: true, Zbp: 2, Passes: passes, Comma: comma}
					for i := 0; i < passes; i++ {
						cb.Lens = append(cb.Lens, v)
					}
					s := &c09PktStream{W: 16, H: 16, Comps: 1, Levels: 0, Layers: 1, TermAll: ta,
						Pkts: []c09Pkt{{Cbs: []c09Cb{cb}, Body: make([]byte, extra)}}}
					b.add(tj, [5]uint16{}, s.stream(), "j2k-packet-headers", "single")
					if passes == 1 && !ta {
						b.add(th, [5]uint16{}, s.stream(), "j2k-packet-headers", "single")
					}
				}
			}
		}
	}
	n := 500
	if b.c.Thorough() {
		n = 8000
	}
	for i := 0; i < n; i++ {
		s := c09PktRandom(r, i%3 != 2)
		b.add(tj, [5]uint16{}, s.stream(), "j2k-packet-headers", "random")
		if i%8 == 0 {
			b.add(th, [5]uint16{}, s.stream(), "j2k-packet-headers", "random")
		}
	}
}

// c09PktAlign makes the stream predictable without a header parser on the model side: every packet either carries exactly
// what it declares, or it is short and then swallows the rest of the tile data (so that no header is ever parsed from the
// middle of a packet).  Reports false if that cannot be arranged.
func c09PktAlign(s *c09PktStream, r *hx.Rand) bool {
	_, infos := s.tileData()
	if len(infos) != len(s.Pkts) {
		return false
	}
	short := -1
	if r.Intn(3) != 0 {
		short = r.Intn(len(s.Pkts))
	}
	for k := range s.Pkts {
		p := &s.Pkts[k]
		if p.Empty {
			p.Body = nil
			continue
		}
		sum := int64(0)
		for _, d := range infos[k].Declared {
			if d > 0 {
				sum += d
			}
		}
		if k == short {
			// short packet: it must be the last one, and some block must want more than is there
			s.Pkts = s.Pkts[:k+1]
			if sum == 0 {
				p.Body = nil
				return true
			}
			n := int64(r.Pick([]int{0, 0, 1, 3, 100}))
			if k+1 == s.Layers*(s.Levels+1)*s.Comps && sum > 70000 && r.Bool() {
				n = 70000 // more than the 65535 cap of one segment: only behind the very last packet (what is left over is not parsed)
			}
			if n >= sum {
				n = sum - 1
			}
			// every block before the one that runs dry must be fully supplied: cut the body at a prefix sum + partial
			p.Body = make([]byte, n)
			for i := range p.Body {
				p.Body[i] = byte(0x21 + i%0x50)
			}
			return true
		}
		if sum > 6000 {
			return false
		}
		p.Body = make([]byte, sum)
		for i := range p.Body {
			p.Body[i] = byte(0x21 + i%0x50)
		}
	}
	return true
}

// ---------------------------------------------------------------------------------------------------------------
// correspondence `pkt-body total mode p;p;…` with p = hdrLen:ncb:d,d,…  (d = declared length, x = not included)
// → `ok l,l,…:body:partial;… big=k` (lengths after decodePacket, body length, PartialBuffer; allocation volume of the
// whole decode in MiB) | `err`

func c09CorrPktBody(c *hx.Ctx) {
	r := hx.NewRand(c.Seed ^ 0xC090A)
	n := c08N(c, 600, 8000)
	for i := 0; i < n; i++ {
		s := c09PktRandom(r, false)
		s.TermAll = s.TermAll && i%2 == 0
		mode := r.Intn(3) // 0 default, 1 resilient, 2 strict
		if !c09PktAlign(s, r) {
			c.Count("corr:pktbody:skipped-misaligned")
			continue
		}
		td, infos := s.tileData()
		ok := true
		var ps []string
		for _, in := range infos {
			ok = ok && in.BitsOK
			var ds []string
			for _, d := range in.Declared {
				if d < 0 {
					ds = append(ds, "x")
				} else {
					ds = append(ds, fmt.Sprint(d))
				}
			}
			if len(ds) == 0 {
				ds = []string{"e"} // empty packet
			}
			ps = append(ps, fmt.Sprintf("%d:%s", in.HdrLen, strings.Join(ds, ",")))
		}
		if !ok || len(ps) == 0 {
			continue
		}
		op := fmt.Sprintf("pkt-body %d %d %s", len(td), mode, strings.Join(ps, ";"))
		var line string
		if p, _ := hx.Guard(func() {
			style := uint8(0)
			if s.TermAll {
				style = 4
			}
			pd := t2.NewPacketDecoder(td, s.Comps, s.Layers, s.Levels+1, t2.ProgressionLRCP, style)
			pd.SetImageDimensions(s.W, s.H, 64, 64)
			for cc := 0; cc < s.Comps; cc++ {
				pd.SetComponentBounds(cc, 0, 0, s.W, s.H)
				pd.SetComponentSampling(cc, 1, 1)
			}
			pd.SetResilient(mode == 1)
			pd.SetStrict(mode == 2)
			pk, err := pd.DecodePackets()
			if err != nil {
				line = "err"
				return
			}
			var outs []string
			for _, p := range pk {
				if !p.HeaderPresent {
					outs = append(outs, "e")
					continue
				}
				var ls []string
				for _, ci := range p.CodeBlockIncls {
					if !ci.Included {
						ls = append(ls, "x")
					} else {
						ls = append(ls, fmt.Sprint(ci.DataLength))
					}
				}
				pb := 0
				if p.PartialBuffer {
					pb = 1
				}
				outs = append(outs, fmt.Sprintf("%s:%d:%d", strings.Join(ls, ","), len(p.Body), pb))
			}
			line = "ok " + strings.Join(outs, ";")
		}); p {
			line = "panic"
		}
		if strings.HasPrefix(line, "ok") {
			// allocation volume of the whole decode (default mode of jpeg2000.Decoder), in 4 MiB units
			full := s.stream()
			var m0, m1 runtime.MemStats
			runtime.ReadMemStats(&m0)
			_, _ = hx.Guard(func() { _ = jpeg2000.NewDecoder().Decode(full) })
			runtime.ReadMemStats(&m1)
			line += fmt.Sprintf(" big=%d", (m1.TotalAlloc-m0.TotalAlloc)>>20)
		}
		c.Case(op, line)
		c.Count("corr:pktbody:" + strings.Fields(line)[0])
	}
}

// j2kDegenerateGeometry (operator `j2k-degenerate-geometry`): tiny streams (under 200 bytes) declaring extreme aspect ratios at
// S = 10^6 — 1 x 1,000,000, 1,000,000 x 1, 2 x 500,000, … — with one empty tile-part, for the smallest and the default
// code-block size and 0 / 1 / 5 / 32 decomposition levels.  The number of code-block POSITIONS is then as large as it can
// be for the declared sample count (250,000 4x4 blocks of one sample row each): memory that follows the code-block count
// instead of the sample count (tens of KiB per position: gigabytes) exceeds the budget of 576 MB here; the current tree
// needs well under a second of CPU and about 130 MB.  (At S = 4·10^6 the same shapes need 2.5 s and 460–565 MB when the
// machine is idle, and several times that CPU time under memory-bandwidth contention: too close to the budget for a check
// that must never alarm on the unchanged tree.)
func (b *c08Builder) j2kDegenerateGeometry() {
	be16 := func(v int) []byte { return []byte{byte(v >> 8), byte(v)} }
	be32 := func(v int) []byte { x := make([]byte, 4); binary.BigEndian.PutUint32(x, uint32(v)); return x }
	seg := func(m byte, p []byte) []byte { return append(append([]byte{0xFF, m}, be16(len(p)+2)...), p...) }
	mk := func(w, h, comps, levels, cbw, cbh int) []byte {
		s := []byte{0xFF, 0x4F}
		siz := be16(0)
		for _, v := range []int{w, h, 0, 0, w, h, 0, 0} {
			siz = append(siz, be32(v)...)
		}
		siz = append(siz, be16(comps)...)
		for c := 0; c < comps; c++ {
			siz = append(siz, 7, 1, 1)
		}
		s = append(s, seg(0x51, siz)...)
		s = append(s, seg(0x52, []byte{0, 0, 0, 1, 0, byte(levels), byte(cbw), byte(cbh), 0, 1})...)
		q := []byte{0x40}
		for i := 0; i < 3*levels+1; i++ {
			q = append(q, 0x40)
		}
		s = append(s, seg(0x5C, q)...)
		sot := append(be16(0), be32(14)...)
		s = append(s, seg(0x90, append(sot, 0, 1))...)
		return append(s, 0xFF, 0x93, 0xFF, 0xD9)
	}
	tj, th := c08TargetIdx("j2k"), c08TargetIdx("htj2k")
	shapes := [][3]int{{1, 1000000, 1}, {1000000, 1, 1}}
	cbs := [][2]int{{0, 0}, {4, 4}}
	levels := []int{0, 5}
	if b.c.Thorough() {
		shapes = append(shapes, [3]int{2, 500000, 1}, [3]int{500000, 2, 1}, [3]int{1000, 1000, 1}, [3]int{1, 333333, 3}, [3]int{1048576, 1, 1})
		cbs = append(cbs, [2]int{8, 0}, [2]int{0, 8})
		levels = []int{0, 1, 5, 32}
	}
	for _, sh := range shapes {
		for _, cb := range cbs {
			for _, lv := range levels {
				s := mk(sh[0], sh[1], sh[2], lv, cb[0], cb[1])
				b.add(tj, [5]uint16{}, s, "j2k-degenerate-geometry", fmt.Sprintf("%dx%dx%d", sh[0], sh[1], sh[2]))
				if lv == 0 && cb[0] == 0 {
					b.add(th, [5]uint16{}, s, "j2k-degenerate-geometry", fmt.Sprintf("%dx%dx%d", sh[0], sh[1], sh[2]))
				}
			}
		}
	}
}
