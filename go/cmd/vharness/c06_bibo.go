package main

// C06 — worst-case (BIBO) content for every sub-band (family bibo-worst-case).
//
// Found missing by an independent seeded change (seeded/C06-m8: one entry of the OpenJPH 5/3 BIBO gain table typed
// 2.8140 instead of 2.8410 gives the level-6 HH band one magnitude bit too few; encoder, QCD and decoder stay
// consistent, so only a coefficient above 99% of the band's true worst case shows it).  Random, smooth, checkerboard
// and extreme-valued content never comes near a deep band's worst case.  This family builds, for every level
// 1..6 and every band kind (LL, HL, LH, HH), the image that MAXIMISES one coefficient of that band: the sign pattern
// of the linear 5/3 analysis functional of that coefficient (computed here by pushing unit impulses through a float
// lifting implementation written for this purpose), as an outer product of a horizontal and a vertical 1D pattern,
// with the two extreme sample values.  It then runs the ordinary codec round trip (c06RoundTrip).

import (
	"fmt"

	"verifharness/internal/hx"
)

func init() { registerExtra("C06", "bibo-worst-case", c06Bibo) }

func c06Ext(i, n int) int {
	if n == 1 {
		return 0
	}
	for i < 0 || i >= n {
		if i < 0 {
			i = -i
		}
		if i >= n {
			i = 2*(n-1) - i
		}
	}
	return i
}

// c06Analysis53 returns (low, highs[level-1]) of a float 5/3 lifting analysis with whole-sample symmetric extension
func c06Analysis53(x []float64, levels int) ([]float64, [][]float64) {
	var highs [][]float64
	cur := append([]float64{}, x...)
	for l := 0; l < levels; l++ {
		n := len(cur)
		if n < 2 {
			highs = append(highs, nil)
			continue
		}
		y := append([]float64{}, cur...)
		for i := 1; i < n; i += 2 {
			y[i] = cur[i] - (cur[c06Ext(i-1, n)]+cur[c06Ext(i+1, n)])/2
		}
		for i := 0; i < n; i += 2 {
			y[i] = cur[i] + (y[c06Ext(i-1, n)]+y[c06Ext(i+1, n)])/4
		}
		var lo, hi []float64
		for i := 0; i < n; i++ {
			if i%2 == 0 {
				lo = append(lo, y[i])
			} else {
				hi = append(hi, y[i])
			}
		}
		highs = append(highs, hi)
		cur = lo
	}
	return cur, highs
}

// c06SignPattern: +1/-1 per input position — the sign of the weight with which x[i] enters the chosen coefficient
// (high = true: the middle coefficient of the level-`level` high-pass band; false: of the level-`level` low-pass band)
func c06SignPattern(n, level int, high bool) []int {
	pat := make([]int, n)
	pick := func(lo []float64, highs [][]float64) (float64, bool) {
		b := lo
		if high {
			b = highs[level-1]
		}
		if len(b) == 0 {
			return 0, false
		}
		return b[len(b)/2], true
	}
	for i := 0; i < n; i++ {
		x := make([]float64, n)
		x[i] = 1
		lo, highs := c06Analysis53(x, level)
		w, ok := pick(lo, highs)
		if !ok {
			return nil
		}
		pat[i] = 1
		if w < 0 {
			pat[i] = -1
		}
	}
	return pat
}

func c06Bibo(c *hx.Ctx) {
	r := hx.NewRand(c.Seed ^ 0xC06B1B0)
	type cacheKey struct {
		n, l int
		h    bool
	}
	cache := map[cacheKey][]int{}
	pat := func(n, l int, h bool) []int {
		k := cacheKey{n, l, h}
		if p, ok := cache[k]; ok {
			return p
		}
		p := c06SignPattern(n, l, h)
		cache[k] = p
		return p
	}
	for level := 1; level <= 6; level++ {
		n := 4 << uint(level) // the level is not clamped and the middle coefficient sees its whole support
		if n < 32 {
			n = 32
		}
		sizes := [][2]int{{n, n}}
		if c.Thorough() {
			sizes = append(sizes, [2]int{n + 1 + r.Intn(9), n - 1 - r.Intn(3)}, [2]int{2 * n, n})
		}
		for _, sz := range sizes {
			for band := 0; band < 4; band++ { // 0 LL, 1 HL (high horizontally), 2 LH, 3 HH
				px, py := pat(sz[0], level, band&1 == 1), pat(sz[1], level, band&2 == 2)
				if px == nil || py == nil {
					continue
				}
				for _, v := range [][3]int{{16, 16, 0}, {8, 8, 0}, {16, 16, 1}, {16, 12, 0}} {
					if !c.Thorough() && v[0] == 8 && band != 3 {
						continue
					}
					for _, flip := range []int{1, -1} {
						k := c06Case{W: sz[0], H: sz[1], BA: v[0], BS: v[1], SPP: 1, Signed: v[2] == 1, BW: 64, BH: 64, NL: level,
							RPCL: (level+band)%2 == 1, Gen: fmt.Sprintf("bibo-worst-case L%d band%d", level, band)}
						if band == 3 && flip == 1 && v[0] == 16 && v[2] == 0 && v[1] == 16 {
							k.NL = 6 // ask for the maximum: the codec clamps to what the geometry allows
						}
						hi := 1<<uint(k.BS) - 1
						lo := 0
						if k.Signed { // two's complement in BS bits: most positive / most negative
							hi = 1<<uint(k.BS-1) - 1
							lo = 1 << uint(k.BS-1)
						}
						src := make([]byte, k.native())
						for y := 0; y < k.H; y++ {
							for x := 0; x < k.W; x++ {
								val := lo
								if px[x]*py[y]*flip > 0 {
									val = hi
								}
								i := (y*k.W + x) * (k.BA / 8)
								src[i] = byte(val)
								if k.BA == 16 {
									src[i+1] = byte(val >> 8)
								}
							}
						}
						c06RoundTrip(c, k, src)
						c.Count(fmt.Sprintf("bibo-worst-case:level%d", level))
					}
				}
			}
		}
	}
}
