package main

// C15 hunt families (intdct), direction B (foreign baseline-sequential streams -> baseline.Decode / extended.Decode vs
// image/jpeg).  The reference encoder of c15.go writes one interleaved scan, grey components with factors 1x1 and no
// fill bytes; the variant below (same planes, tables and bit writer) also writes
//   * a single-component frame whose SOF0 declares sampling factors H,V in 1..4 (legal; the scan is not interleaved, so
//     the factors do not change the data layout — T.81 A.2.3)                       finding C15-grey-sampling-factors
//   * 0xFF fill bytes in front of RSTn, SOS, EOI and the table segments (T.81 B.1.1.2) finding C15-fill-bytes-before-rst
//   * the components of a SOF0 frame in separate non-interleaved scans (T.81 A.2.3: one data unit per MCU over the
//     component's own ceil(xi/8) x ceil(yi/8) grid), with tables re-defined between scans or not
//                                                                                  finding C15-noninterleaved-scans
// Oracle: the property's (decoder accepts, width*height*components tightly packed, within 2 / 6 of image/jpeg).

import (
	"fmt"

	"github.com/cocosip/go-dicom-codecs/jpeg/baseline"
	"github.com/cocosip/go-dicom-codecs/jpeg/standard"
	"verifharness/internal/hx"
)

type c15hExtra struct {
	GreyH, GreyV int     // sampling factors written for a single component (0 = 1)
	Scans        [][]int // component indices per scan; nil = one scan with all components
	FillRST      int     // fill bytes in front of every RSTn
	FillSOS      int     // fill bytes in front of every SOS after the first (i.e. right after entropy-coded data)
	FillEOI      int     // fill bytes in front of EOI
	FillSeg      int     // fill bytes in front of the DQT/SOF/DHT/DRI segments
	DHTPerScan   bool    // write the Huffman tables a scan uses right before its SOS instead of all up front
}

type c15hSym struct {
	dc      bool
	t, sym  int // table id, Huffman symbol
	val, nb int // appended bits
	rst     bool
}

// c15hScanSyms: the symbol sequence of one scan (restart positions marked)
func c15hScanSyms(o *c15Opts, comps []int) []c15hSym {
	nc := len(o.Planes)
	tab := func(ci int) int {
		if ci == 0 {
			return 0
		}
		return 1
	}
	maxH, maxV := 1, 1
	for _, p := range o.Planes {
		if p.H > maxH {
			maxH = p.H
		}
		if p.V > maxV {
			maxV = p.V
		}
	}
	pred := make([]int, nc)
	var out []c15hSym
	n := 0
	mcu := func(units func(f func(ci, du int))) {
		if o.Restart > 0 && n > 0 && n%o.Restart == 0 {
			for i := range pred {
				pred[i] = 0
			}
			out = append(out, c15hSym{rst: true})
		}
		n++
		units(func(ci, du int) {
			t := tab(ci)
			cf := &o.Planes[ci].Coef[du]
			d := cf[0] - pred[ci]
			pred[ci] = cf[0]
			cat := c15Cat(d)
			v := d
			if v < 0 {
				v += 1<<uint(cat) - 1
			}
			out = append(out, c15hSym{dc: true, t: t, sym: cat, val: v, nb: cat})
			run := 0
			for k := 1; k < 64; k++ {
				v := cf[c11ZigZag[k]]
				if v == 0 {
					run++
					continue
				}
				for run >= 16 {
					out = append(out, c15hSym{t: t, sym: 0xF0})
					run -= 16
				}
				cat := c15Cat(v)
				if v < 0 {
					v += 1<<uint(cat) - 1
				}
				out = append(out, c15hSym{t: t, sym: run<<4 | cat, val: v, nb: cat})
				run = 0
			}
			if run > 0 {
				out = append(out, c15hSym{t: t, sym: 0})
			}
		})
	}
	if len(comps) == 1 { // not interleaved: the component's own grid, raster order, one data unit per MCU
		ci := comps[0]
		p := o.Planes[ci]
		xi, yi := (o.W*p.H+maxH-1)/maxH, (o.H*p.V+maxV-1)/maxV
		for by := 0; by < (yi+7)/8; by++ {
			for bx := 0; bx < (xi+7)/8; bx++ {
				du := by*p.BW + bx
				mcu(func(f func(ci, du int)) { f(ci, du) })
			}
		}
		return out
	}
	mcuCols, mcuRows := (o.W+8*maxH-1)/(8*maxH), (o.H+8*maxV-1)/(8*maxV)
	for my := 0; my < mcuRows; my++ {
		for mx := 0; mx < mcuCols; mx++ {
			mcu(func(f func(ci, du int)) {
				for _, ci := range comps {
					p := o.Planes[ci]
					for v := 0; v < p.V; v++ {
						for h := 0; h < p.H; h++ {
							f(ci, (my*p.V+v)*p.BW+mx*p.H+h)
						}
					}
				}
			})
		}
	}
	return out
}

func c15hEncode(o *c15Opts, x c15hExtra) []byte {
	nc := len(o.Planes)
	scans := x.Scans
	if scans == nil {
		all := make([]int, nc)
		for i := range all {
			all[i] = i
		}
		scans = [][]int{all}
	}
	syms := make([][]c15hSym, len(scans))
	var fdc, fac [2][257]int
	for si, cl := range scans {
		syms[si] = c15hScanSyms(o, cl)
		for _, s := range syms[si] {
			switch {
			case s.rst:
			case s.dc:
				fdc[s.t][s.sym]++
			default:
				fac[s.t][s.sym]++
			}
		}
	}
	var dc, ac [2]*c15Huff
	nt := 1
	if nc == 3 {
		nt = 2
	}
	if o.Optimise {
		for t := 0; t < nt; t++ {
			dc[t], ac[t] = c15OptHuff(fdc[t]), c15OptHuff(fac[t])
		}
	} else {
		dc[0] = c15StdHuff([16]int{0, 1, 5, 1, 1, 1, 1, 1, 1}, []byte{0, 1, 2, 3, 4, 5, 6, 7, 8, 9, 10, 11})
		dc[1] = c15StdHuff([16]int{0, 3, 1, 1, 1, 1, 1, 1, 1, 1, 1}, []byte{0, 1, 2, 3, 4, 5, 6, 7, 8, 9, 10, 11})
		ac[0] = c15StdHuff(standard.StandardACLuminanceBits, standard.StandardACLuminanceValues)
		ac[1] = c15StdHuff(standard.StandardACChrominanceBits, standard.StandardACChrominanceValues)
		for t := 0; t < 2; t++ {
			if !c15ACComplete(ac[t]) {
				ac[t] = c15OptHuff(fac[t])
			}
		}
	}
	var out []byte
	fill := func(n int) {
		for i := 0; i < n; i++ {
			out = append(out, 0xFF)
		}
	}
	seg := func(m byte, payload []byte) {
		out = append(out, 0xFF, m, byte((len(payload)+2)>>8), byte(len(payload)+2))
		out = append(out, payload...)
	}
	out = append(out, 0xFF, 0xD8)
	if o.JFIF {
		seg(0xE0, []byte{'J', 'F', 'I', 'F', 0, 1, 1, 0, 0, 1, 0, 1, 0, 0})
	}
	for t, q := range o.QT {
		p := []byte{byte(t)}
		for k := 0; k < 64; k++ {
			p = append(p, byte(q[c11ZigZag[k]]))
		}
		fill(x.FillSeg)
		seg(0xDB, p)
	}
	sof := []byte{8, byte(o.H >> 8), byte(o.H), byte(o.W >> 8), byte(o.W), byte(nc)}
	id := func(ci int) byte {
		if nc == 1 {
			return byte(o.GreyID)
		}
		return byte(ci + 1)
	}
	for ci, p := range o.Planes {
		hv := byte(p.H<<4 | p.V)
		if nc == 1 && x.GreyH > 0 {
			hv = byte(x.GreyH<<4 | x.GreyV)
		}
		sof = append(sof, id(ci), hv, byte(p.Tq))
	}
	fill(x.FillSeg)
	seg(0xC0, sof)
	dht := func(ts []int) {
		var all []byte
		for _, t := range ts {
			for cls, h := range []*c15Huff{dc[t], ac[t]} {
				all = append(all, byte(cls<<4|t))
				for _, b := range h.bits {
					all = append(all, byte(b))
				}
				all = append(all, h.vals...)
			}
		}
		fill(x.FillSeg)
		seg(0xC4, all)
	}
	if !x.DHTPerScan {
		ts := []int{0}
		if nt == 2 {
			ts = []int{0, 1}
		}
		dht(ts)
	}
	if o.Restart > 0 {
		fill(x.FillSeg)
		seg(0xDD, []byte{byte(o.Restart >> 8), byte(o.Restart)})
	}
	for si, cl := range scans {
		if x.DHTPerScan {
			used := map[int]bool{}
			var ts []int
			for _, ci := range cl {
				t := 0
				if ci > 0 {
					t = 1
				}
				if !used[t] {
					used[t] = true
					ts = append(ts, t)
				}
			}
			dht(ts)
		}
		sos := []byte{byte(len(cl))}
		for _, ci := range cl {
			t := 0
			if ci > 0 {
				t = 1
			}
			sos = append(sos, id(ci), byte(t<<4|t))
		}
		sos = append(sos, 0, 63, 0)
		if si > 0 {
			fill(x.FillSOS)
		}
		seg(0xDA, sos)
		bw := &c15Bits{}
		rst := 0
		for _, s := range syms[si] {
			if s.rst {
				bw.pad()
				for i := 0; i < x.FillRST; i++ {
					bw.buf = append(bw.buf, 0xFF)
				}
				bw.buf = append(bw.buf, 0xFF, byte(0xD0+rst%8))
				rst++
				continue
			}
			h := ac[s.t]
			if s.dc {
				h = dc[s.t]
			}
			bw.put(h.code[s.sym], h.size[s.sym])
			if s.nb > 0 {
				bw.put(uint32(s.val), s.nb)
			}
		}
		bw.pad()
		out = append(out, bw.buf...)
	}
	fill(x.FillEOI)
	return append(out, 0xFF, 0xD9)
}

// c15hCompare: c15Compare's oracle with the class chosen from the stream feature under test.
// The reference is image/jpeg's reconstruction of `refStream`: the stream itself for the witnesses, otherwise the
// "twin" (same quantised planes written as one interleaved scan, grey factors 1x1, no fill bytes), which carries the
// same image, so that variants image/jpeg does not support (a grey frame with a factor of 3) are still judged.
func c15hCompare(c *hx.Ctx, d c15Dec, stream, refStream []byte, feature string, in map[string]any) {
	c.Eval("c15h "+d.Name+" "+hx.Hex(stream), true)
	c.Count("c15h:" + feature + ":" + d.Name)
	cls := "c15h-" + d.Name + "-" + feature
	ref, rw, rh, rc, rerr := c15StdDecode(refStream)
	if rerr != nil {
		c.Count("c15h:imagejpeg-rejects:" + feature + ":" + rerr.Error())
		c15Fail(c, hx.Failure{Class: "c15h-harness-reference-stream-rejected", What: "image/jpeg rejects the reference stream (harness defect): " + rerr.Error(), Input: in})
		return
	}
	var got []byte
	var w, h, comps int
	var err error
	if p, msg := hx.Guard(func() { got, w, h, comps, err = d.F(stream) }); p {
		c15Fail(c, hx.Failure{Class: cls, What: "decoder panicked on a valid baseline-sequential stream: " + msg, Input: in})
		return
	}
	if err != nil {
		c15Fail(c, hx.Failure{Class: cls, What: "decoder rejects a valid baseline-sequential stream that image/jpeg decodes: " + err.Error(), Input: in,
			Expected: fmt.Sprintf("%dx%dx%d samples within tolerance of image/jpeg", rw, rh, rc), Actual: "error: " + err.Error()})
		return
	}
	if w != rw || h != rh || comps != rc || len(got) != rw*rh*rc {
		c15Fail(c, hx.Failure{Class: cls, What: "decoder does not return width*height*components tightly packed samples", Input: in,
			Expected: fmt.Sprintf("%dx%dx%d, %d bytes", rw, rh, rc, rw*rh*rc), Actual: fmt.Sprintf("%dx%dx%d, %d bytes", w, h, comps, len(got))})
		return
	}
	tol := 2
	if rc == 3 {
		tol = 6
	}
	for i := range ref {
		dlt := int(got[i]) - int(ref[i])
		if dlt > tol || dlt < -tol {
			c15Fail(c, hx.Failure{Class: cls, What: "decoder disagrees with image/jpeg beyond the tolerance", Input: in,
				Expected: fmt.Sprintf("within %d of %d at sample %d (x=%d y=%d ch=%d)", tol, ref[i], i, i/rc%rw, i/rc/rw, i%rc), Actual: fmt.Sprint(got[i])})
			return
		}
	}
	c.Count("c15h:" + feature + ":" + d.Name + ":agree")
}

func c15hOpts(c *hx.Ctx, w, h, comps, si, quality, class int) (*c15Opts, map[string]any) {
	px := c11Pack(c11Content(c.R, w, h, comps, 8, class), 8)
	qt := c15ScaledTables(quality)
	sm := c15Samplings[si]
	o := &c15Opts{W: w, H: h, QT: qt, GreyID: 1}
	if comps == 1 {
		o.QT = qt[:1]
	}
	o.Planes = c15FromImage(px, w, h, comps, sm.H, sm.V, qt)
	in := map[string]any{"source": "reference-encoder (c15hEncode)", "width": w, "height": h, "components": comps, "sampling": sm.Name,
		"quality": quality, "content": c11ContentNames[class], "pixels": hx.Hex(px)}
	return o, in
}

func c15hRun(c *hx.Ctx, o *c15Opts, x c15hExtra, feature string, in map[string]any) {
	s := c15hEncode(o, x)
	twin := c15hEncode(o, c15hExtra{})
	unsupported := false
	if a, _, _, _, err := c15StdDecode(s); err != nil {
		unsupported = true
		c.Count("c15h:imagejpeg-does-not-support:" + feature + ":" + err.Error())
	} else if b, _, _, _, err2 := c15StdDecode(twin); err2 != nil || string(a) != string(b) {
		c15Fail(c, hx.Failure{Class: "c15h-harness-variant-differs-from-twin", What: "image/jpeg decodes the variant stream and its plain twin differently (harness defect)",
			Input: map[string]any{"variant": fmt.Sprintf("%+v", x), "stream": hx.Hex(s), "twin": hx.Hex(twin)}})
		return
	} else {
		c.Count("c15h:imagejpeg-variant=twin:" + feature)
	}
	in2 := map[string]any{}
	for k, v := range in {
		in2[k] = v
	}
	in2["feature"], in2["variant"] = feature, fmt.Sprintf("%+v", x)
	in2["optimisedHuffman"], in2["restartInterval"] = o.Optimise, o.Restart
	in2["stream"] = hx.Hex(s)
	for _, d := range c15Decs {
		if d.Name == "extended" && unsupported {
			// extended.Decode hands 8-bit streams to image/jpeg; what image/jpeg does not support (a sampling factor
			// of 3) is the independent implementation's limit and has no reference in the property's terms
			c.Count("c15h:extended-skipped-imagejpeg-unsupported")
			continue
		}
		c15hCompare(c, d, s, twin, feature, in2)
	}
}

// the hunters' witness streams, verbatim
const (
	c15hWitnessGrey  = "ffd8ffdb0043000302020302020303030304030304050805050404050a070706080c0a0c0c0b0a0b0b0d0e12100d0e110e0b0b1016101113141515150c0f171816141812141514ffc0000b080010001801012200ffc400d20000010501010101010100000000000000000102030405060708090a0b100002010303020403050504040000017d01020300041105122131410613516107227114328191a1082342b1c11552d1f02433627282090a161718191a25262728292a3435363738393a434445464748494a535455565758595a636465666768696a737475767778797a838485868788898a92939495969798999aa2a3a4a5a6a7a8a9aab2b3b4b5b6b7b8b9bac2c3c4c5c6c7c8c9cad2d3d4d5d6d7d8d9dae1e2e3e4e5e6e7e8e9eaf1f2f3f4f5f6f7f8f9faffda0008010100003f00f983e1b689feabe5f4afaafe1b689feabe5f4afaafe1b689feabe5f4afce9f86da27faaf97d2beabf86da27faaf97d2be95d0afb4bf03785754f126b771f62d1747b29b50beb9f2da4f260890c923ed4059b0aa4e141271c026bffd9"
	c15hWitnessFill  = "ffd8ffdb0043000302020302020303030304030304050805050404050a070706080c0a0c0c0b0a0b0b0d0e12100d0e110e0b0b1016101113141515150c0f171816141812141514ffc0000b080008002001011100ffc400d20000010501010101010100000000000000000102030405060708090a0b100002010303020403050504040000017d01020300041105122131410613516107227114328191a1082342b1c11552d1f02433627282090a161718191a25262728292a3435363738393a434445464748494a535455565758595a636465666768696a737475767778797a838485868788898a92939495969798999aa2a3a4a5a6a7a8a9aab2b3b4b5b6b7b8b9bac2c3c4c5c6c7c8c9cad2d3d4d5d6d7d8d9dae1e2e3e4e5e6e7e8e9eaf1f2f3f4f5f6f7f8f9faffdd00040001ffda0008010100003f00f93bc11a27fabf96bfffffd0e3bc11a27fabf96bffffd1f4ff0004689feafe5affffd2fb3fc11a27fabf96bfffd9"
	c15hWitnessScans = "ffd8ffdb0084000302020302020303030304030304050805050404050a070706080c0a0c0c0b0a0b0b0d0e12100d0e110e0b0b1016101113141515150c0f171816141812141514010403030403030404040406040406070c07070606070f0a0a090c120f1212100f101013151b18131519151010182118191c1e1f1f1f12162224211e241b1e1f1effc00011080010001003011100021101031101ffc400d20000010501010101010100000000000000000102030405060708090a0b100002010303020403050504040000017d01020300041105122131410613516107227114328191a1082342b1c11552d1f02433627282090a161718191a25262728292a3435363738393a434445464748494a535455565758595a636465666768696a737475767778797a838485868788898a92939495969798999aa2a3a4a5a6a7a8a9aab2b3b4b5b6b7b8b9bac2c3c4c5c6c7c8c9cad2d3d4d5d6d7d8d9dae1e2e3e4e5e6e7e8e9eaf1f2f3f4f5f6f7f8f9faffda0008010100003f00f04f849a6ffa9e3d2bed6f849a6ffa9e3d2be54f849a6ffa9e3d2bed5f849a6ffa9e3d2bffda0008010200003f00e5bfb07fd9a3fb07fd9af50fec1ff668fec1ff0066bfffda0008010300003f00f66f127f1d78ff00893f8ebd83c49fc75e3fe24fe3afffd9"
)

func c15hHex(s string) []byte {
	out := make([]byte, len(s)/2)
	for i := range out {
		fmt.Sscanf(s[2*i:2*i+2], "%02x", &out[i])
	}
	return out
}

const (
	c15hGrey  = "grey-sampling-factors"
	c15hFill  = "fill-bytes-before-marker"
	c15hScans = "noninterleaved-scans"
)

func c15hFamilies(c *hx.Ctx) {
	// 0. the witnesses
	for _, wt := range []struct{ feature, hex string }{{c15hGrey, c15hWitnessGrey}, {c15hFill, c15hWitnessFill}, {c15hScans, c15hWitnessScans}} {
		s := c15hHex(wt.hex)
		in := map[string]any{"source": "hunter witness " + wt.feature, "stream": wt.hex}
		for _, d := range c15Decs {
			c15hCompare(c, d, s, s, wt.feature, in)
		}
	}
	dims := []int{1, 7, 8, 9, 15, 16, 17, 24, 25, 31, 32, 33, 40}
	pickDim := func() int { return dims[c.R.Intn(len(dims))] }
	reps := 1
	if c.Thorough() {
		reps = 6
	}
	// 1. grey frames with every pair of factors H,V in 1..4
	for r := 0; r < reps; r++ {
		for gh := 1; gh <= 4; gh++ {
			for gv := 1; gv <= 4; gv++ {
				w, h := pickDim(), pickDim()
				if r == 0 && gh == 2 && gv == 2 {
					w, h = 24, 16
				}
				o, in := c15hOpts(c, w, h, 1, 0, 1+c.R.Intn(100), c.R.Intn(7))
				o.Optimise = c.R.Bool()
				if c.R.Intn(3) == 0 {
					o.Restart = 1 + c.R.Intn(4)
				}
				if c.R.Intn(4) == 0 {
					o.GreyID = 0
				}
				feature := c15hGrey
				if gh == 1 && gv == 1 {
					feature = "control"
				}
				c15hRun(c, o, c15hExtra{GreyH: gh, GreyV: gv}, feature, in)
			}
		}
	}
	// 2. fill bytes: in front of RSTn (1..3), and in front of EOI / table segments (which ReadMarker always skipped)
	for r := 0; r < 10*reps; r++ {
		comps, si := 1, 0
		if r%2 == 1 {
			comps, si = 3, c.R.Intn(4)
		}
		w, h := pickDim(), pickDim()
		if w*h < 2*64*4 { // more than one MCU, so that a restart marker is written
			w, h = 32+w, 16+h
		}
		o, in := c15hOpts(c, w, h, comps, si, 1+c.R.Intn(100), c.R.Intn(7))
		o.Optimise = c.R.Bool()
		o.Restart = 1 + c.R.Intn(3)
		c15hRun(c, o, c15hExtra{FillRST: 1 + c.R.Intn(3), FillEOI: c.R.Intn(3), FillSeg: c.R.Intn(2)}, c15hFill, in)
		o.Restart = 0
		c15hRun(c, o, c15hExtra{FillEOI: 1 + c.R.Intn(3), FillSeg: 1 + c.R.Intn(2)}, "control", in)
	}
	// 3. non-interleaved scans: every sampling of the reference encoder, every partial-block geometry class
	orders := [][][]int{{{0}, {1}, {2}}, {{0}, {2}, {1}}, {{1}, {2}, {0}}, {{2}, {0}, {1}}}
	for r := 0; r < 6*reps; r++ {
		for si := range c15Samplings {
			w, h := pickDim(), pickDim()
			if r == 0 && si == 0 {
				w, h = 16, 16
			}
			if r == 1 && si == 2 {
				w, h = 17, 16 // the block-alias witness geometry
			}
			o, in := c15hOpts(c, w, h, 3, si, 1+c.R.Intn(100), c.R.Intn(7))
			o.Optimise = c.R.Bool()
			x := c15hExtra{Scans: orders[0]}
			if r >= 2 {
				x.Scans = orders[c.R.Intn(len(orders))]
				x.DHTPerScan = c.R.Bool()
				if c.R.Intn(3) == 0 && si == 0 {
					// restart intervals in non-interleaved scans only for 4:4:4: image/jpeg counts the restart interval
					// of a one-component scan in Hi*Vi data units instead of one (T.81 A.2.3), so for subsampled
					// frames it rejects conforming streams and gives no reference
					o.Restart = 1 + c.R.Intn(5)
				}
			}
			if r >= 4 { // with the other two features as well (needs every repair)
				x.FillSOS = c.R.Intn(3)
				if o.Restart > 0 {
					x.FillRST = c.R.Intn(2)
				}
			}
			c15hRun(c, o, x, c15hScans, in)
		}
	}
	// a scan that interleaves all components is still decoded as before (control), whatever the extras default to
	for si := range c15Samplings {
		o, in := c15hOpts(c, pickDim(), pickDim(), 3, si, 1+c.R.Intn(100), c.R.Intn(7))
		c15hRun(c, o, c15hExtra{}, "control", in)
	}
}

func init() {
	registerExtra("C15", "intdct-foreign-stream-variants", c15hFamilies)
	registerExtra("C15", "intdct-cellmaps", c15hCellCases)
}

// ---- correspondence: which data unit each pixel shows (model ops jpg-cellmap with parsedFrame, jpg-cellmap-ni) ----

// c15hCells decodes a stream whose data units of component ci are flat with pairwise distinct levels (base + ordinal)
// and returns, per pixel, the ordinal shown (-1: nothing written/read, -2: a level the stream does not contain).
func c15hCells(s []byte, w, h, comps, ci, n int) (string, bool) {
	var got []byte
	var err error
	var dc int
	if p, _ := hx.Guard(func() { got, _, _, dc, err = baseline.Decode(s) }); p {
		return "panic", false
	}
	if err != nil || dc != comps || len(got) != w*h*comps {
		return "err", false
	}
	cells := make([]int, w*h)
	for i := range cells {
		var lvl int
		switch {
		case comps == 1:
			lvl = int(got[i])
		case ci == 0:
			lvl = int(got[3*i+1])
		case ci == 1:
			lvl = c15InvChroma(int(got[3*i+2]), 116130)
		default:
			lvl = c15InvChroma(int(got[3*i]), 91881)
		}
		cells[i] = lvl - c15CellBase(comps, ci)
		if lvl == 0 || (comps == 3 && ci == 1 && got[3*i+2] == 0) || (comps == 3 && ci == 2 && got[3*i] == 0) {
			cells[i] = -1
		} else if cells[i] < 0 || cells[i] >= n {
			cells[i] = -2
		}
	}
	return "ok " + c11Ints(cells), true
}

func c15hCellPlanes(w, h int, hv [3][2]int, comps int) *c15Opts {
	var q [64]int
	for i := range q {
		q[i] = 1
	}
	o := &c15Opts{W: w, H: h, QT: [][64]int{q, q}, GreyID: 1}
	if comps == 1 {
		o.QT = o.QT[:1]
	}
	maxH, maxV := 1, 1
	for k := 0; k < comps; k++ {
		if hv[k][0] > maxH {
			maxH = hv[k][0]
		}
		if hv[k][1] > maxV {
			maxV = hv[k][1]
		}
	}
	mcuCols, mcuRows := (w+8*maxH-1)/(8*maxH), (h+8*maxV-1)/(8*maxV)
	for k := 0; k < comps; k++ {
		p := &c15Plane{H: hv[k][0], V: hv[k][1]}
		if k > 0 {
			p.Tq = 1
		}
		p.BW, p.BH = mcuCols*p.H, mcuRows*p.V
		p.Coef = make([][64]int, p.BW*p.BH)
		o.Planes = append(o.Planes, p)
	}
	return o
}

func c15hCellCases(c *hx.Ctx) {
	dims := []int{1, 7, 8, 9, 15, 16, 17, 24, 25, 31, 32, 33}
	// grey frames declaring factors gh x gv: the decoder works with 1x1 (model: parsedFrame)
	for _, w := range dims {
		for _, h := range dims {
			if !c.Thorough() && (w*5+h*3+int(c.Seed))%4 != 0 && !(w == 24 && h == 16) {
				continue
			}
			gh, gv := 1+c.R.Intn(4), 1+c.R.Intn(4)
			if w == 24 && h == 16 {
				gh, gv = 2, 2
			}
			o := c15hCellPlanes(w, h, [3][2]int{{1, 1}}, 1)
			p := o.Planes[0]
			n := p.BW * p.BH
			for du := 0; du < n; du++ {
				p.Coef[du][0] = (c15CellBase(1, 0) + du - 128) * 8
			}
			line, _ := c15hCells(c15hEncode(o, c15hExtra{GreyH: gh, GreyV: gv}), w, h, 1, 0, n)
			c.Case(fmt.Sprintf("jpg-cellmap %d %d 1 %d %d 1 1 1 1 0", w, h, gh, gv), line)
			c.Count("c15h:cellmap-grey")
		}
	}
	// a component coded in a scan of its own: raster order over its own grid (model: walkNI / shownNI)
	samp := [][3][2]int{{{1, 1}, {1, 1}, {1, 1}}, {{2, 1}, {1, 1}, {1, 1}}, {{2, 2}, {1, 1}, {1, 1}}, {{1, 2}, {1, 1}, {1, 1}},
		{{4, 1}, {1, 1}, {1, 1}}, {{2, 2}, {2, 1}, {1, 2}}, {{4, 2}, {2, 2}, {1, 1}}, {{3, 1}, {1, 1}, {1, 1}}}
	for _, w := range dims {
		for _, h := range dims {
			for si, hv := range samp {
				if !c.Thorough() && (w*7+h*3+si+int(c.Seed))%5 != 0 && !(w == 17 && h == 16 && si == 2) {
					continue
				}
				for ci := 0; ci < 3; ci++ {
					o := c15hCellPlanes(w, h, hv, 3)
					maxH, maxV := 1, 1
					for k := 0; k < 3; k++ {
						if hv[k][0] > maxH {
							maxH = hv[k][0]
						}
						if hv[k][1] > maxV {
							maxV = hv[k][1]
						}
					}
					p := o.Planes[ci]
					xi, yi := (w*p.H+maxH-1)/maxH, (h*p.V+maxV-1)/maxV
					nbx, nby := (xi+7)/8, (yi+7)/8
					n := nbx * nby
					if n > 240 || (ci > 0 && n > 120) {
						continue
					}
					for by := 0; by < nby; by++ {
						for bx := 0; bx < nbx; bx++ {
							p.Coef[by*p.BW+bx][0] = (c15CellBase(3, ci) + by*nbx + bx - 128) * 8
						}
					}
					line, _ := c15hCells(c15hEncode(o, c15hExtra{Scans: [][]int{{0}, {1}, {2}}}), w, h, 3, ci, n)
					c.Case(fmt.Sprintf("jpg-cellmap-ni %d %d 3 %d %d %d %d %d %d %d", w, h, hv[0][0], hv[0][1], hv[1][0], hv[1][1], hv[2][0], hv[2][1], ci), line)
					c.Count("c15h:cellmap-ni")
				}
			}
		}
	}
}
