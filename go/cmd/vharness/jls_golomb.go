package main

// Correspondence of the Golomb writer / limited-length code model (lean/GdcVerif/Model/Golomb.lean)
// with the real lossless.GolombWriter / GolombReader (both exported, no hook needed):
//   jls-gw  v1 c1 v2 c2 …            WriteBits(v,c)…; Flush()      -> bytes
//   jls-emv k m limit qbpp …         EncodeMappedValue(…)…; Flush() -> bytes
//   jls-dv  hex count k limit qbpp   count × DecodeValue on those bytes -> values
// plus the property "no 0xFF is followed by a byte >= 0x80" evaluated on every real byte string.

import (
	"bytes"
	"fmt"
	"strings"

	"github.com/cocosip/go-dicom-codecs/jpegls/lossless"

	"verifharness/internal/hx"
)

func jlsStuffedOK(b []byte) bool {
	for i := 0; i+1 < len(b); i++ {
		if b[i] == 0xFF && b[i+1] >= 0x80 {
			return false
		}
	}
	return true
}

func jlsGolomb(c *hx.Ctx, n int) {
	r := c.R
	for round := 0; round < n; round++ {
		// raw write sequences: counts 0..32, values masked to the count (as every caller does) —
		// with a bias towards all-ones values so that 0xFF bytes and 7-bit bytes are frequent
		nw := r.Range(0, 24)
		args := make([]int, 0, 2*nw)
		for i := 0; i < nw; i++ {
			cnt := r.Pick([]int{1, 1, 2, 3, 7, 8, 9, 15, 16, 17, 24, 31, 32, r.Range(0, 32)})
			var v uint32
			switch r.Intn(4) {
			case 0:
				v = 0xFFFFFFFF
			case 1:
				v = 0
			default:
				v = uint32(r.U64())
			}
			if cnt < 32 {
				v &= (1 << uint(cnt)) - 1
			}
			args = append(args, int(v), cnt)
		}
		var out []byte
		p, _ := hx.Guard(func() {
			var buf bytes.Buffer
			gw := lossless.NewGolombWriter(&buf)
			for i := 0; i < len(args); i += 2 {
				_ = gw.WriteBits(uint32(args[i]), args[i+1])
			}
			_ = gw.Flush()
			out = buf.Bytes()
		})
		res := "ok " + hx.Hex(out)
		if p {
			res = "panic"
		}
		c.Case("jls-gw"+jlsArgs(args), res)
		c.Count("kernel:jls-gw")
		if bytes.Contains(out, []byte{0xFF}) {
			c.Count("branch:0xFF-written-7-bit-byte-follows")
		}
		c.Eval("gw"+jlsArgs(args), nw > 0)
		if !p && !jlsStuffedOK(out) {
			c.Fail(hx.Failure{Class: "jls-golomb-writer-marker-in-scan", What: "GolombWriter output contains 0xFF followed by a byte >= 0x80",
				Input: map[string]any{"writes": jlsArgs(args)}, Actual: hx.Hex(out)})
		}

		// coded values: k, limit, qbpp as the scans use them; mapped value within the escape bound
		pp, near := jlsPN(r)
		t := lossless.NewTraits((1<<uint(pp))-1, near, 64)
		nv := r.Range(1, 12)
		k := r.Pick([]int{0, 0, 1, 2, 5, r.Range(0, 16)})
		limit := t.Limit
		if r.Intn(3) == 0 {
			limit = t.Limit - lossless.J[r.Intn(32)] - 1 // run interruption limit
		}
		eargs := make([]int, 0, 4*nv)
		vals := make([]int, 0, nv)
		for i := 0; i < nv; i++ {
			m := r.Intn(1 << uint(t.Qbpp)) // 0 .. 2^qbpp - 1
			switch r.Intn(5) {
			case 0:
				m = 1 << uint(t.Qbpp) // largest admissible: m-1 < 2^qbpp
			case 1:
				m = r.Intn(min(8, (1<<uint(t.Qbpp))+1)) // small values, still with m-1 < 2^qbpp
			}
			eargs = append(eargs, k, m, limit, t.Qbpp)
			vals = append(vals, m)
		}
		var eout []byte
		p, _ = hx.Guard(func() {
			var buf bytes.Buffer
			gw := lossless.NewGolombWriter(&buf)
			for i := 0; i < len(eargs); i += 4 {
				_ = gw.EncodeMappedValue(eargs[i], eargs[i+1], eargs[i+2], eargs[i+3])
			}
			_ = gw.Flush()
			eout = buf.Bytes()
		})
		res = "ok " + hx.Hex(eout)
		if p {
			res = "panic"
		}
		c.Case("jls-emv"+jlsArgs(eargs), res)
		c.Count("kernel:jls-emv")
		if p {
			continue
		}
		if !jlsStuffedOK(eout) {
			c.Fail(hx.Failure{Class: "jls-golomb-writer-marker-in-scan", What: "EncodeMappedValue output contains 0xFF followed by a byte >= 0x80",
				Input: map[string]any{"calls": jlsArgs(eargs)}, Actual: hx.Hex(eout)})
		}
		// read back with the real reader: the code round trip on the real code …
		got := make([]int, 0, nv)
		okAll := true
		p, _ = hx.Guard(func() {
			gr := lossless.NewGolombReader(bytes.NewReader(eout))
			for i := 0; i < nv; i++ {
				v, err := gr.DecodeValue(k, limit, t.Qbpp)
				if err != nil {
					okAll = false
					return
				}
				got = append(got, v)
			}
		})
		c.Eval("emv"+jlsArgs(eargs), true)
		if p || !okAll || !jlsEq(got, vals) {
			c.Fail(hx.Failure{Class: "jls-golomb-code-roundtrip", What: "DecodeValue does not return the values EncodeMappedValue wrote",
				Input: map[string]any{"calls": jlsArgs(eargs)}, Expected: jlsInts(vals, 64), Actual: fmt.Sprint(p, okAll, got)})
		}
		// … and the same bytes through the model's destuff + decodeValue
		dres := "err"
		if !p && okAll {
			dres = jlsOK(got...)
		}
		c.Case(fmt.Sprintf("jls-dv %s %d %d %d %d", hx.Hex(eout), nv, k, limit, t.Qbpp), dres)
		c.Count("kernel:jls-dv")
	}
}

// jlsReaderOps drives the real GolombReader and the model reader (lean/GdcVerif/Model/GolombReader.lean)
// with the same call sequences on the same bytes: writer output (well-stuffed), writer output cut
// short, and arbitrary bytes (markers inside, trailing 0xFF, 0xFF 0xFF).
//   jls-gr <bytes> op…   op -1 = ReadBit, op n >= 0 = ReadBits(n)
func jlsReaderOps(c *hx.Ctx, n int) {
	r := c.R
	for round := 0; round < n; round++ {
		var data []byte
		switch r.Intn(4) {
		case 0: // arbitrary bytes, 0xFF frequent
			data = make([]byte, r.Range(0, 40))
			for i := range data {
				switch r.Intn(4) {
				case 0:
					data[i] = 0xFF
				case 1:
					data[i] = byte(r.Intn(0x80))
				default:
					data[i] = byte(r.U64())
				}
			}
		default: // what the writer produces
			var buf bytes.Buffer
			gw := lossless.NewGolombWriter(&buf)
			for i := r.Range(0, 30); i > 0; i-- {
				cnt := r.Pick([]int{1, 1, 3, 7, 8, 9, 16, 31, 32, r.Range(0, 32)})
				v := uint32(r.U64())
				if r.Intn(3) == 0 {
					v = 0xFFFFFFFF
				}
				if cnt < 32 {
					v &= (1 << uint(cnt)) - 1
				}
				_ = gw.WriteBits(v, cnt)
			}
			_ = gw.Flush()
			data = buf.Bytes()
			if r.Intn(5) == 0 && len(data) > 0 {
				data = data[:r.Intn(len(data))]
			}
		}
		nops := r.Range(1, 60)
		ops := make([]int, nops)
		for i := range ops {
			ops[i] = r.Pick([]int{-1, -1, -1, 1, 2, 5, 8, 13, 16, 24, 31, 32, 0, 33, r.Range(0, 32)})
		}
		var b strings.Builder
		b.WriteString("ok")
		p, _ := hx.Guard(func() {
			gr := lossless.NewGolombReader(bytes.NewReader(data))
			for _, op := range ops {
				var v int
				var err error
				if op == -1 {
					v, err = gr.ReadBit()
				} else {
					var u uint32
					u, err = gr.ReadBits(op)
					v = int(u)
				}
				if err != nil {
					b.WriteString(" err")
					return
				}
				fmt.Fprintf(&b, " %d", v)
			}
		})
		if p {
			b.WriteString(" panic")
		}
		c.Case("jls-gr "+hx.Hex(data)+jlsArgs(ops), b.String())
		c.Count("kernel:jls-gr")
	}
}

func jlsArgs(a []int) string {
	var b strings.Builder
	for _, v := range a {
		fmt.Fprintf(&b, " %d", v)
	}
	return b.String()
}
