package main

// C16 — every encoded frame is one well-formed, self-describing codestream.
//
// Search: every encoder of the library is run through its public low-level Encode entry point
// on noise / extreme / flat images (sizes 1..40, 256.., 65535×small) and the bytes are walked by
// the independent strict parsers of c16_jpeg.go / c16_j2k.go; declared fields must equal the
// arguments, nothing may follow the end marker.
// Correspondence: the marker-segment writers (standard.Writer.WriteSegment,
// standard.WriteHuffmanTable) and the header part of every real stream are compared byte for
// byte with Model/JpegContainer.lean; the Go strict parser is compared with Spec/StrictJpeg.lean.

import (
	"bytes"
	"fmt"
	"runtime"
	"strconv"
	"strings"
	"sync"

	"github.com/cocosip/go-dicom-codecs/codec"
	"github.com/cocosip/go-dicom-codecs/jpeg/baseline"
	"github.com/cocosip/go-dicom-codecs/jpeg/extended"
	jll "github.com/cocosip/go-dicom-codecs/jpeg/lossless"
	"github.com/cocosip/go-dicom-codecs/jpeg/lossless14sv1"
	"github.com/cocosip/go-dicom-codecs/jpeg/standard"
	"github.com/cocosip/go-dicom-codecs/jpeg2000"
	"github.com/cocosip/go-dicom-codecs/jpeg2000/htj2k"
	"github.com/cocosip/go-dicom-codecs/jpeg2000/t1"
	jls "github.com/cocosip/go-dicom-codecs/jpegls/lossless"
	"github.com/cocosip/go-dicom-codecs/jpegls/nearlossless"
	"github.com/cocosip/go-dicom-codecs/rle"
	"github.com/cocosip/go-dicom/pkg/imaging/imagetypes"

	"verifharness/internal/hx"
)

func init() { register("C16", c16Run) }

// c16Case is one encoder call.
type c16Case struct {
	Enc            string // base ext8 ext12 jll sv1 jls near j2k htj2k rle
	W, H, C, Depth int
	Param          int // quality / predictor / NEAR
	Mode           string
	Pix            []byte
	J2K            *jpeg2000.EncodeParams
	Planar         int
}

type c16Result struct {
	Out      []byte
	Outcome  string // ok err panic
	Msg      string
	Fail     *c16Err // property failure (strict parse or field mismatch)
	Jpeg     *c16Jpeg
	J2k      *c16J2k
	J2kLoose *c16J2k // lenient split, only when the strict walk failed
	Escapes  int
	ScanLen  int
	Nontriv  bool
	FieldStr string
}

func (k *c16Case) key() string {
	s := fmt.Sprintf("%s %dx%d c%d d%d p%d %s", k.Enc, k.W, k.H, k.C, k.Depth, k.Param, k.Mode)
	if k.J2K != nil {
		p := k.J2K
		s += fmt.Sprintf(" t%dx%d L%d ll%v cb%dx%d pp%dx%d po%d ly%d sg%v mct%v q%d", p.TileWidth, p.TileHeight, p.NumLevels, p.Lossless,
			p.CodeBlockWidth, p.CodeBlockHeight, p.PrecinctWidth, p.PrecinctHeight, p.ProgressionOrder, p.NumLayers, p.IsSigned, p.EnableMCT, p.Quality)
	}
	return s
}

func (k *c16Case) input() map[string]any {
	m := map[string]any{"encoder": k.Enc, "width": k.W, "height": k.H, "components": k.C, "depth": k.Depth, "param": k.Param, "content": k.Mode}
	if len(k.Pix) <= 4096 {
		m["pixels_hex"] = hx.Hex(k.Pix)
	} else {
		m["pixels_len"] = len(k.Pix)
	}
	if k.J2K != nil {
		p := k.J2K
		m["j2k"] = map[string]any{"tileWidth": p.TileWidth, "tileHeight": p.TileHeight, "levels": p.NumLevels, "lossless": p.Lossless,
			"cbw": p.CodeBlockWidth, "cbh": p.CodeBlockHeight, "precinctW": p.PrecinctWidth, "precinctH": p.PrecinctHeight,
			"progression": int(p.ProgressionOrder), "layers": p.NumLayers, "signed": p.IsSigned, "mct": p.EnableMCT, "quality": p.Quality,
			"htj2k": p.HTJ2KMode, "targetRatio": p.TargetRatio}
	}
	return m
}

// c16Pixels: samples of `depth` bits, 1 byte each up to 8 bits, else 2 bytes little-endian.
func c16Pixels(r *hx.Rand, n, depth int, mode string) []byte {
	bps := 1
	if depth > 8 {
		bps = 2
	}
	maxv := (1 << uint(depth)) - 1
	out := make([]byte, n*bps)
	put := func(i, v int) {
		out[i*bps] = byte(v)
		if bps == 2 {
			out[i*bps+1] = byte(v >> 8)
		}
	}
	for i := 0; i < n; i++ {
		v := 0
		switch mode {
		case "noise":
			v = int(r.U64()) & maxv
		case "max":
			v = maxv
		case "zero":
			v = 0
		case "checker":
			if i%2 == 0 {
				v = maxv
			}
		case "sparse":
			if r.Intn(9) == 0 {
				v = int(r.U64()) & maxv
			} else {
				v = maxv / 2
			}
		case "ramp":
			v = (i * 7) & maxv
		}
		put(i, v)
	}
	return out
}

var c16Modes = []string{"noise", "noise", "noise", "max", "zero", "checker", "sparse", "ramp"}

// c16Sizes: boundary geometries first, then random small, then ≥ 256 in one dimension.
func c16Sizes(r *hx.Rand, nRandom int, big bool) [][2]int {
	s := [][2]int{{1, 1}, {8, 8}, {7, 9}, {17, 3}, {256, 1}, {1, 256}, {257, 3}, {3, 300}, {511, 2}}
	if big {
		s = append(s, [2]int{65535, 1}, [2]int{1, 65535})
	}
	for i := 0; i < nRandom; i++ {
		switch r.Intn(4) {
		case 0:
			s = append(s, [2]int{r.Range(256, 700), r.Range(1, 5)})
		case 1:
			s = append(s, [2]int{r.Range(1, 5), r.Range(256, 700)})
		default:
			s = append(s, [2]int{r.Range(1, 40), r.Range(1, 40)})
		}
	}
	return s
}

func c16Encode(k *c16Case) (out []byte, err error) {
	switch k.Enc {
	case "base":
		return baseline.Encode(k.Pix, k.W, k.H, k.C, k.Param)
	case "ext8":
		return extended.Encode(k.Pix, k.W, k.H, k.C, 8, k.Param)
	case "ext12":
		return extended.Encode(k.Pix, k.W, k.H, k.C, 12, k.Param)
	case "jll":
		return jll.Encode(k.Pix, k.W, k.H, k.C, k.Depth, k.Param)
	case "sv1":
		return lossless14sv1.Encode(k.Pix, k.W, k.H, k.C, k.Depth)
	case "jls":
		return jls.Encode(k.Pix, k.W, k.H, k.C, k.Depth)
	case "near":
		return nearlossless.Encode(k.Pix, k.W, k.H, k.C, k.Depth, k.Param)
	case "j2k", "htj2k":
		p := *k.J2K // a fresh parameter block and encoder per frame
		if p.HTJ2KMode {
			p.BlockEncoderFactory = func(w, h int) jpeg2000.BlockEncoder { return htj2k.NewHTEncoder(w, h) }
		}
		return jpeg2000.NewEncoder(&p).Encode(k.Pix)
	case "rle":
		fi := &imagetypes.FrameInfo{Width: uint16(k.W), Height: uint16(k.H), BitsAllocated: uint16(k.Depth), BitsStored: uint16(k.Depth),
			HighBit: uint16(k.Depth - 1), SamplesPerPixel: uint16(k.C), PlanarConfiguration: uint16(k.Planar)}
		src, dst := codec.NewTestPixelData(fi), codec.NewTestPixelData(fi)
		_ = src.AddFrame(k.Pix)
		if e := rle.NewRLECodec().Encode(src, dst, nil); e != nil {
			return nil, e
		}
		f, _ := dst.GetFrame(0)
		return f, nil
	}
	return nil, fmt.Errorf("unknown encoder")
}

func c16Eval(k *c16Case) *c16Result {
	res := &c16Result{}
	var err error
	p, msg := hx.Guard(func() { res.Out, err = c16Encode(k) })
	switch {
	case p:
		res.Outcome, res.Msg = "panic", msg
		return res
	case err != nil:
		res.Outcome, res.Msg = "err", err.Error()
		return res
	}
	res.Outcome = "ok"
	switch k.Enc {
	case "rle":
		res.Fail = c16CheckRLE(k, res.Out)
		res.Nontriv = len(res.Out) > 64
	case "j2k", "htj2k":
		j, e := c16ParseJ2K(res.Out)
		res.J2k, res.Fail = j, e
		if e != nil {
			res.J2kLoose = c16LenientJ2K(res.Out)
		}
		if e == nil {
			res.Fail = c16CheckJ2KFields(k, j)
			for _, tp := range j.Parts {
				res.ScanLen += len(tp.Body)
				for _, b := range tp.Body {
					if b == 0xFF {
						res.Escapes++
					}
				}
			}
			res.Nontriv = res.ScanLen >= 8
		}
	default:
		j, e := c16ParseJPEG(res.Out)
		res.Jpeg, res.Fail = j, e
		if e == nil {
			res.Fail = c16CheckJpegFields(k, j)
			res.Escapes, res.ScanLen = j.Escapes, j.ScanEnd-j.HdrEnd
			res.Nontriv = res.ScanLen >= 8
		}
	}
	return res
}

// c16CheckRLE: PS3.5 Annex G.2 header — 64 bytes, segment count = planes, offsets[0] = 64, ascending, even,
// inside the stream, unused offsets zero, even total length. (The PackBits body is C01's subject.)
func c16CheckRLE(k *c16Case, s []byte) *c16Err {
	if len(s) < 64 || len(s)%2 != 0 {
		return c16E("rle-header", "length %d", len(s))
	}
	le := func(o int) int { return int(s[o]) | int(s[o+1])<<8 | int(s[o+2])<<16 | int(s[o+3])<<24 }
	planes := ((k.Depth-1)/8 + 1) * k.C
	if le(0) != planes {
		return c16E("rle-header", "segment count %d, planes %d", le(0), planes)
	}
	prev := 0
	for i := 0; i < 15; i++ {
		o := le(4 + 4*i)
		if i < planes {
			if (i == 0 && o != 64) || o%2 != 0 || o >= len(s) || (i > 0 && o <= prev) {
				return c16E("rle-header", "offset %d = %d", i, o)
			}
			prev = o
		} else if o != 0 {
			return c16E("rle-header", "unused offset %d = %d", i, o)
		}
	}
	return nil
}

func c16CheckJpegFields(k *c16Case, j *c16Jpeg) *c16Err {
	wantSOF := map[string]int{"base": 0xC0, "ext8": 0xC0, "ext12": 0xC1, "jll": 0xC3, "sv1": 0xC3, "jls": 0xF7, "near": 0xF7}[k.Enc]
	// 8-bit "extended" frames are written by the baseline encoder: SOF0 or SOF1 are both legal for them
	if j.SOF != wantSOF && !(k.Enc == "ext8" && j.SOF == 0xC1) {
		return c16E("field-sof", "SOF marker ff%02x, expected ff%02x", j.SOF, wantSOF)
	}
	if j.X != k.W || j.Y != k.H {
		return c16E("field-size", "declares %dx%d for a %dx%d image", j.X, j.Y, k.W, k.H)
	}
	if len(j.Comps) != k.C {
		return c16E("field-components", "declares %d components, %d given", len(j.Comps), k.C)
	}
	if j.P != k.Depth {
		return c16E("field-precision", "declares precision %d, %d given", j.P, k.Depth)
	}
	for _, c := range j.Comps {
		if c.H != 1 || c.V != 1 {
			return c16E("field-sampling", "component %d sampled %dx%d (the encoders do not subsample)", c.ID, c.H, c.V)
		}
	}
	switch k.Enc {
	case "jll":
		if (k.Param != 0 && j.Ss != k.Param) || j.Al != 0 {
			return c16E("field-predictor", "Ss=%d Pt=%d for predictor %d", j.Ss, j.Al, k.Param)
		}
	case "sv1":
		if j.Ss != 1 || j.Al != 0 {
			return c16E("field-predictor", "Ss=%d Pt=%d for selection value 1", j.Ss, j.Al)
		}
	case "jls", "near":
		near := 0
		if k.Enc == "near" {
			near = k.Param
		}
		ilv := 0
		if k.C > 1 {
			ilv = 2
		}
		if j.Ss != near || j.Se != ilv || j.Al != 0 {
			return c16E("field-near", "NEAR=%d ILV=%d Pt=%d, expected NEAR=%d ILV=%d Pt=0", j.Ss, j.Se, j.Al, near, ilv)
		}
	}
	return nil
}

func c16CheckJ2KFields(k *c16Case, j *c16J2k) *c16Err {
	p := k.J2K
	tw, th := p.TileWidth, p.TileHeight
	if tw == 0 {
		tw = p.Width
	}
	if th == 0 {
		th = p.Height
	}
	if j.Xsiz != p.Width || j.Ysiz != p.Height || j.XOsiz != 0 || j.YOsiz != 0 || j.XTOsiz != 0 || j.YTOsiz != 0 {
		return c16E("field-size", "SIZ declares %dx%d (+%d,%d) for %dx%d", j.Xsiz, j.Ysiz, j.XOsiz, j.YOsiz, p.Width, p.Height)
	}
	if j.XTsiz != tw || j.YTsiz != th {
		return c16E("field-tile", "SIZ declares tiles %dx%d, expected %dx%d", j.XTsiz, j.YTsiz, tw, th)
	}
	if j.Csiz != p.Components {
		return c16E("field-components", "Csiz=%d, %d given", j.Csiz, p.Components)
	}
	want := p.BitDepth - 1
	if p.IsSigned {
		want |= 0x80
	}
	for c := 0; c < j.Csiz; c++ {
		if j.Ssiz[c] != want || j.XRsiz[c] != 1 || j.YRsiz[c] != 1 {
			return c16E("field-precision", "component %d: Ssiz=%02x XRsiz=%d YRsiz=%d, expected Ssiz=%02x", c, j.Ssiz[c], j.XRsiz[c], j.YRsiz[c], want)
		}
	}
	tr := 0
	if p.Lossless {
		tr = 1
	}
	if j.Transform != tr {
		return c16E("field-transform", "COD transform %d for lossless=%v", j.Transform, p.Lossless)
	}
	if j.Levels != p.NumLevels || j.Layers != p.NumLayers || j.Prog != int(p.ProgressionOrder) {
		return c16E("field-cod", "COD levels=%d layers=%d progression=%d, given %d %d %d", j.Levels, j.Layers, j.Prog, p.NumLevels, p.NumLayers, p.ProgressionOrder)
	}
	if 1<<uint(j.Xcb+2) != p.CodeBlockWidth || 1<<uint(j.Ycb+2) != p.CodeBlockHeight {
		return c16E("field-cod", "code-block exponents %d,%d for %dx%d", j.Xcb, j.Ycb, p.CodeBlockWidth, p.CodeBlockHeight)
	}
	mct := 0
	if p.EnableMCT && p.Components >= 3 {
		mct = 1
	}
	if j.MCT != mct {
		return c16E("field-cod", "COD MCT=%d, expected %d", j.MCT, mct)
	}
	if (j.Rsiz&0x4000 != 0) != p.HTJ2KMode || (j.CbStyle&0x40 != 0) != p.HTJ2KMode {
		return c16E("field-ht", "Rsiz=%04x cbstyle=%02x for HTJ2K=%v", j.Rsiz, j.CbStyle, p.HTJ2KMode)
	}
	if p.HTJ2KMode && !j.HasTLM {
		return c16E("field-ht", "HTJ2K stream without TLM")
	}
	return nil
}

// ---------------------------------------------------------------- case generation

func c16JpegCases(c *hx.Ctx) []*c16Case {
	r := c.R
	var ks []*c16Case
	nr := 25
	if c.Thorough() {
		nr = 120
	}
	add := func(enc string, w, h, comps, depth, param int, mode string) {
		ks = append(ks, &c16Case{Enc: enc, W: w, H: h, C: comps, Depth: depth, Param: param, Mode: mode,
			Pix: c16Pixels(r, w*h*comps, depth, mode)})
	}
	for si, sz := range c16Sizes(r, nr, true) {
		w, h := sz[0], sz[1]
		big := w*h > 60000
		for _, comps := range []int{1, 3} {
			mode := c16Modes[(si+comps)%len(c16Modes)]
			if big {
				mode = "noise"
			}
			// DCT family
			add("base", w, h, comps, 8, r.Pick([]int{1, 25, 50, 75, 90, 100}), mode)
			if !big || comps == 1 {
				add("ext8", w, h, comps, 8, r.Range(1, 100), mode)
			}
			if comps == 1 {
				add("ext12", w, h, 1, 12, r.Pick([]int{1, 50, 90, 100}), mode)
			}
			// lossless: every predictor on small sizes, a random one on big
			if big {
				add("jll", w, h, comps, r.Pick([]int{8, 12, 16}), r.Range(1, 7), mode)
			} else {
				for pred := 0; pred <= 7; pred++ {
					add("jll", w, h, comps, r.Range(2, 16), pred, c16Modes[(si+pred)%len(c16Modes)])
				}
			}
			add("sv1", w, h, comps, r.Range(2, 16), 0, mode)
			add("sv1", w, h, comps, r.Pick([]int{8, 16}), 0, "noise")
			// JPEG-LS
			d := r.Range(2, 16)
			add("jls", w, h, comps, d, 0, mode)
			add("jls", w, h, comps, r.Pick([]int{8, 16}), 0, "noise")
			d = r.Range(2, 16)
			lim := ((1 << uint(d)) - 1) / 2
			if lim > 255 {
				lim = 255
			}
			add("near", w, h, comps, d, r.Range(0, lim), mode)
			add("near", w, h, comps, d, lim, "noise")
		}
	}
	return ks
}

func c16J2KCases(c *hx.Ctx) []*c16Case {
	r := c.R
	var ks []*c16Case
	add := func(w, h, comps, depth int, signed bool, f func(p *jpeg2000.EncodeParams), mode string) {
		p := jpeg2000.DefaultEncodeParams(w, h, comps, depth, signed)
		f(p)
		enc := "j2k"
		if p.HTJ2KMode {
			enc = "htj2k"
		}
		ks = append(ks, &c16Case{Enc: enc, W: w, H: h, C: comps, Depth: depth, Mode: mode, J2K: p,
			Pix: c16Pixels(r, w*h*comps, depth, mode)})
	}
	depths := []int{8, 8, 12, 16, 1, 5, 10, 15}
	n := 260
	if c.Thorough() {
		n = 2500
	}
	// zero decomposition levels, reversible and irreversible (COD must declare the transform that was asked for even
	// when no DWT runs), classic and HT, 1 and 3 components — first, so that their main headers are compared too
	for _, ll := range []bool{false, true} {
		for _, comps := range []int{1, 3} {
			for _, ht := range []bool{false, true} {
				ll, ht := ll, ht
				add(19, 13, comps, 8, false, func(p *jpeg2000.EncodeParams) {
					p.Lossless, p.NumLevels, p.Quality = ll, 0, 70
					if ht {
						p.HTJ2KMode, p.ProgressionOrder = true, 2
					}
				}, "noise")
			}
		}
	}
	// boundary geometries, all five progressions, reversible and irreversible, single tile
	for po := 0; po < 5; po++ {
		for _, ll := range []bool{true, false} {
			po, ll := po, ll
			add(33, 21, 1+2*(po%2), 8, false, func(p *jpeg2000.EncodeParams) {
				p.ProgressionOrder, p.Lossless, p.NumLevels, p.NumLayers = uint8(po), ll, 3, 1+po%3
			}, "noise")
		}
	}
	for _, sz := range [][2]int{{1, 1}, {256, 3}, {3, 257}, {300, 2}, {65535, 1}, {1, 65535}} {
		sz := sz
		for _, ll := range []bool{true, false} {
			ll := ll
			add(sz[0], sz[1], 1, 8, false, func(p *jpeg2000.EncodeParams) { p.Lossless = ll; p.NumLevels = 2 }, "noise")
		}
	}
	// 64 tiles
	for _, ll := range []bool{true, false} {
		ll := ll
		add(64, 64, 1, 8, false, func(p *jpeg2000.EncodeParams) { p.Lossless = ll; p.TileWidth, p.TileHeight, p.NumLevels = 8, 8, 2 }, "noise")
		add(61, 59, 3, 12, false, func(p *jpeg2000.EncodeParams) {
			p.Lossless = ll
			p.TileWidth, p.TileHeight, p.NumLevels, p.NumLayers = 8, 8, 1, 2
		}, "noise")
	}
	for i := 0; i < n; i++ {
		w, h := r.Range(1, 48), r.Range(1, 48)
		if r.Intn(6) == 0 {
			w = r.Range(256, 400)
			h = r.Range(1, 6)
		}
		comps := r.Pick([]int{1, 1, 3, 3, 2, 4})
		depth := r.Pick(depths)
		signed := r.Intn(4) == 0
		mode := c16Modes[r.Intn(len(c16Modes))]
		ll := r.Bool()
		levels := r.Range(0, 5)
		layers := r.Pick([]int{1, 1, 2, 3, 5})
		po := r.Intn(5)
		cbw, cbh := 1<<uint(r.Range(2, 6)), 1<<uint(r.Range(2, 6))
		tiled := r.Intn(2) == 0
		tw, th := 0, 0
		if tiled {
			// aligned tilings (odd tile origins with ≥ 2 levels belong to C19): tile sizes multiple of 2^levels
			g := 1 << uint(levels)
			tw = g * r.Range(1, 3)
			th = g * r.Range(1, 3)
			for ((w+tw-1)/tw)*((h+th-1)/th) > 64 {
				tw *= 2
				th *= 2
			}
		}
		mct := r.Intn(4) != 0
		q := r.Pick([]int{1, 30, 50, 80, 95, 100})
		ratio := 0.0
		if !ll && r.Intn(5) == 0 {
			ratio = float64(r.Range(2, 12))
		}
		ht := r.Intn(4) == 0
		add(w, h, comps, depth, signed, func(p *jpeg2000.EncodeParams) {
			p.Lossless, p.NumLevels, p.NumLayers, p.ProgressionOrder = ll, levels, layers, uint8(po)
			p.CodeBlockWidth, p.CodeBlockHeight, p.TileWidth, p.TileHeight = cbw, cbh, tw, th
			p.EnableMCT, p.Quality, p.TargetRatio = mct, q, ratio
			if ht {
				p.HTJ2KMode = true
				p.ProgressionOrder = 2
				p.NumLayers = 1
				p.TargetRatio = 0
			}
		}, mode)
	}
	return ks
}

func c16RLECases(c *hx.Ctx) []*c16Case {
	r := c.R
	var ks []*c16Case
	for _, sz := range c16Sizes(r, 6, false) {
		for _, ba := range []int{8, 16} {
			for _, spp := range []int{1, 3} {
				n := sz[0] * sz[1] * spp * ba / 8
				ks = append(ks, &c16Case{Enc: "rle", W: sz[0], H: sz[1], C: spp, Depth: ba, Mode: "noise", Planar: r.Intn(2), Pix: r.Bytes(n)})
			}
		}
	}
	return ks
}

// ---------------------------------------------------------------- run

func c16Run(c *hx.Ctx) {
	c.Rule = "a stream counts as non-trivial when its entropy-coded part (JPEG scan / JPEG 2000 tile-part bodies / RLE segments) has at least 8 bytes"
	c16Segments(c)
	c16GuardLines(c)

	cases := c16JpegCases(c)
	cases = append(cases, c16J2KCases(c)...)
	cases = append(cases, c16RLECases(c)...)
	results := make([]*c16Result, len(cases))
	var wg sync.WaitGroup
	sem := make(chan struct{}, runtime.NumCPU())
	for i := range cases {
		wg.Add(1)
		sem <- struct{}{}
		go func(i int) {
			defer wg.Done()
			results[i] = c16Eval(cases[i])
			<-sem
		}(i)
	}
	wg.Wait()

	hdrLines := map[string]int{}
	for i, k := range cases {
		res := results[i]
		c.Count("enc:" + k.Enc)
		c.Count("content:" + k.Mode)
		switch {
		case k.W >= 65535 || k.H >= 65535:
			c.Count("size:65535")
		case k.W >= 256 || k.H >= 256:
			c.Count("size:256+")
		default:
			c.Count("size:small")
		}
		if res.Outcome != "ok" {
			c.Count("outcome:" + res.Outcome + ":" + k.Enc)
			if res.Outcome == "panic" {
				// an encoder panic on in-domain input is not a framing failure; it is C17's subject, recorded here
				c.Notes = append(c.Notes, "encoder panic (not evaluated): "+k.key()+" :: "+c16PanicSite(res.Msg))
			} else if len(c.Notes) < 40 {
				c.Notes = append(c.Notes, "encoder error (not evaluated): "+k.key()+" :: "+res.Msg)
			}
			continue
		}
		c.Eval(k.key(), res.Nontriv)
		if res.Escapes > 0 {
			c.Count("scan-has-0xFF:" + k.Enc)
			c.CountN("0xFF-bytes-in-entropy-data", res.Escapes)
		}
		if res.J2k != nil {
			c.Count(fmt.Sprintf("j2k-tiles:%s", c16Bucket(res.J2k.NumTiles)))
			if len(res.J2k.Parts) > res.J2k.NumTiles {
				c.Count("j2k-multi-tile-part")
			}
		}
		if res.Fail != nil {
			c.Fail(hx.Failure{Class: "c16-" + k.Enc + "-" + res.Fail.Kind, What: res.Fail.Detail, Input: k.input(),
				Expected: "one strictly parseable codestream declaring the arguments", Actual: c16Head(res.Out)})
			// the correspondence line is still produced when the stream can be cut: a wrong header byte / Psot
			// must ALSO show up as a disagreement between the header model and the real writer
			if res.Jpeg == nil && res.J2k == nil && res.J2kLoose == nil {
				continue
			}
		} else {
			c.Sample(map[string]any{"case": k.key(), "bytes": len(res.Out), "ff_in_scan": res.Escapes})
		}
		// correspondence: header bytes of the real stream vs the model, on a bounded number of streams per encoder
		lim := 14
		if c.Thorough() {
			lim = 80
		}
		// bounded per encoder × size class × component count, so that 65535-wide and 3-component headers are compared too
		hk := fmt.Sprintf("%s/%v/%v/%d", k.Enc, k.W >= 65535 || k.H >= 65535, k.W >= 256 || k.H >= 256, k.C)
		if hdrLines[hk] < lim {
			if c16HeaderLine(c, k, res) {
				hdrLines[hk]++
				c.Count("hdr-corr:" + k.Enc)
			}
		}
	}
	c16StrictLines(c, cases, results)
	c16SelfTest(c, cases, results)
	c16Pieces(c, cases, results)
	c16LayerCuts(c)
}

// c16SelfTest: the JPEG 2000 walker must reject streams whose framing is off by a little; a mutant that is
// still accepted means the search machinery is blind — the harness aborts rather than report "no failures".
func c16SelfTest(c *hx.Ctx, cases []*c16Case, results []*c16Result) {
	n := 0
	for i := range cases {
		res := results[i]
		if res.J2k == nil || res.Fail != nil || n >= 30 {
			continue
		}
		n++
		j := res.J2k
		tp := j.Parts[len(j.Parts)/2]
		mut := func(name string, f func(d []byte) []byte) {
			d := f(append([]byte(nil), res.Out...))
			if _, e := c16ParseJ2K(d); e == nil {
				panic("c16 self-test: mutant accepted by the strict JPEG 2000 walker: " + name + " on " + cases[i].key())
			}
			c.Count("selftest:j2k-mutant-rejected")
		}
		mut("psot+2", func(d []byte) []byte { d[tp.Start+9] += 2; return d })
		mut("psot-1", func(d []byte) []byte { d[tp.Start+9]--; return d })
		mut("tpsot", func(d []byte) []byte { d[tp.Start+10]++; return d })
		mut("trailing", func(d []byte) []byte { return append(d, 0) })
		mut("no-eoc", func(d []byte) []byte { return d[:len(d)-2] })
		mut("lsiz", func(d []byte) []byte { d[5]++; return d })
		if j.HasTLM {
			mut("tlm-entry", func(d []byte) []byte { d[j.TLMEnd-1] ^= 1; return d })
		}
		if len(tp.Body) >= 2 {
			mut("marker-in-body", func(d []byte) []byte {
				o := tp.Start + 12 + tp.HdrLen + 2
				d[o], d[o+1] = 0xFF, 0x91
				return d
			})
		}
	}
}

// c16PanicSite keeps the panic value and the first frames inside the library.
func c16PanicSite(msg string) string {
	parts := strings.Split(msg, " ; ")
	out := []string{parts[0]}
	for _, p := range parts[1:] {
		if strings.Contains(p, "go-dicom-codecs") || strings.Contains(p, "/repo/") {
			out = append(out, strings.TrimSpace(p))
		}
		if len(out) >= 7 {
			break
		}
	}
	return strings.Join(out, " ; ")
}

func c16Bucket(n int) string {
	switch {
	case n == 1:
		return "1"
	case n <= 4:
		return "2-4"
	case n <= 16:
		return "5-16"
	case n < 64:
		return "17-63"
	}
	return "64"
}

func c16Head(b []byte) string {
	if len(b) > 96 {
		return hx.Hex(b[:96]) + fmt.Sprintf("…(%d bytes)", len(b))
	}
	return hx.Hex(b)
}

func c16Ints(xs []int) string {
	if len(xs) == 0 {
		return "-"
	}
	s := make([]string, len(xs))
	for i, x := range xs {
		s[i] = strconv.Itoa(x)
	}
	return strings.Join(s, ",")
}

func c16Table(t *c16DHT) string { return c16Ints(t.Bits[:]) + " " + hx.Hex(t.Vals) }

func c16B(b bool) int {
	if b {
		return 1
	}
	return 0
}

// c16HeaderLine: `c16-hdr-<enc> args…` → the bytes of the real stream up to and including the SOS segment
// (JPEG family) or up to the first SOT/TLM (JPEG 2000), to be reproduced by the Lean model from the arguments.
// The Huffman tables (data dependent: BuildOptimalHuffmanTable) and lossy QCD steps (floating point)
// are passed as arguments, read back from the stream; everything else is recomputed by the model.
func c16HeaderLine(c *hx.Ctx, k *c16Case, res *c16Result) bool {
	j := res.Jpeg
	if j == nil && k.Enc != "j2k" && k.Enc != "htj2k" {
		return false
	}
	switch k.Enc {
	case "jll":
		c.Case(fmt.Sprintf("c16-hdr-jll %d %d %d %d %d %s", k.W, k.H, k.C, k.Depth, j.Ss, c16Table(&j.DHT[0])), "ok "+hx.Hex(res.Out[:j.HdrEnd]))
	case "sv1":
		c.Case(fmt.Sprintf("c16-hdr-sv1 %d %d %d %d %s", k.W, k.H, k.C, k.Depth, c16Table(&j.DHT[0])), "ok "+hx.Hex(res.Out[:j.HdrEnd]))
	case "jls":
		c.Case(fmt.Sprintf("c16-hdr-jls %d %d %d %d", k.W, k.H, k.C, k.Depth), "ok "+hx.Hex(res.Out[:j.HdrEnd]))
	case "near":
		c.Case(fmt.Sprintf("c16-hdr-near %d %d %d %d %d", k.W, k.H, k.C, k.Depth, k.Param), "ok "+hx.Hex(res.Out[:j.HdrEnd]))
	case "base", "ext8":
		// quantisation tables in natural order from the exported ScaleQuantTable; the model applies the zig-zag
		q0 := standard.ScaleQuantTable(standard.DefaultLuminanceQuantTable, k.Param)
		q1 := standard.ScaleQuantTable(standard.DefaultChrominanceQuantTable, k.Param)
		qs := func(q [64]int32) string {
			xs := make([]int, 64)
			for i := range xs {
				xs[i] = int(q[i])
			}
			return c16Ints(xs)
		}
		tabs := []string{}
		for i := range j.DHT {
			tabs = append(tabs, c16Table(&j.DHT[i]))
		}
		if len(j.DHT) != 2 && len(j.DHT) != 4 {
			return false
		}
		c.Case(fmt.Sprintf("c16-hdr-base %d %d %d %s %s %s", k.W, k.H, k.C, qs(q0), qs(q1), strings.Join(tabs, " ")), "ok "+hx.Hex(res.Out[:j.HdrEnd]))
	case "ext12":
		q0 := standard.ScaleQuantTable(standard.DefaultLuminanceQuantTable, k.Param)
		xs := make([]int, 64)
		for i := range xs {
			xs[i] = int(q0[i])
		}
		if len(j.DHT) != 2 {
			return false
		}
		c.Case(fmt.Sprintf("c16-hdr-ext12 %d %d %s %s %s", k.W, k.H, c16Ints(xs), c16Table(&j.DHT[0]), c16Table(&j.DHT[1])), "ok "+hx.Hex(res.Out[:j.HdrEnd]))
	case "j2k", "htj2k":
		p, s := k.J2K, res.J2k
		if s == nil {
			s = res.J2kLoose
		}
		end := s.MainEnd
		if s.HasTLM {
			end = s.TLMStart
		}
		expn, steps := "-", "-"
		if p.HTJ2KMode || !p.Lossless {
			// guard bits / style / SPqcd values come from floating-point tables: passed through
			if s.Sqcd&0x1F == 0 {
				e := make([]int, len(s.SPqcd))
				for i, b := range s.SPqcd {
					e[i] = b >> 3
				}
				expn = c16Ints(e)
			} else {
				steps = c16Ints(s.SPqcd)
			}
		}
		c.Case(fmt.Sprintf("c16-j2k-main %d %d %d %d %d %d %d %d %d %d %d %d %d %d %d %d %d %d %d %s %s",
			p.Width, p.Height, p.Components, p.BitDepth, c16B(p.IsSigned), p.TileWidth, p.TileHeight, p.NumLevels, c16B(p.Lossless),
			p.CodeBlockWidth, p.CodeBlockHeight, p.PrecinctWidth, p.PrecinctHeight, p.ProgressionOrder, p.NumLayers, c16B(p.EnableMCT), c16B(p.HTJ2KMode),
			s.Sqcd>>5, s.Sqcd&0x1F, expn, steps), "ok "+hx.Hex(res.Out[:end]))
		// tile-part assembly: bodies in, framing (SOT/Psot/TPsot/TNsot/SOD, TLM, EOC) out
		tail := res.Out[end:]
		if len(tail) <= 6000 {
			var b strings.Builder
			for _, tp := range s.Parts {
				b.WriteByte(' ')
				b.WriteString(hx.Hex(tp.Body))
			}
			c.Case(fmt.Sprintf("c16-j2k-tiles %d %d %d%s", c16B(p.HTJ2KMode), p.NumLevels, s.NumTiles, b.String()), "ok "+hx.Hex(tail))
		}
	default:
		return false
	}
	return true
}

// c16GuardLines: the argument guards in front of the header writers (the header models start with them):
// every JPEG-family Encode on arguments around each limit, with a pixel buffer that is always long enough, so
// that the only possible reason for an error is the guard itself. Real outcome `err` / `ok <header>` vs model.
func c16GuardLines(c *hx.Ctx) {
	tab := "1,0,0,0,0,0,0,0,0,0,0,0,0,0,0,0 00"
	buf := func(w, h, comps, depth int) []byte {
		n := 1
		for _, v := range []int{w, h, comps, (depth + 7) / 8} {
			if v > 0 {
				n *= v
			}
		}
		if n > 1<<24 {
			n = 1 << 24
		}
		return make([]byte, n+16)
	}
	line := func(op string, f func() ([]byte, error)) {
		var out []byte
		var err error
		p, _ := hx.Guard(func() { out, err = f() })
		real := "err"
		switch {
		case p:
			real = "panic"
		case err == nil:
			j, e := c16ParseJPEG(out)
			if e != nil {
				real = "ok unparseable " + c16Head(out)
			} else {
				real = "ok " + hx.Hex(out[:j.HdrEnd])
			}
		}
		if real != "err" {
			// an accepted argument tuple: the table argument of the op is not the real one, compare outcome class only
			c.Count("guard:accepted")
			return
		}
		c.Count("guard:rejected")
		c.Case(op, real)
	}
	type wh struct{ w, h int }
	dims := []wh{{65536, 1}, {1, 65536}, {65536, 65536}, {0, 1}, {1, 0}, {-1, 1}, {1, -3}, {70000, 2}}
	for _, d := range dims {
		d := d
		for _, comps := range []int{1, 3} {
			comps := comps
			line(fmt.Sprintf("c16-hdr-jll %d %d %d 8 1 %s", d.w, d.h, comps, tab), func() ([]byte, error) { return jll.Encode(buf(d.w, d.h, comps, 8), d.w, d.h, comps, 8, 1) })
			line(fmt.Sprintf("c16-hdr-sv1 %d %d %d 16 %s", d.w, d.h, comps, tab), func() ([]byte, error) { return lossless14sv1.Encode(buf(d.w, d.h, comps, 16), d.w, d.h, comps, 16) })
			line(fmt.Sprintf("c16-hdr-jls %d %d %d 8", d.w, d.h, comps), func() ([]byte, error) { return jls.Encode(buf(d.w, d.h, comps, 8), d.w, d.h, comps, 8) })
			line(fmt.Sprintf("c16-hdr-near %d %d %d 12 3", d.w, d.h, comps), func() ([]byte, error) { return nearlossless.Encode(buf(d.w, d.h, comps, 12), d.w, d.h, comps, 12, 3) })
			line(fmt.Sprintf("c16-guard-base %d %d %d", d.w, d.h, comps), func() ([]byte, error) { return baseline.Encode(buf(d.w, d.h, comps, 8), d.w, d.h, comps, 75) })
		}
		line(fmt.Sprintf("c16-guard-ext12 %d %d", d.w, d.h), func() ([]byte, error) { return extended.Encode(buf(d.w, d.h, 1, 12), d.w, d.h, 1, 12, 75) })
	}
	for _, comps := range []int{0, 2, 4, -1} {
		comps := comps
		line(fmt.Sprintf("c16-hdr-jll 4 4 %d 8 1 %s", max(comps, 0), tab), func() ([]byte, error) { return jll.Encode(buf(4, 4, comps, 8), 4, 4, comps, 8, 1) })
		line(fmt.Sprintf("c16-hdr-jls 4 4 %d 8", max(comps, 0)), func() ([]byte, error) { return jls.Encode(buf(4, 4, comps, 8), 4, 4, comps, 8) })
		line(fmt.Sprintf("c16-hdr-near 4 4 %d 8 1", max(comps, 0)), func() ([]byte, error) { return nearlossless.Encode(buf(4, 4, comps, 8), 4, 4, comps, 8, 1) })
		line(fmt.Sprintf("c16-guard-base 4 4 %d", max(comps, 0)), func() ([]byte, error) { return baseline.Encode(buf(4, 4, comps, 8), 4, 4, comps, 75) })
	}
	for _, depth := range []int{1, 17, 0, -2, 32} {
		depth := depth
		line(fmt.Sprintf("c16-hdr-jll 4 4 1 %d 1 %s", depth, tab), func() ([]byte, error) { return jll.Encode(buf(4, 4, 1, 16), 4, 4, 1, depth, 1) })
		line(fmt.Sprintf("c16-hdr-sv1 4 4 1 %d %s", depth, tab), func() ([]byte, error) { return lossless14sv1.Encode(buf(4, 4, 1, 16), 4, 4, 1, depth) })
		line(fmt.Sprintf("c16-hdr-jls 4 4 1 %d", depth), func() ([]byte, error) { return jls.Encode(buf(4, 4, 1, 16), 4, 4, 1, depth) })
		line(fmt.Sprintf("c16-hdr-near 4 4 1 %d 0", depth), func() ([]byte, error) { return nearlossless.Encode(buf(4, 4, 1, 16), 4, 4, 1, depth, 0) })
	}
	for _, pred := range []int{-1, 8, 100} {
		pred := pred
		line(fmt.Sprintf("c16-hdr-jll 4 4 1 8 %d %s", pred, tab), func() ([]byte, error) { return jll.Encode(buf(4, 4, 1, 8), 4, 4, 1, 8, pred) })
	}
	for _, near := range []int{-1, 256, 1000} {
		near := near
		line(fmt.Sprintf("c16-hdr-near 4 4 1 8 %d", near), func() ([]byte, error) { return nearlossless.Encode(buf(4, 4, 1, 8), 4, 4, 1, 8, near) })
	}
}

// c16Segments: the exported segment writers on arbitrary arguments (incl. lengths that do not fit 16 bits,
// BITS that disagree with the number of values, negative counts) vs the model.
func c16Segments(c *hx.Ctx) {
	r := c.R
	seg := func(marker int, data []byte) {
		var buf bytes.Buffer
		var err error
		p, _ := hx.Guard(func() { err = standard.NewWriter(&buf).WriteSegment(uint16(marker), data) })
		real := "ok " + hx.Hex(buf.Bytes())
		if p {
			real = "panic"
		} else if err != nil {
			real = "err"
		}
		c.Case(fmt.Sprintf("c16-seg %d %s", marker, hx.Hex(data)), real)
		c.Count("seg-write")
	}
	seg(0xFFC4, nil)
	seg(0xFFDB, []byte{1})
	for i := 0; i < 30; i++ {
		seg(0xFF00|r.Intn(256), r.Bytes(r.Intn(40)))
	}
	if c.Thorough() {
		seg(0xFFE0, r.Bytes(65533)) // largest payload whose length fits
		seg(0xFFE0, r.Bytes(65534)) // length field wraps to 0
	}
	dht := func(class, id int, bits [16]int, vals []byte) {
		var buf bytes.Buffer
		var err error
		p, _ := hx.Guard(func() {
			err = standard.WriteHuffmanTable(standard.NewWriter(&buf), byte(class), byte(id), &standard.HuffmanTable{Bits: bits, Values: vals})
		})
		real := "ok " + hx.Hex(buf.Bytes())
		if p {
			real = "panic"
		} else if err != nil {
			real = "err"
		}
		c.Case(fmt.Sprintf("c16-dht %d %d %s %s", class, id, c16Ints(bits[:]), hx.Hex(vals)), real)
		c.Count("dht-write")
	}
	dht(0, 0, standard.StandardDCLuminanceBits, standard.StandardDCLuminanceValues)
	dht(1, 0, standard.StandardACLuminanceBits, standard.StandardACLuminanceValues)
	dht(0, 1, standard.StandardDCChrominanceBits, standard.StandardDCChrominanceValues)
	dht(1, 1, standard.StandardACChrominanceBits, standard.StandardACChrominanceValues)
	dht(0, 0, [16]int{0, 0, -1}, nil)          // totalValues < 0: make() of 16 bytes, store at [16] panics
	dht(1, 3, [16]int{2, -20}, []byte{1, 2})   // make() with a negative length panics
	dht(0, 0, [16]int{1, 255, 0, 3}, r.Bytes(259)) // 259 values: segment still fits
	for i := 0; i < 40; i++ {
		var bits [16]int
		tot := 0
		for k := range bits {
			if r.Intn(3) == 0 {
				bits[k] = r.Intn(6)
			}
			tot += bits[k]
		}
		n := tot
		switch r.Intn(5) {
		case 0:
			n = r.Intn(tot + 3) // fewer / more values than BITS announce
		case 1:
			bits[r.Intn(16)] = 256 + r.Intn(3) // count that does not fit a byte
		case 2:
			if i%2 == 0 {
				bits[r.Intn(16)] = -r.Intn(4) // negative count
			}
		}
		dht(r.Intn(2), r.Intn(4), bits, r.Bytes(n))
	}
}

// c16StrictLines: the Go strict parser and the Lean strict parser (Spec/StrictJpeg.lean) must give the same
// verdict and the same fields on real streams and on mutated ones (two independent transcriptions of T.81 B / T.87 C).
func c16StrictLines(c *hx.Ctx, cases []*c16Case, results []*c16Result) {
	r := c.R
	n := 0
	lim := 120
	if c.Thorough() {
		lim = 600
	}
	line := func(d []byte) {
		j, e := c16ParseJPEG(d)
		real := "err"
		if e == nil {
			real = fmt.Sprintf("ok %d %d %d %d %d %d %d %d %d %d %d", j.SOF, j.P, j.Y, j.X, len(j.Comps), j.Ss, j.Se, j.Ah, j.Al, j.HdrEnd, j.ScanEnd)
			c.Count("strict:accept")
		} else {
			c.Count("strict:reject:" + e.Kind)
		}
		c.Case("c16-strict "+hx.Hex(d), real)
	}
	for i, k := range cases {
		res := results[i]
		if res.Jpeg == nil || len(res.Out) > 1500 || n >= lim {
			continue
		}
		_ = k
		n++
		line(res.Out)
		// mutations: flip a header byte, drop the stuffing byte, truncate, append, duplicate a marker
		d := append([]byte(nil), res.Out...)
		switch r.Intn(6) {
		case 0:
			d[r.Intn(min(len(d), res.Jpeg.HdrEnd))] ^= byte(1 << uint(r.Intn(8)))
		case 1:
			d = d[:r.Intn(len(d))]
		case 2:
			d = append(d, byte(r.Intn(256)))
		case 3:
			p := res.Jpeg.HdrEnd + r.Intn(res.Jpeg.ScanEnd-res.Jpeg.HdrEnd)
			d[p] = 0xFF
		case 4:
			p := res.Jpeg.HdrEnd + r.Intn(res.Jpeg.ScanEnd-res.Jpeg.HdrEnd)
			d = append(d[:p:p], append([]byte{0xFF, byte(0x80 + r.Intn(128))}, d[p:]...)...)
		case 5:
			p := 2 + r.Intn(res.Jpeg.HdrEnd-2)
			d[p] = byte(r.Intn(256))
		}
		line(d)
	}
}

// c16LayerCuts: real layered code-blocks through the exported t1 API (`NewT1Encoder(..).EncodeLayered`): the cumulative
// pass rates it returns (after normalizePassRates) against the bytes of the block.  Property: every rate is inside the
// stream, not immediately after an 0xFF byte, and the rates ascend — so no layer slice ends on 0xFF.  Correspondence:
// the Lean model of normalizePassRates (T1.normalizeRates) must leave the real rates unchanged and agree on the verdict.
func c16LayerCuts(c *hx.Ctx) {
	r := c.R
	n := 150
	if c.Thorough() {
		n = 1500
	}
	for i := 0; i < n; i++ {
		w, h := r.Range(1, 24), r.Range(1, 24)
		style := r.Pick([]int{0, 0, 0, 4, 1, 5, 2, 8, 32})
		depth := r.Range(1, 12)
		coeffs := make([]int32, w*h)
		for k := range coeffs {
			v := int32(r.Intn(1 << uint(depth)))
			if r.Intn(3) == 0 {
				v = int32(1<<uint(depth)) - 1 // long runs of ones make 0xFF bytes frequent
			}
			if r.Bool() {
				v = -v
			}
			coeffs[k] = v
		}
		numPasses := r.Range(1, 3*depth)
		var passes []t1.PassData
		var data []byte
		var err error
		p, _ := hx.Guard(func() {
			enc := t1.NewT1Encoder(w, h, style)
			enc.SetOrientation(r.Intn(4))
			passes, data, err = enc.EncodeLayered(coeffs, numPasses, 0, nil, uint8(style))
		})
		if p || err != nil || len(passes) == 0 {
			c.Count("layer-cuts:skipped")
			continue
		}
		rates := make([]int, len(passes))
		ok := true
		ff := 0
		prev := 0
		for k, ps := range passes {
			rates[k] = ps.Rate
			if ps.Rate < prev || ps.Rate > len(data) || (ps.Rate > 0 && data[ps.Rate-1] == 0xFF) {
				ok = false
			}
			prev = ps.Rate
		}
		for _, b := range data {
			if b == 0xFF {
				ff++
			}
		}
		c.Count(fmt.Sprintf("layer-cuts:style%d", style))
		if ff > 0 {
			c.Count("layer-cuts:stream-has-0xFF")
		}
		c.Eval(fmt.Sprintf("layer-cuts %d %dx%d s%d p%d", i, w, h, style, numPasses), len(passes) >= 2 && len(data) >= 4)
		if !ok {
			c.Fail(hx.Failure{Class: fmt.Sprintf("c16-t1-rate-after-ff-style%d", style), What: "a cumulative pass rate is past the data, descending, or immediately after an 0xFF byte: a layer slice cut there ends on 0xFF",
				Input: map[string]any{"w": w, "h": h, "style": style, "numPasses": numPasses, "coeffs": coeffs, "rates": rates, "data_hex": hx.Hex(data)}})
		}
		c.Case(fmt.Sprintf("c16-layer-cuts %s %s", c16Ints(rates), hx.Hex(data)), fmt.Sprintf("ok %s %d", c16Ints(rates), c16B(ok)))
	}
}
