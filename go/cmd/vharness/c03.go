package main

// C03 — JPEG-LS lossless: Decode(Encode(image)) == image for every geometry, precision and content.
// Property search end-to-end through lossless.Encode / lossless.Decode (public API) and
// correspondence lines for every generated kernel.

import (
	"fmt"

	"verifharness/internal/hx"
)

func init() { register("C03", c03Run) }

const c03ClassErrval = "jls-lossless-enc-errval-unreduced"

// c03Check evaluates the property on one image; returns false on failure.
func c03Check(c *hx.Ctx, im jlsImage) bool {
	nontrivial := len(im.S) > 1 && im.Kind != "constant"
	c.Eval(im.key(), nontrivial)
	c.Count(fmt.Sprintf("P=%d", im.P))
	c.Count("kind=" + im.Kind)
	c.Count(fmt.Sprintf("comps=%d", im.C))
	enc, oc := jlsEncLossless(im)
	if oc != "ok" {
		c.Fail(hx.Failure{Class: "jls-lossless-encode-" + jlsOc(oc), What: "lossless.Encode rejects or panics on a valid image: " + oc,
			Input: im.input(), Expected: "ok"})
		return false
	}
	dec, oc2 := jlsDecLossless(enc)
	good := oc2 == "ok" && jlsSameGeom(im, dec) && jlsEq(im.S, dec.S)
	if good {
		return true
	}
	// attribute: does the same image round-trip through the same decoder when the error values are
	// reduced modulo RANGE (near-lossless encoder with NEAR = 0 does that)?
	class := fmt.Sprintf("jls-lossless-roundtrip-P%d-%s", im.P, jlsOc(oc2))
	what := "lossless.Decode(lossless.Encode(img)) != img"
	if im.P != 8 && im.P != 16 {
		if enc0, o := jlsEncNear(im, 0); o == "ok" {
			if d0, o2 := jlsDecLossless(enc0); o2 == "ok" && jlsSameGeom(im, d0) && jlsEq(im.S, d0.S) {
				class = c03ClassErrval
				what = "lossless.Encode does not reduce the error value modulo RANGE for P not in {8,16}; the escape code truncates it (the NEAR=0 stream of the near-lossless encoder decodes correctly with the same decoder)"
			}
		}
	}
	act := oc2
	if oc2 == "ok" {
		act = fmt.Sprintf("%dx%dx%d p%d samples %s", dec.W, dec.H, dec.C, dec.P, jlsInts(dec.S, 64))
	}
	c.Fail(hx.Failure{Class: class, What: what, Input: im.input(), Expected: "samples " + jlsInts(im.S, 64), Actual: act})
	return false
}

func c03Run(c *hx.Ctx) {
	c.Rule = "non-trivial: more than one sample and not a constant image; distinct by (geometry, precision, samples)"
	r := c.R
	// correspondence: every generated kernel against the real function
	n := 400
	if c.Thorough() {
		n = 4000
	}
	jlsKernels(c, n)
	jlsRunSegments(c, 2*n)
	jlsScans(c, n/2)
	jlsGolomb(c, 5*n)
	jlsReaderOps(c, 5*n)

	// boundary cases first: the design's witness and its relatives
	c03Check(c, jlsImage{W: 4, H: 1, C: 1, P: 12, S: []int{4095, 0, 4095, 0}, Kind: "witness"})
	for p := 2; p <= 16; p++ {
		mv := (1 << uint(p)) - 1
		c03Check(c, jlsImage{W: 4, H: 1, C: 1, P: p, S: []int{mv, 0, mv, 0}, Kind: "twolevel"})
		c03Check(c, jlsImage{W: 2, H: 2, C: 1, P: p, S: []int{0, mv, mv, 0}, Kind: "twolevel"})
		c03Check(c, jlsImage{W: 1, H: 1, C: 3, P: p, S: []int{mv, 0, mv / 2}, Kind: "twolevel"})
	}
	// all images up to 3x3 at P=2 (exhaustive in thorough, sampled in quick), up to 2x2 at P=4
	for w := 1; w <= 3; w++ {
		for h := 1; h <= 3; h++ {
			tot := 1 << uint(2*w*h)
			step := 1
			if !c.Thorough() && tot > 4096 {
				step = tot / 4096
			}
			for code := 0; code < tot; code += step {
				k := code
				if step > 1 {
					k = code + r.Intn(step)
				}
				s := make([]int, w*h)
				for i := range s {
					s[i] = (k >> uint(2*i)) & 3
				}
				c03Check(c, jlsImage{W: w, H: h, C: 1, P: 2, S: s, Kind: "exh-p2"})
			}
		}
	}
	for w := 1; w <= 2; w++ {
		for h := 1; h <= 2; h++ {
			tot := 1 << uint(4*w*h)
			step := 1
			if !c.Thorough() && tot > 4096 {
				step = tot / 4096
			}
			for code := 0; code < tot; code += step {
				s := make([]int, w*h)
				for i := range s {
					s[i] = (code >> uint(4*i)) & 15
				}
				c03Check(c, jlsImage{W: w, H: h, C: 1, P: 4, S: s, Kind: "exh-p4"})
			}
		}
	}
	// every precision x component count x content class
	reps := 2
	maxSide := 24
	if c.Thorough() {
		reps, maxSide = 12, 64
	}
	for p := 2; p <= 16; p++ {
		for _, comps := range []int{1, 3} {
			for _, kind := range jlsKinds {
				for i := 0; i < reps; i++ {
					w, h := r.Range(1, maxSide), r.Range(1, maxSide)
					switch r.Intn(6) {
					case 0:
						w = 1
					case 1:
						h = 1
					}
					c03Check(c, jlsGen(r, kind, w, h, comps, p, 0))
				}
			}
		}
	}
	// run-then-jump family (runs of every length x jump classes x RUNindex positions)
	jlsRunJumpImages(r, c.Thorough(), func(int) []int { return []int{0} }, func(im jlsImage, _ int) {
		if c03Check(c, im) {
			if enc, oc := jlsEncLossless(im); oc == "ok" {
				if _, st, err := c14Decode(enc); err == nil {
					jlsRunCounters(c, st)
				}
			}
		}
	})
	jlsRunCoverageNote(c)
	// long statistics: N=64 resets, C saturation, run index 31
	for _, p := range []int{8, 16, 12} {
		c03Check(c, jlsGen(r, "constant", 256, 160, 1, p, 0))
		c03Check(c, jlsGen(r, "smooth", 200, 120, 1, p, 0))
		c03Check(c, jlsGen(r, "runs", 300, 100, 3, p, 0))
	}
	c03Check(c, jlsGen(r, "noise", 65535, 1, 1, 8, 0))
	if c.Thorough() {
		for _, p := range []int{2, 7, 8, 12, 15, 16} {
			c03Check(c, jlsGen(r, "noise", 512, 512, 1, p, 0))
			c03Check(c, jlsGen(r, "runs", 512, 512, 3, p, 0))
		}
		c03Check(c, jlsGen(r, "runs", 65535, 1, 1, 16, 0))
	}
	// branch counters (read off an independent T.87 decode of conforming NEAR=0 streams)
	for _, im := range []jlsImage{jlsGen(r, "constant", 256, 160, 1, 8, 0), jlsGen(r, "smooth", 200, 120, 1, 8, 0), jlsGen(r, "noise", 64, 64, 1, 8, 0), jlsGen(r, "twolevel", 64, 64, 1, 16, 0)} {
		if enc, oc := jlsEncLossless(im); oc == "ok" {
			if _, st, err := c14Decode(enc); err == nil && st != nil {
				c.CountN("branch:escape-codes", st.escapes)
				c.CountN("branch:N-resets", st.resets)
				c.CountN("branch:C-saturations", st.cSat)
				c.CountN("branch:run-interruptions", st.interruptions)
				c.CountN("branch:runs-ending-at-line-end", st.eolRuns)
				if st.runIdxMax == 31 {
					c.Count("branch:run-index-31-reached")
				}
			}
		}
	}
	c.Sample(map[string]any{"witness": "P=12 4x1 [4095,0,4095,0]", "note": "see failures / known finding " + c03ClassErrval})
}
