package main

// C14 — JPEG-LS streams and decoders conform to T.87:
//   (a) every lossless / near-lossless stream decodes, under the independent T.87 decoder of
//       c14_t87.go, to exactly the image the library's own decoder returns (NEAR=0: the source);
//   (b) lossless.Encode and nearlossless.Encode(NEAR=0) emit identical bytes;
//   (c) each of the two decoders decodes the other package's (NEAR=0) streams;
//   (d) the T.87 Annex H.3 example encodes to the published bit stream (finite test).

import (
	"bytes"
	"fmt"

	"github.com/cocosip/go-dicom-codecs/jpegls/lossless"

	"verifharness/internal/hx"
)

func init() { register("C14", c14Run) }

const (
	c14ClassBytes      = "jls-lossless-vs-near0-bytes-differ"
	c14ClassThresholds = "jls-default-thresholds-clamp-not-t87"
	c14ClassErrval     = "jls-lossless-stream-not-source"
)

// T.87 Annex H.3: the 4x4 example image and its published JPEG-LS bit stream
var c14H3Image = []int{0, 0, 90, 74, 68, 50, 43, 205, 64, 145, 145, 145, 100, 145, 145, 145}
var c14H3Stream = []byte{0xFF, 0xD8, 0xFF, 0xF7, 0x00, 0x0B, 0x08, 0x00, 0x04, 0x00, 0x04, 0x01, 0x01, 0x11, 0x00,
	0xFF, 0xDA, 0x00, 0x08, 0x01, 0x01, 0x00, 0x00, 0x00, 0x00,
	0xC0, 0x00, 0x00, 0x6C, 0x80, 0x20, 0x8E, 0x01, 0xC0, 0x00, 0x00, 0x57, 0x40, 0x00, 0x00, 0x6E, 0xE6, 0x00, 0x00,
	0x01, 0xBC, 0x18, 0x00, 0x00, 0x05, 0xD8, 0x00, 0x00, 0x91, 0x60, 0xFF, 0xD9}

func c14ThresholdsDiffer(p, near int) bool {
	mv := (1 << uint(p)) - 1
	d := c14Defaults(mv, near)
	t := lossless.NewTraits(mv, near, 64)
	return d.T1 != t.T1 || d.T2 != t.T2 || d.T3 != t.T3
}

func c14Check(c *hx.Ctx, im jlsImage, near int) {
	c.Eval(fmt.Sprintf("near%d %s", near, im.key()), len(im.S) > 1 && im.Kind != "constant")
	c.Count(fmt.Sprintf("P=%d", im.P))
	c.Count("kind=" + im.Kind)
	c.Count(fmt.Sprintf("comps=%d", im.C))
	if near == 0 {
		c.Count("NEAR=0")
	} else {
		c.Count("NEAR>0")
	}
	in := im.input()
	in["near"] = near
	fail := func(class, what, exp, act string) {
		c.Fail(hx.Failure{Class: class, What: what, Input: in, Expected: exp, Actual: act})
	}
	p816 := im.P == 8 || im.P == 16
	// near-lossless stream: independent decoder == library decoder (== source when NEAR = 0)
	encN, oc := jlsEncNear(im, near)
	if oc != "ok" {
		fail("jls-near-encode-"+jlsOc(oc), "nearlossless.Encode fails: "+oc, "ok", oc)
		return
	}
	libN, ocl := jlsDecNear(encN)
	refN, st, err := c14Decode(encN)
	switch {
	case ocl != "ok":
		fail("jls-near-decode-"+jlsOc(ocl), "nearlossless.Decode fails on own stream", "ok", ocl)
	case err != nil || !(refN.W == im.W && refN.H == im.H && refN.C == im.C && refN.P == im.P && refN.Near == near) || !jlsEq(refN.S, libN.S):
		cls := "jls-near-stream-t87-mismatch"
		what := "independent T.87 decoder and nearlossless.Decode disagree on the near-lossless encoder's stream"
		if c14ThresholdsDiffer(im.P, near) {
			cls = c14ClassThresholds
			what = "default thresholds differ from T.87 C.2.4.1.1 (CLAMP returns the lower bound when the value exceeds MAXVAL; the library's clamp returns MAXVAL), so a T.87 decoder selects other contexts and decodes another image"
		}
		act := fmt.Sprint(err)
		if err == nil {
			act = jlsInts(refN.S, 64)
		}
		fail(cls, what, jlsInts(libN.S, 64), act)
	default:
		if near == 0 && !jlsEq(refN.S, im.S) {
			fail("jls-near0-stream-not-source", "T.87 decode of the NEAR=0 stream is not the source image", jlsInts(im.S, 64), jlsInts(refN.S, 64))
		}
		if near > 0 && jlsMaxAbsDiff(refN.S, im.S) > near {
			fail("jls-near-stream-t87-bound", "T.87 decode of the near-lossless stream exceeds NEAR", "within NEAR", jlsInts(refN.S, 64))
		}
		if st != nil {
			c.CountN("branch:escape-codes", st.escapes)
			c.CountN("branch:N-resets", st.resets)
			c.CountN("branch:run-interruptions", st.interruptions)
			c.CountN("branch:runs-ending-at-line-end", st.eolRuns)
			jlsRunCounters(c, st)
		}
	}
	if near != 0 {
		return
	}
	// lossless package
	encL, oc := jlsEncLossless(im)
	if oc != "ok" {
		fail("jls-lossless-encode-"+jlsOc(oc), "lossless.Encode fails: "+oc, "ok", oc)
		return
	}
	if !bytes.Equal(encL, encN) {
		cls := c14ClassBytes
		if p816 {
			cls = "jls-lossless-vs-near0-bytes-differ"
		}
		fail(cls, "lossless.Encode and nearlossless.Encode(NEAR=0) emit different bytes", hx.Hex(encN[:min(len(encN), 96)]), hx.Hex(encL[:min(len(encL), 96)]))
	}
	libL, ocl := jlsDecLossless(encL)
	refL, _, err := c14Decode(encL)
	srcOK := err == nil && refL.W == im.W && refL.H == im.H && refL.C == im.C && refL.P == im.P && jlsEq(refL.S, im.S)
	if !srcOK {
		cls := "jls-lossless-stream-not-source"
		if !p816 {
			// same root cause as C03 if the NEAR=0 stream of the other encoder is fine under the same reference
			cls = c14ClassErrval
		}
		act := fmt.Sprint(err)
		if err == nil {
			act = jlsInts(refL.S, 64)
		}
		fail(cls, "independent T.87 decode of the lossless encoder's stream is not the source image", jlsInts(im.S, 64), act)
	}
	// (when the stream does not even carry the source image, what the two decoders make of the
	// corrupted tail is not compared: the stream is already outside T.87)
	if srcOK && !(ocl == "ok" && jlsSameGeom(im, libL) && jlsEq(refL.S, libL.S)) {
		fail("jls-lossless-stream-t87-vs-library", "independent T.87 decoder and lossless.Decode disagree on the lossless encoder's stream", jlsInts(libL.S, 64), jlsInts(refL.S, 64))
	}
	// cross decoding (NEAR = 0 streams)
	if x, o := jlsDecNear(encL); !(o == "ok" && jlsSameGeom(im, x) && jlsEq(x.S, im.S)) {
		cls := "jls-cross-near-decodes-lossless"
		if !p816 {
			cls = c14ClassErrval
		}
		fail(cls, "nearlossless.Decode does not recover the source from the lossless encoder's stream", jlsInts(im.S, 64), o+" "+jlsInts(x.S, 64))
	}
	if x, o := jlsDecLossless(encN); !(o == "ok" && jlsSameGeom(im, x) && jlsEq(x.S, im.S)) {
		fail("jls-cross-lossless-decodes-near0", "lossless.Decode does not recover the source from the NEAR=0 stream of the near-lossless encoder", jlsInts(im.S, 64), o+" "+jlsInts(x.S, 64))
	}
}

func c14Run(c *hx.Ctx) {
	c.Rule = "non-trivial: more than one sample and not a constant image; distinct by (NEAR, geometry, precision, samples)"
	r := c.R
	n := 200
	if c.Thorough() {
		n = 2000
	}
	jlsKernels(c, n)
	jlsRunSegments(c, n)
	jlsScans(c, n/2)

	// (d) Annex H.3 — first validate the transcription of the published vector with the independent
	// decoder (it must decode to the H.3 image), then compare the library's encoders with it.
	h3 := jlsImage{W: 4, H: 4, C: 1, P: 8, S: c14H3Image, Kind: "T87-H.3"}
	c.Eval("H.3", true)
	if ref, _, err := c14Decode(c14H3Stream); err != nil || !jlsEq(ref.S, c14H3Image) {
		c.Notes = append(c.Notes, fmt.Sprintf("H.3 vector transcription does not decode to the H.3 image under the reference decoder (err=%v): vector comparison skipped", err))
		c.Count("h3:vector-unverified")
	} else {
		c.Count("h3:reference-decodes-published-stream")
		if e, oc := jlsEncLossless(h3); oc != "ok" || !bytes.Equal(e, c14H3Stream) {
			c.Fail(hx.Failure{Class: "jls-h3-lossless-bytes", What: "lossless.Encode of the T.87 H.3 image differs from the published stream", Input: h3.input(), Expected: hx.Hex(c14H3Stream), Actual: hx.Hex(e)})
		}
		if e, oc := jlsEncNear(h3, 0); oc != "ok" || !bytes.Equal(e, c14H3Stream) {
			c.Fail(hx.Failure{Class: "jls-h3-near0-bytes", What: "nearlossless.Encode(NEAR=0) of the T.87 H.3 image differs from the published stream", Input: h3.input(), Expected: hx.Hex(c14H3Stream), Actual: hx.Hex(e)})
		}
		if d, oc := jlsDecLossless(c14H3Stream); oc != "ok" || !jlsEq(d.S, c14H3Image) {
			c.Fail(hx.Failure{Class: "jls-h3-lossless-decode", What: "lossless.Decode of the published H.3 stream is not the H.3 image", Input: h3.input(), Expected: jlsInts(c14H3Image, 64), Actual: oc + " " + jlsInts(d.S, 64)})
		}
		if d, oc := jlsDecNear(c14H3Stream); oc != "ok" || !jlsEq(d.S, c14H3Image) {
			c.Fail(hx.Failure{Class: "jls-h3-near-decode", What: "nearlossless.Decode of the published H.3 stream is not the H.3 image", Input: h3.input(), Expected: jlsInts(c14H3Image, 64), Actual: oc + " " + jlsInts(d.S, 64)})
		}
	}

	// default parameters: reference (T.87 C.2.4.1.1 / A.2.1) vs library, every admissible (P, NEAR)
	thrSeen := map[int]int{}
	for p := 2; p <= 16; p++ {
		mv := (1 << uint(p)) - 1
		for near := 0; near <= min(255, mv/2); near++ {
			d := c14Defaults(mv, near)
			t := lossless.NewTraits(mv, near, 64)
			c.Eval(fmt.Sprintf("params %d %d", p, near), true)
			if d.RANGE != t.Range || d.qbpp != t.Qbpp || d.LIMIT != t.Limit || d.RESET != t.Reset {
				c.Fail(hx.Failure{Class: "jls-default-range-qbpp-limit-not-t87", What: "RANGE/qbpp/LIMIT/RESET differ from T.87 A.2.1",
					Input: map[string]any{"precision": p, "near": near}, Expected: fmt.Sprint(d), Actual: fmt.Sprint(t)})
			}
			if d.T1 != t.T1 || d.T2 != t.T2 || d.T3 != t.T3 {
				c.Count("params:thresholds-differ")
				thrSeen[p]++
				if thrSeen[p] > 2 { // two witnesses per precision are reported, the rest counted
					continue
				}
				c.Fail(hx.Failure{Class: c14ClassThresholds, What: "default T1/T2/T3 differ from T.87 C.2.4.1.1 (Figure C.3 CLAMP returns the lower bound when the value exceeds MAXVAL)",
					Input: map[string]any{"precision": p, "near": near, "maxval": mv},
					Expected: fmt.Sprintf("T1=%d T2=%d T3=%d", d.T1, d.T2, d.T3), Actual: fmt.Sprintf("T1=%d T2=%d T3=%d", t.T1, t.T2, t.T3)})
			}
		}
	}

	// boundary images
	c14Check(c, jlsImage{W: 4, H: 1, C: 1, P: 12, S: []int{4095, 0, 4095, 0}, Kind: "witness"}, 0)
	c14Check(c, h3, 0)
	reps, maxSide := 1, 20
	if c.Thorough() {
		reps, maxSide = 6, 64
	}
	for p := 2; p <= 16; p++ {
		mv := (1 << uint(p)) - 1
		mx := min(255, mv/2)
		nears := []int{0, 0, min(1, mx), min(2, mx), min(3, mx), mx, r.Intn(mx + 1)}
		for _, near := range nears {
			for _, comps := range []int{1, 3} {
				for _, kind := range jlsKinds {
					for i := 0; i < reps; i++ {
						w, h := r.Range(1, maxSide), r.Range(1, maxSide)
						if r.Intn(6) == 0 {
							w = 1
						}
						c14Check(c, jlsGen(r, kind, w, h, comps, p, near), near)
					}
				}
			}
		}
	}
	// run-then-jump family
	jlsRunJumpImages(r, c.Thorough(), func(p int) []int {
		mx := min(255, ((1<<uint(p))-1)/2)
		return []int{0, min(2, mx)}
	}, func(im jlsImage, near int) { c14Check(c, im, near) })
	// all images up to 2x2 at P=2 (NEAR 0 and 1), sampled 3x3
	for _, near := range []int{0, 1} {
		for w := 1; w <= 3; w++ {
			for h := 1; h <= 3; h++ {
				tot := 1 << uint(2*w*h)
				step := 1
				if tot > 1024 && !c.Thorough() {
					step = tot / 1024
				}
				for code := 0; code < tot; code += step {
					s := make([]int, w*h)
					for i := range s {
						s[i] = (code >> uint(2*i)) & 3
					}
					c14Check(c, jlsImage{W: w, H: h, C: 1, P: 2, S: s, Kind: "exh-p2"}, near)
				}
			}
		}
	}
	for _, pn := range [][2]int{{8, 0}, {16, 0}, {8, 3}, {12, 2}} {
		c14Check(c, jlsGen(r, "smooth", 200, 120, 1, pn[0], pn[1]), pn[1])
		c14Check(c, jlsGen(r, "constant", 256, 160, 1, pn[0], pn[1]), pn[1])
		c14Check(c, jlsGen(r, "runs", 160, 90, 3, pn[0], pn[1]), pn[1])
	}
}
