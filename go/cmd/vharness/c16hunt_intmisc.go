package main

// C16 — family added after the hunters' finding C16-j2k-encoder-reuse-stale-qcd: frames emitted by ONE
// jpeg2000.Encoder object whose caller-owned *EncodeParams changes between calls (the DICOM codecs keep one
// encoder per Encode call; library users keep one per series). The main C16 family builds a fresh parameter
// block and encoder per frame, so state cached on the object never reaches a frame it does not belong to.
// Oracle (the property's own): every emitted frame passes the strict walker c16ParseJ2K (which ties the number
// of SPqcd entries and the quantisation style to the COD of the same codestream, T.800 Table A.27/A.28) and
// declares the arguments in force at that call (c16CheckJ2KFields); in addition the QCD must be able to describe
// the precision SIZ declares: M_b = G + eps_LL - 1 magnitude bit planes (T.800 E.1, Equation E-2) are at least
// precision - 1 for the LL band.

import (
	"fmt"

	"github.com/cocosip/go-dicom-codecs/jpeg2000"
	"github.com/cocosip/go-dicom-codecs/jpeg2000/htj2k"

	"verifharness/internal/hx"
)

func init() { registerExtra("C16", "intmisc-encoder-param-history", c16hRun) }

type c16hStep struct {
	Comps, Depth, Levels int
	Lossless             bool
	Quality, Layers      int
	HT                   bool
}

func (s c16hStep) apply(p *jpeg2000.EncodeParams) {
	p.Components, p.BitDepth, p.NumLevels, p.Lossless, p.Quality, p.NumLayers = s.Comps, s.Depth, s.Levels, s.Lossless, s.Quality, s.Layers
	p.HTJ2KMode, p.ProgressionOrder, p.BlockEncoderFactory = s.HT, 0, nil
	if s.HT {
		p.ProgressionOrder = 2
		p.BlockEncoderFactory = func(w, h int) jpeg2000.BlockEncoder { return htj2k.NewHTEncoder(w, h) }
	}
}

// c16hQCDRange: the LL band of the QCD must reach the precision declared in SIZ
func c16hQCDRange(j *c16J2k) *c16Err {
	if len(j.SPqcd) == 0 || len(j.Ssiz) == 0 {
		return nil
	}
	guard := j.Sqcd >> 5
	eps := j.SPqcd[0] >> 3
	if j.Sqcd&0x1F != 0 {
		eps = j.SPqcd[0] >> 11
	}
	prec := j.Ssiz[0]&0x7F + 1
	if guard+eps-1 < prec-1 {
		return c16E("qcd-range", "QCD gives the LL band %d guard bits and exponent %d: %d magnitude bit planes for the %d-bit samples SIZ declares", guard, eps, guard+eps-1, prec)
	}
	return nil
}

func c16hCheck(k *c16Case, out []byte) (*c16J2k, *c16Err) {
	j, e := c16ParseJ2K(out)
	if e != nil {
		return nil, e
	}
	if e = c16CheckJ2KFields(k, j); e != nil {
		return j, e
	}
	return j, c16hQCDRange(j)
}

func c16hHistory(c *hx.Ctx, w, h int, steps []c16hStep, mode, tag string) {
	p := jpeg2000.DefaultEncodeParams(w, h, steps[0].Comps, steps[0].Depth, false)
	e := jpeg2000.NewEncoder(p)
	var hist []map[string]any
	for i, s := range steps {
		s.apply(p)
		q := *p
		k := &c16Case{Enc: "j2k", W: w, H: h, C: s.Comps, Depth: s.Depth, Mode: mode, J2K: &q, Pix: c16Pixels(c.R, w*h*s.Comps, s.Depth, mode)}
		if s.HT {
			k.Enc = "htj2k"
		}
		hist = append(hist, map[string]any{"components": s.Comps, "bitDepth": s.Depth, "numLevels": s.Levels, "lossless": s.Lossless,
			"quality": s.Quality, "numLayers": s.Layers, "htj2k": s.HT, "pixels_hex": hx.Hex(k.Pix)})
		var out []byte
		var err error
		pan, msg := hx.Guard(func() { out, err = e.Encode(k.Pix) })
		if pan || err != nil {
			c.Count("intmisc:history-call-not-encoded")
			if pan {
				c.Notes = append(c.Notes, "encoder panic in a parameter history (not evaluated): "+k.key()+" :: "+c16PanicSite(msg))
			}
			continue
		}
		c.Eval(fmt.Sprintf("intmisc-history|%s|%d|%v|%s", tag, i, hist[:i], k.key())+hx.Hex(k.Pix[:min(len(k.Pix), 32)]), i > 0 && len(out) > 100)
		c.Count("intmisc:encoder-param-history-frame")
		c.Count("enc:" + k.Enc)
		_, fe := c16hCheck(k, out)
		if fe == nil {
			continue
		}
		// the same call on a fresh encoder: is the frame malformed because of the history?
		var fout []byte
		fp := q
		pan, _ = hx.Guard(func() { fout, err = jpeg2000.NewEncoder(&fp).Encode(k.Pix) })
		class := "c16-" + k.Enc + "-" + fe.Kind
		what := fe.Detail
		if !pan && err == nil {
			if _, ffe := c16hCheck(k, fout); ffe == nil {
				class = "c16-" + k.Enc + "-reused-encoder-" + fe.Kind
				what = fmt.Sprintf("call %d on one jpeg2000.Encoder after its *EncodeParams changed: %s (a fresh encoder with the same parameter values emits a well-formed frame: the QCD description cached by the first call, Encoder.qcdReady, is never invalidated)", i, fe.Detail)
			}
		}
		in := k.input()
		in["history"] = hist
		in["call"] = i
		c.Fail(hx.Failure{Class: class, What: what, Input: in,
			Expected: "one strictly parseable codestream declaring the arguments in force at the call, QCD consistent with its COD and SIZ", Actual: c16Head(out)})
		return
	}
}

func c16hRun(c *hx.Ctx) {
	r := c.R
	base := c16hStep{Comps: 1, Depth: 8, Levels: 2, Lossless: true, Quality: 80, Layers: 1}
	with := func(f func(s *c16hStep)) c16hStep { s := base; f(&s); return s }
	// the hunters' witnesses first (32x32 noise): NumLevels 5 -> 1, 1 -> 5, BitDepth 8 -> 16
	c16hHistory(c, 32, 32, []c16hStep{with(func(s *c16hStep) { s.Levels = 5 }), with(func(s *c16hStep) { s.Levels = 1 })}, "noise", "witness-levels-down")
	c16hHistory(c, 32, 32, []c16hStep{with(func(s *c16hStep) { s.Levels = 1 }), with(func(s *c16hStep) { s.Levels = 5 })}, "noise", "witness-levels-up")
	c16hHistory(c, 32, 32, []c16hStep{base, with(func(s *c16hStep) { s.Depth = 16 })}, "noise", "witness-depth")
	// one field at a time, there and back
	for i, s2 := range []c16hStep{
		with(func(s *c16hStep) { s.Lossless = false }), with(func(s *c16hStep) { s.Comps = 3 }), with(func(s *c16hStep) { s.Depth = 12 }),
		with(func(s *c16hStep) { s.Levels = 0 }), with(func(s *c16hStep) { s.Layers = 3 }), with(func(s *c16hStep) { s.HT = true }),
		with(func(s *c16hStep) { s.Lossless, s.Levels = false, 4 }), with(func(s *c16hStep) { s.HT, s.Levels = true, 4 }),
	} {
		c16hHistory(c, 24, 20, []c16hStep{base, s2, base}, "noise", fmt.Sprintf("pair%d", i))
		c16hHistory(c, 24, 20, []c16hStep{s2, base, s2}, "noise", fmt.Sprintf("pair%d-rev", i))
	}
	n := 40
	if c.Thorough() {
		n = 600
	}
	for i := 0; i < n; i++ {
		w, h := r.Range(8, 48), r.Range(8, 48)
		if i%10 == 0 { // needs both bytes of the 16-bit size fields
			w = r.Range(256, 300)
		}
		var steps []c16hStep
		for j := r.Range(2, 5); j > 0; j-- {
			s := c16hStep{Comps: r.Pick([]int{1, 1, 3}), Depth: r.Pick([]int{8, 8, 12, 16, 5, 10}), Levels: r.Range(0, 5), Lossless: r.Intn(3) != 0,
				Quality: r.Pick([]int{10, 50, 80, 100}), Layers: r.Pick([]int{1, 1, 2, 4}), HT: r.Intn(6) == 0}
			if s.HT {
				s.Layers = 1
			}
			steps = append(steps, s)
		}
		c16hHistory(c, w, h, steps, "noise", "random")
	}
}
