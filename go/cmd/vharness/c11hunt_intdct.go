package main

// C11 hunt families (intdct): the per-image optimal Huffman table when the unrestricted Huffman tree is deeper
// than libjpeg's MAX_CLEN = 32.
//
// Finding C11-huffman-code-length-overflow: standard.BuildOptimalHuffmanTable counted the code sizes into
// `bits [33]int`; Fibonacci-like symbol counts totalling >= fib(35)-1 = 9 227 464 give a code size of 33 and the
// counter array was indexed out of range, so baseline.Encode / extended.Encode panicked on a valid image (65528x608
// grey, quality 80).  Families:
//   * table   — the witness histogram (33 AC run/size symbols with Fibonacci counts) and a seeded family of
//               chain-shaped histograms of pre-limit depth 32..~90 over the DCT alphabets, through the real function
//               and the code-shaped model (op jll-opt): no panic, valid table, every counted symbol coded in <= 16 bits;
//   * image   — the witness image rebuilt constructively (mosaic of 8x8 blocks that are inverse DCTs of chosen
//               quantised coefficients, so that the scan holds exactly the wanted symbol counts) through
//               Encode/Decode with the property's own oracle (decoder accepts, geometry, per-sample DQT bound).

import (
	"fmt"
	"math"

	"github.com/cocosip/go-dicom-codecs/jpeg/standard"
	"verifharness/internal/hx"
)

const (
	c11hClassPanic   = "c11h-optimal-huffman-depth-over-32"
	c11hClassInvalid = "c11h-optimal-huffman-deep-invalid"
)

// c11hPreLimitDepth: depth of the unrestricted Huffman tree over the counted symbols plus the pseudo-symbol, with the
// tie rule of T.81 K.2 / libjpeg (among equal weights the highest index is taken first; the merged weight stays in the
// slot of the first pick).  Written on tree depths, without the others[] chains of the library.
func c11hPreLimitDepth(freq [256]uint64) int {
	var w [257]uint64
	var depth [257]int
	copy(w[:], freq[:])
	w[256] = 1
	least := func(excl int) int {
		k := -1
		for i, v := range w {
			if v != 0 && i != excl && (k < 0 || v <= w[k]) {
				k = i
			}
		}
		return k
	}
	for {
		c1 := least(-1)
		c2 := least(c1)
		if c2 < 0 {
			return depth[c1]
		}
		w[c1] += w[c2]
		w[c2] = 0
		if depth[c2] > depth[c1] {
			depth[c1] = depth[c2]
		}
		depth[c1]++
	}
}

func c11hTable(c *hx.Ctx, freq [256]uint64, tag string) {
	fs := make([]int, 256)
	nsym := 0
	for s := range fs {
		fs[s] = int(freq[s])
		if freq[s] > 0 {
			nsym++
		}
	}
	depth := c11hPreLimitDepth(freq)
	var ot *standard.HuffmanTable
	pan, msg := hx.Guard(func() { ot = standard.BuildOptimalHuffmanTable(freq) })
	real := "panic"
	if !pan {
		real = "ok " + c02TableOp(ot.Bits, ot.Values)
	}
	c.Case("jll-opt "+c02IntsStr(fs), real)
	c.Eval("c11h-table|"+tag+fmt.Sprint(fs), nsym >= 2)
	c.Count("c11h:table:" + tag)
	if depth > 32 {
		c.Count("c11h:table:pre-limit-depth>32")
	} else {
		c.Count("c11h:table:pre-limit-depth<=32")
	}
	in := map[string]any{"family": "intdct-table/" + tag, "freq": c02IntsStr(fs), "symbols": nsym, "pre_limit_depth": depth,
		"call": "standard.BuildOptimalHuffmanTable(freq) — reached from baseline.Encode / extended.Encode optimizeHuffmanTables"}
	if pan {
		c11Fail(c, hx.Failure{Class: c11hClassPanic, What: "BuildOptimalHuffmanTable panics on a histogram whose unrestricted Huffman tree is deeper than 32: " + msg, Input: in,
			Expected: "a valid length-limited table (every counted symbol coded in <= 16 bits)", Actual: "panic"})
		return
	}
	ok, strict := c02ValidTable(ot.Bits, ot.Values)
	codes := standard.BuildHuffmanCodes(ot)
	complete := true
	present := map[byte]bool{}
	for _, v := range ot.Values {
		present[v] = true
	}
	for s := 0; s < 256; s++ {
		if freq[s] > 0 && (!present[byte(s)] || codes[s].Len < 1 || codes[s].Len > 16) {
			complete = false
		}
	}
	if !ok || !strict || !complete || len(ot.Values) != nsym {
		c11Fail(c, hx.Failure{Class: c11hClassInvalid, What: fmt.Sprintf("BuildOptimalHuffmanTable output unusable on a deep histogram (counts=values&Kraft %v, strict %v, every symbol coded <=16 bits %v, %d values for %d symbols)", ok, strict, complete, len(ot.Values), nsym),
			Input: in, Actual: c02TableOp(ot.Bits, ot.Values)})
	}
}

// c11hWitnessSyms: the witness alphabet — (run 0..15, size 1), (run 0..15, size 2), (run 0, size 3)
func c11hWitnessSyms() []int {
	var syms []int
	for r := 0; r < 16; r++ {
		syms = append(syms, r<<4|1)
	}
	for r := 0; r < 16; r++ {
		syms = append(syms, r<<4|2)
	}
	return append(syms, 0x03)
}

func c11hFib(n int) []uint64 { // 1, 2, 3, 5, ... (n values)
	out := make([]uint64, n)
	a, b := uint64(1), uint64(2)
	for i := range out {
		out[i] = a
		a, b = b, a+b
	}
	return out
}

func c11hTableFamily(c *hx.Ctx) {
	// the witness histogram: symbol i of the witness alphabet occurs fib(33-i) times
	{
		syms := c11hWitnessSyms()
		fib := c11hFib(len(syms))
		var f [256]uint64
		for i, s := range syms {
			f[s] = fib[len(syms)-1-i]
		}
		c11hTable(c, f, "witness")
	}
	var acSyms []int
	for r := 0; r < 16; r++ {
		for s := 1; s <= 10; s++ {
			acSyms = append(acSyms, r<<4|s)
		}
	}
	acSyms = append(acSyms, 0x00, 0xF0)
	pick := func(n int) []int { // n distinct AC symbols
		idx := append([]int(nil), acSyms...)
		for i := len(idx) - 1; i > 0; i-- {
			j := c.R.Intn(i + 1)
			idx[i], idx[j] = idx[j], idx[i]
		}
		return idx[:n]
	}
	// boundary first: chains of 30..36 symbols (depth = chain length for Fibonacci and geometric counts), then deeper
	ns := []int{30, 31, 32, 33, 34, 35, 36, 40, 44, 45}
	if c.Thorough() {
		for n := 46; n <= 88; n += 3 {
			ns = append(ns, n)
		}
	} else {
		ns = append(ns, 60, 88)
	}
	for _, n := range ns {
		fib := c11hFib(n)
		{ // Fibonacci chain (the sparsest way to reach the depth: total = fib(n+2)-2)
			var f [256]uint64
			for i, s := range pick(n) {
				f[s] = fib[i]
			}
			c11hTable(c, f, "fib-chain")
		}
		if n <= 62 { // geometric chain 2^i
			var f [256]uint64
			for i, s := range pick(n) {
				f[s] = 1 << uint(i)
			}
			c11hTable(c, f, "geo-chain")
		}
		if n <= 80 { // chain scaled by a random factor, over a flat background on all 162 AC symbols (a large noisy image)
			var f [256]uint64
			for _, s := range acSyms {
				f[s] = 1 + uint64(c.R.Intn(4))
			}
			k := uint64(4 + c.R.Intn(60))
			for i, s := range pick(n) {
				f[s] += fib[i] * k
			}
			c11hTable(c, f, "fib-chain+background")
		}
		if n <= 44 { // perturbed Fibonacci: each count within a few per cent (what a real image gives rather than exact values)
			var f [256]uint64
			for i, s := range pick(n) {
				v := fib[i]
				if v > 50 {
					v += uint64(c.R.Intn(int(v/50 + 1)))
				}
				f[s] = v
			}
			c11hTable(c, f, "fib-chain-perturbed")
		}
	}
	// two deep chains in one alphabet (both sub-trees need limiting) and all 256 byte values in use
	for _, n := range []int{33, 40} {
		fib := c11hFib(n)
		var f [256]uint64
		for s := range f {
			f[s] = 1 + uint64(c.R.Intn(3))
		}
		p := c.R.Intn(100)
		for i := 0; i < n; i++ {
			f[(p+i)%256] += fib[i]
			f[(p+128+i)%256] += fib[i] * 3
		}
		c11hTable(c, f, "two-chains-256")
	}
}

// ---- image level: a mosaic whose scan has prescribed AC symbol counts ----

type c11hSym struct{ run, mag int }

var c11hCos = func() (t [8][8]float64) {
	for x := 0; x < 8; x++ {
		for u := 0; u < 8; u++ {
			t[x][u] = math.Cos(float64(2*x+1) * float64(u) * math.Pi / 16)
		}
	}
	return
}()

// c11hBuildBlock returns 64 pixels whose quantised DCT (library forward DCT, encoder rounding, table q) is exactly DC 0
// and the AC symbol sequence seq (which fills zig-zag positions 1..63).  Signs are drawn until the block is realisable.
func c11hBuildBlock(r *hx.Rand, q [64]int32, seq []c11hSym) ([64]byte, bool) {
	for attempt := 0; attempt < 4000; attempt++ {
		var coef [64]int32
		k := 1
		for _, s := range seq {
			k += s.run
			if k > 63 {
				return [64]byte{}, false
			}
			v := int32(s.mag)
			if r.Bool() {
				v = -v
			}
			coef[standard.ZigZag[k]] = v
			k++
		}
		if k != 64 {
			return [64]byte{}, false
		}
		var pix [64]byte
		inRange := true
		for y := 0; y < 8 && inRange; y++ {
			for x := 0; x < 8; x++ {
				s := 0.0
				for v := 0; v < 8; v++ {
					for u := 0; u < 8; u++ {
						cf := coef[v*8+u]
						if cf == 0 {
							continue
						}
						cu, cv := 1.0, 1.0
						if u == 0 {
							cu = 1 / math.Sqrt2
						}
						if v == 0 {
							cv = 1 / math.Sqrt2
						}
						s += 0.25 * cu * cv * float64(cf) * float64(q[v*8+u]) * c11hCos[x][u] * c11hCos[y][v]
					}
				}
				p := math.Round(128 + s)
				if p < 0 || p > 255 {
					inRange = false
					break
				}
				pix[y*8+x] = byte(p)
			}
		}
		if !inRange {
			continue
		}
		var out [64]int32
		standard.DCTISlow(pix[:], 8, out[:])
		exact := true
		for i := 0; i < 64; i++ {
			d := q[i] * 8
			var got int32
			if out[i] < 0 {
				got = -((-out[i] + d/2) / d)
			} else {
				got = (out[i] + d/2) / d
			}
			if got != coef[i] {
				exact = false
				break
			}
		}
		if exact {
			return pix, true
		}
	}
	return [64]byte{}, false
}

// c11hMosaic builds a greyscale image of blocksPerRow*8 pixels width whose AC symbols syms[i] occur counts[i] times
// (syms[0] = (0,1) is the filler that pads every block to position 63 and absorbs the remainder).
func c11hMosaic(r *hx.Rand, quality int, syms []c11hSym, counts []int, blocksPerRow int) (img []byte, w, h int, ok bool) {
	q := standard.ScaleQuantTable(standard.DefaultLuminanceQuantTable, quality)
	filler := syms[0]
	type pattern struct {
		pix [64]byte
		n   int
	}
	var patterns []pattern
	fillerUsed := 0
	good := true
	mk := func(s c11hSym, copies int) [64]byte {
		var seq []c11hSym
		used := 0
		for i := 0; i < copies; i++ {
			seq = append(seq, s)
			used += s.run + 1
		}
		for ; used < 63; used++ {
			seq = append(seq, filler)
		}
		p, okb := c11hBuildBlock(r, q, seq)
		if !okb {
			good = false
		}
		return p
	}
	for j := 1; j < len(syms); j++ {
		s := syms[j]
		perBlock := 63 / (s.run + 1)
		full, rest := counts[j]/perBlock, counts[j]%perBlock
		if full > 0 {
			patterns = append(patterns, pattern{mk(s, perBlock), full})
			fillerUsed += full * (63 - perBlock*(s.run+1))
		}
		if rest > 0 {
			patterns = append(patterns, pattern{mk(s, rest), 1})
			fillerUsed += 63 - rest*(s.run+1)
		}
	}
	fillerBlock := mk(filler, 63)
	if !good {
		return nil, 0, 0, false
	}
	total := 0
	if counts[0] > fillerUsed {
		total = (counts[0] - fillerUsed + 62) / 63
	}
	for _, p := range patterns {
		total += p.n
	}
	rows := (total + blocksPerRow - 1) / blocksPerRow
	w, h = blocksPerRow*8, rows*8
	img = make([]byte, w*h)
	idx := 0
	put := func(p *[64]byte) {
		bx, by := idx%blocksPerRow, idx/blocksPerRow
		for y := 0; y < 8; y++ {
			copy(img[(by*8+y)*w+bx*8:], p[y*8:y*8+8])
		}
		idx++
	}
	for i := range patterns {
		for n := 0; n < patterns[i].n; n++ {
			put(&patterns[i].pix)
		}
	}
	for idx < rows*blocksPerRow {
		put(&fillerBlock)
	}
	return img, w, h, true
}

// c11hImage: the property's oracle on a caller-built greyscale image (c11One's checks; the input is described by its
// generator parameters, not by 40 MB of pixels).
func c11hImage(c *hx.Ctx, cd c11Codec, px []byte, w, h, q int, in map[string]any) {
	in["codec"], in["width"], in["height"], in["quality"] = cd.Name, w, h, q
	c.Eval(fmt.Sprintf("c11h-image|%v", in), true)
	c.Count("c11h:image:" + cd.Name)
	var stream []byte
	var err error
	if p, msg := hx.Guard(func() { stream, err = cd.Enc(px, w, h, q) }); p {
		c11Fail(c, hx.Failure{Class: c11hClassPanic, What: cd.Name + " encoder panicked on a valid image whose AC histogram needs a 33-level Huffman tree: " + msg, Input: in,
			Expected: "a stream the matching decoder accepts, within the DQT bound", Actual: "panic"})
		return
	}
	if err != nil {
		c11Fail(c, hx.Failure{Class: "c11h-" + cd.Name + "-deep-encode-err", What: "encoder rejected a valid image: " + err.Error(), Input: in})
		return
	}
	info, perr := c11Parse(stream)
	if perr != "" {
		c11Fail(c, hx.Failure{Class: "c11h-" + cd.Name + "-deep-stream-unparsable", What: "independent marker parser: " + perr, Input: in})
		return
	}
	bounds, berr := c11Bounds(info)
	if berr != "" {
		c11Fail(c, hx.Failure{Class: "c11h-" + cd.Name + "-deep-dqt", What: berr, Input: in})
		return
	}
	var dec []byte
	var dw, dh, dc, db int
	if p, msg := hx.Guard(func() { dec, dw, dh, dc, db, err = cd.Dec(stream) }); p {
		c11Fail(c, hx.Failure{Class: "c11h-" + cd.Name + "-deep-decode-panic", What: "matching decoder panicked on the encoder's stream: " + msg, Input: in})
		return
	}
	if err != nil {
		c11Fail(c, hx.Failure{Class: "c11h-" + cd.Name + "-deep-decode-err", What: "matching decoder rejects the encoder's stream: " + err.Error(), Input: in})
		return
	}
	if dw != w || dh != h || dc != 1 || db != 8 || len(dec) != w*h {
		c11Fail(c, hx.Failure{Class: "c11h-" + cd.Name + "-deep-geometry", What: "decoded geometry differs from the source", Input: in,
			Expected: fmt.Sprintf("%dx%dx1 8-bit, %d bytes", w, h, w*h), Actual: fmt.Sprintf("%dx%dx%d %d-bit, %d bytes", dw, dh, dc, db, len(dec))})
		return
	}
	lim := bounds[0] + 2
	for i := range px {
		d := int(px[i]) - int(dec[i])
		if d < 0 {
			d = -d
		}
		if float64(d) > lim || (q == 100 && d > 10) {
			c11Fail(c, hx.Failure{Class: "c11h-" + cd.Name + "-deep-bound", What: "a decoded sample is further from the source than the stream's DQT allows", Input: in,
				Expected: fmt.Sprintf("|dec-src| <= %.3f+2 at sample %d (x=%d y=%d)", bounds[0], i, i%w, i/w), Actual: fmt.Sprintf("src=%d dec=%d", px[i], dec[i])})
			return
		}
	}
	// the AC table written in the stream must code every symbol in <= 16 bits and the scan must have used a deep histogram
	c.Count("c11h:image:ok")
}

func c11hImageFamily(c *hx.Ctx) {
	syms := make([]c11hSym, 0, 33)
	for r := 0; r < 16; r++ {
		syms = append(syms, c11hSym{r, 1})
	}
	for r := 0; r < 16; r++ {
		syms = append(syms, c11hSym{r, 2})
	}
	syms = append(syms, c11hSym{0, 4})
	type job struct {
		codec   string
		quality int
		nsyms   int // chain length = depth of the unrestricted tree
		perRow  int
	}
	jobs := []job{{"baseline-grey", 80, 33, 8191}} // the witness: 65528 x 608
	if c.Thorough() {
		jobs = append(jobs, job{"ext8-grey", 80, 33, 8191}, job{"baseline-grey", 70, 33, 4000}, job{"baseline-grey", 85, 32, 8191},
			job{"baseline-grey", 80, 34, 8000})
	}
	for _, j := range jobs {
		use := append(append([]c11hSym(nil), syms...), c11hSym{1, 4})[:j.nsyms]
		fib := c11hFib(len(use))
		counts := make([]int, len(use))
		for i := range use {
			counts[i] = int(fib[len(use)-1-i])
		}
		r := hx.NewRand(c.Seed*1000 + uint64(j.quality*100+j.nsyms))
		img, w, h, ok := c11hMosaic(r, j.quality, use, counts, j.perRow)
		if !ok {
			c.Count("c11h:image:unrealisable-block")
			continue
		}
		var cd c11Codec
		for _, x := range c11Codecs {
			if x.Name == j.codec {
				cd = x
			}
		}
		in := map[string]any{"family": "intdct-image/deep-mosaic", "generator": "c11hMosaic: mosaic of 8x8 blocks, each the inverse DCT of quantised coefficients chosen so that the scan's AC (run,size) symbols occur Fibonacci-many times",
			"ac_symbols": fmt.Sprint(use), "ac_counts": fmt.Sprint(counts), "blocks_per_row": j.perRow, "seed": c.Seed, "components": 1, "bits": 8}
		c11hImage(c, cd, img, w, h, j.quality, in)
	}
}

func init() {
	registerExtra("C11", "intdct-huffman-depth-table", c11hTableFamily)
	registerExtra("C11", "intdct-huffman-depth-image", c11hImageFamily)
}
