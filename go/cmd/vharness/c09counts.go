package main

// C08/C09 — header-declared COUNT fields at their extremes (operator `header-counts`): real encoder output for small
// images whose count fields are rewritten one at a time and in pairs, the segments being REBUILT so that the stream stays
// well-formed wherever the format ties one count to another (precinct bytes and QCD entries to the level count, SIZ
// component entries to Csiz, SOF component entries to Nf):
//
//	JPEG 2000 / HTJ2K: COD layers, COD levels (in place, and with precinct list and QCD rebuilt to match), code-block
//	  exponents, precinct sizes, SIZ Csiz with matching component entries, QCD entry count, SOT TPsot/TNsot, POC entries
//	JPEG / JPEG-LS:    SOF Nf with matching component entries (SOS untouched, or rebuilt for Nf ≤ 4), sampling factors,
//	  DRI interval, DHT code counts, SOS Ns
//
// A decoder that reserves memory or iterates in proportion to a PRODUCT of such counts (layers x resolutions x
// components …), unrelated to the input length and to the declared sample count, exceeds the C09 budget on these.

import (
	"bytes"
	"encoding/binary"
	"fmt"
)

type c09Edit struct {
	Name string
	F    func(d []byte) []byte // nil: not applicable
}

func c09FindSeg(d []byte, fam string, marker int) (c08Seg, bool) {
	var sc c08Scan
	if fam == "j2k" {
		sc = c08ScanJ2K(d)
	} else {
		sc = c08ScanJPEG(d)
	}
	for _, sg := range sc.Segs {
		if sg.Marker == marker && sg.HasLen && sg.Off+2+sg.Len <= len(d) {
			return sg, true
		}
	}
	return c08Seg{}, false
}

// replace the segment (marker + length + payload) by marker + new payload
func c09ReplaceSeg(d []byte, sg c08Seg, payload []byte) []byte {
	if len(payload)+2 > 65535 {
		return nil
	}
	out := append([]byte{}, d[:sg.Off+2]...)
	out = append(out, byte((len(payload)+2)>>8), byte(len(payload)+2))
	out = append(out, payload...)
	return append(out, d[sg.Off+2+sg.Len:]...)
}

func c09InsertBefore(d []byte, sg c08Seg, marker byte, payload []byte) []byte {
	if len(payload)+2 > 65535 {
		return nil
	}
	out := append([]byte{}, d[:sg.Off]...)
	out = append(out, 0xFF, marker, byte((len(payload)+2)>>8), byte(len(payload)+2))
	out = append(out, payload...)
	return append(out, d[sg.Off:]...)
}

// ---------------------------------------------------------------------------------------------- JPEG 2000

func c09J2KPut(marker, off int, vals ...byte) func([]byte) []byte {
	return func(d []byte) []byte {
		sg, ok := c09FindSeg(d, "j2k", marker)
		if !ok || sg.Off+off+len(vals) > sg.Off+2+sg.Len {
			return nil
		}
		m := c08Clone(d)
		copy(m[sg.Off+off:], vals)
		return m
	}
}

// COD with `levels` and the precinct list / QCD entry list rebuilt to match it; precinct < 0: no precinct list
func c09J2KLevels(levels int, precinct int) func([]byte) []byte {
	return func(d []byte) []byte {
		sg, ok := c09FindSeg(d, "j2k", 0x52)
		if !ok || sg.Len < 12 {
			return nil
		}
		p := c08Clone(d[sg.Off+4 : sg.Off+2+sg.Len])[:10] // Scod SGcod(4) levels cbw cbh style transform
		p[5] = byte(levels)
		if precinct >= 0 {
			p[0] |= 1
			for i := 0; i <= levels; i++ {
				p = append(p, byte(precinct))
			}
		} else {
			p[0] &^= 1
		}
		m := c09ReplaceSeg(d, sg, p)
		if m == nil {
			return nil
		}
		return c09J2KQcdCount(3*levels + 1)(m)
	}
}

// QCD with n entries of the stream's own quantisation style
func c09J2KQcdCount(n int) func([]byte) []byte {
	return func(d []byte) []byte {
		sg, ok := c09FindSeg(d, "j2k", 0x5C)
		if !ok || sg.Len < 3 {
			return nil
		}
		sq := d[sg.Off+4]
		p := []byte{sq}
		switch sq & 0x1F {
		case 0:
			for i := 0; i < n; i++ {
				p = append(p, 0x40)
			}
		case 1:
			p = append(p, 0x48, 0x00)
		default:
			for i := 0; i < n; i++ {
				p = append(p, 0x48, 0x00)
			}
		}
		return c09ReplaceSeg(d, sg, p)
	}
}

func c09J2KCsiz(n int) func([]byte) []byte {
	return func(d []byte) []byte {
		sg, ok := c09FindSeg(d, "j2k", 0x51)
		if !ok || sg.Len < 41 {
			return nil
		}
		p := c08Clone(d[sg.Off+4 : sg.Off+4+36])
		binary.BigEndian.PutUint16(p[34:], uint16(n))
		first := d[sg.Off+40 : sg.Off+43]
		for i := 0; i < n; i++ {
			p = append(p, first...)
		}
		return c09ReplaceSeg(d, sg, p)
	}
}

func c09J2KPoc(entries int, wide bool) func([]byte) []byte {
	return func(d []byte) []byte {
		sot, ok := c09FindSeg(d, "j2k", 0x90)
		if !ok {
			return nil
		}
		var p []byte
		for i := 0; i < entries; i++ {
			if wide {
				p = append(p, 0, 0, 0, 0xFF, 0xFF, 33, 0x40, 0x00, byte(i%5))
			} else {
				p = append(p, 0, 0, 0xFF, 0xFF, 33, 0xFF, byte(i%5))
			}
		}
		return c09InsertBefore(d, sot, 0x5F, p)
	}
}

func c09J2KEdits(big bool, pixels int64) (fields [][]c09Edit) {
	mk := func(name string, f func([]byte) []byte) c09Edit { return c09Edit{name, f} }
	var layers, levels, levelsC, cb, prec, csiz, qcd, sot, poc []c09Edit
	for _, v := range []int{0, 1, 255, 256, 32767, 65535} {
		layers = append(layers, mk(fmt.Sprintf("layers=%d", v), c09J2KPut(0x52, 6, byte(v>>8), byte(v))))
	}
	for _, v := range []int{0, 5, 31, 33, 64, 255, 32} { // (the most telling extremes last: the pairs use the tail)
		levels = append(levels, mk(fmt.Sprintf("levels=%d(in place)", v), c09J2KPut(0x52, 9, byte(v))))
		levelsC = append(levelsC, mk(fmt.Sprintf("levels=%d", v), c09J2KLevels(v, -1)))
	}
	for _, v := range [][2]int{{255, 255}, {15, 15}, {8, 8}, {4, 4}, {8, 0}, {0, 8}, {0, 0}} { // valid: each ≤ 8, sum ≤ 8
		cb = append(cb, mk(fmt.Sprintf("cbexp=%d,%d", v[0], v[1]), c09J2KPut(0x52, 10, byte(v[0]), byte(v[1]))))
	}
	for _, v := range []int{0x11, 0x0F, 0xF0, 0xFF, 0x00} { // 0x00: 1x1 precincts, the largest precinct count
		for _, lv := range []int{1, 5, 32} {
			prec = append(prec, mk(fmt.Sprintf("precinct=%#02x,levels=%d", v, lv), c09J2KLevels(lv, v)))
		}
	}
	// thousands of components are expensive on the current tree already (seconds; with many levels the known class
	// c09-time-j2k-per-component-overhead): the quick tier stops at 1024
	// … and the thorough tier keeps the declared sample count at 2^20 or below (4096 components for images of up to 256
	// pixels, 16384 for up to 64): at S = 2^22 in thousands of planes the per-component overhead alone (about 0.6 ms) is
	// most of the time budget, whatever else the header says
	cs := []int{1, 2, 3, 4, 255, 256, 257, 1024}
	if big && pixels <= 64 {
		cs = append([]int{16384}, cs...) // (in front: a single edit only, the pairs use the tail of the list)
	}
	if big && pixels <= 256 {
		cs = append(cs, 4096)
	}
	for _, v := range cs {
		csiz = append(csiz, mk(fmt.Sprintf("csiz=%d", v), c09J2KCsiz(v)))
	}
	for _, v := range []int{0, 1, 4, 96, 97, 98, 255, 1000, 32766} {
		qcd = append(qcd, mk(fmt.Sprintf("qcd-entries=%d", v), c09J2KQcdCount(v)))
	}
	for _, v := range [][2]int{{0, 0}, {0, 1}, {0, 255}, {1, 2}, {254, 255}, {255, 255}, {255, 0}} {
		sot = append(sot, mk(fmt.Sprintf("tpsot=%d,tnsot=%d", v[0], v[1]), c09J2KPut(0x90, 10, byte(v[0]), byte(v[1]))))
	}
	for _, v := range []int{1, 2, 32, 255, 7000} {
		poc = append(poc, mk(fmt.Sprintf("poc=%d", v), c09J2KPoc(v, false)), mk(fmt.Sprintf("poc=%d(wide)", v), c09J2KPoc(v, true)))
	}
	return [][]c09Edit{layers, levels, levelsC, cb, prec, csiz, qcd, sot, poc}
}

// ---------------------------------------------------------------------------------------------- JPEG / JPEG-LS

func c09JpegSOF(d []byte) (c08Seg, bool) {
	for _, sg := range c08ScanJPEG(d).Segs {
		switch sg.Marker {
		case 0xC0, 0xC1, 0xC2, 0xC3, 0xF7:
			if sg.HasLen && sg.Off+2+sg.Len <= len(d) && sg.Len >= 11 {
				return sg, true
			}
		}
	}
	return c08Seg{}, false
}

// SOF with n components (entries copied from the stream's own, ids 1..n); sos: also rebuild the first SOS for n ≤ 4
func c09JpegNf(n int, sos bool) func([]byte) []byte {
	return func(d []byte) []byte {
		sg, ok := c09JpegSOF(d)
		if !ok {
			return nil
		}
		nf := int(d[sg.Off+9])
		if nf == 0 || sg.Len < 8+3*nf {
			return nil
		}
		p := c08Clone(d[sg.Off+4 : sg.Off+10])
		p[5] = byte(n)
		for i := 0; i < n; i++ {
			e := d[sg.Off+10+3*(i%nf) : sg.Off+13+3*(i%nf)]
			p = append(p, byte(i+1), e[1], e[2])
		}
		m := c09ReplaceSeg(d, sg, p)
		if m == nil || !sos || n > 4 || n == 0 {
			return m
		}
		ss, ok := c09FindSeg(m, "jpeg", 0xDA)
		if !ok || ss.Len < 6 {
			return m
		}
		ns := int(m[ss.Off+4])
		if ss.Len < 6+2*ns || ns == 0 {
			return m
		}
		tail := c08Clone(m[ss.Off+5+2*ns : ss.Off+2+ss.Len])
		q := []byte{byte(n)}
		for i := 0; i < n; i++ {
			q = append(q, byte(i+1), m[ss.Off+6+2*(i%ns)])
		}
		return c09ReplaceSeg(m, ss, append(q, tail...))
	}
}

func c09JpegSampling(hv byte, all bool) func([]byte) []byte {
	return func(d []byte) []byte {
		sg, ok := c09JpegSOF(d)
		if !ok {
			return nil
		}
		nf := int(d[sg.Off+9])
		if nf == 0 || sg.Len < 8+3*nf {
			return nil
		}
		m := c08Clone(d)
		for i := 0; i < nf; i++ {
			if i == 0 || all {
				m[sg.Off+10+3*i+1] = hv
			}
		}
		return m
	}
}

func c09JpegDRI(v int) func([]byte) []byte {
	return func(d []byte) []byte {
		if sg, ok := c09FindSeg(d, "jpeg", 0xDD); ok && sg.Len == 4 {
			m := c08Clone(d)
			m[sg.Off+4], m[sg.Off+5] = byte(v>>8), byte(v)
			return m
		}
		ss, ok := c09FindSeg(d, "jpeg", 0xDA)
		if !ok {
			return nil
		}
		return c09InsertBefore(d, ss, 0xDD, []byte{byte(v >> 8), byte(v)})
	}
}

// DHT: the 16 code counts of the first table set to `count` each (values padded / cut to match when fit is set)
func c09JpegDHT(count int, fit bool) func([]byte) []byte {
	return func(d []byte) []byte {
		sg, ok := c09FindSeg(d, "jpeg", 0xC4)
		if !ok || sg.Len < 19 {
			return nil
		}
		p := c08Clone(d[sg.Off+4 : sg.Off+2+sg.Len])
		for i := 1; i <= 16; i++ {
			p[i] = byte(count)
		}
		if fit {
			p = p[:17]
			for i := 0; i < 16*count; i++ {
				p = append(p, byte(i))
			}
		}
		return c09ReplaceSeg(d, sg, p)
	}
}

func c09JpegSosNs(n int) func([]byte) []byte {
	return func(d []byte) []byte {
		ss, ok := c09FindSeg(d, "jpeg", 0xDA)
		if !ok || ss.Len < 6 {
			return nil
		}
		ns := int(d[ss.Off+4])
		if ns == 0 || ss.Len < 6+2*ns {
			return nil
		}
		tail := c08Clone(d[ss.Off+5+2*ns : ss.Off+2+ss.Len])
		q := []byte{byte(n)}
		for i := 0; i < n; i++ {
			q = append(q, d[ss.Off+5+2*(i%ns)], d[ss.Off+6+2*(i%ns)])
		}
		return c09ReplaceSeg(d, ss, append(q, tail...))
	}
}

func c09JpegEdits() [][]c09Edit {
	mk := func(name string, f func([]byte) []byte) c09Edit { return c09Edit{name, f} }
	var nf, samp, dri, dht, ns []c09Edit
	for _, v := range []int{0, 1, 2, 3, 4, 5, 16, 255} {
		nf = append(nf, mk(fmt.Sprintf("nf=%d", v), c09JpegNf(v, false)))
		if v >= 1 && v <= 4 {
			nf = append(nf, mk(fmt.Sprintf("nf=%d+sos", v), c09JpegNf(v, true)))
		}
	}
	for _, v := range []byte{0x00, 0x11, 0x12, 0x21, 0x22, 0x41, 0x44, 0x4F, 0xF1, 0xFF} {
		samp = append(samp, mk(fmt.Sprintf("sampling0=%#02x", v), c09JpegSampling(v, false)), mk(fmt.Sprintf("sampling*=%#02x", v), c09JpegSampling(v, true)))
	}
	for _, v := range []int{0, 1, 2, 7, 255, 256, 65535} {
		dri = append(dri, mk(fmt.Sprintf("dri=%d", v), c09JpegDRI(v)))
	}
	for _, v := range []int{0, 1, 15, 16, 17, 255} {
		dht = append(dht, mk(fmt.Sprintf("dht-counts=%d", v), c09JpegDHT(v, false)))
		if v <= 17 {
			dht = append(dht, mk(fmt.Sprintf("dht-counts=%d(fit)", v), c09JpegDHT(v, true)))
		}
	}
	for _, v := range []int{0, 1, 2, 3, 4, 5, 255} {
		ns = append(ns, mk(fmt.Sprintf("ns=%d", v), c09JpegSosNs(v)))
	}
	return [][]c09Edit{nf, samp, dri, dht, ns}
}

// headerCounts: every single edit, and every pair of edits of two different fields (quick tier: the pairs over the two or
// three most extreme values of each field), on the small corpus streams of every family
func (b *c08Builder) headerCounts(seeds []c08Seed) {
	perFam := map[string]int{}
	for i := range seeds {
		s := &seeds[i]
		fam := c08Targets[s.Target].Family
		if s.Fixture || (fam != "j2k" && fam != "jpeg" && fam != "jls") {
			continue
		}
		sc := c08ScanFor(fam, s.Data, s.FI)
		if sc.S < 0 || sc.S > 4096 || len(s.Data) > 6000 {
			continue
		}
		key := c08Targets[s.Target].Name
		perFam[key]++
		lim := 4
		if b.c.Thorough() {
			lim = 6
		}
		if perFam[key] > lim {
			continue
		}
		var fields [][]c09Edit
		efam := "jpeg"
		if fam == "j2k" {
			if !bytes.HasPrefix(s.Data, []byte{0xFF, 0x4F, 0xFF, 0x51}) {
				continue
			}
			comps := int64(c08Be16(s.Data, 40))
			if comps <= 0 {
				continue
			}
			// (thousands of components: the first two streams of each entry point only — each such decode costs seconds)
			fields, efam = c09J2KEdits(b.c.Thorough() && perFam[key] <= 2, sc.S/comps), "j2k"
		} else {
			fields = c09JpegEdits()
		}
		_ = efam
		emit := func(m []byte, name string) {
			if m != nil && len(m) < 1<<20 {
				b.add(s.Target, s.FI, m, "header-counts", s.Name+":"+name)
			}
		}
		for _, f := range fields {
			for _, e := range f {
				emit(e.F(s.Data), e.Name)
			}
		}
		// pairs: the extremes of each field (its last entries), first seeds of each entry point only in the quick tier
		if !b.c.Thorough() && perFam[key] > 2 {
			continue
		}
		tail := 2
		if b.c.Thorough() {
			tail = 3
		}
		for i1 := 0; i1 < len(fields); i1++ {
			for i2 := i1 + 1; i2 < len(fields); i2++ {
				f1, f2 := fields[i1], fields[i2]
				for a := max(0, len(f1)-tail); a < len(f1); a++ {
					for c := max(0, len(f2)-tail); c < len(f2); c++ {
						// the rebuilding edit last, so that it sees the other one's value where it copies fields
						if m := f1[a].F(s.Data); m != nil {
							emit(f2[c].F(m), f1[a].Name+"+"+f2[c].Name)
						}
						if m := f2[c].F(s.Data); m != nil {
							emit(f1[a].F(m), f2[c].Name+"+"+f1[a].Name)
						}
					}
				}
			}
		}
	}
}

// ---------------------------------------------------------------------------------------------- second frame header

// secondFrameHeaders (operator `second-frame-header`): a header that REPLACES what the first one declared.  JPEG / JPEG-LS:
// a copy of the stream's own frame header (SOF0/1/3/55) with height, width, component count or precision rewritten, placed
// right behind the original, behind the tables (in front of the first SOS), and in front of every later SOS (between
// scans).  JPEG 2000: a second SIZ cannot occur, but COD / QCD / COC in the first tile-part header override the main
// header: levels, layers, code-block size, entry counts (Psot adjusted).  The budget of C09 is that of the FIRST frame
// header (the independent scan of the harness reads only that one).
func (b *c08Builder) secondFrameHeaders(seeds []c08Seed) {
	per := map[string]int{}
	for i := range seeds {
		s := &seeds[i]
		fam := c08Targets[s.Target].Family
		if s.Fixture || (fam != "j2k" && fam != "jpeg" && fam != "jls") || len(s.Data) > 20000 {
			continue
		}
		key := c08Targets[s.Target].Name
		per[key]++
		lim := 5
		if b.c.Thorough() {
			lim = 16
		}
		if per[key] > lim {
			continue
		}
		if fam == "j2k" {
			b.j2kTileHeaderOverrides(s)
			continue
		}
		sg, ok := c09JpegSOF(s.Data)
		if !ok {
			continue
		}
		orig := s.Data[sg.Off : sg.Off+2+sg.Len]
		nf := int(orig[9])
		var copies [][]byte
		mk := func(p, h, w, n int) {
			c := append([]byte{}, orig[:4]...)
			c = append(c, byte(p), byte(h>>8), byte(h), byte(w>>8), byte(w), byte(n))
			for k := 0; k < n; k++ {
				if nf > 0 && 10+3*(k%nf)+3 <= len(orig) {
					e := orig[10+3*(k%nf) : 13+3*(k%nf)]
					c = append(c, byte(k+1), e[1], e[2])
				} else {
					c = append(c, byte(k+1), 0x11, 0)
				}
			}
			c[2], c[3] = byte((len(c)-2)>>8), byte(len(c)-2)
			copies = append(copies, c)
		}
		p0 := int(orig[4])
		h0, w0 := int(orig[5])<<8|int(orig[6]), int(orig[7])<<8|int(orig[8])
		for _, d := range [][2]int{{30000, 30000}, {65535, 65535}, {1, 65535}, {65535, 1}, {2048, 2048}, {h0, w0}, {h0 + 1, w0}, {1, 1}} {
			mk(p0, d[0], d[1], nf)
		}
		for _, n := range []int{1, 3, 4, 255} {
			mk(p0, h0, w0, n)
			mk(p0, 30000, 30000, n)
		}
		for _, p := range []int{2, 8, 12, 16} {
			mk(p, h0, w0, nf)
			mk(p, 30000, 30000, nf)
		}
		// positions: behind the original, in front of the first SOS, in front of every later SOS, behind the last table
		var pos []int
		pos = append(pos, sg.Off+2+sg.Len)
		nsos := 0
		for _, q := range c08ScanJPEG(s.Data).Segs {
			if q.Marker == 0xDA && q.Off > sg.Off {
				pos = append(pos, q.Off)
				nsos++
			}
			if (q.Marker == 0xC4 || q.Marker == 0xF8 || q.Marker == 0xDB || q.Marker == 0xDD) && q.HasLen && q.Off > sg.Off {
				pos = append(pos, q.Off+2+q.Len)
			}
		}
		seen := map[int]bool{}
		for _, at := range pos {
			if at > len(s.Data) || seen[at] {
				continue
			}
			seen[at] = true
			for ci, c := range copies {
				if !b.c.Thorough() && at != pos[0] && ci%3 != 0 {
					continue
				}
				m := append([]byte{}, s.Data[:at]...)
				m = append(m, c...)
				m = append(m, s.Data[at:]...)
				b.add(s.Target, s.FI, m, "second-frame-header", fmt.Sprintf("%s@%d", s.Name, at))
			}
		}
	}
}

func (b *c08Builder) j2kTileHeaderOverrides(s *c08Seed) {
	if !bytes.HasPrefix(s.Data, []byte{0xFF, 0x4F, 0xFF, 0x51}) {
		return
	}
	cod, ok := c09FindSeg(s.Data, "j2k", 0x52)
	if !ok || cod.Len < 12 {
		return
	}
	insert := func(seg []byte, name string) {
		sc := c08ScanJ2K(s.Data)
		sot, sod := -1, -1
		for _, q := range sc.Segs {
			if q.Marker == 0x90 && sot < 0 {
				sot = q.Off
			}
			if q.Marker == 0x93 && sot >= 0 && sod < 0 {
				sod = q.Off
			}
		}
		if sot < 0 || sod < 0 || sot+10 > len(s.Data) {
			return
		}
		m := append([]byte{}, s.Data[:sod]...)
		m = append(m, seg...)
		m = append(m, s.Data[sod:]...)
		if psot := binary.BigEndian.Uint32(m[sot+6:]); psot != 0 {
			binary.BigEndian.PutUint32(m[sot+6:], psot+uint32(len(seg)))
		}
		b.add(s.Target, s.FI, m, "second-frame-header", s.Name+":tile-"+name)
	}
	base := s.Data[cod.Off+4 : cod.Off+14] // Scod SGcod(4) levels cbw cbh style transform
	mkCod := func(layers, levels, cbw, cbh, prec int) []byte {
		p := append([]byte{}, base...)
		p[2], p[3] = byte(layers>>8), byte(layers)
		p[5], p[6], p[7] = byte(levels), byte(cbw), byte(cbh)
		if prec >= 0 {
			p[0] |= 1
			for k := 0; k <= levels; k++ {
				p = append(p, byte(prec))
			}
		} else {
			p[0] &^= 1
		}
		return append([]byte{0xFF, 0x52, byte((len(p) + 2) >> 8), byte(len(p) + 2)}, p...)
	}
	l0, lv0 := int(base[2])<<8|int(base[3]), int(base[5])
	for _, lv := range []int{0, lv0, lv0 + 1, 5, 32, 33, 255} {
		for _, ly := range []int{l0, 1, 65535} {
			insert(mkCod(ly, lv, int(base[6]), int(base[7]), -1), fmt.Sprintf("cod:layers=%d,levels=%d", ly, lv))
		}
	}
	for _, cb := range [][2]int{{0, 0}, {8, 0}, {0, 8}, {4, 4}, {6, 6}} {
		insert(mkCod(l0, lv0, cb[0], cb[1], -1), fmt.Sprintf("cod:cbexp=%d,%d", cb[0], cb[1]))
		insert(mkCod(65535, 32, cb[0], cb[1], -1), fmt.Sprintf("cod:layers=65535,levels=32,cbexp=%d,%d", cb[0], cb[1]))
	}
	for _, pr := range []int{0x00, 0x11, 0xFF} {
		insert(mkCod(l0, lv0, int(base[6]), int(base[7]), pr), fmt.Sprintf("cod:precinct=%#02x", pr))
		insert(mkCod(l0, 32, int(base[6]), int(base[7]), pr), fmt.Sprintf("cod:levels=32,precinct=%#02x", pr))
	}
	// QCD / COC of the tile-part header
	for _, n := range []int{0, 1, 3*lv0 + 1, 97, 1000} {
		p := []byte{0x40}
		for k := 0; k < n; k++ {
			p = append(p, 0x40)
		}
		insert(append([]byte{0xFF, 0x5C, byte((len(p) + 2) >> 8), byte(len(p) + 2)}, p...), fmt.Sprintf("qcd:entries=%d", n))
	}
	wide := c08Be16(s.Data, 40) > 256
	for _, lv := range []int{0, lv0 + 1, 32, 255} {
		p := []byte{0}
		if wide {
			p = []byte{0, 0}
		}
		p = append(p, 0, byte(lv), base[6], base[7], base[8], base[9])
		insert(append([]byte{0xFF, 0x53, byte((len(p) + 2) >> 8), byte(len(p) + 2)}, p...), fmt.Sprintf("coc:levels=%d", lv))
	}
}
