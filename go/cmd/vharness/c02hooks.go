//go:build verif && jllhooks

package main

// Correspondence for the unexported kernels of jpeg/lossless, through the PROPOSED hook file
// hooks/jpeg/lossless/verif_hooks.go (not yet in /repo: this file only compiles with -tags "verif jllhooks").

import (
	"fmt"

	"github.com/cocosip/go-dicom-codecs/jpeg/lossless"

	"verifharness/internal/hx"
)

func init() {
	c02HookCases = func(c *hx.Ctx) {
		n := 1500
		if c.Thorough() {
			n = 30000
		}
		for i := 0; i < n; i++ {
			s, p := c.R.Intn(65536), c.R.Range(-65536, 131071)
			c.Case(fmt.Sprintf("jll-ldiff %d %d", s, p), fmt.Sprintf("ok %d", lossless.VerifLosslessDifference(s, p)))
			d := c.R.Range(-32768, 32767)
			if i < 40 {
				d = []int{0, 1, -1, 2, -2, 32767, -32767, -32768, 16384, -16384}[i%10]
			}
			c.Case(fmt.Sprintf("jll-diffcat %d", d), fmt.Sprintf("ok %d", lossless.VerifDiffCategory(d)))
		}
	}
}
