package main

// C17 — case families added after the hunters' findings (integration agent intc17). Every family starts with the
// hunter's witness and continues with a seeded family around it; the oracle is C17's own: Encode returns an error,
// or a stream that decodes (fresh decoder, stream only) to the requested geometry — never a panic, never an
// accepted argument the format cannot represent.
//
//   intc17-j2k-tile-grid      more than 65535 tiles (Isot is 16 bit) / tile extent above 2^32-1 (XTsiz, YTsiz are 32 bit)
//   intc17-j2k-extent         width x height x components x bytes overflows int: panic in convertPixelData
//   intc17-j2k-custom-quant   CustomQuantSteps whose length is not 3*NumLevels+1 (QCD mis-declares the sub-bands)
//   intc17-j2k-mct-params     MCTMatrix / MCTBindings that cannot be applied (component id, ragged matrix): panic
//   intc17-adapter-zero-depth FrameInfo with BitsAllocated = BitsStored = 0 and a non-empty frame
//   intc17-htj2k-tlm          HTJ2K with more than 10921 tile-parts: Ltlm wraps
//   intc17-j2k-roiconfig      ROIConfig: the stream must decode without out-of-band knowledge of the configuration
//
// The `val-j2k` correspondence lines of the first two families tie the regenerated validateParams prefix
// (Gen/ValidateJ2k.lean) to the real encoder on exactly these argument tuples.

import (
	"encoding/binary"
	"fmt"
	"math"
	"math/bits"
	"time"

	gdcodec "github.com/cocosip/go-dicom-codecs/codec"
	"github.com/cocosip/go-dicom-codecs/jpeg2000"
	"github.com/cocosip/go-dicom-codecs/jpeg2000/htj2k"
	j2klossless "github.com/cocosip/go-dicom-codecs/jpeg2000/lossless"
	j2klossy "github.com/cocosip/go-dicom-codecs/jpeg2000/lossy"
	"github.com/cocosip/go-dicom-codecs/jpeg2000/t2"
	"github.com/cocosip/go-dicom/pkg/imaging/codec"
	"github.com/cocosip/go-dicom/pkg/imaging/imagetypes"

	"verifharness/internal/hx"
)

func init() {
	for name, f := range map[string]func(*hx.Ctx){"intc17-j2k-tile-grid": c17hTileGrid, "intc17-j2k-extent": c17hExtent,
		"intc17-j2k-custom-quant": c17hQuant, "intc17-j2k-mct-params": c17hMCT, "intc17-adapter-zero-depth": c17hZeroDepth,
		"intc17-htj2k-tlm": c17hTLM, "intc17-j2k-roiconfig": c17hROI} {
		registerExtra("C17", name, func(c *hx.Ctx) {
			t0 := time.Now()
			f(c)
			c.CountN("intc17-seconds:"+name, int(time.Since(t0).Seconds()+0.5))
		})
	}
}

// c17hFail records the first failing input of a class (the witness comes first in every family) and counts the
// rest under "c17-failing-inputs:<class>", so that one replay file shows every class of a run.
var c17hPerClass = map[string]int{}

func c17hFail(c *hx.Ctx, f hx.Failure) {
	c17hPerClass[f.Class]++
	c.Count("c17-failing-inputs:" + f.Class)
	if c17hPerClass[f.Class] <= 1 {
		c.Fail(f)
	}
}

// c17hMulFits: a*b*c*d as an int, false when it overflows int64 (all factors > 0)
func c17hMulFits(fs ...int) (int, bool) {
	p := uint64(1)
	for _, f := range fs {
		if f <= 0 {
			return 0, false
		}
		hi, lo := bits.Mul64(p, uint64(f))
		if hi != 0 || lo > math.MaxInt64 {
			return 0, false
		}
		p = lo
	}
	return int(p), true
}

// c17hTiles: tiles per axis as the encoder resolves them (0 = whole image); ok=false when not computable in int
func c17hTiles(a []int) (nx, ny int, ok bool) {
	tw, th := a[4], a[5]
	if tw == 0 {
		tw = a[0]
	}
	if th == 0 {
		th = a[1]
	}
	if tw <= 0 || th <= 0 || a[0] <= 0 || a[1] <= 0 || tw > math.MaxUint32 || th > math.MaxUint32 {
		return 0, 0, false
	}
	return (a[0] + tw - 1) / tw, (a[1] + th - 1) / th, true
}

// c17hReprJ2k: the clauses the hunters found missing, then the format predicate of c17.go.
func c17hReprJ2k(n int, a []int) (bool, string) {
	if a[0] >= 1 && a[1] >= 1 && a[0] <= math.MaxUint32 && a[1] <= math.MaxUint32 && a[2] >= 1 && a[2] <= 4 && a[3] >= 1 && a[3] <= 16 {
		if _, ok := c17hMulFits(a[0], a[1], a[2], c17Bps(a[3])); !ok {
			return false, "j2k-extent-product-overflow"
		}
	} else {
		return c17ReprJ2k(0, a) // one of the first clauses of c17ReprJ2k rejects it (no product is computed there)
	}
	if a[4] > math.MaxUint32 || a[5] > math.MaxUint32 {
		return false, "j2k-tile-size-over-32bit"
	}
	if nx, ny, ok := c17hTiles(a); ok && (nx > 65535 || ny > 65535 || nx*ny > 65535) {
		return false, "j2k-tile-count-over-65535"
	}
	return c17ReprJ2k(n, a)
}

// c17hJ2kOne: one 15-argument tuple (c17J2kLabels) through jpeg2000.Encoder, with its `val-j2k` line.
func c17hJ2kOne(c *hx.Ctx, fam string, n int, a []int) {
	buf := c17Buf(n, a[3])
	var out []byte
	var err error
	p, msg, to := c17Timed(func() { out, err = jpeg2000.NewEncoder(c17J2kParams(a)).Encode(buf) })
	in := map[string]any{"encoder": "j2k", "family": fam, "len": n, "args": a, "labels": c17J2kLabels}
	op := fmt.Sprintf("val-j2k %d %s", n, c17Args(a))
	real := "accept"
	if !p && !to && err != nil {
		real = "reject"
	}
	c.Case(op, real)
	rep, clause := c17hReprJ2k(n, a)
	c.Eval(op, true)
	c.Count("intc17:" + fam)
	if rep {
		c.Count("representable")
	} else {
		c.Count("unrepresentable:" + clause)
	}
	switch {
	case to:
		c17hFail(c, hx.Failure{Class: "j2k-hang", What: "encode did not return within 60 s", Input: in})
	case p:
		cl := "j2k-panic"
		if !rep {
			cl = clause
		}
		c.Count("outcome:panic")
		c17hFail(c, hx.Failure{Class: cl, What: "Encoder.Encode panicked", Input: in, Expected: "error", Actual: "panic " + c17Short(msg)})
	case err != nil:
		c.Count("outcome:err")
		if rep {
			c17hFail(c, hx.Failure{Class: "over-rejection-j2k", What: "a representable parameter set with a sufficient buffer is rejected", Input: in,
				Expected: "stream", Actual: "error: " + err.Error()})
		}
	default:
		c.Count("outcome:stream")
		g, derr, dp := c17hDecode(out, nil)
		ok := !dp && derr == nil && g.w == a[0] && g.h == a[1] && g.c == a[2] && g.bd == a[3]
		if !ok {
			cl := "j2k-misdeclared"
			if !rep {
				cl = clause
			}
			c17hFail(c, hx.Failure{Class: cl, What: "stream returned but it does not decode to the requested geometry", Input: in,
				Expected: fmt.Sprintf("error, or %dx%d c=%d bd=%d", a[0], a[1], a[2], a[3]), Actual: fmt.Sprintf("decoded %dx%d c=%d bd=%d err=%v panic=%v", g.w, g.h, g.c, g.bd, derr, dp)})
		} else if !rep {
			c17hFail(c, hx.Failure{Class: clause, What: "unrepresentable argument accepted without error (stream happens to decode to the requested geometry)",
				Input: in, Expected: "error", Actual: "stream"})
		}
	}
}

// c17hDecode: fresh decoder that knows only the stream (and the block decoder for HTJ2K).
func c17hDecode(stream []byte, prep func(*jpeg2000.Decoder)) (g c17Geom, derr error, panicked bool) {
	dp, _, dto := c17Timed(func() {
		d := jpeg2000.NewDecoder()
		if prep != nil {
			prep(d)
		}
		derr = d.Decode(stream)
		if derr == nil {
			g = c17Geom{d.Width(), d.Height(), d.Components(), d.BitDepth()}
		}
	})
	if dto {
		derr = fmt.Errorf("decode did not return within 60 s")
	}
	return g, derr, dp
}

func c17hBase(w, h, tw, th int) []int {
	return []int{w, h, 1, 8, tw, th, 0, 1, 64, 64, 0, 0, 80, 0, 1}
}

func c17hTileGrid(c *hx.Ctx) {
	need := func(a []int) int { return a[0] * a[1] * a[2] * c17Bps(a[3]) }
	// the hunter's witness: 256x257 with 1x1 tiles = 65792 tiles
	cases := [][]int{c17hBase(256, 257, 1, 1)}
	// tile extents around 2^32 (XTsiz/YTsiz): 2^40 and 2^32+8 are the hunter's
	for _, t := range []int{1 << 40, 1<<32 + 8, 1 << 32, 1<<32 - 1, 1 << 31, 1 << 62, math.MaxInt64} {
		cases = append(cases, c17hBase(16, 16, t, t), c17hBase(16, 16, t, 0), c17hBase(5, 3, 4, t))
	}
	// one long row / column of 1-sample tiles: 65535 is the last representable count
	cases = append(cases, c17hBase(65536, 1, 1, 1), c17hBase(1, 65537, 1, 1), c17hBase(40000, 2, 1, 1))
	r := c.R
	k := 2
	if c.Thorough() {
		k = 12
		cases = append(cases, c17hBase(256, 256, 1, 1), c17hBase(255, 257, 1, 1), c17hBase(65535, 1, 1, 1), c17hBase(600, 600, 2, 2))
	}
	for i := 0; i < k; i++ {
		// grids whose tile count lies around the limit: tiles of 1..3 samples, count in 62000..70000
		tw, th := r.Range(1, 3), r.Range(1, 3)
		nx := r.Range(200, 330)
		ny := r.Range(62000, 70000)/nx + 1
		w, h := nx*tw-r.Range(0, tw-1), ny*th-r.Range(0, th-1)
		a := c17hBase(w, h, tw, th)
		a[6] = r.Range(0, 1)
		cases = append(cases, a)
	}
	for _, a := range cases {
		c17hJ2kOne(c, "tile-grid", need(a), a)
	}
}

func c17hExtent(c *hx.Ctx) {
	big := []int{1<<32 - 1, 1 << 31, 1 << 30, 1<<30 + 1, 3037000500, 1 << 16, 65537, 1 << 20}
	mk := func(w, h, comps, bd int) []int {
		a := c17hBase(w, h, 0, 0)
		a[2], a[3] = comps, bd
		return a
	}
	// the hunter's three: negative wrap, expectedBytes = MinInt64, expectedBytes = 0
	cases := [][]int{mk(4294967295, 4294967295, 1, 8), mk(1<<30, 1<<30, 4, 16), mk(1<<31, 1<<30, 4, 16)}
	for _, w := range big {
		for _, h := range big {
			if w >= 1<<30 && h >= 1<<30 {
				cases = append(cases, mk(w, h, 1, 8), mk(w, h, 4, 16), mk(w, h, 3, 12))
			}
		}
	}
	k := 40
	if c.Thorough() {
		k = 600
	}
	for i := 0; i < k; i++ {
		cases = append(cases, mk(c.R.Pick(big), c.R.Pick(big), c.R.Range(1, 4), c.R.Pick([]int{1, 8, 9, 16})))
	}
	for _, a := range cases {
		// buffers far too short for any of these extents: an error is the only admissible outcome
		c17hJ2kOne(c, "extent", c.R.Pick([]int{0, 0, 1, 4096}), a)
	}
}

// c17hStreamEval: outcome of an Encode that is NOT expressed as a 15-tuple. mustReject: the argument is one the
// encoder cannot satisfy; mustAccept: it is plainly valid.
func c17hStreamEval(c *hx.Ctx, fam, class, key string, in map[string]any, mustReject, mustAccept bool, w, h, comps int,
	enc func() ([]byte, error), prep func(*jpeg2000.Decoder)) {
	var out []byte
	var err error
	p, msg, to := c17Timed(func() { out, err = enc() })
	c.Eval("intc17 "+fam+" "+key, true)
	c.Count("intc17:" + fam)
	in["family"] = fam
	switch {
	case to:
		c17hFail(c, hx.Failure{Class: class + "-hang", What: "encode did not return within 60 s", Input: in})
	case p:
		c.Count("outcome:panic")
		c17hFail(c, hx.Failure{Class: class, What: "Encode panicked", Input: in, Expected: "error", Actual: "panic " + c17Short(msg)})
	case err != nil:
		c.Count("outcome:err")
		if mustAccept {
			c17hFail(c, hx.Failure{Class: "over-rejection-" + fam, What: "a valid argument is rejected", Input: in, Expected: "stream", Actual: "error: " + err.Error()})
		}
	default:
		c.Count("outcome:stream")
		g, derr, dp := c17hDecode(out, prep)
		if dp || derr != nil || g.w != w || g.h != h || g.c != comps {
			c17hFail(c, hx.Failure{Class: class, What: "stream returned but it does not decode to the requested geometry", Input: in,
				Expected: fmt.Sprintf("error, or %dx%d c=%d", w, h, comps), Actual: fmt.Sprintf("decoded %dx%d c=%d err=%v panic=%v", g.w, g.h, g.c, derr, dp)})
		} else if mustReject {
			c17hFail(c, hx.Failure{Class: class, What: "argument the encoder cannot satisfy accepted without error", Input: in, Expected: "error", Actual: "stream"})
		}
	}
}

// c17hQCDEntries: number of step sizes the QCD marker segment of the main header declares (-1: none found)
func c17hQCDEntries(out []byte) int {
	for i := 2; i+4 <= len(out) && out[i] == 0xFF && out[i+1] != 0x90; {
		l := int(binary.BigEndian.Uint16(out[i+2:]))
		if out[i+1] == 0x5C && i+5 <= len(out) {
			switch out[i+4] & 0x1F {
			case 2:
				return (l - 3) / 2
			case 0:
				return l - 3
			}
			return 1
		}
		i += 2 + l
	}
	return -1
}

func c17hQuant(c *hx.Ctx) {
	one := func(w, h, levels, n int, lossless bool) {
		px := c17Buf(w*h, 8)
		p := jpeg2000.DefaultEncodeParams(w, h, 1, 8, false)
		p.Lossless, p.Quality, p.NumLevels = lossless, 80, levels
		p.CustomQuantSteps = make([]float64, n)
		for i := range p.CustomQuantSteps {
			p.CustomQuantSteps[i] = 1.5 - float64(i%3)/4
		}
		want := 3*levels + 1
		in := map[string]any{"encoder": "j2k", "W": w, "H": h, "NumLevels": levels, "Lossless": lossless, "len(CustomQuantSteps)": n, "documented": want}
		var qcd int
		c17hStreamEval(c, "custom-quant", "j2k-custom-quant-steps-length", fmt.Sprintf("%dx%d nl=%d n=%d ll=%v", w, h, levels, n, lossless), in,
			!lossless && n > 0 && n != want, n == 0 || n == want || lossless, w, h, 1,
			func() ([]byte, error) {
				out, err := jpeg2000.NewEncoder(p).Encode(px)
				if err == nil {
					qcd = c17hQCDEntries(out)
					in["qcd_step_sizes_declared"] = qcd
				}
				return out, err
			}, nil)
	}
	// the hunter's witness: 33x17, 2 levels (7 sub-bands), 1 step size
	one(33, 17, 2, 1, false)
	for levels := 0; levels <= 6; levels++ {
		want := 3*levels + 1
		for _, n := range []int{0, 1, want - 1, want, want + 1, 20} {
			if n < 0 {
				continue
			}
			one(c.R.Range(8, 40), c.R.Range(8, 40), levels, n, false)
		}
		one(16, 16, levels, want+2, true) // lossless: the steps are not used
	}
}

// c17hForeign is a codec.Parameters implementation the adapters do not know.
type c17hForeign map[string]interface{}

func (f c17hForeign) GetParameter(name string) interface{}        { return f[name] }
func (f c17hForeign) SetParameter(name string, value interface{}) { f[name] = value }

func c17hMCT(c *hx.Ctx) {
	const w, h = 8, 8
	r := c.R
	id := func(n int) [][]float64 {
		m := make([][]float64, n)
		for i := range m {
			m[i] = make([]float64, n)
			m[i][i] = 1
		}
		return m
	}
	matrix := func(rows int, cols []int) [][]float64 {
		m := make([][]float64, rows)
		for i := range m {
			m[i] = make([]float64, cols[i%len(cols)])
			if i < len(m[i]) {
				m[i][i] = 1
			}
		}
		return m
	}
	// applicable(ids, m): what applyMCTBinding can index — ids inside the image, and a matrix of the applied size has rows of that size
	wellFormed := func(comps int, b jpeg2000.MCTBindingParams) bool {
		n := len(b.ComponentIDs)
		if n == 0 {
			n = comps
		}
		seen := map[uint16]bool{}
		for _, x := range b.ComponentIDs {
			if int(x) >= comps || seen[x] {
				return false
			}
			seen[x] = true
		}
		sq := func(m [][]float64) bool {
			if len(m) != n {
				return false
			}
			for _, row := range m {
				if len(row) != n {
					return false
				}
			}
			return true
		}
		return n == comps && sq(b.Matrix) && sq(b.Inverse) && (len(b.Offsets) == 0 || len(b.Offsets) == n)
	}
	frame := func(comps int) []byte { return c17Buf(w*h*comps, 8) }
	direct := func(tag string, comps int, set func(p *jpeg2000.EncodeParams), valid bool) {
		px := frame(comps)
		in := map[string]any{"encoder": "j2k", "case": tag, "W": w, "H": h, "components": comps}
		c17hStreamEval(c, "mct-params", "j2k-mct-params-shape-panic", "direct "+tag, in, false, valid, w, h, comps, func() ([]byte, error) {
			p := jpeg2000.DefaultEncodeParams(w, h, comps, 8, false)
			p.NumLevels = 1
			set(p)
			in["MCTMatrix"], in["MCTBindings"] = fmt.Sprint(p.MCTMatrix), fmt.Sprintf("%+v", p.MCTBindings)
			return jpeg2000.NewEncoder(p).Encode(px)
		}, nil)
	}
	adapter := func(tag string, cd codec.Codec, prm codec.Parameters) {
		fi := imagetypes.FrameInfo{Width: w, Height: h, BitsAllocated: 8, BitsStored: 8, HighBit: 7, SamplesPerPixel: 3, PhotometricInterpretation: "RGB"}
		in := map[string]any{"codec": tag, "W": w, "H": h, "SamplesPerPixel": 3, "params": fmt.Sprintf("%+v", prm)}
		c17hStreamEval(c, "mct-params", "j2k-mct-params-shape-panic", "adapter "+tag, in, false, false, w, h, 3, func() ([]byte, error) {
			src := gdcodec.NewTestPixelData(&fi)
			_ = src.AddFrame(frame(3))
			dst := gdcodec.NewTestPixelData(&fi)
			if err := cd.Encode(src, dst, prm); err != nil {
				return nil, err
			}
			if dst.FrameCount() != 1 {
				return nil, nil
			}
			f, _ := dst.GetFrame(0)
			return f, nil
		}, nil)
	}
	// the hunter's seven
	badID := func() []jpeg2000.MCTBindingParams {
		return []jpeg2000.MCTBindingParams{{ComponentIDs: []uint16{0, 1, 3}, Matrix: id(3), Inverse: id(3)}}
	}
	longRow := func() []jpeg2000.MCTBindingParams {
		return []jpeg2000.MCTBindingParams{{ComponentIDs: []uint16{0, 1, 2}, Matrix: [][]float64{{1, 0, 0, 0}, {0, 1, 0}, {0, 0, 1}}, Inverse: id(3)}}
	}
	ragged := func() [][]float64 { return [][]float64{{1, 0, 0}, {0, 1}, {0, 0, 1}} }
	adapter("j2klossless typed mctBindings id 3 of 3", j2klossless.NewCodec(), j2klossless.NewLosslessParameters().WithMCTBindings(badID()))
	adapter("j2klossless-part2 typed mctBindings id 3 of 3", j2klossless.NewPart2MultiComponentLosslessCodec(), j2klossless.NewLosslessParameters().WithMCTBindings(badID()))
	{
		p := j2klossless.NewLosslessParameters()
		p.SetParameter("mctMatrix", ragged())
		adapter("j2klossless typed mctMatrix short row", j2klossless.NewCodec(), p)
	}
	adapter("j2klossless foreign mctMatrix 3x1", j2klossless.NewCodec(), c17hForeign{"mctMatrix": [][]float64{{1}, {1}, {1}}})
	adapter("j2klossless typed mctBindings row of 4", j2klossless.NewCodec(), j2klossless.NewLosslessParameters().WithMCTBindings(longRow()))
	adapter("j2klossy typed mctBindings id 3 of 3", j2klossy.NewCodec(), j2klossy.NewLossyParameters().WithMCTBindings(badID()))
	{
		p := j2klossy.NewLossyParameters()
		p.SetParameter("mctMatrix", ragged())
		adapter("j2klossy-part2 typed mctMatrix short row", j2klossy.NewPart2MultiComponentCodec(), p)
	}
	// the same through the encoder API, and well-formed controls
	direct("bindings id 3 of 3", 3, func(p *jpeg2000.EncodeParams) { p.MCTBindings = badID() }, false)
	direct("bindings row of 4", 3, func(p *jpeg2000.EncodeParams) { p.MCTBindings = longRow() }, false)
	direct("matrix short row", 3, func(p *jpeg2000.EncodeParams) { p.MCTMatrix, p.InverseMCTMatrix = ragged(), id(3) }, false)
	direct("matrix 3x1", 3, func(p *jpeg2000.EncodeParams) { p.MCTMatrix = [][]float64{{1}, {1}, {1}} }, false)
	direct("control identity matrix", 3, func(p *jpeg2000.EncodeParams) { p.MCTMatrix, p.InverseMCTMatrix = id(3), id(3) }, true)
	direct("control identity binding", 3, func(p *jpeg2000.EncodeParams) {
		p.MCTBindings = []jpeg2000.MCTBindingParams{{ComponentIDs: []uint16{0, 1, 2}, Matrix: id(3), Inverse: id(3)}}
	}, true)
	direct("control matrix of another size is not applied", 3, func(p *jpeg2000.EncodeParams) { p.MCTMatrix = id(2) }, true)
	// seeded: ids, matrix shapes, offsets around the component count
	k := 120
	if c.Thorough() {
		k = 1500
	}
	for i := 0; i < k; i++ {
		comps := r.Pick([]int{1, 2, 3, 3, 3, 4})
		nb := r.Pick([]int{0, 1, 1, 1, 2})
		var bs []jpeg2000.MCTBindingParams
		valid := true
		for j := 0; j < nb; j++ {
			var b jpeg2000.MCTBindingParams
			nid := r.Pick([]int{0, comps, comps, comps - 1, comps + 1})
			for x := 0; x < nid; x++ {
				v := x
				if r.Intn(6) == 0 {
					v = r.Range(0, comps+1)
				}
				b.ComponentIDs = append(b.ComponentIDs, uint16(v))
			}
			n := nid
			if n == 0 {
				n = comps
			}
			shape := func() [][]float64 {
				switch r.Intn(6) {
				case 0:
					return nil
				case 1:
					return matrix(n, []int{n, r.Range(0, n+1)})
				case 2:
					return matrix(r.Range(0, n+1), []int{n})
				case 3:
					return matrix(n, []int{r.Range(0, n+1)})
				}
				return id(n)
			}
			b.Matrix, b.Inverse = shape(), shape()
			if r.Intn(3) == 0 {
				b.Offsets = make([]int32, r.Pick([]int{n, n, n - 1, n + 1, 1}))
			}
			b.ElementType = uint8(r.Intn(2))
			valid = valid && wellFormed(comps, b)
			bs = append(bs, b)
		}
		var mm, inv [][]float64
		if nb == 0 {
			switch r.Intn(4) {
			case 0:
				mm, inv = id(comps), id(comps)
			case 1:
				mm, inv, valid = matrix(comps, []int{comps, r.Range(0, comps+1)}), id(comps), false
			case 2:
				mm, valid = matrix(r.Range(0, comps+1), []int{r.Range(0, comps+1)}), false
			}
		}
		reversible := r.Bool()
		et := uint8(r.Intn(2))
		direct(fmt.Sprintf("seeded %d", i), comps, func(p *jpeg2000.EncodeParams) {
			p.MCTBindings, p.MCTMatrix, p.InverseMCTMatrix = bs, mm, inv
			p.MCTReversible, p.MCTMatrixElementType = reversible, et
		}, false)
		if valid {
			c.Count("intc17:mct-params:well-formed")
		}
	}
}

func c17hZeroDepth(c *hx.Ctx) {
	r := c.R
	type fr struct{ w, h, spp, mul int }
	shapes := []fr{{4, 4, 1, 1}, {4, 4, 3, 1}} // the hunter's: 4x4, one byte per sample, BitsAllocated = BitsStored = 0
	for i := 0; i < 6; i++ {
		shapes = append(shapes, fr{r.Range(1, 17), r.Range(1, 9), r.Pick([]int{1, 3}), r.Pick([]int{1, 1, 2})})
	}
	for _, ad := range c17Adapters() {
		for _, s := range shapes {
			for _, hb := range []int{0, 7} {
				fi := imagetypes.FrameInfo{Width: uint16(s.w), Height: uint16(s.h), BitsAllocated: 0, BitsStored: 0, HighBit: uint16(hb),
					SamplesPerPixel: uint16(s.spp), PhotometricInterpretation: "MONOCHROME2"}
				if s.spp == 3 {
					fi.PhotometricInterpretation = "RGB"
				}
				frame := c17Buf(s.w*s.h*s.spp*s.mul, 8)
				src := gdcodec.NewTestPixelData(&fi)
				_ = src.AddFrame(frame)
				dst := gdcodec.NewTestPixelData(&fi)
				var err error
				p, msg, to := c17Timed(func() { err = ad.cdc.Encode(src, dst, nil) })
				key := fmt.Sprintf("intc17 zero-depth %s %dx%d spp=%d len=%d hb=%d", ad.name, s.w, s.h, s.spp, len(frame), hb)
				c.Eval(key, true)
				c.Count("intc17:zero-depth:" + ad.name)
				in := map[string]any{"codec": ad.name, "family": "adapter-zero-depth", "frameLen": len(frame),
					"fi": map[string]int{"W": s.w, "H": s.h, "BA": 0, "BS": 0, "HighBit": hb, "SPP": s.spp}}
				switch {
				case to:
					c17hFail(c, hx.Failure{Class: "codec-" + ad.name + "-hang", What: "Codec.Encode did not return within 60 s", Input: in})
				case p:
					c17hFail(c, hx.Failure{Class: "adapter-zero-bit-depth-accepted", What: "Codec.Encode panicked on a FrameInfo with BitsAllocated = BitsStored = 0", Input: in,
						Expected: "error", Actual: "panic " + c17Short(msg)})
				case err == nil:
					act := "nil"
					if dst.FrameCount() > 0 {
						f, _ := dst.GetFrame(0)
						act = fmt.Sprintf("nil, %d-byte frame emitted", len(f))
					}
					c17hFail(c, hx.Failure{Class: "adapter-zero-bit-depth-accepted", What: "FrameInfo declares 0-bit samples (no JPEG/JPEG-LS/JPEG 2000 process supports that) and Codec.Encode emits a frame",
						Input: in, Expected: "error", Actual: act})
				}
			}
		}
	}
}

// c17hHeaderWalk: every marker segment of the main header is delimited by its length field and the walk arrives
// at the first SOT; returns the number of TLM entries seen (Stlm = 0x60: 6 bytes each).
func c17hHeaderWalk(out []byte) (tlm int, err error) {
	if len(out) < 4 || out[0] != 0xFF || out[1] != 0x4F {
		return 0, fmt.Errorf("no SOC")
	}
	for i := 2; i+4 <= len(out); {
		if out[i] != 0xFF {
			return tlm, fmt.Errorf("byte %#02x at offset %d where a marker was expected", out[i], i)
		}
		if out[i+1] == 0x90 {
			return tlm, nil
		}
		l := int(binary.BigEndian.Uint16(out[i+2:]))
		if out[i+1] == 0x55 {
			if (l-4)%6 != 0 {
				return tlm, fmt.Errorf("Ltlm=%d is not 4+6k", l)
			}
			tlm += (l - 4) / 6
		}
		i += 2 + l
	}
	return tlm, fmt.Errorf("no SOT")
}

func c17hTLM(c *hx.Ctx) {
	one := func(w, h, tw, th, levels int) {
		px := c17Buf(w*h, 8)
		nx, ny := (w+tw-1)/tw, (h+th-1)/th
		parts := nx * ny * (levels + 1)
		in := map[string]any{"encoder": "j2k HTJ2KMode", "W": w, "H": h, "tileW": tw, "tileH": th, "NumLevels": levels, "tiles": nx * ny, "tileParts": parts}
		c17hStreamEval(c, "htj2k-tlm", "htj2k-tlm-length-overflow", fmt.Sprintf("%dx%d tile %dx%d nl=%d", w, h, tw, th, levels), in,
			false, nx*ny <= 65535, w, h, 1,
			func() ([]byte, error) {
				p := jpeg2000.DefaultEncodeParams(w, h, 1, 8, false)
				p.NumLevels, p.TileWidth, p.TileHeight, p.ProgressionOrder, p.HTJ2KMode = levels, tw, th, 2, true
				p.BlockEncoderFactory = func(bw, bh int) jpeg2000.BlockEncoder { return htj2k.NewHTEncoder(bw, bh) }
				out, err := jpeg2000.NewEncoder(p).Encode(px)
				if err == nil {
					n, werr := c17hHeaderWalk(out)
					in["tlm_entries"] = n
					if werr != nil {
						in["main_header_walk"] = werr.Error()
					} else if n != 0 && n != parts {
						in["main_header_walk"] = fmt.Sprintf("TLM lists %d tile-parts, the stream has %d", n, parts)
					}
				}
				return out, err
			}, func(d *jpeg2000.Decoder) {
				d.SetBlockDecoderFactory(func(bw, bh int, _ int) t2.BlockDecoder { return htj2k.NewHTDecoder(bw, bh) })
			})
		if msg, bad := in["main_header_walk"]; bad {
			c17hFail(c, hx.Failure{Class: "htj2k-tlm-length-overflow", What: "main header of the returned stream is not well-formed: " + fmt.Sprint(msg), Input: in,
				Expected: "error, or marker segments delimited by their length fields and TLM listing every tile-part"})
		}
	}
	// the hunter's witness: 105x105, 1x1 tiles, 0 levels = 11025 tile-parts (Ltlm 66154 -> 618); 64x64 with 2 levels
	one(105, 105, 1, 1, 0)
	k := 1
	if c.Thorough() {
		k = 20
		one(64, 64, 1, 1, 2)
		one(104, 105, 1, 1, 0) // 10920 entries: the largest single segment that was right
		one(148, 148, 1, 1, 0) // 21904: needs three segments
	}
	for i := 0; i < k; i++ {
		levels := c.R.Range(0, 2)
		tw, th := c.R.Range(1, 2), c.R.Range(1, 2)
		target := c.R.Range(10000, 13000) / (levels + 1) // tile-parts around 10921
		nx := c.R.Range(60, 110)
		ny := target/nx + 1
		one(nx*tw, ny*th, tw, th, levels)
	}
}

func c17hROI(c *hx.Ctx) {
	r := c.R
	one := func(tag string, w, h, comps int, lossless bool, cfg func() *jpeg2000.ROIConfig) {
		px := c17Buf(w*h*comps, 8)
		in := map[string]any{"encoder": "j2k", "W": w, "H": h, "components": comps, "Lossless": lossless, "ROIConfig": tag}
		c17hStreamEval(c, "roiconfig", "j2k-roiconfig-stream-undecodable", fmt.Sprintf("%s %dx%dx%d ll=%v", tag, w, h, comps, lossless), in,
			false, false, w, h, comps, func() ([]byte, error) {
				p := jpeg2000.DefaultEncodeParams(w, h, comps, 8, false)
				p.NumLevels, p.Lossless = 2, lossless
				p.ROIConfig = cfg()
				return jpeg2000.NewEncoder(p).Encode(px)
			}, nil)
	}
	rect := func(x, y, w, h, s int) *jpeg2000.ROIParams {
		return &jpeg2000.ROIParams{X0: x, Y0: y, Width: w, Height: h, Shift: s}
	}
	// the hunter's three (33x17, one 5x5 rectangle at (1,1), shift 3 given in the three possible places)
	one("rect-own-shift", 33, 17, 1, true, func() *jpeg2000.ROIConfig {
		return &jpeg2000.ROIConfig{ROIs: []jpeg2000.ROIRegion{{Rect: rect(1, 1, 5, 5, 3)}}}
	})
	one("region-shift", 33, 17, 1, true, func() *jpeg2000.ROIConfig {
		return &jpeg2000.ROIConfig{ROIs: []jpeg2000.ROIRegion{{Rect: rect(1, 1, 5, 5, 0), Shift: 3}}}
	})
	one("default-shift", 33, 17, 1, true, func() *jpeg2000.ROIConfig {
		return &jpeg2000.ROIConfig{DefaultShift: 3, ROIs: []jpeg2000.ROIRegion{{Rect: rect(1, 1, 5, 5, 0)}}}
	})
	k := 30
	if c.Thorough() {
		k = 300
	}
	for i := 0; i < k; i++ {
		w, h := r.Range(8, 48), r.Range(8, 48)
		comps := r.Pick([]int{1, 3})
		nreg := r.Range(1, 3)
		style := jpeg2000.ROIStyle(r.Pick([]int{0, 0, int(jpeg2000.ROIStyleGeneralScaling)}))
		var regs []jpeg2000.ROIRegion
		for j := 0; j < nreg; j++ {
			x, y := r.Range(0, w-2), r.Range(0, h-2)
			rw, rh := r.Range(1, w-x), r.Range(1, h-y)
			reg := jpeg2000.ROIRegion{Rect: rect(x, y, rw, rh, 0)}
			switch r.Intn(3) {
			case 0:
				reg.Rect.Shift = r.Range(1, 8)
			case 1:
				reg.Shift = r.Range(1, 8)
			}
			if comps == 3 && r.Intn(2) == 0 {
				reg.Components = [][]int{{0}, {1, 2}, {2}, {0, 2}}[r.Intn(4)]
			}
			regs = append(regs, reg)
		}
		def := r.Range(1, 6)
		tag := fmt.Sprintf("seeded-%d regions=%+v default=%d style=%d", i, c17hRegions(regs), def, style)
		one(tag, w, h, comps, r.Bool(), func() *jpeg2000.ROIConfig {
			cp := make([]jpeg2000.ROIRegion, len(regs))
			for j := range regs {
				cp[j] = regs[j]
				rc := *regs[j].Rect
				cp[j].Rect = &rc
			}
			return &jpeg2000.ROIConfig{ROIs: cp, DefaultShift: def, DefaultStyle: style}
		})
	}
}

func c17hRegions(regs []jpeg2000.ROIRegion) string {
	s := ""
	for _, g := range regs {
		s += fmt.Sprintf("[rect=%+v shift=%d comps=%v]", *g.Rect, g.Shift, g.Components)
	}
	return s
}
