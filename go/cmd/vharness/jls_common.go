package main

// Shared by the JPEG-LS property harnesses C03 / C07 / C14 (identifiers prefixed jls).
//   - image generators over the properties' content classes
//   - guarded calls of the four public entry points
//   - correspondence lines `jls-<kernel> args` : real Go function vs GENERATED Lean definition

import (
	"fmt"
	"strings"

	"github.com/cocosip/go-dicom-codecs/jpegls/lossless"
	"github.com/cocosip/go-dicom-codecs/jpegls/nearlossless"
	"github.com/cocosip/go-dicom-codecs/jpegls/runmode"

	"verifharness/internal/hx"
)

type jlsImage struct {
	W, H, C, P int
	S          []int // samples, pixel-interleaved (as the codec's byte layout)
	Kind       string
}

func (im jlsImage) maxVal() int { return (1 << uint(im.P)) - 1 }

func (im jlsImage) pack() []byte {
	if im.P <= 8 {
		b := make([]byte, len(im.S))
		for i, v := range im.S {
			b[i] = byte(v)
		}
		return b
	}
	b := make([]byte, 2*len(im.S))
	for i, v := range im.S {
		b[2*i] = byte(v)
		b[2*i+1] = byte(v >> 8)
	}
	return b
}

func jlsUnpack(b []byte, p int) []int {
	if p <= 8 {
		s := make([]int, len(b))
		for i, v := range b {
			s[i] = int(v)
		}
		return s
	}
	s := make([]int, len(b)/2)
	for i := range s {
		s[i] = int(b[2*i]) | int(b[2*i+1])<<8
	}
	return s
}

func (im jlsImage) key() string {
	return fmt.Sprintf("%dx%dx%d p%d %s %v", im.W, im.H, im.C, im.P, im.Kind, im.S)
}

func (im jlsImage) input() map[string]any {
	return map[string]any{"width": im.W, "height": im.H, "components": im.C, "precision": im.P, "kind": im.Kind,
		"samples": jlsInts(im.S, 4096)}
}

func jlsInts(s []int, lim int) string {
	if len(s) > lim {
		s = s[:lim]
	}
	var b strings.Builder
	for i, v := range s {
		if i > 0 {
			b.WriteByte(',')
		}
		fmt.Fprintf(&b, "%d", v)
	}
	return b.String()
}

var jlsKinds = []string{"noise", "twolevel", "runs", "runs-eol", "gradient", "near-edges", "ramp", "smooth", "constant", "run-jump", "ramp-diag", "two-level-short"}

// run lengths of the "run-jump" family: every length 1..80 and the neighbourhoods of 128, 256, 512, 1024
var jlsRunLens = func() []int {
	l := []int{}
	for i := 1; i <= 80; i++ {
		l = append(l, i)
	}
	for _, c := range []int{128, 256, 512, 1024} {
		l = append(l, c-1, c, c+1)
	}
	return l
}()

// jlsJump returns the value of a run-interrupting sample for base level b: class 0 small (just
// outside NEAR), 1 mid-range (large enough for the LIMIT escape, no wrap), 2 full range.
func jlsJump(r *hx.Rand, class, b, mv, near int) int {
	var v int
	switch class {
	case 0:
		v = b + (near+1+r.Intn(3))*(1-2*r.Intn(2))
	case 1:
		d := mv/4 + r.Intn(mv/4+1)
		if b+d <= mv {
			v = b + d
		} else {
			v = b - d
		}
	default:
		if b <= mv/2 {
			v = mv - r.Intn(near+1)
		} else {
			v = r.Intn(near + 1)
		}
	}
	if v < 0 {
		v = 0
	}
	if v > mv {
		v = mv
	}
	if v >= b-near && v <= b+near { // must not extend the run
		if b+near+1 <= mv {
			v = b + near + 1
		} else {
			v = b - near - 1
		}
	}
	return v
}

// jlsGen makes one image of the named content class. near only shapes the content (ramp step,
// edge distance); it is not a coding parameter here.
func jlsGen(r *hx.Rand, kind string, w, h, comps, p, near int) jlsImage {
	mv := (1 << uint(p)) - 1
	n := w * h * comps
	s := make([]int, n)
	at := func(x, y, c int) int { return (y*w+x)*comps + c }
	switch kind {
	case "noise":
		for i := range s {
			s[i] = r.Intn(mv + 1)
		}
	case "twolevel":
		for i := range s {
			if r.Bool() {
				s[i] = mv
			}
		}
	case "constant":
		v := r.Intn(mv + 1)
		for i := range s {
			s[i] = v
		}
	case "runs": // long runs with rare interruptions (an interruption can be a full-range jump)
		cur := make([]int, comps)
		for c := range cur {
			cur[c] = r.Intn(mv + 1)
		}
		for y := 0; y < h; y++ {
			for x := 0; x < w; x++ {
				if r.Intn(17) == 0 {
					for c := range cur {
						switch r.Intn(3) {
						case 0:
							cur[c] = r.Intn(mv + 1)
						case 1:
							cur[c] = mv - cur[c]
						default:
							cur[c] = (cur[c] + 1 + r.Intn(3)) % (mv + 1)
						}
					}
				}
				for c := 0; c < comps; c++ {
					s[at(x, y, c)] = cur[c]
				}
			}
		}
	case "runs-eol": // every line: a few free samples, then a run that ends exactly at the line end
		for y := 0; y < h; y++ {
			k := r.Intn(w)
			v := make([]int, comps)
			for c := range v {
				v[c] = r.Intn(mv + 1)
			}
			for x := 0; x < w; x++ {
				for c := 0; c < comps; c++ {
					if x < k {
						s[at(x, y, c)] = r.Intn(mv + 1)
					} else {
						s[at(x, y, c)] = v[c]
					}
				}
			}
		}
	case "gradient":
		dx, dy := r.Range(-3, 3), r.Range(-3, 3)
		b := r.Intn(mv + 1)
		for y := 0; y < h; y++ {
			for x := 0; x < w; x++ {
				for c := 0; c < comps; c++ {
					v := (b + dx*x + dy*y + c) % (mv + 1)
					if v < 0 {
						v += mv + 1
					}
					s[at(x, y, c)] = v
				}
			}
		}
	case "near-edges": // samples within NEAR of 0 and MAXVAL (reconstruction clamp)
		d := near + 1
		for i := range s {
			if r.Bool() {
				s[i] = r.Intn(min(d, mv) + 1)
			} else {
				s[i] = mv - r.Intn(min(d, mv)+1)
			}
		}
	case "ramp": // step 2*NEAR+1 (run / regular boundary)
		st := 2*near + 1
		for y := 0; y < h; y++ {
			for x := 0; x < w; x++ {
				for c := 0; c < comps; c++ {
					s[at(x, y, c)] = (x*st + y + r.Intn(2)*near) % (mv + 1)
				}
			}
		}
	case "run-jump":
		// Runs of every length (jlsRunLens, cycled) starting at the line start and mid-line, each ended
		// by a jump of a small / mid-range (escape-taking) / full-range class. Row 0 runs over the
		// level 0 (neighbours above are 0); later pattern rows sit under two flat rows of their base
		// level so that run mode is entered, with spikes in the row above some jump columns so that
		// both run-interruption contexts (|Ra-Rb| <= NEAR and > NEAR) occur. RUNindex persists over
		// lines, so long images walk the whole J table up (full runs) and down (interruptions).
		li := r.Intn(len(jlsRunLens))
		y := 0
		for y < h {
			base := make([]int, comps)
			if y > 0 {
				for c := range base {
					base[c] = r.Intn(mv + 1)
				}
				if y+2 >= h { // not enough rows for flat,flat,pattern: fill flat
					for ; y < h; y++ {
						for x := 0; x < w; x++ {
							for c := 0; c < comps; c++ {
								s[at(x, y, c)] = base[c]
							}
						}
					}
					break
				}
				for k := 0; k < 2; k++ {
					for x := 0; x < w; x++ {
						for c := 0; c < comps; c++ {
							s[at(x, y, c)] = base[c]
						}
					}
					y++
				}
			}
			x := 0
			if r.Intn(3) == 0 { // run starts mid-line: a few non-flat samples first
				for k := r.Range(1, 3); k > 0 && x < w; k-- {
					for c := 0; c < comps; c++ {
						s[at(x, y, c)] = r.Intn(mv + 1)
					}
					x++
				}
			}
			for x < w {
				l := jlsRunLens[li%len(jlsRunLens)]
				li++
				for ; l > 0 && x < w; l-- {
					for c := 0; c < comps; c++ {
						s[at(x, y, c)] = base[c]
					}
					x++
				}
				if x < w {
					class := r.Pick([]int{0, 1, 1, 1, 2})
					for c := 0; c < comps; c++ {
						s[at(x, y, c)] = jlsJump(r, class, base[c], mv, near)
					}
					if y > 0 && r.Bool() { // spike above the interruption: RItype 0 for one component
						for c := 0; c < comps; c++ {
							s[at(x, y-1, c)] = jlsJump(r, r.Intn(3), base[c], mv, near)
						}
					}
					x++
				}
			}
			y++
		}
	case "flat-jump": // a long flat area (RUNindex climbs), then one non-run sample in the last row, then noise
		b := make([]int, comps)
		for c := range b {
			b[c] = r.Pick([]int{0, 0, mv, r.Intn(mv + 1)})
		}
		for i := range s {
			s[i] = b[i%comps]
		}
		if w > 1 {
			x := r.Range(1, w-1)
			cls := r.Pick([]int{0, 1, 1, 2})
			for c := 0; c < comps; c++ {
				s[at(x, h-1, c)] = jlsJump(r, cls, b[c], mv, near)
			}
			for xx := x + 1; xx < w; xx++ {
				for c := 0; c < comps; c++ {
					s[at(xx, h-1, c)] = r.Intn(mv + 1)
				}
			}
		}
	case "ramp-diag": // diagonal ramp with a constant step: one regular-mode context under a constant bias (C saturates)
		st := r.Pick([]int{300, 300, 129, 200, 517, -300})
		if mv < 1024 {
			st = r.Pick([]int{3, 5, -4})
		}
		for y := 0; y < h; y++ {
			for x := 0; x < w; x++ {
				for c := 0; c < comps; c++ {
					v := (st*(x+y) + 7*c) % (mv + 1)
					if v < 0 {
						v += mv + 1
					}
					s[at(x, y, c)] = v
				}
			}
		}
	case "two-level-short": // two levels a small step apart, flat segments of 2..6 samples: many run interruptions with k = 0
		lo := r.Intn(max(1, mv-2*near-2))
		d := r.Pick([]int{2*near + 1, 2*near + 1, 2*near + 2, near + 1})
		if lo+d > mv {
			lo = mv - d
		}
		if lo < 0 {
			lo, d = 0, mv
		}
		for y := 0; y < h; y++ {
			x := 0
			lvl := r.Intn(2)
			for x < w {
				for k := r.Range(2, 6); k > 0 && x < w; k-- {
					for c := 0; c < comps; c++ {
						s[at(x, y, c)] = lo + lvl*d
					}
					x++
				}
				lvl = 1 - lvl
			}
		}
	case "smooth": // random walk with small steps: exercises N=64 resets and bias saturation
		for c := 0; c < comps; c++ {
			v := r.Intn(mv + 1)
			for y := 0; y < h; y++ {
				for x := 0; x < w; x++ {
					v += r.Range(-2, 3) // positive drift -> C saturates
					if v < 0 {
						v = 0
					}
					if v > mv {
						v = mv
					}
					s[at(x, y, c)] = v
				}
			}
		}
	}
	return jlsImage{W: w, H: h, C: comps, P: p, S: s, Kind: kind}
}

// guarded entry points: outcome "ok" | "err" | "panic <msg>"
func jlsEncLossless(im jlsImage) (out []byte, oc string) {
	var err error
	p, msg := hx.Guard(func() { out, err = lossless.Encode(im.pack(), im.W, im.H, im.C, im.P) })
	if p {
		return nil, "panic " + msg
	}
	if err != nil {
		return nil, "err"
	}
	return out, "ok"
}

func jlsEncNear(im jlsImage, near int) (out []byte, oc string) {
	var err error
	p, msg := hx.Guard(func() { out, err = nearlossless.Encode(im.pack(), im.W, im.H, im.C, im.P, near) })
	if p {
		return nil, "panic " + msg
	}
	if err != nil {
		return nil, "err"
	}
	return out, "ok"
}

type jlsDecoded struct {
	S             []int
	W, H, C, P, N int
}

func jlsDecLossless(stream []byte) (d jlsDecoded, oc string) {
	var err error
	var px []byte
	p, msg := hx.Guard(func() { px, d.W, d.H, d.C, d.P, err = lossless.Decode(stream) })
	if p {
		return d, "panic " + msg
	}
	if err != nil {
		return d, "err"
	}
	d.S = jlsUnpack(px, d.P)
	return d, "ok"
}

func jlsDecNear(stream []byte) (d jlsDecoded, oc string) {
	var err error
	var px []byte
	p, msg := hx.Guard(func() { px, d.W, d.H, d.C, d.P, d.N, err = nearlossless.Decode(stream) })
	if p {
		return d, "panic " + msg
	}
	if err != nil {
		return d, "err"
	}
	d.S = jlsUnpack(px, d.P)
	return d, "ok"
}

func jlsSameGeom(im jlsImage, d jlsDecoded) bool {
	return d.W == im.W && d.H == im.H && d.C == im.C && d.P == im.P && len(d.S) == len(im.S)
}

func jlsMaxAbsDiff(a, b []int) int {
	m := 0
	for i := range a {
		d := a[i] - b[i]
		if d < 0 {
			d = -d
		}
		if d > m {
			m = d
		}
	}
	return m
}

func jlsEq(a, b []int) bool {
	if len(a) != len(b) {
		return false
	}
	for i := range a {
		if a[i] != b[i] {
			return false
		}
	}
	return true
}

func jlsOc(oc string) string {
	if strings.HasPrefix(oc, "panic") {
		return "panic"
	}
	return oc
}

// ---------------------------------------------------------------- kernel correspondence

func jlsOK(vs ...int) string {
	var b strings.Builder
	b.WriteString("ok")
	for _, v := range vs {
		fmt.Fprintf(&b, " %d", v)
	}
	return b.String()
}
func jlsB(b bool) int {
	if b {
		return 1
	}
	return 0
}

// jlsKernelCase records one correspondence line; the real function runs under Guard.
func jlsKernelCase(c *hx.Ctx, op string, args []int, f func() string) {
	var b strings.Builder
	b.WriteString(op)
	for _, a := range args {
		fmt.Fprintf(&b, " %d", a)
	}
	var out string
	jlsLastArgs = args
	p, _ := hx.Guard(func() { out = f() })
	if p {
		out = "panic"
	}
	c.Case(b.String(), out)
	c.Count("kernel:" + op)
}

// jlsPN draws (P, NEAR) with NEAR admissible; boundary NEARs are favoured.
func jlsPN(r *hx.Rand) (p, near int) {
	p = r.Range(2, 16)
	mv := (1 << uint(p)) - 1
	mx := min(255, mv/2)
	switch r.Intn(6) {
	case 0:
		near = 0
	case 1:
		near = mx
	case 2:
		near = min(mx, r.Range(1, 3))
	default:
		near = r.Intn(mx + 1)
	}
	return
}

func jlsVal(r *hx.Rand, span int) int {
	switch r.Intn(8) {
	case 0:
		return 0
	case 1:
		return span
	case 2:
		return -span
	case 3:
		return r.Range(-3, 3)
	default:
		return r.Range(-span, span)
	}
}

// jlsKernels emits n rounds of correspondence lines, one line per generated kernel per round.
func jlsKernels(c *hx.Ctx, n int) {
	r := c.R
	// exhaustive small part: every (P, NEAR) parameter object
	for p := 2; p <= 16; p++ {
		mv := (1 << uint(p)) - 1
		for near := 0; near <= min(255, mv/2); near++ {
			if p > 8 && near > 3 && near != min(255, mv/2) && near%37 != 0 {
				continue
			}
			jlsKernelCase(c, "jls-traits", []int{mv, near, 64}, func() string {
				t := lossless.NewTraits(mv, near, 64)
				return jlsOK(t.MaxVal, t.Near, t.Range, t.Qbpp, t.Limit, t.Reset, t.T1, t.T2, t.T3)
			})
			jlsKernelCase(c, "jls-thresholds", []int{mv, near}, func() string {
				a, b, d := lossless.VerifComputeThresholds(mv, near)
				return jlsOK(a, b, d)
			})
		}
	}
	for i := 0; i <= 70000; i += 1 + i/9 {
		jlsKernelCase(c, "jls-bitsLen", []int{i}, func() string { return jlsOK(lossless.VerifBitsLen(i)) })
	}
	for _, v := range []int{-5, -1, 65535, 65536, 65537, 1 << 20} {
		jlsKernelCase(c, "jls-bitsLen", []int{v}, func() string { return jlsOK(lossless.VerifBitsLen(v)) })
	}
	for i := -2; i <= 33; i++ {
		jlsKernelCase(c, "jls-run-inc", []int{i}, func() string { return jlsOK(runmode.IncrementRunIndex(i)) })
		jlsKernelCase(c, "jls-run-dec", []int{i}, func() string { return jlsOK(runmode.DecrementRunIndex(i)) })
		jlsKernelCase(c, "jls-J", []int{i}, func() string { return jlsOK(runmode.J[i]) })
	}
	for round := 0; round < n; round++ {
		p, near := jlsPN(r)
		mv := (1 << uint(p)) - 1
		t := lossless.NewTraits(mv, near, 64)
		span := 2 * (mv + 1)
		e := jlsVal(r, span)
		v := jlsVal(r, 2*span)
		px := r.Intn(mv + 1)
		jlsKernelCase(c, "jls-params", []int{mv, near, r.Pick([]int{0, 64, 3, 1})}, jlsWithArgs(func(a []int) string {
			q := lossless.ComputeCodingParameters(a[0], a[1], a[2])
			return jlsOK(q.MaxVal, q.Near, q.Range, q.Qbpp, q.Limit, q.T1, q.T2, q.T3, q.Reset)
		}))
		jlsKernelCase(c, "jls-clamp", []int{e, v, px}, func() string { return jlsOK(lossless.VerifClamp(e, v, px)) })
		jlsKernelCase(c, "jls-t-quantize", []int{mv, near, e}, func() string { return jlsOK(lossless.VerifTraitsQuantize(t, e)) })
		jlsKernelCase(c, "jls-t-dequantize", []int{mv, near, e}, func() string { return jlsOK(lossless.VerifTraitsDequantize(t, e)) })
		jlsKernelCase(c, "jls-t-modrange", []int{mv, near, e}, func() string { return jlsOK(t.ModuloRange(e)) })
		jlsKernelCase(c, "jls-t-cev", []int{mv, near, e}, func() string { return jlsOK(t.ComputeErrorValue(e)) })
		jlsKernelCase(c, "jls-t-fix", []int{mv, near, v}, func() string { return jlsOK(lossless.VerifTraitsFixReconstructedValue(t, v)) })
		jlsKernelCase(c, "jls-t-crs", []int{mv, near, px, e}, func() string { return jlsOK(t.ComputeReconstructedSample(px, e)) })
		jlsKernelCase(c, "jls-t-corrpred", []int{mv, near, v}, func() string { return jlsOK(lossless.VerifTraitsCorrectPredictionLower(t, v)) })
		jlsKernelCase(c, "jls-t-CorrPred", []int{mv, near, v}, func() string { return jlsOK(t.CorrectPrediction(v)) })
		jlsKernelCase(c, "jls-t-map", []int{mv, near, e}, func() string { return jlsOK(t.MapErrorValue(e)) })
		jlsKernelCase(c, "jls-t-unmap", []int{mv, near, e}, func() string { return jlsOK(t.UnmapErrorValue(e)) })
		jlsKernelCase(c, "jls-t-qgrad", []int{mv, near, e}, func() string { return jlsOK(t.QuantizeGradient(e)) })
		jlsKernelCase(c, "jls-t-isnear", []int{mv, near, px, px + jlsVal(r, near+2)}, jlsWithArgs(func(a []int) string {
			return jlsOK(jlsB(t.IsNear(a[2], a[3])))
		}))
		// regular-mode context
		cx := lossless.Context{A: r.Pick([]int{2, 4, 1000, 16777215, 16777000, r.Intn(1 << 20)}), N: r.Pick([]int{1, 2, 63, 64, r.Range(1, 64)}),
			B: r.Pick([]int{0, -1, -63, 5, -16777215, 16777215, r.Range(-64, 10)}), C: r.Pick([]int{0, 127, -128, 126, -127, r.Range(-128, 127)})}
		reset := r.Pick([]int{64, 64, 64, 32, 3})
		ev := jlsVal(r, (mv+1)/2)
		jlsKernelCase(c, "jls-ctx-update", []int{cx.A, cx.N, cx.B, cx.C, ev, near, reset}, func() string {
			k := cx
			k.UpdateContext(ev, near, reset)
			return jlsOK(k.A, k.N, k.B, k.C)
		})
		kk := r.Pick([]int{0, 0, 1, 5})
		jlsKernelCase(c, "jls-ctx-errcorr", []int{cx.A, cx.N, cx.B, cx.C, kk, r.Pick([]int{0, 0, near})}, jlsWithArgs(func(a []int) string {
			k := cx
			return jlsOK(k.GetErrorCorrection(a[4], a[5]))
		}))
		jlsKernelCase(c, "jls-map", []int{e}, func() string { return jlsOK(lossless.MapErrorValue(e)) })
		m := r.Intn(4 * (mv + 1))
		jlsKernelCase(c, "jls-unmap", []int{m}, func() string { return jlsOK(lossless.UnmapErrorValue(m)) })
		a, b, d, dd := r.Intn(mv+1), r.Intn(mv+1), r.Intn(mv+1), r.Intn(mv+1)
		if r.Intn(3) == 0 {
			b = a + r.Range(-1, 1)
			d = b + r.Range(-1, 1)
			dd = d
		}
		jlsKernelCase(c, "jls-predict", []int{a, b, d}, func() string { return jlsOK(lossless.Predict(a, b, d)) })
		g := r.Range(-30, 30)
		jlsKernelCase(c, "jls-qgrad0", []int{g}, func() string { return jlsOK(lossless.VerifQuantizeGradient(g)) })
		gq := lossless.NewGradientQuantizer(t.T1, t.T2, t.T3, near)
		gd := r.Pick([]int{-t.T3, -t.T2, -t.T1, -near - 1, -near, near, near + 1, t.T1 - 1, t.T1, t.T2, t.T3, t.T3 - 1, jlsVal(r, mv)})
		jlsKernelCase(c, "jls-gq", []int{t.T1, t.T2, t.T3, near, gd}, func() string { return jlsOK(lossless.VerifGQQuantizeGradient(gq, gd)) })
		jlsKernelCase(c, "jls-gqctx", []int{t.T1, t.T2, t.T3, near, a, b, d, dd}, func() string {
			x, y, z := gq.ComputeContext(a, b, d, dd)
			return jlsOK(x, y, z)
		})
		jlsKernelCase(c, "jls-ctx0", []int{a, b, d, dd}, func() string {
			x, y, z := lossless.ComputeContext(a, b, d, dd)
			return jlsOK(x, y, z)
		})
		q1, q2, q3 := r.Range(-4, 4), r.Range(-4, 4), r.Range(-4, 4)
		jlsKernelCase(c, "jls-ctxid", []int{q1, q2, q3}, func() string { return jlsOK(lossless.ComputeContextID(q1, q2, q3)) })
		id := lossless.ComputeContextID(q1, q2, q3)
		jlsKernelCase(c, "jls-bsign", []int{id}, func() string { return jlsOK(lossless.BitwiseSign(id)) })
		sg := r.Pick([]int{0, -1})
		jlsKernelCase(c, "jls-asign", []int{e, sg}, func() string { return jlsOK(lossless.ApplySign(e, sg)) })
		jlsKernelCase(c, "jls-signint", []int{g}, func() string { return jlsOK(lossless.VerifSignInt(g)) })
		// run-mode context
		rit := r.Intn(2)
		rc := []int{rit, r.Pick([]int{2, 4, 70000, r.Intn(5000)}), r.Pick([]int{1, 63, 64, r.Range(1, 64)}), 0}
		rc[3] = r.Intn(rc[2] + 1)
		em := r.Intn(2*(mv+1) + 1)
		jlsKernelCase(c, "jls-rm-update", append(append([]int{}, rc...), ev, em, reset), func() string {
			x := lossless.VerifRunModeContext(rc[0], rc[1], rc[2], rc[3])
			x.UpdateVariables(ev, em, reset)
			return jlsOK(lossless.VerifRunModeContextType(x), x.A, x.N, x.NN)
		})
		jlsKernelCase(c, "jls-rm-map", append(append([]int{}, rc...), ev, kk), func() string {
			x := lossless.VerifRunModeContext(rc[0], rc[1], rc[2], rc[3])
			return jlsOK(jlsB(x.ComputeMap(ev, kk)))
		})
		jlsKernelCase(c, "jls-rm-cev", append(append([]int{}, rc...), em, kk), func() string {
			x := lossless.VerifRunModeContext(rc[0], rc[1], rc[2], rc[3])
			return jlsOK(x.ComputeErrorValue(em, kk))
		})
		dl := jlsVal(r, mv)
		jlsKernelCase(c, "jls-enc-cev", []int{p, dl}, func() string { return jlsOK(lossless.VerifEncoderComputeErrorValue(p, dl)) })
		jlsKernelCase(c, "jls-dec-cev", []int{p, dl}, func() string { return jlsOK(lossless.VerifDecoderComputeErrorValue(p, dl)) })
		jlsKernelCase(c, "jls-newctx", []int{t.Range}, func() string {
			x := lossless.NewContext(t.Range)
			return jlsOK(x.A, x.N, x.B, x.C)
		})
		jlsKernelCase(c, "jls-newrmctx", []int{rit, t.Range}, func() string {
			x := lossless.NewRunModeContext(rit, t.Range)
			return jlsOK(lossless.VerifRunModeContextType(x), x.A, x.N, x.NN)
		})
		bias := r.Range(-128, 127)
		jlsKernelCase(c, "jls-corrpred", []int{px, bias, mv + 1}, func() string { return jlsOK(lossless.CorrectPrediction(px, bias, mv+1)) })
		jlsKernelCase(c, "jls-run-abs", []int{e}, func() string { return jlsOK(runmode.Abs(e)) })
		jlsKernelCase(c, "jls-run-sign", []int{g}, func() string { return jlsOK(runmode.Sign(g)) })
		// validation prefixes: the accept/reject decision of Encode on the argument tuple
		w, h, cc, pp, nn := r.Pick([]int{0, -1, 1, 2, 3}), r.Pick([]int{0, 1, 3, -7}), r.Pick([]int{0, 1, 2, 3, 4}), r.Pick([]int{0, 1, 2, 8, 16, 17, p}), r.Pick([]int{-1, 0, 1, 255, 256, near})
		if r.Intn(2) == 0 {
			w, h, cc = r.Range(1, 3), r.Range(1, 3), r.Pick([]int{1, 3})
		}
		ln := 0
		if w > 0 && h > 0 && cc > 0 && pp >= 2 && pp <= 16 {
			ln = w * h * cc * ((pp + 7) / 8)
		}
		jlsKernelCase(c, "jls-accepts", []int{ln, w, h, cc, pp}, func() string {
			_, err := lossless.Encode(make([]byte, ln), w, h, cc, pp)
			return jlsOK(jlsB(err == nil))
		})
		jlsKernelCase(c, "jls-near-accepts", []int{ln, w, h, cc, pp, nn}, func() string {
			_, err := nearlossless.Encode(make([]byte, ln), w, h, cc, pp, nn)
			return jlsOK(jlsB(err == nil))
		})
	}
}

// jlsWithArgs adapts a closure that wants the argument slice of the line being emitted
// (jlsKernelCase publishes it in jlsLastArgs before calling the closure).
func jlsWithArgs(f func(a []int) string) func() string {
	return func() string { return f(jlsLastArgs) }
}

var jlsLastArgs []int

// jlsRunJumpImages yields the images of the run-then-jump sweep shared by C03/C07/C14: for one and
// three components, single-row and multi-row run-jump images wide enough for every run length,
// low precisions with long flat areas, and long images that walk RUNindex over the whole J table.
func jlsRunJumpImages(r *hx.Rand, thorough bool, nears func(p int) []int, f func(im jlsImage, near int)) {
	ps := []int{8, 2, 3, 4, 12, 16, 5}
	if thorough {
		ps = []int{2, 3, 4, 5, 6, 7, 8, 9, 10, 11, 12, 13, 14, 15, 16}
	}
	for _, p := range ps {
		for _, near := range nears(p) {
			for _, comps := range []int{1, 3} {
				reps := 2
				if thorough {
					reps = 6
				}
				for i := 0; i < reps; i++ {
					f(jlsGen(r, "run-jump", r.Range(90, 700), 1, comps, p, near), near)
					f(jlsGen(r, "run-jump", r.Range(40, 300), r.Pick([]int{3, 6, 9}), comps, p, near), near)
				}
				// short rows: one run + one jump, every run length 1..80 at the line start
				if p == 8 || thorough {
					for l := 1; l <= 80; l++ {
						mv := (1 << uint(p)) - 1
						w := l + 3
						s := make([]int, w*comps)
						for c := 0; c < comps; c++ {
							s[l*comps+c] = jlsJump(r, 1, 0, mv, near)
							s[(l+1)*comps+c] = jlsJump(r, 1, 0, mv, near)
							s[(l+2)*comps+c] = s[(l+1)*comps+c]
						}
						f(jlsImage{W: w, H: 1, C: comps, P: p, S: s, Kind: "run-jump"}, near)
					}
				}
			}
		}
	}
	// RUNindex ladder: an escape-coded interruption at every RUNindex 0..31
	lp := []int{8, 2}
	if thorough {
		lp = []int{8, 2, 4, 12, 16}
	}
	for _, p := range lp {
		for _, near := range nears(p) {
			for _, comps := range []int{1, 3} {
				if im := jlsLadder(r, comps, p, near, 0, 31); im.W <= 65535 {
					f(im, near)
				}
				for t := 0; t <= 31; t++ {
					if p != 8 && !thorough && t%5 != 0 && t != 31 {
						continue
					}
					f(jlsLadder(r, comps, p, near, t, t), near)
				}
			}
		}
	}
	// long constant-bias ramps (C reaches MAX_C) and two-level masks with short flat segments
	// (more than RESET run interruptions per context with k = 0)
	for p := 8; p <= 16; p++ {
		if !thorough && p != 8 && p != 9 && p != 12 && p != 16 {
			continue
		}
		for _, near := range nears(p) {
			for _, comps := range []int{1, 3} {
				if p >= 9 {
					f(jlsGen(r, "ramp-diag", 96, 96, comps, p, near), near)
				}
				f(jlsGen(r, "two-level-short", 96, 48, comps, p, near), near)
			}
		}
	}
	// low precisions, long flat areas followed by a non-run sample
	for _, ph := range [][3]int{{2, 70, 1}, {2, 300, 2}, {3, 300, 1}, {3, 512, 3}, {4, 512, 4}, {4, 512, 9}, {5, 512, 12}, {8, 512, 40}, {16, 700, 50}, {8, 40000, 2}, {2, 40000, 2}} {
		p, w, h := ph[0], ph[1], ph[2]
		for _, near := range nears(p) {
			for _, comps := range []int{1, 3} {
				f(jlsGen(r, "flat-jump", w, h, comps, p, near), near)
				f(jlsGen(r, "flat-jump", w+r.Intn(40), h, comps, p, near), near)
			}
		}
	}
}

// jlsLadder is one row over level 0 whose run lengths are chosen so that the run interruptions
// happen at RUNindex 0, 1, 2, …, 31 in turn (each run climbs from the current index to the target
// in full 2^J chunks plus a remainder below the next chunk; the interruption then steps back by
// one), every interruption being a mid-range jump that takes the LIMIT escape.
// With from == to the image holds a single climb 0 -> to and one interruption (fresh run
// contexts, so the mid-range jump is certain to take the escape).
func jlsLadder(r *hx.Rand, comps, p, near, from, to int) jlsImage {
	mv := (1 << uint(p)) - 1
	px := [][]int{}
	add := func(v []int) { px = append(px, v) }
	zero := make([]int, comps)
	cur := 0
	for t := from; t <= to; t++ {
		n := 0
		for i := cur; i < t; i++ {
			n += 1 << uint(c14J[i])
		}
		if r.Bool() && c14J[t] > 0 {
			if rem := r.Intn(1 << uint(c14J[t])); len(px)+n+rem+8 <= 65535 { // keep the row within the 16-bit width field
				n += rem // remainder, coded in J[t] bits
			}
		}
		for ; n > 0; n-- {
			add(zero)
		}
		j := make([]int, comps)
		for c := range j {
			j[c] = jlsJump(r, 1, 0, mv, near)
		}
		add(j)
		add(zero) // coded in regular mode (Ra = jump value); the next run starts after it
		cur = t - 1
		if cur < 0 {
			cur = 0
		}
	}
	s := make([]int, 0, len(px)*comps)
	for _, v := range px {
		s = append(s, v...)
	}
	return jlsImage{W: len(px), H: 1, C: comps, P: p, S: s, Kind: "run-ladder"}
}

// jlsRunCounters adds the reference decoder's run-mode branch counters to the distribution.
func jlsRunCounters(c *hx.Ctx, st *c14State) {
	if st == nil {
		return
	}
	for i := 0; i < 32; i++ {
		if st.intByIdx[i] > 0 {
			c.CountN(fmt.Sprintf("branch:run-interruption@RUNindex=%02d(J=%d)", i, c14J[i]), st.intByIdx[i])
		}
		if st.intEscByIdx[i] > 0 {
			c.CountN(fmt.Sprintf("branch:run-interruption-LIMIT-escape@RUNindex=%02d(J=%d)", i, c14J[i]), st.intEscByIdx[i])
		}
	}
}

// jlsRunCoverageNote records which J steps were never visited by an escape-coded run interruption.
func jlsRunCoverageNote(c *hx.Ctx) {
	miss := []int{}
	for i := 0; i < 32; i++ {
		if c.Distribution[fmt.Sprintf("branch:run-interruption-LIMIT-escape@RUNindex=%02d(J=%d)", i, c14J[i])] == 0 {
			miss = append(miss, i)
		}
	}
	if len(miss) > 0 {
		c.Notes = append(c.Notes, fmt.Sprintf("RUNindex values without an escape-coded run interruption in this run: %v", miss))
	}
}
