package main

// Shared by the JPEG-LS property harnesses C03 / C07 / C14 (identifiers prefixed jls).
//   - image generators over the properties' content classes
//   - guarded calls of the four public entry points
//   - correspondence lines `jls-<kernel> args` : real Go function vs GENERATED Lean definition

import (
	"fmt"
	"strings"

	"github.com/cocosip/go-dicom-codecs/jpegls/lossless"
	"github.com/cocosip/go-dicom-codecs/jpegls/nearlossless"
	"github.com/cocosip/go-dicom-codecs/jpegls/runmode"

	"verifharness/internal/hx"
)

type jlsImage struct {
	W, H, C, P int
	S          []int // samples, pixel-interleaved (as the codec's byte layout)
	Kind       string
}

func (im jlsImage) maxVal() int { return (1 << uint(im.P)) - 1 }

func (im jlsImage) pack() []byte {
	if im.P <= 8 {
		b := make([]byte, len(im.S))
		for i, v := range im.S {
			b[i] = byte(v)
		}
		return b
	}
	b := make([]byte, 2*len(im.S))
	for i, v := range im.S {
		b[2*i] = byte(v)
		b[2*i+1] = byte(v >> 8)
	}
	return b
}

func jlsUnpack(b []byte, p int) []int {
	if p <= 8 {
		s := make([]int, len(b))
		for i, v := range b {
			s[i] = int(v)
		}
		return s
	}
	s := make([]int, len(b)/2)
	for i := range s {
		s[i] = int(b[2*i]) | int(b[2*i+1])<<8
	}
	return s
}

func (im jlsImage) key() string {
	return fmt.Sprintf("%dx%dx%d p%d %s %v", im.W, im.H, im.C, im.P, im.Kind, im.S)
}

func (im jlsImage) input() map[string]any {
	return map[string]any{"width": im.W, "height": im.H, "components": im.C, "precision": im.P, "kind": im.Kind,
		"samples": jlsInts(im.S, 4096)}
}

func jlsInts(s []int, lim int) string {
	if len(s) > lim {
		s = s[:lim]
	}
	var b strings.Builder
	for i, v := range s {
		if i > 0 {
			b.WriteByte(',')
		}
		fmt.Fprintf(&b, "%d", v)
	}
	return b.String()
}

var jlsKinds = []string{"noise", "twolevel", "runs", "runs-eol", "gradient", "near-edges", "ramp", "smooth", "constant"}

// jlsGen makes one image of the named content class. near only shapes the content (ramp step,
// edge distance); it is not a coding parameter here.
func jlsGen(r *hx.Rand, kind string, w, h, comps, p, near int) jlsImage {
	mv := (1 << uint(p)) - 1
	n := w * h * comps
	s := make([]int, n)
	at := func(x, y, c int) int { return (y*w+x)*comps + c }
	switch kind {
	case "noise":
		for i := range s {
			s[i] = r.Intn(mv + 1)
		}
	case "twolevel":
		for i := range s {
			if r.Bool() {
				s[i] = mv
			}
		}
	case "constant":
		v := r.Intn(mv + 1)
		for i := range s {
			s[i] = v
		}
	case "runs": // long runs with rare interruptions (an interruption can be a full-range jump)
		cur := make([]int, comps)
		for c := range cur {
			cur[c] = r.Intn(mv + 1)
		}
		for y := 0; y < h; y++ {
			for x := 0; x < w; x++ {
				if r.Intn(17) == 0 {
					for c := range cur {
						switch r.Intn(3) {
						case 0:
							cur[c] = r.Intn(mv + 1)
						case 1:
							cur[c] = mv - cur[c]
						default:
							cur[c] = (cur[c] + 1 + r.Intn(3)) % (mv + 1)
						}
					}
				}
				for c := 0; c < comps; c++ {
					s[at(x, y, c)] = cur[c]
				}
			}
		}
	case "runs-eol": // every line: a few free samples, then a run that ends exactly at the line end
		for y := 0; y < h; y++ {
			k := r.Intn(w)
			v := make([]int, comps)
			for c := range v {
				v[c] = r.Intn(mv + 1)
			}
			for x := 0; x < w; x++ {
				for c := 0; c < comps; c++ {
					if x < k {
						s[at(x, y, c)] = r.Intn(mv + 1)
					} else {
						s[at(x, y, c)] = v[c]
					}
				}
			}
		}
	case "gradient":
		dx, dy := r.Range(-3, 3), r.Range(-3, 3)
		b := r.Intn(mv + 1)
		for y := 0; y < h; y++ {
			for x := 0; x < w; x++ {
				for c := 0; c < comps; c++ {
					v := (b + dx*x + dy*y + c) % (mv + 1)
					if v < 0 {
						v += mv + 1
					}
					s[at(x, y, c)] = v
				}
			}
		}
	case "near-edges": // samples within NEAR of 0 and MAXVAL (reconstruction clamp)
		d := near + 1
		for i := range s {
			if r.Bool() {
				s[i] = r.Intn(min(d, mv) + 1)
			} else {
				s[i] = mv - r.Intn(min(d, mv)+1)
			}
		}
	case "ramp": // step 2*NEAR+1 (run / regular boundary)
		st := 2*near + 1
		for y := 0; y < h; y++ {
			for x := 0; x < w; x++ {
				for c := 0; c < comps; c++ {
					s[at(x, y, c)] = (x*st + y + r.Intn(2)*near) % (mv + 1)
				}
			}
		}
	case "smooth": // random walk with small steps: exercises N=64 resets and bias saturation
		for c := 0; c < comps; c++ {
			v := r.Intn(mv + 1)
			for y := 0; y < h; y++ {
				for x := 0; x < w; x++ {
					v += r.Range(-2, 3) // positive drift -> C saturates
					if v < 0 {
						v = 0
					}
					if v > mv {
						v = mv
					}
					s[at(x, y, c)] = v
				}
			}
		}
	}
	return jlsImage{W: w, H: h, C: comps, P: p, S: s, Kind: kind}
}

// guarded entry points: outcome "ok" | "err" | "panic <msg>"
func jlsEncLossless(im jlsImage) (out []byte, oc string) {
	var err error
	p, msg := hx.Guard(func() { out, err = lossless.Encode(im.pack(), im.W, im.H, im.C, im.P) })
	if p {
		return nil, "panic " + msg
	}
	if err != nil {
		return nil, "err"
	}
	return out, "ok"
}

func jlsEncNear(im jlsImage, near int) (out []byte, oc string) {
	var err error
	p, msg := hx.Guard(func() { out, err = nearlossless.Encode(im.pack(), im.W, im.H, im.C, im.P, near) })
	if p {
		return nil, "panic " + msg
	}
	if err != nil {
		return nil, "err"
	}
	return out, "ok"
}

type jlsDecoded struct {
	S             []int
	W, H, C, P, N int
}

func jlsDecLossless(stream []byte) (d jlsDecoded, oc string) {
	var err error
	var px []byte
	p, msg := hx.Guard(func() { px, d.W, d.H, d.C, d.P, err = lossless.Decode(stream) })
	if p {
		return d, "panic " + msg
	}
	if err != nil {
		return d, "err"
	}
	d.S = jlsUnpack(px, d.P)
	return d, "ok"
}

func jlsDecNear(stream []byte) (d jlsDecoded, oc string) {
	var err error
	var px []byte
	p, msg := hx.Guard(func() { px, d.W, d.H, d.C, d.P, d.N, err = nearlossless.Decode(stream) })
	if p {
		return d, "panic " + msg
	}
	if err != nil {
		return d, "err"
	}
	d.S = jlsUnpack(px, d.P)
	return d, "ok"
}

func jlsSameGeom(im jlsImage, d jlsDecoded) bool {
	return d.W == im.W && d.H == im.H && d.C == im.C && d.P == im.P && len(d.S) == len(im.S)
}

func jlsMaxAbsDiff(a, b []int) int {
	m := 0
	for i := range a {
		d := a[i] - b[i]
		if d < 0 {
			d = -d
		}
		if d > m {
			m = d
		}
	}
	return m
}

func jlsEq(a, b []int) bool {
	if len(a) != len(b) {
		return false
	}
	for i := range a {
		if a[i] != b[i] {
			return false
		}
	}
	return true
}

func jlsOc(oc string) string {
	if strings.HasPrefix(oc, "panic") {
		return "panic"
	}
	return oc
}

// ---------------------------------------------------------------- kernel correspondence

func jlsOK(vs ...int) string {
	var b strings.Builder
	b.WriteString("ok")
	for _, v := range vs {
		fmt.Fprintf(&b, " %d", v)
	}
	return b.String()
}
func jlsB(b bool) int {
	if b {
		return 1
	}
	return 0
}

// jlsKernelCase records one correspondence line; the real function runs under Guard.
func jlsKernelCase(c *hx.Ctx, op string, args []int, f func() string) {
	var b strings.Builder
	b.WriteString(op)
	for _, a := range args {
		fmt.Fprintf(&b, " %d", a)
	}
	var out string
	jlsLastArgs = args
	p, _ := hx.Guard(func() { out = f() })
	if p {
		out = "panic"
	}
	c.Case(b.String(), out)
	c.Count("kernel:" + op)
}

// jlsPN draws (P, NEAR) with NEAR admissible; boundary NEARs are favoured.
func jlsPN(r *hx.Rand) (p, near int) {
	p = r.Range(2, 16)
	mv := (1 << uint(p)) - 1
	mx := min(255, mv/2)
	switch r.Intn(6) {
	case 0:
		near = 0
	case 1:
		near = mx
	case 2:
		near = min(mx, r.Range(1, 3))
	default:
		near = r.Intn(mx + 1)
	}
	return
}

func jlsVal(r *hx.Rand, span int) int {
	switch r.Intn(8) {
	case 0:
		return 0
	case 1:
		return span
	case 2:
		return -span
	case 3:
		return r.Range(-3, 3)
	default:
		return r.Range(-span, span)
	}
}

// jlsKernels emits n rounds of correspondence lines, one line per generated kernel per round.
func jlsKernels(c *hx.Ctx, n int) {
	r := c.R
	// exhaustive small part: every (P, NEAR) parameter object
	for p := 2; p <= 16; p++ {
		mv := (1 << uint(p)) - 1
		for near := 0; near <= min(255, mv/2); near++ {
			if p > 8 && near > 3 && near != min(255, mv/2) && near%37 != 0 {
				continue
			}
			jlsKernelCase(c, "jls-traits", []int{mv, near, 64}, func() string {
				t := lossless.NewTraits(mv, near, 64)
				return jlsOK(t.MaxVal, t.Near, t.Range, t.Qbpp, t.Limit, t.Reset, t.T1, t.T2, t.T3)
			})
			jlsKernelCase(c, "jls-thresholds", []int{mv, near}, func() string {
				a, b, d := lossless.VerifComputeThresholds(mv, near)
				return jlsOK(a, b, d)
			})
		}
	}
	for i := 0; i <= 70000; i += 1 + i/9 {
		jlsKernelCase(c, "jls-bitsLen", []int{i}, func() string { return jlsOK(lossless.VerifBitsLen(i)) })
	}
	for _, v := range []int{-5, -1, 65535, 65536, 65537, 1 << 20} {
		jlsKernelCase(c, "jls-bitsLen", []int{v}, func() string { return jlsOK(lossless.VerifBitsLen(v)) })
	}
	for i := -2; i <= 33; i++ {
		jlsKernelCase(c, "jls-run-inc", []int{i}, func() string { return jlsOK(runmode.IncrementRunIndex(i)) })
		jlsKernelCase(c, "jls-run-dec", []int{i}, func() string { return jlsOK(runmode.DecrementRunIndex(i)) })
		jlsKernelCase(c, "jls-J", []int{i}, func() string { return jlsOK(runmode.J[i]) })
	}
	for round := 0; round < n; round++ {
		p, near := jlsPN(r)
		mv := (1 << uint(p)) - 1
		t := lossless.NewTraits(mv, near, 64)
		span := 2 * (mv + 1)
		e := jlsVal(r, span)
		v := jlsVal(r, 2*span)
		px := r.Intn(mv + 1)
		jlsKernelCase(c, "jls-params", []int{mv, near, r.Pick([]int{0, 64, 3, 1})}, jlsWithArgs(func(a []int) string {
			q := lossless.ComputeCodingParameters(a[0], a[1], a[2])
			return jlsOK(q.MaxVal, q.Near, q.Range, q.Qbpp, q.Limit, q.T1, q.T2, q.T3, q.Reset)
		}))
		jlsKernelCase(c, "jls-clamp", []int{e, v, px}, func() string { return jlsOK(lossless.VerifClamp(e, v, px)) })
		jlsKernelCase(c, "jls-t-quantize", []int{mv, near, e}, func() string { return jlsOK(lossless.VerifTraitsQuantize(t, e)) })
		jlsKernelCase(c, "jls-t-dequantize", []int{mv, near, e}, func() string { return jlsOK(lossless.VerifTraitsDequantize(t, e)) })
		jlsKernelCase(c, "jls-t-modrange", []int{mv, near, e}, func() string { return jlsOK(t.ModuloRange(e)) })
		jlsKernelCase(c, "jls-t-cev", []int{mv, near, e}, func() string { return jlsOK(t.ComputeErrorValue(e)) })
		jlsKernelCase(c, "jls-t-fix", []int{mv, near, v}, func() string { return jlsOK(lossless.VerifTraitsFixReconstructedValue(t, v)) })
		jlsKernelCase(c, "jls-t-crs", []int{mv, near, px, e}, func() string { return jlsOK(t.ComputeReconstructedSample(px, e)) })
		jlsKernelCase(c, "jls-t-corrpred", []int{mv, near, v}, func() string { return jlsOK(lossless.VerifTraitsCorrectPredictionLower(t, v)) })
		jlsKernelCase(c, "jls-t-CorrPred", []int{mv, near, v}, func() string { return jlsOK(t.CorrectPrediction(v)) })
		jlsKernelCase(c, "jls-t-map", []int{mv, near, e}, func() string { return jlsOK(t.MapErrorValue(e)) })
		jlsKernelCase(c, "jls-t-unmap", []int{mv, near, e}, func() string { return jlsOK(t.UnmapErrorValue(e)) })
		jlsKernelCase(c, "jls-t-qgrad", []int{mv, near, e}, func() string { return jlsOK(t.QuantizeGradient(e)) })
		jlsKernelCase(c, "jls-t-isnear", []int{mv, near, px, px + jlsVal(r, near+2)}, jlsWithArgs(func(a []int) string {
			return jlsOK(jlsB(t.IsNear(a[2], a[3])))
		}))
		// regular-mode context
		cx := lossless.Context{A: r.Pick([]int{2, 4, 1000, 16777215, 16777000, r.Intn(1 << 20)}), N: r.Pick([]int{1, 2, 63, 64, r.Range(1, 64)}),
			B: r.Pick([]int{0, -1, -63, 5, -16777215, 16777215, r.Range(-64, 10)}), C: r.Pick([]int{0, 127, -128, 126, -127, r.Range(-128, 127)})}
		reset := r.Pick([]int{64, 64, 64, 32, 3})
		ev := jlsVal(r, (mv+1)/2)
		jlsKernelCase(c, "jls-ctx-update", []int{cx.A, cx.N, cx.B, cx.C, ev, near, reset}, func() string {
			k := cx
			k.UpdateContext(ev, near, reset)
			return jlsOK(k.A, k.N, k.B, k.C)
		})
		kk := r.Pick([]int{0, 0, 1, 5})
		jlsKernelCase(c, "jls-ctx-errcorr", []int{cx.A, cx.N, cx.B, cx.C, kk, r.Pick([]int{0, 0, near})}, jlsWithArgs(func(a []int) string {
			k := cx
			return jlsOK(k.GetErrorCorrection(a[4], a[5]))
		}))
		jlsKernelCase(c, "jls-map", []int{e}, func() string { return jlsOK(lossless.MapErrorValue(e)) })
		m := r.Intn(4 * (mv + 1))
		jlsKernelCase(c, "jls-unmap", []int{m}, func() string { return jlsOK(lossless.UnmapErrorValue(m)) })
		a, b, d, dd := r.Intn(mv+1), r.Intn(mv+1), r.Intn(mv+1), r.Intn(mv+1)
		if r.Intn(3) == 0 {
			b = a + r.Range(-1, 1)
			d = b + r.Range(-1, 1)
			dd = d
		}
		jlsKernelCase(c, "jls-predict", []int{a, b, d}, func() string { return jlsOK(lossless.Predict(a, b, d)) })
		g := r.Range(-30, 30)
		jlsKernelCase(c, "jls-qgrad0", []int{g}, func() string { return jlsOK(lossless.VerifQuantizeGradient(g)) })
		gq := lossless.NewGradientQuantizer(t.T1, t.T2, t.T3, near)
		gd := r.Pick([]int{-t.T3, -t.T2, -t.T1, -near - 1, -near, near, near + 1, t.T1 - 1, t.T1, t.T2, t.T3, t.T3 - 1, jlsVal(r, mv)})
		jlsKernelCase(c, "jls-gq", []int{t.T1, t.T2, t.T3, near, gd}, func() string { return jlsOK(lossless.VerifGQQuantizeGradient(gq, gd)) })
		jlsKernelCase(c, "jls-gqctx", []int{t.T1, t.T2, t.T3, near, a, b, d, dd}, func() string {
			x, y, z := gq.ComputeContext(a, b, d, dd)
			return jlsOK(x, y, z)
		})
		jlsKernelCase(c, "jls-ctx0", []int{a, b, d, dd}, func() string {
			x, y, z := lossless.ComputeContext(a, b, d, dd)
			return jlsOK(x, y, z)
		})
		q1, q2, q3 := r.Range(-4, 4), r.Range(-4, 4), r.Range(-4, 4)
		jlsKernelCase(c, "jls-ctxid", []int{q1, q2, q3}, func() string { return jlsOK(lossless.ComputeContextID(q1, q2, q3)) })
		id := lossless.ComputeContextID(q1, q2, q3)
		jlsKernelCase(c, "jls-bsign", []int{id}, func() string { return jlsOK(lossless.BitwiseSign(id)) })
		sg := r.Pick([]int{0, -1})
		jlsKernelCase(c, "jls-asign", []int{e, sg}, func() string { return jlsOK(lossless.ApplySign(e, sg)) })
		jlsKernelCase(c, "jls-signint", []int{g}, func() string { return jlsOK(lossless.VerifSignInt(g)) })
		// run-mode context
		rit := r.Intn(2)
		rc := []int{rit, r.Pick([]int{2, 4, 70000, r.Intn(5000)}), r.Pick([]int{1, 63, 64, r.Range(1, 64)}), 0}
		rc[3] = r.Intn(rc[2] + 1)
		em := r.Intn(2*(mv+1) + 1)
		jlsKernelCase(c, "jls-rm-update", append(append([]int{}, rc...), ev, em, reset), func() string {
			x := lossless.VerifRunModeContext(rc[0], rc[1], rc[2], rc[3])
			x.UpdateVariables(ev, em, reset)
			return jlsOK(lossless.VerifRunModeContextType(x), x.A, x.N, x.NN)
		})
		jlsKernelCase(c, "jls-rm-map", append(append([]int{}, rc...), ev, kk), func() string {
			x := lossless.VerifRunModeContext(rc[0], rc[1], rc[2], rc[3])
			return jlsOK(jlsB(x.ComputeMap(ev, kk)))
		})
		jlsKernelCase(c, "jls-rm-cev", append(append([]int{}, rc...), em, kk), func() string {
			x := lossless.VerifRunModeContext(rc[0], rc[1], rc[2], rc[3])
			return jlsOK(x.ComputeErrorValue(em, kk))
		})
		dl := jlsVal(r, mv)
		jlsKernelCase(c, "jls-enc-cev", []int{p, dl}, func() string { return jlsOK(lossless.VerifEncoderComputeErrorValue(p, dl)) })
		jlsKernelCase(c, "jls-dec-cev", []int{p, dl}, func() string { return jlsOK(lossless.VerifDecoderComputeErrorValue(p, dl)) })
		jlsKernelCase(c, "jls-newctx", []int{t.Range}, func() string {
			x := lossless.NewContext(t.Range)
			return jlsOK(x.A, x.N, x.B, x.C)
		})
		jlsKernelCase(c, "jls-newrmctx", []int{rit, t.Range}, func() string {
			x := lossless.NewRunModeContext(rit, t.Range)
			return jlsOK(lossless.VerifRunModeContextType(x), x.A, x.N, x.NN)
		})
		bias := r.Range(-128, 127)
		jlsKernelCase(c, "jls-corrpred", []int{px, bias, mv + 1}, func() string { return jlsOK(lossless.CorrectPrediction(px, bias, mv+1)) })
		jlsKernelCase(c, "jls-run-abs", []int{e}, func() string { return jlsOK(runmode.Abs(e)) })
		jlsKernelCase(c, "jls-run-sign", []int{g}, func() string { return jlsOK(runmode.Sign(g)) })
		// validation prefixes: the accept/reject decision of Encode on the argument tuple
		w, h, cc, pp, nn := r.Pick([]int{0, -1, 1, 2, 3}), r.Pick([]int{0, 1, 3, -7}), r.Pick([]int{0, 1, 2, 3, 4}), r.Pick([]int{0, 1, 2, 8, 16, 17, p}), r.Pick([]int{-1, 0, 1, 255, 256, near})
		if r.Intn(2) == 0 {
			w, h, cc = r.Range(1, 3), r.Range(1, 3), r.Pick([]int{1, 3})
		}
		ln := 0
		if w > 0 && h > 0 && cc > 0 && pp >= 2 && pp <= 16 {
			ln = w * h * cc * ((pp + 7) / 8)
		}
		jlsKernelCase(c, "jls-accepts", []int{ln, w, h, cc, pp}, func() string {
			_, err := lossless.Encode(make([]byte, ln), w, h, cc, pp)
			return jlsOK(jlsB(err == nil))
		})
		jlsKernelCase(c, "jls-near-accepts", []int{ln, w, h, cc, pp, nn}, func() string {
			_, err := nearlossless.Encode(make([]byte, ln), w, h, cc, pp, nn)
			return jlsOK(jlsB(err == nil))
		})
	}
}

// jlsWithArgs adapts a closure that wants the argument slice of the line being emitted
// (jlsKernelCase publishes it in jlsLastArgs before calling the closure).
func jlsWithArgs(f func(a []int) string) func() string {
	return func() string { return f(jlsLastArgs) }
}

var jlsLastArgs []int
