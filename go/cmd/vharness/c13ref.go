package main

// c13ref — an independent implementation of ITU-T T.81 lossless (SOF3, Huffman) written from the
// text of the Recommendation (Annex H, F.1.2.1, F.2.2, Annex C, Annex B, Annex K.2), NOT from the
// repo code.  Single scan, interleaved, 1x1 sampling, no restart intervals, point transform 0.

import (
	"errors"
	"fmt"
	"sort"
)

type c13Table struct {
	Bits [16]int
	Vals []byte
}

type c13Code struct{ Code, Len int }

// Annex C, Figures C.1–C.3: HUFFSIZE, HUFFCODE, EHUFCO/EHUFSI.
func c13GenCodes(t c13Table) map[int]c13Code {
	var huffsize []int
	for i := 1; i <= 16; i++ {
		for j := 1; j <= t.Bits[i-1]; j++ {
			huffsize = append(huffsize, i)
		}
	}
	huffsize = append(huffsize, 0)
	huffcode := make([]int, len(huffsize))
	k, code, si := 0, 0, huffsize[0]
	for huffsize[k] != 0 {
		for huffsize[k] == si {
			huffcode[k] = code
			code++
			k++
		}
		if huffsize[k] == 0 {
			break
		}
		for {
			code <<= 1
			si++
			if huffsize[k] == si {
				break
			}
		}
	}
	res := map[int]c13Code{}
	for k := 0; k < len(huffsize)-1 && k < len(t.Vals); k++ {
		res[int(t.Vals[k])] = c13Code{huffcode[k], huffsize[k]}
	}
	return res
}

// Table H.1
func c13Predictor(sel, ra, rb, rc int) int {
	switch sel {
	case 1:
		return ra
	case 2:
		return rb
	case 3:
		return rc
	case 4:
		return ra + rb - rc
	case 5:
		return ra + ((rb - rc) >> 1)
	case 6:
		return rb + ((ra - rc) >> 1)
	case 7:
		return (ra + rb) >> 1
	}
	return 0
}

// H.1.2.1: first sample 2^(P-Pt-1); first line Ra; line starts Rb; otherwise the selected predictor.
func c13Px(p, pt, sel, row, col, ra, rb, rc int) int {
	if row == 0 {
		if col == 0 {
			return 1 << uint(p-pt-1)
		}
		return ra
	}
	if col == 0 {
		return rb
	}
	return c13Predictor(sel, ra, rb, rc)
}

// H.1.2.1 + Table H.2: difference modulo 2^16 as −32767..32768, its category, and the additional bits.
func c13Diff(x, px int) int {
	m := ((x-px)%65536 + 65536) % 65536
	if m > 32768 {
		m -= 65536
	}
	return m
}
func c13SSSS(d int) int {
	if d < 0 {
		d = -d
	}
	s := 0
	for d != 0 {
		s++
		d >>= 1
	}
	return s
}
func c13Extra(d int) (v, n int) {
	s := c13SSSS(d)
	if s == 0 || s == 16 {
		return 0, 0
	}
	if d < 0 {
		d--
	}
	return d & (1<<uint(s) - 1), s
}

// F.2.2.1 EXTEND, with SSSS = 16 -> 32768 (H.1.2.2)
func c13Extend(v, t int) int {
	if t == 0 {
		return 0
	}
	if t == 16 {
		return 32768
	}
	if v < 1<<uint(t-1) {
		return v + (-1 << uint(t)) + 1
	}
	return v
}

type c13BitW struct {
	out  []byte
	acc  uint64
	nacc int
}

func (w *c13BitW) put(v, n int) {
	for i := n - 1; i >= 0; i-- {
		w.acc = w.acc<<1 | uint64((v>>uint(i))&1)
		w.nacc++
		if w.nacc == 8 {
			b := byte(w.acc)
			w.out = append(w.out, b)
			if b == 0xFF {
				w.out = append(w.out, 0)
			}
			w.acc, w.nacc = 0, 0
		}
	}
}
func (w *c13BitW) flush() {
	for w.nacc != 0 {
		w.put(1, 1)
	}
}

type c13Cfg struct {
	Pred        int
	Td          []int             // per component
	Tables      map[int]c13Table  // destination -> table
	DHTAfterSOF bool
	Extras      bool // APPn + COM segments before SOF3
	OneDHT      bool // all tables in one DHT segment
	CompIDs     []int
}

func c13Seg(marker byte, payload []byte) []byte {
	l := len(payload) + 2
	return append([]byte{0xFF, marker, byte(l >> 8), byte(l)}, payload...)
}

// c13RefEncode produces a conformant single-scan lossless stream.
func c13RefEncode(im c02Img, cfg c13Cfg) []byte {
	out := []byte{0xFF, 0xD8}
	if cfg.Extras {
		out = append(out, c13Seg(0xE1, []byte("verif\x00\xff\xda\xff\xc3"))...)
		out = append(out, c13Seg(0xFE, []byte("comment with \xff\xd9 inside"))...)
		out = append(out, c13Seg(0xEE, []byte("Adobe"))...)
	}
	dht := func() []byte {
		var dests []int
		for d := range cfg.Tables {
			dests = append(dests, d)
		}
		sort.Ints(dests)
		var segs, one []byte
		for _, d := range dests {
			t := cfg.Tables[d]
			p := []byte{byte(d)} // Tc = 0, Th = d
			for i := 0; i < 16; i++ {
				p = append(p, byte(t.Bits[i]))
			}
			p = append(p, t.Vals...)
			if cfg.OneDHT {
				one = append(one, p...)
			} else {
				segs = append(segs, c13Seg(0xC4, p)...)
			}
		}
		if cfg.OneDHT {
			return c13Seg(0xC4, one)
		}
		return segs
	}
	if !cfg.DHTAfterSOF {
		out = append(out, dht()...)
	}
	sof := []byte{byte(im.P), byte(im.H >> 8), byte(im.H), byte(im.W >> 8), byte(im.W), byte(im.NC)}
	for c := 0; c < im.NC; c++ {
		sof = append(sof, byte(cfg.CompIDs[c]), 0x11, 0)
	}
	out = append(out, c13Seg(0xC3, sof)...)
	if cfg.DHTAfterSOF {
		out = append(out, dht()...)
	}
	sos := []byte{byte(im.NC)}
	for c := 0; c < im.NC; c++ {
		sos = append(sos, byte(cfg.CompIDs[c]), byte(cfg.Td[c]<<4))
	}
	sos = append(sos, byte(cfg.Pred), 0, 0)
	out = append(out, c13Seg(0xDA, sos)...)
	codes := map[int]map[int]c13Code{}
	for d, t := range cfg.Tables {
		codes[d] = c13GenCodes(t)
	}
	w := &c13BitW{}
	for row := 0; row < im.H; row++ {
		for col := 0; col < im.W; col++ {
			for c := 0; c < im.NC; c++ {
				s := im.S[c]
				var ra, rb, rc int
				if col > 0 {
					ra = s[row*im.W+col-1]
				}
				if row > 0 {
					rb = s[(row-1)*im.W+col]
				}
				if row > 0 && col > 0 {
					rc = s[(row-1)*im.W+col-1]
				}
				px := c13Px(im.P, 0, cfg.Pred, row, col, ra, rb, rc)
				d := c13Diff(s[row*im.W+col], px)
				cd := codes[cfg.Td[c]][c13SSSS(d)]
				w.put(cd.Code, cd.Len)
				v, n := c13Extra(d)
				w.put(v, n)
			}
		}
	}
	w.flush()
	out = append(out, w.out...)
	return append(out, 0xFF, 0xD9)
}

type c13BitR struct {
	d    []byte
	pos  int
	acc  int
	nacc int
}

func (r *c13BitR) bit() (int, error) {
	if r.nacc == 0 {
		if r.pos >= len(r.d) {
			return 0, errors.New("entropy-coded segment exhausted")
		}
		b := r.d[r.pos]
		r.pos++
		if b == 0xFF {
			if r.pos >= len(r.d) || r.d[r.pos] != 0 {
				return 0, errors.New("marker inside entropy-coded segment")
			}
			r.pos++
		}
		r.acc, r.nacc = int(b), 8
	}
	r.nacc--
	return (r.acc >> uint(r.nacc)) & 1, nil
}

// c13RefDecode decodes a single-scan SOF3 stream per T.81. It returns the image and the predictor used.
func c13RefDecode(data []byte) (im c02Img, pred int, err error) {
	if len(data) < 4 || data[0] != 0xFF || data[1] != 0xD8 {
		return im, 0, errors.New("no SOI")
	}
	tables := map[int]map[[2]int]int{} // dest -> (len, code) -> symbol
	var compIDs []int
	i := 2
	for {
		if i+4 > len(data) || data[i] != 0xFF {
			return im, 0, fmt.Errorf("marker expected at %d", i)
		}
		for i+1 < len(data) && data[i+1] == 0xFF { // fill bytes
			i++
		}
		m := data[i+1]
		if m == 0xD9 {
			return im, 0, errors.New("EOI before scan")
		}
		l := int(data[i+2])<<8 | int(data[i+3])
		if l < 2 || i+2+l > len(data) {
			return im, 0, errors.New("segment length")
		}
		p := data[i+4 : i+2+l]
		i += 2 + l
		switch {
		case m == 0xC4:
			for len(p) > 0 {
				if len(p) < 17 {
					return im, 0, errors.New("DHT short")
				}
				tc, th := int(p[0]>>4), int(p[0]&15)
				var t c13Table
				n := 0
				for k := 0; k < 16; k++ {
					t.Bits[k] = int(p[1+k])
					n += t.Bits[k]
				}
				if len(p) < 17+n {
					return im, 0, errors.New("DHT values short")
				}
				t.Vals = p[17 : 17+n]
				p = p[17+n:]
				if tc == 0 {
					if th > 3 {
						return im, 0, errors.New("DHT destination > 3")
					}
					mm := map[[2]int]int{}
					for sym, cd := range c13GenCodes(t) {
						mm[[2]int{cd.Len, cd.Code}] = sym
					}
					tables[th] = mm
				}
			}
		case m == 0xC3:
			if len(p) < 6 {
				return im, 0, errors.New("SOF3 short")
			}
			im.P, im.H, im.W, im.NC = int(p[0]), int(p[1])<<8|int(p[2]), int(p[3])<<8|int(p[4]), int(p[5])
			if im.P < 2 || im.P > 16 || im.W == 0 || im.H == 0 || im.NC == 0 || len(p) < 6+3*im.NC {
				return im, 0, errors.New("SOF3 parameters")
			}
			compIDs = nil
			for c := 0; c < im.NC; c++ {
				if p[7+3*c] != 0x11 {
					return im, 0, errors.New("sampling factors not 1x1 (unsupported by the reference)")
				}
				compIDs = append(compIDs, int(p[6+3*c]))
			}
		case m >= 0xC0 && m <= 0xCF && m != 0xC8 && m != 0xCC:
			return im, 0, fmt.Errorf("frame type %#x is not SOF3", m)
		case m == 0xDD:
			if len(p) >= 2 && (p[0] != 0 || p[1] != 0) {
				return im, 0, errors.New("restart intervals unsupported by the reference")
			}
		case m == 0xDA:
			if compIDs == nil {
				return im, 0, errors.New("SOS before SOF3")
			}
			if len(p) < 1 || len(p) != 1+2*int(p[0])+3 || int(p[0]) != im.NC {
				return im, 0, errors.New("SOS header")
			}
			td := make([]int, im.NC)
			for j := 0; j < im.NC; j++ {
				found := false
				for c := 0; c < im.NC; c++ {
					if compIDs[c] == int(p[1+2*j]) {
						if c != j {
							return im, 0, errors.New("scan component order differs from frame order")
						}
						td[c] = int(p[2+2*j] >> 4)
						found = true
					}
				}
				if !found {
					return im, 0, errors.New("unknown scan component")
				}
			}
			pred = int(p[1+2*im.NC])
			pt := int(p[3+2*im.NC] & 15)
			if pred < 1 || pred > 7 {
				return im, pred, errors.New("predictor selection not 1..7")
			}
			if pt != 0 {
				return im, pred, errors.New("point transform unsupported by the reference")
			}
			im.S = make([][]int, im.NC)
			for c := range im.S {
				im.S[c] = make([]int, im.W*im.H)
			}
			r := &c13BitR{d: data, pos: i}
			for row := 0; row < im.H; row++ {
				for col := 0; col < im.W; col++ {
					for c := 0; c < im.NC; c++ {
						tb, ok := tables[td[c]]
						if !ok {
							return im, pred, fmt.Errorf("table %d not defined", td[c])
						}
						code, sym := 0, -1
						for l := 1; l <= 16; l++ {
							b, e := r.bit()
							if e != nil {
								return im, pred, e
							}
							code = code<<1 | b
							if s, ok := tb[[2]int{l, code}]; ok {
								sym = s
								break
							}
						}
						if sym < 0 || sym > 16 {
							return im, pred, errors.New("no Huffman code matches / SSSS > 16")
						}
						v := 0
						if sym != 16 {
							for k := 0; k < sym; k++ {
								b, e := r.bit()
								if e != nil {
									return im, pred, e
								}
								v = v<<1 | b
							}
						}
						s := im.S[c]
						var ra, rb, rc int
						if col > 0 {
							ra = s[row*im.W+col-1]
						}
						if row > 0 {
							rb = s[(row-1)*im.W+col]
						}
						if row > 0 && col > 0 {
							rc = s[(row-1)*im.W+col-1]
						}
						px := c13Px(im.P, 0, pred, row, col, ra, rb, rc)
						x := (px + c13Extend(v, sym)) & 0xFFFF
						s[row*im.W+col] = x
					}
				}
			}
			for c := range im.S {
				for _, x := range im.S[c] {
					if x >= 1<<uint(im.P) {
						return im, pred, fmt.Errorf("reconstructed sample %d exceeds the %d-bit precision", x, im.P)
					}
				}
			}
			// after the scan: optional padding already consumed with the last byte; expect EOI
			q := r.pos
			if q+1 >= len(data) || data[q] != 0xFF || data[q+1] != 0xD9 {
				return im, pred, fmt.Errorf("EOI expected after the scan at %d", q)
			}
			if q+2 != len(data) {
				return im, pred, errors.New("bytes after EOI")
			}
			return im, pred, nil
		default:
			// APPn, COM, DNL etc.: skipped
		}
	}
}

// Annex K.2 (Figures K.1–K.4): Huffman table from symbol frequencies, code lengths limited to 16,
// all-ones code reserved. freq has 257 entries; entry 256 is the reserved code point.
func c13OptimalTable(f []int) c13Table {
	freq := make([]int, 257)
	copy(freq, f)
	freq[256] = 1
	codesize := make([]int, 257)
	others := make([]int, 257)
	for i := range others {
		others[i] = -1
	}
	for {
		v1 := -1
		for i := 0; i <= 256; i++ { // least FREQ > 0; largest V on ties
			if freq[i] > 0 && (v1 < 0 || freq[i] <= freq[v1]) {
				v1 = i
			}
		}
		v2 := -1
		for i := 0; i <= 256; i++ {
			if freq[i] > 0 && i != v1 && (v2 < 0 || freq[i] <= freq[v2]) {
				v2 = i
			}
		}
		if v2 < 0 {
			break
		}
		freq[v1] += freq[v2]
		freq[v2] = 0
		for {
			codesize[v1]++
			if others[v1] < 0 {
				break
			}
			v1 = others[v1]
		}
		others[v1] = v2
		for {
			codesize[v2]++
			if others[v2] < 0 {
				break
			}
			v2 = others[v2]
		}
	}
	bits := make([]int, 64)
	for i := 0; i <= 256; i++ {
		if codesize[i] > 0 {
			bits[codesize[i]]++
		}
	}
	for i := 63; i > 16; i-- { // Figure K.3 Adjust_BITS
		for bits[i] > 0 {
			j := i - 2
			for bits[j] == 0 {
				j--
			}
			bits[i] -= 2
			bits[i-1]++
			bits[j+1] += 2
			bits[j]--
		}
	}
	for i := 16; i > 0; i-- {
		if bits[i] > 0 {
			bits[i]--
			break
		}
	}
	var t c13Table
	for i := 1; i <= 16; i++ {
		t.Bits[i-1] = bits[i]
	}
	for l := 1; l <= 63; l++ { // Figure K.4 Sort_input
		for s := 0; s < 256; s++ {
			if codesize[s] == l {
				t.Vals = append(t.Vals, byte(s))
			}
		}
	}
	return t
}
