package main

// C08 — JPEG-LS decoders on very wide, flat pictures (family jls-long-runs).
//
// Found missing by an independent seeded change (seeded/C08-m8): the run index of the JPEG-LS run mode only reaches
// the last entries of the J table (orders 10..15, run segments of 1024..32768 samples) when a picture is wider than
// anything the main C08 search decodes and several consecutive lines are completely flat.  The byte-string search
// mutates small streams; this family builds the headers itself: widths around 2^15 and up to 65535, 4..6 lines,
// 1 component (ILV 0) or 3 components (ILV 2), P in {2, 8, 12, 16}, NEAR 0 (and NEAR > 0 for the near-lossless
// decoder), scan data made of run-continuation bits ("1" bits with the 0xFF/0x7F stuffing) optionally followed by
// seeded random bytes; it also decodes what the library's own encoders make of a flat picture of that width.
// Oracle = C08's: the call returns a result or an error; a panic is classified like everywhere in C08.

import (
	"fmt"
	"runtime/debug"
	"sort"
	"strings"

	"github.com/cocosip/go-dicom-codecs/jpegls/lossless"
	"github.com/cocosip/go-dicom-codecs/jpegls/nearlossless"

	"verifharness/internal/hx"
)

func init() { registerExtra("C08", "jls-long-runs", c08JlsWide) }

func c08JlsHeader(w, h, comps, p, near int) []byte {
	s := []byte{0xFF, 0xD8, 0xFF, 0xF7, 0x00, byte(8 + 3*comps), byte(p), byte(h >> 8), byte(h), byte(w >> 8), byte(w), byte(comps)}
	for i := 1; i <= comps; i++ {
		s = append(s, byte(i), 0x11, 0x00)
	}
	s = append(s, 0xFF, 0xDA, 0x00, byte(6+2*comps), byte(comps))
	for i := 1; i <= comps; i++ {
		s = append(s, byte(i), 0x00)
	}
	ilv := 0
	if comps > 1 {
		ilv = 2
	}
	return append(s, byte(near), byte(ilv), 0x00)
}

func c08JlsWide(c *hx.Ctx) {
	r := hx.NewRand(c.Seed ^ 0xC08715)
	type hit struct {
		what  string
		data  []byte
		info  c09StackInfo
		count int
	}
	classes := map[string]*hit{}
	try := func(what string, data []byte, near bool) {
		outcome := "ok"
		var info c09StackInfo
		func() {
			defer func() {
				if rec := recover(); rec != nil {
					info = c09Classify(rec, string(debug.Stack()))
					outcome = "panic"
				}
			}()
			var err error
			if near {
				_, _, _, _, _, _, err = nearlossless.Decode(data)
			} else {
				_, _, _, _, _, err = lossless.Decode(data)
			}
			if err != nil {
				outcome = "err"
			}
		}()
		c.Eval("jls-long-runs|"+what, true)
		c.Count("jls-long-runs:outcome:" + outcome)
		if outcome == "panic" {
			cl := strings.ReplaceAll(info.Site, "/", ".") + "-" + info.Kind
			if hgot, ok := classes[cl]; ok {
				hgot.count++
			} else {
				classes[cl] = &hit{what, data, info, 1}
			}
		}
	}
	widths := []int{32767, 32768, 32769, 65535}
	if c.Thorough() {
		widths = append(widths, 16384, 40000, 49152, 65534)
	}
	for _, w := range widths {
		for _, comps := range []int{1, 3} {
			for _, p := range []int{8, 16, 2, 12} {
				if !c.Thorough() && p != 8 && (w != 32768 || comps != 1) {
					continue
				}
				for _, nearDec := range []bool{false, true} {
					h := 4 + r.Intn(3)
					near := 0
					if nearDec && r.Intn(2) == 0 {
						near = 1 + r.Intn(min(3, max(1, ((1<<uint(p))-1)/2)))
						if near > ((1<<uint(p))-1)/2 {
							near = 0
						}
					}
					hdr := c08JlsHeader(w, h, comps, p, near)
					for _, tail := range []int{0, 1} {
						data := append([]byte{}, hdr...)
						for i := 0; i < 12+r.Intn(40); i++ {
							data = append(data, 0xFF, 0x7F)
						}
						if tail == 1 {
							for i := 0; i < 1+r.Intn(24); i++ {
								b := byte(r.Intn(256))
								data = append(data, b)
								if b == 0xFF {
									data = append(data, byte(r.Intn(128)))
								}
							}
						}
						data = append(data, 0xFF, 0xD9)
						try(fmt.Sprintf("ones w=%d h=%d comps=%d p=%d near=%d tail=%d nearDecoder=%v", w, h, comps, p, near, tail, nearDec), data, nearDec)
						c.Count(fmt.Sprintf("jls-long-runs:stream:w=%d comps=%d", w, comps))
					}
				}
			}
		}
		// the library's own encoders on a flat picture of this width (an encoder panic is not C08's business)
		for _, nearDec := range []bool{false, true} {
			h := 5
			src := make([]byte, w*h)
			var enc []byte
			var err error
			if pan, msg := hx.Guard(func() {
				if nearDec {
					enc, err = nearlossless.Encode(src, w, h, 1, 8, 1)
				} else {
					enc, err = lossless.Encode(src, w, h, 1, 8)
				}
			}); pan {
				c.Count("jls-long-runs:encoder-panic (C08 is about decoders): " + strings.SplitN(msg, " | ", 2)[0])
				continue
			}
			if err != nil {
				c.Count("jls-long-runs:encoder-rejected")
				continue
			}
			try(fmt.Sprintf("own-encoder flat w=%d h=%d nearDecoder=%v", w, h, nearDec), enc, nearDec)
		}
	}
	names := make([]string, 0, len(classes))
	for k := range classes {
		names = append(names, k)
	}
	sort.Strings(names)
	for _, cl := range names {
		ht := classes[cl]
		c.CountN("panic-class:"+cl, ht.count)
		c.Fail(hx.Failure{Class: cl, What: fmt.Sprintf("panic in %s at %s: %s", ht.info.Site, ht.info.Line, ht.info.Text),
			Input:    map[string]any{"target": "JPEG-LS decoder, wide flat picture", "stream": ht.what, "hex": hx.Hex(ht.data), "len": len(ht.data), "hits_this_run": ht.count},
			Expected: "a result or an error", Actual: "panic: " + ht.info.Text})
	}
}
