package main

// C02 — JPEG Lossless (Process 14, predictors 0..7) and SV1: exact reconstruction.
//
// Property search: decode(encode(img)) == img and geometry, through the public
// lossless.Encode/Decode and lossless14sv1.Encode/Decode.
// Correspondence: kernel/model ops jll-pred, jll-cat, jll-ext, jll-huffbits, jll-readbits,
// jll-canon, jll-hdec against the real exported functions; stream ops (jll-enc/jll-dec/
// sv1-enc/sv1-dec) in c02stream.go.

import (
	"bytes"
	"fmt"
	"strings"

	"github.com/cocosip/go-dicom-codecs/jpeg/lossless"
	"github.com/cocosip/go-dicom-codecs/jpeg/lossless14sv1"
	"github.com/cocosip/go-dicom-codecs/jpeg/standard"

	"verifharness/internal/hx"
)

// c02Fail records a failure, at most 25 per class: hx keeps only the first 200 failures of a run, and a
// frequent known class must not crowd out a different (possibly new) class. Every failure is still counted.
var c02FailSeen = map[string]int{}

func c02Fail(c *hx.Ctx, f hx.Failure) {
	c02FailSeen[f.Class]++
	if c02FailSeen[f.Class] > 25 {
		c.Count("fail-not-listed:" + f.Class)
		c.Count("failures-not-listed")
		return
	}
	c.Fail(f)
}

// c02Img is one test image: samples[comp][row*w+col].
type c02Img struct {
	W, H, NC, P int
	S           [][]int
}

func (im c02Img) pixels() []byte {
	n := im.W * im.H
	if im.P <= 8 {
		b := make([]byte, n*im.NC)
		for i := 0; i < n; i++ {
			for c := 0; c < im.NC; c++ {
				b[i*im.NC+c] = byte(im.S[c][i])
			}
		}
		return b
	}
	b := make([]byte, 2*n*im.NC)
	o := 0
	for i := 0; i < n; i++ {
		for c := 0; c < im.NC; c++ {
			b[o] = byte(im.S[c][i])
			b[o+1] = byte(im.S[c][i] >> 8)
			o += 2
		}
	}
	return b
}

func c02Samples(pix []byte, w, h, nc, p int) [][]int {
	s := make([][]int, nc)
	for c := range s {
		s[c] = make([]int, w*h)
	}
	o := 0
	for i := 0; i < w*h; i++ {
		for c := 0; c < nc; c++ {
			if p <= 8 {
				s[c][i] = int(pix[o])
				o++
			} else {
				s[c][i] = int(pix[o]) | int(pix[o+1])<<8
				o += 2
			}
		}
	}
	return s
}

// codec: 0..7 = lossless.Encode with that predictor argument, 8 = SV1.
func c02CodecName(codec int) string {
	if codec == 8 {
		return "sv1"
	}
	return fmt.Sprintf("jll%d", codec)
}

func c02Encode(codec int, pix []byte, w, h, nc, p int) (out []byte, oc string) {
	var err error
	pan, msg := hx.Guard(func() {
		if codec == 8 {
			out, err = lossless14sv1.Encode(pix, w, h, nc, p)
		} else {
			out, err = lossless.Encode(pix, w, h, nc, p, codec)
		}
	})
	if pan {
		return nil, "panic " + msg
	}
	if err != nil {
		return nil, "err " + err.Error()
	}
	return out, "ok"
}

type c02Dec struct {
	Pix         []byte
	W, H, NC, P int
}

func c02Decode(sv1 bool, data []byte) (r c02Dec, oc string) {
	var err error
	pan, msg := hx.Guard(func() {
		if sv1 {
			r.Pix, r.W, r.H, r.NC, r.P, err = lossless14sv1.Decode(data)
		} else {
			r.Pix, r.W, r.H, r.NC, r.P, err = lossless.Decode(data)
		}
	})
	if pan {
		return r, "panic " + msg
	}
	if err != nil {
		return r, "err " + err.Error()
	}
	return r, "ok"
}

// c02StreamPredictor returns the Ss field of the first SOS of a stream (0 if not found).
func c02StreamPredictor(s []byte) int {
	for i := 2; i+3 < len(s); {
		if s[i] != 0xFF {
			return 0
		}
		m := s[i+1]
		l := int(s[i+2])<<8 | int(s[i+3])
		if m == 0xDA {
			ns := int(s[i+4])
			if i+5+2*ns < len(s) {
				return int(s[i+5+2*ns])
			}
			return 0
		}
		i += 2 + l
	}
	return 0
}

func c02IntsStr(xs []int) string {
	if len(xs) == 0 {
		return "-"
	}
	var sb strings.Builder
	for i, x := range xs {
		if i > 0 {
			sb.WriteByte(',')
		}
		fmt.Fprintf(&sb, "%d", x)
	}
	return sb.String()
}

func c02Input(codec int, im c02Img) map[string]any {
	in := map[string]any{"codec": c02CodecName(codec), "width": im.W, "height": im.H, "components": im.NC, "precision": im.P}
	if im.W*im.H*im.NC <= 64 {
		for c := 0; c < im.NC; c++ {
			in[fmt.Sprintf("samples%d", c)] = c02IntsStr(im.S[c])
		}
	} else {
		in["pixels_hex"] = hx.Hex(im.pixels())
	}
	return in
}

// c02RoundTrip evaluates the property once on the real code. Returns the encoded stream (nil on encode failure).
func c02RoundTrip(c *hx.Ctx, codec int, im c02Img, tag string) []byte {
	pix := im.pixels()
	c.Count("gen:" + tag)
	c.Count("codec:" + c02CodecName(codec))
	c.Count(fmt.Sprintf("P:%02d", im.P))
	c.Count(fmt.Sprintf("nc:%d", im.NC))
	key := fmt.Sprintf("%d|%d|%d|%d|%d|%x", codec, im.W, im.H, im.NC, im.P, pix)
	c.Eval(key, im.W*im.H >= 2)
	c.Sample(map[string]any{"op": "roundtrip", "codec": c02CodecName(codec), "w": im.W, "h": im.H, "nc": im.NC, "P": im.P, "gen": tag})
	enc, oc := c02Encode(codec, pix, im.W, im.H, im.NC, im.P)
	if oc != "ok" {
		c02Fail(c, hx.Failure{Class: "jll-encode-" + oc[:3], What: "Encode of a valid image failed: " + oc, Input: c02Input(codec, im)})
		return nil
	}
	c.CountN("encoded_bytes", len(enc))
	if bytes.Contains(enc[len(enc)-min(len(enc), 4):], []byte{0xFF, 0x00}) {
		c.Count("branch:stuffed-near-end")
	}
	dec, od := c02Decode(codec == 8, enc)
	pred := codec
	if codec == 8 {
		pred = 1
	} else if codec == 0 {
		pred = c02StreamPredictor(enc)
		c.Count(fmt.Sprintf("auto-selected:%d", pred))
	}
	suffix := ""
	if codec == 8 {
		suffix = "-sv1"
	}
	if od != "ok" {
		c02Fail(c, hx.Failure{Class: "jll-decode-" + od[:3] + suffix, What: "Decode of the encoder's own stream failed: " + od, Input: c02Input(codec, im), Actual: hx.Hex(enc)})
		return enc
	}
	if dec.W != im.W || dec.H != im.H || dec.NC != im.NC || dec.P != im.P {
		c02Fail(c, hx.Failure{Class: "jll-geometry" + suffix, What: "decoded geometry differs", Input: c02Input(codec, im),
			Expected: fmt.Sprint(im.W, im.H, im.NC, im.P), Actual: fmt.Sprint(dec.W, dec.H, dec.NC, dec.P)})
		return enc
	}
	if !bytes.Equal(dec.Pix, pix) {
		cls := "jll-roundtrip" + suffix
		what := "decode(encode(img)) != img"
		if pred >= 4 && pred <= 6 && im.P >= 15 && codec != 8 {
			cls = "jll-pred456-wrap"
			what = fmt.Sprintf("decode(encode(img)) != img with predictor %d at P=%d (prediction outside [0,2^P), decoder wraps once)", pred, im.P)
		}
		// first differing sample
		ds := c02Samples(dec.Pix, im.W, im.H, im.NC, im.P)
		where := ""
	outer:
		for i := 0; i < im.W*im.H; i++ {
			for k := 0; k < im.NC; k++ {
				if ds[k][i] != im.S[k][i] {
					where = fmt.Sprintf("comp %d row %d col %d: want %d got %d", k, i/im.W, i%im.W, im.S[k][i], ds[k][i])
					break outer
				}
			}
		}
		in := c02Input(codec, im)
		in["effective_predictor"] = pred
		c02Fail(c, hx.Failure{Class: cls, What: what, Input: in, Expected: where, Actual: hx.Hex(dec.Pix[:min(len(dec.Pix), 64)])})
	}
	return enc
}

// ---- content generators -------------------------------------------------------------------

func c02NewImg(w, h, nc, p int) c02Img {
	im := c02Img{W: w, H: h, NC: nc, P: p, S: make([][]int, nc)}
	for c := range im.S {
		im.S[c] = make([]int, w*h)
	}
	return im
}

var c02Classes = []string{"noise", "alternate", "constant", "ramp", "cat16", "skewed", "extremes-2d", "smooth"}

func c02Content(r *hx.Rand, w, h, nc, p int, class string) c02Img {
	im := c02NewImg(w, h, nc, p)
	max := 1<<uint(p) - 1
	for c := 0; c < nc; c++ {
		s := im.S[c]
		switch class {
		case "noise":
			for i := range s {
				s[i] = r.Intn(max + 1)
			}
		case "alternate": // 0 / 2^P-1 alternating along the scan, phase per component
			for i := range s {
				if (i+c)%2 == 0 {
					s[i] = max
				}
			}
		case "constant":
			v := []int{0, max, 1 << uint(p-1), r.Intn(max + 1)}[r.Intn(4)]
			for i := range s {
				s[i] = v
			}
		case "ramp":
			step := 1 + r.Intn(3)
			for i := range s {
				s[i] = (i*step + c*7) & max
			}
		case "cat16": // differences of exactly ±32768 (category 16) for left/up prediction
			half := 1 << uint(p-1)
			for i := range s {
				switch r.Intn(4) {
				case 0:
					s[i] = 0
				case 1:
					s[i] = half & max
				case 2:
					s[i] = max
				default:
					s[i] = (half - 1) & max
				}
			}
		case "skewed": // horizontal differences whose categories follow a Fibonacci-like profile -> long codes
			fib := []int{1, 1, 2, 3, 5, 8, 13, 21, 34, 55, 89, 144, 233, 377, 610, 987, 1597}
			// category k (0..p) with weight fib[p-k]
			tot := 0
			for k := 0; k <= p; k++ {
				tot += fib[p-k]
			}
			cur := r.Intn(max + 1)
			for i := range s {
				x := r.Intn(tot)
				k := 0
				for ; k <= p; k++ {
					if x < fib[p-k] {
						break
					}
					x -= fib[p-k]
				}
				d := 0
				if k > 0 {
					d = 1<<uint(k-1) + r.Intn(1<<uint(k-1))
					if r.Bool() {
						d = -d
					}
				}
				cur = (cur + d) & max
				s[i] = cur
			}
		case "extremes-2d": // blocks that make Ra+Rb-Rc leave the range
			for i := range s {
				row, col := i/w, i%w
				if (row+col)%2 == 1 {
					s[i] = max
				}
				if r.Intn(6) == 0 {
					s[i] = r.Intn(max + 1)
				}
			}
		case "smooth":
			base := r.Intn(max + 1)
			for i := range s {
				row, col := i/w, i%w
				v := base + row*2 + col*3 + r.Intn(3)
				if v > max {
					v = max
				}
				s[i] = v
			}
		}
	}
	return im
}

// ---- kernel correspondence ----------------------------------------------------------------

func c02WriteReal(ws [][2]int) []byte {
	var buf bytes.Buffer
	e := standard.NewHuffmanEncoder(&buf)
	for _, w := range ws {
		_ = e.WriteBits(uint32(w[0]), w[1])
	}
	_ = e.Flush()
	return buf.Bytes()
}

func c02TableOp(bits [16]int, values []byte) string {
	bs := make([]int, 16)
	copy(bs, bits[:])
	return c02IntsStr(bs) + " " + hx.Hex(values)
}

// c02ValidTable: decidable validity of (BITS, HUFFVAL) as in Lemmas/JllCanon.lean ValidTable (+ strict Kraft).
func c02ValidTable(bits [16]int, values []byte) (ok bool, strict bool) {
	sum, kraft := 0, 0
	for l := 0; l < 16; l++ {
		if bits[l] < 0 {
			return false, false
		}
		sum += bits[l]
		kraft += bits[l] << uint(15-l)
	}
	seen := map[byte]bool{}
	for _, v := range values {
		if seen[v] {
			return false, false
		}
		seen[v] = true
	}
	return sum == len(values) && kraft <= 65536, kraft < 65536
}

// c02RandomCanonical draws a random valid canonical table over the symbols 0..nsym-1 (all present).
func c02RandomCanonical(r *hx.Rand, nsym int) ([16]int, []byte) {
	for {
		var bits [16]int
		// random lengths, then check Kraft (strict, T.81: all-ones code unused)
		lens := make([]int, nsym)
		kraft := 0
		for i := range lens {
			lens[i] = 1 + r.Intn(16)
			if r.Intn(3) > 0 {
				lens[i] = 2 + r.Intn(7)
			}
			kraft += 1 << uint(16-lens[i])
		}
		if kraft >= 65536 {
			continue
		}
		for _, l := range lens {
			bits[l-1]++
		}
		perm := make([]byte, nsym)
		for i := range perm {
			perm[i] = byte(i)
		}
		for i := nsym - 1; i > 0; i-- {
			j := r.Intn(i + 1)
			perm[i], perm[j] = perm[j], perm[i]
		}
		return bits, perm
	}
}

func c02CanonCase(c *hx.Ctx, bits [16]int, values []byte, tag string) {
	c.Count("canon:" + tag)
	// jll-build: HuffmanTable.Build itself (ok | err | panic)
	var berr error
	bpan, _ := hx.Guard(func() {
		t := &standard.HuffmanTable{Bits: bits, Values: append([]byte{}, values...)}
		berr = t.Build()
	})
	breal := "ok"
	if bpan {
		breal = "panic"
	} else if berr != nil {
		breal = "err"
	}
	c.Count("canon:build-" + breal)
	c.Case("jll-build "+c02TableOp(bits, values), breal)
	var codes []standard.HuffmanCode
	pan, _ := hx.Guard(func() {
		t := standard.BuildStandardHuffmanTable(bits, values)
		codes = standard.BuildHuffmanCodes(t)
	})
	real := "panic"
	if !pan {
		var ent []string
		for s := 0; s < 256; s++ {
			if codes[s].Len > 0 {
				ent = append(ent, fmt.Sprintf("%d:%d:%d", s, codes[s].Code, codes[s].Len))
			}
		}
		real = "ok -"
		if len(ent) > 0 {
			real = "ok " + strings.Join(ent, ",")
		}
	}
	c.Case("jll-canon "+c02TableOp(bits, values), real)
}

// c02HdecCase: encode a random symbol sequence with the table's codes (real writer), decode k symbols with the real decoder.
func c02HdecCase(c *hx.Ctx, bits [16]int, values []byte, tag string) {
	if len(values) == 0 {
		return
	}
	var stream []byte
	var want []int
	k := 1 + c.R.Intn(24)
	var got []int
	outcome := "ok"
	pan, _ := hx.Guard(func() {
		t := standard.BuildStandardHuffmanTable(bits, values)
		codes := standard.BuildHuffmanCodes(t)
		var ws [][2]int
		for i := 0; i < k; i++ {
			s := int(values[c.R.Intn(len(values))])
			want = append(want, s)
			ws = append(ws, [2]int{int(codes[s].Code), codes[s].Len})
		}
		stream = c02WriteReal(ws)
		if c.R.Intn(6) == 0 && len(stream) > 0 { // damaged: truncated or flipped
			if c.R.Bool() {
				stream = stream[:c.R.Intn(len(stream))]
			} else {
				stream[c.R.Intn(len(stream))] ^= byte(1 << uint(c.R.Intn(8)))
			}
			want = nil
		}
		d := standard.NewHuffmanDecoder(bytes.NewReader(stream))
		for i := 0; i < k; i++ {
			s, err := d.Decode(t)
			if err != nil {
				outcome = "err"
				return
			}
			got = append(got, int(s))
		}
	})
	if pan {
		c.Case(fmt.Sprintf("jll-hdec %s %s %d", c02TableOp(bits, values), hx.Hex(stream), k), "panic")
		return
	}
	real := "err"
	if outcome == "ok" {
		real = "ok " + c02IntsStr(got)
	}
	c.Case(fmt.Sprintf("jll-hdec %s %s %d", c02TableOp(bits, values), hx.Hex(stream), k), real)
	c.Count("hdec:" + tag + ":" + outcome)
	// property (L5 on the real code): valid table -> decode(encode(syms)) == syms
	if ok, _ := c02ValidTable(bits, values); ok && want != nil {
		c.Eval(fmt.Sprintf("hdec|%v|%x|%v", bits, values, want), true)
		if outcome != "ok" || c02IntsStr(got) != c02IntsStr(want) {
			c02Fail(c, hx.Failure{Class: "jll-canon-roundtrip", What: "Huffman decode of the encoder's codes differs for a valid table",
				Input: map[string]any{"bits": fmt.Sprint(bits), "values": hx.Hex(values), "symbols": c02IntsStr(want)}, Expected: c02IntsStr(want), Actual: real})
		}
	}
}

func c02Kernels(c *hx.Ctx) {
	// jll-pred: Gen.Predictor vs lossless.Predictor
	edge := []int{0, 1, 2, 127, 128, 255, 256, 4095, 32767, 32768, 65534, 65535}
	for p := 0; p <= 8; p++ {
		for _, a := range edge {
			for _, b := range edge {
				for _, cc := range []int{0, 1, 255, 32767, 65535} {
					c.Case(fmt.Sprintf("jll-pred %d %d %d %d", p, a, b, cc), fmt.Sprintf("ok %d", lossless.Predictor(p, a, b, cc)))
				}
			}
		}
	}
	n := 2000
	if c.Thorough() {
		n = 40000
	}
	for i := 0; i < n; i++ {
		p, a, b, cc := c.R.Range(-1, 9), c.R.Intn(65536), c.R.Intn(65536), c.R.Intn(65536)
		c.Case(fmt.Sprintf("jll-pred %d %d %d %d", p, a, b, cc), fmt.Sprintf("ok %d", lossless.Predictor(p, a, b, cc)))
	}
	// jll-cat: EncodeLosslessDifference; jll-ext: ReceiveLosslessDifference over the real writer's bytes.
	// The property of L3 is evaluated on the real code for every value visited.
	he := standard.NewHuffmanEncoder(&bytes.Buffer{})
	catCase := func(d int) {
		cat, bits := he.EncodeLosslessDifference(d)
		c.Case(fmt.Sprintf("jll-cat %d", d), fmt.Sprintf("ok %d %d", cat, bits))
		var ws [][2]int
		if cat > 0 && cat != 16 {
			ws = append(ws, [2]int{int(bits), cat})
		}
		ws = append(ws, [2]int{0x2A, 6})
		stream := c02WriteReal(ws)
		dec := standard.NewHuffmanDecoder(bytes.NewReader(stream))
		v, err := dec.ReceiveLosslessDifference(cat)
		real := "err"
		if err == nil {
			real = fmt.Sprintf("ok %d", v)
		}
		c.Case(fmt.Sprintf("jll-ext %d %s", cat, hx.Hex(stream)), real)
		c.Eval(fmt.Sprintf("cat|%d", d), true)
		c.Count(fmt.Sprintf("category:%02d", cat))
		if err != nil || v != d || cat < 0 || cat > 16 || (cat < 16 && int(bits) >= 1<<uint(cat)) {
			c02Fail(c, hx.Failure{Class: "jll-category", What: "category/extend round trip of a 16-bit difference fails", Input: map[string]any{"diff": d},
				Expected: fmt.Sprint(d), Actual: real})
		}
	}
	if c.Thorough() {
		for d := -32768; d <= 32767; d++ {
			catCase(d)
		}
	} else {
		for k := 0; k <= 15; k++ {
			for _, d := range []int{1 << uint(k), 1<<uint(k) - 1, 1<<uint(k) + 1, -(1 << uint(k)), -(1 << uint(k)) + 1, -(1 << uint(k)) - 1} {
				if d >= -32768 && d <= 32767 {
					catCase(d)
				}
			}
		}
		catCase(0)
		for i := 0; i < 1500; i++ {
			catCase(c.R.Range(-32768, 32767))
		}
	}
	// jll-huffbits / jll-readbits
	m := 600
	if c.Thorough() {
		m = 12000
	}
	for i := 0; i < m; i++ {
		k := c.R.Intn(40)
		var ws [][2]int
		var parts []string
		ff := c.R.Intn(3) == 0
		for j := 0; j < k; j++ {
			nb := c.R.Intn(17)
			v := int(c.R.U64() & 0xFFFFFFFF)
			if ff || c.R.Intn(4) == 0 {
				v = 0xFFFFFFFF
				if c.R.Intn(5) == 0 {
					v = 0xFFFE
				}
			}
			if c.R.Intn(3) == 0 && nb > 0 {
				v &= 1<<uint(nb) - 1
			}
			ws = append(ws, [2]int{v, nb})
			parts = append(parts, fmt.Sprintf("%d:%d", v, nb))
		}
		stream := c02WriteReal(ws)
		op := "-"
		if len(parts) > 0 {
			op = strings.Join(parts, ",")
		}
		c.Case("jll-huffbits "+op, "ok "+hx.Hex(stream))
		if bytes.Contains(stream, []byte{0xFF, 0x00}) {
			c.Count("branch:0xFF-stuffed")
		}
		// stuffing invariant on the real writer's output (property of L4)
		c.Eval("stuff|"+op, len(stream) > 0)
		for q := 0; q < len(stream); q++ {
			if stream[q] == 0xFF && (q+1 >= len(stream) || stream[q+1] != 0) {
				c02Fail(c, hx.Failure{Class: "jll-stuffing", What: "0xFF not followed by 0x00 in entropy-coded bytes", Input: map[string]any{"writes": op}, Actual: hx.Hex(stream)})
				break
			}
		}
		// read back with a random mix of ReadBit / ReadBits, possibly on a damaged stream
		rd := append([]byte{}, stream...)
		if c.R.Intn(5) == 0 && len(rd) > 0 {
			switch c.R.Intn(3) {
			case 0:
				rd = rd[:c.R.Intn(len(rd))]
			case 1:
				rd[c.R.Intn(len(rd))] = 0xFF
			case 2:
				rd = append(rd, 0xFF)
			}
			c.Count("readbits:damaged")
		}
		dec := standard.NewHuffmanDecoder(bytes.NewReader(rd))
		var ns, vs []int
		okAll := true
		for j := 0; j < k+2 && okAll; j++ {
			nb := c.R.Intn(17)
			if j < len(ws) && c.R.Bool() {
				nb = ws[j][1]
			}
			ns = append(ns, nb)
			if nb == 0 {
				b, err := dec.ReadBit()
				if err != nil {
					okAll = false
					break
				}
				if b {
					vs = append(vs, 1)
				} else {
					vs = append(vs, 0)
				}
			} else {
				v, err := dec.ReadBits(nb)
				if err != nil {
					okAll = false
					break
				}
				vs = append(vs, int(v))
			}
		}
		real := "err"
		if okAll {
			real = "ok " + c02IntsStr(vs)
		}
		c.Case(fmt.Sprintf("jll-readbits %s %s", hx.Hex(rd), c02IntsStr(ns)), real)
	}
	// jll-opt on profiles deeper than 32 (outside the 17-symbol lossless alphabet): outcome class must agree (panic)
	for _, nsym := range []int{31, 32, 33, 34, 40, 60} {
		var freq [256]uint64
		fs := make([]int, 256)
		for s := 0; s < nsym; s++ { // 3^s-like growth would overflow; 2^s with distinct exponents gives depth nsym
			freq[s] = uint64(1) << uint(s+1)
			fs[s] = 1 << uint(s+1)
		}
		var ot *standard.HuffmanTable
		pan, _ := hx.Guard(func() { ot = standard.BuildOptimalHuffmanTable(freq) })
		real := "panic"
		if !pan {
			real = "ok " + c02TableOp(ot.Bits, ot.Values)
		}
		c.Case("jll-opt "+c02IntsStr(fs), real)
		c.Count(fmt.Sprintf("opt-deep:%d:%s", nsym, real[:2]))
	}
	c02OptDeepFamily(c)
	// jll-canon / jll-hdec: standard, optimal, random valid, invalid tables
	var lumBits [16]int
	copy(lumBits[:], []int{0, 1, 5, 1, 1, 1, 1, 1, 1, 0, 0, 0, 0, 0, 0, 0})
	lumVals := []byte{0, 1, 2, 3, 4, 5, 6, 7, 8, 9, 10, 11}
	c02CanonCase(c, lumBits, lumVals, "std-lum")
	c02HdecCase(c, lumBits, lumVals, "std-lum")
	t := 150
	if c.Thorough() {
		t = 3000
	}
	for i := 0; i < t; i++ {
		// per-image-optimal-like: random frequency vectors through the real BuildOptimalHuffmanTable
		var freq [256]uint64
		nsym := 1 + c.R.Intn(17)
		if c.R.Intn(10) == 0 {
			nsym = 1 + c.R.Intn(256)
		}
		switch c.R.Intn(3) {
		case 0:
			for s := 0; s < nsym; s++ {
				freq[s] = 1 + c.R.U64()%1000
			}
		case 1: // Fibonacci-like: forces the length-limiting loop (> 16 bit codes before limiting)
			a, b := uint64(1), uint64(1)
			for s := 0; s < nsym && s < 30; s++ { // depth <= 30 < maxHuffmanCodeLength (32); deeper profiles panic, outside the lossless alphabet
				freq[s] = a
				a, b = b, a+b
			}
		case 2:
			for s := 0; s < nsym; s++ {
				freq[c.R.Intn(256)] = 1 << uint(c.R.Intn(29))
			}
		}
		var ot *standard.HuffmanTable
		pan, msg := hx.Guard(func() { ot = standard.BuildOptimalHuffmanTable(freq) })
		{ // jll-opt: the code-shaped model of BuildOptimalHuffmanTable on the same frequencies
			fs := make([]int, 256)
			for s := range fs {
				fs[s] = int(freq[s])
			}
			real := "panic"
			if !pan {
				real = "ok " + c02TableOp(ot.Bits, ot.Values)
			}
			c.Case("jll-opt "+c02IntsStr(fs), real)
		}
		c.Eval(fmt.Sprintf("opt|%v", freq), true)
		if pan {
			// optimal_table_total: the routine returns a table for EVERY frequency vector (work array sized for the
			// deepest possible tree since 9f5cc40); any panic is a failure
			c02Fail(c, hx.Failure{Class: "jll-opt-panic", What: "BuildOptimalHuffmanTable panics: " + msg, Input: map[string]any{"freq": fmt.Sprint(freq)}})
			continue
		}
		ok, strict := c02ValidTable(ot.Bits, ot.Values)
		present := map[byte]bool{}
		for _, v := range ot.Values {
			present[v] = true
		}
		all := true
		for s := 0; s < 256; s++ {
			if freq[s] > 0 && !present[byte(s)] {
				all = false
			}
		}
		maxLen := 0
		for l := 0; l < 16; l++ {
			if ot.Bits[l] > 0 {
				maxLen = l + 1
			}
		}
		c.Count(fmt.Sprintf("opt:maxlen:%02d", maxLen))
		if !ok || !strict || !all {
			c02Fail(c, hx.Failure{Class: "jll-opt-invalid", What: fmt.Sprintf("BuildOptimalHuffmanTable output not a valid table (valid=%v strictKraft=%v allSymbols=%v)", ok, strict, all),
				Input: map[string]any{"freq": fmt.Sprint(freq)}, Actual: c02TableOp(ot.Bits, ot.Values)})
		}
		c02CanonCase(c, ot.Bits, ot.Values, "optimal")
		c02HdecCase(c, ot.Bits, ot.Values, "optimal")
		// random valid canonical
		rb, rv := c02RandomCanonical(c.R, 1+c.R.Intn(17))
		c02CanonCase(c, rb, rv, "random-valid")
		c02HdecCase(c, rb, rv, "random-valid")
		// invalid: counts that overflow the code space / lookup index (feeds C08)
		if i%3 == 0 {
			var ib [16]int
			nv := 0
			for l := 0; l < 16; l++ {
				if c.R.Intn(4) == 0 {
					ib[l] = c.R.Intn(6)
				}
				nv += ib[l]
			}
			iv := make([]byte, nv)
			for j := range iv {
				iv[j] = byte(c.R.Intn(20))
			}
			c02CanonCase(c, ib, iv, "random-any")
			c02HdecCase(c, ib, iv, "random-any")
		}
	}
}


// c02FibExact builds a one-row image (w = number of samples, h = 1) of nc components at precision p whose
// horizontal differences (predictor 1 / SV1; also every predictor's first-line rule in the standard) use ALL
// p+1 difference categories 0..p with exact Fibonacci counts (category k occurs fib[p-k] times, in random
// order): the per-image optimal table then has pre-limit code sizes up to p+1 (> 16 for p = 16), which
// exercises the length-limiting loop and the value collection of BuildOptimalHuffmanTable.
func c02FibExact(r *hx.Rand, nc, p int) c02Img {
	fib := []int{1, 1, 2, 3, 5, 8, 13, 21, 34, 55, 89, 144, 233, 377, 610, 987, 1597}
	var cats []int
	for k := 0; k <= p; k++ {
		for j := 0; j < fib[p-k]; j++ {
			cats = append(cats, k)
		}
	}
	// the first sample is coded against 2^(P-1): make it category 0 by starting there
	im := c02NewImg(len(cats)+1, 1, nc, p)
	mask := 1<<uint(p) - 1
	for c := 0; c < nc; c++ {
		for i := len(cats) - 1; i > 0; i-- {
			j := r.Intn(i + 1)
			cats[i], cats[j] = cats[j], cats[i]
		}
		cur := 1 << uint(p-1)
		im.S[c][0] = cur
		for i, k := range cats {
			d := 0
			if k > 0 {
				d = 1<<uint(k-1) + r.Intn(1<<uint(k-1))
				if k == 16 {
					d = 32768
				} else if r.Bool() {
					d = -d
				}
			}
			cur = (cur + d) & mask
			im.S[c][i+1] = cur
		}
	}
	return im
}

// c02OptDeepFamily: correspondence family for BuildOptimalHuffmanTable on DEEP-TREE frequency vectors over
// 20..162 symbols (the baseline/extended AC alphabet sizes): Fibonacci-like and geometric profiles, with ties
// and jitter, spread over random byte values. Pre-limit code sizes reach 17..32 (length-limiting loop,
// Figure K.3, value collection over sizes 1..32) and, for a few vectors, exceed 32 (the bits[size] index
// panic: outcome class must agree). Exported for other properties' harnesses (C11 calls it; its driver must
// include Drv.JpegLossless.step? for the `jll-opt` op).
func c02OptDeepFamily(c *hx.Ctx) {
	sizes := []int{20, 24, 31, 33, 48, 64, 100, 128, 162}
	rounds := 2
	if c.Thorough() {
		rounds = 12
	}
	for rd := 0; rd < rounds; rd++ {
		for _, n := range sizes {
			for profile := 0; profile < 5; profile++ {
				var freq [256]uint64
				perm := make([]int, 256)
				for i := range perm {
					perm[i] = i
				}
				for i := 255; i > 0; i-- {
					j := c.R.Intn(i + 1)
					perm[i], perm[j] = perm[j], perm[i]
				}
				depth := 17 + c.R.Intn(15) // deep part: 17..31 symbols on a skewed spine
				if profile == 4 {
					depth = 33 + c.R.Intn(8) // beyond maxHuffmanCodeLength: panic expected
				}
				if depth > n {
					depth = n
				}
				a, b := uint64(1), uint64(1)
				for s := 0; s < n; s++ {
					var v uint64
					switch {
					case s >= depth: // the rest of the alphabet: small equal-ish counts (bushy part)
						v = 1 + uint64(c.R.Intn(3))
					case profile == 0: // Fibonacci
						v = a
						a, b = b, a+b
					case profile == 1 || profile == 4: // doubling (distinct powers of two): maximally skewed; depth = number of spine symbols
						v = uint64(1) << uint(s+1)
					case profile == 2: // Fibonacci with jitter
						v = a + uint64(c.R.Intn(int(a/4)+1))
						a, b = b, a+b
					default: // ~1.7^s
						v = a
						a = a + a*7/10 + 1
					}
					freq[perm[s]] = v
				}
				var ot *standard.HuffmanTable
				pan, _ := hx.Guard(func() { ot = standard.BuildOptimalHuffmanTable(freq) })
				fs := make([]int, 256)
				for s := range fs {
					fs[s] = int(freq[s])
				}
				real := "panic"
				if !pan {
					real = "ok " + c02TableOp(ot.Bits, ot.Values)
					maxLen := 0
					for l := 0; l < 16; l++ {
						if ot.Bits[l] > 0 {
							maxLen = l + 1
						}
					}
					c.Count(fmt.Sprintf("opt-deep-family:maxlen:%02d", maxLen))
					// validity of the real output (searched; the theorem covers depth <= 32)
					ok, strict := c02ValidTable(ot.Bits, ot.Values)
					c.Eval(fmt.Sprintf("optdeep|%v", freq), true)
					if !ok || !strict || len(ot.Values) != n {
						c02Fail(c, hx.Failure{Class: "std-opt-invalid-deep", What: fmt.Sprintf("BuildOptimalHuffmanTable output invalid on a deep %d-symbol profile (valid=%v strict=%v values=%d)", n, ok, strict, len(ot.Values)),
							Input: map[string]any{"freq": fmt.Sprint(freq)}, Actual: c02TableOp(ot.Bits, ot.Values)})
					}
				}
				c.Case("jll-opt "+c02IntsStr(fs), real)
				c.Count("opt-deep-family:" + real[:2])
			}
		}
	}
}

// ---- property search ----------------------------------------------------------------------

func c02Search(c *hx.Ctx) {
	// 0. the DESIGN witness first: P=15 predictor 4, [0,32767;32767,0]
	w0 := c02NewImg(2, 2, 1, 15)
	copy(w0.S[0], []int{0, 32767, 32767, 0})
	for _, codec := range []int{4, 5, 6} {
		c02RoundTrip(c, codec, w0, "witness")
	}
	w1 := c02NewImg(2, 2, 1, 16)
	copy(w1.S[0], []int{0, 65535, 65535, 0})
	c02RoundTrip(c, 4, w1, "witness")

	// 1. exhaustive small images: all 1x1..3x3 at P=2 (and P=3 up to 6 samples); quick: stratified sample
	type geo struct{ w, h int }
	var geos []geo
	for h := 1; h <= 3; h++ {
		for w := 1; w <= 3; w++ {
			geos = append(geos, geo{w, h})
		}
	}
	for _, p := range []int{2, 3} {
		for _, g := range geos {
			n := g.w * g.h
			total := 1
			for i := 0; i < n; i++ {
				total *= 1 << uint(p)
			}
			stride := 1
			if !c.Thorough() {
				if total > 512 {
					stride = total/257 + 1
				}
			} else if total > 300000 { // P=3 with 7..9 samples: 2M..134M images; sampled even in thorough
				stride = total/200003 + 1
			}
			off := 0
			if stride > 1 {
				off = int(c.Seed) % stride
			}
			for v := off; v < total; v += stride {
				im := c02NewImg(g.w, g.h, 1, p)
				x := v
				for i := 0; i < n; i++ {
					im.S[0][i] = x & (1<<uint(p) - 1)
					x >>= uint(p)
				}
				for codec := 0; codec <= 8; codec++ {
					if stride > 1 && !c.Thorough() && (v/stride+codec)%3 != 0 {
						continue
					}
					if c.Thorough() && total > 100000 && (v+codec)%3 != 0 { // large sets: every image, 3 of the 9 codecs in rotation
						continue
					}
					c02RoundTrip(c, codec, im, "exhaustive-small")
				}
			}
		}
	}
	// 2. every P x codec x content class, two geometries
	for p := 2; p <= 16; p++ {
		for codec := 0; codec <= 8; codec++ {
			for _, cl := range c02Classes {
				for _, nc := range []int{1, 3} {
					if !c.Thorough() && nc == 3 && (p+codec)%2 == 1 {
						continue
					}
					w, h := c.R.Range(1, 12), c.R.Range(1, 12)
					if cl == "skewed" {
						w, h = c.R.Range(30, 80), c.R.Range(8, 30)
					}
					c02RoundTrip(c, codec, c02Content(c.R, w, h, nc, p, cl), cl)
				}
			}
		}
	}
	// 2b. exact Fibonacci category profiles (all P+1 categories, pre-limit code sizes up to P+1)
	for _, p := range []int{12, 15, 16} {
		for _, nc := range []int{1, 3} {
			for _, codec := range []int{1, 8, 4, 0} {
				c02RoundTrip(c, codec, c02FibExact(c.R, nc, p), "fib-exact")
			}
		}
	}
	// 3. random geometry / content
	n := 600
	maxDim := 40
	if c.Thorough() {
		n = 20000
		maxDim = 96
	}
	for i := 0; i < n; i++ {
		p := c.R.Range(2, 16)
		if c.R.Intn(3) == 0 {
			p = c.R.Pick([]int{2, 8, 12, 15, 16})
		}
		w, h := c.R.Range(1, maxDim), c.R.Range(1, maxDim)
		if c.R.Intn(8) == 0 {
			w = 1
		}
		if c.R.Intn(8) == 0 {
			h = 1
		}
		nc := c.R.Pick([]int{1, 1, 3})
		c02RoundTrip(c, c.R.Intn(9), c02Content(c.R, w, h, nc, p, c02Classes[c.R.Intn(len(c02Classes))]), "random")
	}
	// 4. extreme geometry (thorough): 65535x1, 1x65535, 512x512
	if c.Thorough() {
		for _, g := range [][2]int{{65535, 1}, {1, 65535}, {512, 512}} {
			for _, p := range []int{8, 16} {
				for _, codec := range []int{1, 2, 7, 8} {
					c02RoundTrip(c, codec, c02Content(c.R, g[0], g[1], 1, p, "noise"), "large")
				}
			}
		}
		c02RoundTrip(c, 0, c02Content(c.R, 65535, 1, 3, 12, "smooth"), "large")
	}
}

// c02HookCases is set by c02hooks.go (build tags verif && jllhooks) once the proposed hook file
// hooks/jpeg/lossless/verif_hooks.go is present in the repo.
var c02HookCases func(c *hx.Ctx)

func c02(c *hx.Ctx) {
	c.Rule = "evaluations: (codec in {lossless predictor 0..7, SV1}) x image round trips through the public Encode/Decode " +
		"(exhaustive 1x1..3x3 at P<=3 [sampled in quick; P=3 with >6 samples sampled], every P 2..16 x codec x content class " +
		"{noise, 0/2^P-1 alternating, constant, ramp, category-16 differences, Fibonacci-skewed categories, 2-D extremes, smooth}, " +
		"random geometry), plus the category/extend round trip per 16-bit difference, the stuffing invariant per write list, " +
		"Huffman decode(encode) per valid table and validity of BuildOptimalHuffmanTable outputs; distinct = distinct (codec, geometry, " +
		"pixels) resp. distinct kernel input; non-trivial = image of >= 2 samples / non-empty stream"
	c02Kernels(c)
	c02Search(c)
	c02Streams(c)
	if c02HookCases != nil {
		c02HookCases(c)
	}
}

func init() { register("C02", c02) }
