package main

// C17 — encoders reject unrepresentable input: error, never panic or mis-declared stream.
//
// Correspondence (tie of the GENERATED validation prefixes to the real functions):
//   val-<encoder> <len> <args…>  real: "reject" iff the real Encode returned an error,
//                                "accept" otherwise (stream or panic: the prefix let it through);
//                                model: the go2lean-generated `accepts` evaluated by the Lean driver.
//   norm-<params> <fields…>      real: the exported Validate() on the typed parameter struct.
//   rle-enc …                    the C01 model of Codec.encodeFrame (ok/err/panic), >15 segments.
// Property on the real code, through the public API, everything under hx.Guard:
//   the call returns an error, or a stream whose DECODED geometry equals the request and whose
//   arguments the format can represent — never a panic, never a mis-declared/undecodable stream.

import (
	"fmt"
	"strings"
	"time"

	gdcodec "github.com/cocosip/go-dicom-codecs/codec"
	"github.com/cocosip/go-dicom-codecs/jpeg/baseline"
	"github.com/cocosip/go-dicom-codecs/jpeg/extended"
	jlossless "github.com/cocosip/go-dicom-codecs/jpeg/lossless"
	"github.com/cocosip/go-dicom-codecs/jpeg/lossless14sv1"
	"github.com/cocosip/go-dicom-codecs/jpeg2000"
	"github.com/cocosip/go-dicom-codecs/jpeg2000/htj2k"
	j2klossless "github.com/cocosip/go-dicom-codecs/jpeg2000/lossless"
	j2klossy "github.com/cocosip/go-dicom-codecs/jpeg2000/lossy"
	jlsl "github.com/cocosip/go-dicom-codecs/jpegls/lossless"
	jlsn "github.com/cocosip/go-dicom-codecs/jpegls/nearlossless"
	"github.com/cocosip/go-dicom-codecs/rle"
	"github.com/cocosip/go-dicom/pkg/imaging/codec"
	"github.com/cocosip/go-dicom/pkg/imaging/imagetypes"

	"verifharness/internal/hx"
)

// c17Geom is what a decoder reports; bd < 0 when the decoder does not report a depth.
type c17Geom struct{ w, h, c, bd int }

type c17Enc struct {
	name   string // op suffix: val-<name>
	family string // failure-class prefix
	encode func(buf []byte, a []int) ([]byte, error)
	decode func(stream []byte) (c17Geom, error)
	want   func(a []int) c17Geom                  // requested geometry
	need   func(a []int) int                      // bytes the frame needs (w·h·c·bytes); may be ≤ 0
	repr   func(n int, a []int) (bool, string)    // the format predicate, transcribed independently of the code; class of the violated clause
	base   []int                                  // a valid tuple
	axes   [][]int                                // boundary values per argument position
	labels []string
}

func c17Bps(p int) int { return (p + 7) / 8 }
func c17Dim16(v int) bool { return v >= 1 && v <= 65535 }

var c17Dims = []int{-1, 0, 1, 2, 3, 32767, 32768, 32769, 65534, 65535, 65536, 65537}

func c17ReprJpegDims(fam string, w, h, c int) (bool, string) {
	if w < 1 || h < 1 {
		return false, fam + "-nonpositive-dim"
	}
	if !c17Dim16(w) || !c17Dim16(h) {
		return false, fam + "-dim-over-65535"
	}
	if c != 1 && c != 3 {
		return false, fam + "-components"
	}
	return true, ""
}

func c17Encoders() []*c17Enc {
	g3 := func(w, h, c int, e error) (c17Geom, error) { return c17Geom{w, h, c, -1}, e }
	g4 := func(w, h, c, bd int, e error) (c17Geom, error) { return c17Geom{w, h, c, bd}, e }
	return []*c17Enc{
		{name: "baseline", family: "jpeg",
			encode: func(b []byte, a []int) ([]byte, error) { return baseline.Encode(b, a[0], a[1], a[2], a[3]) },
			decode: func(s []byte) (c17Geom, error) { _, w, h, c, e := baseline.Decode(s); return g3(w, h, c, e) },
			want:   func(a []int) c17Geom { return c17Geom{a[0], a[1], a[2], -1} },
			need:   func(a []int) int { return a[0] * a[1] * a[2] },
			repr: func(n int, a []int) (bool, string) {
				if ok, cl := c17ReprJpegDims("jpeg", a[0], a[1], a[2]); !ok {
					return false, cl
				}
				if a[3] < 1 || a[3] > 100 {
					return false, "jpeg-quality"
				}
				return n >= a[0]*a[1]*a[2], "jpeg-short-buffer"
			},
			base: []int{5, 3, 1, 75}, labels: []string{"w", "h", "c", "q"},
			axes: [][]int{c17Dims, c17Dims, {-1, 0, 1, 2, 3, 4, 5}, {-1, 0, 1, 2, 50, 99, 100, 101, 255, 256}}},
		{name: "extended", family: "jpeg",
			encode: func(b []byte, a []int) ([]byte, error) { return extended.Encode(b, a[0], a[1], a[2], a[3], a[4]) },
			decode: func(s []byte) (c17Geom, error) { _, w, h, c, bd, e := extended.Decode(s); return g4(w, h, c, bd, e) },
			want:   func(a []int) c17Geom { return c17Geom{a[0], a[1], a[2], a[3]} },
			need:   func(a []int) int { return a[0] * a[1] * a[2] * c17Bps(a[3]) },
			repr:   c17ReprExtended,
			base:   []int{5, 3, 1, 12, 75}, labels: []string{"w", "h", "c", "p", "q"},
			axes:   [][]int{c17Dims, c17Dims, {-1, 0, 1, 2, 3, 4}, {-1, 0, 1, 7, 8, 9, 11, 12, 13, 16}, {-1, 0, 1, 100, 101}}},
		{name: "extsimple", family: "jpeg",
			encode: func(b []byte, a []int) ([]byte, error) { return extended.EncodeSimple(b, a[0], a[1], a[2], a[3], a[4]) },
			decode: func(s []byte) (c17Geom, error) { _, w, h, c, bd, e := extended.DecodeSimple(s); return g4(w, h, c, bd, e) },
			want:   func(a []int) c17Geom { return c17Geom{a[0], a[1], a[2], a[3]} },
			need:   func(a []int) int { return a[0] * a[1] * a[2] * c17Bps(a[3]) },
			repr:   c17ReprExtended,
			base:   []int{5, 3, 3, 8, 75}, labels: []string{"w", "h", "c", "p", "q"},
			axes:   [][]int{c17Dims, c17Dims, {-1, 0, 1, 2, 3, 4}, {-1, 0, 7, 8, 9, 12, 16}, {-1, 0, 1, 100, 101}}},
		{name: "lossless", family: "jpeg",
			encode: func(b []byte, a []int) ([]byte, error) { return jlossless.Encode(b, a[0], a[1], a[2], a[3], a[4]) },
			decode: func(s []byte) (c17Geom, error) { _, w, h, c, bd, e := jlossless.Decode(s); return g4(w, h, c, bd, e) },
			want:   func(a []int) c17Geom { return c17Geom{a[0], a[1], a[2], a[3]} },
			need:   func(a []int) int { return a[0] * a[1] * a[2] * c17Bps(a[3]) },
			repr: func(n int, a []int) (bool, string) {
				if ok, cl := c17ReprJpegDims("jpeg", a[0], a[1], a[2]); !ok {
					return false, cl
				}
				if a[3] < 2 || a[3] > 16 {
					return false, "jpeg-depth"
				}
				if a[4] < 0 || a[4] > 7 {
					return false, "jpeg-predictor"
				}
				return n >= a[0]*a[1]*a[2]*c17Bps(a[3]), "jpeg-short-buffer"
			},
			base: []int{5, 3, 1, 12, 1}, labels: []string{"w", "h", "c", "p", "pred"},
			axes: [][]int{c17Dims, c17Dims, {-1, 0, 1, 2, 3, 4}, {-1, 0, 1, 2, 7, 8, 9, 15, 16, 17, 32}, {-1, 0, 1, 4, 7, 8, 15}}},
		{name: "sv1", family: "jpeg",
			encode: func(b []byte, a []int) ([]byte, error) { return lossless14sv1.Encode(b, a[0], a[1], a[2], a[3]) },
			decode: func(s []byte) (c17Geom, error) { _, w, h, c, bd, e := lossless14sv1.Decode(s); return g4(w, h, c, bd, e) },
			want:   func(a []int) c17Geom { return c17Geom{a[0], a[1], a[2], a[3]} },
			need:   func(a []int) int { return a[0] * a[1] * a[2] * c17Bps(a[3]) },
			repr: func(n int, a []int) (bool, string) {
				if ok, cl := c17ReprJpegDims("jpeg", a[0], a[1], a[2]); !ok {
					return false, cl
				}
				if a[3] < 2 || a[3] > 16 {
					return false, "jpeg-depth"
				}
				return n >= a[0]*a[1]*a[2]*c17Bps(a[3]), "jpeg-short-buffer"
			},
			base: []int{5, 3, 1, 16}, labels: []string{"w", "h", "c", "p"},
			axes: [][]int{c17Dims, c17Dims, {-1, 0, 1, 2, 3, 4}, {-1, 0, 1, 2, 7, 8, 9, 15, 16, 17, 32}}},
		{name: "jpegls", family: "jpegls",
			encode: func(b []byte, a []int) ([]byte, error) { return jlsl.Encode(b, a[0], a[1], a[2], a[3]) },
			decode: func(s []byte) (c17Geom, error) { _, w, h, c, bd, e := jlsl.Decode(s); return g4(w, h, c, bd, e) },
			want:   func(a []int) c17Geom { return c17Geom{a[0], a[1], a[2], a[3]} },
			need:   func(a []int) int { return a[0] * a[1] * a[2] * c17Bps(a[3]) },
			repr:   func(n int, a []int) (bool, string) { return c17ReprJpegLs(n, a[0], a[1], a[2], a[3], 0) },
			base:   []int{5, 3, 1, 8}, labels: []string{"w", "h", "c", "p"},
			axes:   [][]int{c17Dims, c17Dims, {-1, 0, 1, 2, 3, 4}, {-1, 0, 1, 2, 7, 8, 9, 12, 16, 17, 32}}},
		{name: "jpeglsnear", family: "jpegls",
			encode: func(b []byte, a []int) ([]byte, error) { return jlsn.Encode(b, a[0], a[1], a[2], a[3], a[4]) },
			decode: func(s []byte) (c17Geom, error) { _, w, h, c, bd, _, e := jlsn.Decode(s); return g4(w, h, c, bd, e) },
			want:   func(a []int) c17Geom { return c17Geom{a[0], a[1], a[2], a[3]} },
			need:   func(a []int) int { return a[0] * a[1] * a[2] * c17Bps(a[3]) },
			repr:   func(n int, a []int) (bool, string) { return c17ReprJpegLs(n, a[0], a[1], a[2], a[3], a[4]) },
			base:   []int{5, 3, 1, 8, 2}, labels: []string{"w", "h", "c", "p", "near"},
			axes:   [][]int{c17Dims, c17Dims, {-1, 0, 1, 2, 3, 4}, {-1, 0, 1, 2, 3, 8, 12, 16, 17}, {-1, 0, 1, 2, 3, 127, 128, 200, 255, 256}}},
	}
}

func c17ReprExtended(n int, a []int) (bool, string) {
	if ok, cl := c17ReprJpegDims("jpeg", a[0], a[1], a[2]); !ok {
		return false, cl
	}
	if a[4] < 1 || a[4] > 100 {
		return false, "jpeg-quality"
	}
	switch a[3] {
	case 8:
		return n >= a[0]*a[1]*a[2], "jpeg-short-buffer"
	case 12:
		if a[2] != 1 {
			return false, "jpeg-12bit-components"
		}
		return n >= a[0]*a[1]*2, "jpeg-short-buffer"
	}
	return false, "jpeg-depth"
}

func c17ReprJpegLs(n, w, h, c, p, near int) (bool, string) {
	if ok, cl := c17ReprJpegDims("jpegls", w, h, c); !ok {
		return false, cl
	}
	if p < 2 || p > 16 {
		return false, "jpegls-depth"
	}
	maxval := (1 << uint(p)) - 1
	if near < 0 || near > 255 {
		return false, "jpegls-near-range"
	}
	if near > maxval/2 {
		return false, "jpegls-near-exceeds-maxval-half"
	}
	return n >= w*h*c*c17Bps(p), "jpegls-no-buffer-length-check"
}

// c17Timed runs f with a watchdog; a runaway encode is reported, not waited for.
func c17Timed(f func()) (panicked bool, msg string, timedOut bool) {
	done := make(chan struct{})
	go func() {
		defer close(done)
		panicked, msg = hx.Guard(f)
	}()
	select {
	case <-done:
		return panicked, msg, false
	case <-time.After(60 * time.Second):
		return false, "", true
	}
}

// c17Buf: n bytes of native little-endian samples of depth p, every sample value in 0..3 (0..1 for p = 1),
// so that the content is valid for every depth and only the GEOMETRY arguments are under test.
func c17Buf(n, p int) []byte {
	if n < 0 {
		n = 0
	}
	m := 4
	if p == 1 {
		m = 2
	}
	b := make([]byte, n)
	two := p > 8
	for i := range b {
		switch {
		case !two:
			b[i] = byte((i*7 + i/13) % m)
		case i%2 == 0:
			b[i] = byte(((i/2)*7 + i/26) % m)
		}
	}
	return b
}

// c17Fail records at most 6 failing inputs per class (all are counted under "c17-failing-inputs:<class>").
var c17PerClass = map[string]int{}

func c17Fail(c *hx.Ctx, f hx.Failure) {
	c17PerClass[f.Class]++
	c.Count("c17-failing-inputs:" + f.Class)
	if c17PerClass[f.Class] <= 6 {
		c.Fail(f)
	}
}

func c17Args(a []int) string {
	s := make([]string, len(a))
	for i, v := range a {
		s[i] = fmt.Sprint(v)
	}
	return strings.Join(s, " ")
}

func c17Short(msg string) string {
	if len(msg) > 300 {
		return msg[:300]
	}
	return msg
}

// c17One evaluates one argument tuple of one low-level encoder.
func c17One(c *hx.Ctx, e *c17Enc, n int, a []int) {
	// memory caution: never let a huge image through with a buffer that satisfies it
	if need := e.need(a); need > 1<<22 || (a[0] > 70000 || a[1] > 70000) || (a[0] > 256 && a[1] > 256) {
		c.Count("skipped-too-large")
		return
	}
	depth := e.want(a).bd
	if depth < 0 {
		depth = 8
	}
	buf := c17Buf(n, depth)
	var out []byte
	var err error
	p, msg, to := c17Timed(func() { out, err = e.encode(buf, a) })
	in := map[string]any{"encoder": e.name, "len": n, "args": a, "labels": e.labels}
	op := fmt.Sprintf("val-%s %d %s", e.name, n, c17Args(a))
	real := "accept"
	if !p && !to && err != nil {
		real = "reject"
	}
	c.Case(op, real)
	rep, clause := e.repr(n, a)
	c.Eval(op, !rep || n == e.need(a))
	c.Count("enc:" + e.name)
	if rep {
		c.Count("representable")
	} else {
		c.Count("unrepresentable:" + clause)
	}
	switch {
	case to:
		c17Fail(c, hx.Failure{Class: e.family + "-" + e.name + "-hang", What: "encode did not return within 60 s", Input: in})
	case p:
		cl := e.name + "-panic"
		if !rep {
			cl = clause
			if !strings.HasSuffix(clause, "-check") && !strings.Contains(clause, "near-exceeds") && !strings.Contains(clause, "over-65535") {
				cl = e.name + "-panic-" + clause
			}
		}
		c.Count("outcome:panic")
		c17Fail(c, hx.Failure{Class: cl, What: "Encode panicked", Input: in, Expected: "error", Actual: "panic " + c17Short(msg)})
	case err != nil:
		c.Count("outcome:err")
		if rep {
			c17Fail(c, hx.Failure{Class: "over-rejection-" + e.name, What: "a representable argument tuple with a sufficient buffer is rejected", Input: in,
				Expected: "stream", Actual: "error: " + err.Error()})
		}
	default:
		c.Count("outcome:stream")
		var g c17Geom
		var derr error
		dp, dmsg, dto := c17Timed(func() { g, derr = e.decode(out) })
		w := e.want(a)
		geomOK := !dp && !dto && derr == nil && g.w == w.w && g.h == w.h && g.c == w.c && (g.bd < 0 || w.bd < 0 || g.bd == w.bd)
		if !geomOK {
			cl := e.name + "-misdeclared"
			if !rep {
				cl = clause
			}
			act := fmt.Sprintf("decoded %dx%d c=%d bd=%d err=%v", g.w, g.h, g.c, g.bd, derr)
			if dp {
				act = "decoder panic " + c17Short(dmsg)
			}
			c17Fail(c, hx.Failure{Class: cl, What: "stream returned but it does not decode to the requested geometry", Input: in,
				Expected: fmt.Sprintf("error, or %dx%d c=%d bd=%d", w.w, w.h, w.c, w.bd), Actual: act})
		} else if !rep {
			c17Fail(c, hx.Failure{Class: clause, What: "unrepresentable argument accepted without error (stream happens to decode to the requested geometry)",
				Input: in, Expected: "error", Actual: "stream"})
		}
	}
}

// c17Lengths: 0, 1, sampled interior, need-1, need, need+1
func c17Lengths(c *hx.Ctx, need int) []int {
	if need <= 0 {
		return []int{0, 1}
	}
	ls := []int{0, need, need + 1}
	// every byte offset inside the last pixel (and a little before it): need-1 … need-8
	for k := 1; k <= 8 && k < need; k++ {
		ls = append(ls, need-k)
	}
	if need > 2 {
		ls = append(ls, 1, need/2, c.R.Range(1, need-1))
	}
	return ls
}

func c17LowLevel(c *hx.Ctx) {
	for _, e := range c17Encoders() {
		// every axis around its limits, the others at the valid base, with a sufficient buffer
		for ax, vals := range e.axes {
			for _, v := range vals {
				a := append([]int{}, e.base...)
				a[ax] = v
				if ax == 0 && v > 256 {
					a[1] = 1
				}
				if ax == 1 && v > 256 {
					a[0] = 1
				}
				c17One(c, e, e.need(a), a)
				if ax <= 1 && v > 256 {
					a2 := append([]int{}, a...)
					a2[1-ax] = 2
					c17One(c, e, e.need(a2), a2)
				}
			}
		}
		// both dimensions at a limit at once (small×small, and big×1 handled above)
		for _, w := range []int{-1, 0, 1} {
			for _, h := range []int{-1, 0, 1} {
				a := append([]int{}, e.base...)
				a[0], a[1] = w, h
				c17One(c, e, 4, a)
			}
		}
		// buffer lengths for several valid geometries
		geos := [][2]int{{1, 1}, {2, 2}, {5, 3}, {8, 8}, {17, 9}}
		if c.Thorough() {
			geos = append(geos, [2]int{64, 33}, [2]int{255, 2})
		}
		for _, wh := range geos {
			for _, comps := range []int{1, 3} {
				a := append([]int{}, e.base...)
				a[0], a[1], a[2] = wh[0], wh[1], comps
				for _, n := range c17Lengths(c, e.need(a)) {
					c17One(c, e, n, a)
				}
			}
		}
		// random cross products of boundary values
		k := 150
		if c.Thorough() {
			k = 1500
		}
		for i := 0; i < k; i++ {
			a := append([]int{}, e.base...)
			for ax, vals := range e.axes {
				if c.R.Intn(3) == 0 {
					a[ax] = vals[c.R.Intn(len(vals))]
				}
			}
			if a[0] > 256 && a[1] > 2 {
				a[1] = 1 + c.R.Intn(2)
			}
			if a[1] > 256 && a[0] > 2 {
				a[0] = 1 + c.R.Intn(2)
			}
			n := e.need(a)
			if c.R.Intn(4) == 0 && n > 0 {
				n = c.R.Intn(n)
			}
			c17One(c, e, n, a)
		}
	}
}

// ---------------------------------------------------------------- JPEG 2000

// args: W H C BD tileW tileH levels lossless cbw cbh precW precH quality prog layers
var c17J2kLabels = []string{"W", "H", "C", "BD", "tileW", "tileH", "levels", "lossless", "cbw", "cbh", "precW", "precH", "quality", "prog", "layers"}

func c17IsPow2In(v, lo, hi int) bool {
	for k := lo; k <= hi; k++ {
		if v == 1<<uint(k) {
			return true
		}
	}
	return false
}

func c17ReprJ2k(n int, a []int) (bool, string) {
	switch {
	case a[0] < 1 || a[1] < 1:
		return false, "j2k-nonpositive-dim"
	case a[2] < 1 || a[2] > 4:
		return false, "j2k-components"
	case a[3] < 1 || a[3] > 16:
		return false, "j2k-depth"
	case a[6] < 0 || a[6] > 6:
		return false, "j2k-levels"
	case !c17IsPow2In(a[8], 2, 10) || !c17IsPow2In(a[9], 2, 10):
		return false, "j2k-codeblock-size"
	case a[8]*a[9] > 4096:
		return false, "j2k-codeblock-area-over-4096"
	case a[4] < 0 || a[5] < 0:
		return false, "j2k-negative-tile-size"
	case (a[10] != 0 && !c17IsPow2In(a[10], 0, 15)) || (a[11] != 0 && !c17IsPow2In(a[11], 0, 15)):
		return false, "j2k-precinct-not-power-of-two"
	case a[14] < 1:
		return false, "j2k-layers"
	case a[14] > 65535:
		return false, "j2k-layers-over-65535"
	case a[13] < 0 || a[13] > 4:
		return false, "j2k-progression-order-unchecked"
	case a[7] == 0 && (a[12] < 1 || a[12] > 100):
		return false, "j2k-lossy-quality-unchecked"
	}
	return n >= a[0]*a[1]*a[2]*c17Bps(a[3]), "j2k-short-buffer"
}

// c17TileUnaligned: more than one tile, and some tile satisfies predicate (A) or (B) of C19
// (c19CBIndexOffset / c19GeometryDiffers in c19.go) for the requested levels, code-block and precinct sizes.
func c17TileUnaligned(a []int) bool {
	tw, th := a[4], a[5]
	if tw <= 0 || tw > a[0] {
		tw = a[0]
	}
	if th <= 0 || th > a[1] {
		th = a[1]
	}
	if tw >= a[0] && th >= a[1] {
		return false // single tile
	}
	return c19CBIndexOffset(a[0], a[1], tw, th, a[6], a[8], a[9], a[10], a[11]) || c19GeometryDiffers(a[0], a[1], tw, th, a[6])
}

func c17J2kParams(a []int) *jpeg2000.EncodeParams {
	p := jpeg2000.DefaultEncodeParams(a[0], a[1], a[2], a[3], false)
	p.TileWidth, p.TileHeight, p.NumLevels, p.Lossless = a[4], a[5], a[6], a[7] != 0
	p.CodeBlockWidth, p.CodeBlockHeight, p.PrecinctWidth, p.PrecinctHeight = a[8], a[9], a[10], a[11]
	p.Quality, p.ProgressionOrder, p.NumLayers = a[12], uint8(a[13]), a[14]
	return p
}

func c17J2kOne(c *hx.Ctx, n int, a []int) {
	need := a[0] * a[1] * a[2] * c17Bps(a[3])
	if need > 1<<20 || a[14] > 70000 {
		c.Count("skipped-too-large")
		return
	}
	buf := c17Buf(n, a[3])
	var out []byte
	var err error
	p, msg, to := c17Timed(func() { out, err = jpeg2000.NewEncoder(c17J2kParams(a)).Encode(buf) })
	in := map[string]any{"encoder": "j2k", "len": n, "args": a, "labels": c17J2kLabels}
	op := fmt.Sprintf("val-j2k %d %s", n, c17Args(a))
	real := "accept"
	if !p && !to && err != nil {
		real = "reject"
	}
	c.Case(op, real)
	rep, clause := c17ReprJ2k(n, a)
	c.Eval(op, !rep || n == need)
	c.Count("enc:j2k")
	if rep {
		c.Count("representable")
	} else {
		c.Count("unrepresentable:" + clause)
	}
	switch {
	case to:
		c17Fail(c, hx.Failure{Class: "j2k-hang", What: "encode did not return within 60 s", Input: in})
	case p:
		cl := "j2k-panic"
		if !rep {
			cl = clause
		}
		c.Count("outcome:panic")
		c17Fail(c, hx.Failure{Class: cl, What: "Encoder.Encode panicked", Input: in, Expected: "error", Actual: "panic " + c17Short(msg)})
	case err != nil:
		c.Count("outcome:err")
		if rep {
			c17Fail(c, hx.Failure{Class: "over-rejection-j2k", What: "a representable parameter set with a sufficient buffer is rejected", Input: in,
				Expected: "stream", Actual: "error: " + err.Error()})
		}
	default:
		c.Count("outcome:stream")
		var g c17Geom
		var derr error
		dp, dmsg, dto := c17Timed(func() {
			d := jpeg2000.NewDecoder()
			derr = d.Decode(out)
			if derr == nil {
				g = c17Geom{d.Width(), d.Height(), d.Components(), d.BitDepth()}
			}
		})
		ok := !dp && !dto && derr == nil && g.w == a[0] && g.h == a[1] && g.c == a[2] && g.bd == a[3]
		if !ok {
			cl := "j2k-misdeclared"
			if !rep {
				cl = clause
			} else if derr != nil && !dp && c17TileUnaligned(a) {
				// a multi-tile stream the library's own decoder rejects, AND one of the two C19 tile-geometry
				// predicates holds (decoder numbers code-blocks from the canvas origin / encoder cuts sub-bands
				// with tile-local splits): the known C19 defects. A failing ALIGNED tiling stays `j2k-misdeclared`.
				cl = "j2k-tiled-stream-undecodable"
			}
			act := fmt.Sprintf("decoded %dx%d c=%d bd=%d err=%v", g.w, g.h, g.c, g.bd, derr)
			if dp {
				act = "decoder panic " + c17Short(dmsg)
			}
			c17Fail(c, hx.Failure{Class: cl, What: "stream returned but it does not decode to the requested geometry", Input: in,
				Expected: fmt.Sprintf("error, or %dx%d c=%d bd=%d", a[0], a[1], a[2], a[3]), Actual: act})
		} else if !rep {
			c17Fail(c, hx.Failure{Class: clause, What: "unrepresentable argument accepted without error (stream happens to decode to the requested geometry)",
				Input: in, Expected: "error", Actual: "stream"})
		}
	}
}

func c17J2k(c *hx.Ctx) {
	base := []int{16, 16, 1, 8, 0, 0, 5, 1, 64, 64, 0, 0, 80, 0, 1}
	pow := []int{-4, 0, 1, 2, 3, 4, 5, 8, 16, 32, 48, 64, 128, 512, 1024, 1025, 2048}
	axes := [][]int{
		{-1, 0, 1, 2, 17, 255, 256, 257}, {-1, 0, 1, 2, 17, 255, 256, 257},
		{-1, 0, 1, 2, 3, 4, 5}, {-1, 0, 1, 2, 7, 8, 9, 12, 15, 16, 17, 32},
		{-8, -1, 0, 1, 5, 8, 16, 17}, {-8, -1, 0, 1, 5, 8, 16, 17},
		{-1, 0, 1, 5, 6, 7}, {0, 1}, pow, pow,
		{-4, -1, 0, 1, 2, 3, 4, 100, 128, 32768, 65536}, {-4, -1, 0, 1, 2, 3, 4, 100, 128, 32768, 65536},
		{-5, 0, 1, 50, 100, 101}, {0, 1, 2, 3, 4, 5, 9, 255}, {-1, 0, 1, 2, 3},
	}
	need := func(a []int) int { return a[0] * a[1] * a[2] * c17Bps(a[3]) }
	for ax, vals := range axes {
		for _, v := range vals {
			for _, lossless := range []int{1, 0} {
				a := append([]int{}, base...)
				a[7] = lossless
				a[ax] = v
				if ax == 7 && lossless == 0 {
					continue
				}
				c17J2kOne(c, need(a), a)
			}
		}
	}
	// code-block pairs (area), tile pairs, precinct pairs
	for _, cbw := range []int{4, 32, 64, 128, 1024} {
		for _, cbh := range []int{4, 32, 64, 128, 1024} {
			a := append([]int{}, base...)
			a[8], a[9] = cbw, cbh
			c17J2kOne(c, need(a), a)
		}
	}
	// one side a power of two, the other one not (and both not): each side is checked on its own
	for _, good := range []int{4, 8, 16, 32, 64} {
		for _, bad := range []int{5, 6, 7, 12, 24, 33, 48, 63} {
			for _, pair := range [][2]int{{good, bad}, {bad, good}, {bad, bad}} {
				a := append([]int{}, base...)
				a[8], a[9] = pair[0], pair[1]
				c17J2kOne(c, need(a), a)
			}
		}
	}
	for _, tw := range []int{-1, 0, 8} {
		for _, th := range []int{-1, 0, 8} {
			a := append([]int{}, base...)
			a[4], a[5] = tw, th
			c17J2kOne(c, need(a), a)
		}
	}
	for _, wh := range [][2]int{{1, 1}, {5, 3}, {16, 16}, {33, 17}} {
		for _, comps := range []int{1, 3} {
			for _, bd := range []int{8, 12, 16} {
				a := append([]int{}, base...)
				a[0], a[1], a[2], a[3] = wh[0], wh[1], comps, bd
				for _, n := range c17Lengths(c, need(a)) {
					c17J2kOne(c, n, a)
				}
			}
		}
	}
	k := 120
	if c.Thorough() {
		k = 1500
		a := append([]int{}, base...)
		a[0], a[1], a[14] = 8, 8, 65536
		c17J2kOne(c, need(a), a)
		b := append([]int{}, base...)
		b[0], b[1], b[14] = 8, 8, 65535
		c17J2kOne(c, need(b), b)
	}
	for i := 0; i < k; i++ {
		a := append([]int{}, base...)
		a[0], a[1] = c.R.Range(1, 40), c.R.Range(1, 40)
		for ax, vals := range axes {
			if c.R.Intn(4) == 0 {
				a[ax] = vals[c.R.Intn(len(vals))]
			}
		}
		n := need(a)
		if c.R.Intn(4) == 0 && n > 0 {
			n = c.R.Intn(n)
		}
		c17J2kOne(c, n, a)
	}
}

// ---------------------------------------------------------------- Validate normalisers

func c17Norm(c *hx.Ctx) {
	ar := func(err error) string {
		if err != nil {
			return "reject"
		}
		return "accept"
	}
	qs := []int{-1000, -1, 0, 1, 2, 50, 90, 99, 100, 101, 255, 256, 65536}
	for _, q := range qs {
		p := baseline.NewBaselineParameters()
		p.Quality = q
		err := p.Validate()
		c.Case(fmt.Sprintf("norm-baseline %d", q), fmt.Sprintf("%s %d", ar(err), p.Quality))
		for _, bd := range []int{-1, 0, 7, 8, 9, 12, 16} {
			e := extended.NewExtendedParameters()
			e.Quality, e.BitDepth = q, bd
			err := e.Validate()
			c.Case(fmt.Sprintf("norm-extended %d %d", q, bd), fmt.Sprintf("%s %d %d", ar(err), e.Quality, e.BitDepth))
		}
	}
	for _, v := range []int{-100, -1, 0, 1, 6, 7, 8, 9, 255} {
		p := jlossless.NewLosslessParameters()
		p.Predictor = v
		err := p.Validate()
		c.Case(fmt.Sprintf("norm-lossless %d", v), fmt.Sprintf("%s %d", ar(err), p.Predictor))
	}
	for _, v := range []int{-100, -1, 0, 1, 3, 127, 200, 254, 255, 256, 1000} {
		p := jlsn.NewNearLosslessParameters()
		p.NEAR = v
		err := p.Validate()
		c.Case(fmt.Sprintf("norm-near %d", v), fmt.Sprintf("%s %d", ar(err), p.NEAR))
	}
	sizes := []int{-5, 0, 1, 3, 4, 5, 6, 7, 11, 12, 13, 23, 24, 25, 47, 48, 49, 64, 95, 96, 97, 100, 191, 192, 193, 383, 384, 385, 767, 768, 769, 1023, 1024, 1025, 5000}
	if c.Thorough() {
		sizes = nil
		for v := -2; v <= 1030; v++ {
			sizes = append(sizes, v)
		}
	}
	for _, bw := range sizes {
		bh := sizes[c.R.Intn(len(sizes))]
		q := qs[c.R.Intn(len(qs))]
		nl := c.R.Range(-2, 9)
		p := htj2k.NewHTJ2KParameters()
		p.Quality, p.BlockWidth, p.BlockHeight, p.NumLevels = q, bw, bh, nl
		err := p.Validate()
		c.Case(fmt.Sprintf("norm-htj2k %d %d %d %d", q, bw, bh, nl),
			fmt.Sprintf("%s %d %d %d %d", ar(err), p.Quality, p.BlockWidth, p.BlockHeight, p.NumLevels))
	}
	b2i := func(b bool) int {
		if b {
			return 1
		}
		return 0
	}
	for _, nl := range []int{-1, 0, 5, 6, 7} {
		for _, lay := range []int{-1, 0, 1, 2, 3} {
			for _, rate := range []int{-1, 0, 20} {
				for _, rlen := range []int{0, 2} {
					for _, prog := range []int{0, 4, 5, 255} {
						for _, tr := range []float64{-1, 0, 2.5} {
							for _, app := range []bool{false, true} {
								p := j2klossless.NewLosslessParameters()
								p.NumLevels, p.NumLayers, p.Rate, p.ProgressionOrder = nl, lay, rate, uint8(prog)
								p.RateLevels = make([]int, rlen)
								p.TargetRatio, p.AppendLosslessLayer = tr, app
								err := p.Validate()
								c.Case(fmt.Sprintf("norm-j2klossless %d %d %d %d %d %d %d", nl, lay, rate, rlen, prog, b2i(tr > 0), b2i(app)),
									fmt.Sprintf("%s %d %d %d %d %d", ar(err), p.NumLevels, p.NumLayers, p.Rate, len(p.RateLevels), p.ProgressionOrder))
							}
						}
					}
					p := j2klossy.NewLossyParameters()
					p.Rate, p.NumLevels, p.NumLayers = rate, nl, lay
					p.RateLevels = make([]int, rlen)
					err := p.Validate()
					c.Case(fmt.Sprintf("norm-j2klossy %d %d %d %d", rate, rlen, nl, lay),
						fmt.Sprintf("%s %d %d %d %d", ar(err), p.Rate, len(p.RateLevels), p.NumLevels, p.NumLayers))
				}
			}
		}
	}
}

// ---------------------------------------------------------------- DICOM codec level

// c17Foreign is a codec.Parameters implementation the codecs do not know.
type c17Foreign struct{ m map[string]interface{} }

func (f *c17Foreign) GetParameter(name string) interface{}  { return f.m[name] }
func (f *c17Foreign) SetParameter(name string, v interface{}) {}

type c17Adapter struct {
	name   string
	cdc    codec.Codec
	params []struct {
		tag string
		p   codec.Parameters
	}
	decode func([]byte) (c17Geom, error)
}

func c17P(tag string, p codec.Parameters) struct {
	tag string
	p   codec.Parameters
} {
	return struct {
		tag string
		p   codec.Parameters
	}{tag, p}
}

func c17ForeignSets() []struct {
	tag string
	p   codec.Parameters
} {
	weird := map[string]interface{}{"quality": "90", "bitDepth": 3.5, "predictor": int8(3), "near": "x", "numLevels": nil,
		"blockWidth": "64", "blockHeight": []int{1}, "rate": 1.5, "rateLevels": "no", "numLayers": uint8(2), "targetRatio": "5",
		"progressionOrder": "LRCP", "allowMCT": 1, "irreversible": "yes", "mctBindings": 7, "mctMatrix": "m", "quantStepScale": "1"}
	oor := map[string]interface{}{"quality": 0, "bitDepth": 7, "predictor": 9, "near": 999, "numLevels": 99,
		"blockWidth": 3, "blockHeight": 100000, "rate": -5, "rateLevels": []int{}, "numLayers": -3, "targetRatio": -2.0,
		"progressionOrder": 77, "quantStepScale": -1.0}
	neg := map[string]interface{}{"quality": -1, "bitDepth": -8, "predictor": -1, "near": -1, "numLevels": -1,
		"blockWidth": -64, "blockHeight": 0, "rate": 0, "numLayers": 0, "targetRatio": 0.0, "progressionOrder": -1}
	base := codec.NewBaseParameters()
	base.SetParameter("quality", 1000)
	base.SetParameter("near", 300)
	base.SetParameter("predictor", 8)
	base.SetParameter("numLevels", 7)
	return []struct {
		tag string
		p   codec.Parameters
	}{c17P("nil", nil), c17P("foreign-empty", &c17Foreign{m: map[string]interface{}{}}), c17P("foreign-weird-types", &c17Foreign{m: weird}),
		c17P("foreign-out-of-range", &c17Foreign{m: oor}), c17P("foreign-negative", &c17Foreign{m: neg}), c17P("base-out-of-range", base)}
}

func c17Adapters() []*c17Adapter {
	g := func(w, h, cc, bd int, e error) (c17Geom, error) { return c17Geom{w, h, cc, bd}, e }
	add := func(a *c17Adapter, typed ...struct {
		tag string
		p   codec.Parameters
	}) *c17Adapter {
		a.params = append(c17ForeignSets(), typed...)
		return a
	}
	j2kDec := func(s []byte) (c17Geom, error) {
		d := jpeg2000.NewDecoder()
		if err := d.Decode(s); err != nil {
			return c17Geom{}, err
		}
		return c17Geom{d.Width(), d.Height(), d.Components(), -1}, nil
	}
	var out []*c17Adapter
	{
		ps := []struct {
			tag string
			p   codec.Parameters
		}{c17P("typed-nil", (*baseline.JPEGBaselineParameters)(nil))}
		for _, q := range []int{-1, 0, 1, 100, 101} {
			p := baseline.NewBaselineParameters()
			p.Quality = q
			ps = append(ps, c17P(fmt.Sprintf("typed-q%d", q), p))
		}
		out = append(out, add(&c17Adapter{name: "baseline", cdc: baseline.NewBaselineCodec(0),
			decode: func(s []byte) (c17Geom, error) { _, w, h, cc, e := baseline.Decode(s); return g(w, h, cc, -1, e) }}, ps...))
	}
	{
		ps := []struct {
			tag string
			p   codec.Parameters
		}{c17P("typed-nil", (*extended.JPEGExtendedParameters)(nil))}
		for _, q := range []int{0, 50, 101} {
			for _, bd := range []int{0, 8, 12, 16} {
				p := extended.NewExtendedParameters()
				p.Quality, p.BitDepth = q, bd
				ps = append(ps, c17P(fmt.Sprintf("typed-q%d-bd%d", q, bd), p))
			}
		}
		out = append(out, add(&c17Adapter{name: "extended", cdc: extended.NewExtendedCodec(12, 0),
			decode: func(s []byte) (c17Geom, error) { _, w, h, cc, _, e := extended.Decode(s); return g(w, h, cc, -1, e) }}, ps...))
	}
	{
		ps := []struct {
			tag string
			p   codec.Parameters
		}{c17P("typed-nil", (*jlossless.JPEGLosslessParameters)(nil))}
		for _, v := range []int{-1, 0, 4, 7, 8} {
			p := jlossless.NewLosslessParameters()
			p.Predictor = v
			ps = append(ps, c17P(fmt.Sprintf("typed-pred%d", v), p))
		}
		out = append(out, add(&c17Adapter{name: "lossless", cdc: jlossless.NewLosslessCodec(9),
			decode: func(s []byte) (c17Geom, error) { _, w, h, cc, _, e := jlossless.Decode(s); return g(w, h, cc, -1, e) }}, ps...))
	}
	out = append(out, add(&c17Adapter{name: "sv1", cdc: lossless14sv1.NewLosslessSV1Codec(),
		decode: func(s []byte) (c17Geom, error) { _, w, h, cc, _, e := lossless14sv1.Decode(s); return g(w, h, cc, -1, e) }}))
	out = append(out, add(&c17Adapter{name: "jpegls", cdc: jlsl.NewJPEGLSLosslessCodec(),
		decode: func(s []byte) (c17Geom, error) { _, w, h, cc, _, e := jlsl.Decode(s); return g(w, h, cc, -1, e) }}))
	{
		ps := []struct {
			tag string
			p   codec.Parameters
		}{c17P("typed-nil", (*jlsn.JPEGLSNearLosslessParameters)(nil))}
		for _, v := range []int{-1, 0, 3, 200, 255, 256} {
			p := jlsn.NewNearLosslessParameters()
			p.NEAR = v
			ps = append(ps, c17P(fmt.Sprintf("typed-near%d", v), p))
		}
		out = append(out, add(&c17Adapter{name: "jpeglsnear", cdc: jlsn.NewJPEGLSNearLosslessCodec(999),
			decode: func(s []byte) (c17Geom, error) { _, w, h, cc, _, _, e := jlsn.Decode(s); return g(w, h, cc, -1, e) }}, ps...))
	}
	{
		ps := []struct {
			tag string
			p   codec.Parameters
		}{c17P("typed-nil", (*j2klossless.JPEG2000LosslessParameters)(nil))}
		for _, nl := range []int{-1, 0, 6, 7} {
			for _, lay := range []int{-1, 1, 3} {
				p := j2klossless.NewLosslessParameters()
				p.NumLevels, p.NumLayers = nl, lay
				ps = append(ps, c17P(fmt.Sprintf("typed-nl%d-lay%d", nl, lay), p))
			}
		}
		p := j2klossless.NewLosslessParameters()
		p.ProgressionOrder, p.Rate, p.RateLevels, p.TargetRatio = 200, -4, nil, -3
		ps = append(ps, c17P("typed-prog200-rate-4", p))
		out = append(out, add(&c17Adapter{name: "j2klossless", cdc: j2klossless.NewCodec(), decode: j2kDec}, ps...))
	}
	{
		ps := []struct {
			tag string
			p   codec.Parameters
		}{c17P("typed-nil", (*j2klossy.JPEG2000LossyParameters)(nil))}
		for _, nl := range []int{-1, 0, 6, 7} {
			for _, rate := range []int{-1, 0, 16} {
				p := j2klossy.NewLossyParameters()
				p.NumLevels, p.Rate = nl, rate
				ps = append(ps, c17P(fmt.Sprintf("typed-nl%d-rate%d", nl, rate), p))
			}
		}
		p := j2klossy.NewLossyParameters()
		p.NumLayers, p.RateLevels, p.QuantStepScale, p.TargetRatio = -2, nil, -1, -7
		ps = append(ps, c17P("typed-lay-2-scale-1", p))
		out = append(out, add(&c17Adapter{name: "j2klossy", cdc: j2klossy.NewCodec(), decode: j2kDec}, ps...))
	}
	for _, ll := range []bool{true, false} {
		ps := []struct {
			tag string
			p   codec.Parameters
		}{c17P("typed-nil", (*htj2k.Parameters)(nil))}
		for _, bs := range [][2]int{{0, 0}, {3, 5}, {64, 64}, {128, 128}, {1024, 1024}, {100000, 4}} {
			for _, q := range []int{0, 80, 101} {
				p := htj2k.NewHTJ2KParameters()
				p.BlockWidth, p.BlockHeight, p.Quality, p.NumLevels = bs[0], bs[1], q, 3
				ps = append(ps, c17P(fmt.Sprintf("typed-cb%dx%d-q%d", bs[0], bs[1], q), p))
			}
		}
		p := htj2k.NewHTJ2KParameters()
		p.NumLevels = 99
		ps = append(ps, c17P("typed-nl99", p))
		var cd codec.Codec = htj2k.NewLosslessCodec()
		nm := "htj2k-lossless"
		if !ll {
			cd, nm = htj2k.NewCodec(0), "htj2k-lossy"
		}
		out = append(out, add(&c17Adapter{name: nm, cdc: cd, decode: j2kDec}, ps...))
	}
	return out
}

type c17FI struct {
	tag string
	fi  imagetypes.FrameInfo
}

func c17FrameInfos() []c17FI {
	b := imagetypes.FrameInfo{Width: 5, Height: 3, BitsAllocated: 8, BitsStored: 8, HighBit: 7, SamplesPerPixel: 1, PhotometricInterpretation: "MONOCHROME2"}
	v := []c17FI{{"8bit-mono", b}}
	m := func(tag string, f func(*imagetypes.FrameInfo)) {
		x := b
		f(&x)
		v = append(v, c17FI{tag, x})
	}
	m("8bit-rgb", func(x *imagetypes.FrameInfo) { x.SamplesPerPixel = 3; x.PhotometricInterpretation = "RGB" })
	m("12in16-mono", func(x *imagetypes.FrameInfo) { x.BitsAllocated, x.BitsStored, x.HighBit = 16, 12, 11 })
	m("16bit-mono", func(x *imagetypes.FrameInfo) { x.BitsAllocated, x.BitsStored, x.HighBit = 16, 16, 15 })
	m("16bit-signed", func(x *imagetypes.FrameInfo) { x.BitsAllocated, x.BitsStored, x.HighBit, x.PixelRepresentation = 16, 16, 15, 1 })
	m("w0", func(x *imagetypes.FrameInfo) { x.Width = 0 })
	m("h0", func(x *imagetypes.FrameInfo) { x.Height = 0 })
	m("w65535-h1", func(x *imagetypes.FrameInfo) { x.Width, x.Height = 65535, 1 })
	m("spp0", func(x *imagetypes.FrameInfo) { x.SamplesPerPixel = 0 })
	m("spp2", func(x *imagetypes.FrameInfo) { x.SamplesPerPixel = 2 })
	m("spp4", func(x *imagetypes.FrameInfo) { x.SamplesPerPixel = 4 })
	m("spp5", func(x *imagetypes.FrameInfo) { x.SamplesPerPixel = 5 })
	m("stored0", func(x *imagetypes.FrameInfo) { x.BitsStored = 0 })
	m("stored1", func(x *imagetypes.FrameInfo) { x.BitsStored = 1 })
	m("stored2-alloc8", func(x *imagetypes.FrameInfo) { x.BitsStored, x.HighBit = 2, 1 })
	m("stored17-alloc32", func(x *imagetypes.FrameInfo) { x.BitsAllocated, x.BitsStored = 32, 17 })
	m("alloc0", func(x *imagetypes.FrameInfo) { x.BitsAllocated = 0 })
	m("alloc1", func(x *imagetypes.FrameInfo) { x.BitsAllocated, x.BitsStored = 1, 1 })
	m("stored16-alloc8", func(x *imagetypes.FrameInfo) { x.BitsStored = 16 })
	m("alloc32-rgb", func(x *imagetypes.FrameInfo) { x.BitsAllocated, x.BitsStored, x.SamplesPerPixel = 32, 32, 3 })
	m("alloc64", func(x *imagetypes.FrameInfo) { x.BitsAllocated, x.BitsStored = 64, 64 })
	return v
}

// c17JlsShort: some frame is shorter than W·H·SPP·⌈BitsStored/8⌉, the size jpegls Encode reads.
func c17JlsShort(fi *imagetypes.FrameInfo, frames [][]byte) bool {
	need := int(fi.Width) * int(fi.Height) * int(fi.SamplesPerPixel) * c17Bps(int(fi.BitsStored))
	for _, f := range frames {
		if len(f) < need {
			return true
		}
	}
	return false
}

func c17Native(fi *imagetypes.FrameInfo) int {
	ba := int(fi.BitsAllocated)
	return int(fi.Width) * int(fi.Height) * int(fi.SamplesPerPixel) * ((ba + 7) / 8)
}

// c17CodecCase runs Codec.Encode on one (frame info, parameters, frames) combination.
func c17CodecCase(c *hx.Ctx, name string, cd codec.Codec, decode func([]byte) (c17Geom, error), fitag string, fi imagetypes.FrameInfo,
	ptag string, prm codec.Parameters, frtag string, frames [][]byte) {
	info := fi
	src := gdcodec.NewTestPixelData(&info)
	for _, f := range frames {
		_ = src.AddFrame(f)
	}
	dst := gdcodec.NewTestPixelData(&info)
	var err error
	p, msg, to := c17Timed(func() { err = cd.Encode(src, dst, prm) })
	key := fmt.Sprintf("codec %s fi=%s params=%s frames=%s", name, fitag, ptag, frtag)
	in := map[string]any{"codec": name, "frameInfo": fitag, "params": ptag, "frames": frtag,
		"fi": map[string]int{"W": int(fi.Width), "H": int(fi.Height), "BA": int(fi.BitsAllocated), "BS": int(fi.BitsStored), "SPP": int(fi.SamplesPerPixel), "PR": int(fi.PixelRepresentation)}}
	c.Eval(key, ptag != "nil" || frtag != "full")
	c.Count("codec:" + name)
	c.Count("params:" + strings.SplitN(ptag, "-", 3)[0])
	switch {
	case to:
		c17Fail(c, hx.Failure{Class: "codec-" + name + "-hang", What: "Codec.Encode did not return within 60 s", Input: in})
	case p:
		cl := "codec-" + name + "-panic"
		switch {
		case ptag == "typed-nil" && name == "j2klossless":
			// was the residue after 73f59a6 (extractLosslessMCTParameters queried the typed nil); fixed by 81930d5:
			// the class is kept so that a regression is reported under its own name
			cl = "codec-j2klossless-typed-nil-mct-panic"
		case ptag == "typed-nil":
			cl = "codec-typed-nil-parameters-panic"
		case strings.Contains(name, "jpegls") && c17JlsShort(&fi, frames):
			cl = "jpegls-no-buffer-length-check"
		case name == "rle" && int(fi.SamplesPerPixel)*((int(fi.BitsAllocated)+7)/8) > 15:
			cl = "rle-more-than-15-segments"
		}
		c.Count("codec-outcome:panic")
		c17Fail(c, hx.Failure{Class: cl, What: "Codec.Encode panicked", Input: in, Expected: "error", Actual: "panic " + c17Short(msg)})
	case err != nil:
		c.Count("codec-outcome:err")
	default:
		c.Count("codec-outcome:ok")
		if decode == nil {
			return
		}
		if dst.FrameCount() != len(frames) {
			c17Fail(c, hx.Failure{Class: "codec-" + name + "-frame-count", What: "Encode returned nil but wrote a different number of frames", Input: in,
				Expected: fmt.Sprint(len(frames)), Actual: fmt.Sprint(dst.FrameCount())})
			return
		}
		for i := 0; i < dst.FrameCount(); i++ {
			f, _ := dst.GetFrame(i)
			var g c17Geom
			var derr error
			dp, dmsg, _ := c17Timed(func() { g, derr = decode(f) })
			if dp || derr != nil || g.w != int(fi.Width) || g.h != int(fi.Height) || g.c != int(fi.SamplesPerPixel) {
				act := fmt.Sprintf("frame %d decodes to %dx%d c=%d err=%v", i, g.w, g.h, g.c, derr)
				if dp {
					act = "decoder panic " + c17Short(dmsg)
				}
				cl := "codec-" + name + "-misdeclared"
				if strings.Contains(name, "jpegls") && c17JlsShort(&fi, frames) {
					cl = "jpegls-no-buffer-length-check"
				}
				c17Fail(c, hx.Failure{Class: cl, What: "Codec.Encode returned nil but a frame does not decode to the FrameInfo geometry", Input: in,
					Expected: fmt.Sprintf("error, or %dx%d c=%d", fi.Width, fi.Height, fi.SamplesPerPixel), Actual: act})
				return
			}
		}
	}
}

func c17CodecLevel(c *hx.Ctx) {
	fis := c17FrameInfos()
	for _, ad := range c17Adapters() {
		for _, f := range fis {
			n := c17Native(&f.fi)
			if n > 1<<20 {
				continue
			}
			full := c17Buf(n, int(f.fi.BitsStored))
			frameSets := []struct {
				tag string
				fr  [][]byte
			}{{"full", [][]byte{full}}}
			if f.tag == "8bit-mono" || f.tag == "12in16-mono" || f.tag == "8bit-rgb" {
				frameSets = append(frameSets, struct {
					tag string
					fr  [][]byte
				}{"zero-frames", nil}, struct {
					tag string
					fr  [][]byte
				}{"one-empty-frame", [][]byte{{}}}, struct {
					tag string
					fr  [][]byte
				}{"nil-frame", [][]byte{nil}}, struct {
					tag string
					fr  [][]byte
				}{"short-by-1", [][]byte{full[:max(n-1, 0)]}}, struct {
					tag string
					fr  [][]byte
				}{"one-byte", [][]byte{{7}}}, struct {
					tag string
					fr  [][]byte
				}{"full+empty", [][]byte{full, {}}}, struct {
					tag string
					fr  [][]byte
				}{"two-full", [][]byte{full, full}})
			}
			for _, fs := range frameSets {
				for _, pp := range ad.params {
					// all parameter variants on the plain frame infos; only nil + one typed elsewhere
					if f.tag != "8bit-mono" && f.tag != "12in16-mono" && pp.tag != "nil" && pp.tag != "foreign-out-of-range" && !strings.HasPrefix(pp.tag, "typed-near200") {
						continue
					}
					if fs.tag != "full" && pp.tag != "nil" && pp.tag != "foreign-weird-types" {
						continue
					}
					c17CodecCase(c, ad.name, ad.cdc, ad.decode, f.tag, f.fi, pp.tag, pp.p, fs.tag, fs.fr)
				}
			}
		}
		// nil pixel data / nil frame info
		for _, which := range []string{"nil-src", "nil-dst", "nil-frameinfo"} {
			var err error
			fi := fis[0].fi
			var src, dst imagetypes.PixelData = gdcodec.NewTestPixelData(&fi), gdcodec.NewTestPixelData(&fi)
			switch which {
			case "nil-src":
				src = nil
			case "nil-dst":
				dst = nil
			case "nil-frameinfo":
				s := gdcodec.NewTestPixelData(nil)
				_ = s.AddFrame(c17Buf(15, 8))
				src = s
			}
			p, msg, _ := c17Timed(func() { err = ad.cdc.Encode(src, dst, nil) })
			c.Eval("codec "+ad.name+" "+which, true)
			if p {
				c17Fail(c, hx.Failure{Class: "codec-" + ad.name + "-panic-" + which, What: "Codec.Encode panicked", Input: map[string]any{"codec": ad.name, "case": which},
					Expected: "error", Actual: "panic " + c17Short(msg)})
			} else if err == nil {
				c17Fail(c, hx.Failure{Class: "codec-" + ad.name + "-accepts-" + which, What: "Codec.Encode returned nil", Input: map[string]any{"codec": ad.name, "case": which}, Expected: "error"})
			}
		}
	}
}

// ---------------------------------------------------------------- RLE

func c17Rle(c *hx.Ctx) {
	type g struct{ w, h, ba, spp, pl int }
	cases := []g{{1, 1, 8, 1, 0}, {2, 2, 16, 3, 0}, {2, 1, 32, 3, 1}, // ≤ 15 planes
		{3, 2, 16, 1, 0}, {3, 2, 16, 1, 1}, {2, 2, 16, 3, 1}, {3, 1, 32, 1, 0}, {2, 3, 32, 3, 0}, {2, 2, 24, 1, 0}, {5, 1, 16, 3, 0},
		{1, 1, 32, 4, 0}, {1, 1, 64, 2, 0}, {2, 2, 8, 16, 1}, {1, 1, 128, 1, 0}, {3, 1, 40, 3, 0}, {1, 1, 8, 15, 0}, {1, 1, 8, 17, 0},
		{0, 3, 8, 1, 0}, {3, 0, 8, 1, 0}, {0, 0, 32, 4, 0}, {1, 1, 0, 1, 0}, {1, 1, 8, 0, 0}}
	for _, x := range cases {
		i := rleInfo{W: x.w, H: x.h, BA: x.ba, SPP: x.spp, PL: x.pl}
		planes := ((x.ba-1)/8 + 1) * x.spp
		if x.ba == 0 {
			planes = 8192 * x.spp
		}
		native := planes * x.w * x.h
		lens := []int{native, 1, 0, native + 3}
		for k := 1; k <= planes && k <= 16 && k < native; k++ { // every byte offset inside the last pixel
			lens = append(lens, native-k)
		}
		if x.pl == 1 && x.w*x.h > 0 { // planar: also inside the last sample of every plane but the last
			for pl := 1; pl < planes && pl <= 15; pl++ {
				lens = append(lens, pl*x.w*x.h-1, pl*x.w*x.h)
			}
		}
		for _, n := range lens {
			if n < 0 || n > 1<<16 {
				continue
			}
			data := c17Buf(n, 8)
			out, oc := rleReal(true, i, data)
			c.Case(i.op("rle-enc", data), outcomeLine(out, strings.SplitN(oc, " ", 2)[0]))
			key := fmt.Sprintf("rle %+v len=%d", x, n)
			c.Eval(key, planes > 15 || n != native)
			c.Count("enc:rle")
			in := map[string]any{"encoder": "rle", "W": x.w, "H": x.h, "BitsAllocated": x.ba, "SamplesPerPixel": x.spp, "Planar": x.pl, "len": n}
			switch {
			case strings.HasPrefix(oc, "panic"):
				cl := "rle-panic"
				if planes > 15 {
					cl = "rle-more-than-15-segments"
				}
				c17Fail(c, hx.Failure{Class: cl, What: "Codec.Encode panicked", Input: in, Expected: "error", Actual: c17Short(oc)})
			case oc == "ok":
				// the stream must be a well-formed Annex G header for `planes` segments and decode back to the native length
				if planes > 15 {
					c17Fail(c, hx.Failure{Class: "rle-more-than-15-segments", What: "stream returned for a frame with more than 15 byte planes", Input: in, Expected: "error", Actual: "stream"})
					break
				}
				if planes < 1 || x.w == 0 || x.h == 0 {
					c17Fail(c, hx.Failure{Class: "rle-degenerate-frame-accepted", What: "zero width / height / samples-per-pixel accepted: a stream with no pixel is returned", Input: in, Expected: "error", Actual: "stream"})
					break
				}
				dec, doc := rleReal(false, i, out)
				want := native + native%2
				if doc != "ok" || len(dec) != want {
					if x.w == 0 || x.h == 0 {
						c17Fail(c, hx.Failure{Class: "rle-zero-dimension-accepted", What: "zero-sized frame encoded to a stream that does not decode", Input: in, Expected: "error", Actual: doc})
					} else if n < native {
						c17Fail(c, hx.Failure{Class: "rle-short-buffer-accepted", What: "short frame accepted", Input: in, Expected: "error", Actual: doc})
					} else {
						c17Fail(c, hx.Failure{Class: "rle-misdeclared", What: "stream does not decode to the native frame length", Input: in, Expected: fmt.Sprint(want), Actual: fmt.Sprintf("%s len=%d", doc, len(dec))})
					}
				}
			}
		}
	}
	// the RLE adapter with nil / foreign parameters, zero and empty frames
	fis := c17FrameInfos()
	for _, f := range fis {
		n := c17Native(&f.fi)
		if n > 1<<20 {
			continue
		}
		for _, pp := range c17ForeignSets() {
			c17CodecCase(c, "rle", rle.NewRLECodec(), nil, f.tag, f.fi, pp.tag, pp.p, "full", [][]byte{c17Buf(n, int(f.fi.BitsStored))})
		}
		c17CodecCase(c, "rle", rle.NewRLECodec(), nil, f.tag, f.fi, "nil", nil, "zero-frames", nil)
		c17CodecCase(c, "rle", rle.NewRLECodec(), nil, f.tag, f.fi, "nil", nil, "one-empty-frame", [][]byte{{}})
	}
}

func c17(c *hx.Ctx) {
	c.Rule = "non-trivial = the argument tuple is unrepresentable in at least one clause, or the buffer is exactly the required length, or (codec level) parameters/frames are not the plain default"
	c17Norm(c)
	c17Rle(c)
	c17LowLevel(c)
	c17J2k(c)
	c17CodecLevel(c)
	c17AdapterModels(c)
	c.Sample(map[string]any{"ops": []string{"val-baseline 65536 65536 1 1 90", "val-jpegls 0 2 2 1 8", "val-jpeglsnear 4 2 2 1 2 200", "val-j2k 256 16 16 1 8 -1 0 5 1 64 64 0 0 80 0 1"}})
}

func init() { register("C17", c17) }
