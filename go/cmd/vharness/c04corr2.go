//go:build verif && c04hooks2

package main

// Correspondence lines that need the round-2 hooks of jpeg2000/t2/verif_hooks_c04b.go
// (VerifEncodeCodeBlockLengthsBits, VerifDecodeDataLength, VerifBioReadAlign). Enabled with -tags c04hooks2
// once those hooks are in /repo (c04Correspondence calls c04Extra when it is set).

import (
	"fmt"

	"github.com/cocosip/go-dicom-codecs/jpeg2000"
	"github.com/cocosip/go-dicom-codecs/jpeg2000/t2"

	"verifharness/internal/hx"
)

func init() { c04Extra = c04Correspondence2; c19Extra = c19Correspondence2 }

func c04Correspondence2(c *hx.Ctx) {
	r := c.R
	// Lblock length coding, single codeword segment (classic mode): fallback branch (no per-pass lengths) and
	// per-pass branch without intermediate terminations must produce the same bits
	for i := 0; i < 400; i++ {
		l := r.Pick([]int{0, 3, 3, 4, 5, 7, 10})
		np := r.Range(1, 164)
		dataLen := r.Pick([]int{0, 1, 2, 7, 8, 255, 256, 511, 512, 4095, 4096, 65535, r.Range(0, 70000)})
		var bits []int
		var l2 int
		c.Case(fmt.Sprintf("j2k-lblock-enc %d %d %d", l, dataLen, np), c04Guarded(func() string {
			bits, l2 = t2.VerifEncodeCodeBlockLengthsBits(l, dataLen, 0, np, false, nil, nil)
			return fmt.Sprintf("ok %d %s", l2, c04Bits(bits))
		}))
		// per-pass branch: split dataLen over np passes, none terminated
		lens := make([]int, np)
		rem := dataLen
		for j := 0; j < np-1; j++ {
			lens[j] = r.Intn(rem/2 + 1)
			rem -= lens[j]
		}
		lens[np-1] = rem
		c.Case(fmt.Sprintf("j2k-lblock-enc %d %d %d", l, dataLen, np), c04Guarded(func() string {
			b2, l3 := t2.VerifEncodeCodeBlockLengthsBits(l, dataLen, 0, np, false, lens, make([]bool, np))
			return fmt.Sprintf("ok %d %s", l3, c04Bits(b2))
		}))
		ext := append(append([]int{}, bits...), 1, 0, 1)
		c.Case(fmt.Sprintf("j2k-lblock-dec %d %d %s", l, np, c04Bits(ext)), c04Guarded(func() string {
			n, _, l3, err := t2.VerifDecodeDataLength(ext, np, l, false)
			if err != nil {
				return "err"
			}
			// the real reader does not report the unread bits; the model's rest length is 3 by construction
			return fmt.Sprintf("ok %d %d 3", n, l3)
		}))
		c.Count("corr:lblock")
	}
	// read n bits then alignToByte: number of bytes consumed
	for i := 0; i < 600; i++ {
		n := r.Range(1, 40)
		s := make([]int, n)
		ones := r.Intn(3) == 0
		for j := range s {
			if ones && r.Intn(10) != 0 {
				s[j] = 1
			} else {
				s[j] = r.Intn(2)
			}
		}
		if i < 40 {
			s = make([]int, i+1)
			for j := range s {
				s[j] = 1
			}
			n = i + 1
		}
		data := append(t2.VerifBioWrite(s), 0xA5, 0xFF, 0x01)
		c.Case(fmt.Sprintf("j2k-bio-align %s %d", hx.Hex(data), n), c04Guarded(func() string {
			bs, used, err := t2.VerifBioReadAlign(data, n)
			if err != nil {
				return "err"
			}
			return fmt.Sprintf("ok %s %d", c04Bits(bs), used)
		}))
		c.Count("corr:bio-align")
	}
}

// c19Correspondence2: encoder geometry for tiles with a non-zero canvas origin (hooks VerifSubbandDimsAt /
// VerifTileBlocksAt of jpeg2000/verif_hooks_c04mon.go).
func c19Correspondence2(c *hx.Ctx) {
	for len_ := 1; len_ <= 24; len_++ {
		for _, x0 := range []int{0, 1, 2, 3, 5, 8, 16, 17, 75} {
			for n := 0; n <= 5; n++ {
				c.Case(fmt.Sprintf("j2k-enclow-at %d %d %d", len_, x0, n), c04Guarded(func() string {
					p := jpeg2000.DefaultEncodeParams(len_+x0, 1, 1, 8, false)
					p.NumLevels = n
					d := jpeg2000.VerifSubbandDimsAt(p, x0, 0, len_, 1, 0)
					return fmt.Sprintf("ok %d", d[0][3])
				}))
			}
		}
	}
	for _, cbw := range []int{4, 16, 64} {
		for _, x0 := range []int{0, 3, 4, 5, 16, 17, 63, 64, 100} {
			for _, pwExp := range []int{15, 5, 6} {
				pw := 1 << pwExp
				if pw < cbw {
					continue
				}
				width := cbw*2 + 3
				p := jpeg2000.DefaultEncodeParams(width+x0, 1, 1, 8, false)
				p.NumLevels = 0
				p.CodeBlockWidth, p.CodeBlockHeight = cbw, 4
				if pw != 1<<15 {
					p.PrecinctWidth = pw
				}
				var blocks []*t2.PrecinctCodeBlock
				if pn, _ := hx.Guard(func() { blocks = jpeg2000.VerifTileBlocksAt(p, x0, 0, [][]int32{make([]int32, width)}, width, 1) }); pn {
					continue
				}
				for k, b := range blocks {
					c.Case(fmt.Sprintf("j2k-cbidx-enc-at %d %d %d %d", x0, k*cbw, pw, cbw), fmt.Sprintf("ok %d", b.CBX))
				}
			}
		}
	}
	c.Count("corr:enc-geometry-at-origin")
}
