package main

// C19 — grids with very many tiles (integration agent intc17, after the hunters' finding C19-tile-count-overflow):
// width, height in [1..600] with 1..3-sample tiles reach 65536 tiles and more, but T.800 numbers tiles with the
// 16-bit Isot field of SOT (A.4.2). Oracle: the property's own round trip; the ONLY admissible alternative is that
// the encoder refuses a grid of more than 65535 tiles with an error (the format cannot carry it) — a returned
// codestream must decode to exactly the source samples.

import (
	"fmt"

	"verifharness/internal/hx"
)

func init() { registerExtra("C19", "intc17-many-tiles", c19hManyTiles) }

// c19hPixels: deterministic 8-bit content, px[i] = byte(i*31 + i/257) (the hunter's)
func c19hPixels(n int) []byte {
	px := make([]byte, n)
	for i := range px {
		px[i] = byte(i*31 + i/257)
	}
	return px
}

func c19hOne(c *hx.Ctx, w, h, tw, th, levels int) {
	k := c04Cfg{W: w, H: h, C: 1, P: 8, Levels: levels, CBW: 64, CBH: 64, Layers: 1, MCT: true, TW: tw, TH: th}
	pix := c19hPixels(w * h)
	res := c04RoundTrip(k, pix)
	nx, ny := (w+tw-1)/tw, (h+th-1)/th
	tiles := nx * ny
	c.Eval("intc17-many-tiles "+k.String(), true)
	c.Count("intc17-many-tiles")
	c.Count("intc17-many-tiles:outcome:" + res.Outcome)
	if tiles > 65535 {
		c.Count("intc17-many-tiles:over-65535")
	}
	in := map[string]any{"family": "intc17-many-tiles", "width": w, "height": h, "tileWidth": tw, "tileHeight": th, "numLevels": levels,
		"components": 1, "bitDepth": 8, "tiles": tiles, "pixels": "px[i] = byte(i*31 + i/257), i < width*height"}
	switch {
	case res.Outcome == "ok":
		return
	case res.Outcome == "enc-err" && tiles > 65535:
		c.Count("intc17-many-tiles:refused-over-65535")
		return
	case tiles > 65535:
		c04Fail(c, hx.Failure{Class: "j2k-tile-count-over-65535", What: fmt.Sprintf("%d tiles: the encoder returns a codestream whose tile indices (16-bit Isot) wrap modulo 65536; the image cannot be recovered from it", tiles),
			Input: in, Expected: "decoded samples == source samples, or an encoder error for a grid the codestream syntax cannot number", Actual: res.Outcome + ": " + res.Detail})
	default:
		c04Fail(c, hx.Failure{Class: "j2k-many-tiles-" + res.Outcome, What: fmt.Sprintf("%d tiles (within the 65535 the syntax can number) do not round-trip", tiles),
			Input: in, Expected: "decoded samples == source samples, every tile at its position", Actual: res.Outcome + ": " + res.Detail})
	}
}

func c19hManyTiles(c *hx.Ctx) {
	r := c.R
	c19hOne(c, 257, 256, 1, 1, 0) // the hunter's witness: 65792 tiles
	c19hOne(c, 128, 128, 1, 1, 0) // control: 16384 tiles
	c19hOne(c, 437, 301, 2, 1, 0) // 65919 tiles, partial last column
	k := 0
	if c.Thorough() {
		k = 10
		c19hOne(c, 600, 600, 2, 2, 0) // 90000 tiles
		c19hOne(c, 255, 257, 1, 1, 0) // 65535: the last grid the syntax can number
		c19hOne(c, 256, 256, 1, 1, 0) // 65536
	}
	for i := 0; i < k; i++ {
		tw, th := r.Range(1, 3), r.Range(1, 3)
		nx := r.Range(150, 600/tw)
		ny := min(r.Range(60000, 72000)/nx+1, 600/th)
		c19hOne(c, nx*tw-r.Range(0, tw-1), ny*th-r.Range(0, th-1), tw, th, r.Range(0, 1))
	}
}
