//go:build verif && c04hooks2 && c16pieces

package main

// Correspondence lines for the glue model of the reversible single-tile pipeline (lean Model/J2kGlue.lean):
//   j2k-glue-enc    coded blocks of every packet        -> tile body bytes          (real: packets of VerifTilePacketsC16)
//   j2k-glue-dec    band geometry + real tile body      -> per block incl/passes/len/zbp/data (real: t2.PacketDecoder)
//   j2k-glue-t1enc  coefficients of every block         -> tile body bytes          (real: the same bytes; ties the T1
//                                                          configuration <<6 / nmseDecFracBits=6 to the C20 model)
//   j2k-glue-t1dec  block geometry + real tile body     -> coefficients             (real: t1.Decoder with OpenJPEG
//                                                          reconstruction at maxBitplane=cblkNumbps, then /2)

import (
	"fmt"
	"sort"
	"strings"

	"github.com/cocosip/go-dicom-codecs/jpeg2000"
	"github.com/cocosip/go-dicom-codecs/jpeg2000/codestream"
	"github.com/cocosip/go-dicom-codecs/jpeg2000/t1"
	"github.com/cocosip/go-dicom-codecs/jpeg2000/t2"

	"verifharness/internal/hx"
)

func init() { c04GlueExtra = c04GlueCorrespondence }

type c04GlueBand struct {
	w, h int
	blks []jpeg2000.VerifBlockWithCoeffs
}

func c04GlueInts(xs []int32) string {
	if len(xs) == 0 {
		return "-"
	}
	var sb strings.Builder
	for i, v := range xs {
		if i > 0 {
			sb.WriteByte('_')
		}
		fmt.Fprint(&sb, v)
	}
	return sb.String()
}

func c04GlueHex(b []byte) string {
	if len(b) == 0 {
		return "-"
	}
	return hx.Hex(b)
}

// c04GlueCase: one single-tile, single-layer, default-precinct configuration (one precinct per resolution).
func c04GlueCase(c *hx.Ctx, k c04Cfg, kind int, withT1 bool) {
	p := k.params()
	pix := c04Container(k, c04Samples(c.R, k, kind))
	var blocks []jpeg2000.VerifBlockWithCoeffs
	var pkts [][]t2.Packet
	var err1, err2 error
	if pn, _ := hx.Guard(func() {
		blocks, err1 = jpeg2000.VerifCodeBlocksWithCoeffs(p, pix)
		pkts, err2 = jpeg2000.VerifTilePacketsC16(k.params(), pix)
	}); pn || err1 != nil || err2 != nil || len(pkts) != 1 {
		c.Count("glue:front-end-failed")
		return
	}
	var real []byte
	var packets [][]c04GlueBand
	for _, pk := range pkts[0] {
		real = append(real, pk.Header...)
		real = append(real, pk.Body...)
		order := []int{1, 2, 3}
		if pk.ResolutionLevel == 0 {
			order = []int{0}
		}
		var bands []c04GlueBand
		for _, band := range order {
			var bl []jpeg2000.VerifBlockWithCoeffs
			for _, b := range blocks {
				if b.Comp == pk.ComponentIndex && b.Res == pk.ResolutionLevel && b.Band == band {
					bl = append(bl, b)
				}
			}
			if len(bl) == 0 {
				continue
			}
			sort.SliceStable(bl, func(i, j int) bool {
				if bl[i].Block.CBY != bl[j].Block.CBY {
					return bl[i].Block.CBY < bl[j].Block.CBY
				}
				return bl[i].Block.CBX < bl[j].Block.CBX
			})
			g := c04GlueBand{blks: bl}
			for _, b := range bl {
				g.w, g.h = max(g.w, b.Block.CBX+1), max(g.h, b.Block.CBY+1)
			}
			bands = append(bands, g)
		}
		packets = append(packets, bands)
	}
	var prefix = true
	render := func(blk func(b jpeg2000.VerifBlockWithCoeffs) string) string {
		ps := make([]string, len(packets))
		for i, bands := range packets {
			bs := make([]string, len(bands))
			for j, g := range bands {
				xs := make([]string, len(g.blks))
				for m, b := range g.blks {
					xs[m] = blk(b)
				}
				bs[j] = strings.Join(xs, "|")
				if prefix {
					bs[j] = fmt.Sprintf("%d,%d:%s", g.w, g.h, bs[j])
				}
			}
			ps[i] = strings.Join(bs, ";")
		}
		return strings.Join(ps, "/")
	}
	// A: coded blocks -> bytes
	c.Case("j2k-glue-enc "+render(func(b jpeg2000.VerifBlockWithCoeffs) string {
		return fmt.Sprintf("%d,%d,%d,%d,%s", b.Block.CBX, b.Block.CBY, b.Block.ZeroBitPlanes, b.Block.NumPassesTotal, c04GlueHex(b.Block.Data))
	}), "ok "+c04GlueHex(real))
	// B: geometry + bytes -> what the real packet decoder reports
	trailer := []byte{0xFF, 0xD9}
	c.Case("j2k-glue-dec "+render(func(b jpeg2000.VerifBlockWithCoeffs) string {
		return fmt.Sprintf("%d,%d", b.Block.CBX, b.Block.CBY)
	})+" "+c04GlueHex(append(append([]byte(nil), real...), trailer...)), c04Guarded(func() string {
		pd := t2.NewPacketDecoder(append(append([]byte(nil), real...), trailer...), k.C, 1, k.Levels+1, t2.ProgressionOrder(k.Prog), 0)
		pd.SetImageDimensions(k.W, k.H, k.CBW, k.CBH)
		for i := 0; i < k.C; i++ {
			pd.SetComponentBounds(i, 0, 0, k.W, k.H)
			pd.SetComponentSampling(i, 1, 1)
		}
		got, err := pd.DecodePackets()
		if err != nil {
			return "err"
		}
		if len(got) != len(packets) {
			return fmt.Sprintf("real-packet-count-%d", len(got))
		}
		ps := make([]string, len(got))
		for i, pk := range got {
			if !pk.HeaderPresent {
				ps[i] = "nohdr"
				continue
			}
			idx := 0
			bs := make([]string, len(packets[i]))
			for j, g := range packets[i] {
				xs := make([]string, len(g.blks))
				for m := range g.blks {
					if idx >= len(pk.CodeBlockIncls) {
						xs[m] = "missing"
						continue
					}
					ci := pk.CodeBlockIncls[idx]
					idx++
					if ci.Included {
						xs[m] = fmt.Sprintf("1,%d,%d,%d,%s", ci.NumPasses, ci.DataLength, ci.ZeroBitplanes, c04GlueHex(ci.Data))
					} else {
						xs[m] = "0"
					}
				}
				bs[j] = strings.Join(xs, "|")
			}
			ps[i] = strings.Join(bs, ";")
		}
		return "ok " + strings.Join(ps, "/") + fmt.Sprintf(" rest=%d", len(trailer))
	}))
	if !withT1 {
		return
	}
	// C: coefficients -> bytes (T1 model inside)
	c.Case("j2k-glue-t1enc "+render(func(b jpeg2000.VerifBlockWithCoeffs) string {
		return fmt.Sprintf("%d,%d,%d,%d,%d,%d,%s", b.Block.CBX, b.Block.CBY, b.Width, b.Height, b.Band, b.BandNumbps, c04GlueInts(b.Coeffs))
	}), "ok "+c04GlueHex(real))
	// D: geometry + bytes -> coefficients through the real T1 decoder in the pipeline's configuration
	c.Case("j2k-glue-t1dec "+render(func(b jpeg2000.VerifBlockWithCoeffs) string {
		return fmt.Sprintf("%d,%d,%d,%d,%d,%d", b.Block.CBX, b.Block.CBY, b.Width, b.Height, b.Band, b.BandNumbps)
	})+" "+c04GlueHex(real), c04Guarded(func() string {
		prefix = false
		defer func() { prefix = true }()
		return "ok " + render(func(b jpeg2000.VerifBlockWithCoeffs) string {
			out := make([]int32, b.Width*b.Height)
			np := b.Block.NumPassesTotal
			if len(b.Block.Data) > 0 && np > 0 {
				// TileDecoder.estimateMaxBitplane: max((np+2)/3, bandNumbps-zbp)
				mbp := (np + 2) / 3
				if q := b.BandNumbps - b.Block.ZeroBitPlanes; b.BandNumbps > 0 && q > mbp {
					mbp = q
				}
				d := t1.NewT1Decoder(b.Width, b.Height, 0)
				d.SetOpenJPEGReconstruction(true)
				d.SetOrientation(b.Band)
				if err := d.DecodeWithBitplane(b.Block.Data, np, mbp, 0); err == nil {
					out = d.GetData()
					for i := range out {
						out[i] /= 2 // normalizeOpenJPEGReversibleT1Coefficients
					}
				}
			}
			return c04GlueInts(out)
		})
	}))
}

// c04GlueStream: whole-codestream correspondence — model bytes of Encode (main header, SOT/SOD, packets, EOC) and the
// model's decode of the tile-part body against Decoder.Decode's pixel data.
func c04GlueStream(c *hx.Ctx, k c04Cfg, kind int) {
	pix := c04Container(k, c04Samples(c.R, k, kind))
	b2i := func(b bool) int {
		if b {
			return 1
		}
		return 0
	}
	cfg := fmt.Sprintf("%d %d %d %d %d %d %d %d %d %d", k.W, k.H, k.C, k.P, b2i(k.Signed), k.Levels, k.CBW, k.CBH, k.Prog, b2i(k.MCT))
	var cs []byte
	c.Case("j2k-glue-img-enc "+cfg+" "+c04GlueHex(pix), c04Guarded(func() string {
		out, err := jpeg2000.NewEncoder(k.params()).Encode(pix)
		if err != nil {
			return "err"
		}
		cs = out
		return "ok " + c04GlueHex(out)
	}))
	if cs == nil {
		return
	}
	// the parser's walk: tile data of tile 0 (codestream/parser.go)
	c.Case("j2k-unframe "+c04GlueHex(cs), c04Guarded(func() string {
		st, e := codestream.NewParser(cs).Parse()
		if e != nil || len(st.Tiles) != 1 {
			return "err"
		}
		return "ok " + c04GlueHex(st.Tiles[0].Data)
	}))
	var pkts [][]t2.Packet
	var err error
	if pn, _ := hx.Guard(func() { pkts, err = jpeg2000.VerifTilePacketsC16(k.params(), pix) }); pn || err != nil || len(pkts) != 1 {
		return
	}
	var body []byte
	for _, pk := range pkts[0] {
		body = append(body, pk.Header...)
		body = append(body, pk.Body...)
	}
	c.Case("j2k-glue-img-dec "+cfg+" "+c04GlueHex(body), c04Guarded(func() string {
		d := jpeg2000.NewDecoder()
		if e := d.Decode(cs); e != nil {
			return "err"
		}
		return "ok " + c04GlueHex(d.GetPixelData())
	}))
}

func c04GlueCorrespondence(c *hx.Ctx) {
	r := c.R
	n := 40
	if c.Thorough() {
		n = 200
	}
	for i := 0; i < n; i++ {
		k := c04Cfg{W: r.Range(1, 20), H: r.Range(1, 20), C: r.Pick([]int{1, 1, 3}), P: r.Pick([]int{8, 8, 12, 16}), Signed: r.Intn(5) == 0,
			Levels: r.Range(0, 3), CBW: r.Pick([]int{4, 8, 16, 64}), CBH: r.Pick([]int{4, 8, 16, 64}), Prog: r.Range(0, 4), Layers: 1, MCT: true}
		if k.Signed && k.P < 8 {
			k.Signed = false
		}
		c04GlueCase(c, k, []int{0, 0, 2, 3, 4, 1}[i%6], true)
	}
	// whole codestream from the container bytes (front end, RCT, DWT, cut, T1, T2, framing)
	for i := 0; i < n/2; i++ {
		k := c04Cfg{W: r.Range(1, 18), H: r.Range(1, 18), C: r.Pick([]int{1, 3, 3}), P: r.Pick([]int{8, 8, 12, 16, r.Range(1, 16)}), Signed: r.Intn(4) == 0,
			Levels: r.Range(0, 4), CBW: r.Pick([]int{4, 8, 16, 64}), CBH: r.Pick([]int{4, 8, 16, 64}), Prog: r.Range(0, 4), Layers: 1, MCT: r.Intn(4) != 0}
		c04GlueStream(c, k, []int{0, 0, 2, 3, 4, 1}[i%6])
	}
	// larger images, packets only (no T1 model evaluation)
	for i := 0; i < n/4; i++ {
		k := c04Cfg{W: r.Range(30, 150), H: r.Range(30, 150), C: r.Pick([]int{1, 3}), P: r.Pick([]int{8, 12, 16}),
			Levels: r.Range(0, 5), CBW: r.Pick([]int{16, 32, 64}), CBH: r.Pick([]int{16, 32, 64}), Prog: r.Range(0, 4), Layers: 1, MCT: true}
		c04GlueCase(c, k, []int{0, 4, 3}[i%3], false)
	}
}
