package main

// C06 round 4: correspondence of the full HT cleanup encoder model (byte-exact) and of the context-VLC tables.

import (
	"fmt"
	"strings"

	"github.com/cocosip/go-dicom-codecs/jpeg2000/htj2k"

	"verifharness/internal/hx"
)

func c06HtEnc(c *hx.Ctx, w, h, kmax int, data []int32, gen string) {
	var enc []byte
	var err error
	p, _ := hx.Guard(func() {
		e := htj2k.NewHTEncoder(w, h)
		e.SetKMax(kmax)
		enc, err = e.Encode(append([]int32{}, data...), 1, 0)
	})
	vs := make([]string, len(data))
	for i, v := range data {
		vs[i] = fmt.Sprint(v)
	}
	real := "ok " + hx.Hex(enc)
	switch {
	case p:
		real = "panic"
	case err != nil:
		real = "err"
	case len(enc) == 0:
		real = "nil"
	}
	c.Case(fmt.Sprintf("ht-enc %d %d %d %s", w, h, kmax, strings.Join(vs, ",")), real)
	c.Count("kernel:ht-enc:" + gen)
	if p || err != nil {
		return
	}
	// the real decoder on these bytes, with the encoder's band precision and with neighbouring ones
	for _, kd := range []int{kmax, kmax - 1, kmax + 1} {
		if kd < 1 || kd > 29 {
			continue
		}
		res := "err"
		pd, _ := hx.Guard(func() {
			d := htj2k.NewHTDecoder(w, h)
			d.SetCodingContext(kd, kd-1)
			out, e2 := d.Decode(enc, 1)
			if e2 == nil {
				os := make([]string, len(out))
				for i, v := range out {
					os[i] = fmt.Sprint(v)
				}
				res = "ok " + strings.Join(os, ",")
			}
		})
		if pd {
			res = "panic"
		}
		c.Case(fmt.Sprintf("ht-dec %d %d %d %d %s", w, h, kmax, kd, strings.Join(vs, ",")), res)
		c.Count("kernel:ht-dec")
	}
}

func c06Round4(c *hx.Ctx) {
	// context-VLC tables: the encoder's derived table (hook) and the decoder's lookup table (exported)
	for ti, ini := range []bool{true, false} {
		t := htj2k.VerifOJPHEncoderVLCTable(ini)
		for i := 0; i < 2048; i++ {
			c.Case(fmt.Sprintf("htj2k-vlc-enc %d %d", ti, i), fmt.Sprintf("ok %d", t[i]))
		}
		for i := 0; i < 1024; i++ {
			v := htj2k.VLCLookupTable0[i]
			if !ini {
				v = htj2k.VLCLookupTable1[i]
			}
			c.Case(fmt.Sprintf("htj2k-vlc-dec %d %d", ti, i), fmt.Sprintf("ok %d", uint16(v)))
		}
	}
	c.Count("kernel:vlc-tables")
	// whole-block encoder, byte for byte: 2x2, 4x2, 4x4 and every small shape, all content classes
	shapes := [][2]int{{2, 2}, {4, 2}, {4, 4}, {1, 1}, {1, 2}, {2, 1}, {3, 3}, {5, 2}, {8, 2}, {2, 8}, {6, 6}, {7, 5}, {8, 8}, {9, 4}, {3, 7}, {16, 3}, {1, 9}, {13, 1}}
	rep := 3
	if c.Thorough() {
		rep = 20
	}
	for _, sh := range shapes {
		for cl := 0; cl < 6; cl++ {
			for j := 0; j < rep; j++ {
				kmax := c.R.Pick([]int{1, 2, 3, 5, 8, 9, 12, 16, 17, 20, 30})
				c06HtEnc(c, sh[0], sh[1], kmax, c06BlockData(c.R, sh[0], sh[1], kmax, cl), "small")
			}
		}
	}
	nb := 60
	if c.Thorough() {
		nb = 600
	}
	for i := 0; i < nb; i++ {
		w, h := c.R.Range(1, 24), c.R.Range(1, 24)
		kmax := c.R.Range(1, 30)
		c06HtEnc(c, w, h, kmax, c06BlockData(c.R, w, h, kmax, c.R.Intn(6)), "random")
	}
	for i := 0; i < nb/10; i++ {
		kmax := c.R.Range(4, 20)
		c06HtEnc(c, 64, 64, kmax, c06BlockData(c.R, 64, 64, kmax, c.R.Intn(6)), "64x64")
	}
}
