package main

// C19 — JPEG 2000 tiled images: exact reversible reconstruction for every tile grid.
// End-to-end through jpeg2000.NewEncoder(params with TileWidth/TileHeight).Encode → NewDecoder().Decode.

import (
	"bytes"
	"fmt"

	"github.com/cocosip/go-dicom-codecs/jpeg2000"

	"verifharness/internal/hx"
)

// c19ClassifyTiled: the single-tile version of the case round-trips; attribute the tiled failure
// by the two geometric predicates under which encoder and decoder disagree.
func c19ClassifyTiled(k c04Cfg, pix []byte, res c04Result) (string, string) {
	tw, th := k.TW, k.TH
	if tw == 0 {
		tw = k.W
	}
	if th == 0 {
		th = k.H
	}
	if k.rateSet() {
		// discriminating experiment: the same tiling without a rate target (per-tile path / no allocator measurement)
		k1 := k
		k1.Ratio, k1.PCRD, k1.Rates = 0, false, nil
		if c04RoundTrip(k1, pix).Outcome == "ok" {
			return "j2k-tiles-global-rate-allocation-" + res.Outcome, "several tiles + a rate target (TargetRatio / LayerRates, final lossless layer): Encoder.writeTilesWithGlobalRateDistortion — the allocator runs every tile's packet encoder before the final pass; the final packet headers must start from reset state (tag trees, Included flags, Lblock); the same tiling and layers without a rate target round-trips"
		}
	}
	if (k.PW != 0 || k.PH != 0) && k.Prog >= 2 {
		k1 := k
		k1.Prog = 0
		if c04RoundTrip(k1, pix).Outcome == "ok" {
			return "j2k-tiled-precincts-position-progression", "several tiles + custom precinct sizes + a position-based progression (RPCL/PCRL/CPRL): Encoder.buildTilePacketEncoder gives the packet encoder tile-local component bounds (SetComponentBounds(comp,0,0,w,h), SetImageDimensions) while the decoder orders precinct positions from canvas bounds; the packet order differs for tiles with a non-zero origin (same case with LRCP round-trips)"
		}
	}
	a := c19CBIndexOffset(k.W, k.H, tw, th, k.Levels, k.CBW, k.CBH, k.PW, k.PH)
	b := c19GeometryDiffers(k.W, k.H, tw, th, k.Levels)
	switch {
	case a && b:
		return "j2k-tiled-cbindex-and-subband-split", "tile with non-zero origin: (A) decoder numbers code-blocks from the canvas position of the resolution origin while the encoder numbers them from 0, and (B) the encoder cuts sub-bands with tile-local ceil splits while wavelet and decoder split by canvas parity"
	case a:
		return "j2k-tiled-codeblock-index-canvas-vs-local", "tile whose resolution origin is >= one code-block: decoder computes code-block grid indices from the canvas origin (localX/cbw with localX = resX0 mod precinct), encoder from 0: tag-tree shapes differ"
	case b:
		return "j2k-tiled-subband-split-ignores-origin-parity", "tile with odd origin and odd extent at some level: Encoder.getSubbandsForResolution cuts sub-bands with tile-local ceil splits while ForwardMultilevelWithParity and the decoder split by canvas parity"
	}
	return "j2k-tiled-other-" + res.Outcome, "tiled reversible round trip fails where the single-tile one passes (no known geometric predicate holds)"
}

// c19ResDims mirrors t2/geometry.go resolutionDimsWithOrigin.
func c19ResDims(w, h, x0, y0, levels, res int) (rw, rh, rx0, ry0 int) {
	n := levels - res
	if n < 0 {
		n = 0
	}
	rw, rh, rx0, ry0 = w, h, x0, y0
	for i := 0; i < n; i++ {
		if rx0%2 == 0 {
			rw = (rw + 1) / 2
		} else {
			rw = rw / 2
		}
		if ry0%2 == 0 {
			rh = (rh + 1) / 2
		} else {
			rh = rh / 2
		}
		rx0, ry0 = (rx0+1)>>1, (ry0+1)>>1
	}
	return
}

func c19PrecinctSize(levels, res, pw, ph int) (int, int) {
	if pw == 0 && ph == 0 {
		return 1 << 15, 1 << 15
	}
	if pw == 0 {
		pw = 1 << 15
	}
	if ph == 0 {
		ph = 1 << 15
	}
	sh := levels - res
	lg := func(n int) int {
		r := 0
		for n > 1 {
			n >>= 1
			r++
		}
		return r
	}
	ex, ey := max(0, lg(pw)-sh), max(0, lg(ph)-sh)
	return 1 << min(ex, 15), 1 << min(ey, 15)
}

func c19ForTiles(w, h, tw, th int, f func(x0, y0, x1, y1 int) bool) bool {
	for y0 := 0; y0 < h; y0 += th {
		for x0 := 0; x0 < w; x0 += tw {
			if f(x0, y0, min(x0+tw, w), min(y0+th, h)) {
				return true
			}
		}
	}
	return false
}

// c19CBIndexOffset: predicate (A) — for some tile and resolution the decoder's first code-block gets a
// non-zero grid index (t2/packet_decoder.go collectCodeBlockEntries: cbxLocal = (resX0 - floor(resX0/pw)*pw)/cbw).
func c19CBIndexOffset(w, h, tw, th, levels, cbw, cbh, pw, ph int) bool {
	return c19ForTiles(w, h, tw, th, func(x0, y0, x1, y1 int) bool {
		for res := 0; res <= levels; res++ {
			rw, rh, rx0, ry0 := c19ResDims(x1-x0, y1-y0, x0, y0, levels, res)
			if rw <= 0 || rh <= 0 {
				continue
			}
			ppw, pph := c19PrecinctSize(levels, res, pw, ph)
			if (rx0%ppw)/cbw != 0 || (ry0%pph)/cbh != 0 {
				return true
			}
		}
		return false
	})
}

// c19GeometryDiffers: for some tile and some level 1..levels, the low-pass length by canvas parity
// (what ForwardMultilevelWithParity and the decoder use) differs from the tile-local ceil split
// (what Encoder.getSubbandsForResolution uses).
func c19GeometryDiffers(w, h, tw, th, levels int) bool {
	axis := func(n, t int) bool {
		for x0 := 0; x0 < n; x0 += t {
			x1 := min(x0+t, n)
			a0, a1 := x0, x1
			loc := x1 - x0
			for l := 1; l <= levels; l++ {
				a0, a1 = (a0+1)/2, (a1+1)/2 // canvas low-pass interval
				loc = (loc + 1) / 2         // tile-local ceil split
				if a1-a0 != loc {
					return true
				}
			}
		}
		return false
	}
	return axis(w, tw) || axis(h, th)
}

func c19Eval(c *hx.Ctx, k c04Cfg, s []int, tag string) c04Result {
	pix := c04Container(k, s)
	res := c04RoundTrip(k, pix)
	tw, th := k.TW, k.TH
	nx, ny := (k.W+tw-1)/tw, (k.H+th-1)/th
	c.Eval(k.String()+"|"+hx.Hex(pix[:min(len(pix), 64)]), nx*ny >= 2)
	c.Count("outcome:" + res.Outcome)
	c.Count(tag)
	c.Count(fmt.Sprintf("tilesX=%d", min(nx, 9)))
	c.Count(fmt.Sprintf("tilesY=%d", min(ny, 9)))
	c.Count(fmt.Sprintf("levels=%d", k.Levels))
	c.Count(fmt.Sprintf("layers=%d", k.Layers))
	c.Count(fmt.Sprintf("comps=%d", k.C))
	c.Count(fmt.Sprintf("P=%d", k.P))
	if tw%2 == 1 || th%2 == 1 {
		c.Count("odd-tile-size")
	}
	if k.W%tw == 1 || k.H%th == 1 {
		c.Count("last-tile-1-sample")
	}
	if k.W%tw != 0 || k.H%th != 0 {
		c.Count("partial-tiles")
	}
	if tw < k.CBW || th < k.CBH {
		c.Count("tile-smaller-than-codeblock")
	}
	predA := c19CBIndexOffset(k.W, k.H, tw, th, k.Levels, k.CBW, k.CBH, k.PW, k.PH)
	predB := c19GeometryDiffers(k.W, k.H, tw, th, k.Levels)
	switch {
	case predA && predB:
		c.Count("tiling:formerly-defect-A+B")
	case predA:
		c.Count("tiling:formerly-defect-A(cb-index)")
	case predB:
		c.Count("tiling:formerly-defect-B(origin-parity)")
	default:
		c.Count("tiling:never-affected")
		if nx != ny {
			c.Count("tiling:never-affected-nonsquare-grid")
		}
		if k.Layers >= 2 && nx*ny >= 2 {
			c.Count("tiling:never-affected-multilayer-multitile")
			if k.H%th != 0 {
				c.Count("tiling:never-affected-multilayer-partial-bottom-row")
			}
		}
	}
	if res.Outcome == "ok" {
		return res
	}
	class, what := c04Classify(k, s, res)
	c04Fail(c, hx.Failure{Class: class, What: what, Input: k.input(pix),
		Expected: "decoded samples == source samples, every tile at its position", Actual: res.Outcome + ": " + res.Detail})
	return res
}

func init() { register("C19", c19Run) }

func c19Run(c *hx.Ctx) {
	c.Rule = "an evaluation = one tiled Encoder.Encode→Decoder.Decode round trip through the public API compared byte for byte; non-trivial when the grid has >= 2 tiles; distinct by (configuration, first 64 content bytes)"
	r := c.R
	c19Correspondence(c)
	c19OffsetSweep(c)
	c19RateSweep(c)

	mk := func(w, h, tw, th, comps, p, lv, ly int) c04Cfg {
		return c04Cfg{W: w, H: h, C: comps, P: p, Levels: lv, CBW: 16, CBH: 16, Layers: ly, MCT: true, TW: tw, TH: th}
	}
	// EXPECTED-CORRECT tilings: neither known predicate holds (A: every tile's resolution origin is below one
	// code-block; B: every tile origin is a multiple of 2^levels), so the unchanged library round-trips them and
	// any failure here is a NEW defect (class j2k-tiled-other-*, never listed). Non-square grids (nx != ny), partial
	// right/bottom tiles, 1..3 layers (>= 2 layers with several tiles takes writeTilesWithGlobalRateDistortion),
	// 1 and 3 components, every progression.
	grids := [][2]int{{2, 3}, {1, 4}, {4, 2}, {3, 1}, {2, 2}, {3, 5}, {5, 2}, {1, 2}, {6, 3}, {2, 7}}
	nExp := 0
	for lv := 0; lv <= 3; lv++ {
		for gi, g := range grids {
			for _, partial := range []int{0, 1, 2} { // 0: exact; 1: partial right+bottom tiles; 2: last tile row/column 1 sample
				unit := 1 << lv
				tw, th := unit*r.Range(1, max(1, 8/unit)), unit*r.Range(1, max(1, 8/unit))
				if lv == 0 {
					tw, th = r.Range(1, 9), r.Range(1, 9) // any tile size is aligned at 0 levels
				}
				w, h := g[0]*tw, g[1]*th
				switch partial {
				case 1:
					w -= r.Range(0, tw-1)
					h -= r.Range(1, max(1, th-1))
					if th == 1 {
						h = g[1] * th
					}
				case 2:
					w = (g[0]-1)*tw + 1
					h = (g[1]-1)*th + 1
				}
				if w < 1 || h < 1 {
					continue
				}
				ly := []int{1, 2, 3}[(gi+partial+lv)%3]
				k := mk(w, h, tw, th, []int{1, 3}[(gi+lv)%2], []int{8, 12, 16}[(gi+partial)%3], lv, ly)
				k.CBW, k.CBH = 64, 64
				k.Prog = (gi + lv) % 5
				if c19CBIndexOffset(k.W, k.H, tw, th, k.Levels, k.CBW, k.CBH, 0, 0) || c19GeometryDiffers(k.W, k.H, tw, th, k.Levels) {
					c.Count("expected-correct:generator-miss")
					continue
				}
				nExp++
				c19Eval(c, k, c04Samples(r, k, 0), "expected-correct")
			}
		}
	}
	c.Sample(map[string]any{"expected_correct_tilings_evaluated": nExp,
		"note": "since fix 104b234 EVERY tiling is expected-correct (no class is listed for C19); tags tiling:formerly-defect-A/B mark tilings that exercised the two repaired tile-geometry defects, tiling:never-affected the rest"})
	// tiles x custom precinct sizes x every progression (the position-based progressions order packets by precinct
	// position on the canvas)
	for i := 0; i < 60; i++ {
		w, h := r.Range(20, 90), r.Range(20, 90)
		k := mk(w, h, r.Pick([]int{16, 24, 32, 40, 48}), r.Pick([]int{16, 24, 32, 40}), r.Pick([]int{1, 3}), r.Pick([]int{8, 12}), r.Range(0, 2), r.Pick([]int{1, 2}))
		k.TW, k.TH = min(k.TW, w), min(k.TH, h)
		k.CBW, k.CBH = 8, 8
		k.PW = r.Pick([]int{16, 32})
		k.PH = k.PW
		k.Prog = i % 5
		c19Eval(c, k, c04Samples(r, k, 0), "tiles-with-custom-precincts")
	}
	// boundary cases: aligned tilings, the probe's witness, last tile one sample wide, 1x1 tiles
	for _, g := range [][4]int{{16, 16, 8, 8}, {17, 8, 8, 8}, {9, 9, 4, 4}, {12, 12, 5, 5}, {8, 8, 1, 1}, {33, 17, 16, 16}, {6, 1, 3, 1}, {1, 6, 1, 3}, {10, 10, 3, 7}, {64, 64, 32, 32}, {20, 20, 6, 6}} {
		for lv := 0; lv <= 5; lv++ {
			for _, p := range []int{8, 12, 16} {
				k := mk(g[0], g[1], g[2], g[3], 1, p, lv, 1)
				c19Eval(c, k, c04Samples(r, k, 0), "boundary")
			}
		}
		k := mk(g[0], g[1], g[2], g[3], 3, 8, 1, 1)
		c19Eval(c, k, c04Samples(r, k, 0), "boundary-rgb")
	}
	// 1..8 tiles per axis: power-of-two tiles (aligned) and odd tiles
	for nx := 1; nx <= 8; nx++ {
		for ny := 1; ny <= 8; ny += 2 {
			for _, t := range []int{4, 8, 5, 7} {
				for _, extra := range []int{0, 1} { // extra=1: one more tile, 1 sample wide
					w, h := nx*t+extra, ny*t+extra
					if extra == 1 && (nx == 8 || ny == 8) {
						continue
					}
					k := mk(w, h, t, t, 1, 8, r.Range(0, 3), 1)
					c19Eval(c, k, c04Samples(r, k, 0), "grid-sweep")
				}
			}
		}
	}
	n := 400
	maxDim := 40
	if c.Thorough() {
		n = 6000
		maxDim = 80
	}
	for i := 0; i < n; i++ {
		w, h := r.Range(1, maxDim), r.Range(1, maxDim)
		var tw, th int
		switch r.Intn(3) {
		case 0: // power-of-two tile sizes
			tw, th = 1<<r.Range(0, 5), 1<<r.Range(0, 5)
		case 1: // 1..8 tiles per axis
			tw, th = (w+r.Range(1, 8)-1)/r.Range(1, 8), (h+r.Range(1, 8)-1)/r.Range(1, 8)
		default:
			tw, th = r.Range(1, w), r.Range(1, h)
		}
		tw, th = max(1, min(tw, w)), max(1, min(th, h))
		if (w+tw-1)/tw > 8 {
			tw = (w + 7) / 8
		}
		if (h+th-1)/th > 8 {
			th = (h + 7) / 8
		}
		k := mk(w, h, tw, th, r.Pick([]int{1, 1, 3}), r.Pick([]int{8, 12, 16}), r.Range(0, 5), r.Pick([]int{1, 1, 1, 2, 3}))
		k.CBW, k.CBH = r.Pick([]int{4, 16, 64}), r.Pick([]int{4, 16, 64})
		k.Prog = r.Range(0, 4)
		c19Eval(c, k, c04Samples(r, k, []int{0, 0, 0, 1, 4}[r.Intn(5)]), "random")
	}
	if c.Thorough() {
		for i := 0; i < 30; i++ {
			w, h := r.Range(100, 600), r.Range(100, 600)
			tw, th := r.Range(w/8+1, w), r.Range(h/8+1, h)
			k := mk(w, h, tw, th, r.Pick([]int{1, 3}), r.Pick([]int{8, 12, 16}), r.Range(0, 5), r.Range(1, 3))
			c19Eval(c, k, c04Samples(r, k, 0), "random-large")
		}
	}
}

// c19RewriteSIZ moves the image of a codestream written at origin 0 to the reference-grid offset (ox, oy):
// Xsiz/Ysiz grow by the offset, XOsiz/YOsiz are set; the tile grid either moves along (XTOsiz/YTOsiz = offset)
// or stays anchored at 0 with the single tile widened to cover the image (XTsiz += ox, YTsiz += oy).
// The result is a valid codestream for the same samples iff the geometry the decoder derives is the geometry the
// encoder used, i.e. when the offset is a multiple of 2^levels (same split parities) [and, before patch 0004, of
// the precinct size at every resolution].
func c19RewriteSIZ(cs []byte, ox, oy int, moveTileGrid bool) []byte {
	out := append([]byte(nil), cs...)
	if len(out) < 40 || out[2] != 0xFF || out[3] != 0x51 {
		return out
	}
	g := func(o int) int { return int(out[o])<<24 | int(out[o+1])<<16 | int(out[o+2])<<8 | int(out[o+3]) }
	p := func(o, v int) { out[o], out[o+1], out[o+2], out[o+3] = byte(v>>24), byte(v>>16), byte(v>>8), byte(v) }
	p(8, g(8)+ox)
	p(12, g(12)+oy)
	p(16, ox)
	p(20, oy)
	if moveTileGrid {
		p(32, ox)
		p(36, oy)
	} else {
		p(24, g(24)+ox)
		p(28, g(28)+oy)
	}
	return out
}

// c19OffsetEval: encoder output at origin 0, SIZ rewritten to an image offset, decoded through the public API.
func c19OffsetEval(c *hx.Ctx, k c04Cfg, ox, oy int, moveGrid bool, tag string) {
	s := c04Samples(c.R, k, 0)
	pix := c04Container(k, s)
	var cs []byte
	var err error
	if p, _ := hx.Guard(func() { cs, err = jpeg2000.NewEncoder(k.params()).Encode(pix) }); p || err != nil {
		c.Count("offset:encode-failed")
		return
	}
	rw := c19RewriteSIZ(cs, ox, oy, moveGrid)
	d := jpeg2000.NewDecoder()
	oc, detail := "ok", ""
	var out []byte
	p, msg := hx.Guard(func() {
		if e := d.Decode(rw); e != nil {
			oc, detail = "dec-err", e.Error()
			return
		}
		out = d.GetPixelData()
	})
	switch {
	case p:
		oc, detail = "dec-panic", msg
	case oc == "ok" && (d.Width() != k.W || d.Height() != k.H):
		oc, detail = "meta", fmt.Sprintf("decoder reports %dx%d", d.Width(), d.Height())
	case oc == "ok" && !bytes.Equal(out, pix):
		oc, detail = "mismatch", "decoded samples differ"
	}
	c.Eval(fmt.Sprintf("offset|%s|%d|%d|%v|%s", k.String(), ox, oy, moveGrid, hx.Hex(pix[:min(len(pix), 32)])), true)
	c.Count("outcome:" + oc)
	c.Count(tag)
	if oc == "ok" {
		return
	}
	// expected-correct since fix 3981d09 (code-block grid index relative to the band's first block in the precinct):
	// every offset that keeps the split parities (multiple of 2^levels) and the precinct partition (multiple of the
	// precinct size at every resolution, or no precinct boundary inside the image) — nothing here is a known class
	class, what := "j2k-image-offset-"+oc, "SIZ-rewritten encoder output at an image offset (multiple of 2^levels, same precinct partition) does not decode to the source"
	in := k.input(pix)
	in["XOsiz"], in["YOsiz"], in["tileGridMoved"] = ox, oy, moveGrid
	c04Fail(c, hx.Failure{Class: class, What: what, Input: in, Expected: "decoded samples == source samples, same extent", Actual: oc + ": " + detail})
}

// c19OffsetSweep: image offsets on the reference grid (the encoder cannot produce them; the SIZ segment of its
// output is rewritten). Offsets are multiples of 2^levels so that the split parities of the tile are unchanged.
func c19OffsetSweep(c *hx.Ctx) {
	r := c.R
	mk := func(w, h, tw, th, lv, ly int) c04Cfg {
		return c04Cfg{W: w, H: h, C: r.Pick([]int{1, 3}), P: r.Pick([]int{8, 12}), Levels: lv, CBW: r.Pick([]int{8, 64}), CBH: r.Pick([]int{8, 64}),
			Layers: ly, MCT: true, TW: tw, TH: th, Prog: r.Range(0, 4)}
	}
	// (a) offsets that are multiples of the default precinct size at every resolution: exact on every tree
	for _, m := range [][2]int{{1, 0}, {0, 1}, {1, 1}, {2, 3}, {5, 1}} {
		for lv := 0; lv <= 4; lv++ {
			off := [2]int{m[0] * (32768 << uint(lv)), m[1] * (32768 << uint(lv))}
			for _, tiled := range []bool{false, true} {
				k := mk(r.Range(9, 40), r.Range(9, 40), 0, 0, lv, r.Pick([]int{1, 2}))
				if tiled {
					k.TW, k.TH = 8<<uint(lv%2), 8
				}
				// single tile: both anchorings of the tile grid; tiled: the grid moves with the image
				c19OffsetEval(c, k, off[0], off[1], true, "image-offset:precinct-aligned")
				if !tiled {
					// XTOsiz = 0 < XOsiz with the tile widened to cover the image (tile rectangle must be
					// clipped to [XOsiz, Xsiz) x [YOsiz, Ysiz))
					c19OffsetEval(c, k, off[0], off[1], false, "image-offset:precinct-aligned-tilegrid-at-0")
				}
			}
		}
	}
	// (b) offsets that are multiples of 2^levels only (fixed by 3981d09: before it these decoded with err=nil and
	// wrong samples, with tag-tree grids quadratic in the offset)
	for _, off := range [][2]int{{64, 64}, {1000, 0}, {0, 2048}, {4096, 4096}, {16384, 64}, {48, 80}} {
		for lv := 0; lv <= 3; lv++ {
			for _, tiled := range []bool{false, true} {
				k := mk(r.Range(9, 32), r.Range(9, 32), 0, 0, lv, 1)
				if tiled {
					k.TW, k.TH = 8, 16
				}
				ox, oy := off[0]>>uint(lv)<<uint(lv), off[1]>>uint(lv)<<uint(lv)
				c19OffsetEval(c, k, ox, oy, true, "image-offset:level-aligned")
				if !tiled {
					c19OffsetEval(c, k, ox, oy, false, "image-offset:level-aligned-tilegrid-at-0")
				}
			}
		}
	}
	c19OffsetRandom(c, true)
}

// c19OffsetRandom: random offsets m*2^levels below the first default-precinct boundary (so the image lies in one
// precinct at every resolution, as at origin 0), and custom precincts with offsets that are multiples of the
// precinct size at every resolution; all expected-correct. tiled=false restricts to single-tile streams (C04).
func c19OffsetRandom(c *hx.Ctx, tiled bool) {
	r := c.R
	n := 24
	if c.Thorough() {
		n = 160
	}
	for i := 0; i < n; i++ {
		lv := r.Range(0, 5)
		k := c04Cfg{W: r.Range(1, 48), H: r.Range(1, 48), C: r.Pick([]int{1, 3}), P: r.Pick([]int{8, 12, 16}), Levels: lv,
			CBW: r.Pick([]int{4, 8, 16, 64}), CBH: r.Pick([]int{4, 8, 16, 64}), Layers: r.Pick([]int{1, 1, 2, 3}), MCT: true, Prog: r.Range(0, 4)}
		k.Signed = r.Intn(4) == 0
		if tiled && r.Intn(2) == 0 {
			k.TW, k.TH = r.Range(max(1, k.W/4), k.W), r.Range(max(1, k.H/4), k.H)
		}
		ox, oy := r.Range(0, 30000>>uint(lv))<<uint(lv), r.Range(0, 30000>>uint(lv))<<uint(lv)
		tag := "image-offset:random-level-aligned"
		if r.Intn(3) == 0 {
			// custom precincts: offset must keep the canvas precinct partition at every resolution
			k.PW, k.PH = 1<<uint(r.Range(5, 8)), 1<<uint(r.Range(5, 8))
			k.CBW, k.CBH = min(k.CBW, 16), min(k.CBH, 16)
			ox, oy = r.Range(0, 6)*(k.PW<<uint(lv)), r.Range(0, 6)*(k.PH<<uint(lv))
			tag = "image-offset:random-custom-precinct-aligned"
		}
		c19OffsetEval(c, k, ox, oy, k.TW != 0 || r.Intn(2) == 0, tag)
	}
}

// c19RateSweep: several tiles together with GLOBAL rate allocation (Encoder.writeTilesWithGlobalRateDistortion: the
// allocator runs every tile's packet encoder before the final pass) and a final lossless layer — the reversible
// stream must still decode exactly. TargetRatio with and without PCRD, LayerRates, 2..3 layers, 2..9 tiles, partial
// tiles, 1 and 3 components; the same configurations on a single tile as control (own path, own reset).
// (The .90/.92 codecs of jpeg2000/lossless expose no tile parameters: this path is reachable through
// jpeg2000.EncodeParams only.)
func c19RateSweep(c *hx.Ctx) {
	r := c.R
	type rc struct {
		ratio float64
		pcrd  bool
		rates []float64
		ly    int
	}
	rcs := []rc{{4, true, nil, 2}, {4, false, nil, 2}, {8, true, nil, 3}, {2, true, nil, 2}, {0, false, []float64{8, 4, 0}, 3},
		{0, true, []float64{6, 0}, 2}, {3, true, []float64{12, 6, 0}, 3}, {16, true, nil, 3}}
	content := func(k c04Cfg, kind int) []int {
		if kind != 5 {
			return c04Samples(r, k, kind)
		}
		// smooth gradient plus noise: every tile has several coding passes to distribute over the layers
		s := make([]int, k.W*k.H*k.C)
		hi := (1 << k.P) - 1
		for i := range s {
			px := i / k.C
			s[i] = ((px%k.W)*3 + (px/k.W)*2 + r.Intn(16)) & hi
		}
		return s
	}
	reps := 1
	if c.Thorough() {
		reps = 4
	}
	for rep := 0; rep < reps; rep++ {
		for i, q := range rcs {
			for _, g := range [][4]int{{64, 64, 32, 32}, {48, 40, 16, 24}, {37, 29, 16, 16}, {64, 64, 0, 0}} {
				k := c04Cfg{W: g[0], H: g[1], C: []int{1, 3}[(i+rep)%2], P: []int{8, 12}[(i/2+rep)%2], Levels: 1 + (i+rep)%3, CBW: []int{16, 32}[i%2], CBH: 16,
					Layers: q.ly, MCT: true, TW: g[2], TH: g[3], Prog: (i + rep) % 5, Ratio: q.ratio, PCRD: q.pcrd, Rates: q.rates, Append: true}
				if rep > 0 {
					k.W, k.H = r.Range(33, 80), r.Range(33, 80)
					if k.TW != 0 {
						k.TW, k.TH = r.Range(12, 40), r.Range(12, 40)
					}
				}
				tag := "tiles-with-global-rate-allocation"
				if k.TW == 0 {
					tag = "single-tile-rate-allocation-control"
					s := content(k, []int{5, 0, 4}[(i+rep)%3])
					pix := c04Container(k, s)
					res := c04RoundTrip(k, pix)
					c.Eval(k.String()+"|"+hx.Hex(pix[:min(len(pix), 64)]), false)
					c.Count("outcome:" + res.Outcome)
					c.Count(tag)
					if res.Outcome != "ok" {
						c04Fail(c, hx.Failure{Class: "j2k-single-tile-rate-allocation-" + res.Outcome, What: "single-tile reversible stream with a rate target and a final lossless layer is not exact",
							Input: k.input(pix), Expected: "decoded samples == source samples", Actual: res.Outcome + ": " + res.Detail})
					}
					continue
				}
				c19Eval(c, k, content(k, []int{5, 0, 4}[(i+rep)%3]), tag)
			}
		}
	}
}
