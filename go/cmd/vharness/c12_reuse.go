package main

// C12 — the bound on a long-lived Encoder object (family encoder-reuse).
//
// Found missing by an independent seeded change (seeded/C12-m8): the property speaks of every image and every
// irreversible configuration; the main search builds a fresh jpeg2000.Encoder per image, so state that survives from
// one Encode call to the next on the SAME object (float ICT planes, cached QCD description, per-tile buffers) is never
// exercised.  This family drives one Encoder through a seeded sequence of configurations — its parameter object is
// rewritten between calls, which the API allows (NewEncoder keeps the caller's pointer) — and evaluates the very
// same oracle (c12One) on every stream it returns: 3 components -> 1 component of the same geometry, MCT on -> off,
// level count / quality / bit depth / signedness changes, geometry changes.

import (
	"fmt"

	"github.com/cocosip/go-dicom-codecs/jpeg2000"

	"verifharness/internal/hx"
)

func init() { registerExtra("C12", "encoder-reuse", c12Reuse) }

func c12Reuse(c *hx.Ctx) {
	r := hx.NewRand(c.Seed ^ 0xC12E)
	sp := jpeg2000.DefaultEncodeParams(8, 8, 1, 8, false)
	enc := jpeg2000.NewEncoder(sp)
	calls := 0
	prev := "none"
	saved := c12Encode
	defer func() { c12Encode = saved; c12History = "" }()
	c12Encode = func(p *jpeg2000.EncodeParams, px []byte) ([]byte, error) {
		*sp = *p
		calls++
		return enc.Encode(px)
	}
	n := 60
	if c.Thorough() {
		n = 400
	}
	Ps := []int{8, 12, 16}
	for i := 0; i < n; i++ {
		g := c12Cfg{W: r.Range(4, 40), H: r.Range(4, 40), Comps: 3, P: Ps[r.Intn(3)], Signed: r.Intn(3) == 0, Quality: r.Pick([]int{20, 50, 80, 90, 100, r.Range(1, 100)}),
			Levels: r.Intn(4), CB: r.Pick([]int{16, 32, 64}), Class: r.Pick([]int{0, 1, 2, 3, 4, 5, 7})}
		if r.Intn(4) == 0 {
			g.Comps = 1
		}
		// a group of calls on the same geometry: the colour frame first, then variations of it
		vars := []c12Cfg{g}
		v := g
		v.Comps = 1
		v.Class = r.Pick([]int{0, 1, 2, 3, 4, 5, 7})
		vars = append(vars, v)
		if r.Bool() {
			w := g
			w.Levels = (g.Levels + 1 + r.Intn(3)) % 5
			w.Quality = r.Range(1, 100)
			vars = append(vars, w)
		}
		if r.Bool() {
			w := v
			w.P = Ps[r.Intn(3)]
			w.Signed = !g.Signed
			vars = append(vars, w)
		}
		for _, cfg := range vars {
			c12History = fmt.Sprintf("one jpeg2000.Encoder object, parameters rewritten through the pointer given to NewEncoder; call #%d, previous call: %s", calls+1, prev)
			c12One(c, cfg)
			c.Count("encoder-reuse:calls")
			c.Count(fmt.Sprintf("encoder-reuse:comps %d after %s", cfg.Comps, prev[:min(len(prev), 8)]))
			prev = cfg.String()
		}
	}
}
