package main

// C08 — the JPEG 2000 decoder OBJECT with a caller-supplied ROI configuration (integration package intc09).
//
// The main C08 search decodes byte strings with a decoder in its default state.  A finding of an independent bug
// hunter reaches a panic through the public setter jpeg2000.Decoder.SetROIConfig with a configuration that
// ROIConfig.Validate accepts (general scaling, shift ≥ 32: int32(1 << shift) == 0 as divisor).  This family decodes
// streams of the library's own encoder (plain, and encoded with an ROI) with decoder objects configured over the
// whole accepted configuration space: style x shift 1..255 (boundaries 30/31/32/33/63/64/255 first) x shape
// (rectangle, full frame, bitmap mask) x component subset x the Shift / Scale / DefaultShift ways of giving the shift,
// and the legacy SetROI rectangle.  Oracle = C08's: the call returns a result or an error; a panic is classified by
// c09Classify (top non-runtime frame + kind), exactly like the child-process search does.
// Decodes run in-process under recover(): the inputs are valid streams of a few hundred bytes.

import (
	"fmt"
	"os"
	"runtime/debug"
	"sort"
	"strings"

	"github.com/cocosip/go-dicom-codecs/jpeg2000"

	"verifharness/internal/hx"
)

func init() {
	registerExtra("C08", "intc09-roi-config", c08hMain)
	if len(os.Args) >= 4 && os.Args[1] == "intc09-dev" { // development aid: only the intc09 families of C08 / C09, into <dir>
		tier := "quick"
		if len(os.Args) >= 5 {
			tier = os.Args[4]
		}
		c := hx.NewCtx(os.Args[2], 1, tier, os.Args[3])
		if os.Args[2] == "C08" {
			c08hMain(c)
		} else {
			c09hMain(c)
		}
		for _, f := range c.Failures {
			fmt.Printf("FAIL %s: %s | %s\n", f.Class, f.What, f.Actual)
		}
		keys := make([]string, 0, len(c.Distribution))
		for k := range c.Distribution {
			keys = append(keys, k)
		}
		sort.Strings(keys)
		for _, k := range keys {
			fmt.Printf("%6d %s\n", c.Distribution[k], k)
		}
		c.Close()
		os.Exit(0)
	}
}

type c08hStream struct {
	name        string
	w, h, comps int
	data        []byte
}

type c08hCfg struct {
	desc   string
	cfg    *jpeg2000.ROIConfig
	legacy *jpeg2000.ROIParams
}

func c08hStreams(c *hx.Ctx) []c08hStream {
	var out []c08hStream
	geos := [][4]int{{16, 16, 1, 1}, {33, 17, 1, 2}, {8, 8, 3, 0}, {20, 12, 3, 1}}
	for gi, g := range geos {
		w, h, comps, levels := g[0], g[1], g[2], g[3]
		px := make([]byte, w*h*comps)
		for i := range px {
			px[i] = byte((i*7 + i/w*3 + gi*31) & 0xff)
		}
		for _, lossless := range []bool{true, false} {
			for _, roiEnc := range []int{0, 1, 2} { // 0: no ROI at the encoder, 1: MaxShift, 2: general scaling
				p := jpeg2000.DefaultEncodeParams(w, h, comps, 8, false)
				p.NumLevels = levels
				p.Lossless = lossless
				name := fmt.Sprintf("%dx%dx%d-l%d-lossless=%v", w, h, comps, levels, lossless)
				if roiEnc > 0 {
					st := jpeg2000.ROIStyleMaxShift
					if roiEnc == 2 {
						st = jpeg2000.ROIStyleGeneralScaling
					}
					p.ROIConfig = &jpeg2000.ROIConfig{ROIs: []jpeg2000.ROIRegion{{Style: st, Rect: &jpeg2000.ROIParams{X0: 1, Y0: 1, Width: w / 2, Height: h / 2}, Shift: 3}}}
					name += fmt.Sprintf("-encROI%d", roiEnc)
				}
				var data []byte
				var err error
				if pan, msg := hx.Guard(func() { data, err = jpeg2000.NewEncoder(p).Encode(px) }); pan {
					c.Count("intc09:roi:encoder-panic (C08 is about decoders): " + strings.SplitN(msg, " | ", 2)[0])
					continue
				}
				if err != nil || len(data) == 0 {
					c.Count("intc09:roi:encoder-rejected")
					continue
				}
				out = append(out, c08hStream{name, w, h, comps, data})
			}
		}
	}
	return out
}

func c08hConfigs(c *hx.Ctx, w, h, comps int) []c08hCfg {
	shifts := []int{1, 7, 30, 31, 32, 33, 63, 64, 255}
	n := 3
	if c.Thorough() {
		n = 24
	}
	for k := 0; k < n; k++ {
		shifts = append(shifts, c.R.Range(1, 255))
	}
	var out []c08hCfg
	mask := make([]bool, w*h)
	for i := range mask {
		mask[i] = (i%w+i/w)%3 == 0
	}
	for _, sh := range shifts {
		for si, st := range []jpeg2000.ROIStyle{jpeg2000.ROIStyleMaxShift, jpeg2000.ROIStyleGeneralScaling} {
			part := &jpeg2000.ROIParams{X0: 0, Y0: 0, Width: (w + 1) / 2, Height: (h + 1) / 2}
			full := &jpeg2000.ROIParams{X0: 0, Y0: 0, Width: w, Height: h}
			one := &jpeg2000.ROIParams{X0: w - 1, Y0: h - 1, Width: 1, Height: 1}
			out = append(out,
				c08hCfg{desc: fmt.Sprintf("style=%d shift=%d rect=part", si, sh), cfg: &jpeg2000.ROIConfig{ROIs: []jpeg2000.ROIRegion{{Style: st, Rect: part, Shift: sh}}}},
				c08hCfg{desc: fmt.Sprintf("style=%d scale=%d rect=full", si, sh), cfg: &jpeg2000.ROIConfig{ROIs: []jpeg2000.ROIRegion{{Style: st, Rect: full, Scale: sh}}}},
				c08hCfg{desc: fmt.Sprintf("defaultStyle=%d defaultShift=%d rect=1x1 comps=[0]", si, sh), cfg: &jpeg2000.ROIConfig{DefaultStyle: st, DefaultShift: sh, ROIs: []jpeg2000.ROIRegion{{Rect: one, Components: []int{0}}}}},
				c08hCfg{desc: fmt.Sprintf("style=%d shift=%d mask", si, sh), cfg: &jpeg2000.ROIConfig{ROIs: []jpeg2000.ROIRegion{{Style: st, MaskWidth: w, MaskHeight: h, MaskData: mask, Shift: sh}}}},
				c08hCfg{desc: fmt.Sprintf("style=%d shift=%d polygon", si, sh), cfg: &jpeg2000.ROIConfig{ROIs: []jpeg2000.ROIRegion{{Style: st, Polygon: []jpeg2000.Point{{X: 0, Y: 0}, {X: w - 1, Y: 1}, {X: w / 2, Y: h - 1}}, Shift: sh}}}},
				c08hCfg{desc: fmt.Sprintf("style=%d shift=%d shape=mask (Validate rejects)", si, sh), cfg: &jpeg2000.ROIConfig{ROIs: []jpeg2000.ROIRegion{{Style: st, Shape: jpeg2000.ROIShapeMask, MaskWidth: w, MaskHeight: h, MaskData: mask, Shift: sh}}}},
				c08hCfg{desc: fmt.Sprintf("style=%d shift=%d two rects", si, sh), cfg: &jpeg2000.ROIConfig{ROIs: []jpeg2000.ROIRegion{{Style: st, Rect: part, Shift: sh}, {Style: st, Rect: one, Shift: sh}}}},
			)
			if comps > 1 {
				out = append(out, c08hCfg{desc: fmt.Sprintf("style=%d shift=%d rect=part comps=[%d]", si, sh, comps-1), cfg: &jpeg2000.ROIConfig{ROIs: []jpeg2000.ROIRegion{{Style: st, Rect: part, Shift: sh, Components: []int{comps - 1}}}}})
			}
		}
		out = append(out, c08hCfg{desc: fmt.Sprintf("legacy SetROI shift=%d", sh), legacy: &jpeg2000.ROIParams{X0: 1, Y0: 0, Width: w - 1, Height: h, Shift: sh}})
	}
	return out
}

func c08hMain(c *hx.Ctx) {
	type hit struct {
		st    c08hStream
		cf    c08hCfg
		info  c09StackInfo
		count int
	}
	classes := map[string]*hit{}
	for _, st := range c08hStreams(c) {
		c.Count("intc09:roi:streams")
		for _, cf := range c08hConfigs(c, st.w, st.h, st.comps) {
			if cf.cfg != nil {
				if err := cf.cfg.Validate(st.w, st.h); err != nil {
					c.Count("intc09:roi:config-rejected-by-Validate (not evaluated)")
					continue
				}
			}
			outcome := "ok"
			var info c09StackInfo
			func() {
				defer func() {
					if r := recover(); r != nil {
						info = c09Classify(r, string(debug.Stack()))
						outcome = "panic"
					}
				}()
				d := jpeg2000.NewDecoder()
				if cf.cfg != nil {
					d.SetROIConfig(cf.cfg)
				} else {
					d.SetROI(cf.legacy)
				}
				if err := d.Decode(st.data); err != nil {
					outcome = "err"
					return
				}
				_ = d.GetPixelData()
			}()
			c.Eval("roi|"+st.name+"|"+cf.desc, true)
			c.Count("intc09:roi:outcome:" + outcome)
			if outcome == "panic" {
				cl := strings.ReplaceAll(info.Site, "/", ".") + "-" + info.Kind
				if hgot, ok := classes[cl]; ok {
					hgot.count++
				} else {
					classes[cl] = &hit{st, cf, info, 1}
				}
			}
		}
	}
	names := make([]string, 0, len(classes))
	for k := range classes {
		names = append(names, k)
	}
	sort.Strings(names)
	for _, cl := range names {
		ht := classes[cl]
		c.CountN("panic-class:"+cl, ht.count)
		in := map[string]any{"target": "jpeg2000.Decoder object with ROI configuration", "hex": hx.Hex(ht.st.data), "len": len(ht.st.data),
			"stream": ht.st.name, "roi": ht.cf.desc, "hits_this_run": ht.count,
			"replay": "d := jpeg2000.NewDecoder(); d.SetROIConfig(<roi>) (or SetROI for the legacy rectangle); d.Decode(<hex>)"}
		if ht.cf.cfg != nil {
			if s := fmt.Sprintf("%+v", *ht.cf.cfg); len(s) <= 600 {
				in["roiConfig"] = s
			}
			if len(ht.cf.cfg.ROIs) > 0 && ht.cf.cfg.ROIs[0].Rect != nil {
				in["roiRect0"] = fmt.Sprintf("%+v", *ht.cf.cfg.ROIs[0].Rect)
			}
		} else {
			in["roiLegacy"] = fmt.Sprintf("%+v", *ht.cf.legacy)
		}
		c.Fail(hx.Failure{Class: cl, What: fmt.Sprintf("panic in %s at %s: %s", ht.info.Site, ht.info.Line, ht.info.Text), Input: in,
			Expected: "a result or an error", Actual: "panic: " + ht.info.Text})
	}
}
