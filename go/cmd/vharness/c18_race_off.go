//go:build !race

package main

const c18RaceBuild = false
