package main

// C16 — independent STRICT parser for single-frame, single-scan JPEG / JPEG-LS interchange streams.
// Written from ITU-T T.81 Annex B (B.1.1.2 markers, B.1.1.4 marker segments, B.1.1.5 entropy-coded
// segments and byte stuffing, B.2.1 high-level syntax, B.2.2 frame header, B.2.3 scan header,
// B.2.4.1 DQT, B.2.4.2 DHT, B.2.4.4 DRI, B.2.4.5 COM, B.2.4.6 APPn) and ITU-T T.87 Annex C
// (C.1 markers SOF55/LSE, C.2.2 frame header, C.2.3 scan header: NEAR, ILV, point transform;
// Annex A.1 / C.3: in a JPEG-LS entropy-coded segment the byte after 0xFF has its MSB clear).
// It shares nothing with the library's own (tolerant) readers.

import "fmt"

type c16Comp struct{ ID, H, V, Tq int }
type c16Sel struct{ Cs, Td, Ta int }
type c16DQT struct {
	Pq, Tq int
	Q      []int
}
type c16DHT struct {
	Tc, Th int
	Bits   [16]int
	Vals   []byte
}

// c16Jpeg is what a strict reader learns from the stream.
type c16Jpeg struct {
	SOF        int // low byte of the SOFn marker: 0xC0, 0xC1, 0xC3, 0xF7 …
	P, Y, X    int
	Comps      []c16Comp
	Sels       []c16Sel
	Ss, Se     int
	Ah, Al     int
	DQT        []c16DQT
	DHT        []c16DHT
	APP, COM   int
	Order      []int // marker low bytes in stream order (after SOI, up to and including SOS)
	HdrEnd     int   // offset of the first entropy-coded byte
	ScanEnd    int   // offset of the EOI marker
	Escapes    int   // number of 0xFF bytes inside the entropy-coded segment
	DHTOffsets []int // offset of each DHT marker
}

// c16Err is a parse failure: Kind is a short stable key, Detail is free text.
type c16Err struct{ Kind, Detail string }

func c16E(kind, f string, a ...any) *c16Err { return &c16Err{kind, fmt.Sprintf(f, a...)} }

func c16IsSOF(m int) bool {
	// T.81 Table B.1: SOF0-3, 5-7, 9-11, 13-15; T.87 C.1.1: SOF55 = 0xFFF7
	switch {
	case m >= 0xC0 && m <= 0xC3, m >= 0xC5 && m <= 0xC7, m >= 0xC9 && m <= 0xCB, m >= 0xCD && m <= 0xCF, m == 0xF7:
		return true
	}
	return false
}

// c16ParseJPEG walks the whole byte string. It accepts exactly:
//   SOI  [tables/misc]*  SOFn  [tables/misc]*  SOS  entropy-coded-segment  EOI  <end of data>
func c16ParseJPEG(d []byte) (*c16Jpeg, *c16Err) {
	j := &c16Jpeg{SOF: -1}
	n := len(d)
	if n < 4 || d[0] != 0xFF || d[1] != 0xD8 {
		return nil, c16E("no-soi", "stream does not start with SOI")
	}
	pos := 2
	haveFrame := false
	dri := 0
	for {
		if pos+2 > n {
			return nil, c16E("truncated", "end of data before SOS at %d", pos)
		}
		if d[pos] != 0xFF {
			return nil, c16E("no-marker", "expected a marker at %d, found %02x", pos, d[pos])
		}
		m := int(d[pos+1])
		mpos := pos
		// stand-alone markers are not allowed between SOI and SOS (no fill bytes either: strict)
		if m == 0x00 || m == 0xFF || m == 0x01 || (m >= 0xD0 && m <= 0xD9) {
			return nil, c16E("bad-marker", "marker ff%02x at %d inside the header", m, pos)
		}
		if pos+4 > n {
			return nil, c16E("truncated", "no length field at %d", pos)
		}
		L := int(d[pos+2])<<8 | int(d[pos+3])
		if L < 2 {
			return nil, c16E("seg-length", "segment ff%02x at %d has length %d < 2", m, pos, L)
		}
		if pos+2+L > n {
			return nil, c16E("seg-length", "segment ff%02x at %d: length %d runs past the end", m, pos, L)
		}
		pl := d[pos+4 : pos+2+L]
		pos += 2 + L
		j.Order = append(j.Order, m)
		switch {
		case m >= 0xE0 && m <= 0xEF:
			j.APP++
		case m == 0xFE:
			j.COM++
		case m == 0xDB: // DQT, B.2.4.1
			p := 0
			if len(pl) == 0 {
				return nil, c16E("dqt", "empty DQT")
			}
			for p < len(pl) {
				pq, tq := int(pl[p]>>4), int(pl[p]&15)
				if pq > 1 || tq > 3 {
					return nil, c16E("dqt", "Pq=%d Tq=%d", pq, tq)
				}
				sz := 64 * (pq + 1)
				if p+1+sz > len(pl) {
					return nil, c16E("seg-length", "DQT length does not match its content")
				}
				t := c16DQT{Pq: pq, Tq: tq}
				for k := 0; k < 64; k++ {
					v := int(pl[p+1+k])
					if pq == 1 {
						v = int(pl[p+1+2*k])<<8 | int(pl[p+2+2*k])
					}
					if v == 0 {
						return nil, c16E("dqt", "zero quantisation element %d", k)
					}
					t.Q = append(t.Q, v)
				}
				j.DQT = append(j.DQT, t)
				p += 1 + sz
			}
		case m == 0xC4: // DHT, B.2.4.2
			p := 0
			if len(pl) == 0 {
				return nil, c16E("dht", "empty DHT")
			}
			j.DHTOffsets = append(j.DHTOffsets, mpos)
			for p < len(pl) {
				tc, th := int(pl[p]>>4), int(pl[p]&15)
				if tc > 1 || th > 3 {
					return nil, c16E("dht", "Tc=%d Th=%d", tc, th)
				}
				if p+17 > len(pl) {
					return nil, c16E("seg-length", "DHT length does not match its content")
				}
				t := c16DHT{Tc: tc, Th: th}
				tot := 0
				kraft := 0 // Annex C: sum of 2^(16-len) must stay below 2^16 (the all-ones code word is reserved)
				for k := 0; k < 16; k++ {
					t.Bits[k] = int(pl[p+1+k])
					tot += t.Bits[k]
					kraft += t.Bits[k] << uint(15-k)
				}
				if kraft >= 1<<16 {
					return nil, c16E("dht", "BITS over-subscribed (Kraft sum %d/65536)", kraft)
				}
				if tot > 256 {
					return nil, c16E("dht", "%d codes", tot)
				}
				if p+17+tot > len(pl) {
					return nil, c16E("seg-length", "DHT length does not match its content")
				}
				t.Vals = append([]byte(nil), pl[p+17:p+17+tot]...)
				seen := map[byte]bool{}
				for _, v := range t.Vals {
					if seen[v] {
						return nil, c16E("dht", "duplicate HUFFVAL %d", v)
					}
					seen[v] = true
				}
				j.DHT = append(j.DHT, t)
				p += 17 + tot
			}
		case m == 0xDD: // DRI
			if L != 4 {
				return nil, c16E("seg-length", "DRI length %d", L)
			}
			dri = int(pl[0])<<8 | int(pl[1])
		case m == 0xF8: // LSE (T.87 C.2.4.1): id 1 = preset coding parameters, fixed length 13
			if len(pl) < 1 || pl[0] < 1 || pl[0] > 4 {
				return nil, c16E("lse", "bad LSE id")
			}
			if pl[0] == 1 && L != 13 {
				return nil, c16E("seg-length", "LSE id 1 with length %d", L)
			}
		case c16IsSOF(m):
			if haveFrame {
				return nil, c16E("two-frames", "second SOFn (ff%02x) at %d", m, mpos)
			}
			haveFrame = true
			if len(pl) < 6 {
				return nil, c16E("seg-length", "SOF payload %d bytes", len(pl))
			}
			j.SOF = m
			j.P = int(pl[0])
			j.Y = int(pl[1])<<8 | int(pl[2])
			j.X = int(pl[3])<<8 | int(pl[4])
			nf := int(pl[5])
			if len(pl) != 6+3*nf {
				return nil, c16E("seg-length", "SOF length %d does not match Nf=%d", L, nf)
			}
			if nf < 1 {
				return nil, c16E("sof", "Nf=0")
			}
			if j.X < 1 || j.Y < 1 {
				return nil, c16E("sof-zero-dim", "frame header declares %dx%d", j.X, j.Y)
			}
			switch m {
			case 0xC0:
				if j.P != 8 {
					return nil, c16E("sof", "baseline precision %d", j.P)
				}
			case 0xC1, 0xC2:
				if j.P != 8 && j.P != 12 {
					return nil, c16E("sof", "DCT precision %d", j.P)
				}
			case 0xC3, 0xF7:
				if j.P < 2 || j.P > 16 {
					return nil, c16E("sof", "lossless precision %d", j.P)
				}
			}
			ids := map[int]bool{}
			for i := 0; i < nf; i++ {
				c := c16Comp{ID: int(pl[6+3*i]), H: int(pl[7+3*i] >> 4), V: int(pl[7+3*i] & 15), Tq: int(pl[8+3*i])}
				if c.H < 1 || c.H > 4 || c.V < 1 || c.V > 4 || c.Tq > 3 {
					return nil, c16E("sof", "component %d: H=%d V=%d Tq=%d", i, c.H, c.V, c.Tq)
				}
				if ids[c.ID] {
					return nil, c16E("sof", "duplicate component id %d", c.ID)
				}
				ids[c.ID] = true
				if (m == 0xC3 || m == 0xF7) && c.Tq != 0 {
					return nil, c16E("sof", "lossless component with Tq=%d", c.Tq)
				}
				j.Comps = append(j.Comps, c)
			}
		case m == 0xDA: // SOS, B.2.3
			if !haveFrame {
				return nil, c16E("sos-before-sof", "SOS at %d before any frame header", mpos)
			}
			if len(pl) < 1 {
				return nil, c16E("seg-length", "empty SOS")
			}
			ns := int(pl[0])
			if len(pl) != 4+2*ns {
				return nil, c16E("seg-length", "SOS length %d does not match Ns=%d", L, ns)
			}
			if ns < 1 || ns > 4 || ns != len(j.Comps) {
				return nil, c16E("sos", "Ns=%d but the frame has %d components (single-scan stream)", ns, len(j.Comps))
			}
			for i := 0; i < ns; i++ {
				s := c16Sel{Cs: int(pl[1+2*i]), Td: int(pl[2+2*i] >> 4), Ta: int(pl[2+2*i] & 15)}
				if s.Cs != j.Comps[i].ID {
					return nil, c16E("sos", "scan component %d selects id %d, frame order has %d", i, s.Cs, j.Comps[i].ID)
				}
				j.Sels = append(j.Sels, s)
			}
			j.Ss, j.Se = int(pl[1+2*ns]), int(pl[2+2*ns])
			j.Ah, j.Al = int(pl[3+2*ns]>>4), int(pl[3+2*ns]&15)
			if e := c16CheckScan(j); e != nil {
				return nil, e
			}
			j.HdrEnd = pos
			goto scan
		default:
			return nil, c16E("bad-marker", "unexpected marker ff%02x at %d", m, mpos)
		}
	}
scan:
	ls := j.SOF == 0xF7
	for {
		if pos >= n {
			return nil, c16E("no-eoi", "end of data inside the entropy-coded segment")
		}
		if d[pos] != 0xFF {
			pos++
			continue
		}
		if pos+1 >= n {
			return nil, c16E("no-eoi", "0xFF is the last byte")
		}
		b := d[pos+1]
		switch {
		case b == 0xD9:
			j.ScanEnd = pos
			if pos+2 != n {
				return nil, c16E("trailing-bytes", "%d bytes after EOI", n-pos-2)
			}
			if j.ScanEnd == j.HdrEnd {
				return nil, c16E("empty-scan", "no entropy-coded data")
			}
			return j, nil
		case !ls && b == 0x00:
			j.Escapes++
			pos += 2
		case ls && b < 0x80:
			j.Escapes++
			pos += 2
		case !ls && b >= 0xD0 && b <= 0xD7 && dri > 0:
			pos += 2
		default:
			return nil, c16E("marker-in-scan", "ff%02x at %d inside the entropy-coded segment", b, pos)
		}
	}
}

// c16CheckScan: scan-header parameters per process (T.81 Table B.3; T.87 C.2.3) and that every
// table the scan refers to was defined before it.
func c16CheckScan(j *c16Jpeg) *c16Err {
	hasDHT := func(tc, th int) bool {
		for _, t := range j.DHT {
			if t.Tc == tc && t.Th == th {
				return true
			}
		}
		return false
	}
	hasDQT := func(tq int) *c16DQT {
		for i := range j.DQT {
			if j.DQT[i].Tq == tq {
				return &j.DQT[i]
			}
		}
		return nil
	}
	switch j.SOF {
	case 0xC0, 0xC1:
		if j.Ss != 0 || j.Se != 63 || j.Ah != 0 || j.Al != 0 {
			return c16E("sos", "sequential DCT scan with Ss=%d Se=%d Ah=%d Al=%d", j.Ss, j.Se, j.Ah, j.Al)
		}
		for i, s := range j.Sels {
			lim := 3
			if j.SOF == 0xC0 {
				lim = 1
			}
			if s.Td > lim || s.Ta > lim {
				return c16E("sos", "table selectors %d/%d", s.Td, s.Ta)
			}
			if !hasDHT(0, s.Td) || !hasDHT(1, s.Ta) {
				return c16E("missing-table", "scan component %d uses undefined Huffman table DC%d/AC%d", i, s.Td, s.Ta)
			}
			q := hasDQT(j.Comps[i].Tq)
			if q == nil {
				return c16E("missing-table", "component %d uses undefined quantisation table %d", i, j.Comps[i].Tq)
			}
			if j.P == 8 && q.Pq != 0 {
				return c16E("dqt", "16-bit quantisation table with 8-bit samples")
			}
		}
	case 0xC3:
		if j.Ss < 1 || j.Ss > 7 || j.Se != 0 || j.Ah != 0 {
			return c16E("sos", "lossless scan with Ss=%d Se=%d Ah=%d", j.Ss, j.Se, j.Ah)
		}
		for i, s := range j.Sels {
			if s.Ta != 0 {
				return c16E("sos", "lossless scan with Ta=%d", s.Ta)
			}
			if !hasDHT(0, s.Td) {
				return c16E("missing-table", "scan component %d uses undefined Huffman table %d", i, s.Td)
			}
		}
	case 0xF7:
		maxval := (1 << uint(j.P)) - 1
		lim := maxval / 2
		if lim > 255 {
			lim = 255
		}
		if j.Ss > lim {
			return c16E("ls-near", "NEAR=%d exceeds min(255, MAXVAL/2)=%d", j.Ss, lim)
		}
		if j.Se > 2 || (len(j.Sels) == 1 && j.Se != 0) || (len(j.Sels) > 1 && j.Se == 0) {
			return c16E("sos", "ILV=%d with %d components in the scan", j.Se, len(j.Sels))
		}
		if j.Ah != 0 {
			return c16E("sos", "JPEG-LS scan with Ah=%d", j.Ah)
		}
		for _, s := range j.Sels {
			if s.Td != 0 || s.Ta != 0 {
				return c16E("sos", "mapping table %d selected but none defined", s.Td<<4|s.Ta)
			}
		}
	default:
		return c16E("sof", "process ff%02x not expected from this library", j.SOF)
	}
	return nil
}
