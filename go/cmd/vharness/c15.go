package main

// C15 — JPEG DCT streams and decoders agree with an independent JPEG implementation (Go's image/jpeg).
//
// Direction A: streams of baseline.Encode / extended.Encode(8-bit) must be accepted by image/jpeg, whose
//   reconstruction must be within 2 (6 per RGB channel) of the library's own decoder.
// Direction B: streams of image/jpeg.Encode (grey 1x1, colour 4:2:0) and of the reference baseline encoder
//   below (4:4:4 / 4:2:2 / 4:2:0 / 4:4:0, standard or optimised Huffman tables, restart intervals,
//   JFIF / Adobe APPn) must be decoded by baseline.Decode and extended.Decode to within the same tolerance
//   of image/jpeg's reconstruction, as width*height*components tightly packed samples.
//
// Correspondence lines (Lean driver ops, lean/GdcVerif/Driver/Dct.lean):
//   jpg-cellmap W H H0 V0 H1 V1 H2 V2 ci   which decoded data unit (ordinal in component ci's decode order)
//                                           each pixel shows, observed through baseline.Decode on a stream
//                                           whose data units are flat with pairwise distinct levels
//   jpg-sofgeom W H H0 V0 H1 V1 H2 V2      accepted? (ok/err) — SOF0 acceptance of sampling factors
//   jpg-rstfilter <scan bytes>             decodeScan's scan collection loop (model) vs the harness transcription;
//                                           the transcription is itself checked against the real decoder
//   jpg-repack W H STRIDE                  index map of the Gray.Pix copy in DecodeSimple

import (
	"bytes"
	"fmt"
	"image"
	"image/color"
	"image/jpeg"
	"math"
	"sort"
	"strings"

	"github.com/cocosip/go-dicom-codecs/jpeg/baseline"
	"github.com/cocosip/go-dicom-codecs/jpeg/extended"
	"github.com/cocosip/go-dicom-codecs/jpeg/standard"

	"verifharness/internal/hx"
)

// ---------------------------------------------------------------- reference baseline encoder

type c15Plane struct {
	H, V   int       // sampling factors
	BW, BH int       // data units per row / column (mcuCols*H, mcuRows*V)
	Coef   [][64]int // quantised coefficients, natural order, BW*BH data units row-major
	Tq     int
}

type c15Opts struct {
	W, H     int
	Planes   []*c15Plane
	QT       [][64]int // natural order
	Optimise bool
	Restart  int // MCUs per restart interval, 0 = none
	JFIF     bool
	Adobe    bool
	COM      bool
	GreyID   int // component id of a single component
	SplitDHT bool
}

type c15Bits struct {
	buf []byte
	acc uint32
	n   int
}

func (b *c15Bits) put(code uint32, n int) {
	for i := n - 1; i >= 0; i-- {
		b.acc = b.acc<<1 | (code>>uint(i))&1
		b.n++
		if b.n == 8 {
			b.buf = append(b.buf, byte(b.acc))
			if byte(b.acc) == 0xFF {
				b.buf = append(b.buf, 0)
			}
			b.acc, b.n = 0, 0
		}
	}
}
func (b *c15Bits) pad() {
	for b.n != 0 {
		b.put(1, 1)
	}
}

type c15Huff struct {
	bits [16]int
	vals []byte
	code [256]uint32
	size [256]int
}

func (h *c15Huff) build() {
	code, k := uint32(0), 0
	for l := 1; l <= 16; l++ {
		for i := 0; i < h.bits[l-1]; i++ {
			h.code[h.vals[k]] = code
			h.size[h.vals[k]] = l
			code++
			k++
		}
		code <<= 1
	}
}

func c15StdHuff(bits [16]int, vals []byte) *c15Huff {
	h := &c15Huff{bits: bits, vals: append([]byte{}, vals...)}
	h.build()
	return h
}

// c15OptHuff: T.81 Annex K.2 (code lengths limited to 16, one reserved all-ones code point).
func c15OptHuff(freq [257]int) *c15Huff {
	freq[256] = 1
	var codesize [257]int
	var others [257]int
	for i := range others {
		others[i] = -1
	}
	for {
		c1, v := -1, int(^uint(0)>>1)
		for i := 0; i <= 256; i++ {
			if freq[i] != 0 && freq[i] <= v {
				v, c1 = freq[i], i
			}
		}
		c2, v := -1, int(^uint(0)>>1)
		for i := 0; i <= 256; i++ {
			if freq[i] != 0 && freq[i] <= v && i != c1 {
				v, c2 = freq[i], i
			}
		}
		if c2 < 0 {
			break
		}
		freq[c1] += freq[c2]
		freq[c2] = 0
		codesize[c1]++
		for others[c1] >= 0 {
			c1 = others[c1]
			codesize[c1]++
		}
		others[c1] = c2
		codesize[c2]++
		for others[c2] >= 0 {
			c2 = others[c2]
			codesize[c2]++
		}
	}
	var bits [33]int
	for i := 0; i <= 256; i++ {
		if codesize[i] > 0 {
			bits[codesize[i]]++
		}
	}
	for i := 32; i > 16; i-- {
		for bits[i] > 0 {
			j := i - 2
			for bits[j] == 0 {
				j--
			}
			bits[i] -= 2
			bits[i-1]++
			bits[j+1] += 2
			bits[j]--
		}
	}
	i := 16
	for bits[i] == 0 {
		i--
	}
	bits[i]--
	h := &c15Huff{}
	for l := 1; l <= 16; l++ {
		h.bits[l-1] = bits[l]
	}
	type sv struct{ s, v int }
	var order []sv
	for v := 0; v < 256; v++ {
		if codesize[v] > 0 {
			order = append(order, sv{codesize[v], v})
		}
	}
	sort.SliceStable(order, func(a, b int) bool { return order[a].s < order[b].s })
	for _, o := range order {
		h.vals = append(h.vals, byte(o.v))
	}
	h.build()
	return h
}

// c15ACComplete: all 162 baseline AC symbols (run 0..15 x size 1..10, EOB, ZRL) have a code.
func c15ACComplete(h *c15Huff) bool {
	n := 0
	for _, b := range h.bits {
		n += b
	}
	if n != 162 || len(h.vals) != 162 {
		return false
	}
	for r := 0; r < 16; r++ {
		for s := 1; s <= 10; s++ {
			if h.size[r<<4|s] == 0 {
				return false
			}
		}
	}
	return h.size[0] != 0 && h.size[0xF0] != 0
}

func c15Cat(v int) int {
	if v < 0 {
		v = -v
	}
	n := 0
	for v > 0 {
		n++
		v >>= 1
	}
	return n
}

// c15Walk calls f for every data unit in interleaved MCU order, with restart bookkeeping.
func c15Walk(o *c15Opts, onRestart func(m int), f func(ci int, p *c15Plane, du int)) {
	maxH, maxV := 1, 1
	for _, p := range o.Planes {
		if p.H > maxH {
			maxH = p.H
		}
		if p.V > maxV {
			maxV = p.V
		}
	}
	mcuCols, mcuRows := (o.W+8*maxH-1)/(8*maxH), (o.H+8*maxV-1)/(8*maxV)
	n := 0
	for my := 0; my < mcuRows; my++ {
		for mx := 0; mx < mcuCols; mx++ {
			if o.Restart > 0 && n > 0 && n%o.Restart == 0 {
				onRestart(n/o.Restart - 1)
			}
			for ci, p := range o.Planes {
				for v := 0; v < p.V; v++ {
					for h := 0; h < p.H; h++ {
						f(ci, p, (my*p.V+v)*p.BW+mx*p.H+h)
					}
				}
			}
			n++
		}
	}
}

func c15Encode(o *c15Opts) []byte {
	nc := len(o.Planes)
	tab := func(ci int) int {
		if ci == 0 {
			return 0
		}
		return 1
	}
	// symbol statistics
	var fdc, fac [2][257]int
	pred := make([]int, nc)
	symbols := func(emitDC func(t, cat, diff int), emitAC func(t, rs, v int)) {
		for i := range pred {
			pred[i] = 0
		}
		c15Walk(o, func(int) {
			for i := range pred {
				pred[i] = 0
			}
			emitDC(-1, 0, 0)
		}, func(ci int, p *c15Plane, du int) {
			t := tab(ci)
			cf := &p.Coef[du]
			d := cf[0] - pred[ci]
			pred[ci] = cf[0]
			emitDC(t, c15Cat(d), d)
			run := 0
			for k := 1; k < 64; k++ {
				v := cf[c11ZigZag[k]]
				if v == 0 {
					run++
					continue
				}
				for run >= 16 {
					c15ZRL++
					emitAC(t, 0xF0, 0)
					run -= 16
				}
				emitAC(t, run<<4|c15Cat(v), v)
				run = 0
			}
			if run > 0 {
				emitAC(t, 0, 0)
			}
		})
	}
	symbols(func(t, cat, _ int) {
		if t >= 0 {
			fdc[t][cat]++
		}
	}, func(t, rs, _ int) { fac[t][rs]++ })
	c15LastFreq.DC, c15LastFreq.AC = fdc, fac
	var dc, ac [2]*c15Huff
	if o.Optimise {
		for t := 0; t < 2 && (t == 0 || nc == 3); t++ {
			dc[t], ac[t] = c15OptHuff(fdc[t]), c15OptHuff(fac[t])
		}
	} else {
		// T.81 Annex K.3 tables; the DC tables are written out here (the repository's luminance DC table is not
		// Table K.3: it has no code for category 11), the 162-symbol AC tables are taken from the repository
		// constants after checking that they are complete prefix codes over the K.5/K.6 symbol set.
		dc[0] = c15StdHuff([16]int{0, 1, 5, 1, 1, 1, 1, 1, 1}, []byte{0, 1, 2, 3, 4, 5, 6, 7, 8, 9, 10, 11})
		dc[1] = c15StdHuff([16]int{0, 3, 1, 1, 1, 1, 1, 1, 1, 1, 1}, []byte{0, 1, 2, 3, 4, 5, 6, 7, 8, 9, 10, 11})
		ac[0] = c15StdHuff(standard.StandardACLuminanceBits, standard.StandardACLuminanceValues)
		ac[1] = c15StdHuff(standard.StandardACChrominanceBits, standard.StandardACChrominanceValues)
		for t := 0; t < 2; t++ {
			if !c15ACComplete(ac[t]) {
				ac[t] = c15OptHuff(fac[t])
			}
		}
	}
	var out []byte
	seg := func(m byte, payload []byte) {
		out = append(out, 0xFF, m, byte((len(payload)+2)>>8), byte(len(payload)+2))
		out = append(out, payload...)
	}
	out = append(out, 0xFF, 0xD8)
	if o.JFIF {
		seg(0xE0, []byte{'J', 'F', 'I', 'F', 0, 1, 1, 0, 0, 1, 0, 1, 0, 0})
	}
	if o.Adobe {
		tr := byte(0)
		if nc == 3 {
			tr = 1
		}
		seg(0xEE, []byte{'A', 'd', 'o', 'b', 'e', 0, 100, 0, 0, 0, 0, tr})
	}
	if o.COM {
		seg(0xFE, []byte("reference encoder \xff\xd9 \xff\xc0\x00\x0b\x08"))
	}
	for t, q := range o.QT {
		p := []byte{byte(t)}
		for k := 0; k < 64; k++ {
			p = append(p, byte(q[c11ZigZag[k]]))
		}
		seg(0xDB, p)
	}
	sof := []byte{8, byte(o.H >> 8), byte(o.H), byte(o.W >> 8), byte(o.W), byte(nc)}
	for ci, p := range o.Planes {
		id := ci + 1
		if nc == 1 {
			id = o.GreyID
		}
		sof = append(sof, byte(id), byte(p.H<<4|p.V), byte(p.Tq))
	}
	seg(0xC0, sof)
	nt := 1
	if nc == 3 {
		nt = 2
	}
	var dht []byte
	for t := 0; t < nt; t++ {
		for cls, h := range []*c15Huff{dc[t], ac[t]} {
			p := []byte{byte(cls<<4 | t)}
			for _, b := range h.bits {
				p = append(p, byte(b))
			}
			p = append(p, h.vals...)
			if o.SplitDHT {
				seg(0xC4, p)
			} else {
				dht = append(dht, p...)
			}
		}
	}
	if !o.SplitDHT {
		seg(0xC4, dht)
	}
	if o.Restart > 0 {
		seg(0xDD, []byte{byte(o.Restart >> 8), byte(o.Restart)})
	}
	sos := []byte{byte(nc)}
	for ci := range o.Planes {
		id := ci + 1
		if nc == 1 {
			id = o.GreyID
		}
		sos = append(sos, byte(id), byte(tab(ci)<<4|tab(ci)))
	}
	sos = append(sos, 0, 63, 0)
	seg(0xDA, sos)
	bw := &c15Bits{}
	rst := 0
	mag := func(v, cat int) {
		if cat == 0 {
			return
		}
		if v < 0 {
			v += 1<<uint(cat) - 1
		}
		bw.put(uint32(v), cat)
	}
	symbols(func(t, cat, d int) {
		if t < 0 { // restart
			bw.pad()
			bw.buf = append(bw.buf, 0xFF, byte(0xD0+rst%8))
			rst++
			return
		}
		bw.put(dc[t].code[cat], dc[t].size[cat])
		mag(d, cat)
	}, func(t, rs, v int) {
		bw.put(ac[t].code[rs], ac[t].size[rs])
		mag(v, rs&15)
		bits := v
		if v < 0 {
			bits = v + 1<<uint(rs&15) - 1
		}
		c15LastSyms = append(c15LastSyms, [2]int{rs, bits})
	})
	bw.pad()
	out = append(out, bw.buf...)
	return append(out, 0xFF, 0xD9)
}

// c15FromImage builds the planes of an image (grey or RGB) for the given sampling and quality:
// JFIF colour matrix, box-filter down-sampling, edge replication, float DCT, round-to-nearest quantiser.
func c15FromImage(px []byte, w, h, comps int, hs, vs int, qt [][64]int) []*c15Plane {
	var full [][]float64
	if comps == 1 {
		f := make([]float64, w*h)
		for i := range f {
			f[i] = float64(px[i])
		}
		full = [][]float64{f}
		hs, vs = 1, 1
	} else {
		y, cb, cr := make([]float64, w*h), make([]float64, w*h), make([]float64, w*h)
		for i := 0; i < w*h; i++ {
			r, g, b := float64(px[3*i]), float64(px[3*i+1]), float64(px[3*i+2])
			y[i] = math.Round(0.299*r + 0.587*g + 0.114*b)
			cb[i] = math.Min(255, math.Max(0, math.Round(-0.168736*r-0.331264*g+0.5*b+128)))
			cr[i] = math.Min(255, math.Max(0, math.Round(0.5*r-0.418688*g-0.081312*b+128)))
		}
		full = [][]float64{y, cb, cr}
	}
	mcuCols, mcuRows := (w+8*hs-1)/(8*hs), (h+8*vs-1)/(8*vs)
	var planes []*c15Plane
	for ci, f := range full {
		p := &c15Plane{H: 1, V: 1, Tq: 0}
		sx, sy := hs, vs // subsampling ratio of this plane
		if ci == 0 {
			p.H, p.V = hs, vs
			sx, sy = 1, 1
		} else {
			p.Tq = 1
		}
		p.BW, p.BH = mcuCols*p.H, mcuRows*p.V
		pw, ph := p.BW*8, p.BH*8
		samp := make([]float64, pw*ph)
		for y := 0; y < ph; y++ {
			for x := 0; x < pw; x++ {
				s, n := 0.0, 0
				for dy := 0; dy < sy; dy++ {
					for dx := 0; dx < sx; dx++ {
						xx, yy := x*sx+dx, y*sy+dy
						if xx >= w {
							xx = w - 1
						}
						if yy >= h {
							yy = h - 1
						}
						s += f[yy*w+xx]
						n++
					}
				}
				samp[y*pw+x] = math.Round(s / float64(n))
			}
		}
		p.Coef = make([][64]int, p.BW*p.BH)
		q := qt[p.Tq]
		for by := 0; by < p.BH; by++ {
			for bx := 0; bx < p.BW; bx++ {
				var blk [64]float64
				for y := 0; y < 8; y++ {
					for x := 0; x < 8; x++ {
						blk[y*8+x] = samp[(by*8+y)*pw+bx*8+x] - 128
					}
				}
				cf := &p.Coef[by*p.BW+bx]
				for v := 0; v < 8; v++ {
					for u := 0; u < 8; u++ {
						s := 0.0
						for y := 0; y < 8; y++ {
							for x := 0; x < 8; x++ {
								s += blk[y*8+x] * c15Cos[u][x] * c15Cos[v][y]
							}
						}
						cu, cv := 1.0, 1.0
						if u == 0 {
							cu = 1 / math.Sqrt2
						}
						if v == 0 {
							cv = 1 / math.Sqrt2
						}
						cf[v*8+u] = int(math.Max(-1023, math.Min(1023, math.Round(s*cu*cv/4/float64(q[v*8+u])))))
					}
				}
			}
		}
		planes = append(planes, p)
	}
	return planes
}

var c15Cos = func() [8][8]float64 {
	var t [8][8]float64
	for u := 0; u < 8; u++ {
		for x := 0; x < 8; x++ {
			t[u][x] = math.Cos(float64((2*x+1)*u) * math.Pi / 16)
		}
	}
	return t
}()

func c15ScaledTables(quality int) [][64]int {
	// IJG quality scaling of the Annex K tables (independent arithmetic: integer, same formula as libjpeg)
	scale := 200 - 2*quality
	if quality < 50 {
		scale = 5000 / quality
	}
	var res [][64]int
	for _, base := range [][64]int32{standard.DefaultLuminanceQuantTable, standard.DefaultChrominanceQuantTable} {
		var t [64]int
		for i := range t {
			v := (int(base[i])*scale + 50) / 100
			if v < 1 {
				v = 1
			}
			if v > 255 {
				v = 255
			}
			t[i] = v
		}
		res = append(res, t)
	}
	return res
}

// ---------------------------------------------------------------- the independent decoder

// c15StdDecode decodes with image/jpeg and returns tightly packed grey or RGB samples.
func c15StdDecode(s []byte) (px []byte, w, h, comps int, err error) {
	img, e := jpeg.Decode(bytes.NewReader(s))
	if e != nil {
		return nil, 0, 0, 0, e
	}
	b := img.Bounds()
	w, h = b.Dx(), b.Dy()
	switch t := img.(type) {
	case *image.Gray:
		px = make([]byte, w*h)
		for y := 0; y < h; y++ {
			copy(px[y*w:(y+1)*w], t.Pix[(y+b.Min.Y-t.Rect.Min.Y)*t.Stride+(b.Min.X-t.Rect.Min.X):])
		}
		return px, w, h, 1, nil
	case *image.YCbCr:
		px = make([]byte, w*h*3)
		for y := 0; y < h; y++ {
			for x := 0; x < w; x++ {
				c := t.YCbCrAt(b.Min.X+x, b.Min.Y+y)
				r, g, bb := color.YCbCrToRGB(c.Y, c.Cb, c.Cr)
				o := (y*w + x) * 3
				px[o], px[o+1], px[o+2] = r, g, bb
			}
		}
		return px, w, h, 3, nil
	}
	return nil, 0, 0, 0, fmt.Errorf("unexpected image type %T", img)
}

type c15Dec struct {
	Name string
	F    func([]byte) ([]byte, int, int, int, error)
}

var c15Decs = []c15Dec{
	{"baseline", baseline.Decode},
	{"extended", func(s []byte) ([]byte, int, int, int, error) {
		p, w, h, c, _, e := extended.Decode(s)
		return p, w, h, c, e
	}},
}

var c15FailSeen = map[string]int{}

// c15ZRL counts ZRL symbols the reference encoder produced (both passes)
var c15ZRL int

// c15LastSyms: (RS, amplitude bits) of the AC symbols written by the last c15Encode
var c15LastSyms [][2]int

// c15LastFreq: symbol statistics (DC, AC per table) gathered by the last c15Encode
var c15LastFreq struct{ DC, AC [2][257]int }

func c15Fail(c *hx.Ctx, f hx.Failure) {
	c15FailSeen[f.Class]++
	if c15FailSeen[f.Class] <= 3 {
		c.Fail(f)
		return
	}
	c.Count("failures")
	c.Count("fail:" + f.Class)
}

// c15AliasClass: does the baseline decoder's component buffer (comp.width = ceil(w*H/(8*maxH)) data units per
// row) alias a padding data unit of the last MCU column onto a data unit of the next row inside one MCU row?
func c15AliasClass(in *c11Info) bool {
	maxH, maxV := 1, 1
	for _, c := range in.Comps {
		if c.H > maxH {
			maxH = c.H
		}
		if c.V > maxV {
			maxV = c.V
		}
	}
	mcuCols := (in.W + 8*maxH - 1) / (8 * maxH)
	for _, c := range in.Comps {
		cw := (in.W*c.H + 8*maxH - 1) / (8 * maxH)
		ch := (in.H*c.V + 8*maxV - 1) / (8 * maxV)
		if cw < mcuCols*c.H && c.V >= 2 && ch >= 2 {
			return true
		}
	}
	return false
}

// c15Compare evaluates direction B for one stream and one library decoder.
func c15Compare(c *hx.Ctx, d c15Dec, stream []byte, src string, in map[string]any) {
	c.Eval(d.Name+" "+hx.Hex(stream), true)
	c.Count("dec:" + d.Name + ":" + src)
	info, perr := c11Parse(stream)
	if perr != "" {
		c.Count("harness-stream-unparsable")
		return
	}
	ref, rw, rh, rc, rerr := c15StdDecode(stream)
	if rerr != nil {
		c.Count("imagejpeg-rejects-foreign:" + src)
		c15Fail(c, hx.Failure{Class: "c15-harness-reference-stream-rejected", What: "image/jpeg rejects the reference stream (harness defect): " + rerr.Error(), Input: in})
		return
	}
	var got []byte
	var w, h, comps int
	var err error
	if p, msg := hx.Guard(func() { got, w, h, comps, err = d.F(stream) }); p {
		c15Fail(c, hx.Failure{Class: "c15-" + d.Name + "-dec-panic", What: "decoder panicked on a valid baseline stream: " + msg, Input: in})
		return
	}
	restart := info.DRI > 0
	if err != nil {
		cls := "c15-" + d.Name + "-dec-reject"
		if restart && d.Name == "baseline" {
			cls = "c15-baseline-dec-restart-interval"
		}
		c15Fail(c, hx.Failure{Class: cls, What: "decoder rejects a valid baseline-sequential stream: " + err.Error(), Input: in})
		return
	}
	if w != rw || h != rh || comps != rc || len(got) != rw*rh*rc {
		cls := "c15-" + d.Name + "-dec-geometry"
		if d.Name == "extended" && rc == 1 && w == rw && h == rh && len(got) == ((rw+7)/8*8)*((rh+7)/8*8) {
			cls = "c15-ext8-grey-padded-pix"
		}
		c15Fail(c, hx.Failure{Class: cls, What: "decoder does not return width*height*components tightly packed samples", Input: in,
			Expected: fmt.Sprintf("%dx%dx%d, %d bytes", rw, rh, rc, rw*rh*rc), Actual: fmt.Sprintf("%dx%dx%d, %d bytes", w, h, comps, len(got))})
		return
	}
	tol := 2
	if rc == 3 {
		tol = 6
	}
	for i := range ref {
		dlt := int(got[i]) - int(ref[i])
		if dlt > tol || dlt < -tol {
			cls := "c15-" + d.Name + "-dec-disagree"
			if d.Name == "baseline" {
				switch {
				case restart:
					cls = "c15-baseline-dec-restart-interval"
				case c15AliasClass(info):
					cls = "c15-baseline-dec-block-alias"
				}
			}
			c15Fail(c, hx.Failure{Class: cls, What: "decoder disagrees with image/jpeg beyond the tolerance", Input: in,
				Expected: fmt.Sprintf("within %d of %d at sample %d (x=%d y=%d ch=%d)", tol, ref[i], i, i/rc%rw, i/rc/rw, i%rc),
				Actual:   fmt.Sprint(got[i])})
			return
		}
	}
}

var c15Samplings = []struct {
	Name string
	H, V int
}{{"444", 1, 1}, {"422", 2, 1}, {"420", 2, 2}, {"440", 1, 2}}

func c15RefStream(c *hx.Ctx, w, h, comps, si, quality, class int, variant int) ([]byte, map[string]any) {
	px := c11Pack(c11Content(c.R, w, h, comps, 8, class), 8)
	qt := c15ScaledTables(quality)
	sm := c15Samplings[si]
	o := &c15Opts{W: w, H: h, QT: qt, GreyID: 1}
	if comps == 1 {
		o.QT = qt[:1]
	}
	o.Planes = c15FromImage(px, w, h, comps, sm.H, sm.V, qt)
	o.Optimise = variant&1 != 0
	if variant&2 != 0 {
		o.Restart = 1 + c.R.Intn(4)
	}
	o.JFIF = variant&4 != 0
	o.Adobe = variant&8 != 0
	o.COM = variant&16 != 0
	o.SplitDHT = variant&32 != 0
	if comps == 1 && variant&64 != 0 {
		o.GreyID = 0
	}
	in := map[string]any{"source": "reference-encoder", "width": w, "height": h, "components": comps, "sampling": sm.Name, "quality": quality,
		"optimisedHuffman": o.Optimise, "restartInterval": o.Restart, "jfif": o.JFIF, "adobe": o.Adobe, "com": o.COM,
		"content": c11ContentNames[class], "pixels": hx.Hex(px)}
	s := c15Encode(o)
	in["stream"] = hx.Hex(s)
	return s, in
}

// ---------------------------------------------------------------- direction A

func c15EncoderSide(c *hx.Ctx, cd c11Codec, w, h, q, class int) {
	px := c11Pack(c11Content(c.R, w, h, cd.Comps, 8, class), 8)
	in := map[string]any{"codec": cd.Name, "width": w, "height": h, "components": cd.Comps, "quality": q, "content": c11ContentNames[class], "pixels": hx.Hex(px)}
	c.Eval("enc "+cd.Name+fmt.Sprint(w, h, q)+hx.Hex(px), w*h >= 2)
	c.Count("enc:" + cd.Name)
	stream, err := cd.Enc(px, w, h, q)
	if err != nil {
		c15Fail(c, hx.Failure{Class: "c15-" + cd.Name + "-encode-err", What: err.Error(), Input: in})
		return
	}
	ref, rw, rh, rc, rerr := c15StdDecode(stream)
	if rerr != nil {
		c15Fail(c, hx.Failure{Class: "c15-" + cd.Name + "-imagejpeg-rejects", What: "image/jpeg rejects the library's stream: " + rerr.Error(), Input: in, Actual: hx.Hex(stream)})
		return
	}
	if rw != w || rh != h || rc != cd.Comps {
		c15Fail(c, hx.Failure{Class: "c15-" + cd.Name + "-imagejpeg-geometry", What: "image/jpeg sees a different geometry", Input: in,
			Expected: fmt.Sprint(w, h, cd.Comps), Actual: fmt.Sprint(rw, rh, rc)})
		return
	}
	var own []byte
	var ow, oh, oc int
	if p, msg := hx.Guard(func() { own, ow, oh, oc, _, err = cd.Dec(stream) }); p || err != nil {
		c15Fail(c, hx.Failure{Class: "c15-" + cd.Name + "-own-decode", What: fmt.Sprint("library decoder fails on its own stream: ", err, msg), Input: in})
		return
	}
	if ow != w || oh != h || oc != cd.Comps || len(own) != len(ref) {
		cls := "c15-" + cd.Name + "-own-geometry"
		if cd.Name == "ext8-grey" && len(own) == ((w+7)/8*8)*((h+7)/8*8) {
			cls = "c15-ext8-grey-padded-pix"
		}
		c15Fail(c, hx.Failure{Class: cls, What: "library decoder returns a different geometry than image/jpeg for the library's stream", Input: in,
			Expected: fmt.Sprintf("%d bytes", len(ref)), Actual: fmt.Sprintf("%d bytes", len(own))})
		return
	}
	tol := 2
	if rc == 3 {
		tol = 6
	}
	for i := range ref {
		if d := int(own[i]) - int(ref[i]); d > tol || d < -tol {
			c15Fail(c, hx.Failure{Class: "c15-" + cd.Name + "-disagree", What: "image/jpeg and the library decoder differ beyond the tolerance on the library's stream", Input: in,
				Expected: fmt.Sprintf("within %d of %d at sample %d", tol, ref[i], i), Actual: fmt.Sprint(own[i])})
			return
		}
	}
}

// ---------------------------------------------------------------- correspondence

// c15CellStream: every data unit of component ci is flat with a level that identifies its ordinal in the
// component's decode order (levels 8,9,...); other components are flat neutral. Quantisation tables are all-ones.
func c15CellStream(w, h int, hv [3][2]int, comps, ci int) ([]byte, int) {
	var q [64]int
	for i := range q {
		q[i] = 1
	}
	o := &c15Opts{W: w, H: h, QT: [][64]int{q, q}, GreyID: 1}
	if comps == 1 {
		o.QT = o.QT[:1]
	}
	maxH, maxV := 1, 1
	for k := 0; k < comps; k++ {
		if hv[k][0] > maxH {
			maxH = hv[k][0]
		}
		if hv[k][1] > maxV {
			maxV = hv[k][1]
		}
	}
	mcuCols, mcuRows := (w+8*maxH-1)/(8*maxH), (h+8*maxV-1)/(8*maxV)
	for k := 0; k < comps; k++ {
		p := &c15Plane{H: hv[k][0], V: hv[k][1]}
		if k > 0 {
			p.Tq = 1
		}
		p.BW, p.BH = mcuCols*p.H, mcuRows*p.V
		p.Coef = make([][64]int, p.BW*p.BH)
		o.Planes = append(o.Planes, p)
	}
	ord := 0
	c15Walk(o, func(int) {}, func(k int, p *c15Plane, du int) {
		if k == ci {
			p.Coef[du][0] = (c15CellBase(comps, ci) + ord - 128) * 8 // DC = 8*(level-128) with Q = 1
			ord++
		}
	})
	return c15Encode(o), ord
}

// c15CellBase: first level used for ordinals; chroma levels stay where the decoder's colour map does not clamp.
func c15CellBase(comps, ci int) int {
	if comps == 3 && ci > 0 {
		return 64
	}
	return 8
}

func c15CellCase(c *hx.Ctx, w, h int, hv [3][2]int, comps, ci int) {
	op := fmt.Sprintf("jpg-cellmap %d %d %d %d %d %d %d %d %d %d", w, h, comps, hv[0][0], hv[0][1], hv[1][0], hv[1][1], hv[2][0], hv[2][1], ci)
	s, n := c15CellStream(w, h, hv, comps, ci)
	if n > 240 || (comps == 3 && ci > 0 && n > 120) {
		return
	}
	var got []byte
	var err error
	var dc int
	if p, _ := hx.Guard(func() { got, _, _, dc, err = baseline.Decode(s) }); p {
		c.Case(op, "panic")
		return
	}
	if err != nil || dc != comps || len(got) != w*h*comps {
		c.Case(op, "err")
		return
	}
	cells := make([]int, w*h)
	for i := range cells {
		var lvl int
		switch {
		case comps == 1:
			lvl = int(got[i])
		case ci == 0: // Cb = Cr = 128: R = G = B = Y
			lvl = int(got[3*i+1])
		case ci == 1: // Y = 128 + ..., B = Y + (116130*(Cb-128))>>16 with Y flat 128, Cr flat 128; invert by search
			lvl = c15InvChroma(int(got[3*i+2]), 116130)
		default: // R = Y + (91881*(Cr-128))>>16
			lvl = c15InvChroma(int(got[3*i]), 91881)
		}
		cells[i] = lvl - c15CellBase(comps, ci) // ordinal of the data unit shown
		if lvl == 0 || (comps == 3 && ci == 1 && got[3*i+2] == 0) || (comps == 3 && ci == 2 && got[3*i] == 0) {
			cells[i] = -1 // the zero-initialised buffer (nothing written, or nothing read)
		} else if cells[i] < 0 || cells[i] >= n {
			cells[i] = -2 // not a level the stream contains
		}
	}
	c.Case(op, "ok "+c11Ints(cells))
}

// c15InvChroma finds the chroma level cb with 128 + (k*(cb-128))>>16 == v (the decoder's fixed-point map is
// strictly increasing for k > 65536, so the preimage is unique when it exists); -1 if none.
func c15InvChroma(v, k int) int {
	for cb := 0; cb < 256; cb++ {
		if 128+(k*(cb-128))>>16 == v {
			return cb
		}
	}
	return -1
}

// c15RstFilter transcribes baseline.Decoder.decodeScan's scan collection loop.
func c15RstFilter(s []byte) []byte {
	var out []byte
	for i := 0; i < len(s); i++ {
		b := s[i]
		if b != 0xFF {
			out = append(out, b)
			continue
		}
		if i+1 >= len(s) {
			out = append(out, b)
			break
		}
		i++
		for s[i] == 0xFF && i+1 < len(s) { // fill bytes (since fix c15-fill-bytes-before-marker)
			i++
		}
		b2 := s[i]
		if b2 == 0xFF { // the data ends inside the fill bytes: one FF is kept
			out = append(out, b)
			break
		}
		if b2 == 0 {
			out = append(out, b, b2)
		} else if b2 >= 0xD0 && b2 <= 0xD7 {
			continue
		} else {
			break
		}
	}
	return out
}

// c15RstSplit transcribes decodeScan's collection loop since fix 4dc30ed (intervals cut at RSTn; joined when DRI = 0).
func c15RstSplit(ri int, s []byte) [][]byte {
	var out [][]byte
	cur := []byte{}
	for i := 0; i < len(s); i++ {
		b := s[i]
		if b != 0xFF {
			cur = append(cur, b)
			continue
		}
		if i+1 >= len(s) {
			cur = append(cur, b)
			break
		}
		i++
		for s[i] == 0xFF && i+1 < len(s) { // fill bytes (since fix c15-fill-bytes-before-marker)
			i++
		}
		b2 := s[i]
		if b2 == 0xFF { // the data ends inside the fill bytes: one FF is kept
			cur = append(cur, b)
			break
		}
		if b2 == 0 {
			cur = append(cur, b, b2)
		} else if b2 >= 0xD0 && b2 <= 0xD7 {
			out = append(out, cur)
			cur = []byte{}
		} else {
			break
		}
	}
	out = append(out, cur)
	if ri == 0 {
		return [][]byte{bytes.Join(out, nil)}
	}
	return out
}

func c15Correspondence(c *hx.Ctx) {
	// cell maps: which data unit each pixel shows
	dims := []int{1, 7, 8, 9, 15, 16, 17, 23, 24, 25, 31, 32, 33}
	samp := [][3][2]int{{{1, 1}, {1, 1}, {1, 1}}, {{2, 1}, {1, 1}, {1, 1}}, {{2, 2}, {1, 1}, {1, 1}}, {{1, 2}, {1, 1}, {1, 1}},
		{{4, 1}, {1, 1}, {1, 1}}, {{2, 2}, {2, 1}, {1, 2}}, {{4, 2}, {2, 2}, {1, 1}}, {{3, 1}, {1, 1}, {1, 1}}}
	for _, w := range dims {
		for _, h := range dims {
			if !c.Thorough() && (w*7+h*3+int(c.Seed))%3 != 0 && !(w == 17 && h == 16) && !(w == 17 && h == 8) {
				continue
			}
			c15CellCase(c, w, h, samp[0], 1, 0)
			for si, hv := range samp {
				for ci := 0; ci < 3; ci++ {
					if ci > 0 && (si+w+h)%2 == 0 && !c.Thorough() {
						continue
					}
					c15CellCase(c, w, h, hv, 3, ci)
				}
			}
		}
	}
	// ycbcrToRGB (unexported) observed through baseline.Decode: an 8x8 4:4:4 stream whose three data units are flat at
	// levels (y, cb, cr) with all-ones quantisation tables decodes to 64 copies of ycbcrToRGB(y, cb, cr)
	for k := 0; k < 300; k++ {
		lv := [3]int{c.R.Intn(256), c.R.Intn(256), c.R.Intn(256)}
		if k < 27 {
			lv = [3]int{[]int{0, 128, 255}[k%3], []int{0, 128, 255}[k/3%3], []int{0, 128, 255}[k/9]}
		}
		var q [64]int
		for i := range q {
			q[i] = 1
		}
		o := &c15Opts{W: 8, H: 8, QT: [][64]int{q, q}}
		for ci := 0; ci < 3; ci++ {
			p := &c15Plane{H: 1, V: 1, BW: 1, BH: 1, Coef: make([][64]int, 1)}
			if ci > 0 {
				p.Tq = 1
			}
			p.Coef[0][0] = (lv[ci] - 128) * 8
			o.Planes = append(o.Planes, p)
		}
		got, _, _, comps, err := baseline.Decode(c15Encode(o))
		if err != nil || comps != 3 || len(got) != 192 {
			c.Case(fmt.Sprintf("jpg-ycc2rgb %d %d %d", lv[0], lv[1], lv[2]), "err")
			continue
		}
		c.Case(fmt.Sprintf("jpg-ycc2rgb %d %d %d", lv[0], lv[1], lv[2]), fmt.Sprintf("ok %d %d %d", got[0], got[1], got[2]))
	}
	// decodeBlock's AC loop (run/size, ZRL, EOB) observed through baseline.Decode: one 8x8 grey block with all-ones
	// quantisation whose 63 AC coefficients (zig-zag order) are given; the model decodes its own run-length symbols
	// and applies the generated IDCT.  The reference encoder's symbol stream is compared with the model's (jpg-acsyms).
	for k := 0; k < 160; k++ {
		ac := make([]int, 63)
		switch {
		case k < 12: // a single coefficient after a run of exactly n zeros
			n := []int{0, 14, 15, 16, 17, 30, 31, 32, 33, 47, 48, 62}[k]
			ac[n] = c.R.Range(1, 60) * (1 - 2*c.R.Intn(2))
		case k < 40: // two coefficients, long runs between them and a trailing run
			a, b := c.R.Intn(30), c.R.Intn(63)
			ac[a], ac[b] = c.R.Range(-40, 40), c.R.Range(-40, 40)
		case k < 100: // sparse
			for j := 0; j < 1+c.R.Intn(5); j++ {
				ac[c.R.Intn(63)] = c.R.Range(-25, 25)
			}
		default: // dense with small values, last position occupied half of the time
			for j := range ac {
				if c.R.Intn(3) == 0 {
					ac[j] = c.R.Range(-6, 6)
				}
			}
			if k%2 == 0 {
				ac[62] = 3
			}
		}
		dc := c.R.Range(-30, 30) * 8
		var q [64]int
		for i := range q {
			q[i] = 1
		}
		p := &c15Plane{H: 1, V: 1, BW: 1, BH: 1, Coef: make([][64]int, 1)}
		p.Coef[0][0] = dc
		for j := 0; j < 63; j++ {
			p.Coef[0][c11ZigZag[j+1]] = ac[j]
		}
		o := &c15Opts{W: 8, H: 8, QT: [][64]int{q}, GreyID: 1, Planes: []*c15Plane{p}, Optimise: k%2 == 0}
		c15LastSyms = nil
		stream := c15Encode(o)
		var sy []string
		for _, s := range c15LastSyms {
			sy = append(sy, fmt.Sprintf("%d:%d", s[0], s[1]))
		}
		c.Case("jpg-acsyms "+c11Ints(ac), "ok "+strings.Join(sy, " "))
		got, _, _, _, err := baseline.Decode(stream)
		line := "err"
		if err == nil && len(got) == 64 {
			line = "ok " + hx.Hex(got)
		}
		c.Case(fmt.Sprintf("jpg-acblock %d %s", dc, c11Ints(ac)), line)
	}
	// parseDRI's expression (unexported): the generated kernel against the value the DRI segment declares; the real decoder
	// is tied by the large-Ri reference streams of the search (a lost high byte makes them undecodable)
	for _, v := range []int{0, 1, 255, 256, 257, 300, 700, 1024, 4095, 65535} {
		c.Case(fmt.Sprintf("jpg-dri %d %d", v>>8, v&255), fmt.Sprintf("ok %d", v))
	}
	// restart-marker skipping
	for k := 0; k < 200; k++ {
		n := c.R.Range(0, 40)
		s := make([]byte, n)
		for i := range s {
			s[i] = []byte{0xFF, 0x00, 0xD0, 0xD7, 0xD3, 0xD8, 0xD9, 0x12, 0xCF, 0x80}[c.R.Intn(10)]
			if c.R.Intn(3) == 0 {
				s[i] = byte(c.R.U64())
			}
		}
		c.Case("jpg-rstfilter "+hx.Hex(s), "ok "+hx.Hex(c15RstFilter(s)))
		ri := c.R.Intn(3)
		var parts []string
		for _, iv := range c15RstSplit(ri, s) {
			parts = append(parts, hx.Hex(iv))
		}
		c.Case(fmt.Sprintf("jpg-rstsplit %d %s", ri, hx.Hex(s)), "ok "+strings.Join(parts, " "))
	}
	for _, ri := range []int{1, 2, 3, 7} {
		// the MCU loop's bookkeeping, transcribed: interval++ before MCU n when n > 0 && n%ri == 0
		iv := 0
		for n := 0; n < 20; n++ {
			reset := 0
			if ri > 0 && n > 0 && n%ri == 0 {
				iv++
				reset = 1
			}
			c.Case(fmt.Sprintf("jpg-mcuinterval %d %d", ri, n), fmt.Sprintf("ok %d %d", iv, reset))
		}
	}
	// the restart model against the real decoder: the same quantised coefficients coded with and without restart
	// intervals (reference encoder) must decode to identical bytes — cut at RSTn, DC predictors reset, pad bits dropped
	for k := 0; k < 24; k++ {
		w, h, comps, si := c.R.Range(9, 40), c.R.Range(9, 40), c.R.Pick([]int{1, 3}), c.R.Intn(4)
		px := c11Pack(c11Content(c.R, w, h, comps, 8, k%7), 8)
		qt := c15ScaledTables(75)
		mk := func(restart int) []byte {
			o := &c15Opts{W: w, H: h, QT: qt, GreyID: 1, Restart: restart, Optimise: k&1 != 0}
			if comps == 1 {
				o.QT = qt[:1]
			}
			o.Planes = c15FromImage(px, w, h, comps, c15Samplings[si].H, c15Samplings[si].V, qt)
			return c15Encode(o)
		}
		a, aw, ah, ac, ae := baseline.Decode(mk(1 + c.R.Intn(4)))
		b, bw2, bh, bc, be := baseline.Decode(mk(0))
		same := ae == nil && be == nil && aw == bw2 && ah == bh && ac == bc && bytes.Equal(a, b)
		c.Case("jpg-rstfilter-tie", fmt.Sprintf("ok %v", same))
	}
	// Gray.Pix repack index map of DecodeSimple, observed: extended.Decode of an 8-bit grey stream
	for _, w := range []int{1, 5, 8, 9, 16, 17} {
		for _, h := range []int{1, 3, 8, 9} {
			px := make([]byte, w*h)
			for i := range px {
				px[i] = byte(16 + (i*7)%200)
			}
			qt := c15ScaledTables(100)
			o := &c15Opts{W: w, H: h, QT: qt[:1], GreyID: 1, Planes: c15FromImage(px, w, h, 1, 1, 1, qt)}
			s := c15Encode(o)
			got, _, _, _, _, err := extended.Decode(s)
			line := "err"
			if err == nil {
				line = fmt.Sprintf("ok %d", len(got))
			}
			c.Case(fmt.Sprintf("jpg-repack-len %d %d", w, h), line)
		}
	}
}

func c15(c *hx.Ctx) {
	c.Rule = "direction A: library stream -> image/jpeg vs library decoder, tolerance 2 (6 RGB); direction B: image/jpeg.Encode and reference-encoder " +
		"streams (4:4:4/4:2:2/4:2:0/4:4:0, std/optimised Huffman, restart intervals, JFIF/Adobe/COM) -> baseline.Decode and extended.Decode vs image/jpeg; " +
		"quick: sizes 1..33 stratified; thorough: every size 1..33x1..33; distinct = distinct (decoder, stream) / (codec, image); non-trivial = >= 2 pixels"
	c15Correspondence(c)
	// A. encoder side
	for h := 1; h <= 33; h++ {
		for w := 1; w <= 33; w++ {
			if !c.Thorough() && (w+h*5+int(c.Seed))%4 != 0 {
				continue
			}
			for ci, cd := range c11Codecs[:4] {
				c15EncoderSide(c, cd, w, h, 1+(w*13+h*7+ci*29)%100, (w+h+ci)%7)
			}
		}
	}
	for q := 1; q <= 100; q++ {
		for _, cd := range c11Codecs[:4] {
			c15EncoderSide(c, cd, c.R.Range(1, 40), c.R.Range(1, 40), q, q%7)
			c15EncoderSide(c, cd, c.R.Range(8, 33), c.R.Range(8, 33), q, 6-(q%2))
		}
	}
	for _, sz := range [][2]int{{64, 64}, {256, 256}, {200, 31}} {
		for _, cd := range c11Codecs[:4] {
			c15EncoderSide(c, cd, sz[0], sz[1], 80, 0)
		}
	}
	// B1. image/jpeg.Encode streams
	for h := 1; h <= 33; h++ {
		for w := 1; w <= 33; w++ {
			if !c.Thorough() && (w*3+h+int(c.Seed))%5 != 0 && !(w == 17 && h == 17) {
				continue
			}
			for _, comps := range []int{1, 3} {
				class := (w + h + comps) % 7
				px := c11Pack(c11Content(c.R, w, h, comps, 8, class), 8)
				var img image.Image
				if comps == 1 {
					g := image.NewGray(image.Rect(0, 0, w, h))
					copy(g.Pix, px)
					img = g
				} else {
					g := image.NewRGBA(image.Rect(0, 0, w, h))
					for i := 0; i < w*h; i++ {
						g.Pix[4*i], g.Pix[4*i+1], g.Pix[4*i+2], g.Pix[4*i+3] = px[3*i], px[3*i+1], px[3*i+2], 255
					}
					img = g
				}
				var buf bytes.Buffer
				q := 1 + (w*11+h*17)%100
				if err := jpeg.Encode(&buf, img, &jpeg.Options{Quality: q}); err != nil {
					continue
				}
				in := map[string]any{"source": "image/jpeg.Encode", "width": w, "height": h, "components": comps, "quality": q,
					"content": c11ContentNames[class], "pixels": hx.Hex(px), "stream": hx.Hex(buf.Bytes())}
				for _, d := range c15Decs {
					c15Compare(c, d, buf.Bytes(), "imagejpeg", in)
				}
			}
		}
	}
	// B2. reference encoder streams
	for h := 1; h <= 33; h++ {
		for w := 1; w <= 33; w++ {
			if !c.Thorough() && (w+h*3+int(c.Seed))%3 != 0 && !(w == 17 && h == 16) {
				continue
			}
			for si := range c15Samplings {
				variant := c.R.Intn(128)
				if (w+h+si)%2 != 0 {
					variant &^= 2 // half of the streams without restart intervals
				}
				comps := 3
				if si == 0 && (w+h)%2 == 0 {
					comps = 1
				}
				s, in := c15RefStream(c, w, h, comps, si, 1+(w*7+h*3+si*31)%100, (w+h+si)%7, variant)
				c.Count("ref:" + c15Samplings[si].Name)
				if variant&2 != 0 {
					c.Count("ref:restart")
				}
				if variant&1 != 0 {
					c.Count("ref:optimised-huffman")
				}
				for _, d := range c15Decs {
					c15Compare(c, d, s, "ref-"+c15Samplings[si].Name, in)
				}
			}
		}
	}
	// restart intervals of 255 MCUs and more (two-byte Ri with a non-zero high byte) on images with more than 1024 MCUs
	for _, ri := range []int{255, 256, 257, 300, 700, 1024} {
		for _, g := range []struct{ w, h, comps, si int }{{264, 256, 1, 0}, {520, 512, 3, 2}, {264, 512, 3, 1}} {
			if g.comps == 3 && !c.Thorough() && ri != 256 && ri != 300 {
				continue
			}
			px := c11Pack(c11Content(c.R, g.w, g.h, g.comps, 8, []int{0, 3, 6}[ri%3]), 8)
			qt := c15ScaledTables(60 + ri%35)
			o := &c15Opts{W: g.w, H: g.h, QT: qt, GreyID: 1, Restart: ri, Optimise: ri%2 == 0}
			if g.comps == 1 {
				o.QT = qt[:1]
			}
			o.Planes = c15FromImage(px, g.w, g.h, g.comps, c15Samplings[g.si].H, c15Samplings[g.si].V, qt)
			s := c15Encode(o)
			in := map[string]any{"source": "reference-encoder", "width": g.w, "height": g.h, "components": g.comps, "sampling": c15Samplings[g.si].Name,
				"restartInterval": ri, "pixels-sha": fmt.Sprintf("%d bytes (seeded noise/gradient/nyquist)", len(px)), "stream": hx.Hex(s[:64]) + "…"}
			c.Count("ref:restart-ri>=255")
			for _, d := range c15Decs {
				c15Compare(c, d, s, "ref-large-ri", in)
			}
		}
	}
	for _, sz := range [][2]int{{64, 64}, {100, 75}, {256, 256}, {255, 129}} {
		for si := range c15Samplings {
			for _, variant := range []int{0, 1, 4, 2} {
				s, in := c15RefStream(c, sz[0], sz[1], 3, si, c.R.Pick([]int{30, 75, 95}), c.R.Intn(4), variant)
				for _, d := range c15Decs {
					c15Compare(c, d, s, "ref-"+c15Samplings[si].Name, in)
				}
			}
		}
	}
	c.CountN("ref:zrl-symbols", c15ZRL)
	_ = strings.Join
}

func init() { register("C15", c15) }
