package main

// C06 round 3: correspondence ops for the HT packet header's empty-band signalling (public t2.PacketEncoder API)
// and for the decoder's U_q admissibility check (public HT block coder API).

import (
	"fmt"
	"strings"

	"github.com/cocosip/go-dicom-codecs/jpeg2000/htj2k"
	"github.com/cocosip/go-dicom-codecs/jpeg2000/t2"

	"verifharness/internal/hx"
)

// c06BioBits unpacks packet-header bytes into bits with the bio rule (7 bits after a 0xFF byte).
func c06BioBits(b []byte) []int {
	var out []int
	prevFF := false
	for _, x := range b {
		n := 8
		if prevFF {
			n = 7
		}
		for i := n - 1; i >= 0; i-- {
			out = append(out, int(x>>uint(i))&1)
		}
		prevFF = x == 0xFF
	}
	return out
}

// c06HTHeader builds one resolution-1 precinct with the bands HL, LH, HH (kinds: 0 = no code-block at all,
// 1 = one code-block without data, 2 = one coded code-block) and returns the packet header bits the real
// PacketEncoder (HTJ2K mode, RPCL, one layer) writes for it.
func c06HTHeader(kinds [3]int, zbp [3]int, dataLen [3]int) (bits []int, oc string) {
	var hdr []byte
	p, msg := hx.Guard(func() {
		pe := t2.NewPacketEncoder(1, 1, 2, t2.ProgressionOrder(2))
		pe.SetImageDimensions(16, 16)
		pe.SetHTJ2KMode(true)
		pe.SetPrecinctSizes([]int{1 << 15, 1 << 15}, []int{1 << 15, 1 << 15})
		pe.SetComponentSampling(0, 1, 1)
		pe.SetComponentBounds(0, 0, 0, 16, 16)
		// resolution 0: one LL block without data so that the packet sequence is regular
		pe.AddCodeBlock(0, 0, 0, &t2.PrecinctCodeBlock{Band: 0, X1: 8, Y1: 8})
		for b := 0; b < 3; b++ {
			if kinds[b] == 0 {
				continue
			}
			cb := &t2.PrecinctCodeBlock{Band: b + 1, X1: 8, Y1: 8, ZeroBitPlanes: zbp[b]}
			if kinds[b] == 2 {
				cb.Data = make([]byte, dataLen[b])
				for i := range cb.Data {
					cb.Data[i] = 0x11
				}
				cb.NumPassesTotal = 1
			}
			pe.AddCodeBlock(0, 1, 0, cb)
		}
		pk, err := pe.EncodePackets()
		if err != nil {
			oc = "err"
			return
		}
		for _, q := range pk {
			if q.ResolutionLevel == 1 {
				hdr = q.Header
			}
		}
	})
	if p {
		return nil, "panic " + msg
	}
	if oc == "err" {
		return nil, oc
	}
	return c06BioBits(hdr), "ok"
}

func c06BitsStr(b []int) string {
	if len(b) == 0 {
		return "-"
	}
	var sb strings.Builder
	for _, x := range b {
		sb.WriteByte(byte('0' + x))
	}
	return sb.String()
}

func c06PacketHeaders(c *hx.Ctx) {
	// the body of one coded single-block band, taken from the real encoder: header of (coded, absent, absent) is
	// 1 ++ body ++ padding; the body's length is 1 (inclusion) + zbp+1 (missing MSBs) + 1 (one pass) + comma + length bits
	bodyOf := func(z, dl int) []int {
		bits, oc := c06HTHeader([3]int{2, 0, 0}, [3]int{z, 0, 0}, [3]int{dl, 0, 0})
		if oc != "ok" || len(bits) < 2 {
			return nil
		}
		need := 0
		for v := dl; v > 0; v >>= 1 {
			need++
		}
		inc := need - 3
		if inc < 0 {
			inc = 0
		}
		n := 1 + (z + 1) + 1 + (inc + 1) + (3 + inc)
		if 1+n > len(bits) {
			return nil
		}
		return bits[1 : 1+n]
	}
	n := 0
	for k0 := 0; k0 < 3; k0++ {
		for k1 := 0; k1 < 3; k1++ {
			for k2 := 0; k2 < 3; k2++ {
				if k0 == 0 && k1 == 0 && k2 == 0 {
					continue // no precinct at that resolution: encodeHTJ2KPacketHeader is not called
				}
				for variant := 0; variant < 3; variant++ {
					kinds := [3]int{k0, k1, k2}
					zbp := [3]int{variant, 2 * variant, 5}
					dl := [3]int{1 + 6*variant, 3, 200}
					bits, oc := c06HTHeader(kinds, zbp, dl)
					var bodies []string
					for b := 0; b < 3; b++ {
						if kinds[b] == 2 {
							bodies = append(bodies, c06BitsStr(bodyOf(zbp[b], dl[b])))
						} else {
							bodies = append(bodies, "-")
						}
					}
					real := "panic"
					if oc == "ok" {
						real = "ok " + c06BitsStr(bits)
					} else if oc == "err" {
						real = "err"
					}
					c.Case(fmt.Sprintf("htj2k-pkthdr %d%d%d %s %s %s", k0, k1, k2, bodies[0], bodies[1], bodies[2]), real)
					n++
				}
			}
		}
	}
	c.CountN("kernel:pkthdr-band-patterns", n)
}

// c06UqCheck: one coefficient v at (0,0) of a 2x2 block (first row pair) or at row 2 of a 2x4 block (later rows),
// encoded with Kmax = ke and decoded with band precision kd / missing MSBs kd-1: does the decoder accept?
func c06UqCheck(c *hx.Ctx, later bool, ke, kd int, v int32) {
	w, h := 2, 2
	pos := 0
	if later {
		h = 4
		pos = 2 * w
	}
	data := make([]int32, w*h)
	data[pos] = v
	res := "ok"
	p, _ := hx.Guard(func() {
		e := htj2k.NewHTEncoder(w, h)
		e.SetKMax(ke)
		enc, err := e.Encode(data, 1, 0)
		if err != nil || len(enc) == 0 {
			res = "noenc"
			return
		}
		d := htj2k.NewHTDecoder(w, h)
		d.SetCodingContext(kd, kd-1)
		if _, err := d.Decode(enc, 1); err != nil {
			res = "err"
		}
	})
	if p {
		res = "panic"
	}
	l := 0
	if later {
		l = 1
	}
	c.Case(fmt.Sprintf("htj2k-uqcheck %d %d %d %d", l, ke, kd, v), res)
	c.Count("kernel:uqcheck")
}


// c06MagSgn: the MagSgn reader (exported MagSgnDecoder.DecodeMagnitude = readBits, the function ojphMSReader.fetch calls)
// on arbitrary bytes, and the exported MagSgnEncoder's writeBits loop (same text as ojphMSWriter.encode, which has no
// export) on random codeword sequences; the encoder's bytes before Flush are compared with the model's buffer.
func c06MagSgn(c *hx.Ctx) {
	n := 200
	if c.Thorough() {
		n = 3000
	}
	for i := 0; i < n; i++ {
		data := c.R.Bytes(c.R.Range(0, 10))
		for j := range data {
			switch c.R.Intn(5) {
			case 0:
				data[j] = 0xFF
			case 1:
				data[j] = 0x7F
			}
		}
		var ns []string
		var outs []string
		d := htj2k.NewMagSgnDecoder(data)
		for k := 0; k < c.R.Range(1, 12); k++ {
			nb := c.R.Range(0, 32)
			v, ok := d.DecodeMagnitude(nb)
			o := 0
			if ok {
				o = 1
			}
			ns = append(ns, fmt.Sprint(nb))
			outs = append(outs, fmt.Sprintf("%d:%d", v, o))
		}
		c.Case(fmt.Sprintf("ms-dec %s %s", hx.Hex(data), strings.Join(ns, ",")), "ok "+strings.Join(outs, ","))
		c.Count("kernel:magsgn-dec")
	}
	for i := 0; i < n; i++ {
		e := htj2k.NewMagSgnEncoder()
		var ws []string
		var pairs [][2]int
		for k := 0; k < c.R.Range(1, 14); k++ {
			nb := c.R.Range(1, 31)
			v := int(c.R.U64() & ((1 << uint(nb)) - 1))
			if c.R.Intn(3) == 0 {
				v = (1 << uint(nb)) - 1 // all ones: drives 0xFF bytes and the 7-bit rule
			}
			e.EncodeMagnitude(uint32(v), nb)
			ws = append(ws, fmt.Sprintf("%d,%d", v, nb))
			pairs = append(pairs, [2]int{v, nb})
		}
		buf := append([]byte{}, e.GetBytes()...)
		// the model also prints terminate(); the real ojphMSWriter.terminate is not exported, so the harness replays
		// its text on the exported encoder's state as far as that is observable: Flush() pads the open byte with 1s
		// exactly like terminate(), minus the two "drop a 0xFF byte" rules, which are applied here by hand
		fl := append([]byte{}, e.Flush()...)
		if len(fl) > 0 && fl[len(fl)-1] == 0xFF {
			fl = fl[:len(fl)-1]
		}
		c.Case("ms-enc "+strings.Join(ws, ","), fmt.Sprintf("ok %s %s", hx.Hex(buf), hx.Hex(fl)))
		c.Count("kernel:magsgn-enc")
		// and the round trip on the real pair: reader over the terminated bytes returns the codewords
		d := htj2k.NewMagSgnDecoder(fl)
		for _, p := range pairs {
			v, _ := d.DecodeMagnitude(p[1])
			if int(v) != p[0] {
				c.Fail(hx.Failure{Class: "htj2k-magsgn-roundtrip", What: "MagSgnDecoder does not return what MagSgnEncoder wrote",
					Input: map[string]any{"pairs": strings.Join(ws, " ")}, Expected: fmt.Sprint(p[0]), Actual: fmt.Sprint(v)})
				break
			}
		}
		c.Eval("magsgn "+strings.Join(ws, " "), true)
	}
}

func c06Round3(c *hx.Ctx) {
	c06PacketHeaders(c)
	c06MagSgn(c)
	for _, later := range []bool{false, true} {
		for _, ke := range []int{2, 3, 7, 8, 9, 12, 16, 17, 20} {
			lim := int32(1) << uint(ke)
			vs := []int32{1, -1, 2, 3, lim/2 - 1, lim / 2, lim/2 + 1, -(lim/2 + 1), lim - 1, -(lim - 1)}
			for j := 0; j < 4; j++ {
				vs = append(vs, 1+int32(c.R.Intn(int(lim-1))))
			}
			for _, v := range vs {
				if v == 0 || v >= lim || v <= -lim {
					continue
				}
				for _, kd := range []int{ke, ke - 1, ke + 1, ke - 2} {
					if kd < 1 || kd > 29 {
						continue
					}
					c06UqCheck(c, later, ke, kd, v)
				}
			}
		}
	}
}
