package main

// Correspondence lines of C19 / C04 / C05: each op is evaluated by the Lean driver (generated kernels and
// hand models of Model/J2kTiles.lean, J2kSample.lean, J2kLossless.lean) and by the REAL functions, reached
// through the public API or the `verif` export hooks (jpeg2000/verif_hooks.go, jpeg2000/t2/verif_hooks.go,
// jpeg2000/lossless/verif_hooks.go).

import (
	"fmt"
	"sort"
	"strings"

	"github.com/cocosip/go-dicom-codecs/jpeg2000"
	"github.com/cocosip/go-dicom-codecs/jpeg2000/codestream"
	j2klossless "github.com/cocosip/go-dicom-codecs/jpeg2000/lossless"
	"github.com/cocosip/go-dicom-codecs/jpeg2000/t1"
	"github.com/cocosip/go-dicom-codecs/jpeg2000/t2"
	dcodec "github.com/cocosip/go-dicom/pkg/imaging/codec"
	"github.com/cocosip/go-dicom/pkg/imaging/imagetypes"

	"verifharness/internal/hx"
)

func c04Ints(xs []int) string {
	if len(xs) == 0 {
		return "-"
	}
	ss := make([]string, len(xs))
	for i, x := range xs {
		ss[i] = fmt.Sprint(x)
	}
	return strings.Join(ss, ",")
}

func c04Bits(bs []int) string {
	if len(bs) == 0 {
		return "-"
	}
	var sb strings.Builder
	for _, b := range bs {
		if b != 0 {
			sb.WriteByte('1')
		} else {
			sb.WriteByte('0')
		}
	}
	return sb.String()
}

// c04Guarded runs f under recover and maps a panic to the canonical outcome.
func c04Guarded(f func() string) string {
	out := ""
	if p, _ := hx.Guard(func() { out = f() }); p {
		return "panic"
	}
	return out
}

// ---------------------------------------------------------------------------------------------- C19
func c19Correspondence(c *hx.Ctx) {
	r := c.R
	type geo struct{ w, h, tw, th int }
	geos := []geo{{12, 12, 5, 5}, {17, 8, 8, 8}, {1, 1, 1, 1}, {8, 8, 1, 1}, {33, 17, 16, 16}, {6, 1, 3, 1}, {600, 600, 75, 599}, {9, 9, 4, 4}, {65535, 3, 4096, 2}}
	for i := 0; i < 60; i++ {
		w, h := r.Range(1, 80), r.Range(1, 80)
		geos = append(geos, geo{w, h, r.Range(1, w), r.Range(1, h)})
	}
	for _, g := range geos {
		nx, ny := (g.w+g.tw-1)/g.tw, (g.h+g.th-1)/g.th
		idxs := []int{0, nx*ny - 1}
		for k := 0; k < 4; k++ {
			idxs = append(idxs, r.Intn(nx*ny))
		}
		p := jpeg2000.DefaultEncodeParams(g.w, g.h, 1, 8, false)
		siz := &codestream.SIZSegment{Xsiz: uint32(g.w), Ysiz: uint32(g.h), XTsiz: uint32(g.tw), YTsiz: uint32(g.th), Csiz: 1}
		tl := jpeg2000.NewTileLayout(siz)
		for _, idx := range idxs {
			c.Case(fmt.Sprintf("j2k-tb-enc %d %d %d %d %d", g.w, g.h, g.tw, g.th, idx), c04Guarded(func() string {
				x0, y0, x1, y1 := jpeg2000.VerifTileBounds(p, idx, g.tw, g.th, nx)
				return fmt.Sprintf("ok %d %d %d %d", x0, y0, x1, y1)
			}))
			c.Case(fmt.Sprintf("j2k-tb-dec %d %d %d %d %d", g.w, g.h, g.tw, g.th, idx), c04Guarded(func() string {
				x0, y0, x1, y1 := tl.GetTileBounds(idx)
				return fmt.Sprintf("ok %d %d %d %d %d %d", nx, tl.GetTileCount()/max(nx, 1), x0, y0, x1, y1)
			}))
		}
		c.Count("corr:tilebounds")
	}
	// resolutionDimsWithOrigin on both sides, and the encoder's tile-local split (getSubbandsForResolution)
	for len_ := 1; len_ <= 40; len_++ {
		for _, x0 := range []int{0, 1, 2, 3, 5, 8, 16, 17, 64, 75} {
			for n := 0; n <= 6; n++ {
				c.Case(fmt.Sprintf("j2k-resdims-dec %d %d %d", len_, x0, n), c04Guarded(func() string {
					rw, _, rx0, _ := t2.VerifResolutionDims(len_, 1, x0, 0, n, 0)
					return fmt.Sprintf("ok %d %d", rw, rx0)
				}))
				c.Case(fmt.Sprintf("j2k-resdims-enc %d %d %d", len_, x0, n), c04Guarded(func() string {
					rw, _ := jpeg2000.VerifResolutionDims(len_, 1, x0, 0, n, 0)
					return fmt.Sprintf("ok %d", rw)
				}))
			}
		}
		for n := 0; n <= 6; n++ {
			c.Case(fmt.Sprintf("j2k-enclow %d %d", len_, n), c04Guarded(func() string {
				// LL extent the encoder cuts out of the transformed tile: resolution 0 of an n-level transform
				p := jpeg2000.DefaultEncodeParams(len_, 1, 1, 8, false)
				p.NumLevels = n
				d := jpeg2000.VerifSubbandDims(p, len_, 1, 0)
				return fmt.Sprintf("ok %d", d[0][3])
			}))
		}
		c.Count("corr:resdims")
	}
	// split / assemble: real transformTile (NumLevels = 0) per tile + real TileAssembler.AssembleTile
	for i := 0; i < 40; i++ {
		w, h := r.Range(1, 14), r.Range(1, 10)
		tw, th := r.Range(1, w), r.Range(1, h)
		if i < 4 {
			w, h, tw, th = []int{12, 3, 5, 1}[i], []int{12, 2, 5, 7}[i], []int{5, 2, 1, 1}[i], []int{5, 1, 2, 3}[i]
		}
		pix := r.Bytes(w * h)
		vals := make([]int, w*h)
		for j, b := range pix {
			vals[j] = int(b)
		}
		c.Case(fmt.Sprintf("j2k-split-assemble %d %d %d %d %s", w, h, tw, th, c04Ints(vals)), c04Guarded(func() string {
			p := jpeg2000.DefaultEncodeParams(w, h, 1, 8, false)
			p.NumLevels = 0
			p.TileWidth, p.TileHeight = tw, th
			siz := &codestream.SIZSegment{Xsiz: uint32(w), Ysiz: uint32(h), XTsiz: uint32(tw), YTsiz: uint32(th), Csiz: 1}
			ta := jpeg2000.NewTileAssembler(siz)
			nx, ny := (w+tw-1)/tw, (h+th-1)/th
			for idx := 0; idx < nx*ny; idx++ {
				x0, y0, x1, y1 := jpeg2000.VerifTileBounds(p, idx, tw, th, nx)
				td, err := jpeg2000.VerifTransformTile(p, pix, x0, y0, x1-x0, y1-y0)
				if err != nil {
					return "err"
				}
				if err := ta.AssembleTile(idx, td); err != nil {
					return "err"
				}
			}
			out := ta.GetImageData()[0]
			o := make([]int, len(out))
			for j, v := range out {
				o[j] = int(v)
			}
			return "ok " + c04Ints(o)
		}))
		c.Count("corr:split-assemble")
	}
	// code-block grid index: decoder (canvas origin) vs encoder (tile-local), one row of blocks at 0 levels
	for _, cbw := range []int{4, 16, 64} {
		for _, x0 := range []int{0, 3, 4, 5, 16, 17, 63, 64, 100} {
			for _, pwExp := range []int{15, 5, 6} {
				pw := 1 << pwExp
				if pw < cbw {
					continue
				}
				width := cbw*2 + 3
				c19CbIdxCase(c, x0, width, pw, cbw)
			}
		}
	}
	if c19Extra != nil {
		c19Extra(c)
	}
	if c19PosExtra != nil { // round-4 hooks (c19pos.go, build tag c19pos)
		c19PosExtra(c)
	}
}

func c19CbIdxCase(c *hx.Ctx, x0, width, pw, cbw int) {
	// decoder: positions of the blocks of band 0 / resolution 0 of a 0-level tile-component [x0, x0+width) x [0,1)
	pd := t2.NewPacketDecoder(nil, 1, 1, 1, t2.ProgressionLRCP, 0)
	pd.SetImageDimensions(width, 1, cbw, 4)
	pd.SetComponentBounds(0, x0, 0, x0+width, 1)
	pd.SetPrecinctSizes([]int{pw}, []int{1 << 15})
	var pos map[int]map[int][][2]int
	if p, _ := hx.Guard(func() { pos = t2.VerifPrecinctPositions(pd, 0, 0) }); p {
		pos = nil
	}
	type pr struct{ p, x int }
	var real []pr
	for pIdx, bands := range pos {
		for _, xy := range bands[0] {
			real = append(real, pr{pIdx, xy[0]})
		}
	}
	sort.Slice(real, func(i, j int) bool {
		if real[i].p != real[j].p {
			return real[i].p < real[j].p
		}
		return real[i].x < real[j].x
	})
	n := (width + cbw - 1) / cbw
	if len(real) != n {
		c.Case(fmt.Sprintf("j2k-cbidx-dec %d %d %d %d", x0, 0, pw, cbw), fmt.Sprintf("real-count-%d", len(real)))
		return
	}
	// the k-th block in (precinct, x) order is the block at band offset k*cbw (offsets increase with both)
	for k := 0; k < n; k++ {
		c.Case(fmt.Sprintf("j2k-cbidx-dec %d %d %d %d", x0, k*cbw, pw, cbw), fmt.Sprintf("ok %d %d", real[k].p, real[k].x))
	}
	// encoder: CBX of the blocks of a single-row tile of that width (tile-local; origin never enters)
	p := jpeg2000.DefaultEncodeParams(width, 1, 1, 8, false)
	p.NumLevels = 0
	p.CodeBlockWidth, p.CodeBlockHeight = cbw, 4
	if pw != 1<<15 {
		p.PrecinctWidth = pw
	}
	var blocks []*t2.PrecinctCodeBlock
	if pn, _ := hx.Guard(func() { blocks = jpeg2000.VerifTileBlocks(p, [][]int32{make([]int32, width)}, width, 1) }); pn {
		blocks = nil
	}
	for k, b := range blocks {
		c.Case(fmt.Sprintf("j2k-cbidx-enc %d %d %d", k*cbw, pw, cbw), fmt.Sprintf("ok %d", b.CBX))
	}
	c.Count("corr:cbindex")
}

// ---------------------------------------------------------------------------------------------- C04
func c04Correspondence(c *hx.Ctx) {
	r := c.R
	// sample layer: convertPixelData + applyDCLevelShift, and applyInverseDCLevelShift + GetPixelData
	for p := 1; p <= 16; p++ {
		for _, sg := range []int{0, 1} {
			bps := (p + 7) / 8
			var samples [][2]int
			for _, b := range []int{0, 1, (1 << p) - 1, 1 << (p - 1), (1 << (p - 1)) - 1, 127, 128, 255, 0x0d} {
				samples = append(samples, [2]int{b & 0xff, (b >> 8) & 0xff})
			}
			for k := 0; k < 6; k++ {
				samples = append(samples, [2]int{r.Intn(256), r.Intn(256)})
			}
			for _, s := range samples {
				b0, b1 := s[0], s[1]
				if bps == 1 {
					b1 = 0
				}
				c.Case(fmt.Sprintf("j2k-sample-read %d %d %d %d", p, sg, b0, b1), c04Guarded(func() string {
					pr := jpeg2000.DefaultEncodeParams(1, 1, 1, p, sg == 1)
					pix := []byte{byte(b0)}
					if bps == 2 {
						pix = []byte{byte(b0), byte(b1)}
					}
					d, err := jpeg2000.VerifConvertAndShift(pr, pix)
					if err != nil {
						return "err"
					}
					return fmt.Sprintf("ok %d", d[0][0])
				}))
			}
			lim := 1 << p
			for _, v := range []int{0, 1, -1, lim, -lim, lim - 1, lim/2 - 1, lim / 2, -lim / 2, -lim/2 - 1, r.Range(-lim, lim), r.Range(-lim, lim), 70000, -70000} {
				for _, comps := range []int{1, 3} {
					c.Case(fmt.Sprintf("j2k-sample-write %d %d %d", p, sg, v), c04Guarded(func() string {
						data := make([][]int32, comps)
						for i := range data {
							data[i] = []int32{int32(v)}
						}
						out := jpeg2000.VerifUnshiftAndWrite(1, 1, comps, p, sg == 1, data)
						if bps == 1 {
							return fmt.Sprintf("ok %d 0", out[0])
						}
						return fmt.Sprintf("ok %d %d", out[0], out[1])
					}))
				}
			}
			c.Count("corr:sample")
		}
	}
	// code-block pass layout
	pr := jpeg2000.DefaultEncodeParams(1, 1, 1, 8, false)
	for cblk := -1; cblk <= 40; cblk++ {
		for _, band := range []int{0, 1, 8, 9, 17, 25, 40} {
			c.Case(fmt.Sprintf("j2k-passlayout %d %d", cblk, band), c04Guarded(func() string {
				np, z := jpeg2000.VerifCodeBlockPassLayoutP(pr, cblk, band)
				return fmt.Sprintf("ok %d %d", np, z)
			}))
		}
	}
	c.Count("corr:passlayout")
	// code-block rectangles of a sub-band (0 levels: the band is the tile): Encoder.partitionIntoCodeBlocks
	for i := 0; i < 40; i++ {
		bw, bh := r.Range(1, 70), r.Range(1, 40)
		cbw, cbh := r.Pick([]int{4, 8, 16, 32, 64}), r.Pick([]int{4, 8, 16, 32})
		if i < 4 {
			bw, bh, cbw, cbh = []int{1, 64, 65, 37}[i], []int{1, 64, 5, 5}[i], []int{4, 64, 64, 16}[i], []int{4, 64, 4, 4}[i]
		}
		pp := jpeg2000.DefaultEncodeParams(bw, bh, 1, 8, false)
		pp.NumLevels, pp.CodeBlockWidth, pp.CodeBlockHeight = 0, cbw, cbh
		var blocks []*t2.PrecinctCodeBlock
		if pn, _ := hx.Guard(func() { blocks = jpeg2000.VerifTileBlocks(pp, [][]int32{make([]int32, bw*bh)}, bw, bh) }); pn {
			c.Case(fmt.Sprintf("j2k-cbrect %d %d %d %d 0 0", bw, bh, cbw, cbh), "panic")
			continue
		}
		nx, ny := (bw+cbw-1)/cbw, (bh+cbh-1)/cbh
		for k, b := range blocks {
			cbx, cby := k%nx, k/nx // partitionIntoCodeBlocks enumerates cby-major
			c.Case(fmt.Sprintf("j2k-cbrect %d %d %d %d %d %d", bw, bh, cbw, cbh, cbx, cby),
				fmt.Sprintf("ok %d %d %d %d %d %d", nx, len(blocks)/max(nx, 1), b.X0, b.Y0, b.X1, b.Y1))
		}
		_ = ny
		c.Count("corr:cbrect")
	}
	// pass-count code, comma code, on bits; and decoded back through the real bit reader
	for n := 1; n <= 170; n++ {
		var bits []int
		var err error
		oc := c04Guarded(func() string {
			bits, err = t2.VerifEncodeNumPassesBits(n)
			if err != nil {
				return "err"
			}
			return "ok " + c04Bits(bits)
		})
		c.Case(fmt.Sprintf("j2k-numpasses %d", n), oc)
		if err == nil && len(bits) > 0 {
			c.Case("j2k-numpasses-dec "+c04Bits(bits), c04Guarded(func() string {
				v, e := t2.VerifDecodeNumPasses(t2.VerifBioWrite(bits))
				if e != nil {
					return "err"
				}
				return fmt.Sprintf("ok %d", v)
			}))
		}
	}
	for n := 0; n <= 40; n++ {
		bits := t2.VerifEncodeCommaBits(n)
		c.Case(fmt.Sprintf("j2k-comma %d", n), "ok "+c04Bits(bits))
		c.Case("j2k-comma-dec "+c04Bits(bits), c04Guarded(func() string {
			v, e := t2.VerifDecodeComma(t2.VerifBioWrite(bits))
			if e != nil {
				return "err"
			}
			return fmt.Sprintf("ok %d", v)
		}))
	}
	c.Count("corr:header-codes")
	// bit writer / reader with 0xFF stuffing: runs of ones, random strings, strings ending on a byte boundary
	var strs [][]int
	for k := 0; k <= 40; k++ {
		s := make([]int, k)
		for i := range s {
			s[i] = 1
		}
		strs = append(strs, s, append(append([]int{}, s...), 0), append(append([]int{}, s...), 0, 1, 1, 1, 1, 1, 1, 1, 1))
	}
	for i := 0; i < 400; i++ {
		n := r.Range(0, 96)
		s := make([]int, n)
		ones := r.Intn(4) == 0
		for j := range s {
			if ones && r.Intn(12) != 0 {
				s[j] = 1
			} else {
				s[j] = r.Intn(2)
			}
		}
		strs = append(strs, s)
	}
	for _, s := range strs {
		var bytes []byte
		c.Case("j2k-bio-w "+c04Bits(s), c04Guarded(func() string {
			bytes = t2.VerifBioWrite(s)
			return "ok " + hx.Hex(bytes)
		}))
		for _, b := range bytes {
			if b == 0xFF {
				c.Count("corr:bio-0xFF-stuffed")
				break
			}
		}
		if len(s) > 0 {
			c.Case(fmt.Sprintf("j2k-bio-r %s %d", hx.Hex(bytes), len(s)), c04Guarded(func() string {
				bs, e := t2.VerifBioRead(bytes, len(s))
				if e != nil {
					return "err"
				}
				return "ok " + c04Bits(bs)
			}))
			// reading past the end is an error outcome on both sides
			c.Case(fmt.Sprintf("j2k-bio-r %s %d", hx.Hex(bytes), 8*len(bytes)+1), c04Guarded(func() string {
				bs, e := t2.VerifBioRead(bytes, 8*len(bytes)+1)
				if e != nil {
					return "err"
				}
				return "ok " + c04Bits(bs)
			}))
		}
	}
	c.Count("corr:bio")
	c04TagTreeCorrespondence(c)
	c04PacketHeaderCorrespondence(c)
	if c04Extra != nil { // round-2 hooks (c04corr2.go, build tag c04hooks2)
		c04Extra(c)
	}
	if c04GlueExtra != nil { // round-5 glue model (c04glue.go, build tags c04hooks2 + c16pieces)
		c04GlueExtra(c)
	}
}

var c04Extra func(*hx.Ctx)
var c04GlueExtra func(*hx.Ctx)
var c19Extra func(*hx.Ctx)
var c19PosExtra func(*hx.Ctx)

type c04BitRec struct{ bits []int }

func (r *c04BitRec) WriteBit(bit int) error {
	if bit != 0 {
		bit = 1
	}
	r.bits = append(r.bits, bit)
	return nil
}

type c04BitSrc struct {
	bits []int
	pos  int
}

func (r *c04BitSrc) ReadBit() (int, error) {
	if r.pos >= len(r.bits) {
		return 0, fmt.Errorf("end")
	}
	b := r.bits[r.pos]
	r.pos++
	return b, nil
}

// c04TagTreeCorrespondence: real t2.TagTree (public API: NewTagTree, SetValue, Encode, Decode) against the
// model of Model/J2kTagTree.lean on random trees: inclusion-style use (values = first layer, set lazily layer by
// layer, thresholds layer+1) and zero-bit-plane-style use (all leaves set first, one large threshold).
func c04TagTreeCorrespondence(c *hx.Ctx) {
	r := c.R
	for i := 0; i < 120; i++ {
		w, h := r.Range(1, 9), r.Range(1, 7)
		if i < 6 {
			w, h = []int{1, 1, 2, 3, 8, 5}[i], []int{1, 2, 1, 2, 8, 1}[i]
		}
		tt := t2.NewTagTree(w, h)
		rec := &c04BitRec{}
		var ops, qs []string
		first := make([]int, w*h)
		layers := r.Range(1, 5)
		for j := range first {
			first[j] = r.Intn(layers + 2) // >= layers: never included
		}
		panicked := false
		if i%3 == 2 { // zero-bit-plane style
			for y := 0; y < h; y++ {
				for x := 0; x < w; x++ {
					v := r.Intn(12)
					ops = append(ops, fmt.Sprintf("0:%d:%d:%d", x, y, v))
					p, _ := hx.Guard(func() { tt.SetValue(x, y, v) })
					panicked = panicked || p
				}
			}
			for k := 0; k < w*h; k++ {
				x, y := r.Intn(w), r.Intn(h)
				ops = append(ops, fmt.Sprintf("1:%d:%d:%d", x, y, 999))
				qs = append(qs, fmt.Sprintf("%d:%d:%d", x, y, 999))
				p, _ := hx.Guard(func() { _ = tt.Encode(rec, x, y, 999) })
				panicked = panicked || p
			}
		} else { // inclusion style
			for l := 0; l < layers; l++ {
				for y := 0; y < h; y++ {
					for x := 0; x < w; x++ {
						if first[y*w+x] == l {
							ops = append(ops, fmt.Sprintf("0:%d:%d:%d", x, y, l))
							p, _ := hx.Guard(func() { tt.SetValue(x, y, l) })
							panicked = panicked || p
						}
					}
				}
				for y := 0; y < h; y++ {
					for x := 0; x < w; x++ {
						if first[y*w+x] >= l { // not yet included before this layer
							ops = append(ops, fmt.Sprintf("1:%d:%d:%d", x, y, l+1))
							qs = append(qs, fmt.Sprintf("%d:%d:%d", x, y, l+1))
							p, _ := hx.Guard(func() { _ = tt.Encode(rec, x, y, l+1) })
							panicked = panicked || p
						}
					}
				}
			}
		}
		realEnc := "ok " + c04Bits(rec.bits)
		if panicked {
			realEnc = "panic"
		}
		c.Case(fmt.Sprintf("j2k-tt-enc %d %d %s", w, h, strings.Join(ops, ";")), realEnc)
		// decode the same queries from the encoder's bits followed by two extra bits
		bits := append(append([]int{}, rec.bits...), 1, 0)
		c.Case(fmt.Sprintf("j2k-tt-dec %d %d %s %s", w, h, c04Bits(bits), strings.Join(qs, ";")), c04Guarded(func() string {
			dt := t2.NewTagTree(w, h)
			src := &c04BitSrc{bits: bits}
			var vals []int
			for _, q := range qs {
				var x, y, t int
				fmt.Sscanf(strings.ReplaceAll(q, ":", " "), "%d %d %d", &x, &y, &t)
				v, err := dt.Decode(src, x, y, t)
				if err != nil {
					return "err"
				}
				vals = append(vals, v)
			}
			return fmt.Sprintf("ok %s %d", c04Ints(vals), len(bits)-src.pos)
		}))
		// truncated bit string: error outcome on both sides
		if len(rec.bits) > 2 {
			tb := rec.bits[:len(rec.bits)/2]
			c.Case(fmt.Sprintf("j2k-tt-dec %d %d %s %s", w, h, c04Bits(tb), strings.Join(qs, ";")), c04Guarded(func() string {
				dt := t2.NewTagTree(w, h)
				src := &c04BitSrc{bits: tb}
				var vals []int
				for _, q := range qs {
					var x, y, t int
					fmt.Sscanf(strings.ReplaceAll(q, ":", " "), "%d %d %d", &x, &y, &t)
					v, err := dt.Decode(src, x, y, t)
					if err != nil {
						return "err"
					}
					vals = append(vals, v)
				}
				return fmt.Sprintf("ok %s %d", c04Ints(vals), len(tb)-src.pos)
			}))
		}
		c.Count("corr:tagtree")
	}
}

// ---------------------------------------------------------------------------------------------- C05
func c05ParamLine(k c05Case, ep *jpeg2000.EncodeParams) string {
	b := func(x bool) string {
		if x {
			return "1"
		}
		return "0"
	}
	rates := "-"
	if len(ep.LayerRates) > 0 {
		ss := []string{}
		for _, v := range ep.LayerRates {
			switch {
			case v == 0:
				ss = append(ss, "0/1")
			case v == float64(int(v)) && v != float64(k.Par.Rate)*float64(k.BS)/float64(k.BA):
				ss = append(ss, fmt.Sprintf("%d/1", int(v)))
			case v == float64(k.Par.Rate)*float64(k.BS)/float64(k.BA):
				ss = append(ss, fmt.Sprintf("%d/%d", k.Par.Rate*k.BS, k.BA))
			default:
				ss = append(ss, fmt.Sprintf("float:%v", v))
			}
		}
		rates = strings.Join(ss, ",")
	}
	return fmt.Sprintf("ok %s %d %d %d %s %s %s %s %s", b(ep.Lossless), ep.NumLevels, ep.ProgressionOrder, ep.NumLayers,
		b(ep.TargetRatio > 0), b(ep.UsePCRDOpt), b(ep.EnableMCT), b(ep.AppendLosslessLayer), rates)
}

func c05Correspondence(c *hx.Ctx) {
	r := c.R
	// parameter pipeline: typed parameter objects (in and out of scope, in and out of range)
	for i := 0; i < 400; i++ {
		bs := r.Range(2, 16)
		ba := 8
		if bs > 8 {
			ba = 16
		}
		par := c05RandPar(r)
		par.Default, par.Generic = false, false
		if i%5 == 0 { // out-of-range values that Validate repairs
			par.NumLevels = r.Range(-2, 9)
			par.NumLayers = r.Range(-1, 3)
			par.Rate = r.Range(-5, 30)
			par.Prog = r.Range(0, 9)
		}
		if i%7 == 0 {
			par.Target = -1
		}
		if i%11 == 0 { // Rate at / above the top of the ladder, one layer requested
			par.Append, par.Rate, par.NumLayers, par.Target = true, []int{1280, 1281, 5000}[i%3], 1, 0
			par.RateLevels = []int{1280, 640, 320, 160, 80, 40, 20, 10, 5}
		}
		if i%13 == 0 { // explicit layer count below the ladder length
			par.Append, par.Rate, par.NumLayers, par.Target = true, []int{1, 5, 20}[i%3], 2+i%5, 0
			par.RateLevels = []int{1280, 640, 320, 160, 80, 40, 20, 10, 5}
		}
		k := c05Case{W: 8, H: 8, BA: ba, BS: bs, SPP: 1, PR: 0, Frames: 1, Syntax: 90, Par: par}
		trn, trd := int(par.Target*2), 2
		op := fmt.Sprintf("j2k-lparams %d %s %d %s %d %d %d %d %s %s %d %d", par.NumLevels, map[bool]string{true: "1", false: "0"}[par.AllowMCT],
			par.Rate, c04Ints(par.RateLevels), par.Prog, par.NumLayers, trn, trd, map[bool]string{true: "1", false: "0"}[par.PCRD],
			map[bool]string{true: "1", false: "0"}[par.Append], bs, ba)
		c.Case(op, c04Guarded(func() string {
			ep, err := j2klossless.VerifEncodeParams(k.frameInfo(), k.parameters())
			if err != nil {
				return "err"
			}
			return c05ParamLine(k, ep)
		}))
		c.Count("corr:lparams")
	}
	// generic codec.Parameters objects: keys present/absent, out-of-range values, wrong-typed values (ignored)
	for i := 0; i < 300; i++ {
		bs := r.Range(2, 16)
		ba := 8
		if bs > 8 {
			ba = 16
		}
		g := dcodec.NewBaseParameters()
		tok := make([]string, 10)
		optInt := func(idx int, key string, lo, hi int) (int, bool) {
			switch r.Intn(4) {
			case 0:
				tok[idx] = "x"
				return 0, false
			case 1: // wrong type: ignored by the type assertion
				g.SetParameter(key, "a string")
				tok[idx] = "x"
				return 0, false
			}
			v := r.Range(lo, hi)
			g.SetParameter(key, v)
			tok[idx] = fmt.Sprint(v)
			return v, true
		}
		optBool := func(idx int, key string) {
			if r.Intn(3) == 0 {
				tok[idx] = "x"
				return
			}
			v := r.Bool()
			g.SetParameter(key, v)
			tok[idx] = map[bool]string{true: "1", false: "0"}[v]
		}
		optInt(0, "numLevels", -2, 9)
		optBool(1, "allowMCT")
		rate, hasRate := optInt(2, "rate", -3, 1300)
		switch r.Intn(4) {
		case 0:
			tok[3] = "x"
		case 1:
			g.SetParameter("rateLevels", []int{})
			tok[3] = "-"
		default:
			lv := []int{}
			v := r.Range(100, 2000)
			for j := 0; j < r.Range(1, 6) && v > 1; j++ {
				lv = append(lv, v)
				v = v / r.Range(2, 4)
			}
			g.SetParameter("rateLevels", lv)
			tok[3] = c04Ints(lv)
		}
		if r.Intn(5) == 0 { // uint8-typed progression
			v := r.Range(0, 9)
			g.SetParameter("progressionOrder", uint8(v))
			tok[4] = fmt.Sprint(v)
		} else {
			optInt(4, "progressionOrder", -2, 300)
		}
		optInt(5, "numLayers", -1, 10)
		trd := 2
		switch r.Intn(4) {
		case 0:
			tok[6] = "x"
		case 1:
			v := r.Range(-3, 50)
			g.SetParameter("targetRatio", v) // int
			tok[6] = fmt.Sprint(v * 2)
		case 2:
			v := float32(r.Range(0, 40)) / 2
			g.SetParameter("targetRatio", v)
			tok[6] = fmt.Sprint(int(v * 2))
		default:
			v := float64(r.Range(-2, 200)) / 2
			g.SetParameter("targetRatio", v)
			tok[6] = fmt.Sprint(int(v * 2))
		}
		optBool(7, "usePCRDOpt")
		optBool(8, "appendLosslessLayer")
		effRate := 20
		if hasRate && rate >= 0 {
			effRate = rate
		}
		k := c05Case{BS: bs, BA: ba, Par: c05Par{Rate: effRate}}
		fi := &imagetypes.FrameInfo{Width: 8, Height: 8, BitsAllocated: uint16(ba), BitsStored: uint16(bs), SamplesPerPixel: 1}
		c.Case(fmt.Sprintf("j2k-gparams %s %s %s %s %s %s %s %d %s %s %d %d", tok[0], tok[1], tok[2], tok[3], tok[4], tok[5], tok[6], trd, tok[7], tok[8], bs, ba),
			c04Guarded(func() string {
				ep, err := j2klossless.VerifEncodeParams(fi, g)
				if err != nil {
					return "err"
				}
				return c05ParamLine(k, ep)
			}))
		c.Count("corr:gparams")
	}
	// default object and nil parameters
	for _, bs := range []int{8, 12, 16} {
		ba := 8
		if bs > 8 {
			ba = 16
		}
		fi := &imagetypes.FrameInfo{Width: 8, Height: 8, BitsAllocated: uint16(ba), BitsStored: uint16(bs), SamplesPerPixel: 1}
		k := c05Case{BS: bs, BA: ba, Par: c05Par{Rate: 20}}
		c.Case(fmt.Sprintf("j2k-lparams 5 1 20 1280,640,320,160,80,40,20,10,5 0 1 0 2 0 1 %d %d", bs, ba), c04Guarded(func() string {
			ep, err := j2klossless.VerifEncodeParams(fi, dcodec.Parameters(nil))
			if err != nil {
				return "err"
			}
			return c05ParamLine(k, ep)
		}))
	}
	// finalizeBlock and finalizeRDCodeBlockLayers on synthetic pass lists: any allocation
	for i := 0; i < 300; i++ {
		n := r.Range(1, 25)
		layers := r.Range(1, 6)
		rates := make([]int, n)
		cum := 0
		for j := range rates {
			cum += r.Range(0, 9)
			rates[j] = cum
		}
		if rates[n-1] == 0 {
			rates[n-1] = 1
		}
		total := rates[n-1]
		alloc := make([]int, layers)
		mono := r.Intn(3) != 0
		prev := 0
		for j := range alloc {
			if mono {
				prev = min(n+2, prev+r.Range(0, n/2+1))
				alloc[j] = prev
			} else {
				alloc[j] = r.Range(-1, n+3)
			}
		}
		app := r.Intn(3) != 0
		for _, which := range []string{"finalizeBlock", "finalizeRDCodeBlockLayers"} {
			c.Case(fmt.Sprintf("j2k-finalize %d %d %s %s %d", n, total, c04Ints(rates), c04Ints(alloc), map[bool]int{true: 1, false: 0}[app]),
				c04Guarded(func() string {
					passes := make([]t1.PassData, n)
					for j := range passes {
						passes[j] = t1.PassData{PassIndex: j, Rate: rates[j], ActualBytes: rates[j]}
						if rates[j] == 0 { // Rate == 0 falls back to ActualBytes in the Go code; keep both zero
							passes[j].ActualBytes = 0
						}
					}
					cb := &t2.PrecinctCodeBlock{Passes: passes, CompleteData: make([]byte, total), NumPassesTotal: n}
					for j := range cb.CompleteData {
						cb.CompleteData[j] = byte(j)
					}
					p := jpeg2000.DefaultEncodeParams(8, 8, 1, 8, false)
					p.NumLayers = layers
					if which == "finalizeBlock" {
						jpeg2000.VerifFinalizeBlock(p, cb, layers, alloc, app)
					} else {
						jpeg2000.VerifFinalizeRDBlock(p, cb, layers, alloc, app)
					}
					ss := []string{}
					for l := 0; l < layers; l++ {
						start, end := 0, 0
						if len(cb.LayerData[l]) > 0 {
							start = int(cb.LayerData[l][0])
							end = start + len(cb.LayerData[l])
						} else {
							start, end = -1, -1 // empty slice: position not observable
						}
						ss = append(ss, fmt.Sprintf("%d,%d,%d", cb.LayerPasses[l], start, end))
					}
					return "ok " + strings.Join(ss, ";")
				}))
		}
		c.Count("corr:finalize")
	}
}

// c04PacketHeaderCorrespondence: whole packet headers of a single-band precinct over several layers — the real
// t2.PacketEncoder (AddCodeBlock + EncodePackets) against the encoder model, and the real t2.PacketDecoder
// (DecodePackets on header+body of all layers) against the decoder model (Model/J2kPacketHeader.lean).
func c04PacketHeaderCorrespondence(c *hx.Ctx) {
	r := c.R
	for i := 0; i < 150; i++ {
		nx, ny := r.Range(1, 5), r.Range(1, 4)
		if i < 5 {
			nx, ny = []int{1, 1, 2, 3, 5}[i], []int{1, 2, 1, 3, 1}[i]
		}
		layers := r.Range(1, 5)
		ncb := nx * ny
		// per code-block: zbp and contribution (passes, bytes) per layer
		zbp := make([]int, ncb)
		contrib := make([][][2]int, layers) // [layer][cb] = (np, len); np == 0: not included
		for l := range contrib {
			contrib[l] = make([][2]int, ncb)
		}
		for k := 0; k < ncb; k++ {
			zbp[k] = r.Intn(9)
			first := r.Intn(layers + 1) // == layers: never included
			total := 0
			for l := first; l < layers; l++ {
				if l > first && r.Intn(3) == 0 {
					continue
				}
				np := r.Pick([]int{1, 1, 2, 3, 5, 6, 13, 36, 37})
				if total+np > 164 {
					continue
				}
				total += np
				contrib[l][k] = [2]int{np, r.Pick([]int{0, 1, 3, 7, 8, 100, 255, 256, 511, 512, 1000, 5000})}
			}
		}
		var cbToks []string
		for y := 0; y < ny; y++ {
			for x := 0; x < nx; x++ {
				cbToks = append(cbToks, fmt.Sprintf("%d:%d:%d", x, y, zbp[y*nx+x]))
			}
		}
		var layerToks []string
		for l := 0; l < layers; l++ {
			var ts []string
			for k := 0; k < ncb; k++ {
				if contrib[l][k][0] == 0 {
					ts = append(ts, "x")
				} else {
					ts = append(ts, fmt.Sprintf("%d:%d", contrib[l][k][0], contrib[l][k][1]))
				}
			}
			layerToks = append(layerToks, strings.Join(ts, ","))
		}
		op := fmt.Sprintf("j2k-pkthdr %d %d %s %s", nx, ny, strings.Join(cbToks, ";"), strings.Join(layerToks, "|"))
		c.Case(op, c04Guarded(func() string {
			pe := t2.NewPacketEncoder(1, layers, 1, t2.ProgressionLRCP)
			cbw, cbh := 4, 4
			pe.SetImageDimensions(nx*cbw, ny*cbh)
			pe.SetComponentSampling(0, 1, 1)
			pe.SetComponentBounds(0, 0, 0, nx*cbw, ny*cbh)
			for y := 0; y < ny; y++ {
				for x := 0; x < nx; x++ {
					k := y*nx + x
					cb := &t2.PrecinctCodeBlock{Index: k, X0: x * cbw, Y0: y * cbh, X1: (x + 1) * cbw, Y1: (y + 1) * cbh, CBX: x, CBY: y, Band: 0, ZeroBitPlanes: zbp[k]}
					cum, bytes := 0, 0
					for l := 0; l < layers; l++ {
						np, ln := contrib[l][k][0], contrib[l][k][1]
						for pi := 0; pi < np; pi++ { // all bytes of the contribution in its last pass
							if pi == np-1 {
								bytes += ln
							}
							cb.PassLengths = append(cb.PassLengths, bytes)
						}
						cum += np
						cb.LayerPasses = append(cb.LayerPasses, cum)
						d := make([]byte, ln)
						for j := range d {
							d[j] = byte(0x10 + k)
						}
						cb.LayerData = append(cb.LayerData, d)
						cb.CompleteData = append(cb.CompleteData, d...)
					}
					cb.Data = cb.CompleteData
					cb.NumPassesTotal = cum
					pe.AddCodeBlock(0, 0, 0, cb)
				}
			}
			pe.ResetState()
			pk, err := pe.EncodePackets()
			if err != nil || len(pk) != layers {
				return "err"
			}
			var hs []string
			var stream []byte
			for _, p := range pk {
				hs = append(hs, hx.Hex(p.Header))
				stream = append(stream, p.Header...)
				stream = append(stream, p.Body...)
			}
			pd := t2.NewPacketDecoder(stream, 1, layers, 1, t2.ProgressionLRCP, 0)
			pd.SetImageDimensions(nx*cbw, ny*cbh, cbw, cbh)
			pd.SetComponentBounds(0, 0, 0, nx*cbw, ny*cbh)
			pd.SetComponentSampling(0, 1, 1)
			dp, err := pd.DecodePackets()
			if err != nil || len(dp) != layers {
				return "ok " + strings.Join(hs, " ") + " | decode-err"
			}
			known := make([]int, ncb)
			var ds []string
			for _, p := range dp {
				if !p.HeaderPresent {
					ds = append(ds, "empty")
					continue
				}
				var ts []string
				for k, ci := range p.CodeBlockIncls {
					if !ci.Included {
						ts = append(ts, "x")
						continue
					}
					if ci.FirstInclusion {
						known[k] = ci.ZeroBitplanes
					}
					ts = append(ts, fmt.Sprintf("%d:%d:%d", ci.NumPasses, ci.DataLength, known[k]))
				}
				ds = append(ds, strings.Join(ts, ",")+"/0")
			}
			return "ok " + strings.Join(hs, " ") + " | " + strings.Join(ds, " ")
		}))
		c.Count("corr:packet-header")
	}
}
