package main

// C05 — family added after the hunters' finding C05-generic-rate0-ignored: GENERIC codec.Parameters bags that ask
// for no rate target with their own keys ("rate": 0, "targetRatio": 0 or absent, "appendLosslessLayer": false).
// Scope is decided from the KEYS of the bag as the property text does ("also generic codec.Parameters carrying the
// same keys"), not from what the library's extraction makes of them — the main C05 family models the extraction
// rule and therefore skipped exactly these bags. Oracle: the property's own (registry codec Encode → Decode, byte
// for byte), plus the requirement that the bag behaves like the typed object with the same field values.

import (
	"fmt"

	"github.com/cocosip/go-dicom-codecs/codec"
	j2klossless "github.com/cocosip/go-dicom-codecs/jpeg2000/lossless"
	dcodec "github.com/cocosip/go-dicom/pkg/imaging/codec"
	"github.com/cocosip/go-dicom/pkg/imaging/imagetypes"

	"verifharness/internal/hx"
)

func init() { registerExtra("C05", "intmisc-generic-no-rate-target", c05hRun) }

// c05hBag: which keys the generic bag carries (absent keys keep the library default).
type c05hBag struct {
	Par                                      c05Par
	HasTarget, HasLevels, HasLayers, HasRate bool
	TargetAsInt                              bool
}

func (b c05hBag) params() dcodec.Parameters {
	p := b.Par
	g := dcodec.NewBaseParameters()
	g.SetParameter("numLevels", p.NumLevels)
	g.SetParameter("allowMCT", p.AllowMCT)
	if b.HasRate {
		g.SetParameter("rate", p.Rate)
	}
	if b.HasLevels {
		g.SetParameter("rateLevels", p.RateLevels)
	}
	g.SetParameter("progressionOrder", p.Prog)
	if b.HasLayers {
		g.SetParameter("numLayers", p.NumLayers)
	}
	if b.HasTarget {
		if b.TargetAsInt {
			g.SetParameter("targetRatio", int(p.Target))
		} else {
			g.SetParameter("targetRatio", p.Target)
		}
	}
	g.SetParameter("usePCRDOpt", p.PCRD)
	g.SetParameter("appendLosslessLayer", p.Append)
	return g
}

// in the property's scope by the bag's own keys: keeps the final lossless layer, or requests no rate target
func (b c05hBag) inScope() bool {
	return b.Par.Append || (b.HasRate && b.Par.Rate == 0 && (!b.HasTarget || b.Par.Target == 0))
}

func c05hRoundTrip(k c05Case, b c05hBag, frames [][]byte) (string, string) {
	// c05RoundTrip takes the parameters from k.parameters(); run the same steps with the bag
	kk := k
	kk.Par.Default, kk.Par.Generic = false, false
	return c05hRoundTripWith(kk, b.params(), frames)
}

func c05hRoundTripWith(k c05Case, par dcodec.Parameters, frames [][]byte) (string, string) {
	cd := c05Codec(k.Syntax)
	src := c05hPixelData(k.frameInfo(), frames)
	enc := c05hPixelData(k.frameInfo(), nil)
	var err error
	p, msg := hx.Guard(func() { err = cd.Encode(src, enc, par) })
	if p {
		return "enc-panic", msg
	}
	if err != nil {
		return "enc-err", err.Error()
	}
	dec := c05hPixelData(k.frameInfo(), nil)
	p, msg = hx.Guard(func() { err = cd.Decode(enc, dec, nil) })
	if p {
		return "dec-panic", msg
	}
	if err != nil {
		return "dec-err", err.Error()
	}
	if dec.FrameCount() != len(frames) {
		return "frames", fmt.Sprintf("decoded %d frames, want %d", dec.FrameCount(), len(frames))
	}
	for i, f := range frames {
		g, _ := dec.GetFrame(i)
		if string(f) != string(g) {
			nd := 0
			for j := 0; j < len(f) && j < len(g); j++ {
				if f[j] != g[j] {
					nd++
				}
			}
			return "mismatch", fmt.Sprintf("frame %d: len out=%d want=%d, %d differing bytes", i, len(g), len(f), nd)
		}
	}
	return "ok", ""
}

func c05hEval(c *hx.Ctx, k c05Case, b c05hBag, kind int, tag string) {
	if !b.inScope() {
		c.Count("intmisc:skipped-out-of-scope")
		return
	}
	k.Par = b.Par
	frames, _ := c05Frames(c.R, k, kind)
	oc, detail := c05hRoundTrip(k, b, frames)
	c.Eval("intmisc|"+k.String()+fmt.Sprintf("|%v%v%v%v%v|", b.HasRate, b.HasTarget, b.HasLevels, b.HasLayers, b.TargetAsInt)+hx.Hex(frames[0][:min(len(frames[0]), 64)]), k.W*k.H >= 4)
	c.Count("outcome:" + oc)
	c.Count("intmisc:" + tag)
	c.Count("params:generic")
	if !b.Par.Append {
		c.Count("intmisc:generic rate=0 appendLossless=false")
	}
	if oc == "ok" {
		return
	}
	in := k.input(frames)
	in["generic"] = true
	in["keys"] = map[string]bool{"rate": b.HasRate, "targetRatio": b.HasTarget, "rateLevels": b.HasLevels, "numLayers": b.HasLayers}
	// attribution: the typed object with the same field values (absent keys = library defaults) round-trips?
	q := j2klossless.NewLosslessParameters()
	q.NumLevels, q.AllowMCT, q.ProgressionOrder, q.UsePCRDOpt, q.AppendLosslessLayer = b.Par.NumLevels, b.Par.AllowMCT, uint8(b.Par.Prog), b.Par.PCRD, b.Par.Append
	if b.HasRate {
		q.Rate = b.Par.Rate
	}
	if b.HasLevels && len(b.Par.RateLevels) > 0 {
		q.RateLevels = b.Par.RateLevels
	}
	if b.HasLayers {
		q.NumLayers = b.Par.NumLayers
	}
	if b.HasTarget {
		q.TargetRatio = b.Par.Target
	}
	class, what := "j2k-lossless-generic-other-"+oc, "generic parameter bag in scope by its own keys does not round-trip, and neither does the typed object with the same values"
	if ocT, _ := c05hRoundTripWith(k, q, frames); ocT == "ok" {
		class = "j2k-lossless-generic-rate0-ignored"
		what = "generic codec.Parameters with \"rate\": 0 (no rate target) and appendLosslessLayer=false: lossless/codec.go extractBasicLosslessParams takes the key only when > 0, the default Rate=20 ladder stays on and the Lossless-Only syntax writes one rate-limited layer without the final lossless layer; the typed JPEG2000LosslessParameters with the same values round-trips"
	}
	c04Fail(c, hx.Failure{Class: class, What: what, Input: in,
		Expected: "every decoded frame == source frame byte for byte (as with the typed parameter object carrying the same values)", Actual: oc + ": " + detail})
}

func c05hRun(c *hx.Ctx) {
	r := c.R
	// the hunters' witness first: 64x64 8-bit noise, {rate 0, targetRatio 0, appendLosslessLayer false, rateLevels [10 5]}
	w := c05hBag{Par: c05Par{NumLevels: 5, AllowMCT: true, Rate: 0, RateLevels: []int{10, 5}, NumLayers: 1}, HasRate: true, HasTarget: true, HasLevels: true, HasLayers: true}
	c05hEval(c, c05Case{W: 64, H: 64, BA: 8, BS: 8, SPP: 1, Frames: 1, Syntax: 90}, w, 0, "witness")
	// the same on a frame small enough for the replay to carry its bytes
	c05hEval(c, c05Case{W: 40, H: 40, BA: 8, BS: 8, SPP: 1, Frames: 1, Syntax: 90}, w, 0, "witness")
	// key presence x ladder x depth, small grid (ladders at or below the default Rate 20 give ONE effective layer
	// when the default stays on: nothing then forces a closing lossless layer)
	for _, lv := range [][]int{nil, {10, 5}, {1280, 640, 320, 160, 80, 40, 20, 10, 5}, {40}, {20, 3}, {19}, {5}} {
		for _, hasT := range []bool{false, true} {
			for _, bs := range []int{8, 12} {
				ba := 8
				if bs > 8 {
					ba = 16
				}
				b := c05hBag{Par: c05Par{NumLevels: 3, AllowMCT: true, RateLevels: lv, NumLayers: 1 + len(lv)%3}, HasRate: true, HasTarget: hasT, HasLevels: lv != nil, HasLayers: bs == 8, TargetAsInt: bs == 12}
				c05hEval(c, c05Case{W: 48, H: 40, BA: ba, BS: bs, SPP: 1 + 2*(len(lv)%2), Frames: 1, Syntax: []int{90, 92}[len(lv)%2]}, b, 0, "grid")
			}
		}
	}
	// correspondence at the boundary of the "rate" key: the Lean model of extractBasicLosslessParams must agree
	for _, rate := range []int{-2, -1, 0, 1, 2, 20} {
		for _, ap := range []string{"x", "0", "1"} {
			for _, tr := range []string{"x", "0", "3"} {
				g := dcodec.NewBaseParameters()
				g.SetParameter("rate", rate)
				if ap != "x" {
					g.SetParameter("appendLosslessLayer", ap == "1")
				}
				if tr != "x" {
					g.SetParameter("targetRatio", map[string]float64{"0": 0, "3": 1.5}[tr])
				}
				g.SetParameter("rateLevels", []int{10, 5})
				fi := &imagetypes.FrameInfo{Width: 8, Height: 8, BitsAllocated: 8, BitsStored: 8, SamplesPerPixel: 1}
				eff := 20
				if rate > 0 {
					eff = rate
				}
				k := c05Case{BS: 8, BA: 8, Par: c05Par{Rate: eff}}
				c.Case(fmt.Sprintf("j2k-gparams x x %d 10,5 x x %s 2 x %s 8 8", rate, tr, ap), c04Guarded(func() string {
					ep, err := j2klossless.VerifEncodeParams(fi, g)
					if err != nil {
						return "err"
					}
					return c05ParamLine(k, ep)
				}))
				c.Count("corr:gparams")
				c.Count("intmisc:corr-rate-boundary")
			}
		}
	}
	// seeded family
	n := 60
	if c.Thorough() {
		n = 1500
	}
	for i := 0; i < n; i++ {
		bs := r.Range(2, 16)
		ba := 8
		if bs > 8 {
			ba = 16
		}
		p := c05Par{NumLevels: r.Range(0, 6), AllowMCT: r.Bool(), Prog: r.Range(0, 4), NumLayers: r.Range(1, 10), PCRD: r.Bool(), Append: r.Intn(4) == 0}
		b := c05hBag{Par: p, HasRate: true, HasTarget: r.Bool(), HasLevels: r.Intn(3) != 0, HasLayers: r.Bool(), TargetAsInt: r.Bool()}
		if p.Append && r.Bool() { // with the final layer kept any rate is in scope; keep some at 0 too
			b.Par.Rate = r.Pick([]int{0, 0, 1, 5, 20, 100, 1280})
		}
		if b.HasLevels {
			v := r.Range(4, 2000)
			if r.Bool() { // whole ladder at or below the default Rate 20
				v = r.Range(2, 20)
			}
			for j := 0; j < r.Range(1, 8) && v > 1; j++ {
				b.Par.RateLevels = append(b.Par.RateLevels, v)
				v = v / r.Range(2, 4)
			}
		}
		// sizes large enough for a rate target to bite (a tiny frame survives a 1/20 budget by accident)
		k := c05Case{W: r.Range(24, 96), H: r.Range(24, 96), BA: ba, BS: bs, SPP: r.Pick([]int{1, 1, 3}), PR: r.Pick([]int{0, 0, 1}),
			Frames: r.Pick([]int{1, 1, 2}), Syntax: r.Pick([]int{90, 92})}
		c05hEval(c, k, b, []int{0, 0, 1, 3}[r.Intn(4)], "random")
	}
}

// c05hPixelData: codec.NewTestPixelData with frames added
func c05hPixelData(fi *imagetypes.FrameInfo, frames [][]byte) *codec.TestPixelData {
	pd := codec.NewTestPixelData(fi)
	for _, f := range frames {
		_ = pd.AddFrame(f)
	}
	return pd
}
